(** C04 / C13 — the invariant holds in every reachable state of the repaired coordinator; safety theorems. *)
From Coq Require Import List ZArith Bool Lia.
From CN Require Import Base.Lts Das.Coordinator Das.MapFacts Das.Invariant Das.InvFacts Das.InvSteps Das.InvCp.
Import ListNotations.
Open Scope Z_scope.

(** * What the slot-filling loop leaves alone *)
Definition same_env (s s' : st) : Prop :=
  head s' = head s /\ storehead s' = storehead s /\ running s' = running s /\ lo s' = lo s /\
  sampled s' = sampled s /\ persisted s' = persisted s /\ now s' = now s /\ bgprev s' = bgprev s.

Lemma same_env_refl s : same_env s s.
Proof. repeat split. Qed.

Lemma same_env_trans a b d : same_env a b -> same_env b d -> same_env a d.
Proof. unfold same_env. intuition congruence. Qed.

Lemma start_retry_env s h : same_env s (start_retry s h).
Proof. unfold start_retry. destruct (lookup h (failed s)); repeat split. Qed.

Lemma start_catchup_env c s s' : start_catchup c s = Some s' -> same_env s s'.
Proof. unfold start_catchup. destruct (head s <? next s); [discriminate|]. intros [= <-]. repeat split. Qed.

Lemma fill_env c fuel : forall picks s, same_env s (fill c fuel picks s).
Proof.
  induction fuel as [|f IH]; intros picks s; cbn [fill]; [apply same_env_refl|].
  destruct (limit c <=? Z.of_nat (length (workers s))); [apply same_env_refl|].
  destruct (choose picks (retriable s)) as [[h ps]|].
  - eapply same_env_trans; [apply start_retry_env|apply IH].
  - destruct (start_catchup c s) as [s'|] eqn:E; [|apply same_env_refl].
    eapply same_env_trans; [eapply start_catchup_env; exact E|apply IH].
Qed.

(** * The done flag *)

Lemma done_cond_workers s : workers s <> [] -> done_cond s = false.
Proof. unfold done_cond. destruct (workers s); [intros H; elim H; reflexivity|reflexivity]. Qed.

Lemma done_cond_failed s : failed s <> [] -> done_cond s = false.
Proof. unfold done_cond. destruct (workers s); [|reflexivity]. destruct (failed s); [intros H; elim H; reflexivity|reflexivity]. Qed.

Lemma done_cond_queued s : next s <= head s -> done_cond s = false.
Proof.
  unfold done_cond. intros H. destruct (workers s); [|reflexivity]. destruct (failed s); [|reflexivity].
  apply Z.ltb_ge. exact H.
Qed.

Lemma snoc_not_nil {A} (l : list A) x : l ++ [x] <> [].
Proof. destruct l; discriminate. Qed.

Lemma fill_done_ok c fuel : forall picks s, done_ok s -> done_ok (fill c fuel picks s).
Proof.
  induction fuel as [|f IH]; intros picks s Hd; cbn [fill]; [exact Hd|].
  destruct (limit c <=? Z.of_nat (length (workers s))); [exact Hd|].
  destruct (choose picks (retriable s)) as [[h ps]|].
  - apply IH. unfold start_retry. destruct (lookup h (failed s)) as [a|] eqn:Ha; [|exact Hd].
    unfold done_ok in *. cbn [done set_coord]. rewrite Hd.
    rewrite done_cond_failed by (intros E; rewrite E in Ha; discriminate).
    symmetry. apply done_cond_workers. cbn [workers set_coord]. apply snoc_not_nil.
  - destruct (start_catchup c s) as [s'|] eqn:E; [|exact Hd].
    apply IH. unfold start_catchup in E. destruct (Z.ltb_spec (head s) (next s)) as [|Hq]; [discriminate|].
    injection E as <-. unfold done_ok in *. cbn [done set_coord]. rewrite Hd.
    rewrite done_cond_queued by exact Hq.
    symmetry. apply done_cond_workers. cbn [workers set_coord]. apply snoc_not_nil.
Qed.

(** * Everything that holds in a reachable state *)
Definition Good (c : cfg) (s : st) : Prop :=
  Inv c s /\ bounds s /\ (running s = true -> done_ok s).

Lemma Inv_init c : valid c -> Inv c init.
Proof.
  intros (_ & Hl & _). constructor; cbn.
  - intros w [].
  - constructor.
  - intros h Hh. cbn in Hh. lia.
  - intros w h [].
  - intros h Hh. elim (dom_nil _ Hh).
  - intros h a b Ha. discriminate.
  - unfold conc. cbn [workers init filter length]. lia.
  - intros p Hp. discriminate.
Qed.

Lemma Good_init c : valid c -> Good c init.
Proof.
  intros Hv. split; [apply Inv_init, Hv|]. split; [|intros H; discriminate].
  split; [cbn; lia|intros H; discriminate].
Qed.

Section Reach.
  Variable c : cfg.
  Hypothesis Hv : valid c.

  Let Hvr : vr c = repaired. Proof. apply Hv. Qed.

  Lemma pers_mono s sh : Inv c s -> storehead s <= sh ->
    forall p, persisted s = Some p -> cp_good c (lo s) (sampled s) sh p.
  Proof.
    intros HI Hsh p Hp. eapply cp_good_mono; [apply (I_pers c s HI p Hp)|lia|auto|exact Hsh].
  Qed.

  (** filling the slots at the end of a coordinator event *)
  Lemma Good_fill picks s : Good c s -> Good c (fill_slots c picks s).
  Proof.
    intros (HI & (B1 & B2) & Hd). unfold fill_slots.
    destruct (fill_env c (Z.to_nat (limit c)) picks s) as (E1 & E2 & E3 & _).
    split; [apply Inv_fill; assumption|]. split.
    - split; [rewrite E1, E2; exact B1|]. rewrite E1, E2, E3. exact B2.
    - rewrite E3. intros Hr. apply fill_done_ok. apply Hd. exact Hr.
  Qed.

  Lemma Good_step s e : Good c s -> Good c (step c s e).
  Proof.
    intros HG. pose proof HG as (HI & (B1 & B2) & Hd).
    destruct e as [h picks|id picks|picks|picks|id o|d| | |tail hd picks]; cbn [step].
    - (* NewHead *)
      destruct (running s) eqn:Hrun; [|exact HG]. clear B2 Hd; destruct HG as (_ & (_ & B2) & Hd); specialize (B2 Hrun); specialize (Hd Hrun).
      apply Good_fill.
      set (s1 := set_env s true (bgprev s) (now s) (persisted s) (Z.max (storehead s) h)).
      assert (HI1 : Inv c s1).
      { apply Inv_env; [exact HI|lia|]. intros p Hp. apply (pers_mono s); [exact HI|lia|exact Hp]. }
      unfold handle_head. change (head s1) with (head s).
      destruct (Z.ltb_spec (head s) h) as [Hnew|Hold].
      + set (s2 := if Z.of_nat (length (workers s1)) <? 2 * limit c then start_recent s1 h else s1).
        assert (HI2 : Inv c s2).
        { unfold s2. destruct (Z.ltb_spec (Z.of_nat (length (workers s1))) (2 * limit c)); [|exact HI1].
          apply Inv_start_recent; assumption. }
        assert (E2 : storehead s2 = Z.max (storehead s) h /\ running s2 = true).
        { unfold s2. destruct (Z.of_nat (length (workers s1)) <? 2 * limit c); split; reflexivity. }
        destruct E2 as [E2 E3].
        split; [apply Inv_set_done, Inv_set_head, HI2|]. split.
        * unfold bounds, check_done. psimpl. rewrite E2. split; [lia|intros _; lia].
        * intros _. unfold done_ok, check_done. psimpl. reflexivity.
      + split; [exact HI1|]. split.
        * unfold bounds, s1. psimpl. split; [lia|intros _; lia].
        * intros _. exact Hd.
    - (* Deliver *)
      destruct (running s) eqn:Hrun; [|exact HG].
      destruct (find_worker s id) as [w|] eqn:Hf; [|exact HG].
      destruct (wfinished w && negb (wexit w)) eqn:Hfin; [|exact HG].
      clear B2 Hd; destruct HG as (_ & (_ & B2) & Hd); specialize (B2 Hrun); specialize (Hd Hrun).
      apply andb_true_iff in Hfin as [Hfin _]. apply find_worker_in in Hf as [Hw _].
      apply Good_fill. split; [apply Inv_handle_result; assumption|]. split.
      + unfold handle_result, check_done, bounds. destruct (wty w); psimpl; (split; [assumption|intros _; exact B2]).
      + intros _. unfold handle_result, check_done, done_ok. destruct (wty w); psimpl; reflexivity.
    - (* Wake *)
      destruct (running s); [apply Good_fill|]; exact HG.
    - (* Checkpoint *)
      destruct (running s) eqn:Hrun; [|exact HG]. apply Good_fill.
      destruct (bgprev s <? c_from (cp_of c s)); [|exact HG].
      clear B2 Hd; destruct HG as (_ & (_ & B2) & Hd); specialize (B2 Hrun); specialize (Hd Hrun).
      split; [|split].
      + apply Inv_env; [exact HI|lia|]. intros p [= <-]. apply cp_of_good; assumption.
      + unfold bounds. psimpl. split; [exact B1|intros _; exact B2].
      + intros _. exact Hd.
    - (* Step *)
      destruct (running s) eqn:Hrun; [|exact HG].
      destruct (find_worker s id) as [w|] eqn:Hf; [|exact HG].
      destruct (wfinished w || wexit w) eqn:Hfin; [exact HG|].
      clear B2 Hd; destruct HG as (_ & (_ & B2) & Hd); specialize (B2 Hrun); specialize (Hd Hrun).
      apply orb_false_iff in Hfin as [Hfin _]. apply find_worker_in in Hf as [Hw _].
      split; [apply Inv_step_worker; assumption|]. split.
      + unfold step_worker, bounds. rewrite Hvr. destruct o; psimpl; unfold upd_worker; psimpl; (split; [assumption|intros _; exact B2]).
      + intros _. unfold done_ok in *.
        assert (Hne : workers s <> []) by (intros E; rewrite E in Hw; elim Hw).
        assert (Hd0 : done s = false) by (rewrite Hd; apply done_cond_workers; exact Hne).
        assert (Hgen : forall w' smp,
          done_ok (mkSt (next s) (head s) (failed s) (inretry s)
                        (map (fun x => if wid x =? wid w' then w' else x) (workers s)) (nextid s) (done s)
                        (running s) (bgprev s) (now s) (persisted s) (storehead s) (lo s) smp)).
        { intros w' smp. unfold done_ok. psimpl. rewrite Hd0. symmetry. apply done_cond_workers. psimpl.
          intros E. apply Hne. destruct (workers s); [reflexivity|discriminate]. }
        unfold step_worker. rewrite Hvr. cbn [fix_cancel repaired]. destruct o; apply Hgen.
    - (* Tick *)
      destruct (0 <? d); [|exact HG]. split; [|split].
      + apply Inv_env; [exact HI|lia|]. intros p Hp. apply (I_pers c s HI p Hp).
      + exact (conj B1 B2).
      + exact Hd.
    - (* Stop *)
      destruct (running s) eqn:Hrun; [|exact HG]. split; [|split].
      + apply Inv_env; [exact HI|lia|]. intros p [= <-]. apply cp_of_good; assumption.
      + split; [exact B1|intros H; discriminate].
      + intros H. discriminate.
    - (* Crash *)
      split; [|split].
      + apply Inv_env; [exact HI|lia|]. intros p Hp. apply (I_pers c s HI p Hp).
      + split; [exact B1|intros H; discriminate].
      + intros H. discriminate.
    - (* Restart *)
      destruct (running s || (tail <? 1)) eqn:Hgo; [exact HG|].
      set (sh := Z.max (Z.max (storehead s) hd) tail).
      set (p := start_cp tail sh (persisted s)).
      set (s0 := mkSt (next s) (head s) (failed s) (inretry s) (workers s) (nextid s) (done s) false 0 (now s)
                      (persisted s) sh (Z.max (lo s) tail) (sampled s)).
      assert (Hp : cp_good c (Z.max (lo s) tail) (sampled s) sh p).
      { apply (start_cp_good c Hv (lo s) (sampled s) (storehead s)); [apply (I_pers c s HI)|unfold sh; lia]. }
      assert (Hhead : c_head p = sh).
      { unfold p. destruct (persisted s) as [q|] eqn:Eq; cbn [start_cp clamp c_head]; [|reflexivity].
        destruct (I_pers c s HI q Eq) as (_ & G2 & _). unfold sh in *. lia. }
      apply Good_fill. split; [|split].
      + apply Inv_resume; [exact Hv|exact Hp|].
        intros q Hq. eapply cp_good_mono; [apply (I_pers c s HI q Hq)|unfold s0; psimpl; lia|auto|unfold s0, sh; psimpl; lia].
      + unfold resume. rewrite Hvr. cbn [fix_start_done repaired]. unfold check_done, bounds. psimpl.
        rewrite Hhead. unfold s0. psimpl. split; [lia|reflexivity].
      + intros _. unfold resume. rewrite Hvr. cbn [fix_start_done repaired]. unfold check_done, done_ok. psimpl. reflexivity.
  Qed.

  Theorem Good_run es : Good c (run c init es).
  Proof.
    unfold run. apply (Lts.run_inv (step c) (Good c)); [intros s e; apply Good_step|apply Good_init, Hv].
  Qed.
End Reach.

(** Checkpoints: the checkpoint of a state satisfying the invariant is safe to resume from; clamping keeps it safe;
    resuming from a safe checkpoint re-establishes the invariant. *)
From Coq Require Import List ZArith Bool Lia.
From CN Require Import Das.Coordinator Das.MapFacts Das.Invariant Das.InvFacts.
Import ListNotations.
Open Scope Z_scope.

(** * Sorting the persisted workers is a permutation *)
Lemma cpw_ins_in x l y : In y (cpw_ins x l) <-> y = x \/ In y l.
Proof.
  induction l as [|z l IH]; cbn; [intuition|].
  destruct (cpw_leb x z); cbn; [intuition|]. rewrite IH. intuition.
Qed.

Lemma cpw_sort_in l y : In y (cpw_sort l) <-> In y l.
Proof.
  unfold cpw_sort. induction l as [|x l IH]; cbn; [reflexivity|]. rewrite cpw_ins_in, IH. intuition.
Qed.

Lemma cpw_ins_filter_len (p : cpw -> bool) x l :
  length (filter p (cpw_ins x l)) = length (filter p (x :: l)).
Proof.
  induction l as [|z l IH]; cbn; [reflexivity|].
  destruct (cpw_leb x z); cbn; [reflexivity|].
  destruct (p z) eqn:Ez; cbn; rewrite IH; cbn; destruct (p x); cbn; reflexivity.
Qed.

Lemma cpw_sort_filter_len (p : cpw -> bool) l : length (filter p (cpw_sort l)) = length (filter p l).
Proof.
  unfold cpw_sort. induction l as [|x l IH]; cbn; [reflexivity|].
  rewrite cpw_ins_filter_len. cbn. destruct (p x); cbn; rewrite IH; reflexivity.
Qed.

Lemma cpw_sort_len l : length (cpw_sort l) = length l.
Proof.
  pose proof (cpw_sort_filter_len (fun _ => true) l) as H.
  assert (E : forall m : list cpw, filter (fun _ => true) m = m) by (induction m; cbn; congruence).
  rewrite !E in H. exact H.
Qed.

(** * Resumed workers *)
Definition resumed_from (w : worker) (cw : cpw) : Prop :=
  wty w = cw_ty cw /\ wfrom w = cw_from cw /\ wto w = cw_to cw /\ wnext w = cw_from cw /\ wfail w = [] /\ wexit w = false.

Lemma resume_workers_in l : forall id w,
  In w (resume_workers id l) -> (exists cw, In cw l /\ resumed_from w cw) /\ id < wid w <= id + Z.of_nat (length l).
Proof.
  induction l as [|cw l IH]; intros id w Hw; [elim Hw|].
  cbn [resume_workers] in Hw. destruct Hw as [<-|Hw].
  - split; [exists cw; split; [left; reflexivity|repeat split]|]. cbn [wid new_worker length]. lia.
  - destruct (IH (id + 1) w Hw) as [[cw' [Hin Hr]] Hid]. split; [exists cw'; split; [right; exact Hin|exact Hr]|].
    cbn [length]. lia.
Qed.

Lemma resume_workers_of l : forall id cw, In cw l -> exists w, In w (resume_workers id l) /\ resumed_from w cw.
Proof.
  induction l as [|cw0 l IH]; intros id cw Hin; [elim Hin|].
  destruct Hin as [->|Hin].
  - exists (new_worker (id + 1) (cw_ty cw) (cw_from cw) (cw_to cw)). split; [left; reflexivity|repeat split].
  - destruct (IH (id + 1) cw Hin) as [w [Hw Hr]]. exists w. split; [right; exact Hw|exact Hr].
Qed.

Lemma resume_workers_nodup l : forall id, NoDup (map wid (resume_workers id l)).
Proof.
  induction l as [|cw l IH]; intros id; cbn; [constructor|].
  constructor; [|apply IH].
  intros H. apply in_map_iff in H as [w [E Hw]]. apply resume_workers_in in Hw as [_ Hid]. lia.
Qed.

Lemma resume_workers_len l : forall id, length (resume_workers id l) = length l.
Proof. induction l as [|cw l IH]; intros id; cbn; [reflexivity|]. rewrite IH. reflexivity. Qed.

Lemma resume_workers_nonrecent l : forall id,
  length (filter nonrecent (resume_workers id l)) = length (filter cnonrecent l).
Proof.
  induction l as [|cw l IH]; intros id; cbn [resume_workers filter]; [reflexivity|].
  change (nonrecent (new_worker (id + 1) (cw_ty cw) (cw_from cw) (cw_to cw))) with (cnonrecent cw).
  destruct (cnonrecent cw); cbn [length]; rewrite IH; reflexivity.
Qed.

Section Cp.
  Variable c : cfg.
  Hypothesis Hv : valid c.

  Let Hvr : vr c = repaired. Proof. apply Hv. Qed.
  Let Hlim : 1 <= limit c. Proof. apply Hv. Qed.

  Lemma wcurr_bounds s w : wf_worker s w -> wcurr w <= wnext w /\ wcurr w <= wto w /\ wfrom w <= wcurr w.
  Proof.
    intros (W1 & W2 & W3 & _). unfold wcurr. destruct (Z.eqb_spec (wnext w) (wfrom w)); lia.
  Qed.

  (** ** the checkpoint of a good state is good *)
  Lemma cp_of_good s :
    Inv c s -> head s <= storehead s -> cp_good c (lo s) (sampled s) (storehead s) (cp_of c s).
  Proof.
    intros HI Hhead. unfold cp_good, cp_of. cbn [c_from c_head c_failed c_workers].
    set (g := fun w => mkCpw (wty w) (wcurr w) (wto w)).
    split; [|split; [exact Hhead|split; [|split]]].
    - intros h Hh. destruct (I_cover c s HI h Hh) as [H|[H|[H|H]]].
      + left. exact H.
      + right. left. apply dom_stats_failed. right. left. exact H.
      + right. left. apply dom_stats_failed. right. right. exact H.
      + destruct H as [w [Hw [Hty [Hr [Hc|Hc]]]]].
        * right. right. exists (g w). split.
          -- apply in_map. apply filter_In. split; [exact Hw|]. unfold persist_worker.
             destruct (wty w); [reflexivity|rewrite Hvr; reflexivity|elim Hty; reflexivity].
          -- unfold cpw_covers, g. cbn [cw_from cw_to].
             destruct (wcurr_bounds s w (I_wf c s HI w Hw)). lia.
        * right. left. apply dom_stats_failed. left. exists w. split; assumption.
    - rewrite (length_filter_map g nonrecent cnonrecent) by reflexivity.
      pose proof (length_filter_filter nonrecent (persist_worker c) (workers s)).
      destruct (I_conc c s HI). lia.
    - rewrite map_length. pose proof (length_filter_le (persist_worker c) (workers s)).
      destruct (I_conc c s HI). lia.
    - intros cw Hcw. apply in_map_iff in Hcw as [w [<- Hw]]. apply filter_In in Hw as [Hw Hp].
      pose proof (I_wf c s HI w Hw) as Hwf. destruct (wcurr_bounds s w Hwf) as (B1 & B2 & B3).
      destruct Hwf as (W1 & W2 & W3 & W4 & W5 & W6 & W7 & W8).
      unfold g. cbn [cw_from cw_to cw_ty]. repeat split.
      + exact B2.
      + intros E. unfold persist_worker in Hp. rewrite E in Hp. discriminate.
      + intros E. assert (wfrom w = wto w) by (apply W6; rewrite E; discriminate). lia.
      + exact W7.
  Qed.

  (** ** clamping to the store's tail and head *)
  Lemma clamp_good lo0 smp sh sh' p tail hd :
    cp_good c lo0 smp sh p -> sh <= sh' -> hd <= sh' ->
    cp_good c (Z.max lo0 tail) smp sh' (clamp tail hd p).
  Proof.
    intros (H1 & H2 & H3 & H4 & H5) Hsh Hhd. unfold cp_good, clamp. cbn [c_from c_head c_failed c_workers].
    set (g := fun w => mkCpw (cw_ty w) (Z.max (cw_from w) tail) (cw_to w)).
    set (q := fun w => tail <=? cw_to w).
    split; [|split; [lia|split; [|split]]].
    - intros h Hh. destruct (H1 h) as [H|[H|H]]; [lia| | |].
      + left. exact H.
      + right. left. apply (dom_filter_key (fun k => tail <=? k)). split; [apply Z.leb_le; lia|exact H].
      + destruct H as [w [Hw Hc]]. right. right. exists (g w). split.
        * apply in_map. apply filter_In. split; [exact Hw|]. unfold q. apply Z.leb_le. unfold cpw_covers in Hc. lia.
        * unfold cpw_covers, g in *. cbn [cw_from cw_to]. lia.
    - rewrite (length_filter_map g cnonrecent cnonrecent) by reflexivity.
      pose proof (length_filter_filter cnonrecent q (c_workers p)). lia.
    - rewrite map_length. pose proof (length_filter_le q (c_workers p)). lia.
    - intros cw Hcw. apply in_map_iff in Hcw as [w [<- Hw]]. apply filter_In in Hw as [Hw Hq].
      unfold q in Hq. apply Z.leb_le in Hq. destruct (H5 w Hw) as (A1 & A2 & A3 & A4).
      unfold g. cbn [cw_from cw_to cw_ty]. repeat split.
      + lia.
      + exact A2.
      + intros E. specialize (A3 E). lia.
      + intros E. specialize (A4 E). lia.
  Qed.

  Lemma start_cp_good lo0 smp sh sh' tail o :
    (forall p, o = Some p -> cp_good c lo0 smp sh p) -> sh <= sh' ->
    cp_good c (Z.max lo0 tail) smp sh' (start_cp tail sh' o).
  Proof.
    intros Ho Hsh. destruct o as [p|]; cbn [start_cp].
    - apply (clamp_good lo0 smp sh sh'); [apply Ho; reflexivity|exact Hsh|lia].
    - unfold cp_good. cbn [c_from c_head c_failed c_workers filter length].
      split; [intros h Hh; lia|]. split; [lia|]. split; [cbn [filter length]; lia|]. split; [cbn [length]; lia|]. intros w [].
  Qed.

  (** ** resuming *)
  Lemma Inv_resume s0 p :
    cp_good c (lo s0) (sampled s0) (storehead s0) p ->
    (forall q, persisted s0 = Some q -> cp_good c (lo s0) (sampled s0) (storehead s0) q) ->
    Inv c (resume c s0 p).
  Proof.
    intros (H1 & H2 & H3 & H4 & H5) Hpers. unfold resume. rewrite Hvr. cbn [fix_start_done repaired].
    unfold check_done. apply Inv_set_done.
    set (l := cpw_sort (c_workers p)).
    assert (Hl : forall cw, In cw l <-> In cw (c_workers p)) by (intros cw; apply cpw_sort_in).
    constructor; psimpl.
    - intros w Hw. psimpl. apply resume_workers_in in Hw as [[cw [Hcw (R1 & R2 & R3 & R4 & R5 & R6)]] Hid].
      apply Hl in Hcw. destruct (H5 cw Hcw) as (A1 & A2 & A3 & A4).
      unfold wf_worker. psimpl. rewrite R1, R2, R3, R4, R5, R6. repeat split; try lia.
      + match goal with H : dom [] _ |- _ => elim (dom_nil _ H) end.
      + match goal with H : dom [] _ |- _ => elim (dom_nil _ H) end.
      + intros E. apply A3. destruct (cw_ty cw); [elim E; reflexivity|reflexivity|elim A2; reflexivity].
      + exact A4.
      + rewrite resume_workers_len. lia.
    - apply resume_workers_nodup.
    - intros h Hh. psimpl. destruct (H1 h Hh) as [H|[H|H]].
      + left. exact H.
      + right. left. unfold dom in *. rewrite (lookup_map_val (fun v => mkAtt v (now s0 - 1))).
        destruct (lookup h (c_failed p)); [discriminate|elim H; reflexivity].
      + destruct H as [cw [Hcw Hc]]. apply Hl in Hcw. destruct (resume_workers_of l 0 cw Hcw) as [w [Hw (R1 & R2 & R3 & R4 & R5 & R6)]].
        right. right. right. exists w. split; [exact Hw|]. apply Hl in Hcw. destruct (H5 cw Hcw) as (A1 & A2 & A3 & A4).
        split; [rewrite R1; exact A2|]. unfold wcovers, cpw_covers in *. rewrite R2, R3, R4. lia.
    - intros w h Hw Hh. psimpl. apply resume_workers_in in Hw as [[cw [Hcw (R1 & R2 & R3 & R4 & R5 & R6)]] Hid]. lia.
    - intros h Hh. elim (dom_nil _ Hh).
    - intros h a b _ Hb. cbn in Hb. discriminate.
    - unfold conc. psimpl. rewrite resume_workers_nonrecent, resume_workers_len. unfold l.
      rewrite cpw_sort_filter_len, cpw_sort_len. split; assumption.
    - exact Hpers.
  Qed.
End Cp.

(** The coordinator invariant and its preservation by the primitive actions of the repaired code. *)
From Coq Require Import List ZArith Bool Lia.
From CN Require Import Das.Coordinator Das.MapFacts.
Import ListNotations.
Open Scope Z_scope.

Definition nonrecent (w : worker) : bool := negb (jtype_eqb (wty w) Recent).
Definition cnonrecent (w : cpw) : bool := negb (jtype_eqb (cw_ty w) Recent).

Lemma jtype_eqb_eq a b : jtype_eqb a b = true <-> a = b.
Proof. destruct a, b; cbn; split; intros H; congruence. Qed.

Definition valid (c : cfg) : Prop := vr c = repaired /\ 1 <= limit c /\ 1 <= range c.

(** a worker covers a height it has not sampled yet, or has recorded as failed *)
Definition wcovers (w : worker) (h : Z) : Prop :=
  wfrom w <= h <= wto w /\ (wnext w <= h \/ dom (wfail w) h).

Definition wf_worker (s : st) (w : worker) : Prop :=
  wfrom w <= wnext w /\ wnext w <= wto w + 1 /\ wfrom w <= wto w /\
  (forall h, dom (wfail w) h -> wfrom w <= h < wnext w) /\
  wexit w = false /\
  (wty w <> Catchup -> wfrom w = wto w) /\
  (wty w = Catchup -> wto w < next s) /\
  wid w <= nextid s.

Definition cover (s : st) : Prop :=
  forall h, lo s <= h < next s ->
    In h (sampled s) \/ dom (failed s) h \/ dom (inretry s) h \/
    exists w, In w (workers s) /\ wty w <> Retry /\ wcovers w h.

Definition wsampled (s : st) : Prop :=
  forall w h, In w (workers s) -> wfrom w <= h < wnext w -> dom (wfail w) h \/ In h (sampled s).

Definition retry_ok (s : st) : Prop :=
  forall h, dom (inretry s) h -> exists w, In w (workers s) /\ wty w = Retry /\ wfrom w = h.

Definition att_order (s : st) : Prop :=
  forall h a b, lookup h (failed s) = Some a -> lookup h (inretry s) = Some b -> cnt b <= cnt a.

Definition conc (c : cfg) (s : st) : Prop :=
  Z.of_nat (length (filter nonrecent (workers s))) <= limit c /\ Z.of_nat (length (workers s)) <= 2 * limit c.

Definition bounds (s : st) : Prop :=
  head s <= storehead s /\ (running s = true -> head s = storehead s).

Definition cpw_covers (w : cpw) (h : Z) : Prop := cw_from w <= h <= cw_to w.

(** what makes a checkpoint safe to resume from, relative to the ghost state *)
Definition cp_good (c : cfg) (lo0 : Z) (smp : list Z) (sh : Z) (p : cp) : Prop :=
  (forall h, lo0 <= h < c_from p ->
     In h smp \/ dom (c_failed p) h \/ exists w, In w (c_workers p) /\ cpw_covers w h) /\
  c_head p <= sh /\
  Z.of_nat (length (filter cnonrecent (c_workers p))) <= limit c /\
  Z.of_nat (length (c_workers p)) <= 2 * limit c /\
  (forall w, In w (c_workers p) ->
     cw_from w <= cw_to w /\ cw_ty w <> Retry /\ (cw_ty w = Recent -> cw_from w = cw_to w) /\
     (cw_ty w = Catchup -> cw_to w < c_from p)).

Record Inv (c : cfg) (s : st) : Prop := mkInv {
  I_wf : forall w, In w (workers s) -> wf_worker s w;
  I_ids : NoDup (map wid (workers s));
  I_cover : cover s;
  I_ws : wsampled s;
  I_retry : retry_ok s;
  I_att : att_order s;
  I_conc : conc c s;
  I_pers : forall p, persisted s = Some p -> cp_good c (lo s) (sampled s) (storehead s) p
}.

Definition done_ok (s : st) : Prop := done s = done_cond s.

(** reduce projections of explicit states only (plain [cbn] also unfolds [2 * _] and the like) *)
Ltac psimpl :=
  cbn [next head failed inretry workers nextid done running bgprev now persisted storehead lo sampled
       wid wty wfrom wto wnext wfail wexit set_coord set_workers set_done set_env add_sampled
       c_from c_head c_failed c_workers cw_ty cw_from cw_to] in *.

(** * List helpers *)
Lemma in_snoc {A} (l : list A) x y : In x (l ++ [y]) <-> In x l \/ x = y.
Proof. rewrite in_app_iff. cbn. split; intros [H|H]; auto. destruct H as [H|[]]; auto. Qed.

Lemma NoDup_snoc {A} (l : list A) x : NoDup l -> ~ In x l -> NoDup (l ++ [x]).
Proof.
  induction l as [|y l IH]; intros Hn Hx; cbn; [constructor; [intros []|constructor]|].
  inversion Hn; subst. constructor.
  - rewrite in_snoc. intros [H|H]; [contradiction|]. subst. apply Hx. left. reflexivity.
  - apply IH; [assumption|]. intros H. apply Hx. right. exact H.
Qed.

Lemma new_id_fresh (s : st) :
  (forall w, In w (workers s) -> wid w <= nextid s) -> ~ In (nextid s + 1) (map wid (workers s)).
Proof.
  intros H Hin. apply in_map_iff in Hin as [w [E Hw]]. specialize (H w Hw). lia.
Qed.

(** * Adding a freshly created worker *)
Section Add.
  Variable c : cfg.
  Hypothesis Hv : valid c.

  Lemma wf_mono s s' w :
    next s <= next s' -> nextid s <= nextid s' -> wf_worker s w -> wf_worker s' w.
  Proof.
    intros Hn Hi (H1 & H2 & H3 & H4 & H5 & H6 & H7 & H8). repeat split; try assumption; try (apply H4; assumption).
    - intros E. specialize (H7 E). lia.
    - lia.
  Qed.

  (** the three job constructors share this shape: cursor moved to [nx], maps replaced, one worker appended *)
  Definition added (s : st) (nx : Z) (f r : amap att) (nw : worker) : st :=
    set_coord s nx (head s) f r (workers s ++ [nw]) (nextid s + 1) (done s).

  Lemma Inv_added s nx f r nw :
    Inv c s ->
    next s <= nx ->
    wid nw = nextid s + 1 -> wnext nw = wfrom nw -> wfail nw = [] -> wexit nw = false ->
    wfrom nw <= wto nw -> (wty nw <> Catchup -> wfrom nw = wto nw) -> (wty nw = Catchup -> wto nw < nx) ->
    (* slots *)
    (if nonrecent nw then Z.of_nat (length (workers s)) < limit c else Z.of_nat (length (workers s)) < 2 * limit c) ->
    (* coverage is kept *)
    (forall h, lo s <= h < nx ->
       In h (sampled s) \/ dom f h \/ dom r h \/
       (exists w, In w (workers s) /\ wty w <> Retry /\ wcovers w h) \/ (wty nw <> Retry /\ wfrom nw <= h <= wto nw)) ->
    (forall h, dom r h -> dom (inretry s) h \/ (wty nw = Retry /\ wfrom nw = h)) ->
    (forall h a b, lookup h f = Some a -> lookup h r = Some b -> cnt b <= cnt a) ->
    Inv c (added s nx f r nw).
  Proof.
    intros HI Hnx Hid Hnext Hfail Hexit Hft Hnc Hc Hslot Hcov Hret Hatt.
    destruct HI as [Hwf Hids Hcover Hws Hretry Hatt0 [Hc1 Hc2] Hpers].
    constructor; unfold added; psimpl.
    - intros w Hw. apply in_snoc in Hw as [Hw| ->].
      + eapply wf_mono; [| |apply Hwf, Hw]; psimpl; lia.
      + unfold wf_worker; psimpl. rewrite Hnext, Hfail, Hid.
        repeat split; try lia; try assumption;
          match goal with H : dom [] _ |- _ => elim (dom_nil _ H) end.
    - rewrite map_app. cbn [map]. rewrite Hid. apply NoDup_snoc; [exact Hids|].
      apply new_id_fresh. intros w Hw. apply (Hwf w Hw).
    - intros h Hh. destruct (Hcov h Hh) as [H|[H|[H|[H|H]]]]; auto.
      + destruct H as [w [Hw [Ht Hcw]]]. right. right. right. exists w. split; [apply in_snoc; left; exact Hw|]. split; assumption.
      + right. right. right. exists nw. split; [apply in_snoc; right; reflexivity|]. split; [apply H|].
        split; [apply H|]. left. rewrite Hnext. apply H.
    - intros w h Hw Hh. apply in_snoc in Hw as [Hw| ->].
      + apply (Hws w h Hw Hh).
      + exfalso. rewrite Hnext in Hh. lia.
    - intros h Hh. destruct (Hret h Hh) as [H|[H1 H2]].
      + destruct (Hretry h H) as [w [Hw [Ht Hf]]]. exists w. split; [apply in_snoc; left; exact Hw|]. split; assumption.
      + exists nw. split; [apply in_snoc; right; reflexivity|]. split; assumption.
    - intros h a b Ha Hb'. eapply Hatt; eassumption.
    - unfold conc. psimpl. rewrite filter_app_len, app_length. cbn [length].
      pose proof (length_filter_le nonrecent (workers s)) as Hle.
      revert Hslot. destruct (nonrecent nw); intros Hslot; lia.
    - exact Hpers.
  Qed.
End Add.

(** * Changes that do not touch what the invariant talks about *)
Lemma cp_good_mono c lo0 lo1 smp smp' sh sh' p :
  cp_good c lo0 smp sh p -> lo0 <= lo1 -> (forall h, In h smp -> In h smp') -> sh <= sh' -> cp_good c lo1 smp' sh' p.
Proof.
  intros (H1 & H2 & H3 & H4 & H5) Hlo Hs Hsh. repeat split; try assumption; try lia.
  - intros h Hh. destruct (H1 h) as [H|[H|H]]; [lia| | |]; auto.
  - apply H5; assumption.
  - apply H5; assumption.
  - apply H5; assumption.
  - apply H5; assumption.
Qed.

Lemma wf_worker_eq s s' w : next s = next s' -> nextid s = nextid s' -> wf_worker s w -> wf_worker s' w.
Proof. intros E1 E2. unfold wf_worker. rewrite E1, E2. exact (fun H => H). Qed.

(** same coordinator part, other environment *)
Lemma Inv_env c s run bp nw po sh :
  Inv c s -> storehead s <= sh ->
  (forall p, po = Some p -> cp_good c (lo s) (sampled s) sh p) ->
  Inv c (set_env s run bp nw po sh).
Proof.
  intros [Hwf Hids Hcover Hws Hretry Hatt Hconc Hpers] Hsh Hpo.
  constructor; psimpl; try assumption.
Qed.

Lemma Inv_set_done c s d : Inv c s -> Inv c (set_done s d).
Proof. intros [Hwf Hids Hcover Hws Hretry Hatt Hconc Hpers]. constructor; psimpl; assumption. Qed.

Lemma Inv_set_head c s h :
  Inv c s -> Inv c (set_coord s (next s) h (failed s) (inretry s) (workers s) (nextid s) (done s)).
Proof. intros [Hwf Hids Hcover Hws Hretry Hatt Hconc Hpers]. constructor; psimpl; assumption. Qed.

(** Preservation of the invariant by job creation, slot filling, result handling and worker steps. *)
From Coq Require Import List ZArith Bool Lia.
From CN Require Import Das.Coordinator Das.MapFacts Das.Invariant Das.InvFacts.
Import ListNotations.
Open Scope Z_scope.

Lemma length_filter_map_in {A} (g : A -> A) (p : A -> bool) (l : list A) :
  (forall x, In x l -> p (g x) = p x) -> length (filter p (map g l)) = length (filter p l).
Proof.
  induction l as [|x l IH]; intros H; cbn; [reflexivity|].
  rewrite H by (left; reflexivity). destruct (p x); cbn; rewrite IH; try reflexivity; intros y Hy; apply H; right; exact Hy.
Qed.

Ltac wsimpl := cbn [wid wty wfrom wto wnext wfail wexit new_worker nonrecent jtype_eqb negb].

Section Steps.
  Variable c : cfg.
  Hypothesis Hv : valid c.

  Let Hvr : vr c = repaired. Proof. apply Hv. Qed.
  Let Hlim : 1 <= limit c. Proof. apply Hv. Qed.
  Let Hrange : 1 <= range c. Proof. apply Hv. Qed.

  Ltac old_cover Hcover h :=
    let H := fresh "H" in
    destruct (Hcover h) as [H|[H|[H|H]]]; [lia| | | |]; auto.

  (** ** catch-up job *)
  Lemma Inv_start_catchup s s' :
    Inv c s -> Z.of_nat (length (workers s)) < limit c -> start_catchup c s = Some s' -> Inv c s'.
  Proof.
    intros HI Hslot. unfold start_catchup. destruct (Z.ltb_spec (head s) (next s)) as [|Hnh]; [discriminate|].
    intros [= <-].
    set (to := Z.min (next s + range c - 1) (head s)).
    assert (Hto : next s <= to) by (unfold to; lia).
    apply (Inv_added c s (to + 1) (failed s) (inretry s) (new_worker (nextid s + 1) Catchup (next s) to)); wsimpl;
      try reflexivity; try lia; try exact HI.
    - intros H. elim H. reflexivity.
    - intros h Hh. destruct (Z.lt_ge_cases h (next s)) as [Hlt|Hge].
      + old_cover (I_cover c s HI) h.
      + right. right. right. right. split; [discriminate|lia].
    - intros h H. left. exact H.
    - apply (I_att c s HI).
  Qed.

  (** ** retry job *)
  Lemma Inv_start_retry s h :
    Inv c s -> Z.of_nat (length (workers s)) < limit c -> Inv c (start_retry s h).
  Proof.
    intros HI Hslot. unfold start_retry. destruct (lookup h (failed s)) as [a|] eqn:Ha; [|exact HI].
    apply (Inv_added c s (next s) (remove h (failed s)) (insert h a (inretry s)) (new_worker (nextid s + 1) Retry h h)); wsimpl;
      try reflexivity; try lia; try exact HI.
    - intros H; discriminate.
    - intros h0 Hh0. destruct (I_cover c s HI h0 Hh0) as [H|[H|[H|H]]]; auto.
      destruct (Z.eq_dec h0 h) as [->|Hne].
      + right. right. left. apply dom_insert. left. reflexivity.
      + right. left. apply dom_remove. split; assumption.
      + right. right. left. apply dom_insert. right. exact H.
    - intros h0 H. apply dom_insert in H as [->|H]; [right; split; reflexivity | left; exact H].
    - intros h0 a0 b0 H1 H2. destruct (Z.eq_dec h0 h) as [->|Hne].
      + rewrite lookup_remove_eq in H1. discriminate.
      + rewrite lookup_remove_ne in H1 by exact Hne. rewrite lookup_insert_ne in H2 by exact Hne.
        eapply (I_att c s HI); eassumption.
  Qed.

  (** ** recent job *)
  Lemma Inv_start_recent s h :
    Inv c s -> Z.of_nat (length (workers s)) < 2 * limit c -> Inv c (start_recent s h).
  Proof.
    intros HI Hslot. unfold start_recent.
    set (nx := if next s =? h then next s + 1 else next s).
    assert (Hnx : next s <= nx) by (unfold nx; destruct (next s =? h); lia).
    apply (Inv_added c s nx (failed s) (inretry s) (new_worker (nextid s + 1) Recent h h)); wsimpl;
      try reflexivity; try lia; try exact HI.
    - intros H; discriminate.
    - intros h0 Hh0. destruct (Z.lt_ge_cases h0 (next s)) as [Hlt|Hge].
      + old_cover (I_cover c s HI) h0.
      + right. right. right. right. split; [discriminate|].
        unfold nx in Hh0. destruct (Z.eqb_spec (next s) h); lia.
    - intros h0 H. left. exact H.
    - apply (I_att c s HI).
  Qed.

  (** ** filling the slots *)
  Lemma Inv_fill fuel : forall picks s, Inv c s -> Inv c (fill c fuel picks s).
  Proof.
    induction fuel as [|f IH]; intros picks s HI; cbn [fill]; [exact HI|].
    destruct (Z.leb_spec (limit c) (Z.of_nat (length (workers s)))) as [|Hslot]; [exact HI|].
    destruct (choose picks (retriable s)) as [[h ps]|].
    - apply IH. apply Inv_start_retry; assumption.
    - destruct (start_catchup c s) as [s'|] eqn:E; [|exact HI].
      apply IH. eapply Inv_start_catchup; eassumption.
  Qed.

  Lemma Inv_fill_slots picks s : Inv c s -> Inv c (fill_slots c picks s).
  Proof. apply Inv_fill. Qed.

  (** ** result handling *)
  Lemma in_range_spec w h : in_range w h = true <-> wfrom w <= h <= wto w.
  Proof. unfold in_range. rewrite andb_true_iff, !Z.leb_le. reflexivity. Qed.

  Lemma Inv_handle_result s w :
    Inv c s -> In w (workers s) -> wfinished w = true -> Inv c (handle_result c s w).
  Proof.
    intros HI Hw Hfin. unfold wfinished in Hfin. apply Z.ltb_lt in Hfin.
    pose proof (I_wf c s HI w Hw) as (W1 & W2 & W3 & W4 & W5 & W6 & W7 & W8).
    assert (Hfixc : fix_count (vr c) = true) by (rewrite Hvr; reflexivity).
    set (ws' := filter (fun x => negb (wid x =? wid w)) (workers s)).
    assert (Hin' : forall x, In x ws' <-> In x (workers s) /\ x <> w).
    { intros x. apply in_remove_id; [apply (I_ids c s HI)|exact Hw]. }
    set (hs := keys (wfail w)).
    assert (Hgen : forall f1 r' ty,
      (forall h, dom (failed s) h -> dom f1 h \/ (in_range w h = true /\ ~ dom (wfail w) h)) ->
      (forall h a, lookup h f1 = Some a -> lookup h (failed s) = Some a) ->
      (forall h, dom (inretry s) h -> dom r' h \/ (wty w = Retry /\ in_range w h = true)) ->
      (forall h b, lookup h r' = Some b -> lookup h (inretry s) = Some b) ->
      (wty w = Retry -> forall h, dom r' h -> in_range w h = false) ->
      Inv c (set_coord s (next s) (head s) (record_failures c ty (now s) (inretry s) hs f1) r' ws' (nextid s) (done s))).
    { intros f1 r' ty Hf1 Hf1' Hr' Hr'' Hr3. subst hs.
      assert (Hsamp : forall h, in_range w h = true -> ~ dom (wfail w) h -> In h (sampled s)).
      { intros h Hr Hnd. apply in_range_spec in Hr.
        destruct (I_ws c s HI w h Hw) as [H|H]; [lia|contradiction|exact H]. }
      constructor; psimpl.
      - intros x Hx. apply Hin' in Hx as [Hx _]. eapply wf_worker_eq; [| |apply (I_wf c s HI x Hx)]; reflexivity.
      - apply NoDup_map_filter. apply (I_ids c s HI).
      - intros h Hh. destruct (I_cover c s HI h Hh) as [H|[H|[H|H]]].
        + left. exact H.
        + destruct (Hf1 h H) as [H'|[H1 H2]].
          * right. left. apply record_failures_dom. right. exact H'.
          * left. apply Hsamp; assumption.
        + destruct (Hr' h H) as [H'|[H1 H2]].
          * right. right. left. exact H'.
          * destruct (dom_dec (wfail w) h) as [Hd|Hd].
            -- right. left. apply record_failures_dom. left. apply dom_keys. exact Hd.
            -- left. apply Hsamp; assumption.
        + destruct H as [w0 [Hw0 [Hty Hcov]]]. destruct (Z.eq_dec (wid w0) (wid w)) as [E|Hne].
          * assert (w0 = w) by (apply (nodup_id_eq (workers s)); try assumption; apply (I_ids c s HI)). subst w0.
            destruct Hcov as [Hr [Hc|Hc]]; [lia|].
            right. left. apply record_failures_dom. left. apply dom_keys. exact Hc.
          * right. right. right. exists w0. split; [apply Hin'; split; [assumption|intros ->; apply Hne; reflexivity]|].
            split; assumption.
      - intros x h Hx Hh. apply Hin' in Hx as [Hx _]. apply (I_ws c s HI x h Hx Hh).
      - intros h Hh. pose proof Hh as Hh0. apply lookup_dom_some in Hh0 as [b Hb]. apply Hr'' in Hb.
        destruct (I_retry c s HI h (lookup_some_dom _ _ _ Hb)) as [w0 [Hw0 [Hty Hfrom]]].
        exists w0. split; [|split; assumption]. apply Hin'. split; [exact Hw0|].
        intros ->. specialize (Hr3 Hty h Hh).
        assert (in_range w h = true) by (apply in_range_spec; lia). congruence.
      - intros h a b Ha Hb. psimpl. apply Hr'' in Hb.
        destruct (in_dec Z.eq_dec h (keys (wfail w))) as [Hin|Hnin].
        + destruct (record_failures_cnt c Hfixc ty (now s) (inretry s) _ f1 h a Hin Ha) as [_ H2].
          specialize (H2 b Hb). lia.
        + rewrite (record_failures_other c ty (now s) (inretry s) _ f1 h Hnin) in Ha. apply Hf1' in Ha.
          eapply (I_att c s HI); eassumption.
      - destruct (I_conc c s HI) as [C1 C2]. split; psimpl; unfold ws'.
        + pose proof (length_filter_filter nonrecent (fun x => negb (wid x =? wid w)) (workers s)). lia.
        + pose proof (length_filter_le (fun x => negb (wid x =? wid w)) (workers s)). lia.
      - apply (I_pers c s HI).
    }
    unfold handle_result, check_done. apply Inv_set_done. cbv zeta. fold ws'. fold hs.
    assert (Hother : forall ty, wty w <> Retry ->
      Inv c (set_coord s (next s) (head s)
        (record_failures c ty (now s) (inretry s) hs
           (filter (fun ka => negb (in_range w (fst ka) && negb (mem (fst ka) (wfail w)))) (failed s)))
        (inretry s) ws' (nextid s) (done s))).
    { intros ty Hty. apply Hgen.
      - intros h Hd.
        destruct (negb (in_range w h && negb (mem h (wfail w)))) eqn:E.
        + left. apply (dom_filter_key (fun k => negb (in_range w k && negb (mem k (wfail w))))). split; assumption.
        + right. apply negb_false_iff, andb_true_iff in E as [E1 E2]. split; [exact E1|].
          apply mem_false_dom. apply negb_true_iff. exact E2.
      - intros h a Ha.
        rewrite (lookup_filter_key (fun k => negb (in_range w k && negb (mem k (wfail w))))) in Ha.
        destruct (negb (in_range w h && negb (mem h (wfail w)))); [exact Ha|discriminate].
      - intros h Hd. left. exact Hd.
      - intros h b Hb. exact Hb.
      - intros E. contradiction. }
    destruct (wty w) eqn:Ety.
    - apply Hother. discriminate.
    - apply Hother. discriminate.
    - apply Hgen.
      + intros h Hd. left. exact Hd.
      + intros h a Ha. exact Ha.
      + intros h Hd. destruct (in_range w h) eqn:E.
        * right. split; reflexivity.
        * left. apply (dom_filter_key (fun k => negb (in_range w k))). split; [rewrite E; reflexivity|exact Hd].
      + intros h b Hb. rewrite (lookup_filter_key (fun k => negb (in_range w k))) in Hb.
        destruct (negb (in_range w h)); [exact Hb|discriminate].
      + intros _ h Hd. apply (dom_filter_key (fun k => negb (in_range w k))) in Hd as [Hd _].
        apply negb_true_iff. exact Hd.
  Qed.

  (** ** a worker's sampler call returns *)
  Lemma Inv_step_worker s w o :
    Inv c s -> In w (workers s) -> wfinished w = false -> Inv c (step_worker c s w o).
  Proof.
    intros HI Hw Hfin. unfold wfinished in Hfin. apply Z.ltb_ge in Hfin.
    pose proof (I_wf c s HI w Hw) as (W1 & W2 & W3 & W4 & W5 & W6 & W7 & W8).
    pose (h := wnext w). assert (Eh : h = wnext w) by reflexivity. clearbody h.
    (* both outcomes: the worker advances; [fl] is its new failed map, [smp] the new sampled set *)
    assert (Hgen : forall fl smp,
      (forall k, dom fl k <-> (k = h /\ smp = sampled s) \/ dom (wfail w) k) ->
      (smp = sampled s \/ smp = h :: sampled s) ->
      forall w', w' = mkWorker (wid w) (wty w) (wfrom w) (wto w) (h + 1) fl false ->
      Inv c (mkSt (next s) (head s) (failed s) (inretry s)
                  (map (fun x => if wid x =? wid w' then w' else x) (workers s)) (nextid s) (done s)
                  (running s) (bgprev s) (now s) (persisted s) (storehead s) (lo s) smp)).
    { intros fl smp Hfl Hsmp w' Ew'.
      assert (Eid : wid w' = wid w) by (subst w'; reflexivity).
      assert (Hin' : forall x, In x (map (fun y => if wid y =? wid w' then w' else y) (workers s)) <->
                               x = w' \/ (In x (workers s) /\ x <> w)).
      { intros x. apply in_upd_id; [apply (I_ids c s HI)|exact Hw|exact Eid]. }
      assert (Hsub : forall k, In k (sampled s) -> In k smp).
      { intros k Hk. destruct Hsmp as [->| ->]; [exact Hk|right; exact Hk]. }
      assert (Hnew : h = wnext w -> dom fl h \/ In h smp).
      { intros _. destruct Hsmp as [E|E].
        - left. apply Hfl. left. split; [reflexivity|exact E].
        - right. rewrite E. left. reflexivity. }
      constructor; psimpl.
      - intros x Hx. apply Hin' in Hx as [->|[Hx _]].
        + subst w'. unfold wf_worker; cbn. repeat split; try lia; try assumption.
          * apply Hfl in H as [[-> _]|H]; [lia|]. apply W4 in H. lia.
          * apply Hfl in H as [[-> _]|H]; [lia|]. apply W4 in H. lia.
        + eapply wf_worker_eq; [| |apply (I_wf c s HI x Hx)]; reflexivity.
      - rewrite map_wid_upd. apply (I_ids c s HI).
      - intros k Hk. destruct (I_cover c s HI k Hk) as [H|[H|[H|H]]]; auto.
        destruct H as [w0 [Hw0 [Hty Hcov]]]. destruct (Z.eq_dec (wid w0) (wid w)) as [E|Hne].
        + assert (w0 = w) by (apply (nodup_id_eq (workers s)); try assumption; apply (I_ids c s HI)). subst w0.
          destruct Hcov as [Hr [Hc|Hc]].
          * destruct (Z.eq_dec k h) as [->|Hkh].
            -- destruct (Hnew Eh) as [H|H]; [|left; exact H].
               right. right. right. exists w'. split; [apply Hin'; left; reflexivity|]. subst w'. cbn.
               split; [exact Hty|]. split; [exact Hr|]. right. exact H.
            -- right. right. right. exists w'. split; [apply Hin'; left; reflexivity|]. subst w'. cbn.
               split; [exact Hty|]. split; [exact Hr|]. left. cbn. lia.
          * right. right. right. exists w'. split; [apply Hin'; left; reflexivity|]. subst w'. cbn.
            split; [exact Hty|]. split; [exact Hr|]. right. apply Hfl. right. exact Hc.
        + right. right. right. exists w0. split; [apply Hin'; right; split; [assumption|intros ->; apply Hne; reflexivity]|].
          split; assumption.
      - intros x k Hx Hk. apply Hin' in Hx as [->|[Hx _]].
        + subst w'. cbn in *. destruct (Z.eq_dec k h) as [->|Hkh].
          * apply Hnew. exact Eh.
          * destruct (I_ws c s HI w k Hw) as [H|H]; [lia| |].
            -- left. apply Hfl. right. exact H.
            -- right. apply Hsub. exact H.
        + destruct (I_ws c s HI x k Hx Hk) as [H|H]; [left; exact H|right; apply Hsub; exact H].
      - intros k Hk. destruct (I_retry c s HI k Hk) as [w0 [Hw0 [Hty Hfrom]]].
        destruct (Z.eq_dec (wid w0) (wid w)) as [E|Hne].
        + assert (w0 = w) by (apply (nodup_id_eq (workers s)); try assumption; apply (I_ids c s HI)). subst w0.
          exists w'. split; [apply Hin'; left; reflexivity|]. subst w'. cbn. split; assumption.
        + exists w0. split; [apply Hin'; right; split; [assumption|intros ->; apply Hne; reflexivity]|]. split; assumption.
      - apply (I_att c s HI).
      - destruct (I_conc c s HI) as [C1 C2]. split; psimpl.
        + rewrite (length_filter_map_in (fun x => if wid x =? wid w' then w' else x) nonrecent); [exact C1|].
          intros x Hx. destruct (Z.eqb_spec (wid x) (wid w')) as [E|E]; [|reflexivity].
          assert (x = w).
          { apply (nodup_id_eq (workers s)); try assumption; [apply (I_ids c s HI)|]. rewrite E. exact Eid. }
          subst x w'. reflexivity.
        + rewrite map_length. exact C2.
      - intros p Hp. eapply cp_good_mono; [apply (I_pers c s HI p Hp)|lia|exact Hsub|lia].
    }
    subst h.
    assert (Hok : Inv c (add_sampled (upd_worker s (mkWorker (wid w) (wty w) (wfrom w) (wto w) (wnext w + 1) (wfail w) false)) (wnext w))).
    { apply (Hgen (wfail w) (wnext w :: sampled s)); [|right; reflexivity|reflexivity].
      intros k. split; [intros H; right; exact H|]. intros [[_ E]|H]; [|exact H].
      exfalso. apply (f_equal (@length Z)) in E. cbn in E. lia. }
    assert (Hko : Inv c (upd_worker s (mkWorker (wid w) (wty w) (wfrom w) (wto w) (wnext w + 1) (bump (wnext w) 1 (wfail w)) false))).
    { apply (Hgen (bump (wnext w) 1 (wfail w)) (sampled s)); [|left; reflexivity|reflexivity].
      intros k. rewrite dom_bump. split; intros [H|H]; auto. left. apply H. }
    unfold step_worker. rewrite Hvr. cbn [fix_cancel repaired]. destruct o; assumption.
  Qed.
End Steps.

(** Facts about the association maps and list folds used by the coordinator model. *)
From Coq Require Import List ZArith Bool Lia.
From CN Require Import Das.Coordinator.
Import ListNotations.
Open Scope Z_scope.

Definition dom {V} (m : amap V) (h : Z) : Prop := lookup h m <> None.

Lemma dom_nil {V} h : ~ dom (@nil (Z * V)) h.
Proof. unfold dom. cbn. intros H. apply H. reflexivity. Qed.

Lemma dom_cons {V} (m : amap V) k v h : dom ((k, v) :: m) h <-> h = k \/ dom m h.
Proof.
  unfold dom. cbn. destruct (Z.eqb_spec h k).
  - split; [intros _; left; assumption | intros _; discriminate].
  - split; [intros H; right; assumption | intros [H|H]; [contradiction|assumption]].
Qed.

Lemma dom_keys {V} (m : amap V) h : dom m h <-> In h (keys m).
Proof.
  induction m as [|[k v] m IH].
  - split; [intros H; elim (dom_nil _ H) | intros []].
  - rewrite dom_cons. cbn. rewrite IH. split; intros [H|H]; auto.
Qed.

Lemma mem_dom {V} (m : amap V) h : mem h m = true <-> dom m h.
Proof. unfold mem, dom. destruct (lookup h m); split; intros H; congruence. Qed.

Lemma mem_false_dom {V} (m : amap V) h : mem h m = false <-> ~ dom m h.
Proof. rewrite <- mem_dom. destruct (mem h m); split; intros H; congruence. Qed.

Lemma dom_dec {V} (m : amap V) h : dom m h \/ ~ dom m h.
Proof. unfold dom. destruct (lookup h m); [left; discriminate | right; intros H; apply H; reflexivity]. Qed.

Lemma lookup_remove_eq {V} (m : amap V) k : lookup k (remove k m) = None.
Proof.
  induction m as [|[k' v] m IH]; cbn; [reflexivity|].
  destruct (Z.eqb_spec k k'); [exact IH|]. cbn. destruct (Z.eqb_spec k k'); [contradiction|exact IH].
Qed.

Lemma lookup_remove_ne {V} (m : amap V) k h : h <> k -> lookup h (remove k m) = lookup h m.
Proof.
  intros Hne. induction m as [|[k' v] m IH]; cbn; [reflexivity|].
  destruct (Z.eqb_spec k k').
  - subst. destruct (Z.eqb_spec h k'); [contradiction|exact IH].
  - cbn. destruct (Z.eqb_spec h k'); [reflexivity|exact IH].
Qed.

Lemma lookup_insert_eq {V} (m : amap V) k v : lookup k (insert k v m) = Some v.
Proof. unfold insert. cbn. rewrite Z.eqb_refl. reflexivity. Qed.

Lemma lookup_insert_ne {V} (m : amap V) k v h : h <> k -> lookup h (insert k v m) = lookup h m.
Proof.
  intros Hne. unfold insert. cbn. destruct (Z.eqb_spec h k); [contradiction|]. apply lookup_remove_ne. exact Hne.
Qed.

Lemma dom_remove {V} (m : amap V) k h : dom (remove k m) h <-> h <> k /\ dom m h.
Proof.
  unfold dom. destruct (Z.eq_dec h k) as [->|Hne].
  - rewrite lookup_remove_eq. split; [intros H; elim H; reflexivity | intros [H _]; elim H; reflexivity].
  - rewrite lookup_remove_ne by exact Hne. split; [intros H; split; assumption | intros [_ H]; exact H].
Qed.

Lemma dom_insert {V} (m : amap V) k v h : dom (insert k v m) h <-> h = k \/ dom m h.
Proof.
  unfold dom. destruct (Z.eq_dec h k) as [->|Hne].
  - rewrite lookup_insert_eq. split; [intros _; left; reflexivity | intros _; discriminate].
  - rewrite lookup_insert_ne by exact Hne. split; [intros H; right; exact H | intros [H|H]; [contradiction|exact H]].
Qed.

Lemma lookup_filter_key {V} (p : Z -> bool) (m : amap V) h :
  lookup h (filter (fun kv => p (fst kv)) m) = if p h then lookup h m else None.
Proof.
  induction m as [|[k v] m IH]; cbn; [destruct (p h); reflexivity|].
  destruct (p k) eqn:Hp; cbn.
  - destruct (Z.eqb_spec h k); [subst; rewrite Hp; reflexivity | exact IH].
  - destruct (Z.eqb_spec h k); [subst; rewrite Hp in IH |- *; exact IH | exact IH].
Qed.

Lemma dom_filter_key {V} (p : Z -> bool) (m : amap V) h :
  dom (filter (fun kv => p (fst kv)) m) h <-> p h = true /\ dom m h.
Proof.
  unfold dom. rewrite lookup_filter_key. destruct (p h); split.
  - intros H; split; [reflexivity|exact H].
  - intros [_ H]; exact H.
  - intros H; elim H; reflexivity.
  - intros [H _]; discriminate.
Qed.

Lemma lookup_map_val {V W} (f : V -> W) (m : amap V) h :
  lookup h (map (fun kv => (fst kv, f (snd kv))) m) = option_map f (lookup h m).
Proof.
  induction m as [|[k v] m IH]; cbn; [reflexivity|]. destruct (h =? k); [reflexivity|exact IH].
Qed.

Lemma lookup_dom_some {V} (m : amap V) h : dom m h -> exists v, lookup h m = Some v.
Proof. unfold dom. destruct (lookup h m) as [v|]; [intros _; exists v; reflexivity | intros H; elim H; reflexivity]. Qed.

Lemma lookup_some_dom {V} (m : amap V) h v : lookup h m = Some v -> dom m h.
Proof. unfold dom. intros ->. discriminate. Qed.

Lemma lookup_in {V} (m : amap V) h v : lookup h m = Some v -> In (h, v) m.
Proof.
  induction m as [|[k v'] m IH]; cbn; [discriminate|].
  destruct (Z.eqb_spec h k); [intros [= ->]; subst; left; reflexivity | intros H; right; apply IH, H].
Qed.

Lemma in_dom {V} (m : amap V) h v : In (h, v) m -> dom m h.
Proof. intros H. apply dom_keys. unfold keys. apply in_map_iff. exists (h, v). split; [reflexivity|exact H]. Qed.

(** [memz] *)
Lemma memz_In x l : memz x l = true <-> In x l.
Proof.
  unfold memz. rewrite existsb_exists. split.
  - intros [y [Hy He]]. apply Z.eqb_eq in He. subst. exact Hy.
  - intros H. exists x. split; [exact H | apply Z.eqb_refl].
Qed.

(** [minimum] *)
Lemma minimum_le_d l : forall d, minimum d l <= d.
Proof. unfold minimum. induction l as [|x l IH]; intros d; cbn; [lia|]. specialize (IH (Z.min d x)). lia. Qed.

Lemma minimum_le_in l : forall d x, In x l -> minimum d l <= x.
Proof.
  unfold minimum. induction l as [|y l IH]; intros d x; [intros []|].
  cbn. intros [->|H].
  - pose proof (minimum_le_d l (Z.min d x)). unfold minimum in H. lia.
  - apply IH. exact H.
Qed.

Lemma minimum_in l : forall d, minimum d l = d \/ In (minimum d l) l.
Proof.
  unfold minimum. induction l as [|y l IH]; intros d; cbn; [left; reflexivity|].
  destruct (IH (Z.min d y)) as [H|H].
  - rewrite H. destruct (Z.min_spec d y) as [[_ E]|[_ E]]; rewrite E; [left; reflexivity | right; left; reflexivity].
  - right. right. exact H.
Qed.

(** folds that only add keys *)
Lemma fold_left_inv {A B} (P : A -> Prop) (f : A -> B -> A) (l : list B) :
  (forall a b, In b l -> P a -> P (f a b)) -> forall a, P a -> P (fold_left f l a).
Proof.
  induction l as [|b l IH]; intros Hf a Ha; [exact Ha|].
  cbn. apply IH; [intros; apply Hf; [right|]; assumption | apply Hf; [left; reflexivity | exact Ha]].
Qed.

Lemma length_filter_le {A} (p : A -> bool) (l : list A) : (length (filter p l) <= length l)%nat.
Proof. induction l as [|x l IH]; cbn; [lia|]. destruct (p x); cbn; lia. Qed.

Lemma filter_app_len {A} (p : A -> bool) (l : list A) x :
  length (filter p (l ++ [x])) = (length (filter p l) + if p x then 1 else 0)%nat.
Proof. rewrite filter_app, app_length. cbn. destruct (p x); reflexivity. Qed.

(** C04 / C13 — safety theorems about every reachable state of the repaired coordinator. *)
From Coq Require Import List ZArith Bool Lia.
From CN Require Import Das.Coordinator Das.MapFacts Das.Invariant Das.InvFacts Das.InvSteps Das.InvCp Das.CoordinatorProofs.
Import ListNotations.
Open Scope Z_scope.

(** * Vocabulary of the statements *)

(** some worker has the height in its job and has not sampled it yet, or holds it as a failure to report *)
Definition in_flight (s : st) (h : Z) : Prop :=
  exists w, In w (workers s) /\ wfrom w <= h <= wto w /\ (wnext w <= h \/ lookup h (wfail w) <> None).

(** sampled (or skipped as outside the window), being sampled, queued for catch-up, failed, being retried *)
Definition covered (s : st) (h : Z) : Prop :=
  In h (sampled s) \/ in_flight s h \/ next s <= h \/ lookup h (failed s) <> None \/ lookup h (inretry s) <> None.

(** the state of a process that is not running, with checkpoint [p] in its datastore *)
Definition down_with (s : st) (p : cp) : st := set_env s false (bgprev s) (now s) (Some p) (storehead s).

Definition nonrecent_workers (s : st) : nat := length (filter nonrecent (workers s)).

(** * Coverage *)
Lemma Good_covered c s h : Good c s -> lo s <= h -> covered s h.
Proof.
  intros (HI & _ & _) Hlo. destruct (Z.lt_ge_cases h (next s)) as [Hlt|Hge].
  - destruct (I_cover c s HI h (conj Hlo Hlt)) as [H|[H|[H|H]]].
    + left. exact H.
    + right. right. right. left. exact H.
    + right. right. right. right. exact H.
    + destruct H as [w [Hw [_ Hc]]]. right. left. exists w. split; [exact Hw|exact Hc].
  - right. right. left. exact Hge.
Qed.

Theorem cover_inv c es h :
  valid c -> let s := run c init es in lo s <= h <= head s -> covered s h.
Proof. intros Hv s [Hlo _]. apply (Good_covered c); [apply Good_run, Hv|exact Hlo]. Qed.

(** * The reported sampled-chain head *)
Definition lowstep (l : Z) (w : worker) : Z := Z.min (minimum l (keys (wfail w))) (wcurr w).

Lemma lowstep_le l w : lowstep l w <= l.
Proof. unfold lowstep. pose proof (minimum_le_d (keys (wfail w)) l). lia. Qed.

Lemma lowfold_le ws : forall a, fold_left lowstep ws a <= a.
Proof.
  induction ws as [|w ws IH]; intros a; cbn; [lia|]. specialize (IH (lowstep a w)). pose proof (lowstep_le a w). lia.
Qed.

Lemma lowfold_in ws : forall a w, In w ws ->
  fold_left lowstep ws a <= wcurr w /\ forall h, In h (keys (wfail w)) -> fold_left lowstep ws a <= h.
Proof.
  induction ws as [|w0 ws IH]; intros a w Hw; [elim Hw|]. cbn [fold_left].
  destruct Hw as [->|Hw]; [|apply IH; exact Hw].
  pose proof (lowfold_le ws (lowstep a w)) as Hle. split.
  - assert (lowstep a w <= wcurr w) by (unfold lowstep; lia). lia.
  - intros h Hh. pose proof (minimum_le_in (keys (wfail w)) a h Hh).
    assert (lowstep a w <= minimum a (keys (wfail w))) by (unfold lowstep; lia). lia.
Qed.

Lemma lowest_spec s :
  lowest s <= next s /\
  (forall w, In w (workers s) -> lowest s <= wcurr w /\ forall h, dom (wfail w) h -> lowest s <= h) /\
  (forall h, dom (failed s) h -> lowest s <= h).
Proof.
  unfold lowest. change (fun (l : Z) (w : worker) => Z.min (minimum l (keys (wfail w))) (wcurr w)) with lowstep.
  set (l1 := fold_left lowstep (workers s) (next s)).
  pose proof (minimum_le_d (keys (failed s)) l1) as H1.
  pose proof (lowfold_le (workers s) (next s)) as H2. fold l1 in H2.
  split; [lia|]. split.
  - intros w Hw. destruct (lowfold_in (workers s) (next s) w Hw) as [A B]. fold l1 in A, B. split; [lia|].
    intros h Hh. apply dom_keys in Hh. specialize (B h Hh). lia.
  - intros h Hh. apply dom_keys in Hh. apply (minimum_le_in _ l1). exact Hh.
Qed.

Lemma Good_sampled_head c s h : Good c s -> lo s <= h <= sampled_chain_head s -> In h (sampled s).
Proof.
  intros (HI & _ & _) [Hlo Hh]. unfold sampled_chain_head in Hh.
  destruct (lowest_spec s) as (L1 & L2 & L3).
  destruct (I_cover c s HI h) as [H|[H|[H|H]]]; [lia|exact H| | |].
  - specialize (L3 h H). lia.
  - destruct (I_retry c s HI h H) as [w [Hw [Hty Hfrom]]].
    destruct (L2 w Hw) as [A _]. destruct (wcurr_bounds s w (I_wf c s HI w Hw)) as (B1 & B2 & B3).
    destruct (I_wf c s HI w Hw) as (_ & _ & _ & _ & _ & W6 & _).
    assert (wfrom w = wto w) by (apply W6; rewrite Hty; discriminate). lia.
  - destruct H as [w [Hw [_ [Hr [Hc|Hc]]]]]; destruct (L2 w Hw) as [A B].
    + destruct (wcurr_bounds s w (I_wf c s HI w Hw)) as (B1 & B2 & B3). lia.
    + specialize (B h Hc). lia.
Qed.

Theorem sampled_head_safe c es h :
  valid c -> let s := run c init es in lo s <= h <= sampled_chain_head s -> In h (sampled s).
Proof. intros Hv s. apply (Good_sampled_head c). apply Good_run, Hv. Qed.

(** * Restart from any checkpoint that can be on disk *)
Lemma resume_env c s p :
  let s' := resume c s p in
  lo s' = lo s /\ sampled s' = sampled s /\ running s' = true /\ storehead s' = storehead s /\ head s' = c_head p.
Proof. unfold resume. destruct (fix_start_done (vr c)); repeat split. Qed.

Lemma restart_env c s tail hd picks :
  running s = false -> 1 <= tail ->
  let s' := step c s (Restart tail hd picks) in
  lo s' = Z.max (lo s) tail /\ sampled s' = sampled s /\ running s' = true /\
  storehead s' = Z.max (Z.max (storehead s) hd) tail.
Proof.
  intros Hr Ht. cbn [step]. rewrite Hr. destruct (Z.ltb_spec tail 1); [lia|]. cbn [orb].
  unfold fill_slots.
  match goal with |- context [fill c ?f picks ?x] => destruct (fill_env c f picks x) as (E1 & E2 & E3 & E4 & E5 & _) end.
  match goal with |- context [resume c ?x ?p] => destruct (resume_env c x p) as (R1 & R2 & R3 & R4 & R5) end.
  cbv zeta. rewrite E4, E5, E3, E2, R1, R2, R3, R4. repeat split.
Qed.

Lemma Good_down c s p :
  valid c -> Good c s -> (p = cp_of c s \/ persisted s = Some p) -> Good c (down_with s p).
Proof.
  intros Hv (HI & (B1 & B2) & Hd) Hp. unfold down_with. split; [|split].
  - apply Inv_env; [exact HI|lia|]. intros q [= <-]. destruct Hp as [->|Hp].
    + apply cp_of_good; assumption.
    + apply (I_pers c s HI p Hp).
  - split; [exact B1|intros H; discriminate].
  - intros H. discriminate.
Qed.

Theorem restart_cover c es p tail hd picks h :
  valid c -> let s := run c init es in
  (p = cp_of c s \/ persisted s = Some p) -> 1 <= tail ->
  let s' := step c (down_with s p) (Restart tail hd picks) in
  Z.max (lo s) tail <= h <= head s' ->
  (In h (sampled s) \/ in_flight s' h \/ next s' <= h \/ lookup h (failed s') <> None \/ lookup h (inretry s') <> None)
  /\ running s' = true /\ head s <= head s'.
Proof.
  intros Hv s Hp Ht s' Hh.
  assert (HG : Good c (down_with s p)) by (apply Good_down; [exact Hv|apply Good_run, Hv|exact Hp]).
  assert (HG' : Good c s') by (apply Good_step; assumption).
  destruct (restart_env c (down_with s p) tail hd picks eq_refl Ht) as (E1 & E2 & E3 & E4). fold s' in E1, E2, E3, E4.
  cbn [down_with set_env lo sampled storehead] in E1, E2, E4.
  split; [|split; [exact E3|]].
  - destruct (Good_covered c s' h HG') as [H|H]; [rewrite E1; lia|left; rewrite <- E2; exact H|right; exact H].
  - destruct HG' as (_ & (_ & B2) & _). rewrite (B2 E3), E4.
    destruct (Good_run c Hv es) as (_ & (B1 & _) & _). fold s in B1. lia.
Qed.

(** * Bounds and the done flag *)
Theorem conc_bound c es :
  valid c -> let s := run c init es in
  Z.of_nat (nonrecent_workers s) <= limit c /\ Z.of_nat (length (workers s)) <= 2 * limit c.
Proof. intros Hv s. destruct (Good_run c Hv es) as (HI & _ & _). apply (I_conc c _ HI). Qed.

Theorem done_iff c es :
  valid c -> let s := run c init es in running s = true ->
  (done s = true <-> workers s = [] /\ failed s = [] /\ head s < next s).
Proof.
  intros Hv s Hr. destruct (Good_run c Hv es) as (_ & _ & Hd). specialize (Hd Hr). fold s in Hd.
  unfold done_ok in Hd. rewrite Hd. unfold done_cond.
  destruct (workers s); [|split; [discriminate|intros [H _]; discriminate]].
  destruct (failed s); [|split; [discriminate|intros [_ [H _]]; discriminate]].
  rewrite Z.ltb_lt. split; [intros H; repeat split; exact H|intros [_ [_ H]]; exact H].
Qed.

(** Proofs about the model of header validation / verification (Header/Validate.v). *)
From Coq Require Import List ZArith Bool Lia.
From CN Require Import Header.Validate.
Import ListNotations.
Open Scope Z_scope.

(** * Decidable equality of symbolic byte strings is equality *)
Section bs_ind'.
  Variable P : bs -> Prop.
  Hypothesis HRaw : forall l i, P (Raw l i).
  Hypothesis HHsh : forall t n a, Forall P a -> P (Hsh t n a).
  Fixpoint bs_ind' (x : bs) : P x :=
    match x with
    | Raw l i => HRaw l i
    | Hsh t n a =>
        HHsh t n a ((fix go (a : list bs) : Forall P a :=
                       match a with
                       | [] => Forall_nil _
                       | y :: a' => Forall_cons _ (bs_ind' y) (go a')
                       end) a)
    end.
End bs_ind'.

Lemma zs_eqb_eq a b : zs_eqb a b = true <-> a = b.
Proof.
  revert b; induction a as [|x a IH]; intros [|y b]; cbn; split; intros H; try congruence; try discriminate.
  - apply andb_true_iff in H as [H1 H2]. apply Z.eqb_eq in H1. apply IH in H2. congruence.
  - inversion H; subst. rewrite Z.eqb_refl. cbn. apply IH. reflexivity.
Qed.

Lemma bs_eqb_eq x y : bs_eqb x y = true <-> x = y.
Proof.
  revert y. induction x as [l i|t n a IH] using bs_ind'; intros [l' i'|t' n' a']; cbn; split; intros H;
    try discriminate; try congruence.
  - apply andb_true_iff in H as [H1 H2]. apply Z.eqb_eq in H1, H2. congruence.
  - inversion H; subst. rewrite !Z.eqb_refl. reflexivity.
  - apply andb_true_iff in H as [H H3]. apply andb_true_iff in H as [H1 H2].
    apply Z.eqb_eq in H1. apply zs_eqb_eq in H2. subst. f_equal.
    revert a' H3. induction IH as [|p a Hp _ IHa]; intros [|q b] H3; try discriminate; try reflexivity.
    apply andb_true_iff in H3 as [Hpq Hr]. apply Hp in Hpq. subst. f_equal. apply IHa. exact Hr.
  - inversion H; subst. rewrite Z.eqb_refl. cbn. replace (zs_eqb n' n') with true by (symmetry; apply zs_eqb_eq; reflexivity).
    cbn. clear H. induction IH as [|p a Hp _ IHa]; [reflexivity|].
    apply andb_true_iff. split; [apply Hp; reflexivity|exact IHa].
Qed.

Lemma bs_eqb_refl x : bs_eqb x x = true.
Proof. apply bs_eqb_eq. reflexivity. Qed.

Lemma bid_eqb_eq a b : bid_eqb a b = true <-> a = b.
Proof.
  unfold bid_eqb. destruct a, b; cbn. rewrite !andb_true_iff, !bs_eqb_eq, Z.eqb_eq. split.
  - intros [[? ?] ?]; congruence.
  - intros H; inversion H; auto.
Qed.

Lemma msg_eqb_eq a b : msg_eqb a b = true <-> a = b.
Proof.
  unfold msg_eqb. destruct a, b; cbn. rewrite !andb_true_iff, !bs_eqb_eq, !Z.eqb_eq, bid_eqb_eq. split.
  - intros [[[[[? ?] ?] ?] ?] ?]; congruence.
  - intros H; inversion H; repeat split; auto.
Qed.

(** a signature verifies iff it is the signature by that key over exactly that message *)
Lemma sig_valid_iff key m s : sig_valid key m s = true <-> s = SOf key m.
Proof.
  destruct s as [l i|k m']; cbn; [split; discriminate|].
  rewrite andb_true_iff, bs_eqb_eq, msg_eqb_eq. split; [intros [? ?]; congruence|intros H; inversion H; auto].
Qed.

(** * Every field participates: the hashes are injective *)
Lemma hdr_hash_inj h h' :
  blen (vals_hash h) <> 0 -> blen (vals_hash h') <> 0 -> hdr_hash h = hdr_hash h' -> h = h'.
Proof.
  intros Hn Hn'. unfold hdr_hash.
  destruct (blen (vals_hash h) =? 0) eqn:E; [apply Z.eqb_eq in E; contradiction|].
  destruct (blen (vals_hash h') =? 0) eqn:E'; [apply Z.eqb_eq in E'; contradiction|].
  destruct h as [? ? ? ? ? ? [? ? ?] ? ? ? ? ? ? ? ? ?], h' as [? ? ? ? ? ? [? ? ?] ? ? ? ? ? ? ? ? ?]; cbn.
  intros H. inversion H. reflexivity.
Qed.

Definition committed_vals (vs : list validator) : list (bs * Z) := map (fun v => (v_key v, v_power v)) vs.

Lemma valset_hash_inj vs vs' : valset_hash vs = valset_hash vs' -> committed_vals vs = committed_vals vs'.
Proof.
  unfold valset_hash, committed_vals. intros H. inversion H as [H1]. clear H. revert vs' H1.
  induction vs as [|v vs IH]; intros [|v' vs'] H1; cbn in *; try discriminate; [reflexivity|].
  inversion H1. rewrite (IH vs') by assumption. congruence.
Qed.

Lemma resize_exact l : resize (length l) l = l.
Proof. induction l; cbn; congruence. Qed.

Lemma app_inv_len {A} (a a' b b' : list A) : length a = length a' -> a ++ b = a' ++ b' -> a = a' /\ b = b'.
Proof.
  revert a'. induction a as [|x a IH]; intros [|x' a'] L H; cbn in *; try discriminate; [auto|].
  inversion H; subst. destruct (IH a') as [-> ->]; auto.
Qed.

Lemma dah_hash_inj d d' :
  length (rows d) = length (cols d) -> length (rows d') = length (cols d') -> dah_hash d = dah_hash d' -> d = d'.
Proof.
  destruct d as [r c], d' as [r' c']; unfold dah_hash; cbn. intros L L' H.
  rewrite L, L', !resize_exact in H. inversion H as [H1].
  assert (Hl : length r = length r').
  { apply (f_equal (@length bs)) in H1. rewrite !app_length in H1. lia. }
  destruct (app_inv_len _ _ _ _ Hl H1) as [-> ->]. reflexivity.
Qed.

(** * Commit verification by index (VerifyCommitLight): both signature paths compute the same acceptance predicate *)

(** declarative: the validator at the same index signed this very commit (flag "commit", own address, valid signature
    by its key over (chain id, height, round, block id, its timestamp)) *)
Definition good_sig (ch : bs) (c : commit) (v : validator) (s : csig) : bool :=
  (cs_flag s =? FLAG_COMMIT) && bs_eqb (v_addr v) (cs_addr s) && sig_valid (v_key v) (vote_msg ch c s) (cs_sig s).

Fixpoint signed_power (ch : bs) (c : commit) (vs : list validator) (ss : list csig) : Z :=
  match vs, ss with
  | v :: vs', s :: ss' => (if good_sig ch c v s then v_power v else 0) + signed_power ch c vs' ss'
  | _, _ => 0
  end.

Definition powers_nonneg (vs : list validator) : Prop := Forall (fun v => 0 <= v_power v) vs.

Section IdxMode.
  Variables (ch : bs) (c : commit) (needed : Z).

  Definition full_good (v : validator) (s : csig) : bool :=
    bs_eqb (v_addr v) (cs_addr s) && bid_ok (c_bid c) && sig_valid (v_key v) (vote_msg ch c s) (cs_sig s).

  (** "some prefix of the commit-flag signatures is entirely good and its power exceeds [needed]" *)
  Fixpoint acc (vs : list validator) (ss : list csig) (t : Z) {struct ss} : bool :=
    match ss, vs with
    | s :: ss', v :: vs' =>
        if negb (cs_flag s =? FLAG_COMMIT) then acc vs' ss' t
        else if full_good v s then (if needed <? t + v_power v then true else acc vs' ss' (t + v_power v))
        else false
    | _, _ => false
    end.

  Lemma full_good_basic v s :
    val_basic v = true -> (cs_flag s =? FLAG_COMMIT) = true -> full_good v s = true -> csig_basic s = true.
  Proof.
    unfold val_basic, full_good, csig_basic. intros Hv Hf Hg.
    apply andb_true_iff in Hv as [_ Ha]. apply bs_eqb_eq in Ha.
    apply andb_true_iff in Hg as [Hg Hs]. apply andb_true_iff in Hg as [He _].
    apply bs_eqb_eq in He. apply sig_valid_iff in Hs.
    apply Z.eqb_eq in Hf. rewrite Hf, Hs, <- He, Ha. reflexivity.
  Qed.

  Lemma nth_error_skipn {A} (l : list A) i v : nth_error l i = Some v -> skipn i l = v :: skipn (S i) l.
  Proof.
    revert l; induction i as [|i IH]; intros [|x l] H; cbn in *; try discriminate.
    - inversion H; reflexivity.
    - apply IH in H. rewrite H. destruct l; reflexivity.
  Qed.

  Lemma nth_error_skipn_none {A} (l : list A) i : nth_error l i = None -> skipn i l = [].
  Proof.
    revert l; induction i as [|i IH]; intros [|x l] H; cbn in *; try discriminate; try reflexivity.
    apply IH. exact H.
  Qed.

  Lemma nth_error_None_S {A} (l : list A) i : nth_error l i = None -> nth_error l (S i) = None.
  Proof. intros H. apply nth_error_None in H. apply nth_error_None. lia. Qed.

  Lemma acc_nil ss t : acc [] ss t = false.
  Proof. destruct ss; reflexivity. Qed.

  Lemma loop_stopped by_index batch vs idx ss st :
    stop st = true -> sig_loop by_index batch ch c vs needed idx ss st = inr st.
  Proof.
    revert idx. induction ss as [|s ss IH]; intros idx H; cbn; [reflexivity|].
    unfold sig_step. rewrite H. apply IH. exact H.
  Qed.

  Variable vs : list validator.
  Hypothesis Hbasic : forallb val_basic vs = true.

  Lemma basic_at idx v : nth_error vs idx = Some v -> val_basic v = true.
  Proof. intros H. apply nth_error_In in H. rewrite forallb_forall in Hbasic. apply Hbasic. exact H. Qed.

  (** one by one *)
  Lemma single_spec ss : forall idx st, stop st = false -> tally st <= needed ->
    (sig_loop true false ch c vs needed idx ss st = inl Ok <-> acc (skipn idx vs) ss (tally st) = true) /\
    (forall st', sig_loop true false ch c vs needed idx ss st = inr st' -> tally st' <= needed).
  Proof.
    induction ss as [|s ss IH]; intros idx st Hstop Hle.
    - cbn. split; [split; discriminate|]. intros st' H. inversion H; subst. exact Hle.
    - cbn [sig_loop]. unfold sig_step. rewrite Hstop. cbn [negb andb].
      destruct (cs_flag s =? FLAG_COMMIT) eqn:Hf; cbn [negb].
      2:{ destruct (nth_error vs idx) as [v|] eqn:En.
          - rewrite (nth_error_skipn _ _ _ En). cbn [acc]. rewrite Hf. cbn [negb]. apply IH; assumption.
          - rewrite (nth_error_skipn_none _ _ En).
            destruct (IH (S idx) st Hstop Hle) as [IH1 IH2]. split; [|exact IH2].
            rewrite IH1, (nth_error_skipn_none vs (S idx)) by (apply nth_error_None_S; exact En).
            rewrite !acc_nil. reflexivity. }
      destruct (nth_error vs idx) as [v|] eqn:En.
      2:{ rewrite (nth_error_skipn_none _ _ En). cbn [acc].
          destruct (csig_basic s); cbn; (split; [split; discriminate|discriminate]). }
      rewrite (nth_error_skipn _ _ _ En). cbn [acc]. rewrite Hf. cbn [negb].
      pose proof (basic_at _ _ En) as Hv.
      destruct (full_good v s) eqn:Hg.
      + rewrite (full_good_basic v s Hv Hf Hg). cbn [negb].
        unfold full_good in Hg. apply andb_true_iff in Hg as [Hg Hs]. apply andb_true_iff in Hg as [He Hb].
        rewrite He, Hb, Hs. cbn [negb].
        destruct (needed <? tally st + v_power v) eqn:Hn.
        * split; [split; reflexivity|discriminate].
        * apply IH; cbn; [reflexivity|]. apply Z.ltb_ge in Hn. exact Hn.
      + split.
        * split; [|discriminate]. intros H.
          destruct (csig_basic s); cbn [negb] in H; [|discriminate].
          unfold full_good in Hg.
          destruct (bs_eqb (v_addr v) (cs_addr s)); [|discriminate].
          destruct (bid_ok (c_bid c)); cbn [negb] in H; [|discriminate].
          cbn in Hg. rewrite Hg in H. cbn in H. discriminate.
        * intros st' H.
          destruct (csig_basic s); cbn [negb] in H; [|discriminate].
          unfold full_good in Hg.
          destruct (bs_eqb (v_addr v) (cs_addr s)); [|discriminate].
          destruct (bid_ok (c_bid c)); cbn [negb] in H; [|discriminate].
          cbn in Hg. rewrite Hg in H. cbn in H. discriminate.
  Qed.

  Lemma sig_len_not64 v s : (sig_len (cs_sig s) =? 64) = false -> sig_valid (v_key v) (vote_msg ch c s) (cs_sig s) = false.
  Proof. destruct (cs_sig s); cbn; [reflexivity|discriminate]. Qed.

  (** collected, checked after the loop *)
  Lemma batch_spec ss : forall idx st, stop st = false -> tally st <= needed ->
    ((exists st', sig_loop true true ch c vs needed idx ss st = inr st' /\ needed < tally st' /\ pend st' = true) <->
     (pend st = true /\ acc (skipn idx vs) ss (tally st) = true)).
  Proof.
    induction ss as [|s ss IH]; intros idx st Hstop Hle.
    - cbn. split.
      + intros (st' & H & Hn & _). inversion H; subst. lia.
      + intros [_ H]. discriminate.
    - cbn [sig_loop]. unfold sig_step. rewrite Hstop. cbn [negb andb].
      destruct (cs_flag s =? FLAG_COMMIT) eqn:Hf; cbn [negb].
      2:{ destruct (nth_error vs idx) as [v|] eqn:En.
          - rewrite (nth_error_skipn _ _ _ En). cbn [acc]. rewrite Hf. cbn [negb]. apply IH; assumption.
          - rewrite (nth_error_skipn_none _ _ En). rewrite (IH (S idx) st Hstop Hle).
            rewrite (nth_error_skipn_none vs (S idx)) by (apply nth_error_None_S; exact En).
            rewrite !acc_nil. reflexivity. }
      destruct (nth_error vs idx) as [v|] eqn:En.
      2:{ rewrite (nth_error_skipn_none _ _ En). rewrite acc_nil.
          split; [intros (st' & H & _); discriminate|intros [_ H]; discriminate]. }
      rewrite (nth_error_skipn _ _ _ En). cbn [acc]. rewrite Hf. cbn [negb]. unfold full_good.
      destruct (bs_eqb (v_addr v) (cs_addr s)); cbn [andb].
      2:{ split; [intros (st' & H & _); discriminate|intros [_ H]; discriminate]. }
      destruct (bid_ok (c_bid c)); cbn [negb andb].
      2:{ split; [intros (st' & H & _); discriminate|intros [_ H]; discriminate]. }
      destruct (sig_len (cs_sig s) =? 64) eqn:Hl; cbn [negb].
      2:{ rewrite (sig_len_not64 v s Hl).
          split; [intros (st' & H & _); discriminate|intros [_ H]; discriminate]. }
      set (g := sig_valid (v_key v) (vote_msg ch c s) (cs_sig s)).
      destruct (needed <? tally st + v_power v) eqn:Hn.
      + rewrite loop_stopped by reflexivity. split.
        * intros (st' & H & Hlt & Hp). inversion H; subst; cbn in *.
          apply andb_true_iff in Hp as [Hp Hg]. rewrite Hg. auto.
        * intros [Hp Hg]. destruct g; [|discriminate]. eexists. split; [reflexivity|]. cbn.
          apply Z.ltb_lt in Hn. rewrite Hp. auto.
      + apply Z.ltb_ge in Hn.
        rewrite (IH (S idx) (mkls (tally st + v_power v) (seen st) (pend st && g) false)) by (cbn; auto).
        cbn. rewrite andb_true_iff. destruct g; intuition discriminate.
  Qed.

  Lemma batch_never_ok by_index ss : forall idx st, sig_loop by_index true ch c vs needed idx ss st <> inl Ok.
  Proof.
    induction ss as [|s ss IH]; intros idx st; cbn; [discriminate|].
    destruct (sig_step by_index true ch c vs needed idx s st) as [r|st'] eqn:E; [|apply IH].
    unfold sig_step in E. cbv zeta in E.
    destruct (stop st); [discriminate|].
    destruct (negb (cs_flag s =? FLAG_COMMIT)); [discriminate|].
    cbn [negb andb] in E.
    destruct by_index.
    - destruct (nth_error vs idx) as [v|]; [|inversion E; discriminate].
      destruct (bs_eqb (v_addr v) (cs_addr s)); [|inversion E; discriminate].
      destruct (negb (bid_ok (c_bid c))); [inversion E; discriminate|].
      destruct (negb (sig_len (cs_sig s) =? 64)); [inversion E; discriminate|discriminate].
    - destruct (find_addr (cs_addr s) vs 0) as [[j v]|]; [|discriminate].
      destruct (nat_in j (seen st)); [inversion E; discriminate|].
      destruct (negb (bid_ok (c_bid c))); [inversion E; discriminate|].
      destruct (negb (sig_len (cs_sig s) =? 64)); [inversion E; discriminate|discriminate].
  Qed.

  Lemma verify_sigs_idx_spec b : 0 <= needed ->
    (verify_sigs true b ch c vs needed = Ok <-> acc vs (c_sigs c) 0 = true).
  Proof.
    intros Hn. unfold verify_sigs. set (st0 := mkls 0 [] true false).
    destruct b.
    - pose proof (batch_spec (c_sigs c) 0%nat st0 eq_refl Hn) as Hs. cbn [skipn tally pend st0] in Hs.
      destruct (sig_loop true true ch c vs needed 0 (c_sigs c) st0) as [r|st'] eqn:E.
      + split.
        * intros ->. exfalso. exact (batch_never_ok true _ _ _ E).
        * intros Ha. destruct Hs as [_ Hs]. destruct (Hs (conj eq_refl Ha)) as (st' & H & _). discriminate.
      + split.
        * intros H. apply Hs. exists st'. split; [reflexivity|].
          destruct (tally st' <=? needed) eqn:Ht; [discriminate|]. apply Z.leb_gt in Ht.
          destruct (pend st'); [auto|discriminate].
        * intros Ha. destruct Hs as [_ Hs]. destruct (Hs (conj eq_refl Ha)) as (st2 & H & Hlt & Hp).
          inversion H; subst. apply Z.leb_gt in Hlt. rewrite Hlt, Hp. reflexivity.
    - destruct (single_spec (c_sigs c) 0%nat st0 eq_refl Hn) as [H1 H2]. cbn [skipn tally st0] in H1.
      destruct (sig_loop true false ch c vs needed 0 (c_sigs c) st0) as [r|st'] eqn:E.
      + rewrite <- H1. split; congruence.
      + specialize (H2 st' eq_refl). apply Z.leb_le in H2. rewrite H2. split; [discriminate|].
        intros Ha. apply H1 in Ha. discriminate.
  Qed.

  Lemma signed_power_nonneg ws ss : powers_nonneg ws -> 0 <= signed_power ch c ws ss.
  Proof.
    intros H. revert ss. induction H as [|v ws Hv _ IH]; intros [|s ss]; cbn; try lia.
    specialize (IH ss). destruct (good_sig ch c v s); lia.
  Qed.

  Lemma acc_sound ss : forall ws t, powers_nonneg ws -> acc ws ss t = true -> needed < t + signed_power ch c ws ss.
  Proof.
    induction ss as [|s ss IH]; intros [|v ws] t Hp H; cbn in H; try discriminate.
    inversion Hp as [|? ? Hv Hws]; subst. cbn [signed_power]. unfold good_sig.
    destruct (cs_flag s =? FLAG_COMMIT); cbn [negb andb] in *.
    2:{ specialize (IH ws t Hws H). lia. }
    destruct (full_good v s) eqn:Hg; [|discriminate].
    unfold full_good in Hg. apply andb_true_iff in Hg as [Hg Hs]. apply andb_true_iff in Hg as [He _].
    rewrite He, Hs. cbn.
    pose proof (signed_power_nonneg ws ss Hws).
    destruct (needed <? t + v_power v) eqn:Hn.
    + apply Z.ltb_lt in Hn. lia.
    + specialize (IH ws (t + v_power v) Hws H). lia.
  Qed.
End IdxMode.

(** * Validate, characterised independently of the signature path *)
Lemma total_power_nonneg vs : powers_nonneg vs -> 0 <= total_power vs.
Proof. unfold total_power. induction 1; cbn in *; lia. Qed.

Lemma val_basic_power v : val_basic v = true -> 0 <= v_power v.
Proof. unfold val_basic. intros H. apply andb_true_iff in H as [H _]. apply Z.leb_le. exact H. Qed.

Lemma basic_powers_nonneg vs : forallb val_basic vs = true -> powers_nonneg vs.
Proof.
  unfold powers_nonneg. rewrite forallb_forall, Forall_forall. intros H v Hv. apply val_basic_power, H, Hv.
Qed.

Lemma valset_basic_vals v : valset_basic v = true -> forallb val_basic (vs_vals v) = true.
Proof.
  unfold valset_basic. intros H. apply andb_true_iff in H as [H _]. apply andb_true_iff in H as [H _].
  apply andb_true_iff in H as [_ H]. exact H.
Qed.

Definition needed23 (v : valset) : Z := total_power (vs_vals v) * 2 / 3.

(** the commit check of Validate, as a predicate that does not mention [vs_same] *)
Definition vcl_okb (ch : bs) (c : commit) (v : valset) : bool :=
  Nat.eqb (length (vs_vals v)) (length (c_sigs c)) && (total_power (vs_vals v) <=? MAX_TOTAL_POWER) &&
  acc ch c (needed23 v) (vs_vals v) (c_sigs c) 0.

Lemma vcl_spec ch c v :
  valset_basic v = true ->
  (verify_commit_light ch (c_bid c) (c_height c) c v = Ok <-> vcl_okb ch c v = true).
Proof.
  intros Hb. pose proof (valset_basic_vals v Hb) as Hv.
  pose proof (total_power_nonneg _ (basic_powers_nonneg _ Hv)) as Ht.
  unfold verify_commit_light, vcl_okb.
  destruct (Nat.eqb (length (vs_vals v)) (length (c_sigs c))); cbn [negb andb]; [|split; discriminate].
  rewrite Z.eqb_refl. cbn [negb].
  replace (bid_eqb (c_bid c) (c_bid c)) with true by (symmetry; apply bid_eqb_eq; reflexivity). cbn [negb].
  destruct (MAX_TOTAL_POWER <? total_power (vs_vals v)) eqn:Hm.
  - apply Z.ltb_lt in Hm. replace (total_power (vs_vals v) <=? MAX_TOTAL_POWER) with false by (symmetry; apply Z.leb_gt; lia).
    split; discriminate.
  - apply Z.ltb_ge in Hm. replace (total_power (vs_vals v) <=? MAX_TOTAL_POWER) with true by (symmetry; apply Z.leb_le; lia).
    cbn [andb]. apply verify_sigs_idx_spec; [exact Hv|]. apply Z.div_pos; lia.
Qed.

Definition valid_specb (x : xhdr) : bool :=
  let h := hdr x in
  hdr_basic h && negb ((vapp h =? 0) || (APP_VERSION <? vapp h)) && commit_basic (cmt x) && valset_basic (vals x) &&
  bs_eqb (vals_hash h) (valset_hash (vs_vals (vals x))) && bs_eqb (dah_hash (dh x)) (data_hash h) &&
  (c_height (cmt x) =? height h) && bs_eqb (hdr_hash h) (bi_hash (c_bid (cmt x))) &&
  vcl_okb (chain h) (cmt x) (vals x) && dah_basic (dh x).

Lemma validate_spec x : validate x = Ok <-> valid_specb x = true.
Proof.
  unfold validate, valid_specb. cbv zeta.
  destruct (hdr_basic (hdr x)); cbn [negb andb]; [|split; discriminate].
  destruct ((vapp (hdr x) =? 0) || (APP_VERSION <? vapp (hdr x))); cbn [negb andb]; [split; discriminate|].
  destruct (commit_basic (cmt x)); cbn [negb andb]; [|split; discriminate].
  destruct (valset_basic (vals x)) eqn:Hvb; cbn [negb andb]; [|split; discriminate].
  destruct (bs_eqb (vals_hash (hdr x)) (valset_hash (vs_vals (vals x)))); cbn [negb andb]; [|split; discriminate].
  destruct (bs_eqb (dah_hash (dh x)) (data_hash (hdr x))); cbn [negb andb]; [|split; discriminate].
  destruct (c_height (cmt x) =? height (hdr x)) eqn:Hh; cbn [negb andb]; [|split; discriminate].
  destruct (bs_eqb (hdr_hash (hdr x)) (bi_hash (c_bid (cmt x)))); cbn [negb andb]; [|split; discriminate].
  apply Z.eqb_eq in Hh. rewrite <- Hh.
  pose proof (vcl_spec (chain (hdr x)) (cmt x) (vals x) Hvb) as Hs.
  destruct (verify_commit_light (chain (hdr x)) (c_bid (cmt x)) (c_height (cmt x)) (cmt x) (vals x)) as [|sf|].
  - destruct Hs as [Hs _]. rewrite (Hs eq_refl). cbn [andb]. destruct (dah_basic (dh x)); split; congruence.
  - destruct (vcl_okb (chain (hdr x)) (cmt x) (vals x)); [destruct Hs as [_ Hs]; discriminate (Hs eq_refl)|].
    split; discriminate.
  - destruct (vcl_okb (chain (hdr x)) (cmt x) (vals x)); [destruct Hs as [_ Hs]; discriminate (Hs eq_refl)|].
    split; discriminate.
Qed.

Ltac split_andb H :=
  repeat match type of H with
         | (_ && _) = true => let H2 := fresh "H" in apply andb_true_iff in H as [H H2]
         end.

Lemma valid_specb_inv x : valid_specb x = true ->
  hdr_basic (hdr x) = true /\ commit_basic (cmt x) = true /\ valset_basic (vals x) = true /\
  (c_height (cmt x) =? height (hdr x)) = true /\
  bs_eqb (vals_hash (hdr x)) (valset_hash (vs_vals (vals x))) = true /\
  bs_eqb (dah_hash (dh x)) (data_hash (hdr x)) = true /\
  bs_eqb (hdr_hash (hdr x)) (bi_hash (c_bid (cmt x))) = true /\
  Nat.eqb (length (vs_vals (vals x))) (length (c_sigs (cmt x))) = true /\
  (total_power (vs_vals (vals x)) <=? MAX_TOTAL_POWER) = true /\
  acc (chain (hdr x)) (cmt x) (needed23 (vals x)) (vs_vals (vals x)) (c_sigs (cmt x)) 0 = true /\
  dah_basic (dh x) = true.
Proof.
  unfold valid_specb, vcl_okb. cbv zeta. intros H.
  repeat match goal with H : (_ && _) = true |- _ => apply andb_true_iff in H as [? ?] end.
  repeat split; assumption.
Qed.

Lemma hdr_basic_height h : hdr_basic h = true -> 0 < height h.
Proof. unfold hdr_basic. intros H. split_andb H. apply Z.ltb_lt. assumption. Qed.

(** what an accepted header satisfies *)
Definition signed_power_of (x : xhdr) : Z := signed_power (chain (hdr x)) (cmt x) (vs_vals (vals x)) (c_sigs (cmt x)).

Lemma two_thirds t s : 0 <= t -> t * 2 / 3 < s -> 3 * s > 2 * t.
Proof. intros Ht H. pose proof (Z.div_mod (t * 2) 3 ltac:(lia)). pose proof (Z.mod_pos_bound (t * 2) 3 ltac:(lia)). lia. Qed.

Lemma one_third t s : 0 <= t -> t * 1 / 3 < s -> 3 * s > t.
Proof. intros Ht H. pose proof (Z.div_mod (t * 1) 3 ltac:(lia)). pose proof (Z.mod_pos_bound (t * 1) 3 ltac:(lia)). lia. Qed.

Theorem validate_sound x :
  validate x = Ok ->
  dah_hash (dh x) = data_hash (hdr x) /\ length (rows (dh x)) = length (cols (dh x)) /\
  valset_hash (vs_vals (vals x)) = vals_hash (hdr x) /\
  c_height (cmt x) = height (hdr x) /\ bi_hash (c_bid (cmt x)) = hdr_hash (hdr x) /\
  3 * signed_power_of x > 2 * total_power (vs_vals (vals x)).
Proof.
  intros H. apply validate_spec, valid_specb_inv in H as (Hh & Hc & Hv & He & Hvh & Hdh & Hhh & _ & Ht & Ha & Hd).
  apply bs_eqb_eq in Hvh, Hdh, Hhh. apply Z.eqb_eq in He.
  pose proof (basic_powers_nonneg _ (valset_basic_vals _ Hv)) as Hp.
  repeat split; try congruence.
  - unfold dah_basic in Hd. cbv zeta in Hd. split_andb Hd.
    match goal with E : (Z.of_nat _ =? Z.of_nat _) = true |- _ => apply Z.eqb_eq in E; lia end.
  - apply acc_sound in Ha; [|exact Hp]. apply two_thirds; [apply total_power_nonneg; exact Hp|].
    unfold signed_power_of, needed23 in *. lia.
Qed.

(** * The block hash binds every committed part *)
Definition committed (x : xhdr) : rawhdr * list bs * list bs * list (bs * Z) :=
  (hdr x, rows (dh x), cols (dh x), committed_vals (vs_vals (vals x))).

Theorem hash_binds x y : validate x = Ok -> validate y = Ok -> xhash x = xhash y -> committed x = committed y.
Proof.
  intros Hx Hy Hh. apply validate_sound in Hx as (Dx & Lx & Vx & _ & Bx & _). apply validate_sound in Hy as (Dy & Ly & Vy & _ & By & _).
  unfold xhash in Hh. rewrite Bx, By in Hh.
  assert (Hxy : hdr x = hdr y).
  { apply hdr_hash_inj; [rewrite <- Vx|rewrite <- Vy|exact Hh]; cbn; discriminate. }
  unfold committed. rewrite Hxy in *.
  assert (Hd : dh x = dh y) by (apply dah_hash_inj; congruence).
  rewrite Hd. f_equal. apply valset_hash_inj. congruence.
Qed.

Theorem mutation_rejected_committed x y :
  validate x = Ok -> xhash y = xhash x -> committed y <> committed x -> validate y <> Ok.
Proof. intros Hx Hh Hc Hy. apply Hc. apply hash_binds; auto. Qed.

Theorem mutation_rejected_power y :
  3 * signed_power_of y <= 2 * total_power (vs_vals (vals y)) -> validate y <> Ok.
Proof. intros Hle Hy. apply validate_sound in Hy as (_ & _ & _ & _ & _ & H). lia. Qed.

(** the cached key-type flag (which re-encoding changes) and the proposer priorities do not matter *)
Definition set_same (b : bool) (x : xhdr) : xhdr :=
  mkx (hdr x) (cmt x) (mkvs (vs_vals (vals x)) (vs_prop (vals x)) b) (dh x).

Lemma validate_same_irrelevant b x : validate (set_same b x) = Ok <-> validate x = Ok.
Proof. rewrite !validate_spec. destruct x as [h c [vs p sm] d]. reflexivity. Qed.

(** * Verify *)
Lemma verify_adjacent_sound t u :
  adjacent t u = true -> verify t u = Ok ->
  vals_hash (hdr u) = next_vals_hash (hdr t) /\ bi_hash (last_bid (hdr u)) = xhash t.
Proof.
  unfold verify. intros -> H.
  destruct (bs_eqb (vals_hash (hdr u)) (next_vals_hash (hdr t))) eqn:E1; cbn [negb] in H; [|discriminate].
  destruct (bs_eqb (bi_hash (last_bid (hdr u))) (xhash t)) eqn:E2; cbn [negb] in H; [|discriminate].
  apply bs_eqb_eq in E1, E2. auto.
Qed.

(** an adjacent header accepted against a validated trusted header carries the hash of exactly that header's fields *)
Lemma verify_adjacent_links t u :
  validate t = Ok -> adjacent t u = true -> verify t u = Ok -> bi_hash (last_bid (hdr u)) = hdr_hash (hdr t).
Proof.
  intros Ht Ha Hv. destruct (verify_adjacent_sound t u Ha Hv) as [_ H].
  apply validate_sound in Ht as (_ & _ & _ & _ & Hb & _). unfold xhash in H. congruence.
Qed.

Fixpoint sumZ (l : list Z) : Z := match l with [] => 0 | x :: l' => x + sumZ l' end.

Section Trusting.
  Variables (ch : bs) (c : commit) (vs : list validator) (needed : Z).
  Hypothesis Hpos : powers_nonneg vs.

  Definition pw (j : nat) : Z := match nth_error vs j with Some v => v_power v | None => 0 end.

  (** trusted validator [j] has a valid commit-flag signature in the commit, found under its address *)
  Definition tcounted (j : nat) : bool :=
    match nth_error vs j with
    | Some v =>
        existsb (fun s => (cs_flag s =? FLAG_COMMIT) &&
                          match find_addr (cs_addr s) vs 0 with Some (j', _) => Nat.eqb j' j | None => false end &&
                          sig_valid (v_key v) (vote_msg ch c s) (cs_sig s)) (c_sigs c)
    | None => false
    end.

  Definition trusted_power : Z := sumZ (map (fun j => if tcounted j then pw j else 0) (seq 0 (length vs))).

  Lemma pw_nonneg j : 0 <= pw j.
  Proof.
    unfold pw. destruct (nth_error vs j) eqn:E; [|lia].
    apply nth_error_In in E. unfold powers_nonneg in Hpos. rewrite Forall_forall in Hpos. apply Hpos. exact E.
  Qed.

  Lemma find_addr_nth a ws i j v : find_addr a ws i = Some (j, v) -> (i <= j)%nat /\ nth_error ws (j - i) = Some v.
  Proof.
    revert i. induction ws as [|w ws IH]; intros i H; cbn in H; [discriminate|].
    destruct (bs_eqb (v_addr w) a).
    - inversion H; subst. rewrite Nat.sub_diag. cbn. auto.
    - apply IH in H as [H1 H2]. split; [lia|]. replace (j - i)%nat with (S (j - S i)) by lia. exact H2.
  Qed.

  (** distinct counted indices sum to at most the trusted power *)
  Lemma sum_sublist (P : nat -> bool) (f : nat -> Z) : (forall k, 0 <= f k) ->
    forall n i l, NoDup l -> (forall j, In j l -> (i <= j < i + n)%nat /\ P j = true) ->
    sumZ (map f l) <= sumZ (map (fun j => if P j then f j else 0) (seq i n)).
  Proof.
    intros Hf. induction n as [|n IH]; intros i l Hnd Hl.
    - destruct l as [|j l]; [cbn; lia|]. destruct (Hl j (or_introl eq_refl)) as [H _]. lia.
    - cbn [seq map sumZ].
      assert (Hrest : forall l', NoDup l' -> (forall j, In j l' -> (S i <= j < S i + n)%nat /\ P j = true) ->
                                 sumZ (map f l') <= sumZ (map (fun j => if P j then f j else 0) (seq (S i) n)))
        by (intros; apply IH; auto).
      destruct (in_dec Nat.eq_dec i l) as [Hin|Hnin].
      + destruct (in_split _ _ Hin) as (l1 & l2 & ->).
        apply NoDup_remove in Hnd as [Hnd Hni].
        assert (Hs : sumZ (map f (l1 ++ i :: l2)) = f i + sumZ (map f (l1 ++ l2))).
        { rewrite !map_app. cbn. clear. induction (map f l1); cbn; lia. }
        rewrite Hs. destruct (Hl i Hin) as [_ Hp]. rewrite Hp.
        assert (sumZ (map f (l1 ++ l2)) <= sumZ (map (fun j => if P j then f j else 0) (seq (S i) n))); [|lia].
        apply Hrest; [exact Hnd|]. intros j Hj.
        assert (Hj' : In j (l1 ++ i :: l2)) by (apply in_app_iff in Hj; apply in_app_iff; cbn; tauto).
        destruct (Hl j Hj') as [Hr Hp']. split; [|exact Hp'].
        assert (j <> i) by (intros ->; contradiction). lia.
      + assert (sumZ (map f l) <= sumZ (map (fun j => if P j then f j else 0) (seq (S i) n))).
        { apply Hrest; [exact Hnd|]. intros j Hj. destruct (Hl j Hj) as [Hr Hp]. split; [|exact Hp].
          assert (j <> i) by (intros ->; contradiction). lia. }
        destruct (P i); [specialize (Hf i)|]; lia.
  Qed.

  Definition J (ss : list csig) (st : lstate) : Prop :=
    NoDup (seen st) /\ (pend st = true -> tally st = sumZ (map pw (seen st)) /\ forall j, In j (seen st) -> tcounted j = true).

  Lemma J_bound ss st : J ss st -> pend st = true -> tally st <= trusted_power.
  Proof.
    intros [Hnd H] Hp. destruct (H Hp) as [-> Hc]. unfold trusted_power.
    apply (sum_sublist tcounted pw pw_nonneg); [exact Hnd|].
    intros j Hj. split; [|apply Hc; exact Hj].
    specialize (Hc j Hj). unfold tcounted in Hc. destruct (nth_error vs j) eqn:E; [|discriminate].
    assert (j < length vs)%nat by (apply nth_error_Some; congruence). lia.
  Qed.

  (** one step of the by-address loop keeps the invariant; an immediate acceptance is within the trusted power *)
  Lemma trust_step b idx s st : In s (c_sigs c) -> J [] st -> (b = false -> pend st = true) ->
    match sig_step false b ch c vs needed idx s st with
    | inl Ok => needed < trusted_power
    | inl _ => True
    | inr st' => J [] st' /\ (b = false -> pend st' = true)
    end.
  Proof.
    intros Hin HJ Hpb. unfold sig_step. cbv zeta.
    destruct (stop st); [auto|].
    destruct (cs_flag s =? FLAG_COMMIT) eqn:Hf; cbn [negb]; [|auto].
    destruct (negb b && negb (csig_basic s)); [exact I|].
    destruct (find_addr (cs_addr s) vs 0) as [[j v]|] eqn:Ef; [|auto].
    destruct (nat_in j (seen st)) eqn:Hseen; [exact I|].
    destruct (bid_ok (c_bid c)); cbn [negb]; [|exact I].
    pose proof (find_addr_nth _ _ _ _ _ Ef) as [_ Hnth]. rewrite Nat.sub_0_r in Hnth.
    assert (Hnotin : ~ In j (seen st)).
    { intros Hi. unfold nat_in in Hseen. assert (existsb (Nat.eqb j) (seen st) = true); [|congruence].
      apply existsb_exists. exists j. split; [exact Hi|apply Nat.eqb_refl]. }
    assert (Hpw : pw j = v_power v) by (unfold pw; rewrite Hnth; reflexivity).
    assert (Hcount : sig_valid (v_key v) (vote_msg ch c s) (cs_sig s) = true -> tcounted j = true).
    { intros Hg. unfold tcounted. rewrite Hnth. apply existsb_exists. exists s. split; [exact Hin|].
      rewrite Hf, Ef, Nat.eqb_refl, Hg. reflexivity. }
    destruct HJ as [Hnd HJ].
    assert (HJ' : forall g, sig_valid (v_key v) (vote_msg ch c s) (cs_sig s) = g ->
                  J [] (mkls (tally st + v_power v) (j :: seen st) (pend st && g) (needed <? tally st + v_power v))).
    { intros g Hg. split; cbn; [constructor; assumption|]. intros Hp. apply andb_true_iff in Hp as [Hp Hg'].
      destruct (HJ Hp) as [Ht Hc]. subst g. split; [rewrite Hpw; lia|].
      intros k [<-|Hk]; [apply Hcount; exact Hg'|apply Hc; exact Hk]. }
    destruct b.
    - destruct (sig_len (cs_sig s) =? 64); cbn [negb]; [|exact I]. split; [apply HJ'; reflexivity|discriminate].
    - destruct (sig_valid (v_key v) (vote_msg ch c s) (cs_sig s)) eqn:Hg; cbn [negb]; [|exact I].
      specialize (Hpb eq_refl).
      destruct (needed <? tally st + v_power v) eqn:Hn.
      + apply Z.ltb_lt in Hn.
        assert (Hb : tally st + v_power v <= trusted_power).
        { apply (J_bound [] (mkls (tally st + v_power v) (j :: seen st) (pend st && true) true)); [|cbn; rewrite Hpb; reflexivity].
          specialize (HJ' true eq_refl). destruct HJ' as [A B]. split; [exact A|exact B]. }
        lia.
      + split; [|intros _; exact Hpb]. specialize (HJ' true eq_refl). rewrite Hpb in HJ'. cbn in HJ'.
        destruct HJ' as [A B]. split; [exact A|]. cbn. rewrite Hpb. intros _. apply B. reflexivity.
  Qed.

  Lemma trust_loop b ss : forall idx st, incl ss (c_sigs c) -> J [] st -> (b = false -> pend st = true) ->
    match sig_loop false b ch c vs needed idx ss st with
    | inl Ok => needed < trusted_power
    | inl _ => True
    | inr st' => J [] st' /\ (b = false -> pend st' = true)
    end.
  Proof.
    induction ss as [|s ss IH]; intros idx st Hin HJ Hp; cbn [sig_loop]; [auto|].
    pose proof (trust_step b idx s st (Hin s (or_introl eq_refl)) HJ Hp) as Hs.
    destruct (sig_step false b ch c vs needed idx s st) as [r|st']; [exact Hs|].
    destruct Hs as [HJ' Hp']. apply IH; auto. intros x Hx. apply Hin. right. exact Hx.
  Qed.

  Lemma verify_sigs_trusting_sound b : verify_sigs false b ch c vs needed = Ok -> needed < trusted_power.
  Proof.
    unfold verify_sigs. intros H.
    assert (HJ0 : J [] (mkls 0 [] true false)) by (split; cbn; [constructor|intros _; split; [reflexivity|contradiction]]).
    pose proof (trust_loop b (c_sigs c) 0%nat _ (incl_refl _) HJ0 (fun _ => eq_refl)) as Hl.
    destruct (sig_loop false b ch c vs needed 0 (c_sigs c) (mkls 0 [] true false)) as [r|st'].
    - subst r. exact Hl.
    - destruct Hl as [HJ Hp]. destruct (tally st' <=? needed) eqn:Ht; [discriminate|]. apply Z.leb_gt in Ht.
      assert (pend st' = true).
      { destruct b; [destruct (pend st'); [reflexivity|discriminate]|apply Hp; reflexivity]. }
      pose proof (J_bound [] st' HJ H0). lia.
  Qed.
End Trusting.

(** ** both signature paths of the by-address check accept the same commits (given basically valid signatures) *)
Section TrustingPaths.
  Variables (ch : bs) (c : commit) (vs : list validator) (needed : Z).

  Fixpoint acc_t (ss : list csig) (t : Z) (sn : list nat) : bool :=
    match ss with
    | [] => false
    | s :: ss' =>
        if negb (cs_flag s =? FLAG_COMMIT) then acc_t ss' t sn else
        match find_addr (cs_addr s) vs 0 with
        | None => acc_t ss' t sn
        | Some (j, v) =>
            if nat_in j sn then false else
            if bid_ok (c_bid c) && sig_valid (v_key v) (vote_msg ch c s) (cs_sig s)
            then (if needed <? t + v_power v then true else acc_t ss' (t + v_power v) (j :: sn))
            else false
        end
    end.

  Lemma single_spec_t ss : forall idx st, stop st = false -> tally st <= needed -> forallb csig_basic ss = true ->
    (sig_loop false false ch c vs needed idx ss st = inl Ok <-> acc_t ss (tally st) (seen st) = true) /\
    (forall st', sig_loop false false ch c vs needed idx ss st = inr st' -> tally st' <= needed).
  Proof.
    induction ss as [|s ss IH]; intros idx st Hstop Hle Hb.
    - cbn. split; [split; discriminate|]. intros st' H. inversion H; subst. exact Hle.
    - cbn in Hb. apply andb_true_iff in Hb as [Hbs Hb].
      cbn [sig_loop acc_t]. unfold sig_step. rewrite Hstop, Hbs. cbn [negb andb].
      destruct (cs_flag s =? FLAG_COMMIT); cbn [negb]; [|apply IH; assumption].
      destruct (find_addr (cs_addr s) vs 0) as [[j v]|]; [|apply IH; assumption].
      destruct (nat_in j (seen st)); [split; [split; discriminate|discriminate]|].
      destruct (bid_ok (c_bid c)); cbn [negb andb]; [|split; [split; discriminate|discriminate]].
      destruct (sig_valid (v_key v) (vote_msg ch c s) (cs_sig s)); cbn [negb]; [|split; [split; discriminate|discriminate]].
      destruct (needed <? tally st + v_power v) eqn:Hn.
      + split; [split; reflexivity|discriminate].
      + apply Z.ltb_ge in Hn. apply (IH (S idx) (mkls (tally st + v_power v) (j :: seen st) (pend st) false)); auto.
  Qed.

  Lemma batch_spec_t ss : forall idx st, stop st = false -> tally st <= needed -> forallb csig_basic ss = true ->
    ((exists st', sig_loop false true ch c vs needed idx ss st = inr st' /\ needed < tally st' /\ pend st' = true) <->
     (pend st = true /\ acc_t ss (tally st) (seen st) = true)).
  Proof.
    induction ss as [|s ss IH]; intros idx st Hstop Hle Hb.
    - cbn. split.
      + intros (st' & H & Hn & _). inversion H; subst. lia.
      + intros [_ H]. discriminate.
    - cbn in Hb. apply andb_true_iff in Hb as [Hbs Hb].
      cbn [sig_loop acc_t]. unfold sig_step. rewrite Hstop. cbn [negb andb].
      destruct (cs_flag s =? FLAG_COMMIT) eqn:Hf; cbn [negb]; [|apply IH; assumption].
      destruct (find_addr (cs_addr s) vs 0) as [[j v]|]; [|apply IH; assumption].
      destruct (nat_in j (seen st)); [split; [intros (st' & H & _); discriminate|intros [_ H]; discriminate]|].
      destruct (bid_ok (c_bid c)); cbn [negb andb]; [|split; [intros (st' & H & _); discriminate|intros [_ H]; discriminate]].
      destruct (sig_len (cs_sig s) =? 64) eqn:Hl; cbn [negb].
      2:{ rewrite (sig_len_not64 ch c v s Hl). split; [intros (st' & H & _); discriminate|intros [_ H]; discriminate]. }
      set (g := sig_valid (v_key v) (vote_msg ch c s) (cs_sig s)).
      destruct (needed <? tally st + v_power v) eqn:Hn.
      + rewrite loop_stopped by reflexivity. split.
        * intros (st' & H & Hlt & Hp). inversion H; subst; cbn in *.
          apply andb_true_iff in Hp as [Hp Hg]. rewrite Hg. auto.
        * intros [Hp Hg]. destruct g; [|discriminate]. eexists. split; [reflexivity|]. cbn.
          apply Z.ltb_lt in Hn. rewrite Hp. auto.
      + apply Z.ltb_ge in Hn.
        rewrite (IH (S idx) (mkls (tally st + v_power v) (j :: seen st) (pend st && g) false)) by (cbn; auto).
        cbn. rewrite andb_true_iff. destruct g; intuition discriminate.
  Qed.

  Lemma verify_sigs_addr_spec b : 0 <= needed -> forallb csig_basic (c_sigs c) = true ->
    (verify_sigs false b ch c vs needed = Ok <-> acc_t (c_sigs c) 0 [] = true).
  Proof.
    intros Hn Hb. unfold verify_sigs. set (st0 := mkls 0 [] true false).
    destruct b.
    - pose proof (batch_spec_t (c_sigs c) 0%nat st0 eq_refl Hn Hb) as Hs. cbn [tally pend seen st0] in Hs.
      destruct (sig_loop false true ch c vs needed 0 (c_sigs c) st0) as [r|st'] eqn:E.
      + split.
        * intros ->. exfalso. exact (batch_never_ok ch c needed vs false _ _ _ E).
        * intros Ha. destruct Hs as [_ Hs]. destruct (Hs (conj eq_refl Ha)) as (st' & H & _). discriminate.
      + split.
        * intros H. apply Hs. exists st'. split; [reflexivity|].
          destruct (tally st' <=? needed) eqn:Ht; [discriminate|]. apply Z.leb_gt in Ht.
          destruct (pend st'); [auto|discriminate].
        * intros Ha. destruct Hs as [_ Hs]. destruct (Hs (conj eq_refl Ha)) as (st2 & H & Hlt & Hp).
          inversion H; subst. apply Z.leb_gt in Hlt. rewrite Hlt, Hp. reflexivity.
    - destruct (single_spec_t (c_sigs c) 0%nat st0 eq_refl Hn Hb) as [H1 H2]. cbn [tally seen st0] in H1.
      destruct (sig_loop false false ch c vs needed 0 (c_sigs c) st0) as [r|st'] eqn:E.
      + rewrite <- H1. split; congruence.
      + specialize (H2 st' eq_refl). apply Z.leb_le in H2. rewrite H2. split; [discriminate|].
        intros Ha. apply H1 in Ha. discriminate.
  Qed.
End TrustingPaths.

(** the Verify verdict does not depend on the signature path either, once the untrusted commit's signatures are
    basically valid (Commit.ValidateBasic, which Validate and the binary decoder run) *)
Theorem verify_same_irrelevant b b' t u :
  powers_nonneg (vs_vals (vals t)) -> forallb csig_basic (c_sigs (cmt u)) = true ->
  (verify (set_same b t) (set_same b' u) = Ok <-> verify t u = Ok).
Proof.
  intros Hp Hb. destruct t as [ht ct [tv tp ts] dt], u as [hu cu [uv up us] du].
  unfold verify, adjacent, set_same, xhash, verify_commit_trusting.
  cbn [hdr cmt vals dh vs_vals vs_prop vs_same] in *.
  destruct (u64 (u64 (height ht) + 1) =? u64 (height hu)); [reflexivity|].
  destruct (MAX_TOTAL_POWER <? total_power tv); [reflexivity|].
  assert (Hn : 0 <= total_power tv * 1 / 3) by (apply Z.div_pos; [pose proof (total_power_nonneg _ Hp); lia|lia]).
  rewrite !verify_sigs_addr_spec by assumption. reflexivity.
Qed.

Theorem verify_nonadjacent_sound t u :
  powers_nonneg (vs_vals (vals t)) -> adjacent t u = false -> verify t u = Ok ->
  3 * trusted_power (chain (hdr t)) (cmt u) (vs_vals (vals t)) > total_power (vs_vals (vals t)).
Proof.
  intros Hp Ha H. unfold verify in H. rewrite Ha in H. unfold verify_commit_trusting in H. cbv zeta in H.
  destruct (MAX_TOTAL_POWER <? total_power (vs_vals (vals t))); [discriminate|].
  apply verify_sigs_trusting_sound in H; [|exact Hp].
  apply one_third; [apply total_power_nonneg; exact Hp|exact H].
Qed.

(** go-header's Verify: the mandatory checks come first *)
Theorem verify_full_sound now t u :
  verify_full now t u = Ok ->
  chain (hdr u) = chain (hdr t) /\ u64 (height (hdr t)) < u64 (height (hdr u)) /\
  time_lt (tsec (hdr u)) (tnano (hdr u)) (tsec (hdr t)) (tnano (hdr t)) = false /\
  time_lt (now + CLOCK_DRIFT) 0 (tsec (hdr u)) (tnano (hdr u)) = false /\ verify t u = Ok.
Proof.
  unfold verify_full. intros H.
  destruct (bs_eqb (chain (hdr u)) (chain (hdr t))) eqn:E1; cbn [negb] in H; [|discriminate].
  destruct (u64 (height (hdr u)) <=? u64 (height (hdr t))) eqn:E2; [discriminate|].
  destruct (time_lt (tsec (hdr u)) (tnano (hdr u)) (tsec (hdr t)) (tnano (hdr t))); [discriminate|].
  destruct (time_lt (now + CLOCK_DRIFT) 0 (tsec (hdr u)) (tnano (hdr u))); [discriminate|].
  apply bs_eqb_eq in E1. apply Z.leb_gt in E2. repeat split; auto.
  destruct (verify t u); [reflexivity|discriminate|discriminate].
Qed.

(** * Codecs: the wire form carries every field; decoding gives the same record back, up to the cached key-type flag *)
Lemma decode_json_encode x : decode_json (encode x) = Some (set_same false x).
Proof. destruct x as [[? ? ? ? ? ? [? ? ?] ? ? ? ? ? ? ? ? ?] [? ? [? ? ?] ?] [? ? ?] [? ?]]. reflexivity. Qed.

Definition wire_okb (x : xhdr) : bool :=
  hdr_basic (hdr x) && commit_wire_ok (cmt x) && (total_power (vs_vals (vals x)) <=? MAX_TOTAL_POWER) &&
  valset_basic (vals x) && dah_basic (dh x).

Lemma decode_bin_encode x : decode_bin (encode x) = if wire_okb x then Some (set_same true x) else None.
Proof.
  destruct x as [[vb va ch hh ts tn [lh lt lp] lc dt vh nv co ap lr ev pr] [chh cr [bh ct bp] sg] [vs p sm] [r cl]].
  unfold decode_bin, wire_okb, encode, dec_hdr, dec_commit, set_same. cbn -[hdr_basic commit_wire_ok valset_basic dah_basic total_power Z.ltb Z.leb bid_ok].
  set (h := mkhdr vb va ch hh ts tn (mkbid lh lt lp) lc dt vh nv co ap lr ev pr).
  assert (Hb : hdr_basic h = true -> bid_ok (mkbid lh lt lp) = true).
  { unfold hdr_basic. intros H. split_andb H. exact H8. }
  destruct (hdr_basic h) eqn:Eh.
  2:{ rewrite orb_true_r. reflexivity. }
  rewrite (Hb eq_refl). cbn [negb orb andb].
  destruct (commit_wire_ok (mkcmt chh cr (mkbid bh ct bp) sg)); cbn [negb andb]; [|reflexivity].
  replace (valset_basic (mkvs vs p true)) with (valset_basic (mkvs vs p sm)) by reflexivity.
  destruct (MAX_TOTAL_POWER <? total_power vs) eqn:Em.
  - apply Z.ltb_lt in Em. replace (total_power vs <=? MAX_TOTAL_POWER) with false by (symmetry; apply Z.leb_gt; lia). reflexivity.
  - apply Z.ltb_ge in Em. replace (total_power vs <=? MAX_TOTAL_POWER) with true by (symmetry; apply Z.leb_le; lia).
    cbn [orb andb]. destruct (valset_basic (mkvs vs p sm)); cbn [negb andb]; [|reflexivity].
    destruct (dah_basic (mkdah r cl)); reflexivity.
Qed.

Lemma acc_bid_ok ch c needed ss : forall ws t, acc ch c needed ws ss t = true -> bid_ok (c_bid c) = true.
Proof.
  induction ss as [|s ss IH]; intros [|v ws] t H; cbn in H; try discriminate.
  destruct (cs_flag s =? FLAG_COMMIT); cbn [negb] in H; [|eapply IH; exact H].
  destruct (full_good ch c v s) eqn:Hg; [|discriminate].
  unfold full_good in Hg. split_andb Hg. assumption.
Qed.

Lemma validate_wire_ok x : validate x = Ok -> wire_okb x = true.
Proof.
  intros H. apply validate_spec, valid_specb_inv in H as (Hh & Hc & Hv & He & _ & _ & _ & _ & Ht & Ha & Hd).
  unfold wire_okb, commit_wire_ok. rewrite Hh, Hc, Ht, Hv, Hd. cbn [andb].
  rewrite (acc_bid_ok _ _ _ _ _ _ Ha). cbn [andb].
  assert (Hs : forallb csig_basic (c_sigs (cmt x)) = true); [|rewrite Hs; reflexivity].
  unfold commit_basic in Hc. apply andb_true_iff in Hc as [_ Hc].
  apply orb_true_iff in Hc as [Hlt|Hr]; [|split_andb Hr; assumption].
  exfalso. apply hdr_basic_height in Hh. apply Z.ltb_lt in Hlt. apply Z.eqb_eq in He. lia.
Qed.

Theorem reencode_json_stable x y :
  decode_json (encode x) = Some y ->
  committed y = committed x /\ cmt y = cmt x /\ xhash y = xhash x /\ (validate y = Ok <-> validate x = Ok).
Proof.
  rewrite decode_json_encode. intros H. inversion H; subst.
  repeat split; try reflexivity; apply validate_same_irrelevant.
Qed.

Theorem reencode_bin_stable x y :
  decode_bin (encode x) = Some y ->
  committed y = committed x /\ cmt y = cmt x /\ xhash y = xhash x /\ (validate y = Ok <-> validate x = Ok).
Proof.
  rewrite decode_bin_encode. destruct (wire_okb x); [|discriminate]. intros H. inversion H; subst.
  repeat split; try reflexivity; apply validate_same_irrelevant.
Qed.

Theorem reencode_bin_total_on_valid x : validate x = Ok -> exists y, decode_bin (encode x) = Some y.
Proof. intros H. rewrite decode_bin_encode, (validate_wire_ok x H). eauto. Qed.

Theorem reencode_verify_stable t u t' u' :
  (decode_bin (encode t) = Some t' \/ decode_json (encode t) = Some t') ->
  (decode_bin (encode u) = Some u' \/ decode_json (encode u) = Some u') ->
  powers_nonneg (vs_vals (vals t)) -> forallb csig_basic (c_sigs (cmt u)) = true ->
  (verify t' u' = Ok <-> verify t u = Ok).
Proof.
  intros Ht Hu Hp Hb.
  assert (Et : exists b, t' = set_same b t).
  { destruct Ht as [Ht|Ht]; [rewrite decode_bin_encode in Ht; destruct (wire_okb t); [|discriminate]|rewrite decode_json_encode in Ht];
      inversion Ht; eauto. }
  assert (Eu : exists b, u' = set_same b u).
  { destruct Hu as [Hu|Hu]; [rewrite decode_bin_encode in Hu; destruct (wire_okb u); [|discriminate]|rewrite decode_json_encode in Hu];
      inversion Hu; eauto. }
  destruct Et as (b & ->), Eu as (b' & ->). apply verify_same_irrelevant; assumption.
Qed.

(** * MsgID *)
Lemma dec_commit_encode x : dec_commit (encode x) = Some (cmt x).
Proof. destruct x as [h [? ? [? ? ?] ?] v d]. reflexivity. Qed.

Theorem msgid_is_blockid x : commit_wire_ok (cmt x) = true -> msg_id (encode x) = MBlock (c_bid (cmt x)).
Proof. intros H. unfold msg_id. rewrite dec_commit_encode, H. reflexivity. Qed.

Theorem msgid_only_blockid x y :
  commit_wire_ok (cmt x) = true -> commit_wire_ok (cmt y) = true -> c_bid (cmt x) = c_bid (cmt y) ->
  msg_id (encode x) = msg_id (encode y).
Proof. intros Hx Hy Hb. rewrite !msgid_is_blockid by assumption. congruence. Qed.

Lemma validate_commit_wire_ok x : validate x = Ok -> commit_wire_ok (cmt x) = true.
Proof. intros H. apply validate_wire_ok in H. unfold wire_okb in H. split_andb H. assumption. Qed.

Lemma msgid_of_valid x : validate x = Ok -> msg_id (encode x) = MBlock (c_bid (cmt x)).
Proof. intros H. exact (msgid_is_blockid x (validate_commit_wire_ok x H)). Qed.

(** * Non-vacuity: a concrete chain of two headers, three validators of power 10 *)
Module Ex.
  Definition k (i : Z) : bs := Raw 32 i.
  Definition mkv (i : Z) : validator := mkval (addr_of (k i)) (k i) 10 0.
  Definition vs3 : list validator := [mkv 1; mkv 2; mkv 3].
  Definition rts : list bs := [Raw 90 11; Raw 90 12].
  Definition cts : list bs := [Raw 90 13; Raw 90 14].
  Definition d0 : dah := mkdah rts cts.
  Definition chn : bs := Raw 4 50.
  Definition raw (h : Z) (last : bs) : rawhdr :=
    mkhdr 11 3 chn h (1000 + h) 0 (mkbid last 1 (Raw 32 60)) (Raw 32 61) (dah_hash d0) (valset_hash vs3) (valset_hash vs3)
          (Raw 32 62) (Raw 8 63) (Raw 32 64) (Raw 32 65) (addr_of (k 1)).
  Definition commit_for (r : rawhdr) (signers : list Z) : commit :=
    let b := mkbid (hdr_hash r) 1 (Raw 32 70) in
    let c0 := mkcmt (height r) 0 b [] in
    mkcmt (height r) 0 b
          (map (fun i => if existsb (Z.eqb i) signers
                         then mkcs 2 (addr_of (k i)) 1000 0 (SOf (k i) (mkmsg chn (height r) 0 b 1000 0))
                         else mkcs 1 empty ZERO_TIME_SEC 0 (SRaw 0 0)) [1; 2; 3]).
  Definition x_of (r : rawhdr) (signers : list Z) (same : bool) : xhdr :=
    mkx r (commit_for r signers) (mkvs vs3 (mkv 1) same) d0.
  Definition h1 := x_of (raw 5 (Raw 32 80)) [1; 2; 3] true.
  Definition h2 := x_of (raw 6 (xhash h1)) [1; 2; 3] false.
  Definition h4 := x_of (raw 8 (Raw 32 81)) [2; 3] true.
  (* two of three equal validators: exactly 2/3, not more *)
  Definition h1_two := x_of (raw 5 (Raw 32 80)) [1; 2] true.
  (* a committed field changed, commit kept *)
  Definition h1_app := mkx (mkhdr 11 3 chn 5 1005 0 (mkbid (Raw 32 80) 1 (Raw 32 60)) (Raw 32 61) (dah_hash d0) (valset_hash vs3)
                                  (valset_hash vs3) (Raw 32 62) (Raw 8 99) (Raw 32 64) (Raw 32 65) (addr_of (k 1)))
                           (cmt h1) (vals h1) (dh h1).
  (* a surplus column root: same DAH hash, different roots *)
  Definition h1_col := mkx (hdr h1) (cmt h1) (vals h1) (mkdah rts (cts ++ [Raw 90 15])).
  (* only one trusted validator signs: exactly 1/3 *)
  Definition h4_one := x_of (raw 8 (Raw 32 81)) [3] true.
End Ex.

Lemma nonvacuous_validate :
  validate Ex.h1 = Ok /\ validate Ex.h2 = Ok /\ validate (set_same false Ex.h1) = Ok /\
  validate Ex.h1_two = Rej false /\ validate Ex.h1_app = Rej false /\ validate Ex.h1_col = Rej false /\
  dah_hash (dh Ex.h1_col) = dah_hash (dh Ex.h1) /\ xhash Ex.h1_app = xhash Ex.h1 /\ committed Ex.h1_app <> committed Ex.h1.
Proof. repeat split; try (vm_compute; reflexivity). vm_compute. intros H. inversion H. Qed.

Lemma nonvacuous_verify :
  adjacent Ex.h1 Ex.h2 = true /\ verify Ex.h1 Ex.h2 = Ok /\ verify_full 2000 Ex.h1 Ex.h2 = Ok /\
  adjacent Ex.h1 Ex.h4 = false /\ verify Ex.h1 Ex.h4 = Ok /\ verify (set_same false Ex.h1) Ex.h4 = Ok /\
  verify Ex.h1 Ex.h4_one = Rej true /\ verify_full 2000 Ex.h2 Ex.h1 = Rej false.
Proof. repeat split; vm_compute; reflexivity. Qed.

Lemma nonvacuous_codec :
  decode_bin (encode Ex.h2) = Some (set_same true Ex.h2) /\ decode_json (encode Ex.h1) = Some (set_same false Ex.h1) /\
  msg_id (encode Ex.h1) = msg_id (encode Ex.h1_app) /\ msg_id (encode Ex.h1) <> msg_id (encode Ex.h2) /\
  decode_bin (encode Ex.h1_col) = None.
Proof. repeat split; try (vm_compute; reflexivity). vm_compute. discriminate. Qed.

(** Model of header/header.go ([ExtendedHeader.Validate], [Verify], [Hash]), header/serde.go (binary / JSON codecs as
    field-record maps, [MsgID]) and of the parts of celestia-core (cometbft fork v0.40.2) and celestia-app/pkg/da they
    call: [Header.ValidateBasic], [Header.Hash], [Commit.ValidateBasic], [ValidatorSet.ValidateBasic], [ValidatorSet.Hash],
    [VerifyCommitLight] / [VerifyCommitLightTrusting] (single *and* batch paths), [DataAvailabilityHeader.Hash/ValidateBasic],
    go-header's generic [Verify] wrapper (chain id, height, time).

    Byte strings are symbolic ([bs]): interned raw bytes or the output of a hash over tagged content.  Hashes are FREE
    constructors, so they are injective by construction (Dolev-Yao); a signature is either raw bytes or [SOf key msg],
    the signature made by [key] over exactly [msg], and verifies iff it is that term.

    Executable; no proofs here (ValidateProofs.v).  The harness harness/header/headertest/zz_verif_c16_test.go runs the
    real code and [mismatches] diffs the verdict classes. *)
From Coq Require Import List ZArith Bool Lia.
Import ListNotations.
Open Scope Z_scope.

(** * Symbolic byte strings *)
Inductive bs : Type :=
| Raw (len : Z) (id : Z)                          (* bytes that are no known hash output; [Raw 0 0] is the empty string *)
| Hsh (tag : Z) (nums : list Z) (args : list bs). (* hash output over tagged content *)

Definition T_HDR := 1.   (* Header.Hash: merkle root over the 14 encoded fields *)
Definition T_VALS := 2.  (* ValidatorSet.Hash: merkle root over Validator.Bytes() *)
Definition T_VAL := 3.   (* Validator.Bytes(): SimpleValidator{PubKey, VotingPower} (a leaf, never a field value) *)
Definition T_DAH := 4.   (* DataAvailabilityHeader.Hash: merkle root over row roots ++ column roots *)
Definition T_ADDR := 5.  (* PubKey.Address(): sha256(key)[:20] *)

Definition blen (b : bs) : Z :=
  match b with
  | Raw l _ => l
  | Hsh t _ _ => if t =? T_ADDR then 20 else 32
  end.

Fixpoint zs_eqb (a b : list Z) : bool :=
  match a, b with
  | [], [] => true
  | x :: a', y :: b' => (x =? y) && zs_eqb a' b'
  | _, _ => false
  end.

Fixpoint bs_eqb (x y : bs) : bool :=
  match x, y with
  | Raw l i, Raw l' i' => (l =? l') && (i =? i')
  | Hsh t n a, Hsh t' n' a' =>
      (t =? t') && zs_eqb n n' &&
      (fix go (a b : list bs) : bool :=
         match a, b with
         | [], [] => true
         | p :: a1, q :: b1 => bs_eqb p q && go a1 b1
         | _, _ => false
         end) a a'
  | _, _ => false
  end.

Definition empty : bs := Raw 0 0.
(** types.ValidateHash: empty or exactly tmhash.Size bytes *)
Definition hash_len_ok (b : bs) : bool := (blen b =? 0) || (blen b =? 32).

(** * Records *)
Record blockid := mkbid { bi_hash : bs; bi_total : Z; bi_phash : bs }.

Record rawhdr := mkhdr {
  vblock : Z; vapp : Z; chain : bs; height : Z; tsec : Z; tnano : Z;
  last_bid : blockid;
  last_commit_hash : bs; data_hash : bs; vals_hash : bs; next_vals_hash : bs; cons_hash : bs; app_hash : bs;
  last_res_hash : bs; evid_hash : bs; proposer : bs }.

Record validator := mkval { v_addr : bs; v_key : bs; v_power : Z; v_prio : Z }.

(** [vs_same] is the cached [allKeysHaveSameType] (true after NewValidatorSet / binary decoding, false in a struct
    literal or after JSON decoding); it only selects the batch or the one-by-one signature path. *)
Record valset := mkvs { vs_vals : list validator; vs_prop : validator; vs_same : bool }.

(** what a precommit signature covers: CanonicalVote{type, height, round, block id, timestamp, chain id} *)
Record votemsg := mkmsg { m_chain : bs; m_height : Z; m_round : Z; m_bid : blockid; m_tsec : Z; m_tnano : Z }.

Inductive sgn := SRaw (len id : Z) | SOf (key : bs) (m : votemsg).

Record csig := mkcs { cs_flag : Z; cs_addr : bs; cs_tsec : Z; cs_tnano : Z; cs_sig : sgn }.
Record commit := mkcmt { c_height : Z; c_round : Z; c_bid : blockid; c_sigs : list csig }.
Record dah := mkdah { rows : list bs; cols : list bs }.
Record xhdr := mkx { hdr : rawhdr; cmt : commit; vals : valset; dh : dah }.

Definition bid_eqb (a b : blockid) : bool :=
  bs_eqb (bi_hash a) (bi_hash b) && (bi_total a =? bi_total b) && bs_eqb (bi_phash a) (bi_phash b).
Definition msg_eqb (a b : votemsg) : bool :=
  bs_eqb (m_chain a) (m_chain b) && (m_height a =? m_height b) && (m_round a =? m_round b) &&
  bid_eqb (m_bid a) (m_bid b) && (m_tsec a =? m_tsec b) && (m_tnano a =? m_tnano b).

(** ed25519, symbolically: verifies iff the signature was produced by that key over exactly that message *)
Definition sig_valid (key : bs) (m : votemsg) (s : sgn) : bool :=
  match s with
  | SOf k m' => bs_eqb k key && msg_eqb m' m
  | SRaw _ _ => false
  end.
Definition sig_len (s : sgn) : Z := match s with SRaw l _ => l | SOf _ _ => 64 end.

(** * Hashes (free constructors over all their fields) *)
(** [Header.Hash]: nil when ValidatorsHash is empty *)
Definition hdr_hash (h : rawhdr) : bs :=
  if blen (vals_hash h) =? 0 then empty else
  Hsh T_HDR [vblock h; vapp h; height h; tsec h; tnano h; bi_total (last_bid h)]
      [chain h; bi_hash (last_bid h); bi_phash (last_bid h); last_commit_hash h; data_hash h; vals_hash h;
       next_vals_hash h; cons_hash h; app_hash h; last_res_hash h; evid_hash h; proposer h].

Definition val_leaf (v : validator) : bs := Hsh T_VAL [v_power v] [v_key v].
Definition valset_hash (vs : list validator) : bs := Hsh T_VALS [] (map val_leaf vs).
Definition addr_of (key : bs) : bs := Hsh T_ADDR [] [key].

(** [DataAvailabilityHeader.Hash]: [slices := make(2*len(rows)); copy(slices[:n], rows); copy(slices[n:], cols)]
    - surplus column roots are dropped, missing ones are empty leaves. *)
Fixpoint resize (n : nat) (l : list bs) : list bs :=
  match n with
  | O => []
  | S n' => match l with [] => empty :: resize n' [] | x :: l' => x :: resize n' l' end
  end.
Definition dah_hash (d : dah) : bs := Hsh T_DAH [] (rows d ++ resize (length (rows d)) (cols d)).

(** * Constants *)
Definition BLOCK_PROTOCOL := 11.
Definition MAX_CHAIN_ID_LEN := 50.
Definition APP_VERSION := 9.
Definition ADDRESS_SIZE := 20.
Definition MAX_SIG_SIZE := 64.
Definition MAX_TOTAL_POWER := 1152921504606846975.  (* MaxInt64 / 8 *)
Definition MAX_PARTS := 2049.                        (* MaxBlockSizeBytes / BlockPartSizeBytes + 1 *)
Definition MIN_EDS := 2.
Definition MAX_EDS := 1024.
Definition ZERO_TIME_SEC := -62135596800.            (* time.Time{}.Unix() *)
Definition FLAG_ABSENT := 1.
Definition FLAG_COMMIT := 2.
Definition FLAG_NIL := 3.

(** * Basic validation *)
Definition psh_ok (b : blockid) : bool := (bi_total b <=? MAX_PARTS) && hash_len_ok (bi_phash b).
Definition bid_ok (b : blockid) : bool := hash_len_ok (bi_hash b) && psh_ok b.
Definition bid_zero (b : blockid) : bool := (blen (bi_hash b) =? 0) && (bi_total b =? 0) && (blen (bi_phash b) =? 0).

(** [Header.ValidateBasic] *)
Definition hdr_basic (h : rawhdr) : bool :=
  (vblock h =? BLOCK_PROTOCOL) && (blen (chain h) <=? MAX_CHAIN_ID_LEN) && (0 <? height h) &&
  bid_ok (last_bid h) && hash_len_ok (last_commit_hash h) && hash_len_ok (data_hash h) && hash_len_ok (evid_hash h) &&
  (blen (proposer h) =? ADDRESS_SIZE) && hash_len_ok (vals_hash h) && hash_len_ok (next_vals_hash h) &&
  hash_len_ok (cons_hash h) && hash_len_ok (last_res_hash h).

Definition ts_zero (s n : Z) : bool := (s =? ZERO_TIME_SEC) && (n =? 0).

(** [CommitSig.ValidateBasic] *)
Definition csig_basic (s : csig) : bool :=
  if cs_flag s =? FLAG_ABSENT then
    (blen (cs_addr s) =? 0) && ts_zero (cs_tsec s) (cs_tnano s) && (sig_len (cs_sig s) =? 0)
  else if (cs_flag s =? FLAG_COMMIT) || (cs_flag s =? FLAG_NIL) then
    (blen (cs_addr s) =? ADDRESS_SIZE) && negb (sig_len (cs_sig s) =? 0) && (sig_len (cs_sig s) <=? MAX_SIG_SIZE)
  else false.

(** [Commit.ValidateBasic] *)
Definition commit_basic (c : commit) : bool :=
  (0 <=? c_height c) && (0 <=? c_round c) &&
  ((c_height c <? 1) || (negb (bid_zero (c_bid c)) && negb (Nat.eqb (length (c_sigs c)) 0) && forallb csig_basic (c_sigs c))).

(** [Validator.ValidateBasic] (the public key is always present in the model) *)
Definition val_basic (v : validator) : bool := (0 <=? v_power v) && bs_eqb (v_addr v) (addr_of (v_key v)).

(** [ValidatorSet.ValidateBasic] *)
Definition valset_basic (vs : valset) : bool :=
  negb (Nat.eqb (length (vs_vals vs)) 0) && forallb val_basic (vs_vals vs) && val_basic (vs_prop vs) &&
  existsb (fun v => bs_eqb (v_addr v) (v_addr (vs_prop vs))) (vs_vals vs).

(** [DataAvailabilityHeader.ValidateBasic] *)
Definition dah_basic (d : dah) : bool :=
  let r := Z.of_nat (length (rows d)) in let c := Z.of_nat (length (cols d)) in
  (MIN_EDS <=? c) && (MIN_EDS <=? r) && (c <=? MAX_EDS) && (r <=? MAX_EDS) && (c =? r).

(** * Commit verification *)
Inductive verdict := Ok | Rej (soft : bool) | Panic.

Definition total_power (vs : list validator) : Z := fold_right (fun v a => v_power v + a) 0 vs.

Definition vote_msg (ch : bs) (c : commit) (s : csig) : votemsg :=
  mkmsg ch (c_height c) (c_round c) (c_bid c) (cs_tsec s) (cs_tnano s).

(** first validator with this address: [ValidatorSet.GetByAddress] *)
Fixpoint find_addr (a : bs) (vs : list validator) (i : nat) : option (nat * validator) :=
  match vs with
  | [] => None
  | v :: vs' => if bs_eqb (v_addr v) a then Some (i, v) else find_addr a vs' (S i)
  end.

Definition nat_in (i : nat) (l : list nat) : bool := existsb (Nat.eqb i) l.

(** One step of the loop over [commit.Signatures]; shared by the four variants:
      [by_index] - VerifyCommitLight (validator at the same index, addresses must match) or
                   VerifyCommitLightTrusting (look the validator up by address, skip strangers, refuse double votes);
      [batch]    - signatures are only collected ([pend] = "all collected ones are valid so far") and checked after
                   the loop, or checked one by one.
    Loop state: tally, seen validator indices, pend.  Result: [inl verdict] = return now, [inr state] = continue. *)
Record lstate := mkls { tally : Z; seen : list nat; pend : bool; stop : bool }.

Definition sig_step (by_index batch : bool) (ch : bs) (c : commit) (vs : list validator) (needed : Z)
           (idx : nat) (s : csig) (st : lstate) : verdict + lstate :=
  if stop st then inr st else
  if negb (cs_flag s =? FLAG_COMMIT) then inr st else
  if negb batch && negb (csig_basic s) then inl (Rej false) else
  let lookup :=
    if by_index then
      match nth_error vs idx with
      | Some v => if bs_eqb (v_addr v) (cs_addr s) then inr (Some (idx, v)) else inl (Rej false)
      | None => inl Panic (* index out of range; excluded by the size check *)
      end
    else
      match find_addr (cs_addr s) vs 0 with
      | None => inr None
      | Some (j, v) => if nat_in j (seen st) then inl (Rej false) else inr (Some (j, v))
      end in
  match lookup with
  | inl r => inl r
  | inr None => inr st
  | inr (Some (j, v)) =>
      (* VoteSignBytes -> CanonicalizeBlockID panics on a block id that fails ValidateBasic *)
      if negb (bid_ok (c_bid c)) then inl Panic else
      let seen' := if by_index then seen st else j :: seen st in   (* seenVals is only kept when looking up by address *)
      let good := sig_valid (v_key v) (vote_msg ch c s) (cs_sig s) in
      if batch then
        if negb (sig_len (cs_sig s) =? 64) then inl (Rej false) else
        let t := tally st + v_power v in
        inr (mkls t seen' (pend st && good) (needed <? t))
      else
        if negb good then inl (Rej false) else
        let t := tally st + v_power v in
        if needed <? t then inl Ok else inr (mkls t seen' (pend st) false)
  end.

Fixpoint sig_loop (by_index batch : bool) (ch : bs) (c : commit) (vs : list validator) (needed : Z)
         (idx : nat) (ss : list csig) (st : lstate) : verdict + lstate :=
  match ss with
  | [] => inr st
  | s :: ss' =>
      match sig_step by_index batch ch c vs needed idx s st with
      | inl r => inl r
      | inr st' => sig_loop by_index batch ch c vs needed (S idx) ss' st'
      end
  end.

Definition verify_sigs (by_index batch : bool) (ch : bs) (c : commit) (vs : list validator) (needed : Z) : verdict :=
  match sig_loop by_index batch ch c vs needed 0 (c_sigs c) (mkls 0 [] true false) with
  | inl r => r
  | inr st =>
      if tally st <=? needed then Rej true      (* ErrNotEnoughVotingPowerSigned *)
      else if batch then (if pend st then Ok else Rej false)
      else Ok
  end.

(** [shouldBatchVerify]: at least two signatures, ed25519 proposer key (always, in the model), all keys of one type *)
Definition use_batch (v : valset) (c : commit) : bool := (2 <=? Z.of_nat (length (c_sigs c))) && vs_same v.

(** [ValidatorSet.VerifyCommitLight(chainID, blockID, height, commit)] *)
Definition verify_commit_light (ch : bs) (b : blockid) (h : Z) (c : commit) (v : valset) : verdict :=
  if negb (Nat.eqb (length (vs_vals v)) (length (c_sigs c))) then Rej false else
  if negb (h =? c_height c) then Rej false else
  if negb (bid_eqb b (c_bid c)) then Rej false else
  let tot := total_power (vs_vals v) in
  if MAX_TOTAL_POWER <? tot then Panic else   (* TotalVotingPower() panics *)
  verify_sigs true (use_batch v c) ch c (vs_vals v) (tot * 2 / 3).

(** [ValidatorSet.VerifyCommitLightTrusting(chainID, commit, 1/3)] *)
Definition verify_commit_trusting (ch : bs) (c : commit) (v : valset) : verdict :=
  let tot := total_power (vs_vals v) in
  if MAX_TOTAL_POWER <? tot then Panic else
  verify_sigs false (use_batch v c) ch c (vs_vals v) (tot * 1 / 3).

(** * ExtendedHeader.Validate *)
Definition validate (x : xhdr) : verdict :=
  let h := hdr x in
  if negb (hdr_basic h) then Rej false else
  if (vapp h =? 0) || (APP_VERSION <? vapp h) then Rej false else
  if negb (commit_basic (cmt x)) then Rej false else
  if negb (valset_basic (vals x)) then Rej false else
  if negb (bs_eqb (vals_hash h) (valset_hash (vs_vals (vals x)))) then Rej false else
  if negb (bs_eqb (dah_hash (dh x)) (data_hash h)) then Rej false else
  if negb (c_height (cmt x) =? height h) then Rej false else
  if negb (bs_eqb (hdr_hash h) (bi_hash (c_bid (cmt x)))) then Rej false else
  match verify_commit_light (chain h) (c_bid (cmt x)) (height h) (cmt x) (vals x) with
  | Ok => if dah_basic (dh x) then Ok else Rej false
  | Rej _ => Rej false
  | Panic => Panic
  end.

(** [ExtendedHeader.Hash]: taken from the commit, not recomputed *)
Definition xhash (x : xhdr) : bs := bi_hash (c_bid (cmt x)).

(** * ExtendedHeader.Verify(untrusted) *)
Definition u64 (z : Z) : Z := z mod 18446744073709551616.
Definition adjacent (t u : xhdr) : bool := u64 (u64 (height (hdr t)) + 1) =? u64 (height (hdr u)).

Definition verify (t u : xhdr) : verdict :=
  if adjacent t u then
    if negb (bs_eqb (vals_hash (hdr u)) (next_vals_hash (hdr t))) then Rej false else
    if negb (bs_eqb (bi_hash (last_bid (hdr u))) (xhash t)) then Rej false else Ok
  else verify_commit_trusting (chain (hdr t)) (cmt u) (vals t).

(** go-header [Verify(trusted, untrusted)]: mandatory checks, then the method above; failures of a non-adjacent
    verification are soft.  [now] is the wall clock (seconds), clockDrift = 10 s. *)
Definition time_lt (s1 n1 s2 n2 : Z) : bool := (s1 <? s2) || ((s1 =? s2) && (n1 <? n2)).
Definition CLOCK_DRIFT := 10.

Definition verify_full (now : Z) (t u : xhdr) : verdict :=
  if negb (bs_eqb (chain (hdr u)) (chain (hdr t))) then Rej false else
  if u64 (height (hdr u)) <=? u64 (height (hdr t)) then Rej false else
  if time_lt (tsec (hdr u)) (tnano (hdr u)) (tsec (hdr t)) (tnano (hdr t)) then Rej false else
  if time_lt (now + CLOCK_DRIFT) 0 (tsec (hdr u)) (tnano (hdr u)) then Rej false else
  match verify t u with
  | Rej soft => Rej (soft || negb (adjacent t u))
  | r => r
  end.

(** * Codecs as field-record maps.
    The wire form is the protobuf message seen as flat lists of scalar and byte fields; decoding re-runs the
    validations the Go [XxxFromProto] functions run.  JSON (tmjson) carries the same fields and validates nothing. *)
Record wire := mkwire {
  w_hnums : list Z; w_hbytes : list bs;                 (* header *)
  w_cnums : list Z; w_cbytes : list bs; w_sigs : list csig;   (* commit *)
  w_vals : list validator; w_prop : validator;          (* validator set (total voting power is sent as 0) *)
  w_rows : list bs; w_cols : list bs }.

Definition encode (x : xhdr) : wire :=
  let h := hdr x in let c := cmt x in
  mkwire [vblock h; vapp h; height h; tsec h; tnano h; bi_total (last_bid h)]
         [chain h; bi_hash (last_bid h); bi_phash (last_bid h); last_commit_hash h; data_hash h; vals_hash h;
          next_vals_hash h; cons_hash h; app_hash h; last_res_hash h; evid_hash h; proposer h]
         [c_height c; c_round c; bi_total (c_bid c)] [bi_hash (c_bid c); bi_phash (c_bid c)] (c_sigs c)
         (vs_vals (vals x)) (vs_prop (vals x)) (rows (dh x)) (cols (dh x)).

Definition dec_hdr (w : wire) : option rawhdr :=
  match w_hnums w, w_hbytes w with
  | [vb; va; hh; ts; tn; lt], [ch; lh; lp; lc; dt; vh; nv; co; ap; lr; ev; pr] =>
      Some (mkhdr vb va ch hh ts tn (mkbid lh lt lp) lc dt vh nv co ap lr ev pr)
  | _, _ => None
  end.

Definition dec_commit (w : wire) : option commit :=
  match w_cnums w, w_cbytes w with
  | [ch; cr; ct], [bh; bp] => Some (mkcmt ch cr (mkbid bh ct bp) (w_sigs w))
  | _, _ => None
  end.

(** [CommitFromProto]: BlockIDFromProto validates the block id, every CommitSig.FromProto validates, then Commit.ValidateBasic *)
Definition commit_wire_ok (c : commit) : bool := bid_ok (c_bid c) && forallb csig_basic (c_sigs c) && commit_basic c.

(** [UnmarshalExtendedHeader] *)
Definition decode_bin (w : wire) : option xhdr :=
  match dec_hdr w, dec_commit w with
  | Some h, Some c =>
      if negb (bid_ok (last_bid h)) || negb (hdr_basic h) then None else
      if negb (commit_wire_ok c) then None else
      let v := mkvs (w_vals w) (w_prop w) true in
      if (MAX_TOTAL_POWER <? total_power (w_vals w)) || negb (valset_basic v) then None else
      let d := mkdah (w_rows w) (w_cols w) in
      if negb (dah_basic d) then None else Some (mkx h c v d)
  | _, _ => None
  end.

Definition decode_json (w : wire) : option xhdr :=
  match dec_hdr w, dec_commit w with
  | Some h, Some c => Some (mkx h c (mkvs (w_vals w) (w_prop w) false) (mkdah (w_rows w) (w_cols w)))
  | _, _ => None
  end.

(** [MsgID]: the commit's block id when the commit decodes, a hash of the whole message otherwise *)
Inductive msgid := MBlock (b : blockid) | MData (w : wire).
Definition msg_id (w : wire) : msgid :=
  match dec_commit w with
  | Some c => if commit_wire_ok c then MBlock (c_bid c) else MData w
  | None => MData w
  end.

(** * Correspondence cases *)
Definition vclass (v : verdict) : Z := match v with Ok => 0 | Rej false => 1 | Rej true => 2 | Panic => 3 end.
(** Validate returns a plain error: soft/hard is not observable *)
Definition vclass_v (v : verdict) : Z := match v with Ok => 0 | Rej _ => 1 | Panic => 3 end.

Definition opt_class (o : option xhdr) : Z :=
  match o with Some x => vclass_v (validate x) | None => 4 end.   (* 4 = the decoder refused *)
Definition opt_hash_same (x : xhdr) (o : option xhdr) : bool :=
  match o with Some y => bs_eqb (xhash y) (xhash x) | None => true end.

Definition msgid_eqb (a b : msgid) : bool :=
  match a, b with
  | MBlock p, MBlock q => bid_eqb p q
  | _, _ => false    (* two distinct messages hashed as a whole: never equal in the harness *)
  end.

Inductive case :=
| CValidate (x : xhdr) (obs : Z) (obs_bin : Z) (obs_json : Z)
    (* Validate on the value, after a binary round trip, after a JSON round trip (class 4 = not decodable) *)
| CVerify (now : Z) (t u : xhdr) (obs_method : Z) (obs_full : Z)
    (* trusted.Verify(untrusted) and go-header Verify(trusted, untrusted) *)
| CMsgId (x y : xhdr) (same : bool)
    (* MsgID of the two binary encodings equal? *)
| CConst (name : nat) (v : Z).

Definition model_const (n : nat) : Z :=
  match n with
  | 0 => BLOCK_PROTOCOL | 1 => MAX_CHAIN_ID_LEN | 2 => APP_VERSION | 3 => ADDRESS_SIZE | 4 => MAX_SIG_SIZE
  | 5 => MAX_TOTAL_POWER | 6 => MAX_PARTS | 7 => MIN_EDS | 8 => MAX_EDS | 9 => ZERO_TIME_SEC | 10 => CLOCK_DRIFT
  | _ => (-1)%Z
  end%nat.

Definition agree (c : case) : bool :=
  match c with
  | CValidate x o ob oj =>
      (vclass_v (validate x) =? o) && (opt_class (decode_bin (encode x)) =? ob) && (opt_class (decode_json (encode x)) =? oj)
  | CVerify now t u om fu => (vclass (verify t u) =? om) && (vclass (verify_full now t u) =? fu)
  | CMsgId x y same => Bool.eqb (msgid_eqb (msg_id (encode x)) (msg_id (encode y))) same
  | CConst n v => model_const n =? v
  end.

Fixpoint mism_from (n : N) (cs : list case) : list N :=
  match cs with
  | [] => []
  | c :: cs' => if agree c then mism_from (N.succ n) cs' else n :: mism_from (N.succ n) cs'
  end.
Definition mismatches (cs : list case) : list N := mism_from 0%N cs.

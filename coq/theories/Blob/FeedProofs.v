(** C20 — proofs about the header feed (model Blob/Feed.v) and about the composition feed -> blob subscription:
    for every event sequence. *)
From Coq Require Import List ZArith Bool Lia.
From CN Require Import Base.Lts Blob.Subscribe Blob.SubscribeProofs Blob.Feed.
Import ListNotations.

Lemma hdrs_app a b : hdrs (a ++ b) = hdrs a ++ hdrs b.
Proof. induction a as [|[h|] a IH]; simpl; [reflexivity|now rewrite IH|exact IH]. Qed.

(** * the feed alone *)
Definition FInv (f : fstate) : Prop :=
  f_pub f = f_taken f ++ hdrs (f_src f) /\
  match f_pc f with
  | FWait => f_taken f = f_sent f
  | FHold h => f_taken f = f_sent f ++ [h]
  | FClosed => (f_taken f = f_sent f \/ exists h, f_taken f = f_sent f ++ [h]) /\ (f_cancel f = true \/ f_err f = true)
  end.

Lemma finit_inv : FInv finit.
Proof. unfold FInv, finit. simpl. auto. Qed.

Lemma fstep_inv f e : FInv f -> FInv (fstep f e).
Proof.
  intros [Hp Hc]. unfold fstep. destruct e.
  - (* publish *) unfold FInv; simpl. rewrite hdrs_app, Hp. simpl. rewrite <- app_assoc. split; [reflexivity|exact Hc].
  - unfold FInv; simpl. rewrite hdrs_app, Hp. simpl. rewrite app_nil_r. split; [reflexivity|exact Hc].
  - (* next *)
    destruct (f_pc f) eqn:P; try (unfold FInv; rewrite P; auto; fail).
    destruct (f_src f) as [|[h|] r] eqn:S; try (unfold FInv; rewrite P, S; split; [exact Hp|auto]; fail).
    + unfold FInv; simpl. simpl in Hp. rewrite <- app_assoc. simpl. split; [exact Hp|now rewrite Hc].
    + unfold FInv; simpl. simpl in Hp. split; [exact Hp|]. split; auto.
  - (* recv *)
    destruct (f_pc f) eqn:P; try (unfold FInv; rewrite P; auto; fail).
    unfold FInv; simpl. split; [exact Hp|exact Hc].
  - (* tick *)
    destruct (f_pc f) eqn:P; try (unfold FInv; rewrite P; auto; fail).
    + destruct (f_cancel f) eqn:C; [|unfold FInv; rewrite P; auto]. unfold FInv; simpl. split; [exact Hp|]. split; auto.
    + destruct (f_cancel f) eqn:C; [|unfold FInv; rewrite P; auto]. unfold FInv; simpl. split; [exact Hp|]. split; eauto.
  - (* cancel *)
    unfold FInv; simpl. split; [exact Hp|]. destruct (f_pc f); auto. destruct Hc as [A _]. split; auto.
Qed.

Lemma frun_inv es : FInv (run fstep finit es).
Proof. apply run_inv; [intros; now apply fstep_inv|exact finit_inv]. Qed.

(** NO DROP, NO DUPLICATE, IN ORDER, AT MOST ONE IN HAND: what the forwarder has sent is a prefix of what NextHeader gave
    it, which is a prefix of what the source made ready; the difference is exactly the header in its hand (none while it
    waits in NextHeader) and what is still ready in the source. *)
Theorem feed_prefix_inv es :
  let f := run fstep finit es in
  exists hand,
    f_taken f = f_sent f ++ hand /\ (length hand <= 1)%nat /\
    (f_pc f = FWait -> hand = []) /\ (forall h, f_pc f = FHold h -> hand = [h]) /\
    f_pub f = f_sent f ++ hand ++ hdrs (f_src f).
Proof.
  intros f. destruct (frun_inv es) as [Hp Hc]. fold f in Hp, Hc.
  destruct (f_pc f) eqn:P.
  - exists []. rewrite app_nil_r. repeat split; auto; try discriminate. simpl. now rewrite <- Hc.
  - exists [h]. repeat split; auto; try discriminate.
    + intros h' E. now inversion E.
    + rewrite app_assoc, <- Hc. exact Hp.
  - destruct Hc as [[Hc|[h Hc]] _].
    + exists []. rewrite app_nil_r. repeat split; auto; try discriminate. simpl. now rewrite <- Hc.
    + exists [h]. repeat split; auto; try discriminate. rewrite app_assoc, <- Hc. exact Hp.
Qed.

(** while the feed is open nothing is lost: every header of the source is sent, in hand, or still ready *)
Theorem feed_lossless_while_open es :
  let f := run fstep finit es in
  is_fclosed f = false -> f_pub f = f_sent f ++ in_hand f ++ hdrs (f_src f).
Proof.
  intros f O. destruct (feed_prefix_inv es) as (hand & _ & _ & Hw & Hh & Hp). fold f in Hw, Hh, Hp.
  unfold in_hand. unfold is_fclosed in O. destruct (f_pc f) eqn:P; try discriminate.
  - rewrite (Hw eq_refl) in Hp. exact Hp.
  - rewrite (Hh h eq_refl) in Hp. exact Hp.
Qed.

(** THE FEED CLOSES ONLY WHEN its context is cancelled or the source subscription returns an error *)
Theorem feed_closes_only_when f e :
  is_fclosed f = false -> is_fclosed (fstep f e) = true ->
  f_cancel f = true \/ (e = FNext /\ exists r, f_src f = SErr :: r).
Proof.
  unfold is_fclosed. intros O C.
  destruct (f_pc f) eqn:P; try discriminate; destruct e; unfold fstep, fset_pc in C; rewrite ?P in C; simpl in C;
    rewrite ?P in C; try discriminate;
    try (destruct (f_cancel f); [auto|rewrite ?P in C; simpl in C; rewrite ?P in C; discriminate]).
  all: destruct (f_src f) as [|[h|] r]; simpl in C; rewrite ?P in C; try discriminate; right; eauto.
Qed.

Theorem feed_closed_final f e :
  is_fclosed f = true -> is_fclosed (fstep f e) = true /\ f_sent (fstep f e) = f_sent f.
Proof.
  unfold is_fclosed, fstep. destruct (f_pc f) eqn:P; try discriminate. intros _.
  destruct e; simpl; rewrite ?P; auto.
Qed.

(** * the composition *)
Definition CInv (c : cstate) : Prop :=
  FInv (c_feed c) /\ Inv (c_blob c) /\
  s_deliv (c_blob c) = f_sent (c_feed c) /\
  s_cancel (c_blob c) = f_cancel (c_feed c) /\
  s_fclosed (c_blob c) = is_fclosed (c_feed c).

Lemma step_deliv_other fixed s e : (forall h, e <> Header h) -> s_deliv (step fixed s e) = s_deliv s.
Proof. intros N. crush_step e s. all: exfalso; eapply N; reflexivity. Qed.

Lemma step_header_idle fixed s h :
  s_pc s = Idle -> s_fclosed s = false -> s_deliv (step fixed s (Header h)) = s_deliv s ++ [h].
Proof.
  intros P F. unfold step. rewrite P, F.
  destruct (ended fixed s); [reflexivity|]. destruct (Nat.eqb _ _); reflexivity.
Qed.

Lemma step_cancel_flag fixed s e : e <> Cancel -> s_cancel (step fixed s e) = s_cancel s.
Proof. intros N. crush_step e s. Qed.

Lemma step_fclosed_flag fixed s e : e <> FeedClose -> s_fclosed (step fixed s e) = s_fclosed s.
Proof. intros N. crush_step e s. Qed.

Ltac crush_fstep e f :=
  unfold fstep, fset_pc; destruct e; simpl; try congruence; try (destruct (f_pc f)); simpl;
  try (destruct (f_src f) as [|[?|] ?]); simpl; try (destruct (f_cancel f) eqn:?); simpl; auto; try congruence.

Lemma fstep_cancel_flag f e : e <> FCancel -> f_cancel (fstep f e) = f_cancel f.
Proof. intros N. crush_fstep e f. Qed.

Lemma fclosed_stays f e : is_fclosed f = true -> is_fclosed (fstep f e) = true.
Proof. intros H. apply feed_closed_final, H. Qed.

(** a feed step that is not the rendezvous leaves the sent headers alone *)
Lemma fstep_sent_other f e : e <> FRecv -> f_sent (fstep f e) = f_sent f.
Proof. intros N. crush_fstep e f. Qed.

Lemma cinit_inv : CInv cinit.
Proof. unfold CInv, cinit. simpl. split; [exact finit_inv|]. split; [exact init_inv|]. auto. Qed.

(** Next / FeedTick: the feed moves, and when it is closed afterwards the producer gets FeedClose *)
Lemma close_sync_inv fixed f e b :
  (e = FNext \/ e = FTick) ->
  CInv (mkC f b) -> CInv (mkC (fstep f e) (close_sync fixed (fstep f e) b)).
Proof.
  intros He (HF & HB & Hd & Hc & Hf). simpl in *.
  assert (Ne : e <> FRecv /\ e <> FCancel) by (destruct He; subst; split; discriminate).
  destruct Ne as [Nr Nc].
  unfold CInv, close_sync. cbn [c_feed c_blob].
  split; [now apply fstep_inv|].
  destruct (is_fclosed (fstep f e)) eqn:C.
  - split; [now apply step_inv|].
    rewrite step_deliv_other by discriminate. rewrite fstep_sent_other by assumption.
    split; [assumption|]. rewrite step_cancel_flag by discriminate. rewrite fstep_cancel_flag by assumption.
    split; [assumption|]. unfold step. destruct (s_pc b); reflexivity.
  - split; [assumption|]. rewrite fstep_sent_other by assumption. split; [assumption|].
    rewrite fstep_cancel_flag by assumption. split; [assumption|].
    rewrite Hf. destruct (is_fclosed f) eqn:C0; [|reflexivity].
    rewrite (fclosed_stays f e C0) in C. discriminate.
Qed.

Lemma cstep_inv fixed c e : CInv c -> CInv (cstep fixed c e).
Proof.
  destruct c as [f b]. intros H. pose proof H as (HF & HB & Hd & Hc & Hf). simpl in *.
  destruct e; unfold cstep; cbn [c_feed c_blob].
  - (* publish *)
    unfold CInv; cbn [c_feed c_blob]. split; [now apply fstep_inv|]. simpl. auto.
  - unfold CInv; cbn [c_feed c_blob]. split; [now apply fstep_inv|]. simpl. auto.
  - apply close_sync_inv; auto.
  - apply close_sync_inv; auto.
  - (* handoff *)
    destruct (f_pc f) eqn:P; try exact H. destruct (s_pc b) eqn:Q; try exact H.
    assert (Fc : s_fclosed b = false) by (rewrite Hf; unfold is_fclosed; now rewrite P).
    unfold CInv; cbn [c_feed c_blob].
    split; [now apply fstep_inv|]. split; [now apply step_inv|].
    rewrite step_header_idle by assumption. rewrite step_cancel_flag by discriminate.
    rewrite step_fclosed_flag by discriminate.
    unfold fstep. rewrite P. simpl. rewrite Hd. repeat split; auto.
  - (* cancel *)
    unfold CInv; cbn [c_feed c_blob].
    split; [now apply fstep_inv|]. split; [now apply step_inv|].
    rewrite step_deliv_other by discriminate. rewrite step_fclosed_flag by discriminate.
    split; [exact Hd|]. split; [|rewrite Hf; unfold is_fclosed; simpl; reflexivity].
    unfold step. simpl. destruct (s_pc b); reflexivity.
  - (* a step of the producer / consumer / service *)
    destruct e; try exact H;
      (unfold CInv; cbn [c_feed c_blob]; split; [assumption|]; split; [now apply step_inv|];
       rewrite step_deliv_other by discriminate; rewrite step_cancel_flag by discriminate;
       rewrite step_fclosed_flag by discriminate; auto).
Qed.

Lemma crun_inv fixed es : CInv (run (cstep fixed) cinit es).
Proof. apply run_inv; [intros; now apply cstep_inv|exact cinit_inv]. Qed.

(** the producer/consumer component of the composition is a run of the subscription LTS: everything proved about
    [run (step fixed) init es] holds for the blob subscription fed by the real feed *)
Theorem e2e_projection fixed es : exists bes, c_blob (run (cstep fixed) cinit es) = run (step fixed) init bes.
Proof.
  induction es as [|e es IH] using rev_ind; [exists []; reflexivity|].
  destruct IH as [bes IH]. rewrite run_snoc.
  set (c := run (cstep fixed) cinit es) in *.
  assert (K : forall e', exists bes', step fixed (c_blob c) e' = run (step fixed) init bes').
  { intros e'. exists (bes ++ [e']). now rewrite run_snoc, IH. }
  destruct e; unfold cstep; cbn [c_blob]; try (exists bes; exact IH).
  - unfold close_sync. destruct (is_fclosed _); [apply K|exists bes; exact IH].
  - unfold close_sync. destruct (is_fclosed _); [apply K|exists bes; exact IH].
  - destruct (f_pc (c_feed c)); try (exists bes; exact IH).
    destruct (s_pc (c_blob c)); try (exists bes; exact IH). cbn [c_blob]. apply K.
  - apply K.
  - destruct e; cbn [c_blob]; try apply K; exists bes; exact IH.
Qed.

Ltac fin_tac :=
  repeat split; auto; try tauto; try discriminate; try (simpl; lia);
  try (intros ? [E|E]; inversion E; reflexivity); try (intros ? E; inversion E; reflexivity).

(** END TO END — EVERY BLOCK OF THE SOURCE ONCE, IN ORDER: the responses sent are the responses owed for the headers the
    SOURCE made ready, in source order, and every header of the source is accounted for: answered, or the one the
    producer is working on, or the one in the forwarder's hand, or still ready in the source - nothing in between is
    skipped, repeated or reordered. *)
Theorem e2e_prefix_inv fixed es :
  let c := run (cstep fixed) cinit es in
  let f := c_feed c in
  let b := c_blob c in
  exists work hand,
    f_pub f = s_emit b ++ work ++ hand ++ hdrs (f_src f) /\
    f_taken f = s_emit b ++ work ++ hand /\
    s_deliv b = s_emit b ++ work /\
    (length work <= 1)%nat /\ (length hand <= 1)%nat /\
    (s_pc b = Idle -> work = []) /\ (forall h, s_pc b = Retry h \/ s_pc b = Sending h -> work = [h]) /\
    (f_pc f = FWait -> hand = []) /\ (forall h, f_pc f = FHold h -> hand = [h]) /\
    s_emit b = s_cons b ++ s_queue b /\ (length (s_queue b) <= cap)%nat.
Proof.
  intros c f b. destruct (crun_inv fixed es) as ((Hp & Hfc) & (Hq & Hl & Hb) & Hd & _ & _).
  fold c in Hp, Hfc, Hq, Hl, Hb, Hd. fold f in Hp, Hfc, Hd. fold b in Hq, Hl, Hb, Hd.
  assert (W : exists work, s_deliv b = s_emit b ++ work /\ (length work <= 1)%nat /\
              (s_pc b = Idle -> work = []) /\ (forall h, s_pc b = Retry h \/ s_pc b = Sending h -> work = [h])).
  { destruct (s_pc b) eqn:P.
    - exists []. rewrite app_nil_r. fin_tac.
    - exists [h]. fin_tac.
    - exists [h]. fin_tac.
    - destruct Hb as [Hb|[h Hb]]; [exists []; rewrite app_nil_r|exists [h]]; fin_tac. }
  assert (Hh : exists hand, f_taken f = f_sent f ++ hand /\ (length hand <= 1)%nat /\
               (f_pc f = FWait -> hand = []) /\ (forall h, f_pc f = FHold h -> hand = [h])).
  { destruct (f_pc f) eqn:P.
    - exists []. rewrite app_nil_r. fin_tac.
    - exists [h]. fin_tac.
    - destruct Hfc as [[A|[h A]] _]; [exists []; rewrite app_nil_r|exists [h]]; fin_tac. }
  destruct W as (work & W1 & W2 & W3 & W4). destruct Hh as (hand & H1 & H2 & H3 & H4).
  exists work, hand.
  assert (T : f_taken f = s_emit b ++ work ++ hand) by (rewrite H1, <- Hd, W1, app_assoc; reflexivity).
  repeat split; auto.
  rewrite Hp, T. now rewrite <- !app_assoc.
Qed.

(** in particular: when the producer is back in its select, the forwarder waits in NextHeader and the source has
    nothing ready, every header of the source has been answered *)
Corollary e2e_all_answered fixed es :
  let c := run (cstep fixed) cinit es in
  s_pc (c_blob c) = Idle -> f_pc (c_feed c) = FWait -> f_src (c_feed c) = [] ->
  s_emit (c_blob c) = f_pub (c_feed c).
Proof.
  intros c P Q S. destruct (e2e_prefix_inv fixed es) as (work & hand & A & _ & _ & _ & _ & W & _ & H & _).
  fold c in A, W, H. rewrite (W P), (H Q), S in A. simpl in A. now rewrite app_nil_r in A.
Qed.

(** END TO END — THE STREAM CLOSES ONLY WHEN the subscriber cancelled, the service stopped, the source subscription
    returned an error, or a header was handed over while 16 responses were unread *)
Theorem e2e_closes_only_when fixed es e :
  let c := run (cstep fixed) cinit es in
  is_closed (c_blob c) = false -> is_closed (c_blob (cstep fixed c e)) = true ->
  s_cancel (c_blob c) = true \/ s_stop (c_blob c) = true \/ f_err (c_feed c) = true \/
  (length (s_queue (c_blob c)) = cap /\ e = Handoff).
Proof.
  intros c O C. destruct (crun_inv fixed es) as ((_ & Hfc) & _ & _ & Hc & Hf). fold c in Hfc, Hc, Hf.
  assert (Fc : s_fclosed (c_blob c) = true -> s_cancel (c_blob c) = true \/ f_err (c_feed c) = true).
  { rewrite Hf, Hc. unfold is_fclosed. destruct (f_pc (c_feed c)); try discriminate. tauto. }
  assert (K : forall e', is_closed (step fixed (c_blob c) e') = true ->
              s_cancel (c_blob c) = true \/ s_stop (c_blob c) = true \/ f_err (c_feed c) = true \/
              (length (s_queue (c_blob c)) = cap /\ exists h, e' = Header h)).
  { intros e' C'. destruct (closes_only_when fixed _ e' O C') as [A|[A|[A|A]]]; auto.
    destruct (Fc A); auto. }
  assert (NC : forall e', (e' = FeedClose \/ e' = Cancel) -> is_closed (step fixed (c_blob c) e') = true -> False).
  { intros e' [-> | ->] C'; unfold is_closed, step in C', O; destruct (s_pc (c_blob c)); simpl in C'; discriminate. }
  destruct e; unfold cstep in C; cbn [c_blob] in C; try (rewrite O in C; discriminate).
  - unfold close_sync in C. destruct (is_fclosed _); [exfalso; eapply NC; eauto|rewrite O in C; discriminate].
  - unfold close_sync in C. destruct (is_fclosed _); [exfalso; eapply NC; eauto|rewrite O in C; discriminate].
  - destruct (f_pc (c_feed c)); try (rewrite O in C; discriminate).
    destruct (s_pc (c_blob c)) eqn:P; try (rewrite O in C; discriminate). cbn [c_blob] in C.
    destruct (K _ C) as [A|[A|[A|[A _]]]]; auto.
  - exfalso; eapply NC; eauto.
  - destruct e; cbn [c_blob] in C; try (rewrite O in C; discriminate);
      (destruct (K _ C) as [A|[A|[A|[_ [h A]]]]]; auto; discriminate).
Qed.

(** * non-vacuity *)
Definition fh (n : Z) : hdr := (n, [n * 10]%Z).
Definition fhs (a len : nat) : list hdr := map (fun n => fh (Z.of_nat n)) (seq a len).

(** feed alone, reader 24 headers behind: nothing is taken from the source beyond the one in hand, and a reader that
    catches up receives all 25 in order *)
Example ex_feed_slow_reader :
  let f := run fstep finit (map FPublish (fhs 1 25) ++ [FNext]) in
  f_sent f = [] /\ f_taken f = [fh 1] /\ length (hdrs (f_src f)) = 24%nat /\
  f_sent (run fstep f (flat_map (fun _ => [FRecv; FNext]) (seq 1 25))) = fhs 1 25.
Proof. vm_compute. auto. Qed.

(** the long outage: the retrieval of height 1 keeps failing (30 times) while the chain produces 24 more headers; the
    producer is stuck on height 1, the forwarder holds height 2, heights 3..25 wait in the source; when the retrieval
    recovers all 25 heights are answered, in order *)
Example ex_long_outage :
  let c := run (cstep true) cinit
             ([Publish (fh 1); Next; Handoff] ++ map Publish (fhs 2 24) ++ [Next] ++ repeat (B GetAllFail) 30) in
  s_pc (c_blob c) = Retry (fh 1) /\ f_pc (c_feed c) = FHold (fh 2) /\ hdrs (f_src (c_feed c)) = fhs 3 23 /\
  s_emit (c_blob c) = [] /\
  let c' := run (cstep true) c (flat_map (fun _ => [B GetAllOk; B Send; B Consume; Handoff; Next]) (seq 1 25)) in
  s_emit (c_blob c') = fhs 1 25 /\ s_cons (c_blob c') = fhs 1 25 /\ f_pub (c_feed c') = fhs 1 25 /\
  is_closed (c_blob c') = false /\ is_fclosed (c_feed c') = false.
Proof. vm_compute. repeat split; reflexivity. Qed.

(** the source fails while a retrieval is failing: the height already handed over is still answered, then the stream closes;
    a cancel closes both goroutines *)
Example ex_source_error_and_cancel :
  (let c := run (cstep true) cinit [Publish (fh 1); Next; Handoff; PublishErr; Next; B GetAllFail; B GetAllOk; B Send; B Tick] in
   s_emit (c_blob c) = [fh 1] /\ is_closed (c_blob c) = true /\ is_fclosed (c_feed c) = true /\ f_err (c_feed c) = true /\
   s_cancel (c_blob c) = false) /\
  (let c := run (cstep true) cinit [Publish (fh 1); Next; Handoff; Publish (fh 2); Next; CancelCtx; FeedTick; B GetAllOk] in
   s_emit (c_blob c) = [] /\ is_closed (c_blob c) = true /\ is_fclosed (c_feed c) = true /\ f_err (c_feed c) = false /\
   f_taken (c_feed c) = [fh 1; fh 2]).
Proof. vm_compute. repeat split; reflexivity. Qed.

(** C20 — proofs about the subscription LTS (model Blob/Subscribe.v): for every event sequence (every header sequence,
    failure pattern, consumer pace, cancellation / stop / feed close at any moment). *)
From Coq Require Import List ZArith Bool Lia.
From CN Require Import Base.Lts Blob.Subscribe.
Import ListNotations.

(** * the invariant *)
Definition Inv (s : state) : Prop :=
  s_cons s ++ s_queue s = s_emit s /\ (length (s_queue s) <= cap)%nat /\
  match s_pc s with
  | Idle => s_deliv s = s_emit s
  | Retry h | Sending h => s_deliv s = s_emit s ++ [h] /\ (length (s_queue s) < cap)%nat
  | Closed => s_deliv s = s_emit s \/ exists h, s_deliv s = s_emit s ++ [h]
  end.

Lemma init_inv : Inv init.
Proof. unfold Inv, init, cap. simpl. repeat split; lia. Qed.

Lemma step_inv fixed s e : Inv s -> Inv (step fixed s e).
Proof.
  intros (Hq & Hl & Hp). unfold step, ended.
  destruct e; destruct (s_pc s) eqn:P; simpl; try (unfold Inv; rewrite P; auto; fail).
  - (* Header at Idle *)
    destruct (s_fclosed s); [unfold Inv; rewrite P; auto|].
    destruct (s_cancel s || fixed && s_stop s); [unfold Inv; simpl; rewrite Hp; repeat split; eauto|].
    destruct (Nat.eqb (length (s_queue s)) cap) eqn:E; [unfold Inv; simpl; rewrite Hp; repeat split; eauto|].
    apply PeanoNat.Nat.eqb_neq in E. unfold Inv; simpl. rewrite Hp. repeat split; auto. lia.
  - destruct (s_cancel s || fixed && s_stop s); unfold Inv; simpl; [|rewrite P; auto].
    destruct Hp as [Hd _]. repeat split; eauto.
  - destruct (s_cancel s || fixed && s_stop s); unfold Inv; simpl; destruct Hp as [Hd Hlt]; repeat split; eauto.
  - (* Send *)
    destruct Hp as [Hd Hlt]. destruct (Nat.ltb (length (s_queue s)) cap) eqn:E; [|unfold Inv; rewrite P; auto].
    unfold Inv; simpl. rewrite app_assoc, Hq, app_length. simpl. repeat split; auto. lia.
  - destruct (s_cancel s || s_stop s || s_fclosed s); unfold Inv; simpl; [|rewrite P; auto]. repeat split; auto.
  - destruct (s_cancel s); unfold Inv; simpl; [|rewrite P; auto]. destruct Hp as [Hd _]. repeat split; eauto.
  - destruct (s_queue s) as [|r q] eqn:Q; unfold Inv; simpl; rewrite ?P, ?Q; auto.
    rewrite <- app_assoc. simpl. simpl in Hl. repeat split; auto; lia.
  - destruct (s_queue s) as [|r q] eqn:Q; unfold Inv; simpl; rewrite ?P, ?Q; auto.
    rewrite <- app_assoc. simpl. simpl in Hl. destruct Hp. repeat split; auto; lia.
  - destruct (s_queue s) as [|r q] eqn:Q; unfold Inv; simpl; rewrite ?P, ?Q; auto.
    rewrite <- app_assoc. simpl. simpl in Hl. destruct Hp. repeat split; auto; lia.
  - destruct (s_queue s) as [|r q] eqn:Q; unfold Inv; simpl; rewrite ?P, ?Q; auto.
    rewrite <- app_assoc. simpl. simpl in Hl. repeat split; auto; lia.
  - unfold Inv; simpl; auto.
  - unfold Inv; simpl; auto.
  - unfold Inv; simpl; auto.
  - unfold Inv; simpl; auto.
  - unfold Inv; simpl; auto.
  - unfold Inv; simpl; auto.
  - unfold Inv; simpl; auto.
  - unfold Inv; simpl; auto.
  - unfold Inv; simpl; auto.
  - unfold Inv; simpl; auto.
  - unfold Inv; simpl; auto.
  - unfold Inv; simpl; auto.
Qed.

Lemma run_inv_all fixed es : Inv (run (step fixed) init es).
Proof. apply run_inv; [intros; now apply step_inv|exact init_inv]. Qed.

(** EVERY BLOCK ONCE, IN ORDER, WITH THE RIGHT BLOBS: what was sent is exactly the responses of the headers received from the
    feed, in feed order, with at most the newest header still unanswered; what the consumer has read is a prefix of it.
    A failing retrieval keeps the producer on the same height. *)
Theorem prefix_inv fixed es :
  let s := run (step fixed) init es in
  (exists rest, s_deliv s = s_emit s ++ rest /\ (length rest <= 1)%nat) /\
  (s_pc s = Idle -> s_emit s = s_deliv s) /\
  (forall h, s_pc s = Retry h \/ s_pc s = Sending h -> s_deliv s = s_emit s ++ [h]) /\
  s_emit s = s_cons s ++ s_queue s /\ (length (s_queue s) <= cap)%nat.
Proof.
  intros s. destruct (run_inv_all fixed es) as (Hq & Hl & Hp). fold s in Hq, Hl, Hp.
  repeat split; auto.
  - destruct (s_pc s).
    + exists []. rewrite app_nil_r. split; [assumption|simpl; lia].
    + exists [h]. split; [tauto|simpl; lia].
    + exists [h]. split; [tauto|simpl; lia].
    + destruct Hp as [Hp|[h Hp]]; [exists []; rewrite app_nil_r|exists [h]]; split; auto; simpl; lia.
  - intros P. rewrite P in Hp. auto.
  - intros h [P|P]; rewrite P in Hp; tauto.
Qed.

(** the send never blocks: when getAll has succeeded there is room in the channel *)
Theorem send_never_blocks fixed es h :
  s_pc (run (step fixed) init es) = Sending h -> (length (s_queue (run (step fixed) init es)) < cap)%nat.
Proof. intros P. destruct (run_inv_all fixed es) as (_ & _ & Hp). rewrite P in Hp. tauto. Qed.

(** THE STREAM CLOSES ONLY WHEN the subscriber cancelled, the service stopped, the feed closed, or a header arrived while
    16 responses were unread *)
Theorem closes_only_when fixed s e :
  is_closed s = false -> is_closed (step fixed s e) = true ->
  s_cancel s = true \/ s_stop s = true \/ s_fclosed s = true \/
  (length (s_queue s) = cap /\ exists h, e = Header h).
Proof.
  unfold is_closed, step, ended.
  destruct e; destruct (s_pc s) eqn:P; simpl; try discriminate; intros _; try (rewrite ?P; simpl; discriminate).
  - destruct (s_fclosed s) eqn:F; [rewrite P; discriminate|].
    destruct (s_cancel s) eqn:C; [auto|]. destruct (s_stop s) eqn:St; [auto|].
    rewrite andb_false_r. simpl.
    destruct (Nat.eqb (length (s_queue s)) cap) eqn:E; [|simpl; discriminate].
    apply PeanoNat.Nat.eqb_eq in E. intros _. right; right; right. eauto.
  - destruct (s_cancel s) eqn:C; [auto|]. destruct (s_stop s) eqn:St; [auto|]. rewrite andb_false_r. simpl. rewrite P. discriminate.
  - destruct (s_cancel s) eqn:C; [auto|]. destruct (s_stop s) eqn:St; [auto|]. rewrite andb_false_r. simpl. discriminate.
  - destruct (Nat.ltb _ _); simpl; [|rewrite P]; discriminate.
  - destruct (s_cancel s) eqn:C; [auto|]. destruct (s_stop s) eqn:St; [auto|]. destruct (s_fclosed s) eqn:F; [auto|].
    simpl. rewrite P. discriminate.
  - destruct (s_cancel s) eqn:C; [auto|]. rewrite P. discriminate.
  - destruct (s_queue s); simpl; rewrite ?P; discriminate.
  - destruct (s_queue s); simpl; rewrite ?P; discriminate.
  - destruct (s_queue s); simpl; rewrite ?P; discriminate.
Qed.

(** and once closed it stays closed and nothing is sent any more *)
Theorem closed_final fixed s e : is_closed s = true -> is_closed (step fixed s e) = true /\ s_emit (step fixed s e) = s_emit s.
Proof.
  unfold is_closed, step. destruct (s_pc s) eqn:P; try discriminate. intros _.
  destruct e; simpl; rewrite ?P; auto. destruct (s_queue s); simpl; rewrite ?P; auto.
Qed.

(** * prompt end *)
(** number of steps the producer goroutine takes along a run; [countfail = false] leaves failing retrievals out *)
Fixpoint prod_steps (fixed countfail : bool) (s : state) (es : list event) : nat :=
  match es with
  | [] => 0
  | e :: r =>
    ((if prod_enabled s e && (countfail || match e with GetAllFail => false | _ => true end) then 1 else 0)
     + prod_steps fixed countfail (step fixed s e) r)%nat
  end.

Definition dist (s : state) : nat :=
  match s_pc s with Closed => 0 | Idle => 1 | Sending _ => 2 | Retry _ => 3 end.
Definition dist2 (s : state) : nat :=
  match s_pc s with Closed => 0 | Idle => 1 | Retry _ => 1 | Sending _ => 2 end.

Ltac crush_step e s :=
  intros; unfold step, set_pc; destruct e; destruct (s_pc s); simpl;
  repeat (match goal with |- context [if ?b then _ else _] => destruct b eqn:? end; simpl);
  try (destruct (s_queue s); simpl); auto; try discriminate; try congruence.

Lemma step_cancel_mono fixed s e : s_cancel s = true -> s_cancel (step fixed s e) = true.
Proof. crush_step e s. Qed.
Lemma step_stop_mono fixed s e : s_stop s = true -> s_stop (step fixed s e) = true.
Proof. crush_step e s. Qed.
Lemma step_fclosed_mono fixed s e : s_fclosed s = true -> s_fclosed (step fixed s e) = true.
Proof. crush_step e s. Qed.

(** after the subscriber cancelled, or (with the fix) the service stopped: two producer steps at most, whatever else
    happens in between and however the retrieval behaves *)
Lemma prompt_gen fixed : forall es s,
  s_cancel s = true \/ (fixed = true /\ s_stop s = true) ->
  (dist2 (run (step fixed) s es) + prod_steps fixed true s es <= dist2 s)%nat.
Proof.
  induction es as [|e r IH]; intros s Hc; [simpl; lia|].
  rewrite run_cons. cbn [prod_steps].
  assert (Hc' : s_cancel (step fixed s e) = true \/ (fixed = true /\ s_stop (step fixed s e) = true)).
  { destruct Hc as [Hc|[Hf Hs]]; [left; now apply step_cancel_mono|right; split; [assumption|now apply step_stop_mono]]. }
  specialize (IH (step fixed s e) Hc').
  assert (Hstep : (dist2 (step fixed s e) + (if prod_enabled s e && true then 1 else 0) <= dist2 s)%nat).
  { assert (He : ended fixed s = true).
    { unfold ended. destruct Hc as [->|[-> ->]]; [reflexivity|apply orb_true_r]. }
    unfold step, prod_enabled, dist2. rewrite He.
    destruct e; destruct (s_pc s) eqn:P; simpl; rewrite ?P; simpl; try lia.
    - destruct (s_fclosed s); simpl; rewrite ?P; simpl; lia.
    - destruct (Nat.ltb _ _); simpl; rewrite ?P; simpl; lia.
    - destruct (s_cancel s || s_stop s || s_fclosed s); simpl; rewrite ?P; simpl; lia.
    - destruct (s_cancel s); simpl; rewrite ?P; simpl; lia.
    - destruct (s_queue s); simpl; rewrite ?P; simpl; lia.
    - destruct (s_queue s); simpl; rewrite ?P; simpl; lia.
    - destruct (s_queue s); simpl; rewrite ?P; simpl; lia.
    - destruct (s_queue s); simpl; rewrite ?P; simpl; lia. }
  rewrite orb_true_l in *. lia.
Qed.

Theorem prompt_end_cancel fixed s es :
  s_cancel s = true -> (2 <= prod_steps fixed true s es)%nat -> is_closed (run (step fixed) s es) = true.
Proof.
  intros Hc Hn. pose proof (prompt_gen fixed es s (or_introl Hc)) as H.
  assert (dist2 s <= 2)%nat by (unfold dist2; destruct (s_pc s); lia).
  unfold is_closed. unfold dist2 in H at 1. destruct (s_pc (run (step fixed) s es)); try lia; try reflexivity.
Qed.

Theorem prompt_end_stop s es :
  s_stop s = true -> (2 <= prod_steps true true s es)%nat -> is_closed (run (step true) s es) = true.
Proof.
  intros Hc Hn. pose proof (prompt_gen true es s (or_intror (conj eq_refl Hc))) as H.
  assert (dist2 s <= 2)%nat by (unfold dist2; destruct (s_pc s); lia).
  unfold is_closed. unfold dist2 in H at 1. destruct (s_pc (run (step true) s es)); try lia; try reflexivity.
Qed.

(** after the feed closed: three producer steps that are not failing retrievals (a height already taken from the feed is
    still answered: getAll succeeds, the response is sent, the closed feed is seen) *)
Lemma prompt_feed_gen fixed : forall es s,
  s_fclosed s = true -> (dist (run (step fixed) s es) + prod_steps fixed false s es <= dist s)%nat.
Proof.
  induction es as [|e r IH]; intros s Hc; [simpl; lia|].
  rewrite run_cons. cbn [prod_steps].
  assert (Hc' : s_fclosed (step fixed s e) = true) by (now apply step_fclosed_mono).
  specialize (IH (step fixed s e) Hc').
  assert (Hstep : (dist (step fixed s e) +
                   (if prod_enabled s e && (false || match e with GetAllFail => false | _ => true end) then 1 else 0) <= dist s)%nat).
  { unfold step, prod_enabled, dist. rewrite Hc.
    destruct e; destruct (s_pc s) eqn:P; simpl; rewrite ?P; simpl; try lia.
    - destruct (ended fixed s); simpl; rewrite ?P; simpl; lia.
    - destruct (ended fixed s); simpl; rewrite ?P; simpl; lia.
    - destruct (Nat.ltb _ _); simpl; rewrite ?P; simpl; lia.
    - rewrite !orb_true_r. simpl. lia.
    - destruct (s_cancel s); simpl; rewrite ?P; simpl; lia.
    - destruct (s_queue s); simpl; rewrite ?P; simpl; lia.
    - destruct (s_queue s); simpl; rewrite ?P; simpl; lia.
    - destruct (s_queue s); simpl; rewrite ?P; simpl; lia.
    - destruct (s_queue s); simpl; rewrite ?P; simpl; lia. }
  lia.
Qed.

Theorem prompt_end_feedclose fixed s es :
  s_fclosed s = true -> (3 <= prod_steps fixed false s es)%nat -> is_closed (run (step fixed) s es) = true.
Proof.
  intros Hc Hn. pose proof (prompt_feed_gen fixed es s Hc) as H.
  assert (dist s <= 3)%nat by (unfold dist; destruct (s_pc s); lia).
  unfold is_closed. unfold dist in H at 1. destruct (s_pc (run (step fixed) s es)); try lia; try reflexivity.
Qed.

(** the code before the fix: the service stops while a retrieval keeps failing - the producer never returns *)
Theorem stop_ignored_before_fix :
  forall h n, let s := run (step false) init [Header h; StopService] in
  s_stop s = true /\ s_pc (run (step false) s (repeat GetAllFail n)) = Retry h /\
  prod_steps false true s (repeat GetAllFail n) = n.
Proof.
  intros h n. cbv zeta. split; [reflexivity|].
  set (s := run (step false) init [Header h; StopService]).
  assert (G : forall m t, s_pc t = Retry h -> s_cancel t = false ->
              s_pc (run (step false) t (repeat GetAllFail m)) = Retry h /\ prod_steps false true t (repeat GetAllFail m) = m).
  { induction m as [|m IH]; intros t P C; [simpl; auto|].
    assert (E : step false t GetAllFail = t).
    { unfold step, ended. rewrite P, C. reflexivity. }
    assert (PE : prod_enabled t GetAllFail = true) by (unfold prod_enabled; now rewrite P).
    simpl repeat. rewrite run_cons. cbn [prod_steps]. rewrite E, PE.
    destruct (IH t P C) as [A B]. rewrite A, B. auto. }
  apply G; reflexivity.
Qed.

(** * non-vacuity *)
Definition ex_h (n : Z) : hdr := (n, [n * 10; n * 10 + 1]%Z).

(** failures are retried, the consumer lags, a cancel arrives during a retrieval: two responses, in order, then closed *)
Example ex_cancel :
  let s := run (step true) init [Header (ex_h 1); GetAllFail; GetAllFail; GetAllOk; Send; Header (ex_h 2); GetAllOk; Send; Consume;
                                 Header (ex_h 3); GetAllFail; Cancel; GetAllFail] in
  s_emit s = [ex_h 1; ex_h 2] /\ s_cons s = [ex_h 1] /\ s_deliv s = [ex_h 1; ex_h 2; ex_h 3] /\ is_closed s = true.
Proof. vm_compute. auto. Qed.

(** a stalled consumer: the 17th header closes the stream, the 16 buffered responses stay readable *)
Example ex_overflow :
  let hs := map (fun n => ex_h (Z.of_nat n)) (seq 1 17) in
  let s := run (step true) init (flat_map (fun h => [Header h; GetAllOk; Send]) hs) in
  is_closed s = true /\ length (s_emit s) = 16%nat /\ length (s_deliv s) = 17%nat /\ s_cancel s = false /\ s_stop s = false.
Proof. vm_compute. auto. Qed.

(** the stop during a failing retrieval ends the stream at the next step with the fix *)
Example ex_stop :
  is_closed (run (step true) init [Header (ex_h 1); StopService; GetAllFail]) = true /\
  is_closed (run (step false) init [Header (ex_h 1); StopService; GetAllFail; GetAllFail; GetAllFail]) = false.
Proof. vm_compute. auto. Qed.

(** Model of the proof comparison behind blob.Service.Included ([Proof.equal], blob/blob.go) and of
    [GetRangeResult.Verify] (nodebuilder/share/get_range_result.go).

    Go slices are lists, [*nmt.Proof] is an [option] (nil = None); indexing a slice beyond its length and calling a
    method through a nil pointer are the distinct outcome [RPanic].  Byte strings are abstracted to ids (equal bytes
    <-> equal id; nil and the empty slice are the same id, as for bytes.Equal).

    [proof_equal] / [range_verify] follow the REPAIRED code (fix-c12-1, fix-c12-2); [proof_equal_asfound] /
    [range_verify_asfound] are the transcriptions of the code as it was found, kept to document the defects
    (ProofEqProofs.v: [asfound_*] examples).  Executable; no proofs here. *)
From Coq Require Import List ZArith NArith Lia Bool.
Import ListNotations.
Open Scope Z_scope.

Inductive res := ROk | RErr | RPanic.

(** * nmt.Proof and blob.Proof *)
Record nproof := mkNP {
  np_start : Z; np_end : Z;
  np_nodes : list N;       (* ids of the node byte strings *)
  np_leaf : N;             (* id of leafHash *)
  np_ign : bool            (* isMaxNamespaceIDIgnored *)
}.
Definition bproof := list (option nproof).

Fixpoint nodes_eqb (a b : list N) : bool :=
  match a, b with
  | [], [] => true
  | x :: a', y :: b' => (x =? y)%N && nodes_eqb a' b'
  | _, _ => false
  end.

(** ** repaired [Proof.equal] *)
Definition nproof_equal (p q : nproof) : bool :=
  Nat.eqb (length (np_nodes p)) (length (np_nodes q)) &&
  nodes_eqb (np_nodes p) (np_nodes q) &&
  (np_start p =? np_start q) && (np_end p =? np_end q) &&
  (np_leaf p =? np_leaf q)%N &&
  Bool.eqb (np_ign p) (np_ign q).

Fixpoint components_equal (p q : bproof) : bool :=
  match p, q with
  | [], _ => true                                   (* range over p *)
  | Some a :: p', Some b :: q' => nproof_equal a b && components_equal p' q'
  | None :: p', None :: q' => components_equal p' q'     (* a missing component only equals a missing component *)
  | _, _ => false
  end.

Definition proof_equal (p q : bproof) : res :=
  if negb (Nat.eqb (length p) (length q)) then RErr
  else if components_equal p q then ROk else RErr.

(** ** [Proof.equal] as found *)
(** the loop over pNodes: compares with inputNodes[i]; running past the end of inputNodes panics *)
Fixpoint nodes_loop_asfound (pn inn : list N) : res :=
  match pn with
  | [] => ROk
  | x :: pn' =>
    match inn with
    | [] => RPanic                                  (* index out of range *)
    | y :: inn' => if (x =? y)%N then nodes_loop_asfound pn' inn' else RErr
    end
  end.

Fixpoint equal_loop_asfound (p q : bproof) : res :=
  match p with
  | [] => ROk
  | a :: p' =>
    match q with
    | [] => RPanic                                  (* unreachable after the length check *)
    | b :: q' =>
      match a, b with
      | Some a, Some b =>
        match nodes_loop_asfound (np_nodes a) (np_nodes b) with
        | ROk => if negb (np_start a =? np_start b) || negb (np_end a =? np_end b) then RErr
                 else if negb (np_leaf a =? np_leaf b)%N then RErr
                 else equal_loop_asfound p' q'
        | r => r
        end
      | _, _ => RPanic                              (* nil pointer dereference *)
      end
    end
  end.

Definition proof_equal_asfound (p q : bproof) : res :=
  if negb (Nat.eqb (length p) (length q)) then RErr else equal_loop_asfound p q.

(** ** [Service.Included]: [own] is what the node derives for the commitment (None: blob not found, i.e.
    ErrBlobNotFound from retrieve); [input] the client's proof (None: nil).  Result: (included, error?) *)
Inductive included_res := IncYes | IncNo | IncErr | IncPanic.

Definition included (own : option bproof) (input : option bproof) : included_res :=
  match input with
  | None => IncErr                                  (* "proof cannot be nil" *)
  | Some q =>
    match own with
    | None => IncNo                                 (* (false, nil) *)
    | Some p => match proof_equal p q with ROk => IncYes | RErr => IncErr | RPanic => IncPanic end
    end
  end.

(** * GetRangeResult.Verify *)
Record share_proof := mkSP {
  sp_data : list N;            (* ids of Proof.Data *)
  sp_nil_entries : bool;       (* a nil ShareProofs / RowProof.Proofs element *)
  sp_validates : bool          (* what ShareProof.Validate(dataRoot) (celestia-core) answers on a proof without nil entries *)
}.

Fixpoint shares_loop (shares data : list N) : res :=
  match shares with
  | [] => ROk
  | s :: shares' =>
    match data with
    | [] => RPanic                                  (* r.Proof.Data[i]: index out of range *)
    | d :: data' => if (s =? d)%N then shares_loop shares' data' else RErr
    end
  end.

(** repaired *)
Definition range_verify (shares : list N) (proof : option share_proof) : res :=
  match proof with
  | None => RErr
  | Some sp =>
    if negb (Nat.eqb (length shares) (length (sp_data sp))) then RErr
    else match shares_loop shares (sp_data sp) with
         | ROk => if sp_nil_entries sp then RErr else if sp_validates sp then ROk else RErr
         | r => r
         end
  end.

(** as found: no nil check, no length check; celestia-core's Validate dereferences nil entries *)
Definition range_verify_asfound (shares : list N) (proof : option share_proof) : res :=
  match proof with
  | None => match shares with [] => RPanic | _ => RPanic end      (* r.Proof.Data / r.Proof.Validate on nil *)
  | Some sp =>
    match shares_loop shares (sp_data sp) with
    | ROk => if sp_nil_entries sp then RPanic else if sp_validates sp then ROk else RErr
    | r => r
    end
  end.

(** * Correspondence cases *)
Inductive pcase :=
| PEqual (own input : bproof) (obs : res)
| PIncluded (own : option bproof) (input : option bproof) (obs : included_res)
| PRange (shares : list N) (proof : option share_proof) (obs : res).

Definition res_eqb (a b : res) : bool :=
  match a, b with ROk, ROk | RErr, RErr | RPanic, RPanic => true | _, _ => false end.
Definition inc_eqb (a b : included_res) : bool :=
  match a, b with IncYes, IncYes | IncNo, IncNo | IncErr, IncErr | IncPanic, IncPanic => true | _, _ => false end.

Definition agree (c : pcase) : bool :=
  match c with
  | PEqual p q o => res_eqb (proof_equal p q) o
  | PIncluded own input o => inc_eqb (included own input) o
  | PRange shares proof o => res_eqb (range_verify shares proof) o
  end.

Fixpoint mism_from (n : N) (cs : list pcase) : list N :=
  match cs with
  | [] => []
  | c :: cs' => if agree c then mism_from (N.succ n) cs' else n :: mism_from (N.succ n) cs'
  end.
Definition mismatches (cs : list pcase) : list N := mism_from 0%N cs.

(** Proofs about the proof comparison and range-result verification models (Blob/ProofEq.v). *)
From Coq Require Import List ZArith NArith Lia Bool.
From CN Require Import Blob.ProofEq.
Import ListNotations.
Open Scope Z_scope.

Lemma nodes_eqb_eq a : forall b, nodes_eqb a b = true <-> a = b.
Proof.
  induction a as [|x a IH]; intros [|y b]; cbn; split; intros H; try congruence; try discriminate.
  - apply andb_true_iff in H as [H1 H2]. apply N.eqb_eq in H1. apply IH in H2. congruence.
  - inversion H; subst. rewrite N.eqb_refl. cbn. apply IH. reflexivity.
Qed.

Lemma nproof_equal_eq p q : nproof_equal p q = true <-> p = q.
Proof.
  destruct p as [s1 e1 n1 l1 i1], q as [s2 e2 n2 l2 i2]. unfold nproof_equal. cbn [np_start np_end np_nodes np_leaf np_ign].
  rewrite !andb_true_iff, nodes_eqb_eq, !Z.eqb_eq, N.eqb_eq, Nat.eqb_eq, Bool.eqb_true_iff.
  split.
  - intros [[[[[_ ->] ->] ->] ->] ->]. reflexivity.
  - intros H; inversion H; subst. repeat split; reflexivity.
Qed.

Lemma components_equal_eq p : forall q, length p = length q -> (components_equal p q = true <-> p = q).
Proof.
  induction p as [|a p IH]; intros [|b q] Hl; cbn in Hl; try lia.
  - cbn. split; reflexivity.
  - specialize (IH q ltac:(lia)). cbn [components_equal].
    destruct a as [a|], b as [b|].
    + rewrite andb_true_iff, nproof_equal_eq, IH. split; [intros [-> ->]; reflexivity|intros H; inversion H; subst; split; reflexivity].
    + split; [discriminate|intros H; inversion H].
    + split; [discriminate|intros H; inversion H].
    + rewrite IH. split; [intros ->; reflexivity|intros H; inversion H; reflexivity].
Qed.

(** ** [equal] is equality, and total *)
Theorem equal_iff p q : (proof_equal p q = ROk <-> p = q) /\ proof_equal p q <> RPanic.
Proof.
  unfold proof_equal. destruct (Nat.eqb (length p) (length q)) eqn:E; cbn [negb].
  - apply Nat.eqb_eq in E. pose proof (components_equal_eq p q E) as H.
    destruct (components_equal p q); split; try discriminate.
    + split; [intros _; apply H; reflexivity|reflexivity].
    + split; [discriminate|intros Hpq; apply H in Hpq; discriminate].
  - apply Nat.eqb_neq in E. split; [|discriminate]. split; [discriminate|intros ->; congruence].
Qed.

(** the inclusion check says yes exactly when the blob is in the block and the supplied proof is the node's own *)
Theorem included_iff own input :
  (included own input = IncYes <-> exists p, own = Some p /\ input = Some p) /\ included own input <> IncPanic.
Proof.
  unfold included. destruct input as [q|]; [|split; [split; [discriminate|intros (p & _ & H); discriminate]|discriminate]].
  destruct own as [p|]; [|split; [split; [discriminate|intros (p & H & _); discriminate]|discriminate]].
  destruct (equal_iff p q) as [Hiff Hnp].
  destruct (proof_equal p q) eqn:E; try congruence; split; try discriminate.
  - split; [intros _; exists p; split; [reflexivity|f_equal; symmetry; apply Hiff; reflexivity]|reflexivity].
  - split; [discriminate|intros (p' & H1 & H2); inversion H1; inversion H2; subst; assert (Hc : RErr = ROk) by (apply Hiff; reflexivity); discriminate].
Qed.

(** ** what was found: a padded proof accepted, a trimmed one and a nil component panic *)
Definition ex_np : nproof := mkNP 2 5 [11; 12; 13]%N 0 true.

Example asfound_accepts_padded :
  proof_equal_asfound [Some ex_np] [Some (mkNP 2 5 [11; 12; 13; 99]%N 0 true)] = ROk /\
  proof_equal [Some ex_np] [Some (mkNP 2 5 [11; 12; 13; 99]%N 0 true)] = RErr.
Proof. split; reflexivity. Qed.

Example asfound_panics_short :
  proof_equal_asfound [Some ex_np] [Some (mkNP 2 5 [11; 12]%N 0 true)] = RPanic /\
  proof_equal [Some ex_np] [Some (mkNP 2 5 [11; 12]%N 0 true)] = RErr.
Proof. split; reflexivity. Qed.

Example asfound_panics_nil :
  proof_equal_asfound [Some ex_np] [None] = RPanic /\ proof_equal [Some ex_np] [None] = RErr.
Proof. split; reflexivity. Qed.

Example asfound_ignores_flag :
  proof_equal_asfound [Some ex_np] [Some (mkNP 2 5 [11; 12; 13]%N 0 false)] = ROk /\
  proof_equal [Some ex_np] [Some (mkNP 2 5 [11; 12; 13]%N 0 false)] = RErr.
Proof. split; reflexivity. Qed.

(** * GetRangeResult.Verify *)
Lemma shares_loop_ok shares : forall data,
  length shares = length data -> (shares_loop shares data = ROk <-> shares = data) /\ shares_loop shares data <> RPanic.
Proof.
  induction shares as [|s shares IH]; intros [|d data] Hl; cbn in Hl; try lia.
  - cbn. split; [split; reflexivity|discriminate].
  - cbn [shares_loop]. destruct (IH data ltac:(lia)) as [H1 H2].
    destruct (N.eqb_spec s d) as [->|Hne].
    + split; [|exact H2]. rewrite H1. split; [intros ->; reflexivity|intros H; inversion H; reflexivity].
    + split; [|discriminate]. split; [discriminate|intros H; inversion H; congruence].
Qed.

(** accepted => the shares handed out are exactly the data the share proof proves, the proof has no missing
    component and the (celestia-core) proof validation succeeded; never a panic *)
Theorem range_verify_sound shares proof :
  (range_verify shares proof = ROk <->
   exists sp, proof = Some sp /\ shares = sp_data sp /\ sp_nil_entries sp = false /\ sp_validates sp = true) /\
  range_verify shares proof <> RPanic.
Proof.
  unfold range_verify. destruct proof as [sp|].
  2:{ split; [split; [discriminate|intros (sp & H & _); discriminate]|discriminate]. }
  destruct (Nat.eqb (length shares) (length (sp_data sp))) eqn:E; cbn [negb].
  - apply Nat.eqb_eq in E. destruct (shares_loop_ok shares (sp_data sp) E) as [H1 H2].
    destruct (shares_loop shares (sp_data sp)) eqn:El; try congruence.
    + assert (Hs : shares = sp_data sp) by (apply H1; reflexivity).
      destruct (sp_nil_entries sp) eqn:En, (sp_validates sp) eqn:Ev; split; try discriminate;
        (split; [try discriminate; intros _; exists sp; repeat split; assumption
                |intros (sp' & Hsp & _ & Hn & Hv); inversion Hsp; subst sp'; congruence]).
    + split; [|discriminate]. split; [discriminate|].
      intros (sp' & Hsp & Hs & _); inversion Hsp; subst sp'. apply H1 in Hs. discriminate.
  - apply Nat.eqb_neq in E. split; [|discriminate]. split; [discriminate|].
    intros (sp' & Hsp & Hs & _); inversion Hsp; subst sp'. rewrite Hs in E. congruence.
Qed.

Example asfound_range_accepts_trimmed :
  range_verify_asfound [1; 2]%N (Some (mkSP [1; 2; 3]%N false true)) = ROk /\
  range_verify [1; 2]%N (Some (mkSP [1; 2; 3]%N false true)) = RErr.
Proof. split; reflexivity. Qed.

Example asfound_range_panics_short :
  range_verify_asfound [1; 2; 3]%N (Some (mkSP [1; 2]%N false false)) = RPanic /\
  range_verify [1; 2; 3]%N (Some (mkSP [1; 2]%N false false)) = RErr /\
  range_verify_asfound [1]%N None = RPanic /\ range_verify [1]%N None = RErr.
Proof. repeat split; reflexivity. Qed.

(** non-vacuity *)
Example ex_equal_ok : proof_equal [Some ex_np; None] [Some ex_np; None] = ROk /\
                      range_verify [1; 2; 3]%N (Some (mkSP [1; 2; 3]%N false true)) = ROk /\
                      included (Some [Some ex_np]) (Some [Some ex_np]) = IncYes /\
                      included None (Some [Some ex_np]) = IncNo.
Proof. repeat split; reflexivity. Qed.

(** C12: which rows the proof handed out by [Service.GetProof] (blob/service.go, proofs bookkeeping of [retrieve]) covers.
    The bookkeeping itself is transcribed in Blob/Parser.v ([outer] / [step2]: append the row's proof, keep only the last one
    when a blob that ran over several rows did not verify, drop all when a row ends with an empty parser); this file only adds the
    correspondence cases for it.  harness/blob/zz_verif_c12_test.go (c12ProofRows) runs the real GetProof for every blob of a
    block and names each component of the returned proof by the identifier of its content (equal content <-> equal id); the
    model's answer, a list of ordinals of the namespace's rows, is mapped through the identifiers of the rows' proofs.
    Executable; no proofs here. *)
From Coq Require Import List ZArith NArith.
From CN Require Import Blob.Parser.
Import ListNotations.

Inductive robs :=
| RRows (ids : list N)      (* GetProof: identifiers of the components, in order *)
| RNotFound                 (* ErrBlobNotFound *)
| RErr.                     (* any other error / panic *)

(** namespace, row ranges of the header, what the getter returned, identifier of each namespace row's proof, queries *)
Definition rcase : Type := (N * list (N * N) * getter_res * list N * list (com * robs))%type.

Definition run_rows (ns : N) (ranges : list (N * N)) (g : getter_res) (ids : list N) (c : com) : robs :=
  match get_proof_rows c ns ranges g with
  | (OFound _ _, prf) => RRows (map (fun o => nth o ids 0%N) prf)
  | (ONotFound, _) => RNotFound
  | _ => RErr
  end.

Fixpoint idlist_eqb (x y : list N) : bool :=
  match x, y with
  | [], [] => true
  | a :: x', b :: y' => (a =? b)%N && idlist_eqb x' y'
  | _, _ => false
  end.

Definition robs_eqb (a b : robs) : bool :=
  match a, b with
  | RRows x, RRows y => idlist_eqb x y
  | RNotFound, RNotFound | RErr, RErr => true
  | _, _ => false
  end.

Definition rows_agree (c : rcase) : bool :=
  let '(ns, ranges, g, ids, qs) := c in
  forallb (fun qo => robs_eqb (run_rows ns ranges g ids (fst qo)) (snd qo)) qs.

Fixpoint rows_mism_from (n : N) (cs : list rcase) : list N :=
  match cs with
  | [] => []
  | c :: cs' => if rows_agree c then rows_mism_from (N.succ n) cs' else n :: rows_mism_from (N.succ n) cs'
  end.
Definition rows_mismatches (cs : list rcase) : list N := rows_mism_from 0%N cs.

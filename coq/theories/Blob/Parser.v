(** Model of blob retrieval: blob/service.go [retrieve] (lines 416-545), [getBlobs], [Get] and blob/parser.go,
    over the namespace rows handed back by the share getter.

    Shares are abstracted to the observations the code makes of them (go-square accessors):
    namespace, IsPadding, IsSequenceStart, SequenceLen, Version, GetSigner, and an opaque id of the share's
    payload.  go-square's [SparseSharesNeeded] and [parseSparseShares] are transcribed (modelled, under
    correspondence).  Commitments are opaque: [commit] is a free constructor, i.e. an injective symbolic
    function of the blob (namespace, share version, signer, length, payload).

    Executable; no proofs here (ParserProofs.v).  harness/blob/zz_verif_c11_test.go runs the real
    blob.Service on squares built by the real go-square builder and [mismatches] diffs. *)
From Coq Require Import List ZArith NArith Lia Bool.
Import ListNotations.
Open Scope Z_scope.

(** * Shares *)
Record share := mkShare {
  sh_ns : N;               (* 29 namespace bytes as a big-endian number *)
  sh_pad : bool;           (* Share.IsPadding() *)
  sh_start : bool;         (* Share.IsSequenceStart() *)
  sh_len : N;              (* the 4 sequence-length bytes (meaningful when sh_start) *)
  sh_ver : N;              (* Share.Version() *)
  sh_signer : option N;    (* GetSigner(share): id of the 20 signer bytes, None when nil *)
  sh_data : N              (* id of the share's content *)
}.

(** [Share.SequenceLen]: 0 for a continuation share *)
Definition seqlen (s : share) : N := if sh_start s then sh_len s else 0%N.

(** go-square/share/consts.go *)
Definition share_size : N := 512.
Definition namespace_size : N := 29.
Definition share_info_bytes : N := 1.
Definition sequence_len_bytes : N := 4.
Definition signer_size : N := 20.
Definition first_sparse_content : N := share_size - namespace_size - share_info_bytes - sequence_len_bytes.        (* 478 *)
Definition first_sparse_content_signer : N := first_sparse_content - signer_size.                                   (* 458 *)
Definition cont_sparse_content : N := share_size - namespace_size - share_info_bytes.                              (* 482 *)

Definition first_cap (signer : bool) : N := if signer then first_sparse_content_signer else first_sparse_content.

(** [SparseSharesNeeded(sequenceLen, containsSigner)] *)
Definition shares_needed (len : N) (signer : bool) : N :=
  if (len =? 0)%N then 0%N
  else if (len <=? first_cap signer)%N then 1%N
  else let rem := (len - first_cap signer)%N in
       (1 + rem / cont_sparse_content + (if (rem mod cont_sparse_content =? 0)%N then 0 else 1))%N.

(** * Blobs and commitments *)
Record blob := mkBlob {
  b_ns : N; b_ver : N; b_signer : option N;
  b_len : N;               (* data length in bytes *)
  b_chunks : list N        (* content ids of the shares that carry the data *)
}.

(** Commitments are opaque: a free (hence injective) constructor over the blob; [ComOther] stands for byte
    strings that are the commitment of no blob in sight. *)
Inductive com := ComBlob (b : blob) | ComOther (n : N).
Definition commit (b : blob) : com := ComBlob b.

Definition optN_eqb (x y : option N) : bool :=
  match x, y with Some a, Some b => (a =? b)%N | None, None => true | _, _ => false end.
Fixpoint listN_eqb (x y : list N) : bool :=
  match x, y with
  | [], [] => true
  | a :: x', b :: y' => (a =? b)%N && listN_eqb x' y'
  | _, _ => false
  end.
Definition blob_eqb (x y : blob) : bool :=
  (b_ns x =? b_ns y)%N && (b_ver x =? b_ver y)%N && optN_eqb (b_signer x) (b_signer y) &&
  (b_len x =? b_len y)%N && listN_eqb (b_chunks x) (b_chunks y).
Definition com_eqb (x y : com) : bool :=
  match x, y with
  | ComBlob a, ComBlob b => blob_eqb a b
  | ComOther a, ComOther b => (a =? b)%N
  | _, _ => false
  end.

(** * go-square [parseSparseShares] + [NewBlob] *)
Record pseq := mkSeq { q_ns : N; q_ver : N; q_signer : option N; q_len : N; q_chunks : list N; q_bytes : N }.

Definition supported_ver (v : N) : bool := (v =? 0)%N || (v =? 1)%N || (v =? 2)%N.

(** length of [Share.RawData()] of a sparse share *)
Definition raw_len (s : share) : N :=
  if sh_start s then (if (sh_ver s =? 1)%N || (sh_ver s =? 2)%N then first_sparse_content_signer else first_sparse_content)
  else cont_sparse_content.

(** [acc] holds the sequences in reverse order (head = the one being extended) *)
Fixpoint parse_seqs (acc : list pseq) (shs : list share) : option (list pseq) :=
  match shs with
  | [] => Some (rev acc)
  | s :: rest =>
    if negb (supported_ver (sh_ver s)) then None
    else if sh_pad s then parse_seqs acc rest
    else if sh_start s then
      parse_seqs (mkSeq (sh_ns s) (sh_ver s) (sh_signer s) (seqlen s) [sh_data s] (raw_len s) :: acc) rest
    else match acc with
         | [] => None                                          (* continuation share without a sequence start *)
         | q :: acc' =>
           if negb (q_ns q =? sh_ns s)%N then None             (* different namespace than the previous share *)
           else parse_seqs (mkSeq (q_ns q) (q_ver q) (q_signer q) (q_len q) (q_chunks q ++ [sh_data s])
                                  (q_bytes q + raw_len s) :: acc') rest
         end
  end.

(** namespace version 0 <-> first of the 29 bytes is 0 *)
Definition ns_version_zero (n : N) : bool := (n <? 2 ^ 224)%N.

(** [NewBlob] checks *)
Definition new_blob (q : pseq) : option blob :=
  if (q_len q =? 0)%N then None                                (* data can not be empty *)
  else if negb (ns_version_zero (q_ns q)) then None
  else let ok := if (q_ver q =? 0)%N then (match q_signer q with None => true | Some _ => false end)
                 else if (q_ver q =? 1)%N then (match q_signer q with Some _ => true | None => false end)
                 else if (q_ver q =? 2)%N then (match q_signer q with Some _ => (q_len q =? 36)%N | None => false end)
                 else false in
       if ok then Some (mkBlob (q_ns q) (q_ver q) (q_signer q) (q_len q) (q_chunks q)) else None.

Fixpoint seqs_to_blobs (qs : list pseq) : option (list blob) :=
  match qs with
  | [] => Some []
  | q :: qs' =>
    if (q_bytes q <? q_len q)%N then None                      (* sequence length greater than the bytes collected *)
    else match new_blob q with
         | None => None
         | Some b => match seqs_to_blobs qs' with None => None | Some bs => Some (b :: bs) end
         end
  end.

Definition parse_blobs (shs : list share) : option (list blob) :=
  match parse_seqs [] shs with None => None | Some qs => seqs_to_blobs qs end.

(** * blob/parser.go *)
Record parser := mkP { p_index : Z; p_length : N; p_shares : list share }.

Definition p_reset : parser := mkP 0 0 [].

Definition p_is_empty (p : parser) : bool :=
  (p_index p =? 0) && (p_length p =? 0)%N && (match p_shares p with [] => true | _ => false end).

Fixpoint count_pad (shs : list share) : nat :=
  match shs with
  | s :: rest => if sh_pad s then S (count_pad rest) else O
  | [] => O
  end.

(** [set]: [SetEmpty] = errEmptyShares *)
Inductive set_res := SetEmpty | SetOk (p : parser) (shrs : list share).

Definition p_set (p : parser) (index : Z) (shrs : list share) : set_res :=
  match shrs with
  | [] => SetEmpty
  | _ =>
    let off := count_pad shrs in                               (* skipPadding: p.index = offset *)
    match skipn off shrs with
    | [] => SetEmpty
    | (s0 :: _) as rest =>
      SetOk (mkP (Z.of_nat off + index)                        (* p.index += index *)
                 (shares_needed (seqlen s0) (sh_ver s0 =? 1)%N)
                 (p_shares p)) rest
    end
  end.

(** [addShares]: append until [len(p.shares) == p.length]; [Some rest] = complete with the remaining shares *)
Fixpoint add_shares (acc : list share) (len : N) (shs : list share) : list share * option (list share) :=
  match shs with
  | [] => (acc, None)
  | s :: rest =>
    let acc' := acc ++ [s] in
    if (N.of_nat (length acc') =? len)%N then (acc', Some rest) else add_shares acc' len rest
  end.

(** [parse]: the blob and its index, or an error *)
Definition p_parse (p : parser) : option (blob * Z) :=
  if negb (p_length p =? N.of_nat (length (p_shares p)))%N then None
  else match parse_blobs (p_shares p) with
       | Some [b] => Some (b, p_index p)
       | _ => None
       end.

(** * blob/service.go [retrieve] *)
Inductive outcome := OFound (b : blob) (idx : Z) | ONotFound | OErr | OFuel.

(** loop state: the parser, the proofs collected so far (as ordinals of the namespace rows), and every blob
    handed to the verify function so far, most recent first *)
Record st := mkSt { s_p : parser; s_prf : list nat; s_seen : list (blob * Z) }.

Inductive inner_res :=
| IBreak (s : st)                                              (* inner loop left with [break]; appShares = nil *)
| IDone (o : outcome) (prf : list nat) (seen : list (blob * Z)).   (* [return] *)

Definition last1 {A} (l : list A) : list A := skipn (length l - 1) l.     (* proofs[len(proofs)-1:] *)

Definition zlen {A} (l : list A) : Z := Z.of_nat (length l).

Section Retrieve.
  Variable v : blob -> bool.                                   (* the parser's verifyFn *)

  (** second half of an iteration of the inner loop: addShares, parse, verify; [rec] continues the loop *)
  Definition step2 (rec : Z -> list share -> st -> inner_res) (s : st) (was_empty : bool)
             (p : parser) (index : Z) (app : list share) : inner_res :=
    let '(acc, r) := add_shares (p_shares p) (p_length p) app in
    let p2 := mkP (p_index p) (p_length p) acc in
    match r with
    | None => IBreak (mkSt p2 (s_prf s) (s_seen s))          (* blob incomplete: next row *)
    | Some rest =>
      match p_parse p2 with
      | None => IDone OErr [] (s_seen s)
      | Some (b, i) =>
        let seen' := (b, i) :: s_seen s in
        if v b then IDone (OFound b i) (s_prf s) seen'
        else rec (index + (zlen app - zlen rest)) rest
                 (mkSt p_reset (if was_empty then s_prf s else last1 (s_prf s)) seen')
      end
    end.

  (** one row: the inner [for] loop.  [base] = rowIndex*len(RowRoots), [index] = column of [app]'s first share *)
  Fixpoint inner (fuel : nat) (base index : Z) (app : list share) (s : st) : inner_res :=
    match fuel with
    | O => IDone OFuel [] (s_seen s)
    | S f =>
      let was_empty := p_is_empty (s_p s) in
      if was_empty then
        match p_set (s_p s) (base + index) app with
        | SetEmpty => IBreak (mkSt p_reset (s_prf s) (s_seen s))
        | SetOk p1 shrs =>
          if Nat.eqb (length app) (length shrs) then step2 (inner f base) s was_empty p1 index app
          else step2 (inner f base) s was_empty p1 (index + (zlen app - zlen shrs)) shrs
        end
      else step2 (inner f base) s was_empty (s_p s) index app
    end.

  (** the loop over the namespace rows; [ord] numbers the rows, [app] is the variable [appShares] *)
  Fixpoint outer (w row_index : Z) (ord : nat) (rows : list (Z * list share)) (s : st) (app : list share)
    : outcome * list nat * list (blob * Z) :=
    match rows with
    | [] =>
      (* err = ErrBlobNotFound; an unfinished non-padding share in appShares turns it into another error *)
      (if existsb (fun sh => negb (sh_pad sh)) app then OErr else ONotFound, [], s_seen s)
    | (start, shs) :: rest =>
      match shs with
      | [] => (ONotFound, [], s_seen s)                       (* absence proof *)
      | _ =>
        let s1 := mkSt (s_p s) (s_prf s ++ [ord]) (s_seen s) in
        match inner (S (length shs)) (row_index * w) start shs s1 with
        | IDone o prf seen => (o, prf, seen)
        | IBreak s2 =>
          let s3 := if p_is_empty (s_p s2) then mkSt (s_p s2) [] (s_seen s2) else s2 in
          outer w (row_index + 1) (S ord) rest s3 []
        end
      end
    end.
End Retrieve.

(** what the share getter handed back *)
Inductive getter_res := GRows (rows : list (Z * list share)) | GNotFound | GFail.

(** first row whose root's namespace range contains [ns], else -1 *)
Fixpoint find_row (ns : N) (ranges : list (N * N)) (i : Z) : Z :=
  match ranges with
  | [] => -1
  | (mn, mx) :: rest => if (ns <? mn)%N || negb (ns <=? mx)%N then find_row ns rest (i + 1) else i
  end.

Definition retrieve (v : blob -> bool) (ns : N) (ranges : list (N * N)) (g : getter_res)
  : outcome * list nat * list (blob * Z) :=
  match g with
  | GNotFound => (ONotFound, [], [])                           (* shwap.ErrNotFound -> ErrBlobNotFound *)
  | GFail => (OErr, [], [])
  | GRows rows => outer v (zlen ranges) (find_row ns ranges 0) O rows (mkSt p_reset [] []) []
  end.

(** [getBlobs] (one namespace of GetAll): the verify function records every blob and never stops *)
Inductive getall_res := GAOk (bs : list (blob * Z)) | GAErr.

Definition get_all (ns : N) (ranges : list (N * N)) (g : getter_res) : getall_res :=
  match retrieve (fun _ => false) ns ranges g with
  | (OErr, _, _) | (OFuel, _, _) => GAErr
  | (_, _, seen) => GAOk (rev seen)
  end.

(** [GetAll] over several namespaces: results concatenated in request order; any error is reported
    together with the blobs found. *)
Fixpoint get_all_many (qs : list (N * list (N * N) * getter_res)) : list (blob * Z) * bool :=
  match qs with
  | [] => ([], false)
  | (ns, ranges, g) :: rest =>
    let '(bs, e) := get_all_many rest in
    match get_all ns ranges g with
    | GAOk b1 => (b1 ++ bs, e)
    | GAErr => (bs, true)
    end
  end.

(** [Get] by commitment; [GetProof] returns the proofs component of the same run *)
Definition get (c : com) (ns : N) (ranges : list (N * N)) (g : getter_res) : outcome :=
  let '(o, _, _) := retrieve (fun b => com_eqb (commit b) c) ns ranges g in o.

Definition get_proof_rows (c : com) (ns : N) (ranges : list (N * N)) (g : getter_res) : outcome * list nat :=
  let '(o, prf, _) := retrieve (fun b => com_eqb (commit b) c) ns ranges g in (o, prf).

(** * Correspondence cases *)
Inductive query := QAll | QGet (c : com) | QConst (name : nat) (val : N).

Inductive obs :=
| ObsBlobs (bs : list (blob * Z))      (* GetAll: blobs with Index() *)
| ObsFound (b : blob) (idx : Z)        (* Get: the blob *)
| ObsNotFound                          (* Get: ErrBlobNotFound *)
| ObsErr                               (* any other error *)
| ObsPanic.

Definition model_const (name : nat) : N :=
  match name with
  | 0 => share_size | 1 => namespace_size | 2 => first_sparse_content | 3 => first_sparse_content_signer
  | 4 => cont_sparse_content | 5 => signer_size
  | _ => 0%N
  end%nat.

Definition run_query (ns : N) (ranges : list (N * N)) (g : getter_res) (q : query) : obs :=
  match q with
  | QAll => match get_all ns ranges g with GAOk bs => ObsBlobs bs | GAErr => ObsErr end
  | QGet c => match get c ns ranges g with
              | OFound b i => ObsFound b i | ONotFound => ObsNotFound | OErr => ObsErr | OFuel => ObsPanic end
  | QConst n val => if (model_const n =? val)%N then ObsNotFound else ObsPanic
  end.

Fixpoint entries_eqb (x y : list (blob * Z)) : bool :=
  match x, y with
  | [], [] => true
  | (a, i) :: x', (b, j) :: y' => blob_eqb a b && (i =? j) && entries_eqb x' y'
  | _, _ => false
  end.

Definition obs_eqb (x y : obs) : bool :=
  match x, y with
  | ObsBlobs a, ObsBlobs b => entries_eqb a b
  | ObsFound a i, ObsFound b j => blob_eqb a b && (i =? j)
  | ObsNotFound, ObsNotFound | ObsErr, ObsErr | ObsPanic, ObsPanic => true
  | _, _ => false
  end.

(** one case: a namespace, the row-root namespace ranges of the header, the getter's answer, and a list of
    queries with the implementation's observed answers *)
Definition case : Type := N * list (N * N) * getter_res * list (query * obs).

Definition agree (c : case) : bool :=
  let '(ns, ranges, g, qs) := c in
  forallb (fun qo => obs_eqb (run_query ns ranges g (fst qo)) (snd qo)) qs.

Fixpoint mism_from (n : N) (cs : list case) : list N :=
  match cs with
  | [] => []
  | c :: cs' => if agree c then mism_from (N.succ n) cs' else n :: mism_from (N.succ n) cs'
  end.
Definition mismatches (cs : list case) : list N := mism_from 0%N cs.

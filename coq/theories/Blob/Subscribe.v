(** C20 — executable model of blob.Service.Subscribe (blob/service.go): the producer goroutine (header feed -> getAll with
    its retry loop -> send on the response channel of capacity 16) and the consumer, as a labelled transition system at
    channel granularity.  No proofs here (see SubscribeProofs.v).

    A header is the pair (height, ids of the blobs of the subscribed namespace at that height): the response the
    subscription owes for it carries exactly this pair, so "right blobs" is equality of the pair.

    [fixed = true] is the code with fix-c20-1 (the service context is tested next to the subscriber's context, in the
    header case and in the retry loop); [fixed = false] is the code before it. *)
From Coq Require Import List ZArith Bool.
Import ListNotations.
Open Scope Z_scope.

Notation hdr := (Z * list Z)%type.

Inductive pc :=
| Idle                (* in the outer select *)
| Retry (h : hdr)     (* in the retry loop: a getAll call for h is in flight *)
| Sending (h : hdr)   (* getAll succeeded, in the select { ctx.Done | blobCh <- response } *)
| Closed.             (* returned: the response channel is closed *)

Record state := mkS {
  s_pc : pc;
  s_queue : list hdr;      (* responses in the channel, oldest first *)
  s_cancel : bool;         (* the subscriber's context is cancelled *)
  s_stop : bool;           (* the service's context is cancelled *)
  s_fclosed : bool;        (* the header feed is closed *)
  s_deliv : list hdr;      (* ghost: headers the producer received from the feed, in order *)
  s_emit : list hdr;       (* ghost: responses sent so far *)
  s_cons : list hdr        (* ghost: responses the consumer received so far *)
}.

Inductive event :=
| Header (h : hdr)   (* the feed hands h to the producer (the feed channel is unbuffered: only possible in the outer select) *)
| GetAllFail         (* the getAll call in flight returns an error *)
| GetAllOk           (* the getAll call in flight returns the blobs *)
| Send               (* the send case of the final select is taken *)
| Tick               (* a Done / closed-feed case of a select is taken *)
| Consume            (* the subscriber reads one response *)
| Cancel             (* the subscriber cancels its context *)
| StopService        (* Service.Stop *)
| FeedClose.         (* the header feed closes its channel *)

Definition cap : nat := 16.

Definition set_pc (s : state) (p : pc) : state :=
  mkS p (s_queue s) (s_cancel s) (s_stop s) (s_fclosed s) (s_deliv s) (s_emit s) (s_cons s).

(** does a context test after getAll / at the head of the header case end the goroutine? *)
Definition ended (fixed : bool) (s : state) : bool := s_cancel s || (fixed && s_stop s).

Definition step (fixed : bool) (s : state) (e : event) : state :=
  match e, s_pc s with
  | Header h, Idle =>
    if s_fclosed s then s
    else
      let s' := mkS Idle (s_queue s) (s_cancel s) (s_stop s) (s_fclosed s) (s_deliv s ++ [h]) (s_emit s) (s_cons s) in
      if ended fixed s then set_pc s' Closed
      else if Nat.eqb (length (s_queue s)) cap then set_pc s' Closed      (* buffer full: the reader is 16 behind *)
      else set_pc s' (Retry h)
  | GetAllFail, Retry h => if ended fixed s then set_pc s Closed else s    (* retry the same height *)
  | GetAllOk, Retry h => if ended fixed s then set_pc s Closed else set_pc s (Sending h)
  | Send, Sending h =>
    if Nat.ltb (length (s_queue s)) cap
    then mkS Idle (s_queue s ++ [h]) (s_cancel s) (s_stop s) (s_fclosed s) (s_deliv s) (s_emit s ++ [h]) (s_cons s)
    else s                                                                  (* would block; shown unreachable *)
  | Tick, Idle => if s_cancel s || s_stop s || s_fclosed s then set_pc s Closed else s
  | Tick, Sending h => if s_cancel s then set_pc s Closed else s
  | Consume, _ =>
    match s_queue s with
    | r :: q => mkS (s_pc s) q (s_cancel s) (s_stop s) (s_fclosed s) (s_deliv s) (s_emit s) (s_cons s ++ [r])
    | [] => s
    end
  | Cancel, _ => mkS (s_pc s) (s_queue s) true (s_stop s) (s_fclosed s) (s_deliv s) (s_emit s) (s_cons s)
  | StopService, _ => mkS (s_pc s) (s_queue s) (s_cancel s) true (s_fclosed s) (s_deliv s) (s_emit s) (s_cons s)
  | FeedClose, _ => mkS (s_pc s) (s_queue s) (s_cancel s) (s_stop s) true (s_deliv s) (s_emit s) (s_cons s)
  | _, _ => s
  end.

Definition init : state := mkS Idle [] false false false [] [] [].

(** is e a step of the producer goroutine that it can take in s? *)
Definition prod_enabled (s : state) (e : event) : bool :=
  match e, s_pc s with
  | Header _, Idle => negb (s_fclosed s)
  | Tick, Idle => s_cancel s || s_stop s || s_fclosed s
  | GetAllFail, Retry _ | GetAllOk, Retry _ => true
  | Send, Sending _ => Nat.ltb (length (s_queue s)) cap
  | Tick, Sending _ => s_cancel s
  | _, _ => false
  end.

(** * Correspondence cases: one case = several concurrent subscriptions of one service; for every subscription its events
      (the service stop projected into each), the channel length observed after each event, everything the consumer
      received (including the final drain) and whether the channel was closed at the end *)
Definition sub_case : Type := (list (event * nat) * list hdr * bool)%type.
Definition case : Type := list sub_case.

Fixpoint list_eqb {A} (eqb : A -> A -> bool) (x y : list A) : bool :=
  match x, y with
  | [], [] => true
  | a :: x', b :: y' => eqb a b && list_eqb eqb x' y'
  | _, _ => false
  end.
Definition hdr_eqb (x y : hdr) : bool := (fst x =? fst y) && list_eqb Z.eqb (snd x) (snd y).
Definition is_closed (s : state) : bool := match s_pc s with Closed => true | _ => false end.

Fixpoint replay (s : state) (es : list (event * nat)) : option state :=
  match es with
  | [] => Some s
  | (e, qlen) :: r => let s' := step true s e in if Nat.eqb (length (s_queue s')) qlen then replay s' r else None
  end.

Definition sub_agree (x : sub_case) : bool :=
  let '(es, got, closed) := x in
  match replay init es with
  | Some s => list_eqb hdr_eqb (s_emit s) got && Bool.eqb (is_closed s) closed
  | None => false
  end.
Definition agree (x : case) : bool := forallb sub_agree x.

Fixpoint mism_from (n : N) (cs : list case) : list N :=
  match cs with
  | [] => []
  | x :: r => if agree x then mism_from (N.succ n) r else n :: mism_from (N.succ n) r
  end.
Definition mismatches (cs : list case) : list N := mism_from 0%N cs.

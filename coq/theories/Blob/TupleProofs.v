(** Proofs about the data-root-tuple model (Blob/Tuple.v). *)
From Coq Require Import List ZArith Lia Bool.
From CN Require Import Base.Bytes Blob.TupleMerkle Blob.Tuple.
Import ListNotations.
Open Scope Z_scope.

(** * Encoding *)
Lemma be_zero p : be p 0 = repeat 0 p.
Proof.
  induction p as [|p IH]; [reflexivity|]. cbn [be]. rewrite Z.div_0_l, Z.mod_0_l by lia. rewrite IH.
  clear IH. induction p as [|p IH]; [reflexivity|]. cbn [repeat app]. rewrite IH. reflexivity.
Qed.

Lemma be_pad w : forall p n, 0 <= n < 256 ^ Z.of_nat w -> be (p + w) n = repeat 0 p ++ be w n.
Proof.
  induction w as [|w IH]; intros p n H.
  - cbn in H. assert (n = 0) as -> by lia. rewrite Nat.add_0_r, be_zero. cbn [be]. rewrite app_nil_r. reflexivity.
  - rewrite Nat.add_succ_r. cbn [be]. rewrite IH.
    + rewrite app_assoc. reflexivity.
    + rewrite Nat2Z.inj_succ, Z.pow_succ_r in H by lia.
      split; [apply Z.div_pos; lia|apply Z.div_lt_upper_bound; lia].
Qed.

Lemma nbytes_spec n : 0 <= n < 2 ^ 64 -> (1 <= nbytes n <= 8)%nat /\ n < 256 ^ Z.of_nat (nbytes n).
Proof.
  intros H. unfold nbytes. cbn [nbytes_aux].
  repeat match goal with
         | |- context [if ?c then _ else _] => let E := fresh "E" in destruct c eqn:E; [apply Z.ltb_lt in E; split; [lia|exact E]|apply Z.ltb_ge in E]
         end.
  exfalso. change (256 ^ Z.of_nat 8) with (2 ^ 64) in *. lia.
Qed.

Theorem to32_be n : 0 <= n < 2 ^ 64 -> to32 n = Some (be 32 n).
Proof.
  intros H. destruct (nbytes_spec n H) as [Hb Hn]. unfold to32, pad_bytes. rewrite be_length.
  replace (32 <? nbytes n)%nat with false by (symmetry; apply Nat.ltb_ge; lia).
  f_equal. replace 32%nat with ((32 - nbytes n) + nbytes n)%nat at 2 by lia.
  symmetry. apply be_pad. lia.
Qed.

Lemma app_inv_len {X} (a a' b b' : list X) : length a = length a' -> a ++ b = a' ++ b' -> a = a' /\ b = b'.
Proof.
  revert a'; induction a as [|x a IH]; intros [|y a'] Hl He; cbn in *; try lia.
  - split; [reflexivity|exact He].
  - inversion He; subst. destruct (IH a') as [-> ->]; [lia|assumption|]. split; reflexivity.
Qed.

(** the encoding determines height and data root *)
Theorem encode_injective h r h' r' t :
  0 <= h < 2 ^ 64 -> 0 <= h' < 2 ^ 64 ->
  encode_tuple h r = Some t -> encode_tuple h' r' = Some t -> h = h' /\ r = r'.
Proof.
  intros Hh Hh' E E'. unfold encode_tuple in *. rewrite to32_be in E, E' by assumption.
  assert (E2 : be 32 h ++ r = be 32 h' ++ r') by congruence.
  apply app_inv_len in E2 as [Hb Hr]; [|rewrite !be_length; reflexivity].
  split; [|exact Hr].
  apply (f_equal unbe) in Hb. rewrite !unbe_be in Hb.
  assert (2 ^ 64 < 256 ^ Z.of_nat 32) by (cbn; lia).
  rewrite !Z.mod_small in Hb by lia. congruence.
Qed.

Theorem encode_shape h r t :
  0 <= h < 2 ^ 64 -> encode_tuple h r = Some t -> t = be 32 h ++ r /\ length t = (32 + length r)%nat.
Proof.
  intros Hh E. unfold encode_tuple in E. rewrite to32_be in E by assumption.
  assert (E2 : t = be 32 h ++ r) by congruence.
  split; [exact E2|]. rewrite E2, app_length, be_length. reflexivity.
Qed.

(** * Range validation *)
Theorem range_checks start end_ head :
  validate_range start end_ head = true <->
  exists h, head = Some h /\ start <> 0 /\ start < end_ /\ end_ - start <= blocks_limit /\ end_ <= h + 1.
Proof.
  unfold validate_range. rewrite Z.geb_leb, Z.gtb_ltb.
  destruct (Z.eqb_spec start 0) as [E0|E0]; [split; [discriminate|intros (h & _ & Hc & _); congruence]|].
  destruct (Z.leb_spec end_ start) as [E1|E1]; [split; [discriminate|intros (h & _ & _ & Hc & _); lia]|].
  destruct (Z.ltb_spec blocks_limit (end_ - start)) as [E2|E2]; [split; [discriminate|intros (h & _ & _ & _ & Hc & _); lia]|].
  destruct head as [h|]; [|split; [discriminate|intros (h & Hc & _); discriminate]].
  rewrite Z.gtb_ltb. destruct (Z.ltb_spec (h + 1) end_) as [E3|E3]; cbn.
  - split; [discriminate|intros (h' & Hc & _ & _ & _ & Hd); inversion Hc; subst; lia].
  - split; [intros _; exists h; repeat split; auto; lia|reflexivity].
Qed.

Theorem request_checks height start end_ head :
  validate_request height start end_ head = true <->
  validate_range start end_ head = true /\ start <= height < end_.
Proof.
  unfold validate_request. rewrite andb_true_iff, negb_true_iff, orb_false_iff, Z.geb_leb.
  destruct (Z.ltb_spec height start) as [E1|E1], (Z.leb_spec end_ height) as [E2|E2]; split; intros [H1 H2]; split;
    try assumption; try lia; try (destruct H2; discriminate); try (split; reflexivity).
Qed.

(** * Tuples of a range *)
Section Chain.
Variable data_root : Z -> option (list Z).

Definition tuple_at (h : Z) : option (list Z) :=
  match data_root h with Some r => encode_tuple h r | None => None end.

Lemma collect_spec n : forall from ts,
  collect data_root (heights from n) = Some ts ->
  length ts = n /\ forall i, (i < n)%nat -> exists t, nth_error ts i = Some t /\ tuple_at (from + Z.of_nat i) = Some t.
Proof.
  induction n as [|n IH]; intros from ts H; cbn [heights collect] in H.
  - inversion H; subst. split; [reflexivity|intros i Hi; lia].
  - destruct (data_root from) as [r|] eqn:Er; [|discriminate].
    destruct (encode_tuple from r) as [t|] eqn:Et; [|discriminate].
    destruct (collect data_root (heights (from + 1) n)) as [ts'|] eqn:Ec; [|discriminate].
    inversion H; subst. destruct (IH (from + 1) ts' Ec) as [Hl Hn]. split; [cbn; lia|].
    intros [|i] Hi.
    + exists t. split; [reflexivity|]. unfold tuple_at. rewrite Z.add_0_r, Er. exact Et.
    + destruct (Hn i ltac:(lia)) as (t' & Ht1 & Ht2). exists t'. split; [exact Ht1|].
      replace (from + Z.of_nat (S i)) with (from + 1 + Z.of_nat i) by lia. exact Ht2.
Qed.

Lemma collect_total n : forall from,
  (forall i, (i < n)%nat -> tuple_at (from + Z.of_nat i) <> None) ->
  exists ts, collect data_root (heights from n) = Some ts.
Proof.
  induction n as [|n IH]; intros from H; cbn [heights collect]; [eexists; reflexivity|].
  pose proof (H 0%nat ltac:(lia)) as H0. unfold tuple_at in H0. rewrite Z.add_0_r in H0.
  destruct (data_root from) as [r|]; [|congruence].
  destruct (encode_tuple from r) as [t|]; [|congruence].
  destruct (IH (from + 1)) as [ts Hts].
  - intros i Hi. specialize (H (S i) ltac:(lia)). replace (from + 1 + Z.of_nat i) with (from + Z.of_nat (S i)) by lia. exact H.
  - rewrite Hts. eexists; reflexivity.
Qed.

(** heights are uint64; every header of the range is available with a 32-byte data root *)
Definition chain_ok (start end_ : Z) : Prop :=
  0 <= start /\ end_ <= 2 ^ 64 /\ forall h, start <= h < end_ -> exists r, data_root h = Some r /\ length r = 32%nat.

Lemma chain_tuple start end_ h : chain_ok start end_ -> start <= h < end_ -> tuple_at h <> None.
Proof.
  intros (H0 & Hmax & Hc) Hh. destruct (Hc h Hh) as (r & Hr & _). unfold tuple_at. rewrite Hr.
  unfold encode_tuple. rewrite to32_be by lia. discriminate.
Qed.

Lemma fetch_ok start end_ :
  chain_ok start end_ -> start < end_ ->
  exists ts, fetch_tuples data_root start end_ = Some ts /\ length ts = Z.to_nat (end_ - start) /\ ts <> [] /\
    forall h, start <= h < end_ -> exists t, nth_error ts (Z.to_nat (h - start)) = Some t /\ tuple_at h = Some t.
Proof.
  intros Hchain Hse. unfold fetch_tuples.
  destruct (collect_total (Z.to_nat (end_ - start)) start) as [ts Hts].
  - intros i Hi. apply (chain_tuple start end_); [exact Hchain|lia].
  - exists ts. split; [exact Hts|]. destruct (collect_spec _ _ _ Hts) as [Hl Hn]. split; [exact Hl|]. split.
    + destruct ts; [cbn in Hl; lia|discriminate].
    + intros h Hh. destruct (Hn (Z.to_nat (h - start)) ltac:(lia)) as (t & H1 & H2). exists t. split; [exact H1|].
      replace (start + Z.of_nat (Z.to_nat (h - start))) with h in H2 by lia. exact H2.
Qed.

(** a proof produced for a height of a valid range verifies against the tuple root of that range, for the tuple of
    exactly that height *)
Theorem tuple_proof_roundtrip height start end_ head :
  validate_request height start end_ head = true -> chain_ok start end_ ->
  exists p root t,
    tuple_proof data_root height start end_ head = Some p /\
    tuple_root data_root start end_ head = Some root /\
    tuple_at height = Some t /\
    verifies p root t /\
    mp_total p = end_ - start /\ mp_index p = height - start.
Proof.
  intros Hreq Hchain. pose proof Hreq as Hreq0.
  apply request_checks in Hreq as [Hrange Hh]. pose proof Hrange as Hrange0.
  apply range_checks in Hrange as (hd & -> & Hs0 & Hse & Hlim & Hhead).
  destruct (fetch_ok start end_ Hchain Hse) as (ts & Hf & Hl & Hne & Hnth).
  destruct (Hnth height Hh) as (t & Ht1 & Ht2).
  unfold tuple_proof, tuple_root. rewrite Hreq0, Hrange0, Hf.
  destruct ts as [|t0 ts0] eqn:Ets; [congruence|]. rewrite <- Ets in *.
  assert (H0 : 0 <= start) by (destruct Hchain; assumption).
  replace ((height =? 0) || (start =? 0)) with false
    by (symmetry; apply orb_false_iff; split; apply Z.eqb_neq; lia).
  destruct (proof_of ts (Z.to_nat (height - start))) as [p|] eqn:Ep.
  - destruct (proof_roundtrip ts _ p Ep) as (x & Hx & Hv). rewrite Ht1 in Hx. inversion Hx; subst x.
    assert (Hp : mp_total p = end_ - start /\ mp_index p = height - start).
    { unfold proof_of in Ep. rewrite Ht1 in Ep. inversion Ep; subst p. cbn [mp_total mp_index]. lia. }
    exists p, (hash_from_slices ts), t.
    split; [reflexivity|]. split; [reflexivity|]. split; [exact Ht2|]. split; [exact Hv|exact Hp].
  - unfold proof_of in Ep. rewrite Ht1 in Ep. discriminate.
Qed.

(** ... and only for that tuple: whatever verifies against the tuple root of the range at a claimed index (with the
    proof's total equal to the size of the range, which the client knows) is the tuple of height start + index *)
Theorem tuple_proof_sound start end_ head root (p : mproof (list Z)) t :
  chain_ok start end_ ->
  tuple_root data_root start end_ head = Some root ->
  mp_total p = end_ - start ->
  verifies p root t ->
  start <= start + mp_index p < end_ /\ tuple_at (start + mp_index p) = Some t.
Proof.
  intros Hchain Hroot Htot Hv. unfold tuple_root in Hroot.
  destruct (validate_range start end_ head) eqn:Hrange; [|discriminate].
  apply range_checks in Hrange as (hd & -> & Hs0 & Hse & Hlim & Hhead).
  destruct (fetch_ok start end_ Hchain Hse) as (ts & Hf & Hl & Hne & Hnth).
  rewrite Hf in Hroot. destruct ts as [|t0 ts0] eqn:Ets; [congruence|]. rewrite <- Ets in *.
  inversion Hroot; subst root.
  destruct (verify_sound ts p t) as [Hr Hx]; [lia|exact Hv|].
  split; [lia|].
  destruct (Hnth (start + mp_index p) ltac:(lia)) as (t' & H1 & H2).
  replace (start + mp_index p - start) with (mp_index p) in H1 by lia. congruence.
Qed.

(** the tuple at a height names that height and that header's data root, and nothing else *)
Corollary tuple_identifies start end_ head root (p : mproof (list Z)) t h r :
  chain_ok start end_ ->
  tuple_root data_root start end_ head = Some root -> mp_total p = end_ - start -> verifies p root t ->
  0 <= h < 2 ^ 64 -> encode_tuple h r = Some t ->
  h = start + mp_index p /\ data_root h = Some r.
Proof.
  intros Hchain Hroot Htot Hv Hh He.
  destruct (tuple_proof_sound start end_ head root p t Hchain Hroot Htot Hv) as [Hr Ht].
  unfold tuple_at in Ht. destruct (data_root (start + mp_index p)) as [r'|] eqn:Er; [|discriminate].
  destruct Hchain as (H0 & Hmax & _).
  destruct (encode_injective h r (start + mp_index p) r' t Hh ltac:(lia) He Ht) as [-> ->].
  split; [reflexivity|exact Er].
Qed.
End Chain.

(** non-vacuity: a chain of 12 headers, range [3, 10), height 7 *)
Definition ex_root (h : Z) : option (list Z) := if (1 <=? h) && (h <=? 12) then Some (repeat (h mod 256) 32) else None.

Example ex_chain_ok : validate_request 7 3 10 (Some 12) = true /\ chain_ok ex_root 3 10.
Proof.
  split; [reflexivity|]. split; [lia|]. split; [lia|]. intros h Hh. unfold ex_root.
  replace ((1 <=? h) && (h <=? 12)) with true by (symmetry; apply andb_true_iff; split; apply Z.leb_le; lia).
  eexists; split; [reflexivity|apply repeat_length].
Qed.

Example ex_single_block :
  (* a one-block range is a valid request and has a root and a proof *)
  validate_request 5 5 6 (Some 12) = true /\ tuple_root ex_root 5 6 (Some 12) <> None /\ tuple_proof ex_root 5 5 6 (Some 12) <> None.
Proof. repeat split; vm_compute; discriminate. Qed.

(** * Statements as used by Props/C12.v *)
Lemma tuple_range_checks start end_ head height :
  (validate_range start end_ head = true <->
   exists h, head = Some h /\ start <> 0 /\ start < end_ /\ end_ - start <= blocks_limit /\ end_ <= h + 1) /\
  (validate_request height start end_ head = true <-> validate_range start end_ head = true /\ start <= height < end_).
Proof. split; [exact (range_checks start end_ head)|exact (request_checks height start end_ head)]. Qed.

Lemma tuple_encoding h r h' r' t :
  0 <= h < 2 ^ 64 -> 0 <= h' < 2 ^ 64 ->
  encode_tuple h r = Some t -> encode_tuple h' r' = Some t ->
  h = h' /\ r = r' /\ t = be 32 h ++ r.
Proof.
  intros Hh Hh' E E'. destruct (encode_injective h r h' r' t Hh Hh' E E') as [-> ->].
  destruct (encode_shape h' r' t Hh' E') as [Ht _]. repeat split; assumption.
Qed.

Lemma tuple_proof_sound_full (data_root : Z -> option (list Z)) start end_ head root (p : mproof (list Z)) t h r :
  chain_ok data_root start end_ ->
  tuple_root data_root start end_ head = Some root -> mp_total p = end_ - start -> verifies p root t ->
  0 <= h < 2 ^ 64 -> encode_tuple h r = Some t ->
  h = start + mp_index p /\ start <= h < end_ /\ data_root h = Some r.
Proof.
  intros Hc Hr Ht Hv Hh He.
  destruct (tuple_identifies data_root start end_ head root p t h r Hc Hr Ht Hv Hh He) as [E1 E2].
  destruct (tuple_proof_sound data_root start end_ head root p t Hc Hr Ht Hv) as [Hb _].
  repeat split; try assumption; lia.
Qed.

(** Proofs about the commitment-proof model (Blob/Commitment.v). *)
From Coq Require Import List ZArith NArith Lia Bool.
From CN Require Import Base.Bytes Blob.ProofEq Blob.ProofEqProofs Blob.TupleMerkle Blob.Tuple Blob.TupleProofs Blob.Commitment.
Import ListNotations.
Open Scope Z_scope.

Section Gen.
  Variables D C T NP MP : Type.
  Variable t_empty : T -> bool.
  Variable c_empty : C -> bool.
  Variable c_eqb : C -> C -> bool.
  Variable hfb : list D -> C.
  Variable width_of : Z -> option Z.
  Variable leaf_ranges : Z -> Z -> Z -> option nat.
  Variable vsri : Z -> Z -> NP -> list D -> Z -> D -> option bool.
  Variable mverify : MP -> T -> D -> bool.

  Notation sproof := (sproof NP).
  Notation gproof := (gproof D NP MP).
  Notation verify_gen := (verify_gen D C T NP MP t_empty c_empty c_eqb hfb width_of leaf_ranges vsri mverify).
  Notation observe := (observe D C T NP MP t_empty c_empty c_eqb hfb width_of leaf_ranges vsri mverify).
  Notation gloop := (gloop D NP leaf_ranges vsri).
  Notation rows_verify := (rows_verify D T MP mverify).
  Notation observe_srps := (observe_srps D NP leaf_ranges vsri).
  Notation observe_rows := (observe_rows D T MP t_empty mverify).

  (** * the two presentations agree *)
  Lemma observe_srps_shape roots w : forall ps cursor rs,
    length (observe_srps roots w cursor ps rs) = length ps /\
    existsb is_none (observe_srps roots w cursor ps rs) = existsb is_none ps.
  Proof.
    induction ps as [|[p|] ps IH]; intros cursor rs; cbn [observe_srps]; [split; reflexivity| |].
    - destruct w as [wv|].
      + destruct (leaf_ranges (s_start NP p) (s_end NP p) wv) as [nr|]; cbn [length existsb is_none orb];
          match goal with |- context [observe_srps roots ?w ?c ps ?r] => destruct (IH c r) as [H1 H2] end; rewrite H1, H2; split; reflexivity.
      + cbn [length existsb is_none orb]. destruct (IH cursor (tl rs)) as [H1 H2]. rewrite H1, H2. split; reflexivity.
    - cbn [length existsb is_none orb]. destruct (IH cursor (tl rs)) as [H1 H2]. rewrite H1. split; reflexivity.
  Qed.

  Lemma observe_rows_shape root : forall ps rs,
    length (observe_rows root ps rs) = length ps /\ existsb is_none (observe_rows root ps rs) = existsb is_none ps.
  Proof.
    induction ps as [|[p|] ps IH]; intros rs; cbn [observe_rows length existsb is_none orb]; [split; reflexivity| |];
      destruct (IH (tl rs)) as [H1 H2]; rewrite H1; [rewrite H2|]; split; reflexivity.
  Qed.

  Lemma observe_rows_verify root : t_empty root = false -> forall ps rs,
    forallb (fun o : option bool => match o with Some true => true | _ => false end) (observe_rows root ps rs) = rows_verify root ps rs.
  Proof.
    intros He. induction ps as [|[p|] ps IH]; intros rs; cbn [observe_rows forallb rows_verify]; [reflexivity| |reflexivity].
    destruct rs as [|r rs]; [reflexivity|]. rewrite He. cbn [tl]. rewrite IH. destruct (mverify p root r); reflexivity.
  Qed.

  Lemma srp_loop_gloop roots wv : forall ps cursor rs,
    srp_loop (length roots) cursor (observe_srps roots (Some wv) (Some cursor) ps rs) = gloop roots wv cursor ps rs.
  Proof.
    induction ps as [|[p|] ps IH]; intros cursor rs; cbn [observe_srps srp_loop gloop]; [reflexivity| |reflexivity].
    destruct (leaf_ranges (s_start NP p) (s_end NP p) wv) as [nr|] eqn:El.
    - cbn [srp_loop srp_nranges srp_vsri].
      destruct rs as [|r rs].
      + destruct (length roots <? cursor + nr)%nat; reflexivity.
      + destruct (length roots <? cursor + nr)%nat; [reflexivity|].
        destruct (vsri (s_start NP p) (s_end NP p) (s_nodes NP p) (slice roots cursor nr) wv r) as [[|]|]; try reflexivity.
        cbn [tl]. apply IH.
    - cbn [srp_loop srp_nranges]. destruct rs; reflexivity.
  Qed.

  Theorem verify_gen_observe g root com : verify_gen g root com = cverify (observe g root com).
  Proof.
    unfold verify_gen, cverify, observe.
    cbn [cp_root_empty cp_com_empty cp_hfb_eq cp_width cp_nroots cp_srps cp_nrowroots cp_rowproofs cp_start_row cp_end_row].
    destruct (t_empty root) eqn:Et; [reflexivity|]. destruct (c_empty com); [reflexivity|].
    set (w := if existsb is_none (g_sproofs D NP MP g) then None else width_of (total_shares NP (g_sproofs D NP MP g))).
    assert (Hval : cvalidate (mkCP (length (g_roots D NP MP g))
                                    (observe_srps (g_roots D NP MP g) w (Some 0%nat) (g_sproofs D NP MP g) (g_row_roots D NP MP g))
                                    (length (g_row_roots D NP MP g)) (observe_rows root (g_row_proofs D NP MP g) (g_row_roots D NP MP g))
                                    (g_start_row D NP MP g) (g_end_row D NP MP g) (c_eqb com (hfb (g_roots D NP MP g))) w false false)
                   = gvalidate D NP MP g).
    { unfold cvalidate, gvalidate. cbn [cp_nroots cp_srps cp_nrowroots cp_rowproofs cp_start_row cp_end_row].
      destruct (observe_srps_shape (g_roots D NP MP g) w (g_sproofs D NP MP g) (Some 0%nat) (g_row_roots D NP MP g)) as [H1 H2].
      destruct (observe_rows_shape root (g_row_proofs D NP MP g) (g_row_roots D NP MP g)) as [H3 H4].
      rewrite H1, H2, H3, H4. reflexivity. }
    unfold cvalidate in Hval |- *. cbn [cp_nroots cp_srps cp_nrowroots cp_rowproofs cp_start_row cp_end_row] in Hval |- *.
    rewrite Hval. destruct (gvalidate D NP MP g) eqn:Eg; [|reflexivity]. cbn [negb].
    destruct (c_eqb com (hfb (g_roots D NP MP g))); [|reflexivity]. cbn [negb].
    assert (Hrow : row_validate (mkCP (length (g_roots D NP MP g))
                                    (observe_srps (g_roots D NP MP g) w (Some 0%nat) (g_sproofs D NP MP g) (g_row_roots D NP MP g))
                                    (length (g_row_roots D NP MP g)) (observe_rows root (g_row_proofs D NP MP g) (g_row_roots D NP MP g))
                                    (g_start_row D NP MP g) (g_end_row D NP MP g) true w false false)
                   = grow_validate D T NP MP mverify g root).
    { unfold row_validate, grow_validate, all_rows_verify. cbn [cp_nrowroots cp_rowproofs cp_start_row cp_end_row].
      destruct (observe_rows_shape root (g_row_proofs D NP MP g) (g_row_roots D NP MP g)) as [H3 _].
      rewrite H3, (observe_rows_verify root Et). reflexivity. }
    unfold row_validate in Hrow |- *. cbn [cp_nrowroots cp_rowproofs cp_start_row cp_end_row] in Hrow |- *.
    rewrite Hrow. destruct (grow_validate D T NP MP mverify g root); [|reflexivity]. cbn [negb].
    assert (Hnn : existsb is_none (g_sproofs D NP MP g) = false).
    { unfold gvalidate in Eg. rewrite !andb_true_iff in Eg. destruct Eg as [[_ H] _]. apply negb_true_iff in H. exact H. }
    subst w. rewrite Hnn.
    destruct (width_of (total_shares NP (g_sproofs D NP MP g))) as [wv|]; [|reflexivity].
    rewrite srp_loop_gloop.
    destruct (gloop (g_roots D NP MP g) wv 0%nat (g_sproofs D NP MP g) (g_row_roots D NP MP g)) as [cursor|]; [|reflexivity].
    destruct (Nat.eqb cursor (length (g_roots D NP MP g))); [|reflexivity]. cbn [negb].
    unfold all_rows_verify. cbn [cp_rowproofs]. rewrite (observe_rows_verify root Et). reflexivity.
  Qed.

  (** * what an accepted proof establishes *)

  (** [covers w rem ps rs left]: the proofs [ps] consume the subtree roots [rem] front to back, leaving [left]; each
      proof takes exactly as many roots as its share range has leaf ranges, and those roots verify (NMT subtree-root
      inclusion) against the row root of its row *)
  Inductive covers (w : Z) : list D -> list (option sproof) -> list D -> list D -> Prop :=
  | cov_nil left rs : covers w left [] rs left
  | cov_cons p ps r rs sl rest left :
      leaf_ranges (s_start NP p) (s_end NP p) w = Some (length sl) ->
      vsri (s_start NP p) (s_end NP p) (s_nodes NP p) sl w r = Some true ->
      covers w rest ps rs left ->
      covers w (sl ++ rest) (Some p :: ps) (r :: rs) left.

  Lemma gloop_covers roots w : forall ps cursor rs c',
    (cursor <= length roots)%nat ->
    gloop roots w cursor ps rs = Some c' ->
    (cursor <= c' <= length roots)%nat /\ covers w (skipn cursor roots) ps rs (skipn c' roots).
  Proof.
    induction ps as [|[p|] ps IH]; intros cursor rs c' Hc H; cbn [gloop] in H.
    - inversion H; subst. split; [lia|constructor].
    - destruct rs as [|r rs]; [discriminate|].
      destruct (leaf_ranges (s_start NP p) (s_end NP p) w) as [nr|] eqn:El; [|discriminate].
      destruct (length roots <? cursor + nr)%nat eqn:Elt; [discriminate|]. apply Nat.ltb_ge in Elt.
      destruct (vsri (s_start NP p) (s_end NP p) (s_nodes NP p) (slice roots cursor nr) w r) as [[|]|] eqn:Ev; try discriminate.
      destruct (IH (cursor + nr)%nat rs c' Elt H) as [Hb Hcov]. split; [lia|].
      assert (Hsl : length (slice roots cursor nr) = nr).
      { unfold slice. rewrite firstn_length, skipn_length. lia. }
      replace (skipn cursor roots) with (slice roots cursor nr ++ skipn (cursor + nr) roots).
      + apply cov_cons; [rewrite Hsl; exact El|exact Ev|exact Hcov].
      + unfold slice. rewrite <- skipn_skipn_add. apply firstn_skipn.
    - discriminate.
  Qed.

  (** ** commitment_sound *)
  Theorem commitment_sound g root com :
    verify_gen g root com = ROk ->
    (* the subtree roots hash to the commitment *)
    c_eqb com (hfb (g_roots D NP MP g)) = true /\
    (* every subtree root is consumed, in order and exactly once, by a verified subtree-root proof of its row *)
    (exists w, width_of (total_shares NP (g_sproofs D NP MP g)) = Some w /\
               covers w (g_roots D NP MP g) (g_sproofs D NP MP g) (g_row_roots D NP MP g) []) /\
    (* every row root is proven to the data root *)
    rows_verify root (g_row_proofs D NP MP g) (g_row_roots D NP MP g) = true /\
    (* the numbers are consistent and nothing is missing *)
    length (g_sproofs D NP MP g) = length (g_row_roots D NP MP g) /\
    length (g_row_proofs D NP MP g) = length (g_row_roots D NP MP g) /\
    (1 <= length (g_row_roots D NP MP g))%nat /\
    (length (g_sproofs D NP MP g) <= length (g_roots D NP MP g))%nat /\
    g_end_row D NP MP g - g_start_row D NP MP g + 1 = Z.of_nat (length (g_row_roots D NP MP g)) /\
    g_start_row D NP MP g <= g_end_row D NP MP g /\
    existsb is_none (g_sproofs D NP MP g) = false /\ existsb is_none (g_row_proofs D NP MP g) = false /\
    t_empty root = false /\ c_empty com = false.
  Proof.
    unfold verify_gen.
    destruct (t_empty root) eqn:Et; [discriminate|]. destruct (c_empty com) eqn:Ec; [discriminate|].
    destruct (gvalidate D NP MP g) eqn:Eg; [|discriminate]. cbn [negb].
    destruct (c_eqb com (hfb (g_roots D NP MP g))) eqn:Eh; [|discriminate]. cbn [negb].
    destruct (grow_validate D T NP MP mverify g root) eqn:Er; [|discriminate]. cbn [negb].
    destruct (width_of (total_shares NP (g_sproofs D NP MP g))) as [w|] eqn:Ew; [|discriminate].
    destruct (gloop (g_roots D NP MP g) w 0%nat (g_sproofs D NP MP g) (g_row_roots D NP MP g)) as [cursor|] eqn:El; [|discriminate].
    destruct (Nat.eqb cursor (length (g_roots D NP MP g))) eqn:Ecur; [|discriminate]. cbn [negb].
    destruct (rows_verify root (g_row_proofs D NP MP g) (g_row_roots D NP MP g)) eqn:Erv; [|discriminate].
    intros _. apply Nat.eqb_eq in Ecur.
    unfold gvalidate in Eg. rewrite !andb_true_iff in Eg. destruct Eg as [[[[[G1 G2] G3] G4] G5] G6].
    unfold grow_validate in Er. rewrite !andb_true_iff in Er. destruct Er as [[[[R1 R2] R3] R4] R5].
    apply negb_true_iff in G1, G5, G6, R1, R3. apply Nat.ltb_ge in G1. apply Nat.eqb_eq in G2, G4, R4.
    apply Z.eqb_eq in R2. apply Nat.eqb_neq in R3. apply Z.ltb_ge in R1.
    destruct (gloop_covers _ _ _ _ _ _ (Nat.le_0_l _) El) as [_ Hcov]. cbn [skipn] in Hcov.
    rewrite Ecur, skipn_all in Hcov.
    repeat split; try assumption; try lia.
    exists w. split; [reflexivity|exact Hcov].
  Qed.

  (** ** the row range: uint32 arithmetic in [Validate], and what only [RowProof.Validate] checks *)

  (** the node's own [Validate] counts rows mod 2^32: an inverted range [e+1, e] and the full range [0, 2^32-1] both
      count ZERO rows, so a proof without any component passes it *)
  Lemma validate_accepts_trimmed_inverted e : gvalidate D NP MP (trimmed D NP MP (e + 1) e) = true.
  Proof.
    unfold gvalidate, trimmed. cbn [g_roots g_sproofs g_row_roots g_row_proofs g_start_row g_end_row length existsb].
    replace (e - (e + 1) + 1) with 0 by lia. reflexivity.
  Qed.

  Lemma validate_accepts_trimmed_wrapped : gvalidate D NP MP (trimmed D NP MP 0 (2 ^ 32 - 1)) = true.
  Proof. reflexivity. Qed.

  (** an inverted range can count any number of rows: [e - n + 1 + 2^32, e] with e < n - 1 counts n *)
  Lemma row_count_wraps n e : 0 <= e -> e < n - 1 -> n < 2 ^ 32 ->
    e < e - n + 1 + 2 ^ 32 < 2 ^ 32 /\ row_count_u32 (e - n + 1 + 2 ^ 32) e = n.
  Proof.
    intros H0 H1 H2. split; [lia|]. unfold row_count_u32.
    replace (e - (e - n + 1 + 2 ^ 32) + 1) with (n + (-1) * 2 ^ 32) by lia.
    rewrite Z.mod_add by lia. apply Z.mod_small. lia.
  Qed.

  (** the library's [RowProof.Validate] is what orders the range and demands a row: *)
  Lemma row_validate_orders g root : grow_validate D T NP MP mverify g root = true ->
    g_start_row D NP MP g <= g_end_row D NP MP g /\ (1 <= length (g_row_roots D NP MP g))%nat /\
    g_end_row D NP MP g - g_start_row D NP MP g + 1 = Z.of_nat (length (g_row_roots D NP MP g)).
  Proof.
    unfold grow_validate. rewrite !andb_true_iff. intros [[[[R1 R2] R3] _] _].
    apply negb_true_iff in R1, R3. apply Z.ltb_ge in R1. apply Z.eqb_eq in R2. apply Nat.eqb_neq in R3. lia.
  Qed.

  (** with that call removed, the fully trimmed proof with an inverted (or wrapped) row range verifies — for the
      commitment [hfb []] that anybody can compute — against EVERY non-empty data root, for every instantiation of the
      primitives in which [SubTreeWidth 0] is defined (it is 1 in go-square) *)
  Theorem norowcheck_accepts_empty_proof start_row end_row root w :
    gvalidate D NP MP (trimmed D NP MP start_row end_row) = true ->
    t_empty root = false -> c_empty (hfb []) = false -> c_eqb (hfb []) (hfb []) = true -> width_of 0 = Some w ->
    verify_gen_norowcheck D C T NP MP t_empty c_empty c_eqb hfb width_of leaf_ranges vsri mverify
      (trimmed D NP MP start_row end_row) root (hfb []) = ROk.
  Proof.
    intros Hv Ht Hc He Hw. unfold verify_gen_norowcheck. rewrite Ht, Hc, Hv.
    unfold trimmed. cbn [g_roots g_sproofs g_row_roots g_row_proofs negb total_shares]. rewrite He, Hw. reflexivity.
  Qed.

  Corollary norowcheck_accepts_empty_proof_ranges start_row end_row root w :
    (start_row = end_row + 1 \/ (start_row = 0 /\ end_row = 2 ^ 32 - 1)) ->
    t_empty root = false -> c_empty (hfb []) = false -> c_eqb (hfb []) (hfb []) = true -> width_of 0 = Some w ->
    verify_gen_norowcheck D C T NP MP t_empty c_empty c_eqb hfb width_of leaf_ranges vsri mverify
      (trimmed D NP MP start_row end_row) root (hfb []) = ROk.
  Proof.
    intros [->|[-> ->]]; apply norowcheck_accepts_empty_proof;
      [apply validate_accepts_trimmed_inverted|apply validate_accepts_trimmed_wrapped].
  Qed.

  (** ... whereas the code as it is refuses every proof without a row *)
  Theorem verify_needs_a_row g root com :
    verify_gen g root com = ROk -> g_start_row D NP MP g <= g_end_row D NP MP g /\ g_row_roots D NP MP g <> [].
  Proof.
    intros H. apply commitment_sound in H. destruct H as (_ & _ & _ & _ & _ & H1 & _ & _ & H2 & _).
    split; [exact H2|]. destruct (g_row_roots D NP MP g); [cbn in H1; lia|discriminate].
  Qed.

  (** covering spelled out: the subtree roots are the concatenation of the slices the proofs verified *)
  Lemma covers_concat w rem ps rs left :
    covers w rem ps rs left ->
    exists slices, rem = concat slices ++ left /\ length slices = length ps /\ (length ps <= length rs)%nat.
  Proof.
    induction 1 as [left rs|p ps r rs sl rest left Hl Hv Hc (slices & -> & Hn & Hr)].
    - exists []. repeat split; cbn; lia.
    - exists (sl :: slices). cbn [concat length]. rewrite app_assoc. repeat split; lia.
  Qed.

  (** ** a commitment names one list of subtree roots (for a hash that is injective on lists of one length) *)
  Hypothesis c_eqb_eq : forall a b, c_eqb a b = true -> a = b.
  Hypothesis hfb_injective : forall a b : list D, length a = length b -> hfb a = hfb b -> a = b.

  Theorem commitment_binds g g' root root' com :
    verify_gen g root com = ROk -> verify_gen g' root' com = ROk ->
    length (g_roots D NP MP g) = length (g_roots D NP MP g') ->
    g_roots D NP MP g = g_roots D NP MP g'.
  Proof.
    intros H H' Hl. apply commitment_sound in H as (E & _). apply commitment_sound in H' as (E' & _).
    apply c_eqb_eq in E, E'. apply hfb_injective; [exact Hl|congruence].
  Qed.
End Gen.

(** discharged for the symbolic hash: the commitment is the RFC-6962 root (Blob/TupleMerkle.v) of the subtree roots *)
Theorem commitment_binds_symbolic (D T NP MP : Type) t_empty c_empty (c_eqb : dg D -> dg D -> bool) width_of leaf_ranges vsri mverify
        (g g' : gproof D NP MP) (root root' : T) (com : dg D) :
  (forall a b, c_eqb a b = true -> a = b) ->
  verify_gen D (dg D) T NP MP t_empty c_empty c_eqb hash_from_slices width_of leaf_ranges vsri mverify g root com = ROk ->
  verify_gen D (dg D) T NP MP t_empty c_empty c_eqb hash_from_slices width_of leaf_ranges vsri mverify g' root' com = ROk ->
  length (g_roots D NP MP g) = length (g_roots D NP MP g') ->
  g_roots D NP MP g = g_roots D NP MP g'.
Proof.
  intros Heq. apply commitment_binds; [exact Heq|]. intros a b. apply hash_from_slices_injective.
Qed.

(** non-vacuity: a proof of two rows (3 + 2 subtree roots) that verifies, with table-driven primitives *)
Definition ex_g : gproof N unit N :=
  mkG N unit N [10; 11; 12; 13; 14]%N [Some (mkS unit 5 8 tt); Some (mkS unit 0 2 tt)] [100; 101]%N [Some 7%N; Some 8%N] 3 4.

Definition ex_verify : gproof N unit N -> N -> N -> res :=
  verify_gen N N N unit N (fun r => (r =? 0)%N) (fun c => (c =? 0)%N) N.eqb
             (fun roots => fold_left N.add roots 1%N) (fun n => Some 1)
             (fun s e w => Some (Z.to_nat (e - s)))
             (fun s e _ sl w r => Some (Nat.eqb (length sl) (Z.to_nat (e - s))))
             (fun p root r => (p + 93 =? r)%N).

Example ex_accepts : ex_verify ex_g 55 61 = ROk /\ ex_verify ex_g 55 62 = RErr /\
  ex_verify (mkG N unit N [10; 11; 12; 13]%N [Some (mkS unit 5 8 tt); Some (mkS unit 0 2 tt)] [100; 101]%N [Some 7%N; Some 8%N] 3 4) 55 47 = RErr /\
  ex_verify (mkG N unit N [10; 11; 12; 13; 14]%N [Some (mkS unit 5 8 tt); None] [100; 101]%N [Some 7%N; Some 8%N] 3 4) 55 61 = RErr.
Proof. vm_compute. repeat split. Qed.

(** ** the variant without [rp.Validate(dataRoot)] is unsound: the proof without any component and the inverted row range
    [1,0] (also [2^32-1, 2^32-2], and the wrapped [0, 2^32-1]) verifies for the commitment of the empty list against two
    different data roots; it has no row root, no subtree root, and its range is inverted.  The code as it is refuses it. *)
Definition ex_verify_norowcheck : gproof N unit N -> N -> N -> res :=
  verify_gen_norowcheck N N N unit N (fun r => (r =? 0)%N) (fun c => (c =? 0)%N) N.eqb
             (fun roots => fold_left N.add roots 1%N) (fun n => Some 1)
             (fun s e w => Some (Z.to_nat (e - s)))
             (fun s e _ sl w r => Some (Nat.eqb (length sl) (Z.to_nat (e - s))))
             (fun p root r => (p + 93 =? r)%N).

Definition commitment_sound_conclusion_rows (g : gproof N unit N) : Prop :=
  (1 <= length (g_row_roots N unit N g))%nat /\
  g_end_row N unit N g - g_start_row N unit N g + 1 = Z.of_nat (length (g_row_roots N unit N g)).

Theorem commitment_sound_without_row_validate_refuted :
  exists (g : gproof N unit N) (root root' com : N),
    root <> root' /\
    ex_verify_norowcheck g root com = ROk /\ ex_verify_norowcheck g root' com = ROk /\
    ~ commitment_sound_conclusion_rows g /\
    g_roots N unit N g = [] /\ g_row_roots N unit N g = [] /\ g_end_row N unit N g < g_start_row N unit N g /\
    (* the unchanged code refuses it *)
    ex_verify g root com = RErr /\ ex_verify g root' com = RErr.
Proof.
  exists (trimmed N unit N 1 0), 55%N, 56%N, 1%N.
  split; [discriminate|]. split; [vm_compute; reflexivity|]. split; [vm_compute; reflexivity|].
  split; [intros [H _]; cbn in H; lia|]. repeat split; vm_compute; reflexivity.
Qed.

Example ex_norowcheck_boundaries :
  ex_verify_norowcheck (trimmed N unit N (2 ^ 32 - 1) (2 ^ 32 - 2)) 55 1 = ROk /\
  ex_verify_norowcheck (trimmed N unit N 0 (2 ^ 32 - 1)) 55 1 = ROk /\
  ex_verify_norowcheck (trimmed N unit N 0 0) 55 1 = RErr /\
  ex_verify (trimmed N unit N (2 ^ 32 - 1) (2 ^ 32 - 2)) 55 1 = RErr /\
  ex_verify (trimmed N unit N 0 (2 ^ 32 - 1)) 55 1 = RErr /\
  (* honest components under an inverted range that wraps to the right count: [2^32-1, 0] counts 2 rows *)
  ex_verify_norowcheck (mkG N unit N [10; 11; 12; 13; 14]%N [Some (mkS unit 5 8 tt); Some (mkS unit 0 2 tt)] [100; 101]%N [Some 7%N; Some 8%N] (2 ^ 32 - 1) 0) 55 61 = ROk /\
  ex_verify (mkG N unit N [10; 11; 12; 13; 14]%N [Some (mkS unit 5 8 tt); Some (mkS unit 0 2 tt)] [100; 101]%N [Some 7%N; Some 8%N] (2 ^ 32 - 1) 0) 55 61 = RErr.
Proof. vm_compute. repeat split. Qed.

(** the summary variant (what the correspondence would compute for the changed code) on the trimmed proof *)
Example ex_cverify_trimmed :
  cverify (mkCP 0 [] 0 [] 1 0 true (Some 1) false false) = RErr /\
  cverify_norowcheck (mkCP 0 [] 0 [] 1 0 true (Some 1) false false) = ROk /\
  cverify (mkCP 0 [] 0 [] 0 (2 ^ 32 - 1) true (Some 1) false false) = RErr /\
  cverify_norowcheck (mkCP 0 [] 0 [] 0 (2 ^ 32 - 1) true (Some 1) false false) = ROk.
Proof. vm_compute. repeat split. Qed.

(** non-vacuity of the C12 theorems, collected *)
Lemma c12_nonvacuous :
  (proof_equal [Some ex_np; None] [Some ex_np; None] = ROk /\
   range_verify [1; 2; 3]%N (Some (mkSP [1; 2; 3]%N false true)) = ROk /\
   included (Some [Some ex_np]) (Some [Some ex_np]) = IncYes /\ included None (Some [Some ex_np]) = IncNo) /\
  (validate_request 7 3 10 (Some 12) = true /\ chain_ok ex_root 3 10) /\
  (validate_request 5 5 6 (Some 12) = true /\ tuple_root ex_root 5 6 (Some 12) <> None /\ tuple_proof ex_root 5 5 6 (Some 12) <> None) /\
  (ex_verify ex_g 55 61 = ROk /\ ex_verify ex_g 55 62 = RErr).
Proof.
  split; [exact ex_equal_ok|]. split; [exact ex_chain_ok|]. split; [exact ex_single_block|].
  destruct ex_accepts as (H1 & H2 & _). split; assumption.
Qed.

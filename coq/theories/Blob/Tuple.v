(** Model of nodebuilder/blobstream (data_root_tuple_root.go, service.go): data-root-tuple encoding, range validation,
    tuple root and per-height inclusion proof, over the symbolic RFC-6962 tree of Blob/TupleMerkle.v.

    The header getter is a function from heights to 32-byte data roots (None: header not available).  The model follows
    the repaired [fetchEncodedDataRootTuples] (fix-c12-3: a one-block range no longer asks the store for an empty header
    range, which the go-header store refuses).  Executable; proofs in TupleProofs.v. *)
From Coq Require Import List ZArith Lia Bool.
From CN Require Import Base.Bytes Blob.TupleMerkle.
Import ListNotations.
Open Scope Z_scope.

(** * Encoding *)

(** [padBytes] *)
Definition pad_bytes (b : list Z) (len : nat) : option (list Z) :=
  if (len <? length b)%nat then None else Some (repeat 0 (len - length b) ++ b).

(** number of bytes of the even-length hex representation of a uint64 (at least one) *)
Fixpoint nbytes_aux (fuel w : nat) (n : Z) : nat :=
  match fuel with
  | O => w
  | S f => if n <? 256 ^ Z.of_nat w then w else nbytes_aux f (S w) n
  end.
Definition nbytes (n : Z) : nat := nbytes_aux 8 1 n.

(** [to32PaddedHexBytes]: strconv.FormatUint(n,16), made even, hex-decoded, left-padded to 32 bytes *)
Definition to32 (n : Z) : option (list Z) := pad_bytes (be (nbytes n) n) 32.

(** [encodeDataRootTuple(height, dataRoot)] *)
Definition encode_tuple (height : Z) (root : list Z) : option (list Z) :=
  match to32 height with Some p => Some (p ++ root) | None => None end.

(** * Range validation *)
Definition blocks_limit : Z := 10000.

(** [validateDataRootTupleRootRange]; [head]: height of the local head, None when the getter fails *)
Definition validate_range (start end_ : Z) (head : option Z) : bool :=
  if start =? 0 then false
  else if start >=? end_ then false
  else if end_ - start >? blocks_limit then false
  else match head with
       | None => false
       | Some h => negb (end_ >? h + 1)
       end.

(** [validateDataRootInclusionProofRequest] *)
Definition validate_request (height start end_ : Z) (head : option Z) : bool :=
  validate_range start end_ head && negb ((height <? start) || (height >=? end_)).

(** * Tuples of a range *)
Section Chain.
  Variable data_root : Z -> option (list Z).     (* the header getter: data hash of the header at a height *)

  Fixpoint heights (from : Z) (n : nat) : list Z :=
    match n with O => [] | S n' => from :: heights (from + 1) n' end.

  Fixpoint collect (hs : list Z) : option (list (list Z)) :=
    match hs with
    | [] => Some []
    | h :: hs' =>
      match data_root h with
      | None => None
      | Some r => match encode_tuple h r, collect hs' with
                  | Some t, Some ts => Some (t :: ts)
                  | _, _ => None
                  end
      end
    end.

  (** [fetchEncodedDataRootTuples]: the start header, then the headers (start, end) *)
  Definition fetch_tuples (start end_ : Z) : option (list (list Z)) :=
    collect (heights start (Z.to_nat (end_ - start))).

  (** [GetDataRootTupleRoot] *)
  Definition tuple_root (start end_ : Z) (head : option Z) : option (dg (list Z)) :=
    if validate_range start end_ head then
      match fetch_tuples start end_ with
      | Some [] => None                                   (* cannot hash an empty list *)
      | Some ts => Some (hash_from_slices ts)
      | None => None
      end
    else None.

  (** [GetDataRootTupleInclusionProof] *)
  Definition tuple_proof (height start end_ : Z) (head : option Z) : option (mproof (list Z)) :=
    if validate_request height start end_ head then
      match fetch_tuples start end_ with
      | Some [] => None
      | Some ts => if (height =? 0) || (start =? 0) then None else proof_of ts (Z.to_nat (height - start))
      | None => None
      end
    else None.
End Chain.

(** * Correspondence cases *)
Inductive tcase :=
| TEncode (height : Z) (root : list Z) (obs : option (list Z))               (* encodeDataRootTuple *)
| TRange (start end_ : Z) (head : option Z) (accepted : bool)               (* validateDataRootTupleRootRange *)
| TRequest (height start end_ : Z) (head : option Z) (accepted : bool)      (* validateDataRootInclusionProofRequest *)
| TProof (n : nat) (i : nat) (total index : Z) (naunts : nat) (ranges : list (nat * nat))
    (* a chain range of [n] tuples, proof for tuple [i] as produced by the implementation: total, index, number of aunts
       and, for each aunt, the slice [a,b) of the tuples whose root it is *)
| TVerify (n : nat) (i : nat) (mut : nat) (arg : nat) (accepted : bool)
    (* the honest proof for tuple [i] of [n], structurally tampered ([mut], [arg]), verified against the honest root
       and tuple [i]; observed verdict *)
| TConst (name : nat) (v : Z).

(** structural tampering of a proof, mirrored by the harness on the real proof *)
Definition swap_adj {X} (l : list X) (j : nat) : list X :=
  match skipn j l with
  | a :: b :: rest => firstn j l ++ b :: a :: rest
  | _ => l
  end.

Definition tamper {X} (p : mproof X) (other : dg X) (mut arg : nat) : mproof X :=
  match mut with
  | 0 => p
  | 1 => mkMP (mp_total p) (mp_index p) (mp_leaf p) (firstn arg (mp_aunts p) ++ skipn (S arg) (mp_aunts p))   (* drop aunt *)
  | 2 => mkMP (mp_total p) (mp_index p) (mp_leaf p) (mp_aunts p ++ [other])                                      (* append *)
  | 3 => mkMP (mp_total p) (mp_index p) (mp_leaf p) (swap_adj (mp_aunts p) arg)                                  (* reorder *)
  | 4 => mkMP (mp_total p + Z.of_nat arg + 1) (mp_index p) (mp_leaf p) (mp_aunts p)                              (* widen total *)
  | 5 => mkMP (mp_total p) (Z.of_nat arg) (mp_leaf p) (mp_aunts p)                                               (* other index *)
  | 6 => mkMP (mp_total p) (mp_index p) other (mp_aunts p)                                                       (* other leaf hash *)
  | 7 => mkMP (mp_total p) (mp_index p) (mp_leaf p) (firstn arg (mp_aunts p) ++ other :: skipn (S arg) (mp_aunts p)) (* substitute aunt *)
  | 8 => mkMP (- mp_total p) (mp_index p) (mp_leaf p) (mp_aunts p)                                               (* negative total *)
  | 9 => mkMP (mp_total p) (- mp_index p - 1) (mp_leaf p) (mp_aunts p)                                           (* negative index *)
  | _ => p
  end%nat.

(** executable [Proof.Verify] over tuples identified by their number *)
Fixpoint dg_eqb (x y : dg nat) : bool :=
  match x, y with
  | DEmpty, DEmpty => true
  | DLeaf a, DLeaf b => Nat.eqb a b
  | DInner a b, DInner c d => dg_eqb a c && dg_eqb b d
  | DAtom a, DAtom b => N.eqb a b
  | _, _ => false
  end.

Definition verify_b (p : mproof nat) (root : dg nat) (x : nat) : bool :=
  negb (mp_total p <? 0) && negb (mp_index p <? 0) && dg_eqb (mp_leaf p) (DLeaf x) &&
  match compute_root p with Some r => dg_eqb r root | None => false end.

Definition slice {X} (l : list X) (a b : nat) : list X := firstn (b - a) (skipn a l).

Definition model_const (name : nat) : Z :=
  match name with 0%nat => blocks_limit | _ => -1 end.

Definition agree (c : tcase) : bool :=
  match c with
  | TEncode h r obs =>
    match encode_tuple h r, obs with
    | Some a, Some b => list_eqb a b
    | None, None => true
    | _, _ => false
    end
  | TRange s e head acc => Bool.eqb (validate_range s e head) acc
  | TRequest h s e head acc => Bool.eqb (validate_request h s e head) acc
  | TProof n i total index naunts ranges =>
    let items := seq 0 n in
    match proof_of items i with
    | Some p => (mp_total p =? total) && (mp_index p =? index) && Nat.eqb (length (mp_aunts p)) naunts &&
                Nat.eqb (length ranges) naunts &&
                forallb (fun ar => dg_eqb (fst ar) (hash_from_slices (slice items (fst (snd ar)) (snd (snd ar)))))
                        (combine (mp_aunts p) ranges)
    | None => false
    end
  | TVerify n i mut arg acc =>
    let items := seq 0 n in
    match proof_of items i with
    | Some p => Bool.eqb (verify_b (tamper p (DAtom 7) mut arg) (hash_from_slices items) i) acc
    | None => false
    end
  | TConst n v => model_const n =? v
  end.

Fixpoint mism_from (n : N) (cs : list tcase) : list N :=
  match cs with
  | [] => []
  | c :: cs' => if agree c then mism_from (N.succ n) cs' else n :: mism_from (N.succ n) cs'
  end.
Definition mismatches (cs : list tcase) : list N := mism_from 0%N cs.

(** RFC-6962 binary Merkle tree as implemented by go-square/merkle and cometbft/crypto/merkle
    ([HashFromByteSlices], [ProofsFromByteSlices], [Proof.Verify] / [computeHashFromAunts]) over SYMBOLIC hashes:
    SHA-256 is a family of free constructors ([DLeaf x] = sha256(0x00 || x), [DInner l r] = sha256(0x01 || l || r),
    [DEmpty] = sha256("")), i.e. injective and domain-separated by construction.  [DAtom] stands for byte strings
    that are no known hash output (whatever a client may put into a proof).

    Executable definitions first, then the two facts everything else uses: a generated proof verifies
    ([proof_roundtrip]) and a verifying proof pins the leaf at the claimed index ([verify_sound]).  The definitions are
    shared by Tuple.v and Commitment.v. *)
From Coq Require Import List ZArith Lia Bool.
Import ListNotations.
Open Scope Z_scope.

Section Merkle.
Context {A : Type}.

Inductive dg := DEmpty | DLeaf (x : A) | DInner (l r : dg) | DAtom (n : N).

(** [getSplitPoint]: the largest power of two strictly less than [n] (n >= 2) *)
Definition split_point (n : Z) : Z := 2 ^ Z.log2 (n - 1).

(** [HashFromByteSlices] *)
Fixpoint hfs (fuel : nat) (items : list A) : dg :=
  match fuel with
  | O => DEmpty
  | S f =>
    match items with
    | [] => DEmpty
    | [x] => DLeaf x
    | _ => let k := Z.to_nat (split_point (Z.of_nat (length items))) in
           DInner (hfs f (firstn k items)) (hfs f (skipn k items))
    end
  end.
Definition hash_from_slices (items : list A) : dg := hfs (length items) items.

(** [ProofsFromByteSlices]: the aunts of leaf [i], from the leaf's sibling up to a child of the root *)
Fixpoint aunts_of (fuel : nat) (items : list A) (i : nat) : list dg :=
  match fuel with
  | O => []
  | S f =>
    match items with
    | [] | [_] => []
    | _ => let k := Z.to_nat (split_point (Z.of_nat (length items))) in
           if (i <? k)%nat then aunts_of f (firstn k items) i ++ [hfs f (skipn k items)]
           else aunts_of f (skipn k items) (i - k) ++ [hfs f (firstn k items)]
    end
  end.

Record mproof := mkMP { mp_total : Z; mp_index : Z; mp_leaf : dg; mp_aunts : list dg }.

Definition proof_of (items : list A) (i : nat) : option mproof :=
  match nth_error items i with
  | Some x => Some (mkMP (Z.of_nat (length items)) (Z.of_nat i) (DLeaf x) (aunts_of (length items) items i))
  | None => None
  end.

(** [computeHashFromAunts], on the aunts in reverse (outermost first) *)
Fixpoint cfa (index total : Z) (leaf : dg) (raunts : list dg) : option dg :=
  if (index >=? total) || (index <? 0) || (total <=? 0) then None
  else if total =? 1 then (match raunts with [] => Some leaf | _ => None end)
  else match raunts with
       | [] => None
       | top :: rest =>
         let nl := split_point total in
         if index <? nl
         then match cfa index nl leaf rest with Some l => Some (DInner l top) | None => None end
         else match cfa (index - nl) (total - nl) leaf rest with Some r => Some (DInner top r) | None => None end
       end.

Definition compute_root (p : mproof) : option dg := cfa (mp_index p) (mp_total p) (mp_leaf p) (rev (mp_aunts p)).

(** [Proof.Verify(root, leaf)] as a proposition: the proof's leaf hash is the hash of [x] and the recomputed root is [root] *)
Definition verifies (p : mproof) (root : dg) (x : A) : Prop :=
  0 <= mp_total p /\ 0 <= mp_index p /\ mp_leaf p = DLeaf x /\ compute_root p = Some root.

(** * Facts *)
Lemma split_point_bounds n : 2 <= n -> 1 <= split_point n < n.
Proof.
  intros H. unfold split_point.
  pose proof (Z.log2_spec (n - 1) ltac:(lia)) as [H1 H2].
  pose proof (Z.log2_nonneg (n - 1)) as H0.
  assert (1 <= 2 ^ Z.log2 (n - 1)) by (apply (Z.pow_le_mono_r 2 0); lia).
  lia.
Qed.

Lemma split_nat (items : list A) :
  (2 <= length items)%nat ->
  let k := Z.to_nat (split_point (Z.of_nat (length items))) in
  (1 <= k < length items)%nat /\ Z.of_nat k = split_point (Z.of_nat (length items)).
Proof.
  intros H k. pose proof (split_point_bounds (Z.of_nat (length items)) ltac:(lia)). subst k. lia.
Qed.

Lemma two_or_more (x y : A) l : (2 <= length (x :: y :: l))%nat.
Proof. cbn. lia. Qed.

Lemma nth_firstn (l : list A) : forall n i, (i < n)%nat -> nth_error (firstn n l) i = nth_error l i.
Proof.
  induction l as [|x l IH]; intros n i H; [destruct n, i; reflexivity|].
  destruct n; [lia|]. destruct i; [reflexivity|]. cbn. apply IH. lia.
Qed.

Lemma nth_skipn (l : list A) : forall n i, nth_error (skipn n l) i = nth_error l (n + i).
Proof.
  induction l as [|x l IH]; intros n i; [destruct n, i; reflexivity|].
  destruct n; [reflexivity|]. cbn. apply IH.
Qed.

Lemma guard_false index total :
  0 <= index < total -> (index >=? total) || (index <? 0) || (total <=? 0) = false.
Proof.
  intros H. rewrite Z.geb_leb.
  destruct (Z.leb_spec total index), (Z.ltb_spec index 0), (Z.leb_spec total 0); try reflexivity; lia.
Qed.

Lemma guard_inv index total :
  (index >=? total) || (index <? 0) || (total <=? 0) = false -> 0 <= index < total.
Proof.
  rewrite Z.geb_leb.
  destruct (Z.leb_spec total index), (Z.ltb_spec index 0), (Z.leb_spec total 0); cbn; intros; try discriminate; lia.
Qed.

Definition kof (items : list A) : nat := Z.to_nat (split_point (Z.of_nat (length items))).

Lemma hfs_unfold f (items : list A) :
  (2 <= length items)%nat ->
  hfs (S f) items = DInner (hfs f (firstn (kof items) items)) (hfs f (skipn (kof items) items)).
Proof. destruct items as [|a [|b r]]; cbn [length]; intros H; try lia. reflexivity. Qed.

Lemma aunts_unfold f (items : list A) i :
  (2 <= length items)%nat ->
  aunts_of (S f) items i =
  if (i <? kof items)%nat then aunts_of f (firstn (kof items) items) i ++ [hfs f (skipn (kof items) items)]
  else aunts_of f (skipn (kof items) items) (i - kof items) ++ [hfs f (firstn (kof items) items)].
Proof. destruct items as [|a [|b r]]; cbn [length]; intros H; try lia. reflexivity. Qed.

(** a proof produced for item [i] recomputes the root *)
Lemma cfa_aunts fuel : forall (items : list A) i x,
  (length items <= fuel)%nat -> nth_error items i = Some x ->
  cfa (Z.of_nat i) (Z.of_nat (length items)) (DLeaf x) (rev (aunts_of fuel items i)) = Some (hfs fuel items).
Proof.
  induction fuel as [|f IH]; intros items i x Hf Hn.
  - destruct items; [destruct i; discriminate|cbn in Hf; lia].
  - destruct items as [|a [|b rest]].
    + destruct i; discriminate.
    + destruct i as [|i]; [|destruct i; discriminate]. cbn in Hn. inversion Hn; subst. reflexivity.
    + set (items := a :: b :: rest) in *.
      destruct (split_nat items (two_or_more a b rest)) as [Hk Hkz].
      set (k := Z.to_nat (split_point (Z.of_nat (length items)))) in *.
      assert (Hlen : (2 <= length items)%nat) by apply two_or_more.
      assert (Hi : (i < length items)%nat) by (apply nth_error_Some; congruence).
      rewrite aunts_unfold, hfs_unfold by exact Hlen. unfold kof. fold k.
      destruct (i <? k)%nat eqn:E.
      * apply Nat.ltb_lt in E. rewrite rev_app_distr. cbn [rev app].
        cbn [cfa].
        rewrite guard_false by lia.
        replace (Z.of_nat (length items) =? 1) with false by (symmetry; apply Z.eqb_neq; lia).
        rewrite <- Hkz.
        replace (Z.of_nat i <? Z.of_nat k) with true by (symmetry; apply Z.ltb_lt; lia).
        assert (Hfl : length (firstn k items) = k) by (rewrite firstn_length; lia).
        rewrite <- Hfl at 1. rewrite IH; [reflexivity|lia|].
        rewrite nth_firstn by lia. exact Hn.
      * apply Nat.ltb_ge in E. rewrite rev_app_distr. cbn [rev app].
        cbn [cfa].
        rewrite guard_false by lia.
        replace (Z.of_nat (length items) =? 1) with false by (symmetry; apply Z.eqb_neq; lia).
        rewrite <- Hkz.
        replace (Z.of_nat i <? Z.of_nat k) with false by (symmetry; apply Z.ltb_ge; lia).
        assert (Hsl : length (skipn k items) = (length items - k)%nat) by apply skipn_length.
        replace (Z.of_nat i - Z.of_nat k) with (Z.of_nat (i - k)) by lia.
        replace (Z.of_nat (length items) - Z.of_nat k) with (Z.of_nat (length (skipn k items))) by lia.
        rewrite IH; [reflexivity|lia|].
        rewrite nth_skipn. replace (k + (i - k))%nat with i by lia. exact Hn.
Qed.

Theorem proof_roundtrip (items : list A) i p :
  proof_of items i = Some p ->
  exists x, nth_error items i = Some x /\ verifies p (hash_from_slices items) x.
Proof.
  unfold proof_of. destruct (nth_error items i) as [x|] eqn:E; [|discriminate].
  intros H; inversion H; subst. exists x. split; [reflexivity|].
  unfold verifies, compute_root. cbn [mp_total mp_index mp_leaf mp_aunts].
  repeat split; try lia. apply cfa_aunts; [lia|exact E].
Qed.

(** a verifying proof whose total is the tree size pins the leaf at its index *)
Lemma cfa_sound fuel : forall (items : list A) index total leaf raunts,
  (length items <= fuel)%nat -> total = Z.of_nat (length items) ->
  cfa index total leaf raunts = Some (hfs fuel items) ->
  0 <= index < total /\ exists x, nth_error items (Z.to_nat index) = Some x /\ leaf = DLeaf x.
Proof.
  induction fuel as [|f IH]; intros items index total leaf raunts Hf Ht Hc.
  - destruct items; [|cbn in Hf; lia]. cbn in Ht. subst total.
    destruct raunts; cbn in Hc; rewrite orb_true_r in Hc; discriminate.
  - assert (Hguard : forall r, cfa index total leaf r <> None -> 0 <= index < total).
    { intros r Hr. apply guard_inv.
      destruct ((index >=? total) || (index <? 0) || (total <=? 0)) eqn:G; [|reflexivity].
      destruct r; cbn in Hr; rewrite G in Hr; congruence. }
    assert (Hrange : 0 <= index < total) by (apply (Hguard raunts); congruence).
    split; [exact Hrange|].
    destruct items as [|a [|b rest]].
    + cbn in Ht. lia.
    + cbn in Ht. subst total. assert (index = 0) as -> by lia.
      destruct raunts; cbn in Hc; [|discriminate]. inversion Hc; subst. exists a. split; reflexivity.
    + set (items := a :: b :: rest) in *.
      destruct (split_nat items (two_or_more a b rest)) as [Hk Hkz].
      set (k := Z.to_nat (split_point (Z.of_nat (length items)))) in *.
      assert (Hlen : (2 <= length items)%nat) by apply two_or_more.
      rewrite hfs_unfold in Hc by exact Hlen. unfold kof in Hc. fold k in Hc.
      destruct raunts as [|top rest']; cbn [cfa] in Hc.
      * destruct ((index >=? total) || (index <? 0) || (total <=? 0)); [discriminate|].
        destruct (total =? 1) eqn:E1; [apply Z.eqb_eq in E1; lia|discriminate].
      * destruct ((index >=? total) || (index <? 0) || (total <=? 0)); [discriminate|].
        destruct (total =? 1) eqn:E1; [apply Z.eqb_eq in E1; lia|].
        rewrite Ht, <- Hkz in Hc.
        destruct (index <? Z.of_nat k) eqn:E.
        -- apply Z.ltb_lt in E.
           destruct (cfa index (Z.of_nat k) leaf rest') as [l|] eqn:El; [|discriminate].
           inversion Hc; subst l.
           assert (Hfl : length (firstn k items) = k) by (rewrite firstn_length; lia).
           destruct (IH (firstn k items) index (Z.of_nat k) leaf rest') as [_ (x & Hx & Hl)]; [lia|lia|exact El|].
           exists x. split; [|exact Hl]. rewrite nth_firstn in Hx by lia. exact Hx.
        -- apply Z.ltb_ge in E.
           destruct (cfa (index - Z.of_nat k) (Z.of_nat (length items) - Z.of_nat k) leaf rest') as [r|] eqn:Er; [|discriminate].
           inversion Hc; subst r.
           assert (Hsl : length (skipn k items) = (length items - k)%nat) by apply skipn_length.
           destruct (IH (skipn k items) (index - Z.of_nat k) (Z.of_nat (length items) - Z.of_nat k) leaf rest') as [_ (x & Hx & Hl)];
             [lia|lia|exact Er|].
           exists x. split; [|exact Hl]. rewrite nth_skipn in Hx.
           replace (k + Z.to_nat (index - Z.of_nat k))%nat with (Z.to_nat index) in Hx by lia. exact Hx.
Qed.

Theorem verify_sound (items : list A) p x :
  mp_total p = Z.of_nat (length items) ->
  verifies p (hash_from_slices items) x ->
  0 <= mp_index p < mp_total p /\ nth_error items (Z.to_nat (mp_index p)) = Some x.
Proof.
  intros Ht (H0 & H1 & Hleaf & Hc). unfold compute_root in Hc.
  destruct (cfa_sound (length items) items (mp_index p) (mp_total p) (mp_leaf p) (rev (mp_aunts p))) as [Hr (y & Hy & Hl)];
    [lia|exact Ht|exact Hc|].
  split; [exact Hr|]. rewrite Hleaf in Hl. inversion Hl; subst. exact Hy.
Qed.

(** the root determines the items (no two different lists of the same length hash to the same root) *)
Lemma hfs_injective fuel : forall (a b : list A),
  (length a <= fuel)%nat -> length a = length b -> hfs fuel a = hfs fuel b -> a = b.
Proof.
  induction fuel as [|f IH]; intros a b Hf Hl He.
  - destruct a; [destruct b; [reflexivity|discriminate]|cbn in Hf; lia].
  - destruct a as [|a1 [|a2 ra]], b as [|b1 [|b2 rb]]; try discriminate; try (cbn in Hl; lia).
    + reflexivity.
    + cbn in He. inversion He; reflexivity.
    + set (la := a1 :: a2 :: ra) in *. set (lb := b1 :: b2 :: rb) in *.
      destruct (split_nat la (two_or_more a1 a2 ra)) as [Hk _].
      rewrite !hfs_unfold in He by (try rewrite <- Hl; apply two_or_more). unfold kof in He.
      rewrite <- Hl in He. set (k := Z.to_nat (split_point (Z.of_nat (length la)))) in *.
      inversion He as [[H1 H2]].
      apply IH in H1; [|rewrite firstn_length; lia|rewrite !firstn_length; lia].
      apply IH in H2; [|rewrite skipn_length; lia|rewrite !skipn_length; lia].
      rewrite <- (firstn_skipn k la), <- (firstn_skipn k lb). congruence.
Qed.

Theorem hash_from_slices_injective (a b : list A) :
  length a = length b -> hash_from_slices a = hash_from_slices b -> a = b.
Proof.
  intros Hl He. unfold hash_from_slices in He. rewrite <- Hl in He. apply (hfs_injective (length a)); [lia|exact Hl|exact He].
Qed.

End Merkle.

Arguments dg : clear implicits.
Arguments mproof : clear implicits.

(** Specification side of C11: the reference layout of a namespace inside a square, the expected answers, and a
    row-agnostic share-at-a-time reading of the namespace data that [Parser.retrieve] is proved equal to. *)
From Coq Require Import List ZArith NArith Lia Bool.
From CN Require Import Blob.Parser.
Import ListNotations.
Open Scope Z_scope.

(** * Reference layout: what a namespace looks like in a k-wide original square *)

(** The shares a blob is split into (go-square sparse share splitter): a sequence-start share carrying the length,
    the share version and, for version 1, the signer; then continuation shares. *)
Definition first_share (b : blob) : share :=
  mkShare (b_ns b) false true (b_len b) (b_ver b) (b_signer b) (hd 0%N (b_chunks b)).
Definition cont_share (b : blob) (c : N) : share := mkShare (b_ns b) false false 0 (b_ver b) None c.
Definition blob_shares (b : blob) : list share := first_share b :: map (cont_share b) (tl (b_chunks b)).

(** a blob as the square builder admits it: at least one byte, exactly the shares its length needs, a version-0
    namespace, share version 0 (no signer) or 1 (signer) *)
Definition wf_blob (b : blob) : Prop :=
  (1 <= b_len b)%N /\
  N.of_nat (length (b_chunks b)) = shares_needed (b_len b) (b_ver b =? 1)%N /\
  ns_version_zero (b_ns b) = true /\
  ((b_ver b = 0%N /\ b_signer b = None) \/ (b_ver b = 1%N /\ exists s, b_signer b = Some s)).

(** the namespace's share sequence: blobs and arbitrary runs of padding shares, in any arrangement *)
Inductive item := IPad (pads : list share) | IBlob (b : blob).

Definition wf_item (it : item) : Prop :=
  match it with
  | IPad pads => Forall (fun s => sh_pad s = true) pads
  | IBlob b => wf_blob b
  end.

Definition item_shares (it : item) : list share :=
  match it with IPad pads => pads | IBlob b => blob_shares b end.

Definition flat (items : list item) : list share := concat (map item_shares items).

(** row-major placement: the sequence starts at original-square position [off]; the getter returns it cut at the row
    boundaries, each piece with the column of its first share (the start of the row's range proof) *)
Fixpoint chunk_rows (fuel k col : nat) (l : list share) : list (Z * list share) :=
  match fuel with
  | O => []
  | S f => match l with
           | [] => []
           | _ => (Z.of_nat col, firstn (k - col) l) :: chunk_rows f k 0 (skipn (k - col) l)
           end
  end.
Definition rows_of (k off : nat) (l : list share) : list (Z * list share) := chunk_rows (length l) k (off mod k) l.

(** index of original-square position [p] in an extended square whose rows are [w] wide: row * w + column *)
Definition eds_index (k : nat) (w : Z) (p : nat) : Z := Z.of_nat (p / k) * w + Z.of_nat (p mod k).

(** the blobs of the layout in order, each with the index of its first share *)
Fixpoint expected (k : nat) (w : Z) (p : nat) (items : list item) : list (blob * Z) :=
  match items with
  | [] => []
  | IPad pads :: r => expected k w (p + length pads) r
  | IBlob b :: r => (b, eds_index k w p) :: expected k w (p + length (b_chunks b)) r
  end.

(** the row roots of the header: rows above the first row of the namespace do not contain it, that row does *)
Definition outside (ns : N) (r : N * N) : bool := (ns <? fst r)%N || negb (ns <=? snd r)%N.
Definition first_ns_row (ns : N) (ranges : list (N * N)) (r0 : nat) : Prop :=
  (forall i, (i < r0)%nat -> exists r, nth_error ranges i = Some r /\ outside ns r = true) /\
  (exists r, nth_error ranges r0 = Some r /\ outside ns r = false).

(** * Share-at-a-time reading *)
Inductive fstate := FIdle | FColl (idx : Z) (len : N) (acc : list share).

Inductive fres :=
| FRun (s : fstate) (seen : list (blob * Z))
| FStop (o : outcome) (seen : list (blob * Z)).

Section Flat.
  Variable v : blob -> bool.

  Definition complete (idx : Z) (len : N) (acc : list share) (seen : list (blob * Z)) : fres :=
    match p_parse (mkP idx len acc) with
    | None => FStop OErr seen
    | Some (b, i) => if v b then FStop (OFound b i) ((b, i) :: seen) else FRun FIdle ((b, i) :: seen)
    end.

  Definition fpush (idx : Z) (len : N) (acc : list share) (s : share) (seen : list (blob * Z)) : fres :=
    let acc' := acc ++ [s] in
    if (N.of_nat (length acc') =? len)%N then complete idx len acc' seen else FRun (FColl idx len acc') seen.

  Definition fstep (st : fstate) (seen : list (blob * Z)) (x : Z * share) : fres :=
    let '(pos, s) := x in
    match st with
    | FIdle => if sh_pad s then FRun FIdle seen
               else fpush pos (shares_needed (seqlen s) (sh_ver s =? 1)%N) [] s seen
    | FColl idx len acc => fpush idx len acc s seen
    end.

  Fixpoint frun (st : fstate) (seen : list (blob * Z)) (l : list (Z * share)) : fres :=
    match l with
    | [] => FRun st seen
    | x :: l' => match fstep st seen x with
                 | FRun st' seen' => frun st' seen' l'
                 | stop => stop
                 end
    end.
End Flat.

(** positions of the shares of a row: consecutive from the row's first position *)
Fixpoint tag (pos : Z) (l : list share) : list (Z * share) :=
  match l with [] => [] | s :: l' => (pos, s) :: tag (pos + 1) l' end.

(** all shares of the namespace rows with their extended-square positions: row [r0 + i], column start_i + j *)
Fixpoint tag_rows (w row : Z) (rows : list (Z * list share)) : list (Z * share) :=
  match rows with
  | [] => []
  | (start, shs) :: rest => tag (row * w + start) shs ++ tag_rows w (row + 1) rest
  end.

(** the answer of [retrieve] read off the share-at-a-time run: stopped with a result, or ran out of shares *)
Definition fres_outcome (r : fres) : outcome * list (blob * Z) :=
  match r with FStop o seen => (o, seen) | FRun _ seen => (ONotFound, seen) end.

(** Proofs about the blob retrieval model (Blob/Parser.v):
    A. [retrieve] (nested loops over rows, parser state, fuel) equals a share-at-a-time reading of the concatenated
       rows — for ALL getter answers, well-formed or not;
    B. cutting a row-major share sequence at the row boundaries and positioning it as the code does gives the
       extended-square index of every share;
    C. the share-at-a-time reading of any layout of blobs and padding runs yields exactly the blobs, in order, with
       the index of their first share.  *)
From Coq Require Import List ZArith NArith Lia Bool.
From CN Require Import Blob.Parser Blob.ParserSpec.
Import ListNotations.
Open Scope Z_scope.

(** * Small facts *)
Lemma zlen_cons {A} (x : A) l : zlen (x :: l) = zlen l + 1.
Proof. unfold zlen. cbn [length]. lia. Qed.

Lemma zlen_app {A} (a b : list A) : zlen (a ++ b) = zlen a + zlen b.
Proof. unfold zlen. rewrite app_length. lia. Qed.

Lemma tag_app pos a b : tag pos (a ++ b) = tag pos a ++ tag (pos + zlen a) b.
Proof.
  revert pos; induction a as [|x a IH]; intros pos; cbn [tag app].
  - unfold zlen; cbn. f_equal. lia.
  - rewrite IH. rewrite zlen_cons. do 3 f_equal. lia.
Qed.

Lemma map_snd_tag pos l : map snd (tag pos l) = l.
Proof. revert pos; induction l as [|x l IH]; intros pos; cbn; [reflexivity|]. f_equal. apply IH. Qed.

Section WithV.
Variable v : blob -> bool.

Lemma frun_app st seen l1 l2 :
  frun v st seen (l1 ++ l2) =
  match frun v st seen l1 with FRun st' seen' => frun v st' seen' l2 | stop => stop end.
Proof.
  revert st seen; induction l1 as [|x l1 IH]; intros st seen; cbn [frun app]; [reflexivity|].
  destruct (fstep v st seen x); [apply IH|reflexivity].
Qed.

(** * A. the loops of [retrieve] are the share-at-a-time reading *)

(** leading padding is skipped share by share *)
Lemma count_pad_le shs : (count_pad shs <= length shs)%nat.
Proof. induction shs as [|s shs IH]; cbn; [lia|]. destruct (sh_pad s); cbn; lia. Qed.

Lemma count_pad_head shs s0 tl : skipn (count_pad shs) shs = s0 :: tl -> sh_pad s0 = false.
Proof.
  induction shs as [|s shs IH]; cbn; [discriminate|].
  destruct (sh_pad s) eqn:E; cbn.
  - exact IH.
  - intros H; inversion H; subst; exact E.
Qed.

Lemma frun_idle_skip shs pos seen :
  frun v FIdle seen (tag pos shs) =
  frun v FIdle seen (tag (pos + Z.of_nat (count_pad shs)) (skipn (count_pad shs) shs)).
Proof.
  revert pos; induction shs as [|s shs IH]; intros pos; cbn [count_pad].
  - cbn. reflexivity.
  - destruct (sh_pad s) eqn:E.
    + cbn [tag frun fstep skipn]. rewrite E. rewrite IH. do 2 f_equal. lia.
    + cbn [skipn]. replace (pos + Z.of_nat 0) with pos by lia. reflexivity.
Qed.

(** a non-padding share in the idle state opens a blob at its own position *)
Lemma frun_idle_start pos s0 tl seen :
  sh_pad s0 = false ->
  frun v FIdle seen (tag pos (s0 :: tl)) =
  frun v (FColl pos (shares_needed (seqlen s0) (sh_ver s0 =? 1)%N) []) seen (tag pos (s0 :: tl)).
Proof. intros E. cbn [tag frun fstep]. rewrite E. reflexivity. Qed.

Lemma add_shares_grows shs : forall acc len acc' r,
  add_shares acc len shs = (acc', r) ->
  exists more, acc' = acc ++ more /\ (shs <> [] -> more <> []).
Proof.
  induction shs as [|s shs IH]; intros acc len acc' r H; cbn in H.
  - inversion H; subst. exists []. rewrite app_nil_r. split; [reflexivity|congruence].
  - destruct (N.of_nat (length (acc ++ [s])) =? len)%N.
    + inversion H; subst. exists [s]. split; [reflexivity|]. intros _; discriminate.
    + apply IH in H as (more & -> & _). exists (s :: more). rewrite <- app_assoc. split; [reflexivity|].
      intros _; discriminate.
Qed.

Lemma add_shares_frun shs : forall acc idx len pos seen,
  match add_shares acc len shs with
  | (acc', None) => frun v (FColl idx len acc) seen (tag pos shs) = FRun (FColl idx len acc') seen
  | (acc', Some rest) =>
    frun v (FColl idx len acc) seen (tag pos shs) =
      match complete v idx len acc' seen with
      | FRun st' seen' => frun v st' seen' (tag (pos + (zlen shs - zlen rest)) rest)
      | stop => stop
      end
    /\ (length rest < length shs)%nat
  end.
Proof.
  induction shs as [|s shs IH]; intros acc idx len pos seen; cbn [add_shares].
  - reflexivity.
  - cbn [tag frun fstep]. unfold fpush.
    destruct (N.of_nat (length (acc ++ [s])) =? len)%N eqn:E.
    + split; [|cbn; lia].
      destruct (complete v idx len (acc ++ [s]) seen); [|reflexivity].
      rewrite zlen_cons. do 2 f_equal. lia.
    + specialize (IH (acc ++ [s]) idx len (pos + 1) seen).
      destruct (add_shares (acc ++ [s]) len shs) as [acc' [rest|]].
      * destruct IH as [IH Hlen]. split; [|cbn; lia]. rewrite IH.
        destruct (complete v idx len acc' seen); [|reflexivity].
        rewrite zlen_cons. do 2 f_equal. lia.
      * exact IH.
Qed.

(** parser states met at loop heads: freshly reset, or holding at least one share *)
Definition pinv (p : parser) : Prop := p = p_reset \/ p_shares p <> [].

Definition abs (p : parser) : fstate :=
  if p_is_empty p then FIdle else FColl (p_index p) (p_length p) (p_shares p).

Lemma abs_reset : abs p_reset = FIdle.
Proof. reflexivity. Qed.

Lemma is_empty_nonempty p : p_shares p <> [] -> p_is_empty p = false.
Proof.
  intros H. unfold p_is_empty. destruct (p_shares p); [congruence|]. rewrite andb_false_r. reflexivity.
Qed.

Definition proj (r : inner_res) : fres :=
  match r with IBreak s => FRun (abs (s_p s)) (s_seen s) | IDone o _ seen => FStop o seen end.

Definition break_inv (r : inner_res) : Prop :=
  match r with IBreak s => pinv (s_p s) | IDone _ _ _ => True end.

Lemma step2_frun rec s we p base index app :
  (p_shares p = [] -> app <> []) ->
  (forall index' app' s', pinv (s_p s') -> (length app' < length app)%nat ->
     proj (rec index' app' s') = frun v (abs (s_p s')) (s_seen s') (tag (base + index') app')
     /\ break_inv (rec index' app' s')) ->
  proj (step2 v rec s we p index app) =
    frun v (FColl (p_index p) (p_length p) (p_shares p)) (s_seen s) (tag (base + index) app)
  /\ break_inv (step2 v rec s we p index app).
Proof.
  intros Hne Hrec. unfold step2.
  pose proof (add_shares_frun app (p_shares p) (p_index p) (p_length p) (base + index) (s_seen s)) as HA.
  destruct (add_shares (p_shares p) (p_length p) app) as [acc r] eqn:EA.
  apply add_shares_grows in EA as (more & -> & Hmore).
  destruct r as [rest|].
  - destruct HA as [HA Hlen]. rewrite HA. unfold complete.
    destruct (p_parse {| p_index := p_index p; p_length := p_length p; p_shares := p_shares p ++ more |}) as [[b i]|].
    + destruct (v b).
      * cbn. split; [reflexivity|exact I].
      * match goal with |- context [rec ?i ?a ?s'] => specialize (Hrec i a s') end.
        cbn [s_p s_seen] in Hrec. destruct Hrec as [H1 H2]; [left; reflexivity|exact Hlen|].
        split; [|exact H2]. rewrite H1. rewrite abs_reset. do 2 f_equal. lia.
    + cbn. split; [reflexivity|exact I].
  - cbn [proj s_p s_seen break_inv]. rewrite HA.
    assert (Hn : p_shares p ++ more <> []).
    { destruct (p_shares p) eqn:E; cbn; [|discriminate]. apply Hmore. apply Hne. reflexivity. }
    split.
    + unfold abs. rewrite is_empty_nonempty by exact Hn. reflexivity.
    + right. exact Hn.
Qed.

Lemma inner_frun fuel : forall base index app s,
  pinv (s_p s) -> (length app < fuel)%nat ->
  proj (inner v fuel base index app s) = frun v (abs (s_p s)) (s_seen s) (tag (base + index) app)
  /\ break_inv (inner v fuel base index app s).
Proof.
  induction fuel as [|f IH]; intros base index app s Hinv Hfuel; [lia|].
  cbn [inner].
  assert (Hrec : forall index' app' s', pinv (s_p s') -> (length app' < length app)%nat ->
     proj (inner v f base index' app' s') = frun v (abs (s_p s')) (s_seen s') (tag (base + index') app')
     /\ break_inv (inner v f base index' app' s')).
  { intros. apply IH; [assumption|lia]. }
  destruct Hinv as [Hr|Hne].
  - (* parser empty: set *)
    rewrite Hr. change (p_is_empty p_reset) with true. cbv iota. rewrite abs_reset.
    unfold p_set. destruct app as [|a0 app0] eqn:Eapp.
    + cbn. split; [reflexivity|left; reflexivity].
    + rewrite <- Eapp in *.
      rewrite frun_idle_skip.
      pose proof (count_pad_le app) as Hle.
      pose proof (count_pad_head app) as Hhead.
      assert (Hsk : length (skipn (count_pad app) app) = (length app - count_pad app)%nat) by apply skipn_length.
      destruct (skipn (count_pad app) app) as [|s0 tl] eqn:Esk.
      * cbn. split; [reflexivity|left; reflexivity].
      * specialize (Hhead s0 tl eq_refl).
        rewrite frun_idle_start by exact Hhead.
        set (p1 := {| p_index := Z.of_nat (count_pad app) + (base + index);
                      p_length := shares_needed (seqlen s0) (sh_ver s0 =? 1)%N; p_shares := p_shares p_reset |}).
        assert (Hgoal : forall index1, base + index1 = base + index + Z.of_nat (count_pad app) ->
          proj (step2 v (inner v f base) s true p1 index1 (s0 :: tl)) =
            frun v (FColl (base + index + Z.of_nat (count_pad app)) (shares_needed (seqlen s0) (sh_ver s0 =? 1)%N) [])
                 (s_seen s) (tag (base + index + Z.of_nat (count_pad app)) (s0 :: tl))
          /\ break_inv (step2 v (inner v f base) s true p1 index1 (s0 :: tl))).
        { intros index1 Hidx.
          destruct (step2_frun (inner v f base) s true p1 base index1 (s0 :: tl)) as [H1 H2].
          - intros _; discriminate.
          - intros index' app' s' Hp Hl. apply Hrec; [exact Hp|]. cbn [length] in *. lia.
          - split; [|exact H2]. rewrite H1. subst p1. cbn [p_index p_length p_shares p_reset].
            rewrite Hidx. do 2 f_equal. lia. }
        destruct (Nat.eqb (length app) (length (s0 :: tl))) eqn:El.
        -- apply Nat.eqb_eq in El. assert (count_pad app = 0)%nat by (cbn [length] in *; lia).
           assert (app = s0 :: tl) as -> by (rewrite <- Esk; rewrite H; reflexivity).
           apply Hgoal. rewrite H. lia.
        -- apply Hgoal. unfold zlen. cbn [length] in *. lia.
  - (* a blob is being assembled *)
    rewrite (is_empty_nonempty _ Hne). cbv iota.
    destruct (step2_frun (inner v f base) s false (s_p s) base index app) as [H1 H2].
    + intros E; congruence.
    + exact Hrec.
    + split; [|exact H2]. rewrite H1. unfold abs. rewrite (is_empty_nonempty _ Hne). reflexivity.
Qed.

(** the outer loop: rows up to the first absence proof (a row without shares), if any *)
Definition nonempty_rows (rows : list (Z * list share)) : Prop := forall r, In r rows -> snd r <> [].
Definition stops_here (post : list (Z * list share)) : Prop :=
  post = [] \/ exists start rest, post = (start, []) :: rest.

Lemma outer_frun pre : forall post w row ord s,
  pinv (s_p s) -> nonempty_rows pre -> stops_here post ->
  (let '(o, _, seen) := outer v w row ord (pre ++ post) s [] in (o, seen)) =
  fres_outcome (frun v (abs (s_p s)) (s_seen s) (tag_rows w row pre)).
Proof.
  induction pre as [|[start shs] pre IH]; intros post w row ord s Hinv Hne Hpost.
  - cbn [app tag_rows frun fres_outcome].
    destruct Hpost as [->|(start & rest & ->)]; cbn; reflexivity.
  - cbn [app outer tag_rows].
    assert (Hshs : shs <> []) by (apply (Hne (start, shs)); left; reflexivity).
    destruct shs as [|s0 shs0] eqn:Es; [congruence|]. rewrite <- Es in *.
    set (s1 := {| s_p := s_p s; s_prf := s_prf s ++ [ord]; s_seen := s_seen s |}).
    destruct (inner_frun (S (length shs)) (row * w) start shs s1) as [H1 H2]; [exact Hinv|lia|].
    cbn [s_p s_seen s1] in H1.
    rewrite frun_app. rewrite <- H1.
    destruct (inner v (S (length shs)) (row * w) start shs s1) as [s2|o prf seen].
    + cbn [proj]. cbn [break_inv] in H2.
      match goal with |- context [outer v w (row + 1) (S ord) (pre ++ post) ?s3 []] =>
        specialize (IH post w (row + 1) (S ord) s3) end.
      assert (Hsame : forall (b : bool), s_p (if b then {| s_p := s_p s2; s_prf := []; s_seen := s_seen s2 |} else s2) = s_p s2
                                         /\ s_seen (if b then {| s_p := s_p s2; s_prf := []; s_seen := s_seen s2 |} else s2) = s_seen s2)
        by (intros []; split; reflexivity).
      destruct (Hsame (p_is_empty (s_p s2))) as [E1 E2].
      rewrite E1, E2 in IH. apply IH; [exact H2| |exact Hpost].
      intros r Hr. apply Hne. right. exact Hr.
    + cbn. reflexivity.
Qed.

Lemma find_row_spec ns : forall r0 ranges i,
  first_ns_row ns ranges r0 -> find_row ns ranges i = i + Z.of_nat r0.
Proof.
  induction r0 as [|r0 IH]; intros ranges i [Hbefore (r & Hr & Hin)].
  - destruct ranges as [|[mn mx] rest]; [discriminate|]. cbn in Hr. inversion Hr; subst.
    cbn [find_row]. unfold outside in Hin. cbn [fst snd] in Hin. rewrite Hin. lia.
  - destruct ranges as [|[mn mx] rest]; [discriminate|]. cbn [find_row].
    destruct (Hbefore 0%nat ltac:(lia)) as (r1 & Hr1 & Hout). cbn in Hr1. inversion Hr1; subst.
    unfold outside in Hout. cbn [fst snd] in Hout. rewrite Hout.
    rewrite IH.
    + lia.
    + split.
      * intros j Hj. destruct (Hbefore (S j) ltac:(lia)) as (r2 & Hr2 & Hout2). exists r2. split; assumption.
      * exists r. split; assumption.
Qed.

(** ** Theorem A: for every answer of the getter *)
Theorem retrieve_flat ns ranges pre post :
  nonempty_rows pre -> stops_here post ->
  (let '(o, _, seen) := retrieve v ns ranges (GRows (pre ++ post)) in (o, seen)) =
  fres_outcome (frun v FIdle [] (tag_rows (zlen ranges) (find_row ns ranges 0) pre)).
Proof.
  intros Hne Hpost. unfold retrieve.
  apply (outer_frun pre post (zlen ranges) (find_row ns ranges 0) O {| s_p := p_reset; s_prf := []; s_seen := [] |});
    [left; reflexivity|exact Hne|exact Hpost].
Qed.

(** * C. the share-at-a-time reading of a layout *)

(** reading with arbitrary positions *)
Lemma frun_idle_pads l seen :
  Forall (fun x => sh_pad (snd x) = true) l -> frun v FIdle seen l = FRun FIdle seen.
Proof.
  induction 1 as [|[pos s] l Hx _ IH]; cbn [frun fstep]; [reflexivity|].
  cbn in Hx. rewrite Hx. exact IH.
Qed.

Lemma frun_collect more : forall acc idx len seen rest,
  more <> [] -> N.of_nat (length acc + length more) = len ->
  frun v (FColl idx len acc) seen (more ++ rest) =
  match complete v idx len (acc ++ map snd more) seen with
  | FRun st' seen' => frun v st' seen' rest
  | stop => stop
  end.
Proof.
  induction more as [|[pos s] more IH]; intros acc idx len seen rest Hne Hlen; [congruence|].
  cbn [app frun fstep]. unfold fpush.
  destruct more as [|y more'].
  - cbn [length] in Hlen. rewrite app_length. cbn [length map snd].
    replace (N.of_nat (length acc + 1) =? len)%N with true by (symmetry; apply N.eqb_eq; lia).
    cbn [app]. reflexivity.
  - rewrite app_length. cbn [length] in *.
    replace (N.of_nat (length acc + 1) =? len)%N with false by (symmetry; apply N.eqb_neq; lia).
    rewrite IH; [|discriminate|rewrite app_length; cbn [length]; lia].
    cbn [map snd]. rewrite <- app_assoc. reflexivity.
Qed.

(** go-square: the bytes of [shares_needed len] shares hold [len] bytes *)
Lemma shares_needed_pos len signer : (1 <= len)%N -> (1 <= shares_needed len signer)%N.
Proof.
  intros H. unfold shares_needed.
  destruct (len =? 0)%N eqn:E0; [apply N.eqb_eq in E0; lia|].
  destruct (len <=? first_cap signer)%N; [lia|].
  rewrite <- N.add_assoc. apply N.le_add_r.
Qed.

Lemma shares_needed_capacity len signer :
  (1 <= len)%N -> (len <= first_cap signer + cont_sparse_content * (shares_needed len signer - 1))%N.
Proof.
  intros H. unfold shares_needed.
  destruct (len =? 0)%N eqn:E0; [apply N.eqb_eq in E0; lia|].
  destruct (len <=? first_cap signer)%N eqn:E1.
  - apply N.leb_le in E1. lia.
  - apply N.leb_gt in E1.
    set (rem := (len - first_cap signer)%N).
    assert (Hc : cont_sparse_content = 482%N) by reflexivity. rewrite Hc.
    pose proof (N.div_mod rem 482 ltac:(lia)) as Hdm.
    pose proof (N.mod_lt rem 482 ltac:(lia)) as Hlt.
    assert (Hrem : (len = first_cap signer + rem)%N) by (subst rem; lia).
    destruct (rem mod 482 =? 0)%N eqn:Em.
    + apply N.eqb_eq in Em. lia.
    + lia.
Qed.

(** go-square's parser gives back the blob from its own shares *)
Lemma parse_seqs_conts b : forall cs q,
  q_ns q = b_ns b -> supported_ver (b_ver b) = true ->
  parse_seqs [q] (map (cont_share b) cs) =
  Some [mkSeq (q_ns q) (q_ver q) (q_signer q) (q_len q) (q_chunks q ++ cs)
              (q_bytes q + cont_sparse_content * N.of_nat (length cs))].
Proof.
  induction cs as [|c cs IH]; intros q Hns Hver.
  - cbn [map parse_seqs rev app length]. rewrite app_nil_r. change cont_sparse_content with 482%N. destruct q as [a1 a2 a3 a4 a5 a6]; cbn [q_ns q_ver q_signer q_len q_chunks q_bytes]. do 3 f_equal. lia.
  - cbn [map parse_seqs cont_share sh_ver sh_pad sh_start sh_ns sh_data]. rewrite Hver. cbn [negb].
    rewrite Hns, N.eqb_refl. cbn [negb].
    rewrite IH; [|reflexivity|exact Hver]. cbn [q_ns q_ver q_signer q_len q_chunks q_bytes].
    rewrite <- app_assoc. cbn [app]. do 3 f_equal.
    unfold raw_len. cbn [sh_start cont_share]. cbn [length]. change cont_sparse_content with 482%N. lia.
Qed.

Lemma wf_blob_chunks b : wf_blob b -> b_chunks b <> [] /\ length (blob_shares b) = length (b_chunks b).
Proof.
  intros (Hlen & Hn & _). pose proof (shares_needed_pos (b_len b) (b_ver b =? 1)%N Hlen) as Hp.
  unfold blob_shares. destruct (b_chunks b) as [|c cs]; cbn in *; [lia|].
  split; [discriminate|]. rewrite map_length. reflexivity.
Qed.

Lemma parse_blob_shares b : wf_blob b -> parse_blobs (blob_shares b) = Some [b].
Proof.
  intros Hwf. pose proof (wf_blob_chunks b Hwf) as [Hne _].
  destruct Hwf as (Hlen & Hn & Hns & Hver).
  assert (Hsup : supported_ver (b_ver b) = true) by (destruct Hver as [[-> _]|[-> _]]; reflexivity).
  unfold parse_blobs, blob_shares.
  cbn [parse_seqs first_share sh_ver sh_pad sh_start sh_ns sh_signer sh_data]. rewrite Hsup. cbn [negb].
  rewrite parse_seqs_conts; [|reflexivity|exact Hsup].
  cbn [q_ns q_ver q_signer q_len q_chunks q_bytes seqs_to_blobs].
  change (seqlen (first_share b)) with (b_len b).
  assert (Hraw : raw_len (first_share b) = first_cap (b_ver b =? 1)%N).
  { unfold raw_len. cbn [first_share sh_start sh_ver]. destruct Hver as [[-> _]|[-> _]]; reflexivity. }
  rewrite Hraw.
  pose proof (shares_needed_capacity (b_len b) (b_ver b =? 1)%N Hlen) as Hcap.
  assert (Hcs : N.of_nat (length (tl (b_chunks b))) = (shares_needed (b_len b) (b_ver b =? 1)%N - 1)%N).
  { rewrite <- Hn. destruct (b_chunks b); cbn [tl length]; [congruence|lia]. }
  rewrite Hcs.
  replace (_ <? b_len b)%N with false by (symmetry; apply N.ltb_ge; exact Hcap).
  unfold new_blob. cbn [q_ns q_ver q_signer q_len q_chunks].
  replace (b_len b =? 0)%N with false by (symmetry; apply N.eqb_neq; lia).
  rewrite Hns. cbn [negb].
  assert (Hch : [hd 0%N (b_chunks b)] ++ tl (b_chunks b) = b_chunks b) by (destruct (b_chunks b); [congruence|reflexivity]).
  rewrite Hch.
  destruct b as [ns ver signer len chunks]. cbn in *.
  destruct Hver as [[-> ->]|[-> [sg ->]]]; reflexivity.
Qed.

(** positions inside a k-wide original square *)
Fixpoint tagE (k : nat) (w : Z) (p : nat) (l : list share) : list (Z * share) :=
  match l with [] => [] | s :: l' => (eds_index k w p, s) :: tagE k w (S p) l' end.

Lemma tagE_app k w p a b : tagE k w p (a ++ b) = tagE k w p a ++ tagE k w (p + length a) b.
Proof.
  revert p; induction a as [|x a IH]; intros p; cbn [tagE app length].
  - f_equal. lia.
  - rewrite IH. do 3 f_equal. lia.
Qed.

Lemma map_snd_tagE k w p l : map snd (tagE k w p l) = l.
Proof. revert p; induction l as [|x l IH]; intros p; cbn; [reflexivity|]. f_equal. apply IH. Qed.

Lemma tagE_length k w p l : length (tagE k w p l) = length l.
Proof. revert p; induction l as [|x l IH]; intros p; cbn; [reflexivity|]. f_equal. apply IH. Qed.

(** what the reading of a layout must produce: every blob is shown to the verify function, in order, with the
    index of its first share, until the function accepts one *)
Fixpoint spec_run (k : nat) (w : Z) (p : nat) (items : list item) (seen : list (blob * Z)) : fres :=
  match items with
  | [] => FRun FIdle seen
  | IPad pads :: r => spec_run k w (p + length pads) r seen
  | IBlob b :: r =>
    let e := (b, eds_index k w p) in
    if v b then FStop (OFound b (eds_index k w p)) (e :: seen)
    else spec_run k w (p + length (b_chunks b)) r (e :: seen)
  end.

Lemma frun_items k w items : forall p seen,
  Forall wf_item items ->
  frun v FIdle seen (tagE k w p (flat items)) = spec_run k w p items seen.
Proof.
  induction items as [|it items IH]; intros p seen Hwf; [reflexivity|].
  inversion Hwf as [|? ? Hit Hrest]; subst.
  unfold flat. cbn [map concat]. fold (flat items). rewrite tagE_app, frun_app.
  destruct it as [pads|b]; cbn [item_shares spec_run].
  - rewrite frun_idle_pads.
    + apply IH. exact Hrest.
    + cbn in Hit. clear -Hit. revert p. induction Hit as [|s pads Hs _ IHp]; intros p; cbn [tagE]; constructor.
      * exact Hs.
      * apply IHp.
  - cbn in Hit. pose proof (wf_blob_chunks b Hit) as [Hne Hlen].
    assert (Hstart : tagE k w p (blob_shares b) = (eds_index k w p, first_share b) :: tagE k w (S p) (map (cont_share b) (tl (b_chunks b))))
      by reflexivity.
    assert (Hrun : frun v FIdle seen (tagE k w p (blob_shares b)) =
                   complete v (eds_index k w p) (shares_needed (b_len b) (b_ver b =? 1)%N) (blob_shares b) seen).
    { transitivity (frun v (FColl (eds_index k w p) (shares_needed (b_len b) (b_ver b =? 1)%N) []) seen (tagE k w p (blob_shares b) ++ [])).
      - rewrite app_nil_r. rewrite Hstart. reflexivity.
      - rewrite frun_collect.
        + rewrite map_snd_tagE. cbn [app].
          destruct (complete v (eds_index k w p) (shares_needed (b_len b) (b_ver b =? 1)%N) (blob_shares b) seen); reflexivity.
        + rewrite Hstart. discriminate.
        + rewrite tagE_length, Hlen. cbn [length]. destruct Hit as (_ & Hn & _). rewrite <- Hn. lia. }
    rewrite Hrun. unfold complete, p_parse. cbn [p_length p_shares p_index].
    destruct Hit as (H1 & Hn & H3 & H4). rewrite Hlen, <- Hn, N.eqb_refl. cbn [negb].
    rewrite parse_blob_shares by (repeat split; assumption).
    destruct (v b); [reflexivity|].
    apply IH. exact Hrest.
Qed.

End WithV.

(** * B. rows of a row-major sequence, positioned as the code positions them *)
Lemma eds_index_row k w row col :
  (col < k)%nat -> eds_index k w (row * k + col) = Z.of_nat row * w + Z.of_nat col.
Proof.
  intros H. unfold eds_index.
  rewrite Nat.add_comm, Nat.div_add by lia. rewrite Nat.div_small by lia.
  rewrite Nat.add_comm. rewrite Nat.add_comm, Nat.mod_add by lia. rewrite Nat.mod_small by lia.
  cbn. reflexivity.
Qed.

Lemma tag_tagE_row k w row m : forall col,
  (col + length m <= k)%nat ->
  tag (Z.of_nat row * w + Z.of_nat col) m = tagE k w (row * k + col) m.
Proof.
  induction m as [|s m IH]; intros col H; cbn [tag tagE]; [reflexivity|]. cbn [length] in H.
  rewrite eds_index_row by lia. f_equal.
  replace (S (row * k + col)) with (row * k + S col)%nat by lia.
  rewrite <- IH by lia. f_equal. lia.
Qed.

Lemma chunk_tag k w fuel : forall l row col,
  (col < k)%nat -> (length l <= fuel)%nat ->
  tag_rows w (Z.of_nat row) (chunk_rows fuel k col l) = tagE k w (row * k + col) l.
Proof.
  induction fuel as [|f IH]; intros l row col Hc Hl.
  - destruct l; [reflexivity|cbn in Hl; lia].
  - destruct l as [|s l0]; [reflexivity|].
    assert (Hlen : (1 <= length (s :: l0))%nat) by (cbn; lia).
    set (l := s :: l0) in *.
    change (chunk_rows (S f) k col l) with ((Z.of_nat col, firstn (k - col) l) :: chunk_rows f k 0 (skipn (k - col) l)).
    cbn [tag_rows].
    rewrite <- (firstn_skipn (k - col) l) at 3. rewrite tagE_app.
    f_equal.
    + apply tag_tagE_row. rewrite firstn_length. lia.
    + replace (Z.of_nat row + 1) with (Z.of_nat (S row)) by lia.
      rewrite IH; [|lia|rewrite skipn_length; lia].
      rewrite firstn_length.
      destruct (Nat.le_gt_cases (k - col) (length l)) as [Hge|Hlt].
      * f_equal. rewrite Nat.min_l by lia. lia.
      * rewrite skipn_all2 by lia. reflexivity.
Qed.

Lemma chunk_nonempty k fuel : forall l col, (col < k)%nat -> nonempty_rows (chunk_rows fuel k col l).
Proof.
  induction fuel as [|f IH]; intros l col Hc r Hr; [destruct Hr|].
  destruct l as [|s l0]; [destruct Hr|].
  set (l := s :: l0) in *.
  change (chunk_rows (S f) k col l) with ((Z.of_nat col, firstn (k - col) l) :: chunk_rows f k 0 (skipn (k - col) l)) in Hr.
  destruct Hr as [<-|Hr].
  - cbn [snd]. subst l. destruct (k - col)%nat eqn:E; [lia|]. cbn. discriminate.
  - apply (IH (skipn (k - col) l) 0%nat); [lia|exact Hr].
Qed.

Lemma rows_of_tag k w off l :
  (0 < k)%nat -> tag_rows w (Z.of_nat (off / k)) (rows_of k off l) = tagE k w off l.
Proof.
  intros Hk. unfold rows_of. rewrite chunk_tag.
  - f_equal. rewrite (Nat.div_mod off k) at 3 by lia. lia.
  - apply Nat.mod_upper_bound. lia.
  - lia.
Qed.

(** * The layout theorems *)
Lemma spec_run_all k w items : forall p seen,
  spec_run (fun _ => false) k w p items seen = FRun FIdle (rev (expected k w p items) ++ seen).
Proof.
  induction items as [|[pads|b] items IH]; intros p seen; cbn [spec_run expected]; [reflexivity|apply IH|].
  rewrite IH. cbn [rev]. rewrite <- app_assoc. reflexivity.
Qed.

Lemma layout_retrieve v k off items ns ranges :
  (0 < k)%nat -> Forall wf_item items -> first_ns_row ns ranges (off / k) ->
  (let '(o, _, seen) := retrieve v ns ranges (GRows (rows_of k off (flat items))) in (o, seen)) =
  fres_outcome (spec_run v k (zlen ranges) off items []).
Proof.
  intros Hk Hwf Hrow.
  rewrite <- (app_nil_r (rows_of k off (flat items))).
  rewrite retrieve_flat.
  - rewrite (find_row_spec ns _ _ 0 Hrow). cbn [Z.add]. rewrite rows_of_tag by exact Hk.
    rewrite frun_items by exact Hwf. reflexivity.
  - apply chunk_nonempty. apply Nat.mod_upper_bound. lia.
  - left; reflexivity.
Qed.

Theorem get_all_exact k off items ns ranges :
  (0 < k)%nat -> Forall wf_item items -> first_ns_row ns ranges (off / k) ->
  get_all ns ranges (GRows (rows_of k off (flat items))) = GAOk (expected k (zlen ranges) off items).
Proof.
  intros Hk Hwf Hrow. unfold get_all.
  pose proof (layout_retrieve (fun _ => false) k off items ns ranges Hk Hwf Hrow) as H.
  rewrite spec_run_all in H. cbn [fres_outcome] in H. rewrite app_nil_r in H.
  destruct (retrieve (fun _ : blob => false) ns ranges (GRows (rows_of k off (flat items)))) as [[o prf] seen].
  inversion H; subst. rewrite rev_involutive. reflexivity.
Qed.

(** ** Fetching by commitment *)
Lemma listN_eqb_eq x : forall y, listN_eqb x y = true <-> x = y.
Proof.
  induction x as [|a x IH]; intros [|b y]; cbn; split; intros H; try congruence; try discriminate.
  - apply andb_true_iff in H as [H1 H2]. apply N.eqb_eq in H1. apply IH in H2. congruence.
  - inversion H; subst. rewrite N.eqb_refl. cbn. apply IH. reflexivity.
Qed.

Lemma optN_eqb_eq x y : optN_eqb x y = true <-> x = y.
Proof.
  destruct x as [a|], y as [b|]; cbn; split; intros H; try congruence; try discriminate.
  - apply N.eqb_eq in H. congruence.
  - inversion H; subst. apply N.eqb_refl.
Qed.

Lemma blob_eqb_eq x y : blob_eqb x y = true <-> x = y.
Proof.
  destruct x as [n1 v1 s1 l1 c1], y as [n2 v2 s2 l2 c2]. unfold blob_eqb. cbn [b_ns b_ver b_signer b_len b_chunks].
  rewrite !andb_true_iff, !N.eqb_eq, optN_eqb_eq, listN_eqb_eq.
  split; [intros [[[[-> ->] ->] ->] ->]; reflexivity|intros H; inversion H; subst; repeat split].
Qed.

(** commitments are compared like the blobs they commit to: the symbolic [commit] is injective *)
Lemma com_eqb_eq x y : com_eqb x y = true <-> x = y.
Proof.
  destruct x as [a|a], y as [b|b]; cbn; split; intros H; try congruence; try discriminate.
  - apply blob_eqb_eq in H. congruence.
  - inversion H; subst. apply blob_eqb_eq. reflexivity.
  - apply N.eqb_eq in H. congruence.
  - inversion H; subst. apply N.eqb_refl.
Qed.

Lemma commit_injective a b : commit a = commit b -> a = b.
Proof. intros H; inversion H; reflexivity. Qed.

(** first entry whose blob has commitment [c] *)
Definition first_match (c : com) (l : list (blob * Z)) : option (blob * Z) :=
  find (fun e => com_eqb (commit (fst e)) c) l.

Lemma spec_run_get k w c items : forall p seen,
  fst (fres_outcome (spec_run (fun b => com_eqb (commit b) c) k w p items seen)) =
  match first_match c (expected k w p items) with Some (b, i) => OFound b i | None => ONotFound end.
Proof.
  induction items as [|[pads|b] items IH]; intros p seen; cbn [spec_run expected]; [reflexivity|apply IH|].
  unfold first_match. cbn [find fst].
  destruct (com_eqb (commit b) c); [reflexivity|]. apply IH.
Qed.

Theorem get_by_commitment k off items ns ranges c :
  (0 < k)%nat -> Forall wf_item items -> first_ns_row ns ranges (off / k) ->
  get c ns ranges (GRows (rows_of k off (flat items))) =
  match first_match c (expected k (zlen ranges) off items) with
  | Some (b, i) => OFound b i
  | None => ONotFound
  end.
Proof.
  intros Hk Hwf Hrow. unfold get.
  pose proof (layout_retrieve (fun b => com_eqb (commit b) c) k off items ns ranges Hk Hwf Hrow) as H.
  rewrite <- spec_run_get with (seen := []).
  destruct (retrieve _ ns ranges (GRows (rows_of k off (flat items)))) as [[o prf] seen].
  rewrite <- H. reflexivity.
Qed.

(** present <-> found, spelled out *)
Corollary get_found_iff k off items ns ranges c :
  (0 < k)%nat -> Forall wf_item items -> first_ns_row ns ranges (off / k) ->
  let es := expected k (zlen ranges) off items in
  (forall b i, get c ns ranges (GRows (rows_of k off (flat items))) = OFound b i <->
               exists l1 l2, es = l1 ++ (b, i) :: l2 /\ commit b = c /\ (forall e, In e l1 -> commit (fst e) <> c)) /\
  (get c ns ranges (GRows (rows_of k off (flat items))) = ONotFound <-> forall e, In e es -> commit (fst e) <> c).
Proof.
  intros Hk Hwf Hrow es. rewrite (get_by_commitment k off items ns ranges c Hk Hwf Hrow). fold es.
  assert (Hfind : forall l, match first_match c l with
                            | Some (b, i) => exists l1 l2, l = l1 ++ (b, i) :: l2 /\ commit b = c /\ (forall e, In e l1 -> commit (fst e) <> c)
                            | None => forall e, In e l -> commit (fst e) <> c end).
  { induction l as [|[b i] l IHl]; cbn [first_match find fst].
    - intros e [].
    - destruct (com_eqb (commit b) c) eqn:E.
      + apply com_eqb_eq in E. exists [], l. split; [reflexivity|]. split; [exact E|intros e []].
      + fold (first_match c l). destruct (first_match c l) as [[b' i']|].
        * destruct IHl as (l1 & l2 & -> & Hc & Hno). exists ((b, i) :: l1), l2. split; [reflexivity|]. split; [exact Hc|].
          intros e [<-|He]; [|apply Hno; exact He]. cbn. intros Hc'. apply com_eqb_eq in Hc'. congruence.
        * intros e [<-|He]; [|apply IHl; exact He]. cbn. intros Hc'. apply com_eqb_eq in Hc'. congruence. }
  specialize (Hfind es). split.
  - intros b i. destruct (first_match c es) as [[b' i']|].
    + split.
      * intros H; inversion H; subst. exact Hfind.
      * intros (l1 & l2 & E & Hc & Hno). destruct Hfind as (m1 & m2 & E' & Hc' & Hno').
        (* both decompositions name the first match *)
        assert (Hsame : forall (l1 m1 : list (blob * Z)) l2 m2 x y, l1 ++ x :: l2 = m1 ++ y :: m2 ->
                  commit (fst x) = c -> commit (fst y) = c ->
                  (forall e, In e l1 -> commit (fst e) <> c) -> (forall e, In e m1 -> commit (fst e) <> c) -> x = y).
        { clear. induction l1 as [|a l1 IH]; intros [|d m1] l2 m2 x y E Hx Hy Hl Hm; cbn in E; injection E as E1 E2.
          - exact E1.
          - exfalso. apply (Hm d); [left; reflexivity|rewrite <- E1; exact Hx].
          - exfalso. apply (Hl a); [left; reflexivity|rewrite E1; exact Hy].
          - apply (IH m1 l2 m2 x y); try assumption; intros e He; [apply Hl|apply Hm]; right; exact He. }
        rewrite E in E'. specialize (Hsame l1 m1 l2 m2 (b, i) (b', i') E' Hc Hc' Hno Hno'). inversion Hsame; reflexivity.
    + split; [discriminate|]. intros (l1 & l2 & E & Hc & _). exfalso. apply (Hfind (b, i)); [rewrite E; apply in_or_app; right; left; reflexivity|exact Hc].
  - destruct (first_match c es) as [[b' i']|].
    + split; [discriminate|]. intros Hno. exfalso. destruct Hfind as (l1 & l2 & E & Hc & _).
      apply (Hno (b', i')); [rewrite E; apply in_or_app; right; left; reflexivity|exact Hc].
    + split; [intros _; exact Hfind|reflexivity].
Qed.

(** ** Every blob, in order, nothing else; byte-identical blobs are each returned *)
Fixpoint blobs_of (items : list item) : list blob :=
  match items with [] => [] | IPad _ :: r => blobs_of r | IBlob b :: r => b :: blobs_of r end.

Lemma expected_blobs k w items : forall p, map fst (expected k w p items) = blobs_of items.
Proof. induction items as [|[pads|b] items IH]; intros p; cbn; [reflexivity|apply IH|f_equal; apply IH]. Qed.

Theorem get_all_blobs_in_order k off items ns ranges :
  (0 < k)%nat -> Forall wf_item items -> first_ns_row ns ranges (off / k) ->
  exists es, get_all ns ranges (GRows (rows_of k off (flat items))) = GAOk es /\ map fst es = blobs_of items.
Proof.
  intros Hk Hwf Hrow. eexists. split; [apply get_all_exact; assumption|apply expected_blobs].
Qed.

(** ** Absent namespaces *)
Theorem absent_not_found ns ranges c :
  (* no row of the square is in range: the getter returns no rows *)
  get_all ns ranges (GRows []) = GAOk [] /\ get c ns ranges (GRows []) = ONotFound /\
  (* a row is in range but does not hold the namespace: absence proof (a row without shares) *)
  (forall start rest, get_all ns ranges (GRows ((start, []) :: rest)) = GAOk [] /\
                      get c ns ranges (GRows ((start, []) :: rest)) = ONotFound) /\
  (* the getter itself reports 'not found' *)
  get_all ns ranges GNotFound = GAOk [] /\ get c ns ranges GNotFound = ONotFound.
Proof. repeat split. Qed.

(** ** Non-vacuity: a 4-wide square, the namespace starts at position 6 with a padding share, holds a 3-share blob
    that crosses a row boundary, two padding shares, the same blob again (byte-identical), then a signed
    version-1 blob. *)
Definition ex_b1 : blob := mkBlob 1000 0 None 1400 [11; 12; 13]%N.
Definition ex_b2 : blob := mkBlob 1000 1 (Some 5%N) 458 [21]%N.
Definition ex_pad (d : N) : share := mkShare 1000 true true 0 0 None d.
Definition ex_items : list item := [IPad [ex_pad 90]; IBlob ex_b1; IPad [ex_pad 91; ex_pad 92]; IBlob ex_b1; IBlob ex_b2].
Definition ex_ranges : list (N * N) := [(1, 4); (4, 1000); (1000, 1000); (1000, 2000); (3000, 3000); (3000, 3000); (3000, 3000); (3000, 3000)]%N.

Example ex_wf : (0 < 4)%nat /\ Forall wf_item ex_items /\ first_ns_row 1000 ex_ranges (6 / 4).
Proof.
  split; [lia|]. split.
  - assert (Hp : forall d, sh_pad (ex_pad d) = true) by reflexivity.
    assert (H1 : wf_blob ex_b1) by (repeat split; try reflexivity; [cbn; lia|left; split; reflexivity]).
    assert (H2 : wf_blob ex_b2) by (repeat split; try reflexivity; [cbn; lia|right; split; [reflexivity|eexists; reflexivity]]).
    unfold ex_items. repeat (apply Forall_cons || apply Forall_nil); cbn [wf_item]; try assumption;
      repeat (apply Forall_cons || apply Forall_nil); apply Hp.
  - split.
    + intros i Hi. assert (i = 0)%nat as -> by (cbn in Hi; lia). eexists; split; reflexivity.
    + eexists; split; reflexivity.
Qed.

Example ex_get_all :
  get_all 1000 ex_ranges (GRows (rows_of 4 6 (flat ex_items))) = GAOk [(ex_b1, 11); (ex_b1, 24); (ex_b2, 27)] /\
  rows_of 4 6 (flat ex_items) =
    [(2, [ex_pad 90; first_share ex_b1]); (0, [cont_share ex_b1 12; cont_share ex_b1 13; ex_pad 91; ex_pad 92]);
     (0, blob_shares ex_b1 ++ [first_share ex_b2])] /\
  get (commit ex_b1) 1000 ex_ranges (GRows (rows_of 4 6 (flat ex_items))) = OFound ex_b1 11 /\
  get (commit ex_b2) 1000 ex_ranges (GRows (rows_of 4 6 (flat ex_items))) = OFound ex_b2 27 /\
  get (commit (mkBlob 1000 0 None 1400 [11; 12; 14]%N)) 1000 ex_ranges (GRows (rows_of 4 6 (flat ex_items))) = ONotFound.
Proof. vm_compute. repeat split. Qed.

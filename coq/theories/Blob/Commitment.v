(** Model of blob.CommitmentProof.Validate / Verify (blob/commitment_proof.go), following the repaired code
    (fix-c12-4: missing (nil) subtree-root proofs and row proofs are refused by Validate instead of being dereferenced).

    Two presentations, proved equal in CommitmentProofs.v:
    - [verify_gen]: over the proof's real structure and the primitives of the libraries it calls — the RFC-6962 root of the
      subtree roots (go-square/merkle), [inclusion.SubTreeWidth], [nmt.ToLeafRanges], [nmt.Proof.VerifySubtreeRootInclusion],
      the binary Merkle proof check of a row root (cometbft) — as Section variables: the theorems hold for every
      instantiation, in particular for the symbolic one of Blob/TupleMerkle.v;
    - [cverify]: over the structural summary of a proof together with the primitives' answers ([observe]); this is what the
      correspondence harness feeds with the answers of the real libraries. *)
From Coq Require Import List ZArith NArith Lia Bool.
From CN Require Import Blob.ProofEq.
Import ListNotations.
Open Scope Z_scope.

(** * Summary presentation *)
Record srp := mkSRP {
  srp_start : Z; srp_end : Z;
  srp_nranges : option nat;       (* len(ToLeafRanges(start, end, width)); None: error *)
  srp_vsri : option bool          (* VerifySubtreeRootInclusion on the slice the cursor selects; None: error *)
}.

Record cproof := mkCP {
  cp_nroots : nat;                        (* len(SubtreeRoots) *)
  cp_srps : list (option srp);            (* SubtreeRootProofs (None = nil) *)
  cp_nrowroots : nat;                     (* len(RowProof.RowRoots) *)
  cp_rowproofs : list (option bool);      (* RowProof.Proofs: does proof i verify row root i against the data root (None = nil) *)
  cp_start_row : Z; cp_end_row : Z;
  cp_hfb_eq : bool;                       (* HashFromByteSlices(SubtreeRoots) == commitment *)
  cp_width : option Z;                    (* SubTreeWidth(total shares, threshold); None: error *)
  cp_root_empty : bool; cp_com_empty : bool
}.

Definition is_none {X} (o : option X) : bool := match o with None => true | Some _ => false end.

(** [Validate] *)
Definition cvalidate (c : cproof) : bool :=
  negb (cp_nroots c <? length (cp_srps c))%nat &&
  Nat.eqb (length (cp_srps c)) (length (cp_rowproofs c)) &&
  ((cp_end_row c - cp_start_row c + 1) mod 2 ^ 32 =? Z.of_nat (cp_nrowroots c)) &&
  Nat.eqb (length (cp_rowproofs c)) (cp_nrowroots c) &&
  negb (existsb is_none (cp_srps c)) && negb (existsb is_none (cp_rowproofs c)).

(** celestia-app [RowProof.Validate(root)] *)
Definition all_rows_verify (c : cproof) : bool :=
  forallb (fun o => match o with Some true => true | _ => false end) (cp_rowproofs c).

Definition row_validate (c : cproof) : bool :=
  negb (cp_end_row c <? cp_start_row c) &&
  (cp_end_row c - cp_start_row c + 1 =? Z.of_nat (cp_nrowroots c)) &&
  negb (Nat.eqb (cp_nrowroots c) 0) &&
  Nat.eqb (length (cp_rowproofs c)) (cp_nrowroots c) &&
  all_rows_verify c.

(** the loop over the subtree-root proofs; [cursor] = subtreeRootsCursor.  Some cursor' = all verified *)
Fixpoint srp_loop (nroots : nat) (cursor : nat) (ps : list (option srp)) : option nat :=
  match ps with
  | [] => Some cursor
  | None :: _ => None
  | Some p :: ps' =>
    match srp_nranges p with
    | None => None                                          (* ToLeafRanges error *)
    | Some nr =>
      if (nroots <? cursor + nr)%nat then None
      else match srp_vsri p with
           | Some true => srp_loop nroots (cursor + nr) ps'
           | _ => None                                      (* error, or invalid *)
           end
    end
  end.

(** [Verify(dataRoot, commitment)] *)
Definition cverify (c : cproof) : res :=
  if cp_root_empty c then RErr
  else if cp_com_empty c then RErr
  else if negb (cvalidate c) then RErr
  else if negb (cp_hfb_eq c) then RErr
  else if negb (row_validate c) then RErr
  else match cp_width c with
       | None => RErr
       | Some _ =>
         match srp_loop (cp_nroots c) 0 (cp_srps c) with
         | None => RErr
         | Some cursor => if negb (Nat.eqb cursor (cp_nroots c)) then RErr
                          else if all_rows_verify c then ROk else RErr
         end
       end.

(** [Verify] WITHOUT the call [rp.Validate(dataRoot)] of celestia-app's RowProof ("the row proofs are walked twice"): what is
    left is the node's own [Validate], whose row count is computed in uint32 (mod 2^32), and [VerifyProof] over the row
    proofs present.  Kept as an executable variant: CommitmentProofs.v refutes soundness for it (a proof without any
    component and an inverted / wrapped row range verifies against every data root). *)
Definition cverify_norowcheck (c : cproof) : res :=
  if cp_root_empty c then RErr
  else if cp_com_empty c then RErr
  else if negb (cvalidate c) then RErr
  else if negb (cp_hfb_eq c) then RErr
  else match cp_width c with
       | None => RErr
       | Some _ =>
         match srp_loop (cp_nroots c) 0 (cp_srps c) with
         | None => RErr
         | Some cursor => if negb (Nat.eqb cursor (cp_nroots c)) then RErr
                          else if all_rows_verify c then ROk else RErr
         end
       end.

(** the row count as the node's [Validate] computes it: [int(EndRow-StartRow+1)] on uint32 operands *)
Definition row_count_u32 (start_row end_row : Z) : Z := (end_row - start_row + 1) mod 2 ^ 32.

(** * Structural presentation *)
Section Gen.
  Variables D C T NP MP : Type.                               (* NMT digests (subtree roots, row roots); commitments; data roots *)
  Variable t_empty : T -> bool.                               (* len(dataRoot) == 0 *)
  Variable c_empty : C -> bool.                               (* len(commitment) == 0 *)
  Variable c_eqb : C -> C -> bool.                            (* bytes.Equal *)
  Variable hfb : list D -> C.                                 (* merkle.HashFromByteSlices *)
  Variable width_of : Z -> option Z.                          (* inclusion.SubTreeWidth(shares, subtreeRootThreshold) *)
  Variable leaf_ranges : Z -> Z -> Z -> option nat.           (* len(nmt.ToLeafRanges(start, end, width)) *)
  Variable vsri : Z -> Z -> NP -> list D -> Z -> D -> option bool.   (* proof(start,end,nodes).VerifySubtreeRootInclusion(roots, width, rowRoot) *)
  Variable mverify : MP -> T -> D -> bool.                    (* rowProof.Verify(dataRoot, rowRoot) == nil *)

  Record sproof := mkS { s_start : Z; s_end : Z; s_nodes : NP }.

  Record gproof := mkG {
    g_roots : list D; g_sproofs : list (option sproof);
    g_row_roots : list D; g_row_proofs : list (option MP);
    g_start_row : Z; g_end_row : Z
  }.

  Definition gvalidate (g : gproof) : bool :=
    negb (length (g_roots g) <? length (g_sproofs g))%nat &&
    Nat.eqb (length (g_sproofs g)) (length (g_row_proofs g)) &&
    ((g_end_row g - g_start_row g + 1) mod 2 ^ 32 =? Z.of_nat (length (g_row_roots g))) &&
    Nat.eqb (length (g_row_proofs g)) (length (g_row_roots g)) &&
    negb (existsb is_none (g_sproofs g)) && negb (existsb is_none (g_row_proofs g)).

  (** row proof i against row root i *)
  Fixpoint rows_verify (root : T) (ps : list (option MP)) (rs : list D) : bool :=
    match ps, rs with
    | [], _ => true
    | Some p :: ps', r :: rs' => mverify p root r && rows_verify root ps' rs'
    | _, _ => false
    end.

  Definition grow_validate (g : gproof) (root : T) : bool :=
    negb (g_end_row g <? g_start_row g) &&
    (g_end_row g - g_start_row g + 1 =? Z.of_nat (length (g_row_roots g))) &&
    negb (Nat.eqb (length (g_row_roots g)) 0) &&
    Nat.eqb (length (g_row_proofs g)) (length (g_row_roots g)) &&
    rows_verify root (g_row_proofs g) (g_row_roots g).

  Fixpoint total_shares (ps : list (option sproof)) : Z :=
    match ps with
    | [] => 0
    | Some p :: ps' => (s_end p - s_start p) + total_shares ps'
    | None :: ps' => total_shares ps'
    end.

  Definition slice {X} (l : list X) (from n : nat) : list X := firstn n (skipn from l).

  (** the verification loop: proof i consumes the next [nr] subtree roots and is checked against row root i *)
  Fixpoint gloop (roots : list D) (w : Z) (cursor : nat) (ps : list (option sproof)) (rs : list D) : option nat :=
    match ps with
    | [] => Some cursor
    | None :: _ => None
    | Some p :: ps' =>
      match rs with
      | [] => None                                            (* RowRoots[i]: excluded by Validate *)
      | r :: rs' =>
        match leaf_ranges (s_start p) (s_end p) w with
        | None => None
        | Some nr =>
          if (length roots <? cursor + nr)%nat then None
          else match vsri (s_start p) (s_end p) (s_nodes p) (slice roots cursor nr) w r with
               | Some true => gloop roots w (cursor + nr) ps' rs'
               | _ => None
               end
        end
      end
    end.

  Definition verify_gen (g : gproof) (root : T) (com : C) : res :=
    if t_empty root then RErr
    else if c_empty com then RErr
    else if negb (gvalidate g) then RErr
    else if negb (c_eqb com (hfb (g_roots g))) then RErr
    else if negb (grow_validate g root) then RErr
    else match width_of (total_shares (g_sproofs g)) with
         | None => RErr
         | Some w =>
           match gloop (g_roots g) w 0 (g_sproofs g) (g_row_roots g) with
           | None => RErr
           | Some cursor => if negb (Nat.eqb cursor (length (g_roots g))) then RErr
                            else if rows_verify root (g_row_proofs g) (g_row_roots g) then ROk else RErr
           end
         end.

  (** the variant without [rp.Validate(dataRoot)] (see [cverify_norowcheck]) *)
  Definition verify_gen_norowcheck (g : gproof) (root : T) (com : C) : res :=
    if t_empty root then RErr
    else if c_empty com then RErr
    else if negb (gvalidate g) then RErr
    else if negb (c_eqb com (hfb (g_roots g))) then RErr
    else match width_of (total_shares (g_sproofs g)) with
         | None => RErr
         | Some w =>
           match gloop (g_roots g) w 0 (g_sproofs g) (g_row_roots g) with
           | None => RErr
           | Some cursor => if negb (Nat.eqb cursor (length (g_roots g))) then RErr
                            else if rows_verify root (g_row_proofs g) (g_row_roots g) then ROk else RErr
           end
         end.

  (** a proof from which every component was dropped, claiming rows [start_row .. end_row] *)
  Definition trimmed (start_row end_row : Z) : gproof := mkG [] [] [] [] start_row end_row.

  (** ** what the harness observes of a proof: structure + the primitives' answers along the cursor *)
  Fixpoint observe_srps (roots : list D) (w : option Z) (cursor : option nat) (ps : list (option sproof)) (rs : list D)
    : list (option srp) :=
    match ps with
    | [] => []
    | None :: ps' => None :: observe_srps roots w cursor ps' (tl rs)
    | Some p :: ps' =>
      match w with
      | None => Some (mkSRP (s_start p) (s_end p) None None) :: observe_srps roots w cursor ps' (tl rs)
      | Some wv =>
        match leaf_ranges (s_start p) (s_end p) wv with
        | None => Some (mkSRP (s_start p) (s_end p) None None) :: observe_srps roots w None ps' (tl rs)
        | Some nr =>
          let v := match cursor, rs with
                   | Some c, r :: _ => if (length roots <? c + nr)%nat then None
                                       else vsri (s_start p) (s_end p) (s_nodes p) (slice roots c nr) wv r
                   | _, _ => None
                   end in
          Some (mkSRP (s_start p) (s_end p) (Some nr) v)
            :: observe_srps roots w (match cursor with Some c => Some (c + nr)%nat | None => None end) ps' (tl rs)
        end
      end
    end.

  Fixpoint observe_rows (root : T) (ps : list (option MP)) (rs : list D) : list (option bool) :=
    match ps with
    | [] => []
    | None :: ps' => None :: observe_rows root ps' (tl rs)
    | Some p :: ps' => Some (match rs with r :: _ => if t_empty root then false else mverify p root r | [] => false end)
                         :: observe_rows root ps' (tl rs)
    end.

  Definition observe (g : gproof) (root : T) (com : C) : cproof :=
    let w := if existsb is_none (g_sproofs g) then None else width_of (total_shares (g_sproofs g)) in
    mkCP (length (g_roots g)) (observe_srps (g_roots g) w (Some 0%nat) (g_sproofs g) (g_row_roots g))
         (length (g_row_roots g)) (observe_rows root (g_row_proofs g) (g_row_roots g))
         (g_start_row g) (g_end_row g) (c_eqb com (hfb (g_roots g))) w (t_empty root) (c_empty com).
End Gen.

(** * Correspondence cases *)
Inductive ccase := CVerify (c : cproof) (obs : res).

Definition agree (c : ccase) : bool := match c with CVerify p o => res_eqb (cverify p) o end.

Fixpoint mism_from (n : N) (cs : list ccase) : list N :=
  match cs with
  | [] => []
  | c :: cs' => if agree c then mism_from (N.succ n) cs' else n :: mism_from (N.succ n) cs'
  end.
Definition mismatches (cs : list ccase) : list N := mism_from 0%N cs.

(** C20 — executable model of the header feed that the node wires into the blob service, and of the composition
    feed -> blob.Service.Subscribe.  No proofs here (see FeedProofs.v).

    The feed is the method Subscribe of Service in nodebuilder/header/service.go; nodebuilder/blob/module.go passes it to
    blob.NewService as [headerSub], and blob.Service.Subscribe calls it with the SUBSCRIBER'S context.  It is one
    goroutine, the forwarder:

        subscription := s.sub.Subscribe();  headerCh := make(chan *ExtendedHeader)        -- unbuffered
        for { h, err := subscription.NextHeader(ctx);  if err != nil { return }
              select { case <-ctx.Done(): return;  case headerCh <- h: } }                 -- blocking send
        deferred: subscription.Cancel(); close(headerCh)

    modelled at select/channel granularity.  The source subscription is a queue of ready items (what pubsub has validated
    and not yet handed out): headers, or an error.  [FNext] is NextHeader returning the oldest ready item; [FRecv] is the
    rendezvous on the unbuffered channel (the forwarder's send case together with the receiver's receive); [FTick] is a
    cancelled context being noticed (NextHeader returning the context's error, or the Done case of the select). *)
From Coq Require Import List ZArith Bool.
From CN Require Import Blob.Subscribe.
Import ListNotations.
Open Scope Z_scope.

Inductive src_item :=
| SHdr (h : hdr)      (* a validated header, ready to be returned by NextHeader *)
| SErr.               (* the subscription fails: NextHeader returns an error *)

Inductive fpc :=
| FWait               (* inside subscription.NextHeader(ctx) *)
| FHold (h : hdr)     (* NextHeader returned h: inside select { ctx.Done | headerCh <- h } *)
| FClosed.            (* returned: subscription cancelled, headerCh closed *)

Record fstate := mkF {
  f_pc : fpc;
  f_src : list src_item;   (* ready in the source subscription, oldest first *)
  f_cancel : bool;         (* the context given to Subscribe is cancelled *)
  f_err : bool;            (* ghost: NextHeader returned an error of the source *)
  f_pub : list hdr;        (* ghost: headers the source made ready, in order *)
  f_taken : list hdr;      (* ghost: headers NextHeader returned to the forwarder, in order *)
  f_sent : list hdr        (* ghost: headers the forwarder sent on headerCh (= received by the reader), in order *)
}.

Inductive fevent :=
| FPublish (h : hdr)  (* the source has a new header ready *)
| FPublishErr         (* the source subscription breaks (after what is already ready) *)
| FNext               (* NextHeader returns the oldest ready item *)
| FRecv               (* the send case of the select is taken: the reader receives the header in hand *)
| FTick               (* the cancelled context is noticed *)
| FCancel.            (* the context is cancelled *)

Definition fset_pc (f : fstate) (p : fpc) : fstate :=
  mkF p (f_src f) (f_cancel f) (f_err f) (f_pub f) (f_taken f) (f_sent f).

Definition fstep (f : fstate) (e : fevent) : fstate :=
  match e with
  | FPublish h => mkF (f_pc f) (f_src f ++ [SHdr h]) (f_cancel f) (f_err f) (f_pub f ++ [h]) (f_taken f) (f_sent f)
  | FPublishErr => mkF (f_pc f) (f_src f ++ [SErr]) (f_cancel f) (f_err f) (f_pub f) (f_taken f) (f_sent f)
  | FNext =>
    match f_pc f, f_src f with
    | FWait, SHdr h :: r => mkF (FHold h) r (f_cancel f) (f_err f) (f_pub f) (f_taken f ++ [h]) (f_sent f)
    | FWait, SErr :: r => mkF FClosed r (f_cancel f) true (f_pub f) (f_taken f) (f_sent f)
    | _, _ => f
    end
  | FRecv =>
    match f_pc f with
    | FHold h => mkF FWait (f_src f) (f_cancel f) (f_err f) (f_pub f) (f_taken f) (f_sent f ++ [h])
    | _ => f
    end
  | FTick =>
    match f_pc f with
    | FClosed => f
    | _ => if f_cancel f then fset_pc f FClosed else f
    end
  | FCancel => mkF (f_pc f) (f_src f) true (f_err f) (f_pub f) (f_taken f) (f_sent f)
  end.

Definition finit : fstate := mkF FWait [] false false [] [] [].

Definition is_fclosed (f : fstate) : bool := match f_pc f with FClosed => true | _ => false end.

(** the headers among the ready items *)
Fixpoint hdrs (l : list src_item) : list hdr :=
  match l with
  | [] => []
  | SHdr h :: r => h :: hdrs r
  | SErr :: r => hdrs r
  end.

(** the header in the forwarder's hand *)
Definition in_hand (f : fstate) : list hdr := match f_pc f with FHold h => [h] | _ => [] end.

(** * The composition: the feed's reader is the producer goroutine of blob.Service.Subscribe (Blob/Subscribe.v).
      Both run under the same (subscriber's) context; the closing of headerCh is the blob producer's [FeedClose];
      the rendezvous on headerCh is the feed's [FRecv] together with the producer's [Header h], possible only while
      the producer is in its outer select. *)
Record cstate := mkC { c_feed : fstate; c_blob : state }.

Inductive cevent :=
| Publish (h : hdr)
| PublishErr
| Next
| FeedTick
| Handoff            (* forwarder FHold h, producer Idle: h goes from the one to the other *)
| CancelCtx          (* the subscriber cancels: the one context of both goroutines *)
| B (e : event).     (* a step of the producer / consumer / service: GetAllFail, GetAllOk, Send, Tick, Consume, StopService *)

(** the deferred close(headerCh) of the forwarder is what the producer sees as FeedClose *)
Definition close_sync (fixed : bool) (f' : fstate) (b : state) : state :=
  if is_fclosed f' then step fixed b FeedClose else b.

Definition cstep (fixed : bool) (c : cstate) (e : cevent) : cstate :=
  let f := c_feed c in
  let b := c_blob c in
  match e with
  | Publish h => mkC (fstep f (FPublish h)) b
  | PublishErr => mkC (fstep f FPublishErr) b
  | Next => let f' := fstep f FNext in mkC f' (close_sync fixed f' b)
  | FeedTick => let f' := fstep f FTick in mkC f' (close_sync fixed f' b)
  | Handoff =>
    match f_pc f, s_pc b with
    | FHold h, Idle => mkC (fstep f FRecv) (step fixed b (Header h))
    | _, _ => c
    end
  | CancelCtx => mkC (fstep f FCancel) (step fixed b Cancel)
  | B e' =>
    match e' with
    | Header _ | FeedClose | Cancel => c          (* these reach the producer only through the feed / the shared context *)
    | _ => mkC f (step fixed b e')
    end
  end.

Definition cinit : cstate := mkC finit init.

(** the header the producer is working on *)
Definition in_work (b : state) : list hdr :=
  match s_pc b with Retry h | Sending h => [h] | _ => [] end.

(** * Correspondence cases *)
(** feed alone (the harness is the reader of headerCh): events, after some of them the observed number of headers
    NextHeader has handed out; everything the reader received; whether the channel ended closed *)
Definition feed_case : Type := (list (fevent * option nat) * list hdr * bool)%type.

Fixpoint freplay (f : fstate) (es : list (fevent * option nat)) : option fstate :=
  match es with
  | [] => Some f
  | (e, o) :: r =>
    let f' := fstep f e in
    match o with
    | Some n => if Nat.eqb (length (f_taken f')) n then freplay f' r else None
    | None => freplay f' r
    end
  end.

Definition feed_agree (x : feed_case) : bool :=
  let '(es, got, closed) := x in
  match freplay finit es with
  | Some f => list_eqb hdr_eqb (f_sent f) got && Bool.eqb (is_fclosed f) closed
  | None => false
  end.

(** compact form in which the harness writes the feed-alone cases (one number per event keeps the case files small):
    event = kind + 8 * height + 1024 * o, kind 0 FPublish (height, []) | 1 FPublishErr | 2 FNext | 3 FRecv | 4 FTick | 5 FCancel,
    o = 0 no observation, o = n + 1 observed n headers handed out; received headers as their heights *)
Definition feed_case_z : Type := (list Z * list Z * bool)%type.

Definition fdecode (z : Z) : fevent * option nat :=
  let k := z mod 8 in
  let h := (z / 8) mod 128 in
  let o := z / 1024 in
  ((if k =? 0 then FPublish (h, []) else if k =? 1 then FPublishErr else if k =? 2 then FNext
    else if k =? 3 then FRecv else if k =? 4 then FTick else FCancel),
   if o =? 0 then None else Some (Z.to_nat (o - 1))).

Definition feed_case_of_z (x : feed_case_z) : feed_case :=
  let '(es, got, closed) := x in (map fdecode es, map (fun h => (h, [])) got, closed).

Fixpoint fmism_from (n : N) (cs : list feed_case) : list N :=
  match cs with
  | [] => []
  | x :: r => if feed_agree x then fmism_from (N.succ n) r else n :: fmism_from (N.succ n) r
  end.
Definition feed_mismatches (cs : list feed_case) : list N := fmism_from 0%N cs.
Definition feed_mismatches_z (cs : list feed_case_z) : list N := feed_mismatches (map feed_case_of_z cs).

(** composition (real feed wired into the real blob service): per subscription its events, after some of them the
    observed (length of the response channel, number of headers NextHeader has handed out); the responses received;
    whether the response channel ended closed; whether the feed ended closed.  One case = the subscriptions of one service. *)
Definition comp_sub : Type := (list (cevent * option (nat * nat)) * list hdr * bool * bool)%type.
Definition comp_case : Type := list comp_sub.

Fixpoint creplay (c : cstate) (es : list (cevent * option (nat * nat))) : option cstate :=
  match es with
  | [] => Some c
  | (e, o) :: r =>
    let c' := cstep true c e in
    match o with
    | Some (q, n) =>
      if Nat.eqb (length (s_queue (c_blob c'))) q && Nat.eqb (length (f_taken (c_feed c'))) n then creplay c' r else None
    | None => creplay c' r
    end
  end.

Definition comp_sub_agree (x : comp_sub) : bool :=
  let '(es, got, closed, fclosed) := x in
  match creplay cinit es with
  | Some c => list_eqb hdr_eqb (s_emit (c_blob c)) got && Bool.eqb (is_closed (c_blob c)) closed
              && Bool.eqb (is_fclosed (c_feed c)) fclosed
  | None => false
  end.
Definition comp_agree (x : comp_case) : bool := forallb comp_sub_agree x.

Fixpoint cmism_from (n : N) (cs : list comp_case) : list N :=
  match cs with
  | [] => []
  | x :: r => if comp_agree x then cmism_from (N.succ n) r else n :: cmism_from (N.succ n) r
  end.
Definition comp_mismatches (cs : list comp_case) : list N := cmism_from 0%N cs.

//go:build verif

package das

import (
	"fmt"
	"strings"
	"testing"
	"time"

	zv "github.com/celestiaorg/celestia-node/zzverif"
)

var c04Tables = [][]int64{{1, 4, 16, 64}, {1, 4, 16, 64}, {2}, {1, 1}, {3, 5}, {1, 2, 3}}

func c04NewWorld(r *zv.Run, h c04Hist) *c04World {
	return &c04World{r: r, hist: h, store: &c04Store{tail: 1, head: 1}, lo: 1,
		sampled: map[uint64]bool{}, vafter: map[uint64]int64{}, seenAft: map[uint64]time.Time{}, att: map[uint64]int{}}
}

// next intent, chosen from what the implementation can do right now
func (w *c04World) gen(rng *zv.Rand) c04Intent {
	perm := rng.U64()
	all := rng.Chance(20)
	if w.life == nil {
		switch {
		case rng.Chance(8):
			return c04Intent{Op: "tick", D: int64(1 + rng.Intn(5))}
		case rng.Chance(3):
			return c04Intent{Op: "crash"}
		}
		tail := w.lo
		switch {
		case rng.Chance(15):
			tail = w.lo + uint64(1+rng.Intn(3))
		case rng.Chance(8) && w.lo > 1:
			tail = w.lo - 1
		}
		hd := w.maxHead
		if rng.Chance(35) {
			hd += uint64(1 + rng.Intn(4))
		}
		if rng.Chance(5) && hd > 2 {
			hd -= 2 // a store that lags behind what was announced is not a store: Start sees at least maxHead
		}
		return c04Intent{Op: "restart", Tail: tail, Hd: hd, Perm: perm, All: all}
	}
	l := w.life
	var running, finished []*c04W
	for _, x := range w.sortedWorkers() {
		if x.finished {
			finished = append(finished, x)
		} else {
			running = append(running, x)
		}
	}
	head := l.sc.state.networkHead
	for try := 0; try < 20; try++ {
		k := rng.Intn(100)
		switch {
		case k < 17:
			var h uint64
			switch j := rng.Intn(100); {
			case j < 58:
				h = head + 1
			case j < 75:
				h = head + uint64(2+rng.Intn(3))
			case j < 85:
				h = head
			case j < 95:
				h = uint64(1 + rng.Intn(int(head)+1))
			default:
				h = head + 10
			}
			return c04Intent{Op: "head", H: h, Perm: perm, All: all}
		case k < 58:
			if len(running) == 0 {
				continue
			}
			x := running[rng.Intn(len(running))]
			out := "ok"
			switch j := rng.Intn(100); {
			case j < 52:
			case j < 78:
				out = "fail"
			case j < 85:
				out = "outside"
			default:
				out = "cancel"
			}
			return c04Intent{Op: "step", W: w.keyOf(x), Out: out, Err: rng.Intn(6)}
		case k < 78:
			if len(finished) == 0 {
				continue
			}
			return c04Intent{Op: "deliver", W: w.keyOf(finished[rng.Intn(len(finished))]), Perm: perm, All: all}
		case k < 81:
			return c04Intent{Op: "wake", Perm: perm, All: all}
		case k < 87:
			return c04Intent{Op: "cp", Perm: perm, All: all}
		case k < 93:
			d := int64(1)
			t := w.hist.Table
			switch j := rng.Intn(4); j {
			case 0:
				d = t[rng.Intn(len(t))]
			case 1:
				d = t[rng.Intn(len(t))] + 1
			case 2:
				d = 100
			}
			return c04Intent{Op: "tick", D: d, Perm: perm, All: all}
		case k < 97:
			return c04Intent{Op: "stop"}
		default:
			return c04Intent{Op: "crash"}
		}
	}
	return c04Intent{Op: "wake", Perm: perm, All: all}
}

func (w *c04World) cfgTerm() string {
	t := make([]string, len(w.hist.Table))
	for i, k := range w.hist.Table {
		t[i] = c04Z(k)
	}
	return zv.App("mkCfg", c04Z(int64(w.hist.Range)), c04Z(int64(w.hist.Limit)), zv.List(t), "repaired")
}

func TestVerifC04(t *testing.T) { c04Main(t, "C04") }

func c04Main(t *testing.T, id string) {
	r := zv.Start(t, id)
	defer r.Finish()
	const perGroup = 50
	totalEv := 0
	var g, gf *zv.Group
	ng := 0
	type caseJS struct {
		c04Hist
		Observed []*c04Obs `json:"observed"`
	}
	record := func(w *c04World, aborted string) {
		grp := &g
		if w.full {
			grp = &gf
		}
		if *grp == nil || (*grp).Len() >= perGroup {
			name := fmt.Sprintf("hist%d", ng)
			if w.full {
				name = fmt.Sprintf("full%d", ng)
			}
			if w.full {
				*grp = r.Group(name, c04Header, "case", "mismatches")
			} else {
				*grp = r.Group(name, c04Header, "fcase", "fmismatches")
			}
			ng++
		}
		key := ""
		if w.restarts >= 2 && w.inflCp {
			key = "restart+inflight"
		}
		js := caseJS{c04Hist{Range: w.hist.Range, Limit: w.hist.Limit, Table: w.hist.Table, Events: w.done, Final: w.hist.Final}, w.seen}
		if w.full {
			(*grp).Case(zv.Tuple(w.cfgTerm(), "[\n    "+strings.Join(w.terms, ";\n    ")+"]"), js, key)
		} else {
			(*grp).Case(zv.Tuple(w.cfgTerm(), "["+strings.Join(w.terms, ";")+"]"), js, key)
		}
		r.Count("history_len", c04Bucket(w.nev))
		r.Set("events_total", totalEv+w.nev)
		totalEv += w.nev
		r.Count("restarts", fmt.Sprint(w.restarts-1))
		r.Count("limit", fmt.Sprint(w.hist.Limit))
		r.Count("range", fmt.Sprint(w.hist.Range))
		if aborted != "" && !w.viol {
			r.Count("aborted", aborted)
			w.violation("harness-abort", "the harness could not follow the implementation: "+aborted)
		}
	}

	var rep c04Hist
	if r.ReplayInput(&rep) {
		w := c04NewWorld(r, rep)
		w.full = true
		record(w, w.run(rep))
		return
	}
	for _, h := range c04Directed() {
		w := c04NewWorld(r, h)
		w.full = true
		record(w, w.run(h))
	}
	root := r.Rand()
	n := r.N(300, 30000)
	for i := 0; i < n; i++ {
		rng := root.Fork(uint64(i))
		h := c04Hist{Range: uint64(1 + rng.Intn(4)), Limit: 1 + rng.Intn(3), Table: c04Tables[rng.Intn(len(c04Tables))], Final: true}
		if rng.Chance(10) {
			h.Limit = 4
		}
		w := c04NewWorld(r, h)
		w.full = i < 10
		length := 15 + rng.Intn(60)
		aborted := func() (ab string) {
			defer func() {
				if e := recover(); e != nil {
					if a, ok := e.(c04Abort); ok {
						ab = a.why
					} else {
						ab = fmt.Sprint("panic: ", e)
						w.violation("panic", ab)
					}
				}
				if w.life != nil {
					func() {
						defer func() { _ = recover() }()
						w.kill()
					}()
				}
			}()
			tail := uint64(1 + rng.Intn(3))
			w.exec(c04Intent{Op: "restart", Tail: tail, Hd: tail + uint64(rng.Intn(12)), Perm: rng.U64()})
			for k := 0; k < length && !w.viol; k++ {
				w.exec(w.gen(rng))
			}
			if !w.viol {
				w.finalPhase()
			}
			return ""
		}()
		record(w, aborted)
	}
}

// directed histories: the schedules named in DESIGN.md section 6 and a few neighbours
func c04Directed() []c04Hist {
	tb := []int64{1, 4, 16, 64}
	k := func(ty string, from, to uint64) *c04Key { return &c04Key{Ty: ty, From: from, To: to} }
	ok := func(ty string, from, to uint64) c04Intent {
		return c04Intent{Op: "step", W: k(ty, from, to), Out: "ok"}
	}
	fail := func(ty string, from, to uint64) c04Intent {
		return c04Intent{Op: "step", W: k(ty, from, to), Out: "fail"}
	}
	del := func(ty string, from, to uint64) c04Intent { return c04Intent{Op: "deliver", W: k(ty, from, to)} }
	var out []c04Hist
	// (a) catch-up done to 3, head 4 in flight, stop, restart
	out = append(out, c04Hist{Range: 10, Limit: 1, Table: tb, Final: true, Events: []c04Intent{
		{Op: "restart", Tail: 1, Hd: 3}, ok("catchup", 1, 3), ok("catchup", 1, 3), ok("catchup", 1, 3), del("catchup", 1, 3),
		{Op: "head", H: 4}, {Op: "stop"}, {Op: "restart", Tail: 1, Hd: 4}}})
	// (a') the same with a background checkpoint and a crash
	out = append(out, c04Hist{Range: 10, Limit: 1, Table: tb, Final: true, Events: []c04Intent{
		{Op: "restart", Tail: 1, Hd: 2}, ok("catchup", 1, 2), ok("catchup", 1, 2), del("catchup", 1, 2),
		{Op: "head", H: 3}, {Op: "cp"}, {Op: "crash"}, {Op: "restart", Tail: 1, Hd: 3}}})
	// (b) restart with nothing to do
	out = append(out, c04Hist{Range: 10, Limit: 1, Table: tb, Final: true, Events: []c04Intent{
		{Op: "restart", Tail: 1, Hd: 2}, ok("catchup", 1, 2), ok("catchup", 1, 2), del("catchup", 1, 2),
		{Op: "stop"}, {Op: "restart", Tail: 1, Hd: 2}}})
	// (c) a Canceled error from the sampler while the DASer runs
	out = append(out, c04Hist{Range: 5, Limit: 1, Table: tb, Final: true, Events: []c04Intent{
		{Op: "restart", Tail: 1, Hd: 8}, ok("catchup", 1, 5), ok("catchup", 1, 5),
		{Op: "step", W: k("catchup", 1, 5), Out: "cancel", Err: 1}}})
	// (d) recent job fails (count 1), retry fails (count 2), catch-up reaches the height and fails: count must not restart
	out = append(out, c04Hist{Range: 2, Limit: 1, Table: tb, Final: true, Events: []c04Intent{
		{Op: "restart", Tail: 1, Hd: 1}, {Op: "head", H: 4}, fail("recent", 4, 4), del("recent", 4, 4),
		{Op: "tick", D: 2}, ok("catchup", 1, 1), del("catchup", 1, 1), fail("retry", 4, 4), del("retry", 4, 4),
		ok("catchup", 2, 3), ok("catchup", 2, 3), del("catchup", 2, 3), fail("catchup", 4, 4), del("catchup", 4, 4)}})
	// restart while a worker has a failure at its current height: retry and resumed catch-up job overlap
	out = append(out, c04Hist{Range: 4, Limit: 2, Table: tb, Final: true, Events: []c04Intent{
		{Op: "restart", Tail: 1, Hd: 4}, ok("catchup", 1, 4), fail("catchup", 1, 4), {Op: "stop"},
		{Op: "restart", Tail: 1, Hd: 4}, fail("retry", 2, 2), fail("catchup", 2, 4), del("retry", 2, 2),
		ok("catchup", 2, 4), ok("catchup", 2, 4), del("catchup", 2, 4)}})
	return out
}

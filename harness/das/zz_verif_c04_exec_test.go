//go:build verif

package das

import (
	"context"
	"encoding/json"
	"errors"
	"fmt"
	"sort"
	"strings"
	"time"

	"github.com/celestiaorg/celestia-node/share"
	"github.com/celestiaorg/celestia-node/share/availability"
	zv "github.com/celestiaorg/celestia-node/zzverif"
)

// ---------------------------------------------------------------- Coq terms

func c04Ty(t jobType) string {
	switch t {
	case catchupJob:
		return "Catchup"
	case recentJob:
		return "Recent"
	case retryJob:
		return "Retry"
	}
	return "Catchup (* unknown job type " + string(t) + " *)"
}

func c04Z(x int64) string {
	if x < 0 {
		return fmt.Sprintf("(%d)", x)
	}
	return fmt.Sprint(x)
}

func c04ZList(xs []uint64) string {
	s := make([]string, len(xs))
	for i, x := range xs {
		s[i] = c04Z(int64(x))
	}
	return zv.List(s)
}

type c04KV struct{ K, V int64 }

func c04SortedMap(m map[uint64]int) []c04KV {
	out := make([]c04KV, 0, len(m))
	for k, v := range m {
		out = append(out, c04KV{int64(k), int64(v)})
	}
	sort.Slice(out, func(i, j int) bool { return out[i].K < out[j].K })
	return out
}

type c04CpW struct {
	Ty       jobType
	From, To int64
}

type c04Cp struct {
	From, Head int64
	Failed     []c04KV
	Workers    []c04CpW
	Bad        bool
}

func c04CpOf(c checkpoint) *c04Cp {
	out := &c04Cp{From: int64(c.SampleFrom), Head: int64(c.NetworkHead), Failed: c04SortedMap(c.Failed)}
	for _, x := range c.Workers {
		out.Workers = append(out.Workers, c04CpW{x.JobType, int64(x.From), int64(x.To)})
	}
	sort.SliceStable(out.Workers, func(i, j int) bool {
		a, b := out.Workers[i], out.Workers[j]
		if a.From != b.From {
			return a.From < b.From
		}
		if a.To != b.To {
			return a.To < b.To
		}
		return c04Rank(a.Ty) < c04Rank(b.Ty)
	})
	return out
}

type c04Att struct {
	H, N int64
	Due  bool
	T    int64
}

type c04WObs struct {
	ID       int64
	Ty       jobType
	From, To int64
	Curr     int64
	Failed   []int64
	Fin      bool
}

// what the implementation shows, in canonical order
type c04Obs struct {
	Running       bool
	SCH, CUH, NH  int64
	Failed        []c04KV
	Att           []c04Att
	InRetry       []c04KV
	Workers       []c04WObs
	Done          bool
	CpNow         *c04Cp
	Persisted     *c04Cp
}

func c04KVTerm(m []c04KV) string {
	s := make([]string, len(m))
	for i, kv := range m {
		s[i] = zv.Tuple(c04Z(kv.K), c04Z(kv.V))
	}
	return zv.List(s)
}

func (c *c04Cp) term() string {
	if c.Bad {
		return "(mkCp (-1) (-1) [] [])"
	}
	ws := make([]string, len(c.Workers))
	for i, x := range c.Workers {
		ws[i] = zv.App("mkCpw", c04Ty(x.Ty), c04Z(x.From), c04Z(x.To))
	}
	return zv.App("mkCp", c04Z(c.From), c04Z(c.Head), c04KVTerm(c.Failed), zv.List(ws))
}

func (c *c04Cp) ser(out []int64) []int64 {
	if c.Bad {
		return append(out, -1, -1, 0, 0)
	}
	out = append(out, c.From, c.Head, int64(len(c.Failed)))
	for _, kv := range c.Failed {
		out = append(out, kv.K, kv.V)
	}
	out = append(out, int64(len(c.Workers)))
	for _, x := range c.Workers {
		out = append(out, int64(c04Rank(x.Ty)), x.From, x.To)
	}
	return out
}

func c04B(b bool) int64 {
	if b {
		return 1
	}
	return 0
}

func (o *c04Obs) ser() []int64 {
	out := []int64{c04B(o.Running)}
	if o.Running {
		out = append(out, o.SCH, o.CUH, o.NH, int64(len(o.Failed)))
		for _, kv := range o.Failed {
			out = append(out, kv.K, kv.V)
		}
		out = append(out, int64(len(o.Att)))
		for _, a := range o.Att {
			out = append(out, a.H, a.N, c04B(a.Due), a.T)
		}
		out = append(out, int64(len(o.InRetry)))
		for _, kv := range o.InRetry {
			out = append(out, kv.K, kv.V)
		}
		out = append(out, int64(len(o.Workers)))
		for _, x := range o.Workers {
			out = append(out, x.ID, int64(c04Rank(x.Ty)), x.From, x.To, x.Curr, int64(len(x.Failed)))
			out = append(out, x.Failed...)
			out = append(out, c04B(x.Fin))
		}
		out = append(out, c04B(o.Done))
		out = o.CpNow.ser(out)
	}
	if o.Persisted == nil {
		return append(out, 0)
	}
	return o.Persisted.ser(append(out, 1))
}

const c04HashMask = uint64(1)<<31 - 1

func c04Hash(xs []int64) uint64 {
	acc := uint64(7)
	for _, x := range xs {
		acc = (acc*1000003 + uint64(x+4294967296)) & c04HashMask
	}
	return acc
}

func (o *c04Obs) term() string {
	pt := zv.None
	if o.Persisted != nil {
		pt = zv.Some(o.Persisted.term())
	}
	if !o.Running {
		return zv.App("mkObs", "false", "0", "0", "0", "[]", "[]", "[]", "[]", "false", "(mkCp 0 0 [] [])", pt)
	}
	att := make([]string, len(o.Att))
	for i, a := range o.Att {
		att[i] = zv.Tuple(c04Z(a.H), c04Z(a.N), zv.Bool(a.Due), c04Z(a.T))
	}
	ws := make([]string, len(o.Workers))
	for i, x := range o.Workers {
		fk := make([]string, len(x.Failed))
		for j, h := range x.Failed {
			fk[j] = c04Z(h)
		}
		ws[i] = zv.Tuple(c04Z(x.ID), c04Ty(x.Ty), c04Z(x.From), c04Z(x.To), c04Z(x.Curr), zv.List(fk), zv.Bool(x.Fin))
	}
	return zv.App("mkObs", "true", c04Z(o.SCH), c04Z(o.CUH), c04Z(o.NH), c04KVTerm(o.Failed), zv.List(att), c04KVTerm(o.InRetry),
		zv.List(ws), zv.Bool(o.Done), o.CpNow.term(), pt)
}

func c04Disk(b []byte) (*c04Cp, *checkpoint) {
	if b == nil {
		return nil, nil
	}
	var c checkpoint
	if err := json.Unmarshal(b, &c); err != nil {
		return &c04Cp{Bad: true}, nil
	}
	return c04CpOf(c), &c
}

type c04Seen struct {
	running bool
	stats   SamplingStats
	cp      checkpoint
	disk    *checkpoint
	failed  map[uint64]retryAttempt
	inRetry map[uint64]retryAttempt
}

// observe reads the implementation (the coordinator is held, or the instance is gone)
func (w *c04World) observe() (*c04Obs, c04Seen) {
	if w.life == nil {
		dc, raw := c04Disk(w.disk)
		return &c04Obs{Persisted: dc}, c04Seen{disk: raw}
	}
	l := w.life
	w.syncClock()
	st := l.sc.state.unsafeStats()
	cp := newCheckpoint(st)
	dc, raw := c04Disk(w.readDisk(l))
	o := &c04Obs{Running: true, SCH: int64(st.SampledChainHead), CUH: int64(st.CatchupHead), NH: int64(st.NetworkHead),
		Failed: c04SortedMap(st.Failed), Done: st.CatchUpDone, CpNow: c04CpOf(cp), Persisted: dc}
	now := time.Now()
	for h, a := range l.sc.state.failed {
		due := a.after.Before(now)
		t := int64(0)
		if !due {
			t = w.vafter[h]
		}
		o.Att = append(o.Att, c04Att{int64(h), int64(a.count), due, t})
	}
	sort.Slice(o.Att, func(i, j int) bool { return o.Att[i].H < o.Att[j].H })
	rc := map[uint64]int{}
	for h, a := range l.sc.state.inRetry {
		rc[h] = a.count
	}
	o.InRetry = c04SortedMap(rc)
	xs := w.sortedWorkers()
	sort.Slice(xs, func(i, j int) bool { return xs[i].mid < xs[j].mid })
	for _, x := range xs {
		get, ok := l.sc.state.inProgress[x.id]
		if !ok {
			continue
		}
		s := get()
		wo := c04WObs{ID: int64(x.mid), Ty: s.jobType, From: int64(s.from), To: int64(s.to), Curr: int64(s.curr), Fin: x.finished}
		for h := range s.failed {
			wo.Failed = append(wo.Failed, int64(h))
		}
		sort.Slice(wo.Failed, func(i, j int) bool { return wo.Failed[i] < wo.Failed[j] })
		o.Workers = append(o.Workers, wo)
	}
	seen := c04Seen{running: true, stats: st, cp: cp, disk: raw, failed: map[uint64]retryAttempt{}, inRetry: map[uint64]retryAttempt{}}
	for h, a := range l.sc.state.failed {
		seen.failed[h] = a
	}
	for h, a := range l.sc.state.inRetry {
		seen.inRetry[h] = a
	}
	return o, seen
}

// ---------------------------------------------------------------- L3 oracles on the implementation

func (w *c04World) cpCovers(c *checkpoint, upto uint64, what string) {
	for h := w.lo; h <= upto; h++ {
		if w.sampled[h] || h >= c.SampleFrom {
			continue
		}
		if _, ok := c.Failed[h]; ok {
			continue
		}
		in := false
		for _, x := range c.Workers {
			if x.From <= h && h <= x.To {
				in = true
			}
		}
		if in {
			continue
		}
		kind := ""
		if w.life != nil {
			for _, x := range w.life.ws {
				if x.from <= h && h <= x.to && h >= x.next {
					kind = "-of-inflight-" + string(x.ty) + "-job"
				}
			}
		}
		w.violation("checkpoint-drops-height"+kind,
			fmt.Sprintf("%s {SampleFrom %d, NetworkHead %d, Failed %v, Workers %v} does not cover height %d, which no sampler call has succeeded for: a restart from it never samples %d",
				what, c.SampleFrom, c.NetworkHead, c.Failed, c.Workers, h, h))
		return
	}
}

type c04Ctx2 struct {
	op        string
	delivered *c04W // the worker whose result was delivered by this event
}

func (w *c04World) oracles(seen c04Seen, cx c04Ctx2) {
	if seen.disk != nil {
		w.cpCovers(seen.disk, w.maxHead, "the persisted checkpoint")
	}
	if !seen.running {
		return
	}
	st := seen.stats
	lim := w.hist.Limit
	// every height is sampled, in flight, queued or failed
	for h := w.lo; h <= st.NetworkHead; h++ {
		if w.sampled[h] || h > st.CatchupHead {
			continue
		}
		if _, ok := st.Failed[h]; ok {
			continue
		}
		in := false
		for _, x := range st.Workers {
			if x.From <= h && h <= x.To {
				in = true
			}
		}
		if !in {
			w.violation("height-lost", fmt.Sprintf("height %d (start %d, network head %d) was never sampled successfully and is neither in flight, queued (catch-up head %d) nor failed %v",
				h, w.lo, st.NetworkHead, st.CatchupHead, st.Failed))
			break
		}
	}
	for h := w.lo; h <= st.SampledChainHead && h <= st.NetworkHead; h++ {
		if !w.sampled[h] {
			w.violation("sampled-head-above-unsampled", fmt.Sprintf("SampledChainHead %d but height %d has not been sampled", st.SampledChainHead, h))
			break
		}
	}
	w.cpCovers(&seen.cp, st.NetworkHead, "the checkpoint that would be written now")
	// bounds
	nonRecent := 0
	for _, x := range st.Workers {
		if x.JobType != recentJob {
			nonRecent++
		}
	}
	if nonRecent > lim || len(st.Workers) > 2*lim || st.Concurrency != len(st.Workers) {
		w.violation("concurrency-limit", fmt.Sprintf("limit %d: %d catch-up/retry workers, %d workers in total (Concurrency %d)", lim, nonRecent, len(st.Workers), st.Concurrency))
	}
	// done exactly when nothing is queued, in flight or failed
	want := len(st.Workers) == 0 && len(st.Failed) == 0 && st.CatchupHead >= st.NetworkHead
	if st.CatchUpDone != want {
		w.violation("catchupdone-wrong:after-"+cx.op, fmt.Sprintf("CatchUpDone=%v with %d workers, failed %v, catch-up head %d, network head %d",
			st.CatchUpDone, len(st.Workers), st.Failed, st.CatchupHead, st.NetworkHead))
	}
	// attempt counts never decrease unless a success for the height was reported
	cur := map[uint64]int{}
	for h, a := range seen.failed {
		cur[h] = a.count
	}
	for h, a := range seen.inRetry {
		if a.count > cur[h] {
			cur[h] = a.count
		}
	}
	if cx.op != "restart" {
		for h, old := range w.att {
			if cur[h] >= old {
				continue
			}
			okd := false
			if d := cx.delivered; d != nil && d.from <= h && h <= d.to {
				if _, f := d.res.failed[h]; !f {
					okd = true
				}
			}
			if !okd {
				w.violation("attempt-count-decreased", fmt.Sprintf("height %d: attempt count went from %d to %d although no successful sample of it was reported", h, old, cur[h]))
				break
			}
		}
	}
	w.att = cur
	// every job in the harness's books is still known to the coordinator (a job ends only by reporting)
	for id, x := range w.life.ws {
		if _, ok := w.life.sc.state.inProgress[id]; !ok {
			w.violation("job-vanished", fmt.Sprintf("%s job [%d,%d] left the coordinator without a delivered result", x.ty, x.from, x.to))
		}
	}
}

// ---------------------------------------------------------------- executing one intent on the implementation

var errC04Sample = errors.New("verif: scripted sampling failure")

func c04Err(out string, k int) error {
	switch out {
	case "ok":
		return nil
	case "outside":
		if k%2 == 1 {
			return fmt.Errorf("light availability: %w", availability.ErrOutsideSamplingWindow)
		}
		return availability.ErrOutsideSamplingWindow
	case "cancel":
		if k%2 == 1 {
			return fmt.Errorf("getter: peer request: %w", context.Canceled)
		}
		return context.Canceled
	}
	switch k % 3 {
	case 1:
		return context.DeadlineExceeded
	case 2:
		return share.ErrNotAvailable
	}
	return errC04Sample
}

func c04Out(out string) string {
	switch out {
	case "ok":
		return "Ok"
	case "outside":
		return "Outside"
	case "cancel":
		return "Cancel"
	}
	return "Fail"
}

// a model event
type c04Ev struct {
	op    string // NewHead | Deliver | Wake | Checkpoint | Step | Tick | Stop | Crash | Restart
	a, b  int64
	out   string
	picks []uint64
}

func (e c04Ev) term() string {
	switch e.op {
	case "NewHead", "Deliver":
		return zv.App(e.op, c04Z(e.a), c04ZList(e.picks))
	case "Wake", "Checkpoint":
		return zv.App(e.op, c04ZList(e.picks))
	case "Step":
		return zv.App("Step", c04Z(e.a), c04Out(e.out))
	case "Tick":
		return zv.App("Tick", c04Z(e.a))
	case "Restart":
		return zv.App("Restart", c04Z(e.a), c04Z(e.b), c04ZList(e.picks))
	}
	return e.op
}

func (e c04Ev) flat() []int64 {
	pk := func(base int64, args ...int64) []int64 {
		if len(e.picks) == 0 {
			return append([]int64{base}, args...)
		}
		out := append([]int64{base + 1}, args...)
		out = append(out, int64(len(e.picks)))
		for _, p := range e.picks {
			out = append(out, int64(p))
		}
		return out
	}
	switch e.op {
	case "NewHead":
		return pk(10, e.a)
	case "Deliver":
		return pk(20, e.a)
	case "Wake":
		return pk(30)
	case "Checkpoint":
		return pk(40)
	case "Tick":
		return []int64{6, e.a}
	case "Stop":
		return []int64{7}
	case "Crash":
		return []int64{8}
	case "Restart":
		return pk(90, e.a, e.b)
	}
	o := map[string]int64{"ok": 0, "fail": 1, "outside": 2, "cancel": 3}[e.out]
	return []int64{100 + 4*e.a + o}
}

func (w *c04World) emit(ev c04Ev, it c04Intent, cx c04Ctx2) {
	o, seen := w.observe()
	if w.full {
		w.terms = append(w.terms, zv.Tuple(ev.term(), zv.App("OFull", o.term())))
	} else {
		for _, x := range append(ev.flat(), int64(c04Hash(o.ser()))) {
			w.terms = append(w.terms, c04Z(x))
		}
	}
	w.nev++
	w.seen = append(w.seen, o)
	w.done = append(w.done, it)
	w.r.Count("event", it.Op)
	if seen.running && (it.Op == "cp" || it.Op == "stop") && len(seen.stats.Workers) > 0 {
		w.inflCp = true
	}
	w.oracles(seen, cx)
}

// window releases the coordinator for exactly one pass through its loop body; of the due heights only `free` (chosen by
// prng) stay visible to the retry scan unless all is set, so that the random map order cannot change the outcome.
func (w *c04World) window(perm uint64, all bool, free int, body func()) []uint64 {
	return w.windowEx(perm, all, free, nil, body)
}

// gone: due heights the event itself takes out of the failed map (they must not be among the visible ones)
func (w *c04World) windowEx(perm uint64, all bool, free int, gone func(uint64) bool, body func()) []uint64 {
	due := w.dueHeights()
	if gone != nil {
		keep := due[:0]
		for _, h := range due {
			if !gone(h) {
				keep = append(keep, h)
			}
		}
		due = keep
	}
	var hidden []uint64
	far := time.Now().Add(100000 * time.Hour)
	if !all && len(due) > free {
		prng := zv.NewRand(perm)
		for i := len(due) - 1; i > 0; i-- {
			j := prng.Intn(i + 1)
			due[i], due[j] = due[j], due[i]
		}
		if free < 0 {
			free = 0
		}
		hidden = due[free:]
		for _, h := range hidden {
			w.setAfter(h, far)
		}
	}
	w.unpause()
	body()
	w.pause()
	past := time.Now().Add(-time.Hour)
	for _, h := range hidden {
		if a, in := w.life.sc.state.failed[h]; in && a.after.Equal(far) {
			w.setAfter(h, past)
		}
	}
	return w.adopt(false)
}

// settle: due heights never rest beside a free slot (the coordinator would have started them at the end of its last pass);
// after time has moved or hidden heights re-appeared, an explicit wake-up starts them
func (w *c04World) settle(perm uint64, all bool) {
	for n := 0; w.life != nil && n < 64; n++ {
		free := w.hist.Limit - len(w.life.sc.state.inProgress)
		if free <= 0 || len(w.dueHeights()) == 0 {
			return
		}
		picks := w.window(perm+uint64(n)+1, all, free, func() {})
		w.emit(c04Ev{op: "Wake", picks: picks}, c04Intent{Op: "wake", Auto: true}, c04Ctx2{op: "wake"})
	}
}

func (w *c04World) exec(it c04Intent) {
	if it.Auto {
		return // regenerated by settle
	}
	l := w.life
	ctx, cancel := c04Ctx()
	defer cancel()
	switch it.Op {
	case "head":
		if l == nil {
			return
		}
		n := len(l.sc.state.inProgress)
		if it.H > l.sc.state.networkHead && n < 2*w.hist.Limit {
			n++
		}
		picks := w.window(it.Perm, it.All, w.hist.Limit-n, func() {
			select {
			case l.sub.ch <- c04Hdr(it.H):
			case <-time.After(c04Wait):
				w.abort("subscriber does not take the header")
			}
			select {
			case <-l.sub.calls:
			case <-time.After(c04Wait):
				w.abort("coordinator does not take the head")
			}
		})
		if it.H > w.maxHead {
			w.maxHead = it.H
		}
		w.emit(c04Ev{op: "NewHead", a: int64(it.H), picks: picks}, it, c04Ctx2{op: "head"})
		w.settle(it.Perm, it.All)
	case "deliver":
		if l == nil || it.W == nil {
			return
		}
		x := w.find(*it.W)
		if x == nil || !x.finished {
			return
		}
		picks := w.windowEx(it.Perm, it.All, w.hist.Limit-(len(l.sc.state.inProgress)-1), func(h uint64) bool { return x.from <= h && h <= x.to }, func() {
			select {
			case l.sc.resultCh <- x.res:
			case <-time.After(c04Wait):
				w.abort("coordinator does not take a result")
			}
		})
		delete(l.ws, x.id)
		w.emit(c04Ev{op: "Deliver", a: int64(x.mid), picks: picks}, it, c04Ctx2{op: "deliver", delivered: x})
		w.settle(it.Perm, it.All)
	case "wake":
		if l == nil {
			return
		}
		picks := w.window(it.Perm, it.All, w.hist.Limit-len(l.sc.state.inProgress), func() {})
		w.emit(c04Ev{op: "Wake", picks: picks}, it, c04Ctx2{op: "wake"})
		w.settle(it.Perm, it.All)
	case "cp":
		if l == nil {
			return
		}
		picks := w.window(it.Perm, it.All, w.hist.Limit-len(l.sc.state.inProgress), func() {
			// what runBackgroundStore does on a tick
			cp, err := l.sc.getCheckpoint(ctx)
			if err != nil {
				w.abort("getCheckpoint: %v", err)
			}
			if cp.SampleFrom > l.prev {
				if err := l.d.store.store(ctx, cp); err != nil {
					w.abort("store: %v", err)
				}
				l.prev = cp.SampleFrom
			}
		})
		w.emit(c04Ev{op: "Checkpoint", picks: picks}, it, c04Ctx2{op: "cp"})
		w.settle(it.Perm, it.All)
	case "tick":
		if it.D <= 0 {
			return
		}
		w.vnow += it.D
		if l != nil {
			past := time.Now().Add(-time.Hour)
			for h := range l.sc.state.failed {
				if w.vafter[h] < w.vnow && !l.sc.state.failed[h].after.Before(time.Now()) {
					w.setAfter(h, past)
				}
			}
		}
		w.emit(c04Ev{op: "Tick", a: it.D}, it, c04Ctx2{op: "tick"})
		w.settle(it.Perm, it.All)
	case "step":
		if l == nil || it.W == nil {
			return
		}
		x := w.find(*it.W)
		if x == nil || x.finished {
			return
		}
		w.stepWorker(x, it)
	case "stop":
		if l == nil {
			return
		}
		if len(l.ws) > 0 {
			w.inflCp = true
		}
		w.unpause()
		if err := l.d.Stop(ctx); err != nil {
			w.abort("Stop: %v", err)
		}
		w.disk = w.readDisk(l)
		w.life = nil
		w.emit(c04Ev{op: "Stop"}, it, c04Ctx2{op: "stop"})
	case "crash":
		if l != nil {
			w.disk = w.readDisk(l)
			w.kill()
		}
		w.emit(c04Ev{op: "Crash"}, it, c04Ctx2{op: "crash"})
	case "restart":
		if l != nil || it.Tail < 1 {
			return
		}
		hd := it.Hd
		if w.maxHead > hd {
			hd = w.maxHead
		}
		if it.Tail > hd {
			hd = it.Tail
		}
		w.maxHead = hd
		if it.Tail > w.lo {
			w.lo = it.Tail
		}
		w.start(it.Tail, hd)
		picks := w.adoptResumed()
		w.restarts++
		w.emit(c04Ev{op: "Restart", a: int64(it.Tail), b: int64(it.Hd), picks: picks}, it, c04Ctx2{op: "restart"})
		w.settle(it.Perm, it.All)
	}
}

// the workers present right after Start: the first resumedN job ids come from the checkpoint
func (w *c04World) adoptResumed() []uint64 {
	l := w.life
	picks := w.adopt(false)
	var res []*c04W
	for _, x := range w.sortedWorkers() {
		if x.id <= l.resumedN {
			res = append(res, x)
		}
	}
	sort.SliceStable(res, func(i, j int) bool {
		a, b := res[i], res[j]
		if a.from != b.from {
			return a.from < b.from
		}
		if a.to != b.to {
			return a.to < b.to
		}
		return c04Rank(a.ty) < c04Rank(b.ty)
	})
	for i, x := range res {
		x.mid = i + 1
	}
	return picks
}

func (w *c04World) stepWorker(x *c04W, it c04Intent) {
	l := w.life
	p := x.pend
	ambiguous := p == nil
	if ambiguous {
		for _, q := range l.pool {
			if q.h == x.next {
				p = q
				break
			}
		}
		if p == nil {
			w.abort("worker %s [%d,%d] has no parked sampler call at %d", x.ty, x.from, x.to, x.next)
		}
	}
	before := 0
	if it.Out == "cancel" {
		before = c04WorkerGoroutines()
	}
	p.ch <- c04Err(it.Out, it.Err)
	var actual *c04W
	var p2 *c04Pending
	silent := false
	deadline := time.After(c04Wait)
	poll := time.NewTicker(2 * time.Millisecond)
	defer poll.Stop()
wait:
	for {
		select {
		case res := <-l.sc.resultCh:
			actual = l.ws[res.id]
			if actual == nil {
				w.abort("result from an unknown job %d", res.id)
			}
			actual.finished, actual.res = true, res
			break wait
		case p2 = <-l.avail.pend:
			break wait
		case <-poll.C:
			if it.Out == "cancel" && c04WorkerGoroutines() < before {
				// the goroutine is gone; a result it sent would have been received above
				select {
				case res := <-l.sc.resultCh:
					actual = l.ws[res.id]
					actual.finished, actual.res = true, res
				default:
					silent = true
				}
				break wait
			}
		case <-deadline:
			w.abort("worker neither continues nor reports after its sampler call returned")
		}
	}
	if actual == nil {
		if !ambiguous {
			actual = x
		} else {
			var cands []*c04W
			for _, y := range l.ws {
				if y.pend == nil && !y.finished && y.next == p.h && (silent || y.to > p.h) {
					cands = append(cands, y)
				}
			}
			sort.Slice(cands, func(i, j int) bool { return cands[i].id < cands[j].id })
			if len(cands) != 1 && !(silent && len(cands) > 1) {
				w.abort("cannot tell which of %d workers at height %d advanced", len(cands), p.h)
			}
			actual = cands[0] // after a silent exit the history ends anyway; any of the candidates names the defect
		}
	}
	if ambiguous {
		for i, q := range l.pool {
			if q == p {
				l.pool = append(l.pool[:i], l.pool[i+1:]...)
				break
			}
		}
	}
	if it.Out == "ok" || it.Out == "outside" {
		w.sampled[p.h] = true
	}
	w.r.Count("outcome", it.Out)
	actual.pend = nil
	if silent {
		it.W = w.keyOf(actual)
		w.emit(c04Ev{op: "Step", a: int64(actual.mid), out: it.Out}, it, c04Ctx2{op: "step"})
		w.violation("worker-silent-exit", fmt.Sprintf("the sampler returned an error wrapping context.Canceled for height %d while the DASer is running: the %s worker [%d,%d] exited without reporting; its slot is never freed",
			p.h, actual.ty, actual.from, actual.to))
		w.abort("silent exit")
	}
	actual.next++
	if p2 != nil {
		if p2.h != actual.next {
			w.abort("worker [%d,%d] asked for height %d, expected %d", actual.from, actual.to, p2.h, actual.next)
		}
		actual.pend = p2
	}
	it.W = w.keyOf(actual)
	w.emit(c04Ev{op: "Step", a: int64(actual.mid), out: it.Out}, it, c04Ctx2{op: "step"})
}

// ---------------------------------------------------------------- "everything succeeds from now on"

func (w *c04World) finalPhase() {
	if w.life == nil {
		tail := w.lo
		w.exec(c04Intent{Op: "restart", Tail: tail, Hd: w.maxHead, All: true})
	}
	maxIv := int64(1)
	for _, k := range w.hist.Table {
		if k > maxIv {
			maxIv = k
		}
	}
	for guard := 0; guard < 4000; guard++ {
		l := w.life
		if l == nil {
			return
		}
		progressed := false
		for _, x := range w.sortedWorkers() {
			if x.finished {
				w.exec(c04Intent{Op: "deliver", W: w.keyOf(x), All: true})
				progressed = true
				break
			}
			if x.pend != nil || w.poolHas(x.next) {
				w.exec(c04Intent{Op: "step", W: w.keyOf(x), Out: "ok"})
				progressed = true
				break
			}
		}
		if progressed {
			continue
		}
		if len(l.ws) > 0 {
			w.violation("no-progress:worker-stuck", fmt.Sprintf("%d job(s) are in progress but none of them is sampling or reporting: sampling cannot complete", len(l.ws)))
			return
		}
		if len(l.sc.state.failed) > 0 {
			w.exec(c04Intent{Op: "tick", D: maxIv + 1, All: true})
			if len(w.life.ws) == 0 {
				w.violation("no-progress:retry-not-started", fmt.Sprintf("failed heights %v are due and a slot is free but no retry job starts", w.dueHeights()))
				return
			}
			continue
		}
		break
	}
	st := w.life.sc.state.unsafeStats()
	for h := w.lo; h <= st.NetworkHead; h++ {
		if !w.sampled[h] {
			w.violation("height-never-sampled", fmt.Sprintf("after all work has drained (every sampler call succeeding) height %d in [%d, %d] has never been sampled successfully", h, w.lo, st.NetworkHead))
			break
		}
	}
	if !st.CatchUpDone {
		w.violation("catchupdone-wrong:after-drain", fmt.Sprintf("all work has drained but CatchUpDone=false (catch-up head %d, network head %d, failed %v)", st.CatchupHead, st.NetworkHead, st.Failed))
	}
	wctx, cancel := context.WithTimeout(context.Background(), 5*time.Second)
	defer cancel()
	w.unpause()
	if st.CatchUpDone {
		if err := w.life.d.WaitCatchUp(wctx); err != nil {
			w.violation("waitcatchup-blocks", "CatchUpDone is reported but WaitCatchUp does not return")
		}
	}
	w.pause()
}

func (w *c04World) poolHas(h uint64) bool {
	for _, q := range w.life.pool {
		if q.h == h {
			return true
		}
	}
	return false
}

// run executes a history; it never lets a panic or a stuck implementation escape
func (w *c04World) run(h c04Hist) (aborted string) {
	defer func() {
		if e := recover(); e != nil {
			if a, ok := e.(c04Abort); ok {
				aborted = a.why
			} else {
				aborted = fmt.Sprint("panic: ", e)
				w.violation("panic", aborted)
			}
		}
		if w.life != nil {
			func() {
				defer func() { _ = recover() }()
				w.kill()
			}()
		}
	}()
	for _, it := range h.Events {
		w.exec(it)
		if w.viol {
			return "violation"
		}
	}
	if h.Final {
		w.finalPhase()
	}
	return ""
}

func c04Bucket(n int) string {
	switch {
	case n == 0:
		return "0"
	case n < 10:
		return "1-9"
	case n < 30:
		return "10-29"
	case n < 60:
		return "30-59"
	}
	return "60+"
}

var _ = strings.Count

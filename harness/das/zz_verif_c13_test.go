//go:build verif

package das

import "testing"

// C13 shares the model, the driver and the histories of C04 (zz_verif_c04_*_test.go, pulled in through
// overlay_tags); only the oracles reported differ (see c04SigProp).
func TestVerifC13(t *testing.T) { c04Main(t, "C13") }

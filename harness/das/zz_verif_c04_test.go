//go:build verif

package das

// C04 / C13 correspondence + oracle harness (see /verif/DESIGN.md, C04 and C13).
//
// The REAL DASer (NewDASer / Start / Stop, the real samplingCoordinator goroutine, real worker goroutines, the real
// checkpoint store on a datastore) is driven one event at a time:
//
//   * the coordinator goroutine is held inside its own statistics rendezvous (waitCh / wg.Wait) between events, so every
//     event (new head, one delivered result, wake-up, checkpoint request) is processed alone and its effect is read from
//     the live coordinatorState;
//   * the Availability mock blocks every SharesAvailable call until the harness releases it with a scripted outcome, so
//     the harness decides which worker advances and how;
//   * a finished worker's result is taken from resultCh by the harness (the coordinator is held) and handed to the
//     coordinator later: deliveries happen in the order the history says;
//   * time: the back-off table is in hours; "due" is simulated by rewriting retryAttempt.after to a past/future instant
//     according to a virtual clock (Tick).
//
// L2: each history, with what the implementation showed after every event, is a Coq case for CN.Das.Coordinator.mismatches.
// L3: oracles on the implementation after every event and after a final "everything succeeds now" phase.

import (
	"context"
	"fmt"
	"runtime"
	"sort"
	"strings"
	"sync"
	"time"

	"github.com/cometbft/cometbft/types"
	"github.com/ipfs/go-datastore"
	ds_sync "github.com/ipfs/go-datastore/sync"

	libhead "github.com/celestiaorg/go-header"

	"github.com/celestiaorg/celestia-node/header"
	"github.com/celestiaorg/celestia-node/share"
	zv "github.com/celestiaorg/celestia-node/zzverif"
)

const c04Header = `From Coq Require Import List ZArith.
From CN Require Import Das.Coordinator.
Import ListNotations.
Open Scope Z_scope.
`

const c04Wait = 60 * time.Second // upper bound for any single hand-off with the implementation (never reached on a live system)

// ---------------------------------------------------------------- mocks

func c04Hdr(h uint64) *header.ExtendedHeader {
	return &header.ExtendedHeader{
		Commit:    &types.Commit{},
		RawHeader: header.RawHeader{Height: int64(h)},
		DAH:       &share.AxisRoots{RowRoots: make([][]byte, 0)},
	}
}

// header store: only what the DASer uses
type c04Store struct {
	libhead.Store[*header.ExtendedHeader]
	mu         sync.Mutex
	tail, head uint64
}

func (s *c04Store) Tail(context.Context) (*header.ExtendedHeader, error) {
	s.mu.Lock()
	defer s.mu.Unlock()
	return c04Hdr(s.tail), nil
}

func (s *c04Store) Head(context.Context, ...libhead.HeadOption[*header.ExtendedHeader]) (*header.ExtendedHeader, error) {
	s.mu.Lock()
	defer s.mu.Unlock()
	return c04Hdr(s.head), nil
}

func (s *c04Store) GetByHeight(ctx context.Context, h uint64) (*header.ExtendedHeader, error) {
	if err := ctx.Err(); err != nil {
		return nil, err
	}
	return c04Hdr(h), nil
}

type c04Pending struct {
	h   uint64
	hdr *header.ExtendedHeader
	ch  chan error
}

// share.Availability: every call parks until released
type c04Avail struct {
	pend chan *c04Pending
}

func (a *c04Avail) SharesAvailable(ctx context.Context, h *header.ExtendedHeader) error {
	p := &c04Pending{h: h.Height(), hdr: h, ch: make(chan error, 1)}
	select {
	case a.pend <- p:
	case <-ctx.Done():
		return ctx.Err()
	}
	select {
	case err := <-p.ch:
		return err
	case <-ctx.Done():
		return ctx.Err()
	}
}

type c04Sub struct {
	ch    chan *header.ExtendedHeader
	calls chan struct{}
}

func (s *c04Sub) Subscribe() (libhead.Subscription[*header.ExtendedHeader], error) { return s, nil }
func (s *c04Sub) SetVerifier(func(context.Context, *header.ExtendedHeader) error) error {
	return nil
}
func (s *c04Sub) Cancel() {}
func (s *c04Sub) NextHeader(ctx context.Context) (*header.ExtendedHeader, error) {
	select {
	case s.calls <- struct{}{}:
	case <-ctx.Done():
		return nil, ctx.Err()
	}
	select {
	case h := <-s.ch:
		return h, nil
	case <-ctx.Done():
		return nil, ctx.Err()
	}
}

// ---------------------------------------------------------------- history (self-contained, JSON-replayable)

type c04Key struct {
	Ty   string `json:"ty"`
	From uint64 `json:"from"`
	To   uint64 `json:"to"`
	Occ  int    `json:"occ,omitempty"` // n-th live worker with this (type, from, to), by job id
}

type c04Intent struct {
	Op    string   `json:"op"` // head | step | deliver | wake | cp | tick | stop | crash | restart
	H     uint64   `json:"h,omitempty"`
	W     *c04Key  `json:"w,omitempty"`
	Out   string   `json:"out,omitempty"`   // ok | fail | outside | cancel
	Err   int      `json:"err,omitempty"`   // which concrete error value stands for the outcome
	D     int64    `json:"d,omitempty"`     // tick
	Tail  uint64   `json:"tail,omitempty"`  // restart: store tail
	Hd    uint64   `json:"hd,omitempty"`    // restart: store head (at least every announced head)
	Allow []uint64 `json:"allow,omitempty"` // due heights the retry scan may see during this event (nil = all)
	All   bool     `json:"all,omitempty"`
	Perm  uint64   `json:"perm,omitempty"` // seed of the choice among due heights when fewer slots than due heights
	Auto  bool     `json:"auto,omitempty"` // wake-up inserted by the harness itself (regenerated on replay)
}

type c04Hist struct {
	Range  uint64      `json:"range"`
	Limit  int         `json:"limit"`
	Table  []int64     `json:"table"`
	Events []c04Intent `json:"events"`
	Final  bool        `json:"final"` // run the "everything succeeds now" phase afterwards
}

// ---------------------------------------------------------------- one DASer instance and the harness's view of it

type c04W struct {
	id       int // job id in the implementation
	mid      int // job id in the model (differs only for workers resumed from a checkpoint)
	ty       jobType
	from, to uint64
	next     uint64 // next height its loop will hand to the sampler
	pend     *c04Pending
	finished bool
	res      result
	hdr      *header.ExtendedHeader
}

func (w *c04W) key() c04Key { return c04Key{Ty: string(w.ty), From: w.from, To: w.to} }

type c04Life struct {
	d     *DASer
	sc    *samplingCoordinator
	ds    datastore.Datastore
	avail *c04Avail
	sub   *c04Sub
	wg    *sync.WaitGroup // non-nil while the coordinator is held
	ws    map[int]*c04W
	pool  []*c04Pending // parked sampler calls not yet attributed to a worker
	prev  uint64        // runBackgroundStore's prev

	resumedN int // number of workers Start resumes from the checkpoint (job ids 1..resumedN)
}

type c04Abort struct{ why string }

type c04World struct {
	r     *zv.Run
	hist  c04Hist
	store *c04Store
	life  *c04Life // nil when not running
	disk  []byte   // datastore content under /das/checkpoint while no instance runs (nil = none)

	vnow     int64
	vafter   map[uint64]int64
	seenAft  map[uint64]time.Time
	lo       uint64
	maxHead  uint64
	sampled  map[uint64]bool // heights the sampler ever answered nil / outside-window for
	att      map[uint64]int  // last seen attempt count per height (this instance)
	terms    []string        // Coq (event, obs) pairs
	seen     []*c04Obs       // the observations, for the replay file
	nev      int             // events emitted
	full     bool            // emit full observation records instead of fingerprints
	done     []c04Intent     // executed intents (with concrete choices), for the replay file
	restarts int
	inflCp   bool // some checkpoint was taken with a worker in flight
	viol     bool
}

func (w *c04World) abort(format string, a ...any) { panic(c04Abort{fmt.Sprintf(format, a...)}) }

// which property a violation signature belongs to ("" = both)
func c04SigProp(sig string) string {
	for _, p := range []string{"height-lost", "sampled-head-above-unsampled", "checkpoint-drops-height", "height-never-sampled"} {
		if strings.HasPrefix(sig, p) {
			return "C04"
		}
	}
	for _, p := range []string{"concurrency-limit", "catchupdone-wrong", "attempt-count-decreased", "worker-silent-exit", "job-vanished", "no-progress", "waitcatchup-blocks"} {
		if strings.HasPrefix(sig, p) {
			return "C13"
		}
	}
	return ""
}

func (w *c04World) violation(sig, desc string) {
	if p := c04SigProp(sig); p != "" && p != w.r.ID {
		// the other property's check reports this one; only a worker that is gone makes the history unusable
		w.r.Count("seen_for_other_property", sig)
		if sig == "worker-silent-exit" {
			w.viol = true
		}
		return
	}
	w.viol = true
	w.r.Violation(sig, desc, c04Hist{Range: w.hist.Range, Limit: w.hist.Limit, Table: w.hist.Table, Events: append([]c04Intent(nil), w.done...), Final: w.hist.Final})
}

func c04Ctx() (context.Context, context.CancelFunc) {
	return context.WithTimeout(context.Background(), c04Wait)
}

// hold the coordinator inside its statistics rendezvous
func (w *c04World) pause() {
	l := w.life
	wg := new(sync.WaitGroup)
	wg.Add(1)
	select {
	case l.sc.waitCh <- wg:
		l.wg = wg
	case <-time.After(c04Wait):
		w.abort("coordinator does not return to its select loop")
	}
}

func (w *c04World) unpause() {
	l := w.life
	if l.wg != nil {
		l.wg.Done()
		l.wg = nil
	}
}

func (w *c04World) table() []time.Duration {
	out := make([]time.Duration, len(w.hist.Table))
	for i, k := range w.hist.Table {
		out[i] = time.Duration(k) * time.Hour
	}
	return out
}

func (w *c04World) start(tail, hd uint64) {
	w.store.mu.Lock()
	w.store.tail, w.store.head = tail, hd
	w.store.mu.Unlock()
	ds := ds_sync.MutexWrap(datastore.NewMapDatastore())
	avail := &c04Avail{pend: make(chan *c04Pending, 4096)}
	sub := &c04Sub{ch: make(chan *header.ExtendedHeader), calls: make(chan struct{}, 16)}
	d, err := NewDASer(avail, sub, w.store, ds,
		WithSamplingRange(w.hist.Range), WithConcurrencyLimit(w.hist.Limit),
		WithBackgroundStoreInterval(0), WithSampleTimeout(1000*time.Hour))
	if err != nil {
		w.abort("NewDASer: %v", err)
	}
	ctx, cancel := c04Ctx()
	defer cancel()
	if w.disk != nil {
		if err := d.store.Put(ctx, checkpointKey, w.disk); err != nil {
			w.abort("seeding the datastore: %v", err)
		}
	}
	d.sampler.state.retryStrategy = newRetryStrategy(w.table())
	cp0, err := d.checkpoint(ctx) // what Start is about to resume from
	if err != nil {
		w.abort("checkpoint: %v", err)
	}
	if err := d.Start(ctx); err != nil {
		w.abort("Start: %v", err)
	}
	w.life = &c04Life{d: d, sc: d.sampler, ds: ds, avail: avail, sub: sub, ws: map[int]*c04W{}, resumedN: len(cp0.Workers)}
	select {
	case <-sub.calls:
	case <-time.After(c04Wait):
		w.abort("subscriber did not start")
	}
	w.pause()
	w.vafter, w.seenAft, w.att = map[uint64]int64{}, map[uint64]time.Time{}, map[uint64]int{}
}

// kill the instance without letting it persist anything that counts
func (w *c04World) kill() {
	l := w.life
	w.unpause()
	l.d.cancel()
	ctx, cancel := c04Ctx()
	defer cancel()
	if err := l.sc.wait(ctx); err != nil {
		w.abort("coordinator does not stop: %v", err)
	}
	_ = l.d.subscriber.wait(ctx)
	l.d.running.Store(false)
	w.life = nil
}

func (w *c04World) readDisk(l *c04Life) []byte {
	ctx, cancel := c04Ctx()
	defer cancel()
	b, err := l.d.store.Get(ctx, checkpointKey)
	if err != nil {
		return nil
	}
	return b
}

// number of live goroutines inside (*worker).run
func c04WorkerGoroutines() int {
	buf := make([]byte, 1<<22)
	n := runtime.Stack(buf, true)
	return strings.Count(string(buf[:n]), "das.(*worker).run(")
}

// ---------------------------------------------------------------- bookkeeping after a coordinator event

// adopt discovers the workers the coordinator has started since the last look (job ids, in order) and waits until each of
// them is parked in the sampler. resumed: the workers come from a checkpoint (model ids follow the sorted order).
func (w *c04World) adopt(resumed bool) (newRetry []uint64) {
	l := w.life
	var ids []int
	for id := range l.sc.state.inProgress {
		if _, ok := l.ws[id]; !ok {
			ids = append(ids, id)
		}
	}
	sort.Ints(ids)
	var fresh []*c04W
	for _, id := range ids {
		st := l.sc.state.inProgress[id]()
		nw := &c04W{id: id, mid: id, ty: st.jobType, from: st.from, to: st.to, next: st.from, hdr: st.header}
		l.ws[id] = nw
		fresh = append(fresh, nw)
		if st.jobType == retryJob && !resumed {
			newRetry = append(newRetry, st.from)
		}
	}
	if resumed {
		// model ids 1..n in (from, to, type) order
		sorted := append([]*c04W(nil), fresh...)
		sort.SliceStable(sorted, func(i, j int) bool {
			a, b := sorted[i], sorted[j]
			if a.from != b.from {
				return a.from < b.from
			}
			if a.to != b.to {
				return a.to < b.to
			}
			return c04Rank(a.ty) < c04Rank(b.ty)
		})
		for i, x := range sorted {
			x.mid = i + 1
		}
	}
	for range fresh {
		select {
		case p := <-l.avail.pend:
			l.pool = append(l.pool, p)
		case <-time.After(c04Wait):
			w.abort("a started worker never called the sampler")
		}
	}
	w.attribute()
	return newRetry
}

func c04Rank(t jobType) int {
	switch t {
	case catchupJob:
		return 0
	case recentJob:
		return 1
	}
	return 2
}

// attribute parked sampler calls to workers where that is unambiguous
func (w *c04World) attribute() {
	l := w.life
	rest := l.pool[:0]
	for _, p := range l.pool {
		var cands []*c04W
		for _, x := range l.ws {
			if x.pend == nil && !x.finished && x.next == p.h {
				if x.hdr != nil && x.hdr == p.hdr {
					cands = []*c04W{x}
					break
				}
				if x.hdr == nil {
					cands = append(cands, x)
				}
			}
		}
		if len(cands) == 1 {
			cands[0].pend = p
		} else {
			rest = append(rest, p)
		}
	}
	l.pool = rest
}

func (w *c04World) sortedWorkers() []*c04W {
	var out []*c04W
	for _, x := range w.life.ws {
		out = append(out, x)
	}
	sort.Slice(out, func(i, j int) bool { return out[i].id < out[j].id })
	return out
}

func (w *c04World) find(k c04Key) *c04W {
	n := 0
	for _, x := range w.sortedWorkers() {
		if string(x.ty) == k.Ty && x.from == k.From && x.to == k.To {
			if n == k.Occ {
				return x
			}
			n++
		}
	}
	return nil
}

func (w *c04World) keyOf(x *c04W) *c04Key {
	k := x.key()
	for _, y := range w.sortedWorkers() {
		if y == x {
			break
		}
		if y.key() == k {
			k.Occ++
		}
	}
	return &k
}

// virtual clock: give every failed entry the implementation has (re)written a virtual due time
func (w *c04World) syncClock() {
	l := w.life
	now := time.Now()
	for h, a := range l.sc.state.failed {
		if t, ok := w.seenAft[h]; ok && t.Equal(a.after) {
			continue
		}
		d := a.after.Sub(now)
		if d <= 0 {
			w.vafter[h] = w.vnow - 1
		} else {
			w.vafter[h] = w.vnow + int64((d+30*time.Minute)/time.Hour)
		}
		w.seenAft[h] = a.after
	}
	for h := range w.vafter {
		if _, ok := l.sc.state.failed[h]; !ok {
			delete(w.vafter, h)
			delete(w.seenAft, h)
		}
	}
}

func (w *c04World) setAfter(h uint64, t time.Time) {
	a := w.life.sc.state.failed[h]
	a.after = t
	w.life.sc.state.failed[h] = a
	w.seenAft[h] = t
}

func (w *c04World) dueHeights() []uint64 {
	var out []uint64
	for h := range w.life.sc.state.failed {
		if w.vafter[h] < w.vnow {
			out = append(out, h)
		}
	}
	sort.Slice(out, func(i, j int) bool { return out[i] < out[j] })
	return out
}


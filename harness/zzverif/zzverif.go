//go:build verif

// Package zzverif is the shared support library of the /verif correspondence harnesses.
// It is injected into the celestia-node module with `go build -overlay`; it is not part of /repo.
//
// A harness (a Test function injected into a package of /repo) does:
//
//	r := zzverif.Start(t, "C18")
//	g := r.Group("ids", header, "id_case", "CN.Shwap.Ids.mismatches")
//	g.Case(coqTerm, jsonValue, nontrivialKey)   // one correspondence case (input + observed impl result)
//	r.Violation(sig, desc, replay)                // L3: property oracle failed on the implementation
//	r.Count("hist", "key")                        // input distribution
//	r.Finish()
//
// Finish writes into $VERIF_OUT: cases_<group>_<k>.v (runnable Coq files printing `mism = [...]`),
// cases_<group>.jsonl (same order, for replay) and result.json.
package zzverif

import (
	"crypto/sha256"
	"encoding/hex"
	"encoding/json"
	"fmt"
	"os"
	"path/filepath"
	"sort"
	"strconv"
	"strings"
	"sync"
	"testing"
)

// ShardSize is the maximum number of cases per generated Coq file.
const ShardSize = 400

type Run struct {
	ID     string
	Seed   uint64
	Tier   string
	Out    string
	Replay string // path of a replay file or ""

	mu         sync.Mutex
	t          testing.TB
	groups     []*Group
	violations []Violation
	hist       map[string]map[string]int
	extra      map[string]any
	rng        *Rand
}

type Violation struct {
	Sig    string `json:"sig"`    // canonical signature of the failing input class (matched against KNOWN_FINDINGS.txt)
	Desc   string `json:"desc"`   // one line
	Replay any    `json:"replay"` // concrete input/history
}

type Group struct {
	r        *Run
	Name     string
	Header   string // Coq header: Require/Import/Open Scope lines
	CaseType string // Coq type of one case
	MismFn   string // Coq function : list CaseType -> list N  (indices of cases where model <> observed)
	terms    []string
	jsons    []json.RawMessage
	keys     map[string]int
	nontriv  map[string]bool
	maxCases int
}

// Start reads VERIF_SEED, VERIF_TIER, VERIF_OUT, VERIF_REPLAY. When VERIF_OUT is unset the test is skipped,
// so that the injected file is inert under a plain `go test`.
func Start(t testing.TB, id string) *Run {
	out := os.Getenv("VERIF_OUT")
	if out == "" {
		t.Skip("VERIF_OUT not set: harness is driven by /verif/check")
	}
	seed, _ := strconv.ParseUint(os.Getenv("VERIF_SEED"), 10, 64)
	tier := os.Getenv("VERIF_TIER")
	if tier == "" {
		tier = "quick"
	}
	if err := os.MkdirAll(out, 0o755); err != nil {
		t.Fatal(err)
	}
	r := &Run{ID: id, Seed: seed, Tier: tier, Out: out, Replay: os.Getenv("VERIF_REPLAY"), t: t,
		hist: map[string]map[string]int{}, extra: map[string]any{}}
	r.rng = NewRand(seed ^ hashStr(id))
	return r
}

func hashStr(s string) uint64 {
	h := sha256.Sum256([]byte(s))
	var x uint64
	for i := 0; i < 8; i++ {
		x = x<<8 | uint64(h[i])
	}
	return x
}

func (r *Run) Thorough() bool { return r.Tier == "thorough" }

// N picks the case budget by tier.
func (r *Run) N(quick, thorough int) int {
	if r.Thorough() {
		return thorough
	}
	return quick
}

// Rand returns the run's root PRNG. Derive sub-streams with Fork so that cases replay independently.
func (r *Run) Rand() *Rand { return r.rng }

func (r *Run) Group(name, header, caseType, mismFn string) *Group {
	r.mu.Lock()
	defer r.mu.Unlock()
	g := &Group{r: r, Name: name, Header: header, CaseType: caseType, MismFn: mismFn,
		keys: map[string]int{}, nontriv: map[string]bool{}}
	r.groups = append(r.groups, g)
	return g
}

// Case records one correspondence case. term is a Coq term of the group's case type (input and observed
// implementation result); js is the same case as JSON (replay); nontrivialKey is "" for a trivial case, otherwise a
// canonical key used to count distinct non-trivial cases.
func (g *Group) Case(term string, js any, nontrivialKey string) {
	b, err := json.Marshal(js)
	if err != nil {
		b, _ = json.Marshal(fmt.Sprint(js))
	}
	g.r.mu.Lock()
	defer g.r.mu.Unlock()
	g.terms = append(g.terms, term)
	g.jsons = append(g.jsons, b)
	h := sha256.Sum256([]byte(term))
	k := hex.EncodeToString(h[:8])
	g.keys[k]++
	if nontrivialKey != "" {
		g.nontriv[k] = true
	}
}

func (g *Group) Len() int { return len(g.terms) }

func (r *Run) Violation(sig, desc string, replay any) {
	r.mu.Lock()
	defer r.mu.Unlock()
	// keep at most 5 per signature; the first is the (already minimised) replay
	n := 0
	for _, v := range r.violations {
		if v.Sig == sig {
			n++
		}
	}
	if n < 5 {
		r.violations = append(r.violations, Violation{Sig: sig, Desc: desc, Replay: replay})
	}
	r.countLocked("violations_by_sig", sig)
}

func (r *Run) Count(hist, key string) {
	r.mu.Lock()
	defer r.mu.Unlock()
	r.countLocked(hist, key)
}

func (r *Run) countLocked(hist, key string) {
	m := r.hist[hist]
	if m == nil {
		m = map[string]int{}
		r.hist[hist] = m
	}
	m[key]++
}

// Set stores an extra evidence value (e.g. "exhaustive": true).
func (r *Run) Set(key string, v any) {
	r.mu.Lock()
	defer r.mu.Unlock()
	r.extra[key] = v
}

// ReplayInput unmarshals the replay file (if any) into v and reports whether one was given.
func (r *Run) ReplayInput(v any) bool {
	if r.Replay == "" {
		return false
	}
	b, err := os.ReadFile(r.Replay)
	if err != nil {
		r.t.Fatalf("replay: %v", err)
	}
	var env struct {
		Replay json.RawMessage `json:"replay"`
	}
	if err := json.Unmarshal(b, &env); err == nil && len(env.Replay) > 0 {
		b = env.Replay
	}
	if err := json.Unmarshal(b, v); err != nil {
		r.t.Fatalf("replay: %v", err)
	}
	return true
}

type result struct {
	ID              string                    `json:"property_id"`
	Seed            uint64                    `json:"seed"`
	Tier            string                    `json:"tier"`
	Evaluations     int                       `json:"evaluations"`
	Distinct        int                       `json:"distinct"`
	DistinctNontriv int                       `json:"distinct_nontrivial"`
	Groups          map[string]groupInfo      `json:"groups"`
	Samples         []json.RawMessage         `json:"samples"`
	Distribution    map[string]map[string]int `json:"input_distribution"`
	Violations      []Violation               `json:"l3_violations"`
	Extra           map[string]any            `json:"extra"`
}

type groupInfo struct {
	Cases  int      `json:"cases"`
	Shards []string `json:"shards"`
}

// Finish writes all output files. It never fails the test on violations: the verdict is the driver's.
func (r *Run) Finish() {
	r.mu.Lock()
	defer r.mu.Unlock()
	res := result{ID: r.ID, Seed: r.Seed, Tier: r.Tier, Groups: map[string]groupInfo{},
		Distribution: r.hist, Violations: r.violations, Extra: r.extra}
	if res.Violations == nil {
		res.Violations = []Violation{}
	}
	for _, g := range r.groups {
		gi := groupInfo{Cases: len(g.terms), Shards: []string{}}
		res.Evaluations += len(g.terms)
		res.Distinct += len(g.keys)
		res.DistinctNontriv += len(g.nontriv)
		// jsonl
		var sb strings.Builder
		for _, j := range g.jsons {
			sb.Write(j)
			sb.WriteByte('\n')
		}
		must(r.t, os.WriteFile(filepath.Join(r.Out, "cases_"+g.Name+".jsonl"), []byte(sb.String()), 0o644))
		for s := 0; s*ShardSize < len(g.terms); s++ {
			lo, hi := s*ShardSize, (s+1)*ShardSize
			if hi > len(g.terms) {
				hi = len(g.terms)
			}
			var b strings.Builder
			b.WriteString(g.Header)
			b.WriteString("\nDefinition cases : list (" + g.CaseType + ") := [\n")
			for i := lo; i < hi; i++ {
				if i > lo {
					b.WriteString(";\n")
				}
				b.WriteString("  " + g.terms[i])
			}
			b.WriteString("\n].\n")
			b.WriteString("Definition mism := Eval vm_compute in (" + g.MismFn + " cases).\nPrint mism.\n")
			name := fmt.Sprintf("cases_%s_%d.v", g.Name, s)
			must(r.t, os.WriteFile(filepath.Join(r.Out, name), []byte(b.String()), 0o644))
			gi.Shards = append(gi.Shards, name)
		}
		res.Groups[g.Name] = gi
		// a few samples: first, middle, last of each group
		for _, i := range []int{0, len(g.jsons) / 2, len(g.jsons) - 1} {
			if i >= 0 && i < len(g.jsons) && len(res.Samples) < 12 {
				res.Samples = append(res.Samples, g.jsons[i])
			}
		}
	}
	if res.Samples == nil {
		res.Samples = []json.RawMessage{}
	}
	b, err := json.MarshalIndent(res, "", " ")
	must(r.t, err)
	must(r.t, os.WriteFile(filepath.Join(r.Out, "result.json"), b, 0o644))
}

func must(t testing.TB, err error) {
	if err != nil {
		t.Fatal(err)
	}
}

// ---------------------------------------------------------------- PRNG (splitmix64)

type Rand struct{ s uint64 }

func NewRand(seed uint64) *Rand { return &Rand{s: seed} }

func (r *Rand) U64() uint64 {
	r.s += 0x9e3779b97f4a7c15
	z := r.s
	z = (z ^ (z >> 30)) * 0xbf58476d1ce4e5b9
	z = (z ^ (z >> 27)) * 0x94d049bb133111eb
	return z ^ (z >> 31)
}

// Fork derives an independent stream; the case is replayable from (seed, label).
func (r *Rand) Fork(label uint64) *Rand { return NewRand(r.U64() ^ (label * 0xd6e8feb86659fd93)) }

func (r *Rand) Intn(n int) int {
	if n <= 0 {
		return 0
	}
	return int(r.U64() % uint64(n))
}
func (r *Rand) Bool() bool       { return r.U64()&1 == 1 }
func (r *Rand) Chance(p int) bool { return r.Intn(100) < p } // p percent
func (r *Rand) Bytes(n int) []byte {
	b := make([]byte, n)
	for i := range b {
		b[i] = byte(r.U64())
	}
	return b
}

// Pick returns one of xs.
func Pick[T any](r *Rand, xs []T) T { return xs[r.Intn(len(xs))] }

// ---------------------------------------------------------------- Coq term emitters

// Z renders an integer as a Coq Z literal.
func Z(x int64) string {
	if x < 0 {
		return "(" + strconv.FormatInt(x, 10) + ")%Z"
	}
	return strconv.FormatInt(x, 10) + "%Z"
}

// ZU renders an unsigned 64-bit value as a Coq Z literal.
func ZU(x uint64) string { return strconv.FormatUint(x, 10) + "%Z" }

// N renders a natural as a Coq N literal.
func N(x uint64) string { return strconv.FormatUint(x, 10) + "%N" }

// Nat renders a small natural as a Coq nat literal (keep it below a few thousand).
func Nat(x int) string { return strconv.Itoa(x) + "%nat" }

func Bool(b bool) string {
	if b {
		return "true"
	}
	return "false"
}

// List renders a Coq list.
func List(xs []string) string { return "[" + strings.Join(xs, "; ") + "]" }

// Bytes renders a byte string as list Z.
func Bytes(b []byte) string {
	xs := make([]string, len(b))
	for i, c := range b {
		xs[i] = strconv.Itoa(int(c))
	}
	return "[" + strings.Join(xs, ";") + "]%Z"
}

// BytesN renders a byte string as list N.
func BytesN(b []byte) string {
	xs := make([]string, len(b))
	for i, c := range b {
		xs[i] = strconv.Itoa(int(c))
	}
	return "[" + strings.Join(xs, ";") + "]%N"
}

func Some(s string) string { return "(Some " + s + ")" }

const None = "None"

func Opt(ok bool, s string) string {
	if ok {
		return Some(s)
	}
	return None
}

// Tuple renders (a, b, c).
func Tuple(xs ...string) string { return "(" + strings.Join(xs, ", ") + ")" }

// App renders (f a b c).
func App(f string, xs ...string) string { return "(" + f + " " + strings.Join(xs, " ") + ")" }

// SortedKeys is a helper for canonical output of maps.
func SortedKeys[V any](m map[string]V) []string {
	ks := make([]string, 0, len(m))
	for k := range m {
		ks = append(ks, k)
	}
	sort.Strings(ks)
	return ks
}

// Recover runs f and reports a panic as a string (empty if none).
func Recover(f func()) (panicked string) {
	defer func() {
		if e := recover(); e != nil {
			panicked = fmt.Sprint(e)
		}
	}()
	f()
	return ""
}

//go:build verif

package blobstream

// C12 correspondence + oracle harness, package nodebuilder/blobstream: data-root-tuple root and per-height inclusion proof.
//
// A header chain (heights 1..N, deterministic data hashes) is served by a fake header getter with the range semantics of the
// go-header store (and, once, by the real go-header store).  For every range and height in it the node's proof must verify
// against the node's tuple root for the encoded tuple of exactly that height, and for nothing else.
// L2 (CN.Blob.Tuple): encoding bytes, range / request validation verdicts, the shape of produced proofs (total, index,
// every aunt = root of the slice of tuples the model says), verdicts of structurally tampered proofs.

import (
	"bytes"
	"context"
	"errors"
	"fmt"
	"strconv"
	"strings"
	"testing"
	"time"

	"github.com/cometbft/cometbft/crypto/merkle"
	ds "github.com/ipfs/go-datastore"
	ds_sync "github.com/ipfs/go-datastore/sync"

	libhead "github.com/celestiaorg/go-header"
	"github.com/celestiaorg/go-header/store"

	"github.com/celestiaorg/celestia-node/header"
	"github.com/celestiaorg/celestia-node/header/headertest"
	zv "github.com/celestiaorg/celestia-node/zzverif"
)

const c12TupleHeader = `From Coq Require Import List ZArith NArith.
From CN Require Import Blob.TupleMerkle Blob.Tuple.
Import ListNotations.
Open Scope Z_scope.
`

// c12Chain: fake header getter; GetRangeByHeight refuses an empty range like the go-header store does.
type c12Chain struct {
	headers    []*header.ExtendedHeader // heights 1..N
	failHead   bool
	headHeight uint64 // when set: the head is a (not materialised) header of that height
}

func (c *c12Chain) Head(context.Context, ...libhead.HeadOption[*header.ExtendedHeader]) (*header.ExtendedHeader, error) {
	if c.failHead || len(c.headers) == 0 {
		return nil, errors.New("no head")
	}
	if c.headHeight != 0 {
		eh := &header.ExtendedHeader{}
		eh.RawHeader.Height = int64(c.headHeight)
		return eh, nil
	}
	return c.headers[len(c.headers)-1], nil
}

func (c *c12Chain) Get(context.Context, libhead.Hash) (*header.ExtendedHeader, error) {
	return nil, libhead.ErrNotFound
}

func (c *c12Chain) GetByHeight(_ context.Context, h uint64) (*header.ExtendedHeader, error) {
	if h == 0 || h > uint64(len(c.headers)) {
		return nil, libhead.ErrNotFound
	}
	return c.headers[h-1], nil
}

func (c *c12Chain) GetRangeByHeight(_ context.Context, from *header.ExtendedHeader, to uint64) ([]*header.ExtendedHeader, error) {
	lo := from.Height() + 1
	if lo >= to {
		return nil, fmt.Errorf("header/store: invalid range(%d,%d)", lo, to)
	}
	if to-1 > uint64(len(c.headers)) {
		return nil, libhead.ErrNotFound
	}
	return c.headers[lo-1 : to-1], nil
}

func c12MakeChain(n int, seed uint64) *c12Chain {
	rng := zv.NewRand(seed)
	c := &c12Chain{}
	for h := 1; h <= n; h++ {
		eh := &header.ExtendedHeader{}
		eh.RawHeader.Height = int64(h)
		eh.RawHeader.DataHash = rng.Bytes(32)
		c.headers = append(c.headers, eh)
	}
	return c
}

type c12TupleReplay struct {
	Chain  int    `json:"chain"`
	Seed   uint64 `json:"seed"`
	Start  uint64 `json:"start"`
	End    uint64 `json:"end"`
	Height uint64 `json:"height"`
	Mut    int    `json:"mut,omitempty"`
	Arg    int    `json:"arg,omitempty"`
	Note   string `json:"note,omitempty"`
}

func TestVerifC12Tuple(t *testing.T) {
	r := zv.Start(t, "C12")
	defer r.Finish()
	ctx := context.Background()
	g := r.Group("tuple", c12TupleHeader, "tcase", "mismatches")
	rng := r.Rand()

	g.Case(fmt.Sprintf("(TConst 0%%nat %d)", dataRootTupleRootBlocksLimit), map[string]any{"const": "blocks_limit"}, "")

	// ---- encoding
	for _, h := range []uint64{0, 1, 2, 15, 16, 255, 256, 257, 65535, 65536, 1<<32 - 1, 1 << 32, 1<<56 - 1, 1 << 56, 1<<63 - 1, 1 << 63, 1<<64 - 1, rng.U64(), rng.U64() >> 20} {
		var root [32]byte
		copy(root[:], rng.Bytes(32))
		var enc []byte
		var err error
		if p := zv.Recover(func() { enc, err = encodeDataRootTuple(h, root) }); p != "" {
			r.Violation("tuple-encode-panic", "encodeDataRootTuple panicked: "+p, c12TupleReplay{Height: h})
			continue
		}
		obs := "None"
		if err == nil {
			obs = "(Some " + zv.Bytes(enc) + ")"
			// L3: 64 bytes, big-endian height in the first 32, the root in the last 32
			ok := len(enc) == 64 && bytes.Equal(enc[32:], root[:])
			var back uint64
			for i := 0; ok && i < 32; i++ {
				if i < 24 && enc[i] != 0 {
					ok = false
				}
				if i >= 24 {
					back = back<<8 | uint64(enc[i])
				}
			}
			if !ok || back != h {
				r.Violation("tuple-encoding", fmt.Sprintf("encodeDataRootTuple(%d) is not the 32-byte big-endian height followed by the data root", h), c12TupleReplay{Height: h})
			}
		}
		g.Case("(TEncode "+zv.ZU(h)+" "+zv.Bytes(root[:])+" "+obs+")", map[string]any{"op": "encode", "height": h}, "encode")
		r.Count("op", "encode")
	}

	// ---- the block limit: validation against a long chain (head only)
	{
		long := c12MakeChain(1, 7)
		long.headHeight = 20000
		svc := &Service{headerGetter: long}
		pts := []uint64{1, 2, 9999, 10000, 10001, 10002, 19999, 20000, 20001, 20002}
		for _, s := range pts {
			for _, e := range pts {
				err := svc.validateDataRootTupleRootRange(ctx, s, e)
				g.Case("(TRange "+zv.ZU(s)+" "+zv.ZU(e)+" (Some 20000) "+zv.Bool(err == nil)+")", map[string]any{"op": "range-limit", "s": s, "e": e}, "range")
				want := s < e && e-s <= dataRootTupleRootBlocksLimit && e <= 20001
				if (err == nil) != want {
					r.Violation("tuple-range-check", fmt.Sprintf("range [%d,%d) with head 20000: accepted=%v", s, e, err == nil), c12TupleReplay{Start: s, End: e, Note: "head 20000"})
				}
			}
		}
	}

	// ---- chains
	chainLens := []int{1, 2, 3, 5, 8, 13, 21}
	if r.Thorough() {
		chainLens = append(chainLens, 34, 64, 100)
	}
	var rp c12TupleReplay
	replay := r.ReplayInput(&rp)
	// ---- once: the real go-header store (what the node wires into the service)
	if !replay || rp.Note == "real go-header store" {
		c12RealStore(t, r)
	}
	if replay {
		chainLens = []int{rp.Chain}
	}
	for ci, n := range chainLens {
		seed := rng.U64()
		if replay {
			seed = rp.Seed
		}
		chain := c12MakeChain(n, seed)
		svc := &Service{headerGetter: chain}
		N := uint64(n)
		headTerm := "(Some " + zv.ZU(N) + ")"

		// range / request validation at the boundaries
		pts := []uint64{0, 1, N - 1, N, N + 1, N + 2, 1<<64 - 1}
		if r.Thorough() {
			pts = append(pts, 2, N/2, 10001, 10002)
		}
		for _, s := range pts {
			for _, e := range pts {
				err := svc.validateDataRootTupleRootRange(ctx, s, e)
				g.Case("(TRange "+zv.ZU(s)+" "+zv.ZU(e)+" "+headTerm+" "+zv.Bool(err == nil)+")", map[string]any{"op": "range", "s": s, "e": e, "head": N, "ok": err == nil}, "range")
				r.Count("op", "range")
				// L3: accepted <=> 0 < s < e <= head+1, e-s <= limit
				want := s != 0 && s < e && e-s <= dataRootTupleRootBlocksLimit && e <= N+1
				if (err == nil) != want {
					r.Violation("tuple-range-check", fmt.Sprintf("range [%d,%d) with head %d: accepted=%v", s, e, N, err == nil), c12TupleReplay{Chain: n, Seed: seed, Start: s, End: e})
				}
				if ci%2 == 0 {
					h := zv.Pick(rng, pts)
					err := svc.validateDataRootInclusionProofRequest(ctx, h, s, e)
					g.Case("(TRequest "+zv.ZU(h)+" "+zv.ZU(s)+" "+zv.ZU(e)+" "+headTerm+" "+zv.Bool(err == nil)+")", map[string]any{"op": "request", "h": h, "s": s, "e": e}, "request")
					if (err == nil) != (want && s <= h && h < e) {
						r.Violation("tuple-request-check", fmt.Sprintf("height %d in [%d,%d) with head %d: accepted=%v", h, s, e, N, err == nil), c12TupleReplay{Chain: n, Seed: seed, Start: s, End: e, Height: h})
					}
				}
			}
		}
		chain.failHead = true
		if err := svc.validateDataRootTupleRootRange(ctx, 1, 2); err == nil {
			r.Violation("tuple-range-check", "range accepted although the head is unavailable", c12TupleReplay{Chain: n, Seed: seed, Start: 1, End: 2, Note: "no head"})
		}
		g.Case("(TRange 1 2 None false)", map[string]any{"op": "range-nohead"}, "range")
		chain.failHead = false

		// ranges and heights
		type rg struct{ s, e uint64 }
		var ranges []rg
		for s := uint64(1); s <= N; s++ {
			for e := s + 1; e <= N+1; e++ {
				if n <= 5 || rng.Chance(r.N(4, 8)) || e == s+1 && rng.Chance(r.N(12, 30)) || (s == 1 && e == N+1) {
					ranges = append(ranges, rg{s, e})
				}
			}
		}
		if replay {
			ranges = []rg{{rp.Start, rp.End}}
		}
		for _, x := range ranges {
			s, e := x.s, x.e
			rep := c12TupleReplay{Chain: n, Seed: seed, Start: s, End: e}
			var root DataRootTupleRoot
			var err error
			if p := zv.Recover(func() { root, err = svc.GetDataRootTupleRoot(ctx, s, e) }); p != "" || err != nil {
				rep.Note = fmt.Sprint(p, err)
				sig := "tuple-root-not-produced"
				if e == s+1 {
					sig = "tuple-single-block-range"
				}
				r.Violation(sig, fmt.Sprintf("GetDataRootTupleRoot(%d,%d) failed on an available range: %v %s", s, e, err, p), rep)
				continue
			}
			// reference tuples
			cnt := int(e - s)
			tuples := make([][]byte, cnt)
			for i := range tuples {
				h := chain.headers[s-1+uint64(i)]
				tuples[i] = append(append(make([]byte, 24), u64be(uint64(h.Height()))...), h.DataHash...)
			}
			if !bytes.Equal(root, merkle.HashFromByteSlices(tuples)) {
				r.Violation("tuple-root", fmt.Sprintf("tuple root of [%d,%d) is not the RFC-6962 root of the encoded tuples", s, e), rep)
			}
			// every sub-slice root, to name the aunts
			sub := map[string][2]int{}
			for a := 0; a < cnt; a++ {
				for b := a + 1; b <= cnt; b++ {
					sub[string(merkle.HashFromByteSlices(tuples[a:b]))] = [2]int{a, b}
				}
			}
			heights := []uint64{s, e - 1, s + uint64(rng.Intn(cnt))}
			if cnt <= 5 {
				heights = heights[:0]
				for h := s; h < e; h++ {
					heights = append(heights, h)
				}
			}
			if replay && rp.Height != 0 {
				heights = []uint64{rp.Height}
			}
			for _, h := range heights {
				rep.Height = h
				var proof *DataRootTupleInclusionProof
				if p := zv.Recover(func() { proof, err = svc.GetDataRootTupleInclusionProof(ctx, h, s, e) }); p != "" || err != nil {
					rep.Note = fmt.Sprint(p, err)
					sig := "tuple-proof-not-produced"
					if e == s+1 {
						sig = "tuple-single-block-range"
					}
					r.Violation(sig, fmt.Sprintf("GetDataRootTupleInclusionProof(%d,%d,%d) failed: %v %s", h, s, e, err, p), rep)
					continue
				}
				mp := (*merkle.Proof)(proof)
				i := int(h - s)
				r.Count("op", "proof")
				r.Count("range_len", strconv.Itoa(min(cnt, 16)))
				// L3: verifies for exactly that tuple
				if err := mp.Verify(root, tuples[i]); err != nil {
					r.Violation("tuple-proof-honest-rejected", fmt.Sprintf("proof for height %d of [%d,%d) does not verify: %v", h, s, e, err), rep)
				}
				if mp.Total != int64(cnt) || mp.Index != int64(i) {
					r.Violation("tuple-proof-position", fmt.Sprintf("proof for height %d of [%d,%d) claims index %d of %d", h, s, e, mp.Index, mp.Total), rep)
				}
				for j := range tuples {
					if j != i && !bytes.Equal(tuples[j], tuples[i]) && mp.Verify(root, tuples[j]) == nil {
						r.Violation("tuple-proof-other-tuple", fmt.Sprintf("proof for height %d also verifies for the tuple of height %d", h, s+uint64(j)), rep)
					}
				}
				// L2: shape
				rs := make([]string, len(mp.Aunts))
				named := true
				for j, a := range mp.Aunts {
					ab, ok := sub[string(a)]
					if !ok {
						named = false
						break
					}
					rs[j] = "(" + zv.Nat(ab[0]) + ", " + zv.Nat(ab[1]) + ")"
				}
				if !named {
					r.Violation("tuple-proof-aunt", "an aunt of a produced proof is not the root of any slice of the range's tuples", rep)
				} else {
					g.Case("(TProof "+zv.Nat(cnt)+" "+zv.Nat(i)+" "+zv.Z(mp.Total)+" "+zv.Z(mp.Index)+" "+zv.Nat(len(mp.Aunts))+" ["+strings.Join(rs, "; ")+"])",
						map[string]any{"op": "proof", "replay": rep}, "proof")
				}
				// tampered proofs (mirrored in the model)
				for mut := 1; mut <= 9; mut++ {
					arg := rng.Intn(len(mp.Aunts) + 2)
					switch mut {
					case 1, 3, 7:
						if len(mp.Aunts) == 0 || (mut == 3 && len(mp.Aunts) < 2) {
							continue
						}
						arg = rng.Intn(len(mp.Aunts))
						if mut == 3 {
							arg = rng.Intn(len(mp.Aunts) - 1)
						}
					case 5:
						arg = rng.Intn(cnt + 1)
						if arg == i {
							arg = i + 1
						}
					}
					tp := c12TamperMerkle(mp, mut, arg)
					var verr error
					if p := zv.Recover(func() { verr = tp.Verify(root, tuples[i]) }); p != "" {
						rep.Mut, rep.Arg = mut, arg
						r.Violation("tuple-verify-panic", "merkle proof verification panicked: "+p, rep)
						continue
					}
					acc := verr == nil
					r.Count("tuple_tamper", strconv.Itoa(mut)+":"+zv.Bool(acc))
					g.Case("(TVerify "+zv.Nat(cnt)+" "+zv.Nat(i)+" "+zv.Nat(mut)+" "+zv.Nat(arg)+" "+zv.Bool(acc)+")", map[string]any{"op": "verify", "mut": mut, "arg": arg, "replay": rep}, "tamper")
					// widening Total alone is not authenticated by a Merkle proof (the client knows the size of the range)
					if acc && mut != 4 {
						rep.Mut, rep.Arg = mut, arg
						r.Violation("tuple-tampered-accepted", fmt.Sprintf("a tampered tuple proof (mutation %d) verifies", mut), rep)
					}
				}
				// other range's root
				if s+1 < e {
					if other, err := svc.GetDataRootTupleRoot(ctx, s, e-1); err == nil && mp.Verify(other, tuples[i]) == nil {
						r.Violation("tuple-proof-other-range", "the proof verifies against the tuple root of another range", rep)
					}
				}
			}
			// heights outside the range are refused
			for _, h := range []uint64{s - 1, e, 0} {
				if _, err := svc.GetDataRootTupleInclusionProof(ctx, h, s, e); err == nil {
					rep.Height = h
					r.Violation("tuple-proof-outside", fmt.Sprintf("a proof was produced for height %d outside [%d,%d)", h, s, e), rep)
				}
			}
		}
	}

}

func u64be(x uint64) []byte {
	b := make([]byte, 8)
	for i := 7; i >= 0; i-- {
		b[i] = byte(x)
		x >>= 8
	}
	return b
}

func c12TamperMerkle(p *merkle.Proof, mut, arg int) *merkle.Proof {
	q := &merkle.Proof{Total: p.Total, Index: p.Index, LeafHash: append([]byte{}, p.LeafHash...)}
	for _, a := range p.Aunts {
		q.Aunts = append(q.Aunts, append([]byte{}, a...))
	}
	other := bytes.Repeat([]byte{0xA7}, 32)
	switch mut {
	case 1:
		if arg < len(q.Aunts) {
			q.Aunts = append(q.Aunts[:arg], q.Aunts[arg+1:]...)
		}
	case 2:
		q.Aunts = append(q.Aunts, other)
	case 3:
		if arg+1 < len(q.Aunts) {
			q.Aunts[arg], q.Aunts[arg+1] = q.Aunts[arg+1], q.Aunts[arg]
		}
	case 4:
		q.Total += int64(arg) + 1
	case 5:
		q.Index = int64(arg)
	case 6:
		q.LeafHash = other
	case 7:
		if arg < len(q.Aunts) {
			q.Aunts[arg] = other
		} else {
			q.Aunts = append(q.Aunts, other)
		}
	case 8:
		q.Total = -q.Total
	case 9:
		q.Index = -q.Index - 1
	}
	return q
}

// c12RealStore runs a few ranges, including one-block ranges, against the real go-header store.
func c12RealStore(t *testing.T, r *zv.Run) {
	ctx, cancel := context.WithTimeout(context.Background(), 300*time.Second)
	defer cancel()
	suite := headertest.NewTestSuite(t)
	headers := suite.GenExtendedHeaders(12)
	st, err := store.NewStore[*header.ExtendedHeader](ds_sync.MutexWrap(ds.NewMapDatastore()))
	if err != nil {
		t.Fatal(err)
	}
	if err := st.Start(ctx); err != nil {
		t.Fatal(err)
	}
	defer st.Stop(ctx) //nolint:errcheck
	if err := st.Append(ctx, headers...); err != nil {
		t.Fatal(err)
	}
	// Append is applied asynchronously: flush, then wait (event-free API: poll) until every height is readable
	if err := st.Sync(ctx); err != nil {
		t.Fatal(err)
	}
	for _, h := range headers {
		for {
			if got, err := st.GetByHeight(ctx, h.Height()); err == nil && got.Height() == h.Height() {
				break
			}
			select {
			case <-ctx.Done():
				t.Fatal("real store did not serve the appended headers")
			case <-time.After(5 * time.Millisecond):
			}
		}
	}
	svc := NewService(st)
	first := headers[0].Height()
	for _, x := range [][2]uint64{{first + 1, first + 2}, {first + 3, first + 4}, {first + 1, first + 5}, {first, first + 12}} {
		rep := c12TupleReplay{Start: x[0], End: x[1], Note: "real go-header store"}
		var err error
		var root DataRootTupleRoot
		if p := zv.Recover(func() { root, err = svc.GetDataRootTupleRoot(ctx, x[0], x[1]) }); p != "" || err != nil {
			sig := "tuple-root-not-produced"
			if x[1] == x[0]+1 {
				sig = "tuple-single-block-range"
			}
			r.Violation(sig, fmt.Sprintf("real store: GetDataRootTupleRoot(%d,%d) failed: %v %s", x[0], x[1], err, p), rep)
			continue
		}
		var proof *DataRootTupleInclusionProof
		if p := zv.Recover(func() { proof, err = svc.GetDataRootTupleInclusionProof(ctx, x[0], x[0], x[1]) }); p != "" || err != nil {
			r.Violation("tuple-proof-not-produced", fmt.Sprintf("real store: proof(%d,%d,%d) failed: %v %s", x[0], x[0], x[1], err, p), rep)
			continue
		}
		h := headers[x[0]-first]
		tuple := append(append(make([]byte, 24), u64be(h.Height())...), h.DataHash...)
		if err := (*merkle.Proof)(proof).Verify(root, tuple); err != nil {
			r.Violation("tuple-proof-honest-rejected", "real store: proof does not verify: "+err.Error(), rep)
		}
		r.Count("op", "real-store-range")
	}
}

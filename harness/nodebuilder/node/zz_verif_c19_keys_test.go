//go:build verif

package node

// C19, L3: "expired, malformed or wrongly signed tokens grant nothing" also depends on WHICH key the node's verifier
// holds. The matrix harness (harness/api) builds its own signer / verifier; this one drives the real
// jwtSignerAndVerifier over the keystores a node uses (file-system keystore, in-memory keystore), on the very first
// start (no secret yet: generated and persisted) and on every later start, and checks with the real token code
// (libs/authtoken, api/rpc/perms) that
//   - a token signed with the node's persisted secret (what `celestia <type> auth <perm>` does) is accepted by the
//     node's verifier, and a token minted by the node's signer verifies under the persisted secret;
//   - a token signed with ANY other key — all zero, random, the secret with one bit flipped, a prefix of it, the secret plus a non-zero byte —
//     is refused;
//   - first start and restarts agree.

import (
	"bytes"
	"encoding/base64"
	"encoding/json"
	"fmt"
	"path/filepath"
	"testing"
	"time"

	"github.com/cristalhq/jwt/v5"

	"github.com/celestiaorg/celestia-node/api/rpc/perms"
	"github.com/celestiaorg/celestia-node/libs/authtoken"
	"github.com/celestiaorg/celestia-node/libs/keystore"
	zv "github.com/celestiaorg/celestia-node/zzverif"
)

func TestVerifC19Keys(t *testing.T) {
	r := zv.Start(t, "C19")
	defer r.Finish()
	rng := r.Rand().Fork(1919)

	mint := func(key []byte) (string, error) {
		s, err := jwt.NewSignerHS(jwt.HS256, key)
		if err != nil {
			return "", err
		}
		tok, err := perms.NewTokenWithPerms(s, perms.AllPerms)
		return string(tok), err
	}
	accepts := func(v jwt.Verifier, tok string) bool {
		ps, err := authtoken.ExtractSignedPermissions(v, tok)
		return err == nil && len(ps) > 0
	}
	n := 0
	for _, kind := range []string{"fs", "memory"} {
		var ks keystore.Keystore
		if kind == "fs" {
			var err error
			ks, err = keystore.NewFSKeystore(filepath.Join(t.TempDir(), "keys"), nil)
			if err != nil {
				t.Fatal(err)
			}
		} else {
			ks = keystore.NewMapKeystore()
		}
		var firstTok string
		for start := 0; start < 3; start++ {
			where := fmt.Sprintf("%s keystore, start %d", kind, start+1)
			signer, verifier, err := jwtSignerAndVerifier(ks)
			if err != nil {
				t.Fatal(err)
			}
			stored, err := ks.Get(SecretName)
			if err != nil {
				t.Fatal(err)
			}
			secret := append([]byte{}, stored.Body...)
			rep := map[string]any{"keystore": kind, "start": start + 1}
			// the node's own signer and the persisted secret are one key
			ownTok, err := perms.NewTokenWithPerms(signer, perms.AllPerms)
			if err != nil {
				t.Fatal(err)
			}
			indep, err := jwt.NewVerifierHS(jwt.HS256, secret)
			if err != nil {
				t.Fatal(err)
			}
			if !accepts(verifier, string(ownTok)) {
				r.Violation("keys:own-token-refused", where+": a token minted by the node's signer is refused by the node's verifier", rep)
			}
			if !accepts(indep, string(ownTok)) {
				r.Violation("keys:signer-is-not-the-persisted-secret", where+": a token minted by the node's signer does not verify under the secret the node persisted", rep)
			}
			secTok, err := mint(secret)
			if err != nil {
				t.Fatal(err)
			}
			if !accepts(verifier, secTok) {
				r.Violation("keys:persisted-secret-token-refused", where+": a token signed with the node's persisted secret is refused by the node's verifier", rep)
			}
			if start == 0 {
				firstTok = secTok
			} else if !accepts(verifier, firstTok) {
				r.Violation("keys:restart-changes-key", where+": a token that was valid on the first start is refused after a restart", rep)
			}
			n += 4
			// foreign keys
			foreign := map[string][]byte{
				"all-zero": make([]byte, len(secret)),
				"random":   rng.Bytes(32),
				"bit-flip": append([]byte{}, secret...),
				"prefix":   append([]byte{}, secret[:len(secret)/2]...),
				// (the secret followed by zero bytes is NOT a foreign key: HMAC pads short keys with zeros)
				"one-longer": append(append([]byte{}, secret...), 1),
			}
			foreign["bit-flip"][rng.Intn(len(secret))] ^= 1 << uint(rng.Intn(8))
			for name, key := range foreign {
				if bytes.Equal(key, secret) || len(key) == 0 {
					continue
				}
				tok, err := mint(key)
				if err != nil {
					continue
				}
				n++
				r.Count("foreign_key", name)
				if accepts(verifier, tok) {
					r.Violation("keys:foreign-key-token-accepted:"+name, fmt.Sprintf("%s: an admin token signed with a key that is not the node's secret (%s) is accepted by the node's verifier", where, name), rep)
				}
			}
		}
	}
	// ---- tokens already in circulation: the claims as the wire format spells them (Go field names, RFC 3339 time),
	// written out literally and signed with the node's secret. An expired one grants nothing, whatever the current
	// code would write itself.
	{
		ks := keystore.NewMapKeystore()
		signer, verifier, err := jwtSignerAndVerifier(ks)
		if err != nil {
			t.Fatal(err)
		}
		lit := func(expires string) string {
			claims := `{"Allow":["public","read","write","admin"],"Nonce":"` + base64.StdEncoding.EncodeToString(rng.Bytes(32)) + `","ExpiresAt":"` + expires + `"}`
			tok, err := jwt.NewBuilder(signer).Build(json.RawMessage(claims))
			if err != nil {
				t.Fatal(err)
			}
			return tok.String()
		}
		past := time.Now().UTC().Add(-time.Hour).Format(time.RFC3339Nano)
		future := time.Now().UTC().Add(time.Hour).Format(time.RFC3339Nano)
		never := "0001-01-01T00:00:00Z"
		if accepts(verifier, lit(past)) {
			r.Violation("keys:circulating-expired-token-accepted", "a token in the wire format of tokens already issued ({\"Allow\",\"Nonce\",\"ExpiresAt\"}) whose ExpiresAt lies an hour in the past is accepted", map[string]any{"expires_at": past})
		}
		if !accepts(verifier, lit(future)) {
			r.Violation("keys:circulating-valid-token-refused", "a token in the wire format of tokens already issued whose ExpiresAt lies an hour in the future is refused", map[string]any{"expires_at": future})
		}
		if !accepts(verifier, lit(never)) {
			r.Violation("keys:circulating-unlimited-token-refused", "a token in the wire format of tokens already issued without expiry is refused", map[string]any{"expires_at": never})
		}
		n += 3
	}
	r.Set("key_checks", n)
}

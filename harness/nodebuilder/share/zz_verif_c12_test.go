//go:build verif

package share

// C12 correspondence + oracle harness, package nodebuilder/share: GetRangeResult (newGetRangeResult + Verify).
//
// Squares hold runs of shares of a few namespaces (deterministic); for every range [start,end) inside one namespace the
// node's result must verify against the data root; every tampered result (trimmed / extended / reordered shares, short or
// long proof data, missing proof or proof components, other root, re-labelled ranges, JSON byte mutation) must be refused
// without panicking.  L2: CN.Blob.ProofEq.range_verify on (share ids, proof data ids, missing components, the answer of
// celestia-core's ShareProof.Validate).

import (
	"bytes"
	"context"
	"encoding/json"
	"fmt"
	"strconv"
	"strings"
	"testing"

	"github.com/cometbft/cometbft/crypto/merkle"
	tmproto "github.com/cometbft/cometbft/proto/tendermint/types"
	"github.com/cometbft/cometbft/types"

	"github.com/celestiaorg/celestia-app/v9/pkg/wrapper"
	libshare "github.com/celestiaorg/go-square/v4/share"
	"github.com/celestiaorg/rsmt2d"

	nodeshare "github.com/celestiaorg/celestia-node/share"
	"github.com/celestiaorg/celestia-node/share/eds"
	zv "github.com/celestiaorg/celestia-node/zzverif"
)

const c12RangeHeader = `From Coq Require Import List ZArith NArith.
From CN Require Import Blob.ProofEq.
Import ListNotations.
Open Scope Z_scope.
`

type c12RangeSpec struct {
	K     int    `json:"k"`
	Runs  []int  `json:"runs"` // shares per namespace, in namespace order
	Seed  uint64 `json:"seed"`
	Start int    `json:"start,omitempty"`
	End   int    `json:"end,omitempty"`
	Tamper string `json:"tamper,omitempty"`
	JSON  string `json:"json,omitempty"`
}

type c12Square struct {
	k      int
	shares []libshare.Share
	eds    *rsmt2d.ExtendedDataSquare
	roots  *nodeshare.AxisRoots
	runs   [][2]int // [start,end) of each namespace run in ODS indexes
}

func c12BuildSquare(spec c12RangeSpec) (*c12Square, error) {
	rng := zv.NewRand(spec.Seed)
	var shares []libshare.Share
	sq := &c12Square{k: spec.K}
	for i, n := range spec.Runs {
		id := make([]byte, libshare.NamespaceVersionZeroIDSize)
		id[len(id)-2], id[len(id)-1] = byte(1+i), byte(rng.Intn(256))
		ns := libshare.MustNewV0Namespace(id)
		size := libshare.FirstSparseShareContentSize + (n-1)*libshare.ContinuationSparseShareContentSize - rng.Intn(100)
		b, err := libshare.NewBlob(ns, rng.Bytes(size), 0, nil)
		if err != nil {
			return nil, err
		}
		ss, err := b.ToShares()
		if err != nil {
			return nil, err
		}
		sq.runs = append(sq.runs, [2]int{len(shares), len(shares) + len(ss)})
		shares = append(shares, ss...)
	}
	if len(shares) > spec.K*spec.K {
		return nil, fmt.Errorf("too many shares")
	}
	if len(shares) < spec.K*spec.K {
		sq.runs = append(sq.runs, [2]int{len(shares), spec.K * spec.K}) // tail padding is a namespace run too
	}
	for len(shares) < spec.K*spec.K {
		shares = append(shares, libshare.TailPaddingShare())
	}
	sq.shares = shares
	e, err := rsmt2d.ComputeExtendedDataSquare(libshare.ToBytes(shares), nodeshare.DefaultRSMT2DCodec(), wrapper.NewConstructor(uint64(spec.K)))
	if err != nil {
		return nil, err
	}
	sq.eds = e
	sq.roots, err = nodeshare.NewAxisRoots(e)
	return sq, err
}

func c12CloneResult(r *GetRangeResult) *GetRangeResult {
	out := &GetRangeResult{Shares: append([]libshare.Share{}, r.Shares...)}
	if r.Proof == nil {
		return out
	}
	p := *r.Proof
	p.Data = make([][]byte, len(r.Proof.Data))
	for i, d := range r.Proof.Data {
		p.Data[i] = append([]byte{}, d...)
	}
	p.ShareProofs = make([]*tmproto.NMTProof, len(r.Proof.ShareProofs))
	for i, sp := range r.Proof.ShareProofs {
		c := *sp
		c.Nodes = append([][]byte{}, sp.Nodes...)
		p.ShareProofs[i] = &c
	}
	p.RowProof.RowRoots = append(p.RowProof.RowRoots[:0:0], r.Proof.RowProof.RowRoots...)
	p.RowProof.Proofs = make([]*merkle.Proof, len(r.Proof.RowProof.Proofs))
	for i, mp := range r.Proof.RowProof.Proofs {
		c := *mp
		c.Aunts = append([][]byte{}, mp.Aunts...)
		p.RowProof.Proofs[i] = &c
	}
	p.NamespaceID = append([]byte{}, r.Proof.NamespaceID...)
	out.Proof = &p
	return out
}

var c12RangeTampers = []string{"trim-last-share", "trim-first-share", "append-share", "swap-shares", "mutate-share", "no-shares",
	"short-data", "long-data", "swap-data", "mutate-data-and-share", "nil-proof", "nil-share-proof", "nil-row-proof", "other-root", "empty-root",
	"widen-share-proof", "shift-share-proof", "drop-share-proof-node", "append-share-proof", "drop-share-proof",
	"swap-row-roots", "drop-row-root", "namespace", "both-trimmed", "json-byte"}

func c12TamperResult(name string, honest *GetRangeResult, rng *zv.Rand) (r *GetRangeResult, js string) {
	r = c12CloneResult(honest)
	n := len(r.Shares)
	switch name {
	case "trim-last-share":
		r.Shares = r.Shares[:n-1]
	case "trim-first-share":
		r.Shares = r.Shares[1:]
	case "append-share":
		r.Shares = append(r.Shares, r.Shares[rng.Intn(n)])
	case "swap-shares":
		if n < 2 || bytes.Equal(r.Shares[0].ToBytes(), r.Shares[n-1].ToBytes()) {
			return nil, ""
		}
		r.Shares[0], r.Shares[n-1] = r.Shares[n-1], r.Shares[0]
	case "mutate-share":
		b := append([]byte{}, r.Shares[rng.Intn(n)].ToBytes()...)
		b[100+rng.Intn(300)] ^= 1
		s, _ := libshare.NewShare(b)
		r.Shares[rng.Intn(n)] = s
	case "no-shares":
		r.Shares = nil
	case "short-data":
		r.Proof.Data = r.Proof.Data[:len(r.Proof.Data)-1]
	case "long-data":
		r.Proof.Data = append(r.Proof.Data, r.Proof.Data[0])
	case "swap-data":
		if n < 2 || bytes.Equal(r.Proof.Data[0], r.Proof.Data[n-1]) {
			return nil, ""
		}
		r.Proof.Data[0], r.Proof.Data[n-1] = r.Proof.Data[n-1], r.Proof.Data[0]
	case "mutate-data-and-share":
		i := rng.Intn(n)
		b := append([]byte{}, r.Shares[i].ToBytes()...)
		b[100+rng.Intn(300)] ^= 1
		s, _ := libshare.NewShare(b)
		r.Shares[i] = s
		r.Proof.Data[i] = b
	case "both-trimmed":
		r.Shares = r.Shares[:n-1]
		r.Proof.Data = r.Proof.Data[:n-1]
	case "nil-proof":
		r.Proof = nil
	case "nil-share-proof":
		r.Proof.ShareProofs[rng.Intn(len(r.Proof.ShareProofs))] = nil
	case "nil-row-proof":
		r.Proof.RowProof.Proofs[rng.Intn(len(r.Proof.RowProof.Proofs))] = nil
	case "widen-share-proof":
		r.Proof.ShareProofs[len(r.Proof.ShareProofs)-1].End++
	case "shift-share-proof":
		sp := r.Proof.ShareProofs[0]
		sp.Start++
		sp.End++
	case "drop-share-proof-node":
		sp := r.Proof.ShareProofs[rng.Intn(len(r.Proof.ShareProofs))]
		if len(sp.Nodes) == 0 {
			return nil, ""
		}
		sp.Nodes = sp.Nodes[:len(sp.Nodes)-1]
	case "append-share-proof":
		c := *r.Proof.ShareProofs[0]
		r.Proof.ShareProofs = append(r.Proof.ShareProofs, &c)
	case "drop-share-proof":
		r.Proof.ShareProofs = r.Proof.ShareProofs[:len(r.Proof.ShareProofs)-1]
	case "swap-row-roots":
		rr := r.Proof.RowProof.RowRoots
		if len(rr) < 2 {
			return nil, ""
		}
		rr[0], rr[1] = rr[1], rr[0]
	case "drop-row-root":
		r.Proof.RowProof.RowRoots = r.Proof.RowProof.RowRoots[:len(r.Proof.RowProof.RowRoots)-1]
	case "namespace":
		r.Proof.NamespaceID = rng.Bytes(len(r.Proof.NamespaceID))
	case "json-byte":
		b, err := json.Marshal(honest)
		if err != nil {
			return nil, ""
		}
		pos := rng.Intn(len(b))
		switch rng.Intn(3) {
		case 0:
			b[pos] ^= byte(1 << uint(rng.Intn(7)))
		case 1:
			b[pos] = "0123456789abcdefnul[]{}\",:AQg=/+"[rng.Intn(32)]
		default:
			b = append(b[:pos], b[pos+1:]...)
		}
		var dec GetRangeResult
		if p := zv.Recover(func() {
			if err := json.Unmarshal(b, &dec); err != nil {
				r = nil
			}
		}); p != "" {
			return nil, "PANIC:" + p + ":" + string(b)
		}
		if r != nil {
			r = &dec
		}
		return r, string(b)
	}
	return r, ""
}

func TestVerifC12Range(t *testing.T) {
	r := zv.Start(t, "C12")
	defer r.Finish()
	ctx := context.Background()
	g := r.Group("range", c12RangeHeader, "pcase", "mismatches")
	rng := r.Rand()

	ids := map[string]uint64{}
	id := func(b []byte) string {
		v, ok := ids[string(b)]
		if !ok {
			v = uint64(len(ids) + 1)
			ids[string(b)] = v
		}
		return strconv.FormatUint(v, 10)
	}
	idList := func(bs [][]byte) string {
		xs := make([]string, len(bs))
		for i, b := range bs {
			xs[i] = id(b)
		}
		return "[" + strings.Join(xs, ";") + "]%N"
	}
	term := func(res *GetRangeResult, root []byte, verdict string) string {
		proof := "None"
		if res.Proof != nil {
			nils := false
			for _, sp := range res.Proof.ShareProofs {
				nils = nils || sp == nil
			}
			for _, mp := range res.Proof.RowProof.Proofs {
				nils = nils || mp == nil
			}
			valid := false
			if !nils {
				if p := zv.Recover(func() { valid = res.Proof.Validate(root) == nil }); p != "" {
					valid = false
				}
			}
			proof = "(Some (mkSP " + idList(res.Proof.Data) + " " + zv.Bool(nils) + " " + zv.Bool(valid) + "))"
		}
		obs := map[string]string{"accept": "ROk", "reject": "RErr", "panic": "RPanic"}[verdict]
		return "(PRange " + idList(libshare.ToBytes(res.Shares)) + " " + proof + " " + obs + ")"
	}
	verify := func(res *GetRangeResult, root []byte) (string, string) {
		var err error
		if p := zv.Recover(func() { err = res.Verify(root) }); p != "" {
			return "panic", p
		}
		if err != nil {
			return "reject", err.Error()
		}
		return "accept", ""
	}

	var specs []c12RangeSpec
	var rp c12RangeSpec
	if r.ReplayInput(&rp) {
		specs = append(specs, rp)
	} else {
		for i := 0; i < r.N(8, 100); i++ {
			k := zv.Pick(rng, []int{2, 4, 4, 8, 8, 16})
			spec := c12RangeSpec{K: k, Seed: rng.U64()}
			left := k * k
			for left > 0 && len(spec.Runs) < 6 {
				n := 1 + rng.Intn(2*k+1)
				if n > left {
					n = left
				}
				spec.Runs = append(spec.Runs, n)
				left -= n
				if rng.Chance(25) {
					break
				}
			}
			specs = append(specs, spec)
		}
	}
	var prevRoot []byte
	for _, spec := range specs {
		sq, err := c12BuildSquare(spec)
		if err != nil {
			t.Fatalf("square: %v", err)
		}
		root := sq.roots.Hash()
		acc := &eds.Rsmt2D{ExtendedDataSquare: sq.eds}
		r.Count("square", strconv.Itoa(sq.k))
		for it := 0; it < r.N(3, 8); it++ {
			run := zv.Pick(rng, sq.runs)
			start := run[0] + rng.Intn(run[1]-run[0])
			end := start + 1 + rng.Intn(run[1]-start)
			switch it {
			case 0:
				start, end = run[0], run[1] // the whole namespace
			case 1:
				end = start + 1 // a single share
			}
			if spec.End > 0 {
				start, end = spec.Start, spec.End
			}
			rep := spec
			rep.Start, rep.End = start, end
			rngData, err := acc.RangeNamespaceData(ctx, start, end)
			if err != nil {
				r.Violation("range-data-failed", fmt.Sprintf("RangeNamespaceData(%d,%d): %v", start, end, err), rep)
				continue
			}
			var honest *GetRangeResult
			if p := zv.Recover(func() { honest, err = newGetRangeResult(start, end, &rngData, sq.roots) }); p != "" || err != nil {
				r.Violation("range-result-not-produced", fmt.Sprintf("newGetRangeResult(%d,%d) failed: %v %s", start, end, err, p), rep)
				continue
			}
			rows := (end-1)/sq.k - start/sq.k + 1
			r.Count("range_rows", strconv.Itoa(min(rows, 5)))
			v, why := verify(honest, root)
			r.Count("range_honest", v)
			g.Case(term(honest, root, v), map[string]any{"spec": rep, "tamper": "", "verdict": v}, "honest")
			if v != "accept" {
				r.Violation("range-honest-"+v, fmt.Sprintf("the node's own range result [%d,%d) does not verify: %s", start, end, why), rep)
				continue
			}
			// the result holds exactly the requested shares
			if len(honest.Shares) != end-start {
				r.Violation("range-wrong-shares", "range result holds a different number of shares than requested", rep)
			} else {
				for i := range honest.Shares {
					if !bytes.Equal(honest.Shares[i].ToBytes(), sq.shares[start+i].ToBytes()) {
						r.Violation("range-wrong-shares", "range result holds other shares than the square at the requested positions", rep)
						break
					}
				}
			}
			// JSON round trip
			if js, err := json.Marshal(honest); err == nil {
				var back GetRangeResult
				if err := json.Unmarshal(js, &back); err != nil {
					r.Violation("range-json", "range result does not survive JSON: "+err.Error(), rep)
				} else if v, why := verify(&back, root); v != "accept" {
					r.Violation("range-json-"+v, "range result no longer verifies after a JSON round trip: "+why, rep)
				}
			}
			for _, name := range c12RangeTampers {
				reps := 1
				if name == "json-byte" {
					reps = r.N(3, 20)
				}
				for k := 0; k < reps; k++ {
					rep.Tamper = name
					tr, js := c12TamperResult(name, honest, rng)
					rep.JSON = js
					if strings.HasPrefix(js, "PANIC:") {
						r.Violation("range-json-panic", "decoding a mutated range result panicked", rep)
						continue
					}
					if tr == nil {
						continue
					}
					useRoot := root
					switch name {
					case "other-root":
						if prevRoot == nil {
							continue
						}
						useRoot = prevRoot
					case "empty-root":
						useRoot = nil
					}
					v, why := verify(tr, useRoot)
					r.Count("range_tamper", name+":"+v)
					g.Case(term(tr, useRoot, v), map[string]any{"spec": rep, "tamper": name, "verdict": v}, name)
					switch v {
					case "panic":
						r.Violation("range-verify-panic:"+c12RangePanicClass(tr), "GetRangeResult.Verify panicked on a malformed result: "+why, rep)
					case "accept":
						same := bytes.Equal(useRoot, root) && len(tr.Shares) == len(honest.Shares)
						for i := 0; same && i < len(tr.Shares); i++ {
							same = bytes.Equal(tr.Shares[i].ToBytes(), honest.Shares[i].ToBytes())
						}
						// a result that still holds exactly the requested shares and proves them is not a forgery
						// (e.g. a mutated byte in an unauthenticated field); anything else is
						if !same {
							r.Violation("range-tampered-accepted:"+c12RangeAcceptClass(name, tr, honest), "a tampered range result verifies: the shares handed out are not the proven shares of the requested range", rep)
						}
					}
				}
			}
		}
		prevRoot = root
	}
	_ = types.ShareProof{}
}

func c12RangePanicClass(r *GetRangeResult) string {
	if r.Proof == nil {
		return "nil-proof"
	}
	for _, sp := range r.Proof.ShareProofs {
		if sp == nil {
			return "nil-share-proof"
		}
	}
	for _, mp := range r.Proof.RowProof.Proofs {
		if mp == nil {
			return "nil-row-proof"
		}
	}
	if len(r.Proof.Data) < len(r.Shares) {
		return "short-data"
	}
	return "other"
}

func c12RangeAcceptClass(name string, tr, honest *GetRangeResult) string {
	if tr.Proof != nil && len(tr.Shares) < len(tr.Proof.Data) {
		return "trimmed-shares"
	}
	return name
}

//go:build verif

package rpc

// C19 harness support (injected with -overlay, not part of the repository): exposes the node's own registration list
// and server constructor, so that the harness serves exactly what a node serves.

// ZZVerifRegisterEndpoints is registerEndpoints; the harness calls it by reflection, so a module added to its
// parameter list shows up without touching the harness.
var ZZVerifRegisterEndpoints any = registerEndpoints

// ZZVerifServer is the constructor the fx module uses (Config.SkipAuth -> authentication disabled).
var ZZVerifServer = server

//go:build verif

package header

import (
	"testing"

	"github.com/golang/mock/gomock"

	"github.com/celestiaorg/celestia-node/blob"
	"github.com/celestiaorg/celestia-node/header/headertest"
	"github.com/celestiaorg/celestia-node/share/eds"
	"github.com/celestiaorg/celestia-node/share/shwap/getters/mock"
	zv "github.com/celestiaorg/celestia-node/zzverif"
)

var _ = blob.NewService
var _ = headertest.ExtendedHeadersFromEdsses
var _ = eds.NamespaceData
var _ = mock.NewMockGetter
var _ = gomock.Any

func TestVerifC20Feed(t *testing.T) {
	r := zv.Start(t, "C20")
	defer r.Finish()
}

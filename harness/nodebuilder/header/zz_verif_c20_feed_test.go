//go:build verif

package header

// C20, second harness: the header feed that the node wires into the blob service (see /verif/DESIGN.md, C20).
//
// The REAL (*Service).Subscribe of this package (the forwarder goroutine: subscription.NextHeader -> blocking send on the
// unbuffered channel, guarded by the context; deferred Cancel + close) is driven
//   - alone ("feed" group): the harness is the reader of the channel;
//   - composed ("compose" group): blob.NewService(nil, getter, byHeight, headerService.Subscribe), wired as in
//     nodebuilder/blob/module.go, over real squares, 1-2 concurrent blob subscriptions.
// Scripted: the libhead.Subscriber / Subscription behind the feed (a queue of ready items like a pubsub subscription:
// headers, or an error), the outcome of every retrieval (the header getter that retrieve calls first blocks until the
// schedule says fail / ok), the consumer, cancel / service stop / source error at any step - including long outages: a
// retrieval that keeps failing while the source makes 18..40 further headers ready, and readers that are 17..40 headers
// behind the feed.
//
// L2: every case (events, the observed channel length and the number of headers NextHeader has handed out at every
//     quiescent point, everything received, how the channels ended) is re-computed by CN.Blob.Feed inside Coq.
// L3: oracles on the implementation: the i-th response (header) received is the one owed for the i-th header the source
//     made ready (no gap, duplicate, reorder, wrong blobs); a header handed out by the source that is neither delivered
//     nor pending anywhere once the forwarder has moved past it is a lost height ("feed:header-dropped" - decided from
//     counters that are stable while the reader is known not to read: no timing involved); the channels close only with a
//     cause and do close when they must.
// All waits are on events; the watchdog fires only on a violation.

import (
	"context"
	"errors"
	"fmt"
	"os"
	"runtime"
	"strconv"
	"sync"
	"sync/atomic"
	"testing"
	"time"
	"unsafe"

	"github.com/golang/mock/gomock"

	"github.com/celestiaorg/celestia-app/v9/pkg/wrapper"
	libhead "github.com/celestiaorg/go-header"
	libshare "github.com/celestiaorg/go-square/v4/share"
	"github.com/celestiaorg/rsmt2d"

	"github.com/celestiaorg/celestia-node/blob"
	"github.com/celestiaorg/celestia-node/header"
	"github.com/celestiaorg/celestia-node/header/headertest"
	"github.com/celestiaorg/celestia-node/share"
	"github.com/celestiaorg/celestia-node/share/eds"
	"github.com/celestiaorg/celestia-node/share/shwap"
	"github.com/celestiaorg/celestia-node/share/shwap/getters/mock"
	zv "github.com/celestiaorg/celestia-node/zzverif"
)

const c20fCoqHeader = `From Coq Require Import List ZArith.
From CN Require Import Blob.Subscribe Blob.Feed.
Import ListNotations.
Open Scope Z_scope.
`

var c20fWatchdog = 20 * time.Second

const c20fCap = 16

// ---------------------------------------------------------------- the scripted source subscription

type c20fItem struct {
	h   *header.ExtendedHeader
	err bool
}

// c20fSource is one libhead.Subscription: a queue of ready items; NextHeader hands out the oldest one or waits.
type c20fSource struct {
	mu      sync.Mutex
	items   []c20fItem
	wake    chan struct{}
	calls   atomic.Int64 // NextHeader calls started
	taken   atomic.Int64 // headers handed out
	errs    atomic.Int64 // source errors handed out
	cancels atomic.Int64 // Cancel() calls
}

func c20fNewSource() *c20fSource { return &c20fSource{wake: make(chan struct{}, 1)} }

func (s *c20fSource) push(it c20fItem) {
	s.mu.Lock()
	s.items = append(s.items, it)
	s.mu.Unlock()
	select {
	case s.wake <- struct{}{}:
	default:
	}
}

func (s *c20fSource) NextHeader(ctx context.Context) (*header.ExtendedHeader, error) {
	s.calls.Add(1)
	for {
		s.mu.Lock()
		if len(s.items) > 0 {
			it := s.items[0]
			s.items = s.items[1:]
			s.mu.Unlock()
			if it.err {
				s.errs.Add(1)
				return nil, errors.New("scripted source failure")
			}
			s.taken.Add(1)
			return it.h, nil
		}
		s.mu.Unlock()
		select {
		case <-s.wake:
		case <-ctx.Done():
			return nil, ctx.Err()
		}
	}
}

func (s *c20fSource) Cancel() { s.cancels.Add(1) }

// c20fSubscriber is the libhead.Subscriber of the header Service under test; every Subscribe hands out the source prepared
// for it.
type c20fSubscriber struct {
	mu   sync.Mutex
	next *c20fSource
}

func (s *c20fSubscriber) Subscribe() (libhead.Subscription[*header.ExtendedHeader], error) {
	s.mu.Lock()
	defer s.mu.Unlock()
	if s.next == nil {
		return nil, errors.New("no scripted source prepared")
	}
	src := s.next
	s.next = nil
	return src, nil
}

func (s *c20fSubscriber) SetVerifier(func(context.Context, *header.ExtendedHeader) error) error {
	return nil
}

// ---------------------------------------------------------------- observing a channel's closed flag without receiving

// c20fhchan mirrors the head of runtime.hchan (go1.26: qcount, dataqsiz, buf, elemsize, closed); layout self-tested per run.
type c20fhchan struct {
	qcount   uint
	dataqsiz uint
	buf      unsafe.Pointer
	elemsize uint16
	closed   uint32
}

func c20fClosedP(p unsafe.Pointer) bool { return atomic.LoadUint32(&(*c20fhchan)(p).closed) != 0 }

func c20fHdrChClosed(ch <-chan *header.ExtendedHeader) bool {
	return c20fClosedP(*(*unsafe.Pointer)(unsafe.Pointer(&ch)))
}

func c20fRespChClosed(ch <-chan *blob.SubscriptionResponse) bool {
	return c20fClosedP(*(*unsafe.Pointer)(unsafe.Pointer(&ch)))
}

func c20fSelfTest() error {
	c := make(chan *header.ExtendedHeader, 16)
	var ro <-chan *header.ExtendedHeader = c
	h := (*c20fhchan)(*(*unsafe.Pointer)(unsafe.Pointer(&ro)))
	c <- nil
	c <- nil
	if h.qcount != 2 || h.dataqsiz != 16 || c20fHdrChClosed(ro) {
		return fmt.Errorf("runtime.hchan layout differs (qcount=%d dataqsiz=%d)", h.qcount, h.dataqsiz)
	}
	close(c)
	if !c20fHdrChClosed(ro) || h.qcount != 2 {
		return errors.New("runtime.hchan layout differs (closed flag)")
	}
	u := make(chan *header.ExtendedHeader)
	var rou <-chan *header.ExtendedHeader = u
	if c20fHdrChClosed(rou) {
		return errors.New("runtime.hchan layout differs (unbuffered)")
	}
	close(u)
	if !c20fHdrChClosed(rou) {
		return errors.New("runtime.hchan layout differs (unbuffered, closed flag)")
	}
	return nil
}

// c20fPause is the body of every polling loop (only the test's goroutine polls): mostly a yield, now and then a short sleep.
var c20fPauses int

func c20fPause() {
	runtime.Gosched()
	if c20fPauses++; c20fPauses%48 == 0 {
		time.Sleep(20 * time.Microsecond)
	}
}

// c20fYield gives the goroutines under test a moment. It synchronises nothing (on the code as it is nothing can happen
// during it); it only lets a forwarder that does NOT wait for its reader run ahead, so that what it does becomes visible.
func c20fYield(src *c20fSource, upto int) {
	for k := 0; k < 300 && int(src.taken.Load()) < upto; k++ {
		runtime.Gosched()
	}
}

// ---------------------------------------------------------------- the block pool (real squares, real headers)

type c20fPool struct {
	nss     []libshare.Namespace
	headers []*header.ExtendedHeader
	edsses  []*rsmt2d.ExtendedDataSquare
	ids     [][][]int64 // ids[height-1][ns] = ids of the blobs of that namespace at that height, in square order
}

func c20fID(com []byte) int64 {
	var x int64
	for i := 0; i < 6 && i < len(com); i++ {
		x = x<<8 | int64(com[i])
	}
	return x
}

func c20fBuildPool(t *testing.T, rng *zv.Rand, n int) *c20fPool {
	p := &c20fPool{}
	for i := 0; i < 3; i++ {
		ns, err := libshare.NewV0Namespace([]byte{0x10, 0, 0, 0, 0, 0, 0, 0, 0, byte(0x20 + 0x10*i)})
		if err != nil {
			t.Fatal(err)
		}
		p.nss = append(p.nss, ns)
	}
	for h := 0; h < n; h++ {
		var blobs []*blob.Blob
		ids := make([][]int64, 3)
		for k := 0; k < 2; k++ { // namespace 2 never has blobs
			cnt := rng.Intn(3)
			for j := 0; j < cnt; j++ {
				b, err := blob.NewBlobV0(p.nss[k], rng.Bytes(1+rng.Intn(200)))
				if err != nil {
					t.Fatal(err)
				}
				blobs = append(blobs, b)
				ids[k] = append(ids[k], c20fID(b.Commitment))
			}
		}
		shares, err := blob.BlobsToShares(blobs...)
		if err != nil {
			t.Fatal(err)
		}
		ods := 1
		for ods*ods < len(shares) {
			ods *= 2
		}
		shares = append(shares, libshare.TailPaddingShares(ods*ods-len(shares))...)
		sq, err := rsmt2d.ComputeExtendedDataSquare(libshare.ToBytes(shares), share.DefaultRSMT2DCodec(), wrapper.NewConstructor(uint64(ods)))
		if err != nil {
			t.Fatal(err)
		}
		p.edsses = append(p.edsses, sq)
		p.ids = append(p.ids, ids)
	}
	p.headers = headertest.ExtendedHeadersFromEdsses(t, p.edsses)
	return p
}

// ---------------------------------------------------------------- recorded cases

type c20fEv struct {
	Kind  string `json:"kind"` // publish | puberr | next | feedtick | recv | handoff | cancel | fail | ok | send | tick | consume | stop
	H     int    `json:"h,omitempty"`
	Obs   bool   `json:"obs,omitempty"` // QLen / Taken were observed after this event (a quiescent point)
	QLen  int    `json:"qlen,omitempty"`
	Taken int    `json:"taken,omitempty"`
}

type c20fResp struct {
	Height int64   `json:"height"`
	IDs    []int64 `json:"ids"`
}

type c20fSubJS struct {
	NS      int        `json:"ns"`
	Events  []c20fEv   `json:"events"`
	Got     []c20fResp `json:"got"`
	Closed  bool       `json:"closed"`
	FClosed bool       `json:"feed_closed"`
}

type c20fCase struct {
	Kind string      `json:"kind"` // "feed" | "compose"
	Seed uint64      `json:"seed"`
	Subs []c20fSubJS `json:"subs"`
}

// ================================================================ part 1: the feed alone

type c20fAlone struct {
	r    *zv.Run
	seed uint64
	bad  bool

	src    *c20fSource
	ch     <-chan *header.ExtendedHeader
	cancel context.CancelFunc
	hdrs   []*header.ExtendedHeader

	// reference state, mirrors fstate of Blob/Feed.v
	pc        string // wait | hold | closed
	srcq      []int  // ready in the source: index into hdrs + 1, or -1 = error
	cancelled bool
	published []int
	taken     int

	events []c20fEv
	got    []c20fResp
}

func (x *c20fAlone) snapshot() c20fCase {
	return c20fCase{Kind: "feed", Seed: x.seed, Subs: []c20fSubJS{{Events: x.events, Got: x.got, FClosed: x.pc == "closed"}}}
}

func (x *c20fAlone) violation(sig, desc string) {
	x.bad = true
	x.r.Violation(sig, desc, x.snapshot())
}

func (x *c20fAlone) observe() {
	if n := len(x.events); n > 0 {
		x.events[n-1].Obs = true
		x.events[n-1].Taken = int(x.src.taken.Load())
	}
}

func (x *c20fAlone) waitTaken(n int) bool {
	deadline := time.Now().Add(c20fWatchdog)
	for int(x.src.taken.Load()) < n {
		if time.Now().After(deadline) {
			x.violation("feed:header-not-taken", fmt.Sprintf("the forwarder waits in NextHeader, the source has header %d ready: it was not taken", n))
			return false
		}
		c20fPause()
	}
	return true
}

func (x *c20fAlone) waitClosed(what string) bool {
	deadline := time.Now().Add(c20fWatchdog)
	for !(x.src.cancels.Load() >= 1 && c20fHdrChClosed(x.ch)) {
		if time.Now().After(deadline) {
			x.violation("feed:not-closed", fmt.Sprintf("%s: the feed did not cancel its subscription and close its channel (Cancel calls %d, closed %v)", what, x.src.cancels.Load(), c20fHdrChClosed(x.ch)))
			return false
		}
		c20fPause()
	}
	// whatever is still readable after the closing (nothing, for an unbuffered channel)
	for {
		h, open := <-x.ch
		if !open {
			break
		}
		x.got = append(x.got, c20fResp{Height: int64(h.Height()), IDs: []int64{}})
	}
	x.pc = "closed"
	return true
}

func (x *c20fAlone) settle() {
	for !x.bad {
		switch {
		case x.pc != "closed" && x.cancelled:
			x.events = append(x.events, c20fEv{Kind: "feedtick"})
			if !x.waitClosed("context cancelled") {
				return
			}
		case x.pc == "wait" && len(x.srcq) > 0:
			it := x.srcq[0]
			x.srcq = x.srcq[1:]
			x.events = append(x.events, c20fEv{Kind: "next"})
			if it < 0 {
				if !x.waitClosed("NextHeader returned an error") {
					return
				}
			} else {
				x.taken++
				x.pc = "hold"
				if !x.waitTaken(x.taken) {
					return
				}
			}
		default:
			if x.pc != "closed" && (x.src.cancels.Load() > 0 || c20fHdrChClosed(x.ch)) {
				x.violation("feed:closed-without-cause", "the feed closed although its context is live and the source returned no error")
				return
			}
			if len(x.srcq) >= c20fCap {
				c20fYield(x.src, len(x.published))
			}
			x.observe()
			return
		}
	}
}

func (x *c20fAlone) publish() {
	i := len(x.published)
	if i >= len(x.hdrs) {
		return
	}
	x.published = append(x.published, i+1)
	x.srcq = append(x.srcq, i+1)
	x.events = append(x.events, c20fEv{Kind: "publish", H: i + 1})
	x.src.push(c20fItem{h: x.hdrs[i]})
	x.settle()
}

func (x *c20fAlone) publishErr() {
	x.srcq = append(x.srcq, -1)
	x.events = append(x.events, c20fEv{Kind: "puberr"})
	x.src.push(c20fItem{err: true})
	x.settle()
}

// recv: the forwarder holds header number i (0-based): the reader receives it.
func (x *c20fAlone) recv() {
	i := len(x.got)
	want := x.published[i]
	deadline := time.Now().Add(c20fWatchdog)
	for {
		var h *header.ExtendedHeader
		var open, have bool
		select {
		case h, open = <-x.ch:
			have = true
		default:
		}
		if !have && int(x.src.calls.Load()) >= i+2 {
			// NextHeader was called again after it had returned header i: the forwarder is past its select for header i.
			// The header was then sent to this reader (the only one) or it is in the channel - or it is gone.
			select {
			case h, open = <-x.ch:
				have = true
			default:
				x.violation("feed:header-dropped", fmt.Sprintf(
					"feed alone: header %d (height %d) was handed out by the source, the forwarder went on to ask for the next one (NextHeader calls %d, handed out %d), "+
						"yet the reader never received it and the channel is empty: the height is lost (received so far: %d headers)",
					i, x.hdrs[want-1].Height(), x.src.calls.Load(), x.src.taken.Load(), len(x.got)))
				return
			}
		}
		if have {
			if !open {
				x.violation("feed:closed-without-cause", fmt.Sprintf("feed alone: the channel is closed although header %d is in the forwarder's hand and nothing ended the feed", i))
				return
			}
			x.got = append(x.got, c20fResp{Height: int64(h.Height()), IDs: []int64{}})
			if h != x.hdrs[want-1] {
				kind := "feed:gap"
				for _, p := range x.published[:i] {
					if x.hdrs[p-1] == h {
						kind = "feed:duplicate-or-reorder"
					}
				}
				x.violation(kind, fmt.Sprintf("feed alone: the reader received height %d as its header number %d, the source made height %d ready at that position", h.Height(), i, x.hdrs[want-1].Height()))
				return
			}
			x.pc = "wait"
			x.events = append(x.events, c20fEv{Kind: "recv"})
			x.settle()
			return
		}
		if time.Now().After(deadline) {
			x.violation("feed:header-not-sent", fmt.Sprintf("feed alone: header %d is in the forwarder's hand and the reader is receiving: nothing arrived", i))
			return
		}
		c20fPause()
	}
}

func (x *c20fAlone) doCancel() {
	x.cancel()
	x.cancelled = true
	x.events = append(x.events, c20fEv{Kind: "cancel"})
	x.settle()
}

func c20fRunAlone(r *zv.Run, hdrs []*header.ExtendedHeader, seed uint64) *c20fAlone {
	rng := zv.NewRand(seed)
	x := &c20fAlone{r: r, seed: seed, hdrs: hdrs, pc: "wait", src: c20fNewSource()}
	hs := &Service{sub: &c20fSubscriber{next: x.src}}
	ctx, cancel := context.WithCancel(context.Background())
	x.cancel = cancel
	ch, err := hs.Subscribe(ctx) // the real feed
	if err != nil {
		x.violation("harness", "Subscribe: "+err.Error())
		return x
	}
	x.ch = ch
	defer func() {
		cancel()
		deadline := time.Now().Add(c20fWatchdog)
		for !c20fHdrChClosed(ch) && time.Now().Before(deadline) {
			c20fPause()
		}
	}()
	mode := rng.Intn(4) // 0 lockstep, 1 slow reader, 2 bursts of 17..40 with no read, 3 mixed
	steps := 10 + rng.Intn(60)
	endAt := steps
	if rng.Chance(50) {
		endAt = rng.Intn(steps)
	}
	erred := false
	r.Count("feed-mode", []string{"lockstep", "slow-reader", "bursts", "mixed"}[mode])
	for step := 0; step < steps && !x.bad && x.pc != "closed"; step++ {
		if step == endAt {
			if rng.Bool() {
				r.Count("feed-end", "cancel@"+x.pc)
				x.doCancel()
			} else if !erred {
				erred = true
				r.Count("feed-end", "source-error@"+x.pc)
				x.publishErr()
			}
			continue
		}
		canRecv := x.pc == "hold"
		pRecv := 50
		switch mode {
		case 0:
			pRecv = 90
		case 1:
			pRecv = 20
		case 2:
			if len(x.srcq) == 0 && rng.Chance(30) && !erred {
				n := 17 + rng.Intn(24)
				r.Count("feed-event", "burst")
				for k := 0; k < n && !x.bad; k++ {
					x.publish()
				}
				continue
			}
			pRecv = 80
		}
		if canRecv && rng.Chance(pRecv) {
			r.Count("feed-event", "recv")
			x.recv()
		} else if !erred {
			r.Count("feed-event", "publish")
			x.publish()
		}
	}
	// most of the time: the reader catches up with everything the source made ready
	if !x.bad && x.pc != "closed" && rng.Chance(75) {
		for x.pc == "hold" && !x.bad {
			x.recv()
		}
		if !x.bad && x.pc == "wait" && len(x.got) != len(x.published) {
			x.violation("feed:gap", fmt.Sprintf("feed alone: the reader caught up and received %d headers, the source made %d ready", len(x.got), len(x.published)))
		}
	}
	if len(x.published)-len(x.got) >= 17 {
		r.Count("feed-final", "reader-17-or-more-behind")
	}
	r.Count("feed-final", "pc="+x.pc)
	return x
}

func c20fHdrTerm(height int64, ids []int64) string {
	zs := make([]string, len(ids))
	for k, v := range ids {
		zs[k] = zv.Z(v)
	}
	return zv.Tuple(zv.Z(height), zv.List(zs))
}

// c20fAloneTerm writes the case in the compact form of CN.Blob.Feed.feed_case_z (one number per event).
func c20fAloneTerm(x *c20fAlone) string {
	evs := make([]string, len(x.events))
	for j, e := range x.events {
		var code int64
		switch e.Kind {
		case "publish":
			code = 0 + 8*int64(x.hdrs[e.H-1].Height())
		case "puberr":
			code = 1
		case "next":
			code = 2
		case "recv":
			code = 3
		case "feedtick":
			code = 4
		case "cancel":
			code = 5
		}
		if e.Obs {
			code += 1024 * int64(e.Taken+1)
		}
		evs[j] = strconv.FormatInt(code, 10)
	}
	got := make([]string, len(x.got))
	for j, g := range x.got {
		got[j] = strconv.FormatInt(g.Height, 10)
	}
	return zv.Tuple(zv.List(evs), zv.List(got), zv.Bool(x.pc == "closed"))
}

// ================================================================ part 2: the feed wired into the real blob service

type c20fKey struct{}

type c20fSub struct {
	idx     int
	ns      int
	ctx     context.Context
	cancel  context.CancelFunc
	src     *c20fSource
	feedCh  <-chan *header.ExtendedHeader // the channel the real feed returned to the blob service
	calls   chan uint64                   // a getAll call reached the header getter (height)
	outcome chan bool                     // scripted result of that call
	ch      <-chan *blob.SubscriptionResponse

	// reference state, mirrors cstate of Blob/Feed.v
	fpc       string // wait | hold | closed
	hold      int
	srcq      []int // heights ready in the source, -1 = error
	bpc       string // idle | retry | closed
	cur       int
	queue     int
	cancelled bool
	stopped   bool
	fclosed   bool
	erred     bool
	published []int // heights the source made ready, in order
	delivered []int // heights handed to the blob producer
	taken     int
	nrecv     int

	events []c20fEv
	got    []c20fResp
	closed bool

	pace, fmode   int
	outageLeft    int // long outage: headers the source still makes ready before the retrieval recovers
	failing       bool
	sawLongOutage bool
}

type c20fComp struct {
	r    *zv.Run
	pool *c20fPool
	svc  *blob.Service
	hsub *c20fSubscriber
	subs []*c20fSub
	bad  bool
	seed uint64
}

func (x *c20fComp) snapshot() c20fCase {
	c := c20fCase{Kind: "compose", Seed: x.seed}
	for _, s := range x.subs {
		c.Subs = append(c.Subs, c20fSubJS{NS: s.ns, Events: s.events, Got: s.got, Closed: s.closed, FClosed: s.fpc == "closed"})
	}
	return c
}

func (x *c20fComp) violation(sig, desc string) {
	x.bad = true
	x.r.Violation(sig, desc, x.snapshot())
}

func c20fNewComp(t *testing.T, r *zv.Run, pool *c20fPool, seed uint64) *c20fComp {
	x := &c20fComp{r: r, pool: pool, seed: seed, hsub: &c20fSubscriber{}}
	headerServ := &Service{sub: x.hsub}
	byHeight := func(ctx context.Context, height uint64) (*header.ExtendedHeader, error) {
		if s, ok := ctx.Value(c20fKey{}).(*c20fSub); ok {
			s.calls <- height
			res, open := <-s.outcome
			if !open || !res {
				return nil, errors.New("scripted retrieval failure")
			}
		}
		if height == 0 || int(height) > len(pool.headers) {
			return nil, errors.New("no such header")
		}
		return pool.headers[height-1], nil
	}
	// as nodebuilder/blob/module.go: the header service's Subscribe is the blob service's header feed
	// (the wrapper only notes which channel the real Subscribe returned)
	subscribeFn := func(ctx context.Context) (<-chan *header.ExtendedHeader, error) {
		ch, err := headerServ.Subscribe(ctx)
		if s, ok := ctx.Value(c20fKey{}).(*c20fSub); ok {
			s.feedCh = ch
		}
		return ch, err
	}
	getter := mock.NewMockGetter(gomock.NewController(t))
	getter.EXPECT().GetNamespaceData(gomock.Any(), gomock.Any(), gomock.Any()).AnyTimes().
		DoAndReturn(func(ctx context.Context, h *header.ExtendedHeader, ns libshare.Namespace) (shwap.NamespaceData, error) {
			return eds.NamespaceData(context.Background(), &eds.Rsmt2D{ExtendedDataSquare: pool.edsses[h.Height()-1]}, ns)
		})
	x.svc = blob.NewService(nil, getter, byHeight, subscribeFn)
	return x
}

func (x *c20fComp) subscribe(idx, ns int) bool {
	s := &c20fSub{idx: idx, ns: ns, src: c20fNewSource(), calls: make(chan uint64, 4096), outcome: make(chan bool), fpc: "wait", bpc: "idle"}
	s.ctx, s.cancel = context.WithCancel(context.WithValue(context.Background(), c20fKey{}, s))
	x.hsub.mu.Lock()
	x.hsub.next = s.src
	x.hsub.mu.Unlock()
	ch, err := x.svc.Subscribe(s.ctx, x.pool.nss[ns])
	if err != nil || s.feedCh == nil {
		x.violation("harness", fmt.Sprintf("Subscribe: %v", err))
		return false
	}
	s.ch = ch
	x.subs = append(x.subs, s)
	return true
}

func (s *c20fSub) ended() bool { return s.cancelled || s.stopped }

func (s *c20fSub) ev(kind string, h int) { s.events = append(s.events, c20fEv{Kind: kind, H: h}) }

func (s *c20fSub) observe() {
	if n := len(s.events); n > 0 {
		s.events[n-1].Obs = true
		s.events[n-1].QLen = len(s.ch)
		s.events[n-1].Taken = int(s.src.taken.Load())
	}
}

// check: one response received; it must be the response owed for the next header the source made ready.
func (x *c20fComp) check(s *c20fSub, resp *blob.SubscriptionResponse) {
	got := c20fResp{IDs: []int64{}}
	if resp != nil {
		got.Height = int64(resp.Height)
		for _, b := range resp.Blobs {
			got.IDs = append(got.IDs, c20fID(b.Commitment))
		}
	}
	s.got = append(s.got, got)
	i := s.nrecv
	s.nrecv++
	if i >= len(s.published) {
		x.violation("feed:response-without-header", fmt.Sprintf("sub %d: response %d (height %d) although the source made only %d headers ready", s.idx, i, got.Height, len(s.published)))
		return
	}
	h := s.published[i]
	want := x.pool.ids[h-1][s.ns]
	okIDs := len(want) == len(got.IDs)
	for k := 0; okIDs && k < len(want); k++ {
		okIDs = want[k] == got.IDs[k]
	}
	if resp == nil || got.Height != int64(h) || resp.Header != &x.pool.headers[h-1].RawHeader || !okIDs {
		kind := "feed:wrong-blobs"
		if got.Height != int64(h) {
			kind = "feed:gap"
			for _, p := range s.published[:i] {
				if int64(p) == got.Height {
					kind = "feed:duplicate-or-reorder"
				}
			}
		}
		x.violation(kind, fmt.Sprintf(
			"sub %d (namespace %d): response %d carries height %d blobs %v; owed is height %d blobs %v - the source made ready, in order, %v",
			s.idx, s.ns, i, got.Height, got.IDs, h, want, s.published))
	}
}

// lostCheck: while the producer is known not to read the feed (it is inside a retrieval the harness holds), the counters
// of the source are stable once the forwarder is back in NextHeader. A header handed out by the source that was neither
// handed to the producer nor sits in the feed's channel is then lost for good.
func (x *c20fComp) lostCheck(s *c20fSub) {
	if s.bpc != "retry" || s.fpc == "closed" {
		return
	}
	t := int(s.src.taken.Load())
	c := int(s.src.calls.Load())
	if c <= t {
		return // the forwarder may still have the newest header in its hand
	}
	l := len(s.feedCh)
	if lost := t - len(s.delivered) - l; lost > 0 {
		x.violation("feed:header-dropped", fmt.Sprintf(
			"sub %d: the source handed out %d headers (heights %v) and the forwarder is asking for the next one; the blob subscription has received %d of them "+
				"(it is inside the retrieval of height %d and reads nothing), %d sit in the feed's channel (capacity %d): %d heights are lost between the source and the subscription",
			s.idx, t, s.published[:min(t, len(s.published))], len(s.delivered), s.cur, l, cap(s.feedCh), lost))
	}
}

func (x *c20fComp) waitTaken(s *c20fSub, n int) bool {
	deadline := time.Now().Add(c20fWatchdog)
	for int(s.src.taken.Load()) < n {
		if time.Now().After(deadline) {
			x.violation("feed:header-not-taken", fmt.Sprintf("sub %d: the forwarder waits in NextHeader and the source has its header number %d ready: it was not taken", s.idx, n))
			return false
		}
		c20fPause()
	}
	return true
}

func (x *c20fComp) waitFeedClosed(s *c20fSub, what string) bool {
	deadline := time.Now().Add(c20fWatchdog)
	for !(s.src.cancels.Load() >= 1 && c20fHdrChClosed(s.feedCh)) {
		if time.Now().After(deadline) {
			x.violation("feed:not-closed", fmt.Sprintf("sub %d: %s: the feed did not cancel its subscription and close its channel", s.idx, what))
			return false
		}
		c20fPause()
	}
	s.fpc = "closed"
	s.fclosed = true
	return true
}

// waitClosed waits until the producer has closed the response channel, then reads what it left in it.
func (x *c20fComp) waitClosed(s *c20fSub, kind string, h int, sig, what string, alsoCalls bool) bool {
	deadline := time.Now().Add(c20fWatchdog)
	for !c20fRespChClosed(s.ch) {
		if alsoCalls {
			select {
			case hh := <-s.calls:
				x.violation(sig, fmt.Sprintf("sub %d: %s: the producer started another retrieval (height %d) instead of closing the stream", s.idx, what, hh))
				return false
			default:
			}
		}
		if time.Now().After(deadline) {
			x.violation("not-closed", fmt.Sprintf("sub %d: %s: the stream was not closed within the watchdog", s.idx, what))
			return false
		}
		c20fPause()
	}
	n := len(s.ch)
	s.ev(kind, h)
	for k := n - 1; k >= 0; k-- {
		resp, open := <-s.ch
		if !open {
			x.violation("response-lost", fmt.Sprintf("sub %d: %d responses were buffered at the closing, fewer could be read", s.idx, n))
			return false
		}
		x.check(s, resp)
		if x.bad {
			return false
		}
		s.ev("consume", 0)
	}
	if _, open := <-s.ch; open {
		x.violation("feed:response-without-header", fmt.Sprintf("sub %d: a response appeared after the stream was closed", s.idx))
		return false
	}
	s.queue = 0
	s.bpc, s.closed = "closed", true
	return true
}

func (x *c20fComp) waitCall(s *c20fSub, h int, what string) bool {
	deadline := time.Now().Add(c20fWatchdog)
	for {
		select {
		case hh := <-s.calls:
			if int(hh) != h {
				sig := "feed:duplicate-or-reorder"
				pos := len(s.delivered) // h is the newest delivered height
				for _, p := range s.published[min(pos, len(s.published)):] {
					if p == int(hh) {
						sig = "feed:gap"
					}
				}
				x.violation(sig, fmt.Sprintf(
					"sub %d: %s: the producer started the retrieval of height %d; the next height the source made ready is %d and it has not been retrieved: "+
						"it is skipped (source order %v, handed to the producer so far %v)", s.idx, what, hh, h, s.published, s.delivered))
				return false
			}
			return true
		default:
		}
		if c20fRespChClosed(s.ch) {
			x.violation("closed-without-cause", fmt.Sprintf(
				"sub %d: %s: the stream was closed instead of retrieving height %d (cancel=%v stop=%v feedclosed=%v unread=%d)",
				s.idx, what, h, s.cancelled, s.stopped, s.fclosed, s.queue))
			return false
		}
		if len(s.ch) > s.queue {
			x.violation("response-without-retrieval", fmt.Sprintf("sub %d: %s: a response was sent for height %d although its retrieval has not succeeded", s.idx, what, h))
			return false
		}
		if time.Now().After(deadline) {
			x.violation("feed:gap", fmt.Sprintf("sub %d: %s: no retrieval for height %d was started although the source handed it out (source order %v, handed to the producer so far %v)",
				s.idx, what, h, s.published, s.delivered))
			return false
		}
		c20fPause()
	}
}

// settle runs the internal steps that the composition takes on its own until every goroutine is blocked, waiting for the
// observable effect of each one.
func (x *c20fComp) settle(s *c20fSub) {
	for !x.bad {
		switch {
		case s.bpc == "idle" && (s.cancelled || s.stopped || s.fclosed):
			if !x.waitClosed(s, "tick", 0, "not-closed", fmt.Sprintf("producer idle with cancel=%v stop=%v feedclosed=%v", s.cancelled, s.stopped, s.fclosed), false) {
				return
			}
		case s.fpc != "closed" && s.cancelled:
			s.ev("feedtick", 0)
			if !x.waitFeedClosed(s, "context cancelled") {
				return
			}
		case s.fpc == "wait" && len(s.srcq) > 0:
			it := s.srcq[0]
			s.srcq = s.srcq[1:]
			s.ev("next", 0)
			if it < 0 {
				if !x.waitFeedClosed(s, "NextHeader returned an error") {
					return
				}
			} else {
				s.taken++
				s.fpc, s.hold = "hold", it
				if !x.waitTaken(s, s.taken) {
					return
				}
			}
		case s.fpc == "hold" && s.bpc == "idle":
			h := s.hold
			s.fpc = "wait"
			s.delivered = append(s.delivered, h)
			if s.queue == c20fCap {
				if !x.waitClosed(s, "handoff", 0, "not-closed", fmt.Sprintf("header %d handed over with %d responses unread", h, s.queue), false) {
					return
				}
			} else {
				s.bpc, s.cur = "retry", h
				if !x.waitCall(s, h, "after the header was handed over") {
					return
				}
				s.ev("handoff", 0)
			}
		default:
			if s.fpc != "closed" && (s.src.cancels.Load() > 0 || c20fHdrChClosed(s.feedCh)) {
				x.violation("feed:closed-without-cause", fmt.Sprintf("sub %d: the feed closed although the subscriber's context is live and the source returned no error", s.idx))
				return
			}
			if len(s.srcq) >= c20fCap {
				c20fYield(s.src, len(s.published))
			}
			x.lostCheck(s)
			s.observe()
			return
		}
	}
}

// ---- the stimuli

func (x *c20fComp) evPublish(s *c20fSub, h int) {
	s.published = append(s.published, h)
	s.srcq = append(s.srcq, h)
	s.ev("publish", h)
	s.src.push(c20fItem{h: x.pool.headers[h-1]})
	x.settle(s)
}

func (x *c20fComp) evPublishErr(s *c20fSub) {
	s.erred = true
	s.srcq = append(s.srcq, -1)
	s.ev("puberr", 0)
	s.src.push(c20fItem{err: true})
	x.settle(s)
}

func (x *c20fComp) evOutcome(s *c20fSub, ok bool) {
	kind := "fail"
	if ok {
		kind = "ok"
	}
	select {
	case s.outcome <- ok:
	case <-time.After(c20fWatchdog):
		x.violation("harness", "no retrieval in flight")
		return
	}
	if s.ended() {
		sig := "cancel-ignored-while-retrying"
		if !s.cancelled {
			sig = "stop-ignored-while-retrying"
		}
		if x.waitClosed(s, kind, 0, sig, fmt.Sprintf("retrieval of height %d returned (ok=%v) after cancel=%v stop=%v", s.cur, ok, s.cancelled, s.stopped), true) {
			x.settle(s)
		}
		return
	}
	if !ok {
		if !x.waitCall(s, s.cur, "after a failed retrieval") {
			return
		}
		s.ev("fail", 0)
		x.settle(s)
		return
	}
	deadline := time.Now().Add(c20fWatchdog)
	for len(s.ch) != s.queue+1 {
		if time.Now().After(deadline) {
			x.violation("response-not-sent", fmt.Sprintf("sub %d: the response for height %d was not sent (channel length %d, expected %d)", s.idx, s.cur, len(s.ch), s.queue+1))
			return
		}
		c20fPause()
	}
	s.ev("ok", 0)
	s.queue++
	s.bpc = "idle"
	s.ev("send", 0)
	x.settle(s)
}

func (x *c20fComp) evConsume(s *c20fSub) {
	select {
	case resp, open := <-s.ch:
		if !open {
			x.violation("closed-without-cause", fmt.Sprintf("sub %d: the stream is closed although %d responses are unread and nothing ended it", s.idx, s.queue))
			return
		}
		x.check(s, resp)
	case <-time.After(c20fWatchdog):
		x.violation("response-lost", fmt.Sprintf("sub %d: %d responses should be readable, none arrived", s.idx, s.queue))
		return
	}
	s.queue--
	s.ev("consume", 0)
	if !x.bad {
		x.settle(s)
	}
}

func (x *c20fComp) evCancel(s *c20fSub) {
	s.cancel()
	s.cancelled = true
	s.ev("cancel", 0)
	x.settle(s)
}

func (x *c20fComp) evStop() {
	if err := x.svc.Stop(context.Background()); err != nil {
		x.violation("harness", "Stop: "+err.Error())
		return
	}
	for _, s := range x.subs {
		s.stopped = true
		s.ev("stop", 0)
	}
	for _, s := range x.subs {
		if !x.bad {
			x.settle(s)
		}
	}
}

func (x *c20fComp) cleanup() {
	for _, s := range x.subs {
		s.cancel()
		close(s.outcome)
	}
	_ = x.svc.Stop(context.Background())
	for _, s := range x.subs {
		deadline := time.After(c20fWatchdog)
	drain:
		for {
			select {
			case _, open := <-s.ch:
				if !open {
					break drain
				}
			case <-s.calls:
			case <-deadline:
				break drain
			}
		}
		until := time.Now().Add(c20fWatchdog)
		for !c20fHdrChClosed(s.feedCh) && time.Now().Before(until) {
			c20fPause()
		}
	}
}

func c20fRunComp(t *testing.T, r *zv.Run, pool *c20fPool, seed uint64) *c20fComp {
	rng := zv.NewRand(seed)
	x := c20fNewComp(t, r, pool, seed)
	if err := x.svc.Start(context.Background()); err != nil {
		t.Fatal(err)
	}
	defer x.cleanup()
	nsubs := 1 + rng.Intn(2)
	perm := []int{0, 1, 2}
	for i := 2; i > 0; i-- {
		j := rng.Intn(i + 1)
		perm[i], perm[j] = perm[j], perm[i]
	}
	outageCase := rng.Chance(45)
	for i := 0; i < nsubs; i++ {
		if !x.subscribe(i, perm[i]) {
			return x
		}
		s := x.subs[i]
		s.pace = rng.Intn(3)  // 0 fast, 1 slow, 2 stalled
		s.fmode = rng.Intn(4) // 0 never fails, 1 sometimes, 2 bursts, 3 keeps failing once it starts
		if outageCase && (i == 0 || rng.Bool()) {
			s.fmode = 4 // long outage: once a retrieval fails it keeps failing while the source makes 18..40 more headers ready
			if s.pace == 2 {
				s.pace = rng.Intn(2)
			}
		}
	}
	next := make([]int, nsubs)
	for i := range next {
		next[i] = 1 + rng.Intn(3)
	}
	stopped := false
	steps := 15 + rng.Intn(70)
	if outageCase {
		steps = 150 + rng.Intn(120)
	} else if rng.Chance(25) {
		steps = 90 + rng.Intn(60)
	}
	endAt := steps
	if rng.Chance(60) {
		endAt = rng.Intn(steps)
	}
	for step := 0; step < steps && !x.bad; step++ {
		i := rng.Intn(nsubs)
		s := x.subs[i]
		if step == endAt {
			switch rng.Intn(3) {
			case 0:
				if s.bpc != "closed" && !s.cancelled {
					r.Count("end", "cancel@"+s.bpc+"/"+s.fpc)
					x.evCancel(s)
				}
			case 1:
				if !stopped {
					stopped = true
					for _, q := range x.subs {
						r.Count("end", "stop@"+q.bpc+"/"+q.fpc)
					}
					x.evStop()
				}
			default:
				if s.bpc != "closed" && !s.erred && s.fpc != "closed" {
					r.Count("end", "source-error@"+s.bpc+"/"+s.fpc)
					x.evPublishErr(s)
				}
			}
			continue
		}
		if s.bpc == "closed" {
			continue
		}
		// what the source does: in an outage it goes on producing; otherwise it is mostly a little ahead of the subscription
		publishable := !s.erred && s.fpc != "closed"
		pPublish := 35
		if s.outageLeft > 0 {
			pPublish = 85
		} else if len(s.srcq) > 3 {
			pPublish = 10
		}
		if s.bpc == "idle" && s.queue == 0 {
			pPublish = 100 // nothing else can happen
		}
		if publishable && rng.Chance(pPublish) {
			h := next[i]
			if rng.Chance(3) || h > len(pool.headers) { // the source is not this harness's to order: repeats and jumps too
				h = 1 + rng.Intn(len(pool.headers))
			}
			next[i] = h + 1
			r.Count("event", "publish")
			x.evPublish(s, h)
			if s.outageLeft > 0 {
				s.outageLeft--
			}
			continue
		}
		switch s.bpc {
		case "retry":
			if s.pace != 2 && s.queue > 0 && rng.Chance(map[int]int{0: 60, 1: 25}[s.pace]) {
				r.Count("event", "consume")
				x.evConsume(s)
				continue
			}
			fail := false
			switch s.fmode {
			case 1:
				fail = rng.Chance(30)
			case 2:
				if s.failing {
					fail = rng.Chance(80)
				} else {
					fail = rng.Chance(15)
				}
			case 3:
				fail = s.failing || rng.Chance(10)
			case 4:
				if s.outageLeft > 0 {
					fail = true
				} else if !s.failing && !s.sawLongOutage && rng.Chance(35) {
					fail = true
					s.outageLeft = 18 + rng.Intn(23)
					s.sawLongOutage = true
					r.Count("event", "long-outage-begins")
				}
			}
			if s.ended() && s.fmode != 0 && rng.Chance(70) {
				fail = true
			}
			s.failing = fail
			r.Count("event", map[bool]string{true: "getall-fail", false: "getall-ok"}[fail])
			x.evOutcome(s, !fail)
		case "idle":
			wantConsume := false
			switch s.pace {
			case 0:
				wantConsume = s.queue > 0 && rng.Chance(85)
			case 1:
				wantConsume = s.queue > 0 && rng.Chance(30)
			}
			if wantConsume {
				r.Count("event", "consume")
				x.evConsume(s)
			}
		}
	}
	// most of the time: every retrieval recovers and the consumer reads everything - then every header of the source is owed
	if !x.bad && rng.Chance(70) {
		for _, s := range x.subs {
			for guard := 0; guard < 400 && !x.bad && s.bpc != "closed"; guard++ {
				if s.queue > 0 {
					x.evConsume(s)
				} else if s.bpc == "retry" {
					x.evOutcome(s, true)
				} else {
					break
				}
			}
			if !x.bad && s.bpc == "idle" && s.fpc == "wait" && s.nrecv != len(s.published) {
				x.violation("feed:gap", fmt.Sprintf("sub %d: everything recovered and was read: %d responses for %d headers of the source", s.idx, s.nrecv, len(s.published)))
			}
			if !x.bad && s.bpc == "idle" {
				r.Count("final", "caught-up")
				if s.sawLongOutage {
					r.Count("final", "caught-up-after-long-outage")
				}
			}
		}
	}
	if !x.bad {
		for _, s := range x.subs {
			// what was sent is read in any case (the model is compared on everything that was sent)
			for s.bpc != "closed" && s.queue > 0 && !x.bad {
				x.evConsume(s)
			}
			if x.bad {
				break
			}
			if s.bpc != "closed" {
				if c20fRespChClosed(s.ch) {
					x.violation("closed-without-cause", fmt.Sprintf("sub %d: the stream is closed at the end although nothing ended it (cancel=%v stop=%v feedclosed=%v pc=%s)", s.idx, s.cancelled, s.stopped, s.fclosed, s.bpc))
				} else if len(s.ch) != s.queue {
					x.violation("feed:response-without-header", fmt.Sprintf("sub %d: %d responses are readable at the end, %d were sent", s.idx, len(s.ch), s.queue))
				}
			}
			r.Count("final", fmt.Sprintf("producer=%s feed=%s", s.bpc, s.fpc))
			if s.sawLongOutage {
				r.Count("final", "with-long-outage")
			}
		}
	}
	return x
}

func c20fCompTerm(x *c20fComp) string {
	subs := make([]string, len(x.subs))
	for i, s := range x.subs {
		evs := make([]string, len(s.events))
		for j, e := range s.events {
			var et string
			switch e.Kind {
			case "publish":
				et = zv.App("Publish", c20fHdrTerm(int64(e.H), x.pool.ids[e.H-1][s.ns]))
			case "puberr":
				et = "PublishErr"
			case "next":
				et = "Next"
			case "feedtick":
				et = "FeedTick"
			case "handoff":
				et = "Handoff"
			case "cancel":
				et = "CancelCtx"
			case "fail":
				et = "(B GetAllFail)"
			case "ok":
				et = "(B GetAllOk)"
			case "send":
				et = "(B Send)"
			case "tick":
				et = "(B Tick)"
			case "consume":
				et = "(B Consume)"
			case "stop":
				et = "(B StopService)"
			}
			obs := zv.None
			if e.Obs {
				obs = zv.Some(zv.Tuple(zv.Nat(e.QLen), zv.Nat(e.Taken)))
			}
			evs[j] = zv.Tuple(et, obs)
		}
		got := make([]string, len(s.got))
		for j, g := range s.got {
			got[j] = c20fHdrTerm(g.Height, g.IDs)
		}
		subs[i] = zv.Tuple(zv.List(evs), zv.List(got), zv.Bool(s.closed), zv.Bool(s.fpc == "closed"))
	}
	return zv.List(subs)
}

// ================================================================ the test

func TestVerifC20Feed(t *testing.T) {
	r := zv.Start(t, "C20")
	defer r.Finish()
	if v, err := strconv.Atoi(os.Getenv("VERIF_C20_WATCHDOG_S")); err == nil && v > 0 {
		c20fWatchdog = time.Duration(v) * time.Second
	}
	if err := c20fSelfTest(); err != nil {
		t.Fatalf("harness self-test: %v", err)
	}
	// several groups each: the driver evaluates the groups' files in parallel
	var gfs, gcs []*zv.Group
	for i := 0; i < 2; i++ {
		gfs = append(gfs, r.Group(fmt.Sprintf("feed%d", i), c20fCoqHeader, "feed_case_z", "feed_mismatches_z"))
	}
	for i := 0; i < 4; i++ {
		gcs = append(gcs, r.Group(fmt.Sprintf("compose%d", i), c20fCoqHeader, "comp_case", "comp_mismatches"))
	}
	nf, nc := 0, 0
	t0 := time.Now()
	pool := c20fBuildPool(t, zv.NewRand(r.Seed^0xc20f), 64)
	tPool := time.Since(t0)

	alone := func(seed uint64) bool {
		x := c20fRunAlone(r, pool.headers, seed)
		if x.bad {
			r.Count("case", "feed-abandoned")
			return true
		}
		key := ""
		if len(x.got) > 0 && (x.pc == "closed" || len(x.published)-len(x.got) >= 2) {
			key = "feed-received-and-closed-or-reader-behind"
		}
		r.Count("case", "feed")
		gfs[nf%len(gfs)].Case(c20fAloneTerm(x), x.snapshot(), key)
		nf++
		return false
	}
	comp := func(seed uint64) bool {
		x := c20fRunComp(t, r, pool, seed)
		if x.bad {
			r.Count("case", "compose-abandoned")
			return true
		}
		key := ""
		for _, s := range x.subs {
			fails := 0
			for _, e := range s.events {
				if e.Kind == "fail" {
					fails++
				}
			}
			if len(s.got) > 0 && (fails > 0 || s.closed) {
				key = "responses-with-failures-or-closure"
			}
		}
		r.Count("case", fmt.Sprintf("compose-subs=%d", len(x.subs)))
		gcs[nc%len(gcs)].Case(c20fCompTerm(x), x.snapshot(), key)
		nc++
		return false
	}

	var rep c20fCase
	if r.ReplayInput(&rep) {
		switch rep.Kind {
		case "feed":
			alone(rep.Seed)
		case "compose":
			comp(rep.Seed)
		} // otherwise: a replay of the other C20 harness
		return
	}
	rng := r.Rand()
	nAlone, nComp := r.N(400, 12000), r.N(180, 5000)
	if v, err := strconv.Atoi(os.Getenv("VERIF_C20_N")); err == nil && v > 0 {
		nAlone, nComp = v, v
	}
	bad := 0
	for i := 0; i < nAlone && bad < 3; i++ {
		if alone(rng.U64()) {
			bad++
		}
	}
	tAlone := time.Since(t0) - tPool
	bad = 0
	for i := 0; i < nComp && bad < 3; i++ {
		if comp(rng.U64()) {
			bad++
		}
	}
	t.Logf("C20 feed harness: pool %v, feed alone %v, composition %v", tPool, tAlone, time.Since(t0)-tPool-tAlone)
}

//go:build verif

package headertest

// C16 correspondence + oracle harness (see /verif/DESIGN.md, C16).
//
// Every header is first a plain field record (c16Hdr: all raw-header fields, commit, signatures, validator set, DAH
// roots).  build() turns it into fresh real objects (no memoised hashes), the REAL ExtendedHeader.Validate / Verify /
// Hash / MarshalBinary / UnmarshalBinary / MarshalJSON / UnmarshalJSON / header.MsgID / go-header Verify run on them.
//
// L2: the record is symbolised (real hash outputs -> free constructors, signatures -> "made by key over message",
//     everything else interned atoms) and written with the observed verdict classes as a Coq case for
//     CN.Header.Validate.mismatches.
// L3: independent oracle on the implementation: an accepted header has DAH/valset/commit consistent with its raw
//     header and > 2/3 independently verified signed power; a mutant that differs from an accepted original in a
//     committed field while carrying its commit is refused; re-encoding changes neither verdict, hash nor any field;
//     Verify accepts only linked (adjacent) or > 1/3-trusted-signed (non-adjacent) headers; MsgID depends on the
//     commit's block id only.

import (
	"bytes"
	"encoding/hex"
	"encoding/json"
	"fmt"
	"reflect"
	"sort"
	"strconv"
	"strings"
	"testing"
	"time"

	"github.com/cometbft/cometbft/crypto/ed25519"
	tmproto "github.com/cometbft/cometbft/proto/tendermint/types"
	"github.com/cometbft/cometbft/proto/tendermint/version"
	"github.com/cometbft/cometbft/types"
	pubsubpb "github.com/libp2p/go-libp2p-pubsub/pb"

	"github.com/celestiaorg/celestia-app/v9/pkg/appconsts"
	"github.com/celestiaorg/celestia-app/v9/pkg/da"
	libhead "github.com/celestiaorg/go-header"

	"github.com/celestiaorg/celestia-node/header"
	header_pb "github.com/celestiaorg/celestia-node/header/pb"
	zv "github.com/celestiaorg/celestia-node/zzverif"
)

const c16Header = `From Coq Require Import List ZArith.
From CN Require Import Header.Validate.
Import ListNotations.
Open Scope Z_scope.
`

const c16ZeroSec = -62135596800

// ---------------------------------------------------------------- field records

type c16BID struct {
	Hash  []byte `json:"hash"`
	Total uint32 `json:"total"`
	PHash []byte `json:"phash"`
}

type c16Raw struct {
	VBlock     uint64 `json:"vblock"`
	VApp       uint64 `json:"vapp"`
	Chain      string `json:"chain"`
	Height     int64  `json:"height"`
	TSec       int64  `json:"tsec"`
	TNano      int64  `json:"tnano"`
	Last       c16BID `json:"last"`
	LastCommit []byte `json:"last_commit"`
	Data       []byte `json:"data"`
	Vals       []byte `json:"vals"`
	NextVals   []byte `json:"next_vals"`
	Cons       []byte `json:"cons"`
	App        []byte `json:"app"`
	LastRes    []byte `json:"last_res"`
	Evid       []byte `json:"evid"`
	Proposer   []byte `json:"proposer"`
}

type c16Val struct {
	Addr  []byte `json:"addr"`
	Key   []byte `json:"key"`
	Power int64  `json:"power"`
	Prio  int64  `json:"prio"`
}

type c16Sig struct {
	Flag  int    `json:"flag"`
	Addr  []byte `json:"addr"`
	TSec  int64  `json:"tsec"`
	TNano int64  `json:"tnano"`
	Sig   []byte `json:"sig"`
}

type c16Commit struct {
	Height int64    `json:"height"`
	Round  int32    `json:"round"`
	BID    c16BID   `json:"bid"`
	Sigs   []c16Sig `json:"sigs"`
}

type c16Hdr struct {
	Raw    c16Raw    `json:"raw"`
	Commit c16Commit `json:"commit"`
	Vals   []c16Val  `json:"vals"`
	Prop   c16Val    `json:"prop"`
	Same   bool      `json:"same"` // ValidatorSet.allKeysHaveSameType as built
	Rows   [][]byte  `json:"rows"`
	Cols   [][]byte  `json:"cols"`
}

func c16b(b []byte) []byte { return append([]byte{}, b...) }
func c16bb(b [][]byte) [][]byte {
	out := make([][]byte, len(b))
	for i := range b {
		out[i] = c16b(b[i])
	}
	return out
}

func (h *c16Hdr) clone() *c16Hdr {
	c := *h
	c.Raw.Last = c16BID{c16b(h.Raw.Last.Hash), h.Raw.Last.Total, c16b(h.Raw.Last.PHash)}
	for _, p := range []*[]byte{&c.Raw.LastCommit, &c.Raw.Data, &c.Raw.Vals, &c.Raw.NextVals, &c.Raw.Cons, &c.Raw.App, &c.Raw.LastRes, &c.Raw.Evid, &c.Raw.Proposer} {
		*p = c16b(*p)
	}
	c.Commit.BID = c16BID{c16b(h.Commit.BID.Hash), h.Commit.BID.Total, c16b(h.Commit.BID.PHash)}
	c.Commit.Sigs = make([]c16Sig, len(h.Commit.Sigs))
	for i, s := range h.Commit.Sigs {
		c.Commit.Sigs[i] = c16Sig{s.Flag, c16b(s.Addr), s.TSec, s.TNano, c16b(s.Sig)}
	}
	c.Vals = make([]c16Val, len(h.Vals))
	for i, v := range h.Vals {
		c.Vals[i] = c16Val{c16b(v.Addr), c16b(v.Key), v.Power, v.Prio}
	}
	c.Prop = c16Val{c16b(h.Prop.Addr), c16b(h.Prop.Key), h.Prop.Power, h.Prop.Prio}
	c.Rows, c.Cols = c16bb(h.Rows), c16bb(h.Cols)
	return &c
}

func c16Time(sec, nano int64) time.Time { return time.Unix(sec, nano).UTC() }

func (b c16BID) real() types.BlockID {
	return types.BlockID{Hash: c16b(b.Hash), PartSetHeader: types.PartSetHeader{Total: b.Total, Hash: c16b(b.PHash)}}
}

func (r *c16Raw) real() types.Header {
	return types.Header{
		Version: version.Consensus{Block: r.VBlock, App: r.VApp}, ChainID: r.Chain, Height: r.Height,
		Time: c16Time(r.TSec, r.TNano), LastBlockID: r.Last.real(), LastCommitHash: c16b(r.LastCommit), DataHash: c16b(r.Data),
		ValidatorsHash: c16b(r.Vals), NextValidatorsHash: c16b(r.NextVals), ConsensusHash: c16b(r.Cons), AppHash: c16b(r.App),
		LastResultsHash: c16b(r.LastRes), EvidenceHash: c16b(r.Evid), ProposerAddress: c16b(r.Proposer),
	}
}

func (v c16Val) real() *types.Validator {
	return &types.Validator{Address: c16b(v.Addr), PubKey: ed25519.PubKey(c16b(v.Key)), VotingPower: v.Power, ProposerPriority: v.Prio}
}

// c16RealVals builds a fresh ValidatorSet (no cached total). same=true needs the unexported allKeysHaveSameType
// flag: obtained from ValidatorSetFromExistingValidators on a zero-power validator (cached total stays 0), then the
// exported fields are overwritten.
func c16RealVals(vals []c16Val, prop c16Val, same bool) *types.ValidatorSet {
	vs := &types.ValidatorSet{}
	if same {
		dummy := ed25519.GenPrivKeyFromSecret([]byte("c16-dummy")).PubKey()
		x, err := types.ValidatorSetFromExistingValidators([]*types.Validator{types.NewValidator(dummy, 0)})
		if err != nil {
			panic(err)
		}
		vs = x
	}
	vs.Validators = make([]*types.Validator, len(vals))
	for i, v := range vals {
		vs.Validators[i] = v.real()
	}
	vs.Proposer = prop.real()
	return vs
}

func c16RealDAH(rows, cols [][]byte) *da.DataAvailabilityHeader {
	return &da.DataAvailabilityHeader{RowRoots: c16bb(rows), ColumnRoots: c16bb(cols)}
}

func (h *c16Hdr) build() *header.ExtendedHeader {
	sigs := make([]types.CommitSig, len(h.Commit.Sigs))
	for i, s := range h.Commit.Sigs {
		sigs[i] = types.CommitSig{BlockIDFlag: types.BlockIDFlag(s.Flag), ValidatorAddress: c16b(s.Addr), Timestamp: c16Time(s.TSec, s.TNano), Signature: c16b(s.Sig)}
	}
	return &header.ExtendedHeader{
		RawHeader:    h.Raw.real(),
		Commit:       &types.Commit{Height: h.Commit.Height, Round: h.Commit.Round, BlockID: h.Commit.BID.real(), Signatures: sigs},
		ValidatorSet: c16RealVals(h.Vals, h.Prop, h.Same),
		DAH:          c16RealDAH(h.Rows, h.Cols),
	}
}

func c16UnixNano(t time.Time) (int64, int64) { return t.Unix(), int64(t.Nanosecond()) }

// c16SpecOf abstracts a real header back to the field record (used on decoded values).
func c16SpecOf(eh *header.ExtendedHeader) *c16Hdr {
	bid := func(b types.BlockID) c16BID { return c16BID{c16b(b.Hash), b.PartSetHeader.Total, c16b(b.PartSetHeader.Hash)} }
	val := func(v *types.Validator) c16Val {
		var k []byte
		if v.PubKey != nil {
			k = v.PubKey.Bytes()
		}
		return c16Val{c16b(v.Address), c16b(k), v.VotingPower, v.ProposerPriority}
	}
	h := &c16Hdr{}
	rh := eh.RawHeader
	s, n := c16UnixNano(rh.Time)
	h.Raw = c16Raw{rh.Version.Block, rh.Version.App, rh.ChainID, rh.Height, s, n, bid(rh.LastBlockID), c16b(rh.LastCommitHash), c16b(rh.DataHash),
		c16b(rh.ValidatorsHash), c16b(rh.NextValidatorsHash), c16b(rh.ConsensusHash), c16b(rh.AppHash), c16b(rh.LastResultsHash), c16b(rh.EvidenceHash), c16b(rh.ProposerAddress)}
	h.Commit = c16Commit{eh.Commit.Height, eh.Commit.Round, bid(eh.Commit.BlockID), make([]c16Sig, len(eh.Commit.Signatures))}
	for i, cs := range eh.Commit.Signatures {
		s, n := c16UnixNano(cs.Timestamp)
		h.Commit.Sigs[i] = c16Sig{int(cs.BlockIDFlag), c16b(cs.ValidatorAddress), s, n, c16b(cs.Signature)}
	}
	h.Vals = make([]c16Val, len(eh.ValidatorSet.Validators))
	for i, v := range eh.ValidatorSet.Validators {
		h.Vals[i] = val(v)
	}
	if eh.ValidatorSet.Proposer != nil {
		h.Prop = val(eh.ValidatorSet.Proposer)
	}
	h.Same = eh.ValidatorSet.AllKeysHaveSameType()
	h.Rows, h.Cols = c16bb(eh.DAH.RowRoots), c16bb(eh.DAH.ColumnRoots)
	return h
}

// c16SameFields compares two records field by field (nil == empty; the Same flag is not a field).
func c16SameFields(a, b *c16Hdr) bool {
	x, y := a.clone(), b.clone()
	x.Same, y.Same = false, false
	return reflect.DeepEqual(x, y)
}

func c16RawHash(r *c16Raw) []byte     { h := r.real(); return h.Hash() }
func c16ValsHash(v []c16Val) []byte   { return c16RealVals(v, c16Val{}, false).Hash() }
func c16DahHash(r, c [][]byte) []byte { return c16RealDAH(r, c).Hash() }

// ---------------------------------------------------------------- world: keys, signature provenance, interning

type c16SigInfo struct {
	Key    []byte
	Chain  string
	Height int64
	Round  int32
	BID    c16BID
	TSec   int64
	TNano  int64
}

type c16World struct {
	rng    *zv.Rand
	priv   map[string]ed25519.PrivKey // by public key bytes
	addr   map[string][]byte          // address -> public key
	sigs   map[string]c16SigInfo      // signature bytes -> what was signed
	intern map[string]int
	oversize int
}

func c16NewWorld(rng *zv.Rand) *c16World {
	return &c16World{oversize: 3, rng: rng, priv: map[string]ed25519.PrivKey{}, addr: map[string][]byte{}, sigs: map[string]c16SigInfo{}, intern: map[string]int{"": 0}}
}

func (w *c16World) newKey() []byte {
	pk := ed25519.GenPrivKeyFromSecret(w.rng.Bytes(32))
	pub := pk.PubKey().Bytes()
	w.priv[string(pub)] = pk
	w.addr[string(pk.PubKey().Address())] = pub
	return pub
}

func (w *c16World) addrOf(pub []byte) []byte { return ed25519.PubKey(pub).Address() }

func c16SignBytes(chain string, height int64, round int32, bid c16BID, tsec, tnano int64) []byte {
	v := &types.Vote{Type: tmproto.PrecommitType, Height: height, Round: round, BlockID: bid.real(), Timestamp: c16Time(tsec, tnano)}
	return types.VoteSignBytes(chain, v.ToProto())
}

// sign makes the real ed25519 precommit signature and records what it covers.
func (w *c16World) sign(pub []byte, chain string, height int64, round int32, bid c16BID, tsec, tnano int64) []byte {
	if !c16BidOK(bid) { // VoteSignBytes panics on such a block id: nobody can have signed it
		return w.rng.Bytes(64)
	}
	sig, err := w.priv[string(pub)].Sign(c16SignBytes(chain, height, round, bid, tsec, tnano))
	if err != nil {
		panic(err)
	}
	w.sigs[string(sig)] = c16SigInfo{c16b(pub), chain, height, round, c16BID{c16b(bid.Hash), bid.Total, c16b(bid.PHash)}, tsec, tnano}
	return sig
}

func (w *c16World) rawID(b []byte) int {
	if id, ok := w.intern[string(b)]; ok {
		return id
	}
	id := len(w.intern)
	w.intern[string(b)] = id
	return id
}

// ---------------------------------------------------------------- symboliser (one per Coq case)

type c16Sym struct {
	w    *c16World
	hdrs map[string]*c16Raw
	vals map[string][]c16Val
	dahs map[string][2][][]byte
	memo map[string]string
	defs []string
}

func c16z(x int64) string {
	if x < 0 {
		return "(" + strconv.FormatInt(x, 10) + ")"
	}
	return strconv.FormatInt(x, 10)
}
func c16zu(x uint64) string { return strconv.FormatUint(x, 10) }

// focus registers the parts whose real hashes are to be expanded structurally wherever they occur in this case.
func (s *c16Sym) focus(hs ...*c16Hdr) {
	for _, h := range hs {
		if h == nil {
			continue
		}
		if hh := c16RawHash(&h.Raw); len(hh) > 0 {
			r := h.Raw
			s.hdrs[string(hh)] = &r
		}
		// DAH first: the hash of an empty list is shared by the empty DAH and the empty validator set
		s.dahs[string(c16DahHash(h.Rows, h.Cols))] = [2][][]byte{h.Rows, h.Cols}
		if _, clash := s.dahs[string(c16ValsHash(h.Vals))]; !clash {
			s.vals[string(c16ValsHash(h.Vals))] = h.Vals
		}
	}
}

func c16NewSym(w *c16World, hs ...*c16Hdr) *c16Sym {
	s := &c16Sym{w: w, hdrs: map[string]*c16Raw{}, vals: map[string][]c16Val{}, dahs: map[string][2][][]byte{}, memo: map[string]string{}}
	s.focus(hs...)
	return s
}

func (s *c16Sym) def(term string) string {
	name := "b" + strconv.Itoa(len(s.defs))
	s.defs = append(s.defs, "let "+name+" := "+term+" in")
	return name
}

// bs symbolises a byte string: same bytes -> same term, different bytes -> different terms (within a case).
func (s *c16Sym) bs(b []byte) string {
	if len(b) == 0 {
		return "empty"
	}
	if v, ok := s.memo[string(b)]; ok {
		return v
	}
	var term string
	if pub, ok := s.w.addr[string(b)]; ok {
		term = "addr_of " + s.bs(pub)
	} else if r, ok := s.hdrs[string(b)]; ok {
		term = "hdr_hash " + s.raw(r)
	} else if d, ok := s.dahs[string(b)]; ok {
		term = "dah_hash " + s.dah(d[0], d[1])
	} else if vs, ok := s.vals[string(b)]; ok {
		term = "valset_hash " + s.valList(vs)
	} else {
		term = "Raw " + strconv.Itoa(len(b)) + " " + strconv.Itoa(s.w.rawID(b))
	}
	v := s.def(term)
	s.memo[string(b)] = v
	return v
}

func (s *c16Sym) bsList(bb [][]byte) string {
	xs := make([]string, len(bb))
	for i, b := range bb {
		xs[i] = s.bs(b)
	}
	return s.share("[" + strings.Join(xs, "; ") + "]")
}

// share records other terms repeat (block ids, validator lists, vote messages without their timestamp)
func (s *c16Sym) share(term string) string {
	if v, ok := s.memo["#"+term]; ok {
		return v
	}
	v := s.def(term)
	s.memo["#"+term] = v
	return v
}

func (s *c16Sym) bid(b c16BID) string {
	return s.share("mkbid " + s.bs(b.Hash) + " " + c16zu(uint64(b.Total)) + " " + s.bs(b.PHash))
}

func (s *c16Sym) raw(r *c16Raw) string {
	return "(mkhdr " + strings.Join([]string{c16zu(r.VBlock), c16zu(r.VApp), s.bs([]byte(r.Chain)), c16z(r.Height), c16z(r.TSec), c16z(r.TNano), s.bid(r.Last),
		s.bs(r.LastCommit), s.bs(r.Data), s.bs(r.Vals), s.bs(r.NextVals), s.bs(r.Cons), s.bs(r.App), s.bs(r.LastRes), s.bs(r.Evid), s.bs(r.Proposer)}, " ") + ")"
}

func (s *c16Sym) val(v c16Val) string {
	return "(mkval " + s.bs(v.Addr) + " " + s.bs(v.Key) + " " + c16z(v.Power) + " " + c16z(v.Prio) + ")"
}

func (s *c16Sym) valList(vs []c16Val) string {
	xs := make([]string, len(vs))
	for i, v := range vs {
		xs[i] = s.val(v)
	}
	return s.share("[" + strings.Join(xs, "; ") + "]")
}

func (s *c16Sym) dah(rows, cols [][]byte) string {
	return "(mkdah " + s.bsList(rows) + " " + s.bsList(cols) + ")"
}

func (s *c16Sym) sgn(sig []byte) string {
	if len(sig) == 0 {
		return "(SRaw 0 0)"
	}
	if i, ok := s.w.sigs[string(sig)]; ok {
		m := s.share("mkmsg " + s.bs([]byte(i.Chain)) + " " + c16z(i.Height) + " " + c16z(int64(i.Round)) + " " + s.bid(i.BID))
		return "(SOf " + s.bs(i.Key) + " (" + m + " " + c16z(i.TSec) + " " + c16z(i.TNano) + "))"
	}
	return "(SRaw " + strconv.Itoa(len(sig)) + " " + strconv.Itoa(s.w.rawID(sig)) + ")"
}

func (s *c16Sym) hdr(h *c16Hdr) string {
	sg := make([]string, len(h.Commit.Sigs))
	for i, c := range h.Commit.Sigs {
		sg[i] = "(mkcs " + strconv.Itoa(c.Flag) + " " + s.bs(c.Addr) + " " + c16z(c.TSec) + " " + c16z(c.TNano) + " " + s.sgn(c.Sig) + ")"
	}
	cm := "(mkcmt " + c16z(h.Commit.Height) + " " + c16z(int64(h.Commit.Round)) + " " + s.bid(h.Commit.BID) + " [" + strings.Join(sg, "; ") + "])"
	vs := "(mkvs " + s.valList(h.Vals) + " " + s.val(h.Prop) + " " + zv.Bool(h.Same) + ")"
	return "(mkx " + s.raw(&h.Raw) + " " + cm + " " + vs + " " + s.dah(h.Rows, h.Cols) + ")"
}

func (s *c16Sym) wrap(body string) string { return "(" + strings.Join(s.defs, " ") + " " + body + ")" }

// ---------------------------------------------------------------- honest chains

type c16Chain struct {
	id   string
	hdrs []*c16Hdr
}

func (w *c16World) randHash() []byte { return w.rng.Bytes(32) }

func (w *c16World) genVals(n int, pattern int) []c16Val {
	vs := make([]c16Val, n)
	for i := range vs {
		k := w.newKey()
		var p int64
		switch pattern {
		case 0:
			p = 10
		case 1:
			p = int64(1 + w.rng.Intn(100))
		case 2: // one whale
			p = 1
			if i == 0 {
				p = int64(2 * n)
			}
		case 3: // multiples of three: exact 2/3 and 1/3 boundaries are reachable
			p = int64(3 * (1 + w.rng.Intn(4)))
		default:
			p = int64(w.rng.Intn(3)) // includes zero-power validators
			if i == 0 {
				p = 5
			}
		}
		vs[i] = c16Val{Addr: w.addrOf(k), Key: k, Power: p, Prio: int64(w.rng.Intn(41) - 20)}
	}
	sort.SliceStable(vs, func(i, j int) bool {
		if vs[i].Power != vs[j].Power {
			return vs[i].Power > vs[j].Power
		}
		return bytes.Compare(vs[i].Addr, vs[j].Addr) < 0
	})
	return vs
}

func c16Total(vs []c16Val) int64 {
	var t int64
	for _, v := range vs {
		t += v.Power
	}
	return t
}

// signCommit (re)builds the commit of h for its raw header: block id hash := real hash of the raw header, every validator
// in signers signs (flag commit), the others are absent or nil-voters.
func (w *c16World) signCommit(h *c16Hdr, signers map[int]bool, nilVoters map[int]bool) {
	h.Commit.Height = h.Raw.Height
	h.Commit.BID.Hash = c16RawHash(&h.Raw)
	h.Commit.Sigs = make([]c16Sig, len(h.Vals))
	for i, v := range h.Vals {
		_, mine := w.priv[string(v.Key)]
		switch {
		case signers[i] && mine:
			h.Commit.Sigs[i] = c16Sig{2, c16b(v.Addr), h.Raw.TSec, h.Raw.TNano + int64(i%3), w.sign(v.Key, h.Raw.Chain, h.Commit.Height, h.Commit.Round, h.Commit.BID, h.Raw.TSec, h.Raw.TNano+int64(i%3))}
		case nilVoters[i] && mine:
			h.Commit.Sigs[i] = c16Sig{3, c16b(v.Addr), h.Raw.TSec, h.Raw.TNano, w.sign(v.Key, h.Raw.Chain, h.Commit.Height, h.Commit.Round, c16BID{}, h.Raw.TSec, h.Raw.TNano)}
		default:
			h.Commit.Sigs[i] = c16Sig{1, nil, c16ZeroSec, 0, nil}
		}
	}
}

// pickSigners chooses a signer set whose power exceeds 2/3 (all, minimal prefix, or random superset of a minimal one).
func (w *c16World) pickSigners(vs []c16Val, mode int) (map[int]bool, map[int]bool) {
	tot := c16Total(vs)
	signers, nils := map[int]bool{}, map[int]bool{}
	order := make([]int, len(vs))
	for i := range order {
		order[i] = i
	}
	if mode == 2 {
		for i := len(order) - 1; i > 0; i-- {
			j := w.rng.Intn(i + 1)
			order[i], order[j] = order[j], order[i]
		}
	}
	var got int64
	for _, i := range order {
		if mode != 0 && got*3 > tot*2 {
			if w.rng.Chance(30) {
				nils[i] = true
			} else if w.rng.Chance(30) {
				signers[i] = true
			}
			continue
		}
		signers[i] = true
		got += vs[i].Power
	}
	return signers, nils
}

func (w *c16World) genChain(id string, n, pattern, length int, baseHeight, baseTime int64) *c16Chain {
	c := &c16Chain{id: id}
	cur := w.genVals(n, pattern)
	var prev *c16Hdr
	for i := 0; i < length; i++ {
		next := cur
		if i > 0 && w.rng.Chance(35) { // validator-set change announced by this header
			next = append([]c16Val{}, cur...)
			switch w.rng.Intn(3) {
			case 0:
				k := w.newKey()
				next = append(next, c16Val{Addr: w.addrOf(k), Key: k, Power: int64(1 + w.rng.Intn(20))})
			case 1:
				if len(next) > 1 {
					next = next[:len(next)-1]
				}
			default:
				j := w.rng.Intn(len(next))
				next[j].Power += int64(1 + w.rng.Intn(10))
			}
			sort.SliceStable(next, func(a, b int) bool {
				if next[a].Power != next[b].Power {
					return next[a].Power > next[b].Power
				}
				return bytes.Compare(next[a].Addr, next[b].Addr) < 0
			})
		}
		width := []int{2, 2, 2, 2, 4, 4, 8}[w.rng.Intn(7)] // roots per axis
		h := &c16Hdr{Vals: append([]c16Val{}, cur...), Prop: cur[w.rng.Intn(len(cur))], Same: w.rng.Bool()}
		for j := 0; j < width; j++ {
			h.Rows = append(h.Rows, w.rng.Bytes(90))
			h.Cols = append(h.Cols, w.rng.Bytes(90))
		}
		h.Raw = c16Raw{VBlock: 11, VApp: uint64(1 + w.rng.Intn(int(appconsts.Version))), Chain: id, Height: baseHeight + int64(i), TSec: baseTime + int64(12*i), TNano: int64(w.rng.Intn(1000000000)),
			Last: c16BID{w.randHash(), uint32(1 + w.rng.Intn(4)), w.randHash()}, LastCommit: w.randHash(), Data: c16DahHash(h.Rows, h.Cols),
			Vals: c16ValsHash(cur), NextVals: c16ValsHash(next), Cons: w.randHash(), App: w.rng.Bytes(8 + w.rng.Intn(40)), LastRes: w.randHash(), Evid: w.randHash(),
			Proposer: c16b(h.Prop.Addr)}
		if prev != nil {
			h.Raw.Last = prev.Commit.BID
		}
		if w.rng.Chance(10) {
			h.Raw.Evid, h.Raw.LastRes = nil, nil
		}
		h.Commit.Round = int32(w.rng.Intn(3))
		h.Commit.BID = c16BID{nil, uint32(1 + w.rng.Intn(5)), w.randHash()}
		sg, nl := w.pickSigners(cur, w.rng.Intn(3))
		w.signCommit(h, sg, nl)
		c.hdrs = append(c.hdrs, h)
		prev, cur = h, next
	}
	return c
}

// ---------------------------------------------------------------- mutations

type c16Mut struct {
	name string
	f    func(w *c16World, h, nb, other *c16Hdr) bool // nb: neighbour on the same chain; other: header of another chain
}

func c16Flip(w *c16World, b []byte) []byte {
	if len(b) == 0 {
		return w.rng.Bytes(32)
	}
	c := c16b(b)
	c[w.rng.Intn(len(c))] ^= byte(1 << uint(w.rng.Intn(8)))
	return c
}

// c16MutBytes: flip a bit / empty / wrong length / fresh random / neighbour's value
func c16MutBytes(w *c16World, p *[]byte, nbv []byte) {
	switch w.rng.Intn(6) {
	case 0, 1:
		*p = c16Flip(w, *p)
	case 2:
		*p = nil
	case 3:
		*p = w.rng.Bytes([]int{1, 20, 31, 33, 64}[w.rng.Intn(5)])
	case 4:
		*p = w.rng.Bytes(32)
	default:
		*p = c16b(nbv)
	}
}

func c16Muts() []c16Mut {
	idx := func(w *c16World, n int) int { return w.rng.Intn(n) }
	return []c16Mut{
		// ---- raw header fields
		{"raw.vblock", func(w *c16World, h, nb, o *c16Hdr) bool { h.Raw.VBlock = []uint64{0, 10, 12}[idx(w, 3)]; return true }},
		{"raw.vapp", func(w *c16World, h, nb, o *c16Hdr) bool {
			old := h.Raw.VApp
			h.Raw.VApp = []uint64{0, 1, 2, appconsts.Version, appconsts.Version + 1, 1 << 40}[idx(w, 6)]
			return h.Raw.VApp != old
		}},
		{"raw.chain", func(w *c16World, h, nb, o *c16Hdr) bool {
			h.Raw.Chain = []string{"", h.Raw.Chain + "x", o.Raw.Chain, strings.Repeat("c", 50), strings.Repeat("c", 51)}[idx(w, 5)]
			return true
		}},
		{"raw.height", func(w *c16World, h, nb, o *c16Hdr) bool {
			h.Raw.Height = []int64{h.Raw.Height + 1, h.Raw.Height - 1, 0, -h.Raw.Height, nb.Raw.Height}[idx(w, 5)]
			return true
		}},
		{"raw.time", func(w *c16World, h, nb, o *c16Hdr) bool {
			switch idx(w, 3) {
			case 0:
				h.Raw.TNano = (h.Raw.TNano + 1) % 1000000000
			case 1:
				h.Raw.TSec += int64(1 + idx(w, 100))
			default:
				h.Raw.TSec, h.Raw.TNano = nb.Raw.TSec, nb.Raw.TNano
			}
			return true
		}},
		{"raw.last.hash", func(w *c16World, h, nb, o *c16Hdr) bool { c16MutBytes(w, &h.Raw.Last.Hash, nb.Raw.Last.Hash); return true }},
		{"raw.last.total", func(w *c16World, h, nb, o *c16Hdr) bool {
			h.Raw.Last.Total = []uint32{h.Raw.Last.Total + 1, 0, 2049, 2050}[idx(w, 4)]
			return true
		}},
		{"raw.last.phash", func(w *c16World, h, nb, o *c16Hdr) bool { c16MutBytes(w, &h.Raw.Last.PHash, nb.Raw.Last.PHash); return true }},
		{"raw.lastcommit", func(w *c16World, h, nb, o *c16Hdr) bool { c16MutBytes(w, &h.Raw.LastCommit, nb.Raw.LastCommit); return true }},
		{"raw.data", func(w *c16World, h, nb, o *c16Hdr) bool { c16MutBytes(w, &h.Raw.Data, nb.Raw.Data); return true }},
		{"raw.vals", func(w *c16World, h, nb, o *c16Hdr) bool { c16MutBytes(w, &h.Raw.Vals, o.Raw.Vals); return true }},
		{"raw.nextvals", func(w *c16World, h, nb, o *c16Hdr) bool { c16MutBytes(w, &h.Raw.NextVals, o.Raw.NextVals); return true }},
		{"raw.cons", func(w *c16World, h, nb, o *c16Hdr) bool { c16MutBytes(w, &h.Raw.Cons, nb.Raw.Cons); return true }},
		{"raw.app", func(w *c16World, h, nb, o *c16Hdr) bool { c16MutBytes(w, &h.Raw.App, nb.Raw.App); return true }},
		{"raw.lastres", func(w *c16World, h, nb, o *c16Hdr) bool { c16MutBytes(w, &h.Raw.LastRes, nb.Raw.LastRes); return true }},
		{"raw.evid", func(w *c16World, h, nb, o *c16Hdr) bool { c16MutBytes(w, &h.Raw.Evid, nb.Raw.Evid); return true }},
		{"raw.proposer", func(w *c16World, h, nb, o *c16Hdr) bool {
			switch idx(w, 3) {
			case 0:
				h.Raw.Proposer = c16Flip(w, h.Raw.Proposer)
			case 1:
				h.Raw.Proposer = w.rng.Bytes([]int{0, 19, 21}[idx(w, 3)])
			default:
				if len(h.Vals) == 0 {
					return false
				}
				h.Raw.Proposer = c16b(h.Vals[idx(w, len(h.Vals))].Addr)
			}
			return true
		}},
		{"raw.neighbour", func(w *c16World, h, nb, o *c16Hdr) bool { h.Raw = nb.clone().Raw; return true }},
		// ---- DAH roots
		{"dah.change", func(w *c16World, h, nb, o *c16Hdr) bool {
			if len(h.Rows) == 0 || len(h.Cols) == 0 {
				return false
			}
			if w.rng.Bool() {
				i := idx(w, len(h.Rows))
				h.Rows[i] = c16Flip(w, h.Rows[i])
			} else {
				i := idx(w, len(h.Cols))
				h.Cols[i] = c16Flip(w, h.Cols[i])
			}
			return true
		}},
		{"dah.swap", func(w *c16World, h, nb, o *c16Hdr) bool {
			if len(h.Rows) < 2 || len(h.Cols) < 2 {
				return false
			}
			switch idx(w, 3) {
			case 0:
				h.Rows[0], h.Rows[len(h.Rows)-1] = h.Rows[len(h.Rows)-1], h.Rows[0]
			case 1:
				i := idx(w, len(h.Cols)-1)
				h.Cols[i], h.Cols[i+1] = h.Cols[i+1], h.Cols[i]
			default:
				i, j := idx(w, len(h.Rows)), idx(w, len(h.Cols))
				h.Rows[i], h.Cols[j] = h.Cols[j], h.Rows[i]
			}
			return true
		}},
		{"dah.transpose", func(w *c16World, h, nb, o *c16Hdr) bool { h.Rows, h.Cols = h.Cols, h.Rows; return true }},
		{"dah.add", func(w *c16World, h, nb, o *c16Hdr) bool {
			switch idx(w, 4) {
			case 0:
				h.Rows = append(h.Rows, w.rng.Bytes(90))
			case 1:
				h.Cols = append(h.Cols, w.rng.Bytes(90)) // a surplus column root does not enter DAH.Hash()
			case 2:
				h.Rows, h.Cols = append(h.Rows, w.rng.Bytes(90)), append(h.Cols, w.rng.Bytes(90))
			default:
				h.Cols = append(h.Cols, c16b(h.Cols[0]), w.rng.Bytes(90))
			}
			return true
		}},
		{"dah.remove", func(w *c16World, h, nb, o *c16Hdr) bool {
			if len(h.Rows) == 0 || len(h.Cols) == 0 {
				return false
			}
			switch idx(w, 4) {
			case 0:
				h.Rows = h.Rows[:len(h.Rows)-1]
			case 1:
				h.Cols = h.Cols[:len(h.Cols)-1]
			case 2:
				h.Rows, h.Cols = h.Rows[:len(h.Rows)-1], h.Cols[:len(h.Cols)-1]
			default:
				h.Rows, h.Cols = h.Rows[:1], h.Cols[:1]
			}
			return true
		}},
		{"dah.empty-col", func(w *c16World, h, nb, o *c16Hdr) bool {
			if len(h.Cols) == 0 {
				return false
			}
			// an absent trailing column root hashes like an empty one
			if w.rng.Bool() {
				h.Cols[len(h.Cols)-1] = nil
			} else {
				h.Cols = h.Cols[:len(h.Cols)-1]
			}
			return true
		}},
		{"dah.neighbour", func(w *c16World, h, nb, o *c16Hdr) bool { h.Rows, h.Cols = c16bb(nb.Rows), c16bb(nb.Cols); return true }},
		{"dah.oversize", func(w *c16World, h, nb, o *c16Hdr) bool {
			if w.oversize <= 0 { // huge terms: only a few per run
				return false
			}
			w.oversize--
			n := []int{1023, 1024, 1025}[w.oversize%3]
			for len(h.Rows) < n {
				h.Rows = append(h.Rows, []byte{byte(len(h.Rows)), byte(len(h.Rows) >> 8), 1})
			}
			for len(h.Cols) < n {
				h.Cols = append(h.Cols, []byte{byte(len(h.Cols)), byte(len(h.Cols) >> 8), 2})
			}
			return true
		}},
		// ---- commit
		{"commit.height", func(w *c16World, h, nb, o *c16Hdr) bool {
			h.Commit.Height = []int64{h.Commit.Height + 1, h.Commit.Height - 1, 0, -1, nb.Commit.Height}[idx(w, 5)]
			return true
		}},
		{"commit.round", func(w *c16World, h, nb, o *c16Hdr) bool {
			h.Commit.Round = []int32{h.Commit.Round + 1, -1, 7}[idx(w, 3)]
			return true
		}},
		{"commit.bid.hash", func(w *c16World, h, nb, o *c16Hdr) bool { c16MutBytes(w, &h.Commit.BID.Hash, nb.Commit.BID.Hash); return true }},
		{"commit.bid.total", func(w *c16World, h, nb, o *c16Hdr) bool {
			h.Commit.BID.Total = []uint32{h.Commit.BID.Total + 1, 0, 2049, 2050}[idx(w, 4)]
			return true
		}},
		{"commit.bid.phash", func(w *c16World, h, nb, o *c16Hdr) bool { c16MutBytes(w, &h.Commit.BID.PHash, nb.Commit.BID.PHash); return true }},
		{"commit.neighbour", func(w *c16World, h, nb, o *c16Hdr) bool { h.Commit = nb.clone().Commit; return true }},
		{"commit.other-chain", func(w *c16World, h, nb, o *c16Hdr) bool { h.Commit = o.clone().Commit; return true }},
		{"sig.flip", func(w *c16World, h, nb, o *c16Hdr) bool {
			if len(h.Commit.Sigs) == 0 {
				return false
			}
			i := idx(w, len(h.Commit.Sigs))
			if len(h.Commit.Sigs[i].Sig) == 0 {
				return false
			}
			h.Commit.Sigs[i].Sig = c16Flip(w, h.Commit.Sigs[i].Sig)
			return true
		}},
		{"sig.length", func(w *c16World, h, nb, o *c16Hdr) bool {
			if len(h.Commit.Sigs) == 0 {
				return false
			}
			i := idx(w, len(h.Commit.Sigs))
			s := h.Commit.Sigs[i].Sig
			switch idx(w, 4) {
			case 0:
				if len(s) < 2 {
					return false
				}
				h.Commit.Sigs[i].Sig = s[:len(s)-1]
			case 1:
				h.Commit.Sigs[i].Sig = append(c16b(s), 0)
			case 2:
				h.Commit.Sigs[i].Sig = nil
			default:
				h.Commit.Sigs[i].Sig = w.rng.Bytes(64)
			}
			return true
		}},
		{"sig.swap", func(w *c16World, h, nb, o *c16Hdr) bool {
			n := len(h.Commit.Sigs)
			if n < 2 {
				return false
			}
			i := idx(w, n-1)
			if w.rng.Bool() { // whole entries
				h.Commit.Sigs[i], h.Commit.Sigs[i+1] = h.Commit.Sigs[i+1], h.Commit.Sigs[i]
			} else { // only the signature bytes
				h.Commit.Sigs[i].Sig, h.Commit.Sigs[i+1].Sig = h.Commit.Sigs[i+1].Sig, h.Commit.Sigs[i].Sig
			}
			return true
		}},
		{"sig.drop", func(w *c16World, h, nb, o *c16Hdr) bool {
			n := len(h.Commit.Sigs)
			if n == 0 {
				return false
			}
			i := idx(w, n)
			h.Commit.Sigs = append(h.Commit.Sigs[:i:i], h.Commit.Sigs[i+1:]...)
			return true
		}},
		{"sig.duplicate", func(w *c16World, h, nb, o *c16Hdr) bool {
			n := len(h.Commit.Sigs)
			if n == 0 {
				return false
			}
			i, j := idx(w, n), idx(w, n)
			if w.rng.Bool() {
				h.Commit.Sigs[j] = h.Commit.Sigs[i]
			} else {
				h.Commit.Sigs = append(h.Commit.Sigs, h.Commit.Sigs[i])
			}
			return true
		}},
		{"sig.absent", func(w *c16World, h, nb, o *c16Hdr) bool {
			n := len(h.Commit.Sigs)
			if n == 0 {
				return false
			}
			// blank out a random number of signatures: valid power falls to / below / stays above 2/3
			k := 1 + idx(w, n)
			for ; k > 0; k-- {
				h.Commit.Sigs[idx(w, n)] = c16Sig{1, nil, c16ZeroSec, 0, nil}
			}
			return true
		}},
		{"sig.flag", func(w *c16World, h, nb, o *c16Hdr) bool {
			n := len(h.Commit.Sigs)
			if n == 0 {
				return false
			}
			h.Commit.Sigs[idx(w, n)].Flag = []int{0, 1, 2, 3, 4}[idx(w, 5)]
			return true
		}},
		{"sig.timestamp", func(w *c16World, h, nb, o *c16Hdr) bool {
			n := len(h.Commit.Sigs)
			if n == 0 {
				return false
			}
			i := idx(w, n)
			if w.rng.Bool() {
				h.Commit.Sigs[i].TSec++
			} else {
				h.Commit.Sigs[i].TSec, h.Commit.Sigs[i].TNano = c16ZeroSec, 0
			}
			return true
		}},
		{"sig.address", func(w *c16World, h, nb, o *c16Hdr) bool {
			n := len(h.Commit.Sigs)
			if n == 0 {
				return false
			}
			i := idx(w, n)
			switch idx(w, 3) {
			case 0:
				h.Commit.Sigs[i].Addr = c16Flip(w, h.Commit.Sigs[i].Addr)
			case 1:
				if len(h.Vals) == 0 {
					return false
				}
				h.Commit.Sigs[i].Addr = c16b(h.Vals[idx(w, len(h.Vals))].Addr)
			default:
				h.Commit.Sigs[i].Addr = w.rng.Bytes([]int{0, 19, 21}[idx(w, 3)])
			}
			return true
		}},
		{"sig.from-neighbour", func(w *c16World, h, nb, o *c16Hdr) bool {
			n := len(h.Commit.Sigs)
			if n == 0 || len(nb.Commit.Sigs) == 0 {
				return false
			}
			i := idx(w, n)
			h.Commit.Sigs[i] = nb.clone().Commit.Sigs[i%len(nb.Commit.Sigs)]
			return true
		}},
		{"sig.forge", func(w *c16World, h, nb, o *c16Hdr) bool {
			// a key outside the validator set signs the right message in a validator's slot
			n := len(h.Commit.Sigs)
			if n == 0 || n > len(h.Vals) {
				return false
			}
			i := idx(w, n)
			k := w.newKey()
			h.Commit.Sigs[i] = c16Sig{2, c16b(h.Vals[i].Addr), h.Raw.TSec, 0, w.sign(k, h.Raw.Chain, h.Commit.Height, h.Commit.Round, h.Commit.BID, h.Raw.TSec, 0)}
			return true
		}},
		// ---- validator set
		{"vals.power", func(w *c16World, h, nb, o *c16Hdr) bool {
			if len(h.Vals) == 0 {
				return false
			}
			i := idx(w, len(h.Vals))
			h.Vals[i].Power = []int64{h.Vals[i].Power + 1, h.Vals[i].Power * 100, 0, -1, 1 << 40}[idx(w, 5)]
			return true
		}},
		{"vals.overflow", func(w *c16World, h, nb, o *c16Hdr) bool {
			if len(h.Vals) == 0 {
				return false
			}
			h.Vals[idx(w, len(h.Vals))].Power = []int64{types.MaxTotalVotingPower, types.MaxTotalVotingPower - c16Total(h.Vals), types.MaxTotalVotingPower/2 + 1}[idx(w, 3)]
			return true
		}},
		{"vals.remove", func(w *c16World, h, nb, o *c16Hdr) bool {
			if len(h.Vals) == 0 {
				return false
			}
			i := idx(w, len(h.Vals))
			h.Vals = append(h.Vals[:i:i], h.Vals[i+1:]...)
			return true
		}},
		{"vals.add", func(w *c16World, h, nb, o *c16Hdr) bool {
			k := w.newKey()
			h.Vals = append(h.Vals, c16Val{Addr: w.addrOf(k), Key: k, Power: int64(idx(w, 30))})
			return true
		}},
		{"vals.swap", func(w *c16World, h, nb, o *c16Hdr) bool {
			if len(h.Vals) < 2 {
				return false
			}
			i := idx(w, len(h.Vals)-1)
			h.Vals[i], h.Vals[i+1] = h.Vals[i+1], h.Vals[i]
			return true
		}},
		{"vals.key", func(w *c16World, h, nb, o *c16Hdr) bool {
			if len(h.Vals) == 0 {
				return false
			}
			i := idx(w, len(h.Vals))
			k := w.newKey()
			h.Vals[i].Key = k
			if w.rng.Bool() {
				h.Vals[i].Addr = w.addrOf(k)
			}
			return true
		}},
		{"vals.address", func(w *c16World, h, nb, o *c16Hdr) bool {
			if len(h.Vals) == 0 {
				return false
			}
			i := idx(w, len(h.Vals))
			h.Vals[i].Addr = c16Flip(w, h.Vals[i].Addr)
			return true
		}},
		{"vals.duplicate", func(w *c16World, h, nb, o *c16Hdr) bool {
			if len(h.Vals) == 0 {
				return false
			}
			i := idx(w, len(h.Vals))
			if w.rng.Bool() {
				h.Vals = append(h.Vals, h.Vals[i])
			} else {
				h.Vals[idx(w, len(h.Vals))] = h.Vals[i]
			}
			return true
		}},
		{"vals.other-chain", func(w *c16World, h, nb, o *c16Hdr) bool { c := o.clone(); h.Vals, h.Prop = c.Vals, c.Prop; return true }},
		{"vals.priority", func(w *c16World, h, nb, o *c16Hdr) bool { // not committed: must stay accepted
			if len(h.Vals) == 0 {
				return false
			}
			h.Vals[idx(w, len(h.Vals))].Prio += int64(1 + idx(w, 9))
			return true
		}},
		{"vals.proposer", func(w *c16World, h, nb, o *c16Hdr) bool {
			switch idx(w, 4) {
			case 0: // another member: not committed
				if len(h.Vals) == 0 {
					return false
				}
				h.Prop = h.Vals[idx(w, len(h.Vals))]
			case 1:
				k := w.newKey()
				h.Prop = c16Val{Addr: w.addrOf(k), Key: k, Power: 1}
			case 2:
				h.Prop.Power = -1
			default:
				h.Prop.Addr = c16Flip(w, h.Prop.Addr)
			}
			return true
		}},
		{"vals.same-flag", func(w *c16World, h, nb, o *c16Hdr) bool { h.Same = !h.Same; return true }},
	}
}

// recommit makes the mutated parts consistent again: data hash := hash of the DAH, validators hash := hash of the set,
// commit for the new raw header signed by (a > 2/3 part of) the set. The result is a different, honestly signed header
// whenever the mutated values are admissible at all.
func (w *c16World) recommit(h *c16Hdr, fixData, fixVals bool) {
	if fixData {
		h.Raw.Data = c16DahHash(h.Rows, h.Cols)
	}
	if fixVals && len(h.Vals) > 0 {
		h.Raw.Vals = c16ValsHash(h.Vals)
	}
	if !c16BidOK(h.Commit.BID) || h.Commit.BID.Total == 0 {
		h.Commit.BID.Total, h.Commit.BID.PHash = 1, w.randHash()
	}
	if h.Commit.Round < 0 {
		h.Commit.Round = 0
	}
	sg, nl := w.pickSigners(h.Vals, w.rng.Intn(3))
	w.signCommit(h, sg, nl)
}

func c16HashLenOK(b []byte) bool { return len(b) == 0 || len(b) == 32 }
func c16BidOK(b c16BID) bool {
	return c16HashLenOK(b.Hash) && c16HashLenOK(b.PHash) && b.Total <= types.MaxBlockPartsCount
}

// ---------------------------------------------------------------- running the real code

const (
	c16Ok      = 0
	c16Rej     = 1
	c16Soft    = 2
	c16Panic   = 3
	c16NoCodec = 4
)

func c16Validate(eh *header.ExtendedHeader) int {
	var err error
	if p := zv.Recover(func() { err = eh.Validate() }); p != "" {
		return c16Panic
	}
	if err != nil {
		return c16Rej
	}
	return c16Ok
}

func c16ViaBinary(eh *header.ExtendedHeader) (out *header.ExtendedHeader, bin []byte) {
	zv.Recover(func() {
		b, err := eh.MarshalBinary()
		if err != nil {
			return
		}
		bin = b
		o := &header.ExtendedHeader{}
		if err := o.UnmarshalBinary(b); err != nil {
			return
		}
		out = o
	})
	return out, bin
}

func c16ViaJSON(eh *header.ExtendedHeader) (out *header.ExtendedHeader) {
	zv.Recover(func() {
		b, err := eh.MarshalJSON()
		if err != nil {
			return
		}
		o := &header.ExtendedHeader{}
		if err := o.UnmarshalJSON(b); err != nil {
			return
		}
		out = o
	})
	return out
}

func c16VerifyClass(err error) int {
	if err == nil {
		return c16Ok
	}
	var ve *libhead.VerifyError
	if e, ok := err.(*libhead.VerifyError); ok {
		ve = e
	}
	if ve != nil && ve.SoftFailure {
		return c16Soft
	}
	return c16Rej
}

func c16Verify(t, u *header.ExtendedHeader) (method, full int) {
	var err error
	if p := zv.Recover(func() { err = t.Verify(u) }); p != "" {
		method = c16Panic
	} else {
		method = c16VerifyClass(err)
	}
	if p := zv.Recover(func() { err = libhead.Verify[*header.ExtendedHeader](t, u) }); p != "" {
		full = c16Panic
	} else {
		full = c16VerifyClass(err)
	}
	return method, full
}

// ---------------------------------------------------------------- independent oracle (L3)

func c16SigValid(pub []byte, chain string, c *c16Commit, s c16Sig) (ok bool) {
	if !c16BidOK(c.BID) {
		return false
	}
	zv.Recover(func() {
		ok = ed25519.PubKey(pub).VerifySignature(c16SignBytes(chain, c.Height, c.Round, c.BID, s.TSec, s.TNano), s.Sig)
	})
	return ok
}

// c16SignedPower: power of the validators whose own slot carries a valid commit-flag signature over this commit.
func c16SignedPower(h *c16Hdr) int64 {
	var p int64
	for i, v := range h.Vals {
		if i >= len(h.Commit.Sigs) {
			break
		}
		s := h.Commit.Sigs[i]
		if s.Flag == 2 && bytes.Equal(s.Addr, v.Addr) && c16SigValid(v.Key, h.Raw.Chain, &h.Commit, s) {
			p += v.Power
		}
	}
	return p
}

// c16TrustedPower: power of distinct trusted validators with a valid commit-flag signature in the untrusted commit.
func c16TrustedPower(t, u *c16Hdr) int64 {
	var p int64
	seen := map[int]bool{}
	for _, s := range u.Commit.Sigs {
		if s.Flag != 2 {
			continue
		}
		for j, v := range t.Vals {
			if bytes.Equal(v.Addr, s.Addr) {
				if !seen[j] && c16SigValid(v.Key, t.Raw.Chain, &u.Commit, s) {
					seen[j] = true
					p += v.Power
				}
				break
			}
		}
	}
	return p
}

type c16Committed struct {
	Raw  c16Raw
	Rows [][]byte
	Cols [][]byte
	Keys [][]byte
	Pows []int64
}

func c16CommittedOf(h *c16Hdr) c16Committed {
	c := h.clone()
	out := c16Committed{Raw: c.Raw, Rows: c.Rows, Cols: c.Cols}
	for _, v := range c.Vals {
		out.Keys, out.Pows = append(out.Keys, v.Key), append(out.Pows, v.Power)
	}
	return out
}

type c16Replay struct {
	Kind      string   `json:"kind"` // validate | verify | msgid
	Hdr       *c16Hdr  `json:"hdr,omitempty"`
	Origin    *c16Hdr  `json:"origin,omitempty"`
	Trusted   *c16Hdr  `json:"trusted,omitempty"`
	Untrusted *c16Hdr  `json:"untrusted,omitempty"`
	Muts      []string `json:"mutations,omitempty"`
	Note      string   `json:"note,omitempty"`
}

type c16Run struct {
	r  *zv.Run
	gs []*zv.Group
	n  int
	w  *c16World
}

// emit spreads the cases over several groups so that the Coq shards are evaluated in parallel
func (c *c16Run) emit(term string, js any, key string) {
	c.gs[c.n%len(c.gs)].Case(term, js, key)
	c.n++
}

// validateCase runs one header through the real code, the oracle, and emits the Coq case.
func (c *c16Run) validateCase(h, origin *c16Hdr, originAccepted bool, muts []string) int {
	r := c.r
	rep := c16Replay{Kind: "validate", Hdr: h, Origin: origin, Muts: muts}
	eh := h.build()
	obs := c16Validate(eh)
	hash0 := c16b(h.Commit.BID.Hash)

	// ---- property oracle on the implementation
	if obs == c16Ok {
		if !bytes.Equal(c16DahHash(h.Rows, h.Cols), h.Raw.Data) || len(h.Rows) != len(h.Cols) {
			r.Violation("accepted:dah-not-committed", "Validate accepted a header whose row/column roots do not hash to the data hash of the raw header ("+strings.Join(muts, ",")+")", rep)
		}
		if !bytes.Equal(c16ValsHash(h.Vals), h.Raw.Vals) {
			r.Violation("accepted:valset-not-committed", "Validate accepted a header whose validator set does not hash to the validators hash ("+strings.Join(muts, ",")+")", rep)
		}
		if h.Commit.Height != h.Raw.Height || !bytes.Equal(c16RawHash(&h.Raw), h.Commit.BID.Hash) {
			r.Violation("accepted:commit-for-other-header", "Validate accepted a header whose commit is for another height / block hash ("+strings.Join(muts, ",")+")", rep)
		}
		if sp, tot := c16SignedPower(h), c16Total(h.Vals); sp*3 <= tot*2 {
			r.Violation("accepted:not-enough-signed-power", fmt.Sprintf("Validate accepted a header with valid signed power %d of %d (<= 2/3) (%s)", sp, tot, strings.Join(muts, ",")), rep)
		}
		if origin != nil && originAccepted && bytes.Equal(origin.Commit.BID.Hash, h.Commit.BID.Hash) &&
			!reflect.DeepEqual(c16CommittedOf(origin), c16CommittedOf(h)) {
			r.Violation("accepted:committed-part-changed", "a header that differs from an accepted one in a committed field / root / validator but carries the same block hash was accepted ("+strings.Join(muts, ",")+")", rep)
		}
	}

	// ---- re-encoding
	obsBin, obsJSON := c16NoCodec, c16NoCodec
	viaBin, _ := c16ViaBinary(eh)
	if viaBin != nil {
		obsBin = c16Validate(viaBin)
		if !c16SameFields(c16SpecOf(viaBin), h) {
			r.Violation("reencode:binary-changed-field", "a field changed in MarshalBinary/UnmarshalBinary", rep)
		}
		if !bytes.Equal(viaBin.Hash(), hash0) {
			r.Violation("reencode:binary-changed-hash", "Hash() changed in MarshalBinary/UnmarshalBinary", rep)
		}
		if (obsBin == c16Ok) != (obs == c16Ok) {
			r.Violation("reencode:binary-changed-verdict", fmt.Sprintf("Validate verdict %d became %d after a binary round trip", obs, obsBin), rep)
		}
	} else if obs == c16Ok {
		r.Violation("reencode:binary-refused-valid", "a header accepted by Validate does not survive MarshalBinary/UnmarshalBinary", rep)
	}
	viaJSON := c16ViaJSON(eh)
	if viaJSON != nil {
		obsJSON = c16Validate(viaJSON)
		if !c16SameFields(c16SpecOf(viaJSON), h) {
			r.Violation("reencode:json-changed-field", "a field changed in MarshalJSON/UnmarshalJSON", rep)
		}
		if !bytes.Equal(viaJSON.Hash(), hash0) {
			r.Violation("reencode:json-changed-hash", "Hash() changed in MarshalJSON/UnmarshalJSON", rep)
		}
		if (obsJSON == c16Ok) != (obs == c16Ok) {
			r.Violation("reencode:json-changed-verdict", fmt.Sprintf("Validate verdict %d became %d after a JSON round trip", obs, obsJSON), rep)
		}
	} else {
		r.Violation("reencode:json-refused", "MarshalJSON/UnmarshalJSON failed", rep)
	}

	// ---- Coq case
	s := c16NewSym(c.w, h) // the original is not in focus: its hash is an atom, which is all the model needs
	term := s.wrap("CValidate " + s.hdr(h) + " " + strconv.Itoa(obs) + " " + strconv.Itoa(obsBin) + " " + strconv.Itoa(obsJSON))
	key := ""
	if len(muts) > 0 {
		key = "mutant"
	}
	c.emit(term, map[string]any{"kind": "validate", "hdr": h, "mutations": muts, "obs": obs, "obs_bin": obsBin, "obs_json": obsJSON}, key)
	r.Count("validate-verdict", []string{"accept", "reject", "", "panic"}[obs])
	r.Count("validate-after-binary", []string{"accept", "reject", "", "panic", "decoder-refused"}[obsBin])
	return obs
}

func (c *c16Run) verifyCase(t, u *c16Hdr, now int64, note string) {
	r := c.r
	rep := c16Replay{Kind: "verify", Trusted: t, Untrusted: u, Note: note}
	et, eu := t.build(), u.build()
	method, full := c16Verify(et, eu)
	adjacent := uint64(t.Raw.Height)+1 == uint64(u.Raw.Height)
	if method == c16Ok {
		if adjacent {
			if !bytes.Equal(u.Raw.Vals, t.Raw.NextVals) || !bytes.Equal(u.Raw.Last.Hash, t.Commit.BID.Hash) {
				r.Violation("verify:adjacent-not-linked", "Verify accepted an adjacent header that does not link to the trusted one (validators hash / last block hash) ("+note+")", rep)
			}
		} else if tp, tot := c16TrustedPower(t, u), c16Total(t.Vals); tp*3 <= tot {
			r.Violation("verify:non-adjacent-not-enough-trusted-power", fmt.Sprintf("Verify accepted a non-adjacent header signed by %d of %d trusted power (<= 1/3) (%s)", tp, tot, note), rep)
		}
	}
	if full == c16Ok {
		if method != c16Ok || u.Raw.Chain != t.Raw.Chain || uint64(u.Raw.Height) <= uint64(t.Raw.Height) ||
			u.Raw.TSec < t.Raw.TSec || (u.Raw.TSec == t.Raw.TSec && u.Raw.TNano < t.Raw.TNano) || u.Raw.TSec > now+3600 {
			r.Violation("verify:basic-check-missed", "go-header Verify accepted a header of another chain / old height / earlier or future time ("+note+")", rep)
		}
	}
	// re-encoding both sides must not change the verdict (for an untrusted commit with basically valid signatures - what
	// Validate and the binary decoder demand; otherwise the two signature paths may legitimately differ on garbage)
	_, basicErr := types.CommitFromProto(eu.Commit.ToProto())
	for _, codec := range []string{"binary", "json"} {
		if basicErr != nil {
			break
		}
		var t2, u2 *header.ExtendedHeader
		if codec == "binary" {
			t2, _ = c16ViaBinary(et)
			u2, _ = c16ViaBinary(eu)
		} else {
			t2, u2 = c16ViaJSON(et), c16ViaJSON(eu)
		}
		if t2 == nil || u2 == nil {
			continue
		}
		m2, _ := c16Verify(t2, u2)
		if (m2 == c16Ok) != (method == c16Ok) {
			r.Violation("reencode:"+codec+"-changed-verify-verdict", fmt.Sprintf("Verify verdict %d became %d after a %s round trip (%s)", method, m2, codec, note), rep)
		}
	}
	s := c16NewSym(c.w, t, u)
	term := s.wrap("CVerify " + c16z(now) + " " + s.hdr(t) + " " + s.hdr(u) + " " + strconv.Itoa(method) + " " + strconv.Itoa(full))
	key := "verify"
	c.emit(term, map[string]any{"kind": "verify", "trusted": t, "untrusted": u, "now": now, "note": note, "method": method, "full": full}, key)
	adj := "non-adjacent"
	if adjacent {
		adj = "adjacent"
	}
	r.Count("verify-verdict", adj+":"+[]string{"accept", "reject", "soft-reject", "panic"}[method])
	r.Count("verify-full-verdict", adj+":"+[]string{"accept", "reject", "soft-reject", "panic"}[full])
}

func c16MsgID(eh *header.ExtendedHeader) (string, bool) {
	b, err := eh.MarshalBinary()
	if err != nil {
		return "", false
	}
	return header.MsgID(&pubsubpb.Message{Data: b}), true
}

func (c *c16Run) msgIDCase(x, y *c16Hdr, note string) {
	r := c.r
	ix, okx := c16MsgID(x.build())
	iy, oky := c16MsgID(y.build())
	if !okx || !oky {
		return
	}
	rep := c16Replay{Kind: "msgid", Trusted: x, Untrusted: y, Note: note}
	sameBID := reflect.DeepEqual(x.clone().Commit.BID, y.clone().Commit.BID)
	wireOK := func(h *c16Hdr) bool { _, err := types.CommitFromProto(h.build().Commit.ToProto()); return err == nil }
	if wireOK(x) && wireOK(y) {
		if sameBID && ix != iy {
			r.Violation("msgid:differs-for-same-block", "two messages whose commits are for the same block id have different message ids ("+note+")", rep)
		}
		if ix != x.build().Commit.BlockID.String() {
			r.Violation("msgid:not-the-block-id", "the message id is not the commit's block id", rep)
		}
	}
	s := c16NewSym(c.w, x, y)
	term := s.wrap("CMsgId " + s.hdr(x) + " " + s.hdr(y) + " " + zv.Bool(ix == iy))
	c.emit(term, map[string]any{"kind": "msgid", "x": x, "y": y, "same": ix == iy, "note": note}, "msgid")
	r.Count("msgid", fmt.Sprintf("same-block-id=%v same-id=%v", sameBID, ix == iy))
}

// ---------------------------------------------------------------- the test

func TestVerifC16(t *testing.T) {
	r := zv.Start(t, "C16")
	defer r.Finish()
	rng := r.Rand()
	w := c16NewWorld(rng)
	c := &c16Run{r: r, w: w}
	for i := 0; i < 12; i++ {
		c.gs = append(c.gs, r.Group(fmt.Sprintf("h%02d", i), c16Header, "case", "mismatches"))
	}
	now := time.Now().Unix()

	// ---- replay of a single recorded case
	var rp c16Replay
	if r.ReplayInput(&rp) {
		reg := func(h *c16Hdr) {
			if h != nil {
				for _, v := range append(append([]c16Val{}, h.Vals...), h.Prop) {
					if len(v.Key) == 32 {
						w.addr[string(w.addrOf(v.Key))] = v.Key
					}
				}
			}
		}
		reg(rp.Hdr)
		reg(rp.Origin)
		reg(rp.Trusted)
		reg(rp.Untrusted)
		switch rp.Kind {
		case "validate":
			oa := rp.Origin != nil && c16Validate(rp.Origin.build()) == c16Ok
			c.validateCase(rp.Hdr, rp.Origin, oa, rp.Muts)
		case "verify":
			c.verifyCase(rp.Trusted, rp.Untrusted, now, rp.Note)
		case "msgid":
			c.msgIDCase(rp.Trusted, rp.Untrusted, rp.Note)
		}
		return
	}

	// ---- constants of the implementation
	for i, v := range map[int]int64{0: 11, 1: types.MaxChainIDLen, 2: int64(appconsts.Version), 3: 20, 4: int64(types.MaxSignatureSize),
		5: types.MaxTotalVotingPower, 6: int64(types.MaxBlockPartsCount), 7: int64(appconsts.MinSquareSize * 2), 8: int64(appconsts.SquareSizeUpperBound * 2), 9: time.Time{}.Unix()} {
		c.emit("CConst "+strconv.Itoa(i)+"%nat "+c16z(v), map[string]any{"kind": "const", "name": i, "v": v}, "")
	}

	// ---- honest chains: several validator-set sizes and power distributions
	sizes := []int{1, 2, 3, 4, 4, 7, 10, 3, 5}
	var chains []*c16Chain
	past := now - 100000
	for i, n := range sizes {
		ch := w.genChain(fmt.Sprintf("chain-%d", i%7), n, i%5, 6, int64(1+rng.Intn(1000)), past+int64(rng.Intn(1000)))
		chains = append(chains, ch)
	}
	accepted := map[*c16Hdr]bool{}
	for _, ch := range chains {
		for _, h := range ch.hdrs {
			if c.validateCase(h, nil, false, nil) != c16Ok {
				t.Fatalf("harness broken: generated honest header rejected: %+v", h.build().Validate())
			}
			accepted[h] = true
			r.Count("valset-size", strconv.Itoa(len(h.Vals)))
		}
	}

	// ---- mutants
	muts := c16Muts()
	pick := func() (ch *c16Chain, h, nb, other *c16Hdr) {
		ci := rng.Intn(len(chains))
		ch = chains[ci]
		i := rng.Intn(len(ch.hdrs))
		j := i + 1
		if j >= len(ch.hdrs) || (i > 0 && rng.Bool()) {
			j = i - 1
		}
		oc := chains[(ci+1+rng.Intn(len(chains)-1))%len(chains)]
		return ch, ch.hdrs[i], ch.hdrs[j], oc.hdrs[rng.Intn(len(oc.hdrs))]
	}
	nMut := r.N(750, 60000)
	for it := 0; it < nMut; it++ {
		_, orig, nb, other := pick()
		h := orig.clone()
		k := 1
		if rng.Chance(30) {
			k = 2 + rng.Intn(2)
		}
		var names []string
		touchedData, touchedVals := false, false
		for len(names) < k {
			m := muts[rng.Intn(len(muts))]
			if it < len(muts) { // every operator at least once, alone
				m = muts[it]
			}
			if m.f(w, h, nb, other) {
				names = append(names, m.name)
				touchedData = touchedData || strings.HasPrefix(m.name, "dah.")
				touchedVals = touchedVals || strings.HasPrefix(m.name, "vals.")
			} else if it < len(muts) {
				break
			}
		}
		if len(names) == 0 {
			continue
		}
		if rng.Chance(35) {
			// a consistently re-committed variant: a different header, honestly signed
			w.recommit(h, touchedData || rng.Bool(), touchedVals || rng.Bool())
			names = append(names, "recommit")
		}
		obs := c.validateCase(h, orig, accepted[orig], names)
		for _, n := range names {
			r.Count("mutation", n+":"+[]string{"accept", "reject", "", "panic"}[obs])
		}
	}

	// ---- threshold sweep: every prefix of signers, exact 2/3 boundary included
	for _, ch := range chains {
		h0 := ch.hdrs[len(ch.hdrs)-1]
		for k := 0; k <= len(h0.Vals); k++ {
			h := h0.clone()
			sg := map[int]bool{}
			for i := 0; i < k; i++ {
				sg[(i+rng.Intn(2))%len(h0.Vals)] = true
			}
			w.signCommit(h, sg, nil)
			c.validateCase(h, h0, true, []string{fmt.Sprintf("signers=%d", len(sg))})
		}
	}

	// ---- Verify: adjacent / non-adjacent pairs, honest and mutated
	nVer := r.N(260, 20000)
	for it := 0; it < nVer; it++ {
		ch, _, _, other := pick()
		i := rng.Intn(len(ch.hdrs) - 1)
		j := i + 1
		if rng.Chance(60) {
			j = i + 1 + rng.Intn(len(ch.hdrs)-i-1)
		}
		tr, un := ch.hdrs[i], ch.hdrs[j].clone()
		note := fmt.Sprintf("honest %d->%d", tr.Raw.Height, un.Raw.Height)
		switch rng.Intn(11) {
		case 0, 1: // honest pair
		case 2: // any catalogue mutation of the untrusted header
			nb := ch.hdrs[i]
			m := muts[rng.Intn(len(muts))]
			if m.f(w, un, nb, other) {
				note = m.name
			}
		case 3: // partial signer sets around the 1/3 trust threshold
			sg := map[int]bool{}
			for k := rng.Intn(len(un.Vals) + 1); k > 0; k-- {
				sg[rng.Intn(len(un.Vals))] = true
			}
			w.signCommit(un, sg, nil)
			note = fmt.Sprintf("signers=%d", len(sg))
		case 4: // untrusted header of another chain / another validator set
			un = other.clone()
			if rng.Bool() {
				un.Raw.Height = tr.Raw.Height + int64(1+rng.Intn(3))
			}
			note = "other-chain"
		case 5: // invalidate some signatures
			for k := 1 + rng.Intn(len(un.Commit.Sigs)); k > 0; k-- {
				x := rng.Intn(len(un.Commit.Sigs))
				if len(un.Commit.Sigs[x].Sig) > 0 {
					un.Commit.Sigs[x].Sig = c16Flip(w, un.Commit.Sigs[x].Sig)
				}
			}
			note = "sigs-flipped"
		case 6: // the same validator votes twice
			n := len(un.Commit.Sigs)
			a, b := rng.Intn(n), rng.Intn(n)
			if rng.Bool() {
				un.Commit.Sigs = append(un.Commit.Sigs, un.Commit.Sigs[a])
			} else {
				un.Commit.Sigs[b] = un.Commit.Sigs[a]
			}
			note = "double-vote"
		case 7: // basic checks: height, time, chain id
			switch rng.Intn(5) {
			case 0:
				un.Raw.Height = tr.Raw.Height - int64(rng.Intn(2))
			case 1:
				un.Raw.TSec = tr.Raw.TSec - int64(1+rng.Intn(50))
			case 2:
				un.Raw.TSec = now + 7200 + int64(rng.Intn(1000))
			case 3:
				un.Raw.Chain = "elsewhere"
			default:
				un.Raw.TSec, un.Raw.TNano = tr.Raw.TSec, tr.Raw.TNano
			}
			note = "basic"
		case 8: // linking fields of an adjacent header
			switch rng.Intn(4) {
			case 0:
				un.Raw.Vals = c16Flip(w, un.Raw.Vals)
			case 1:
				un.Raw.Last.Hash = c16Flip(w, un.Raw.Last.Hash)
			case 2:
				un.Raw.Last.Hash = c16b(ch.hdrs[i].Raw.Last.Hash)
			default:
				un.Raw.Vals = c16b(other.Raw.Vals)
			}
			note = "link"
		case 9: // the same validators sign the same content under another chain id (a fork / another network)
			un.Raw.Chain = []string{"fork-net", other.Raw.Chain, tr.Raw.Chain + "-2"}[rng.Intn(3)]
			w.recommit(un, false, false)
			note = "resigned-other-chain-id"
		default: // commit signed for a malformed or different block id / round
			switch rng.Intn(3) {
			case 0:
				un.Commit.BID.PHash = w.rng.Bytes(5)
			case 1:
				un.Commit.Round++
			default:
				un.Commit.BID.Hash = c16Flip(w, un.Commit.BID.Hash)
			}
			note = "commit-bid"
		}
		trc := tr.clone()
		trc.Same = rng.Bool()
		c.verifyCase(trc, un, now, note)
	}

	// ---- MsgID: same block id with different signature sets / validator sets / DAH; different block ids
	for it := 0; it < r.N(50, 3000); it++ {
		_, orig, nb, other := pick()
		y := orig.clone()
		note := ""
		switch rng.Intn(6) {
		case 0:
			sg, nl := w.pickSigners(y.Vals, 2)
			bid := y.Commit.BID
			w.signCommit(y, sg, nl)
			y.Commit.BID = bid
			note = "other-signers"
		case 1:
			for i := range y.Commit.Sigs {
				if y.Commit.Sigs[i].Flag != 1 {
					y.Commit.Sigs[i].TSec++
				}
			}
			note = "timestamps"
		case 2:
			y.Vals, y.Prop, y.Rows, y.Cols = other.clone().Vals, other.clone().Prop, c16bb(nb.Rows), c16bb(nb.Cols)
			y.Raw.App = rng.Bytes(9)
			note = "other-parts-same-commit-bid"
		case 3:
			y.Commit.BID.Hash = c16Flip(w, y.Commit.BID.Hash)
			note = "bid-hash"
		case 4:
			y.Commit.BID.Total++
			note = "bid-total"
		default:
			y = nb.clone()
			note = "neighbour"
		}
		c.msgIDCase(orig, y, note)
	}
	// ---- MsgID is a function of the message alone: whatever was decoded before (honest messages, messages whose
	// commit leaves fields unset on the wire, garbage), the id of a message is the same
	{
		var msgs [][]byte
		var notes []string
		add := func(b []byte, note string) { msgs = append(msgs, b); notes = append(notes, note) }
		for it := 0; it < 6; it++ {
			_, orig, nb, _ := pick()
			for _, hd := range []*c16Hdr{orig, nb} {
				b, err := hd.build().MarshalBinary()
				if err != nil {
					continue
				}
				add(b, "honest")
				var m header_pb.ExtendedHeader
				if m.Unmarshal(b) != nil || m.Commit == nil {
					continue
				}
				full := *m.Commit
				// fields that are zero are absent on the wire (proto3): block id, part-set header, height, round, signatures
				c1 := full
				c1.BlockID = tmproto.BlockID{}
				m.Commit = &c1
				if x, err := m.Marshal(); err == nil {
					add(x, "no-block-id")
				}
				c2 := full
				c2.BlockID.PartSetHeader = tmproto.PartSetHeader{}
				m.Commit = &c2
				if x, err := m.Marshal(); err == nil {
					add(x, "no-part-set-header")
				}
				c3 := full
				c3.Height, c3.Round, c3.Signatures = 0, 0, nil
				m.Commit = &c3
				if x, err := m.Marshal(); err == nil {
					add(x, "no-height-round-signatures")
				}
				m.Commit = nil
				if x, err := m.Marshal(); err == nil {
					add(x, "no-commit")
				}
			}
		}
		add(rng.Bytes(40), "garbage")
		add(nil, "empty")
		ids := make([]map[string]int, len(msgs)) // message -> id -> predecessor that produced it first
		for i := range ids {
			ids[i] = map[string]int{}
		}
		for rep := 0; rep < 3; rep++ {
			for j := range msgs {
				for i := range msgs {
					header.MsgID(&pubsubpb.Message{Data: msgs[j]})
					id := header.MsgID(&pubsubpb.Message{Data: msgs[i]})
					if _, ok := ids[i][id]; !ok {
						ids[i][id] = j
					}
				}
			}
		}
		for i := range msgs {
			r.Count("msgid-history", notes[i])
			if len(ids[i]) > 1 {
				var preds []string
				for _, j := range ids[i] {
					preds = append(preds, notes[j])
				}
				sort.Strings(preds)
				r.Violation("msgid:depends-on-history", fmt.Sprintf("the message id of a %q message takes %d different values depending on the message decoded before it (%s)", notes[i], len(ids[i]), strings.Join(preds, ", ")),
					map[string]any{"kind": "msgid-history", "message_hex": hex.EncodeToString(msgs[i]), "class": notes[i], "predecessor_classes": preds})
			}
		}
	}
	r.Set("interned_byte_strings", len(w.intern))
	r.Set("signatures_made", len(w.sigs))
	_ = hex.EncodeToString
	_ = json.Marshal
}

//go:build verif

package blob

// C20 correspondence + oracle harness (see /verif/DESIGN.md, C20).
//
// The REAL blob.Service (NewService / Start / Subscribe / Stop, the real getAll -> retrieve -> parser path over real
// squares) is driven through generated schedules: a scripted header feed (unbuffered channel, as nodebuilder/header
// provides), a scripted retrieval outcome per getAll call (the header getter that retrieve calls first blocks until the
// schedule says "fail" or "ok"), a scripted consumer (fast / slow / stalled), cancel / service stop / feed close at any
// step, one to three subscriptions on different namespaces concurrently.
//
// L2: for every subscription its event list, the channel length after each event, everything the consumer received and
//     whether the channel ended closed are written as a Coq case for CN.Blob.Subscribe.mismatches.
// L3: oracles on the implementation: every response received is the response owed for the next header delivered (height,
//     header, exactly the blobs of that namespace at that height: no gap, duplicate, reorder, wrong blobs); the channel is
//     closed only when allowed and is closed when required - in particular a retrieval is not retried after the service
//     stopped or the subscriber cancelled.
// All waits are on events (a getAll call started, a receive, the channel closing); the timeouts below fire only on a violation.

import (
	"context"
	"errors"
	"fmt"
	"os"
	"runtime"
	"strconv"
	"sync/atomic"
	"testing"
	"time"
	"unsafe"

	"github.com/golang/mock/gomock"

	"github.com/celestiaorg/celestia-app/v9/pkg/wrapper"
	libshare "github.com/celestiaorg/go-square/v4/share"
	"github.com/celestiaorg/rsmt2d"

	"github.com/celestiaorg/celestia-node/header"
	"github.com/celestiaorg/celestia-node/header/headertest"
	"github.com/celestiaorg/celestia-node/share"
	"github.com/celestiaorg/celestia-node/share/eds"
	"github.com/celestiaorg/celestia-node/share/shwap"
	"github.com/celestiaorg/celestia-node/share/shwap/getters/mock"
	zv "github.com/celestiaorg/celestia-node/zzverif"
)

const c20Header = `From Coq Require Import List ZArith.
From CN Require Import Blob.Subscribe.
Import ListNotations.
Open Scope Z_scope.
`

var c20Watchdog = 20 * time.Second
const c20Cap = 16

// ---------------------------------------------------------------- the block pool (real squares, real headers)

type c20Pool struct {
	nss     []libshare.Namespace // subscribed namespaces: three with blobs somewhere, one that never occurs
	headers []*header.ExtendedHeader
	edsses  []*rsmt2d.ExtendedDataSquare
	ids     [][][]int64 // ids[height-1][ns index] = ids of the blobs of that namespace at that height, in square order
}

func c20ID(com []byte) int64 {
	var x int64
	for i := 0; i < 6 && i < len(com); i++ {
		x = x<<8 | int64(com[i])
	}
	return x
}

func c20BuildPool(t *testing.T, rng *zv.Rand, n int) *c20Pool {
	p := &c20Pool{}
	for i := 0; i < 4; i++ {
		id := []byte{0x10, 0, 0, 0, 0, 0, 0, 0, 0, byte(0x20 + 0x10*i)}
		ns, err := libshare.NewV0Namespace(id)
		if err != nil {
			t.Fatal(err)
		}
		p.nss = append(p.nss, ns)
	}
	for h := 0; h < n; h++ {
		var blobs []*Blob
		ids := make([][]int64, 4)
		for k := 0; k < 3; k++ { // namespace 3 never has blobs
			cnt := rng.Intn(3)
			if rng.Chance(15) {
				cnt = 3
			}
			for j := 0; j < cnt; j++ {
				data := rng.Bytes(1 + rng.Intn(300))
				b, err := NewBlobV0(p.nss[k], data)
				if err != nil {
					t.Fatal(err)
				}
				blobs = append(blobs, b)
				ids[k] = append(ids[k], c20ID(b.Commitment))
			}
		}
		shares, err := BlobsToShares(blobs...) // sorted by namespace, stable: ids stay in square order
		if err != nil {
			t.Fatal(err)
		}
		ods := 1
		for ods*ods < len(shares) || ods*ods < 1 {
			ods *= 2
		}
		shares = append(shares, libshare.TailPaddingShares(ods*ods-len(shares))...)
		sq, err := rsmt2d.ComputeExtendedDataSquare(libshare.ToBytes(shares), share.DefaultRSMT2DCodec(), wrapper.NewConstructor(uint64(ods)))
		if err != nil {
			t.Fatal(err)
		}
		p.edsses = append(p.edsses, sq)
		p.ids = append(p.ids, ids)
	}
	p.headers = headertest.ExtendedHeadersFromEdsses(t, p.edsses)
	return p
}

// ---------------------------------------------------------------- one subscription under script

type c20Key struct{}

type c20Resp struct {
	Height int64   `json:"height"`
	IDs    []int64 `json:"ids"`
}

type c20Ev struct {
	Kind string `json:"kind"` // header | fail | ok | send | tick | consume | cancel | stop | feedclose
	H    int    `json:"h,omitempty"`
	QLen int    `json:"qlen"` // channel length observed after the event
}

type c20Sub struct {
	idx     int
	ns      int
	ctx     context.Context
	cancel  context.CancelFunc
	feed    chan *header.ExtendedHeader
	calls   chan uint64 // a getAll call reached the header getter (height)
	outcome chan bool   // scripted result of that call
	ch      <-chan *SubscriptionResponse

	// reference state (what the property allows), mirrors Blob/Subscribe.v
	pc        string // idle | retry | closed
	cur       int    // height in flight
	queue     int
	cancelled bool
	stopped   bool
	fclosed   bool
	delivered []int // heights delivered by the feed, in order
	nrecv     int   // responses received so far

	events []c20Ev
	got    []c20Resp
	closed bool
	pace   int
	fmode  int
}

type c20Case struct {
	Kind string     `json:"kind,omitempty"` // set by the other C20 harness (nodebuilder/header): not a replay for this one
	Seed uint64     `json:"seed"`
	Subs []c20SubJS `json:"subs"`
}

type c20SubJS struct {
	NS     int       `json:"ns"`
	Events []c20Ev   `json:"events"`
	Got    []c20Resp `json:"got"`
	Closed bool      `json:"closed"`
}

type c20Runner struct {
	r    *zv.Run
	t    *testing.T
	pool *c20Pool
	svc  *Service
	subs []*c20Sub
	bad  bool
	seed uint64
}

func (x *c20Runner) violation(sig, desc string) {
	x.bad = true
	x.r.Violation(sig, desc, x.snapshot())
}

func (x *c20Runner) snapshot() c20Case {
	c := c20Case{Seed: x.seed}
	for _, s := range x.subs {
		c.Subs = append(c.Subs, c20SubJS{NS: s.ns, Events: s.events, Got: s.got, Closed: s.closed})
	}
	return c
}

func c20NewService(t *testing.T, pool *c20Pool) *Service {
	hget := func(ctx context.Context, height uint64) (*header.ExtendedHeader, error) {
		if c, ok := ctx.Value(c20Key{}).(*c20Sub); ok {
			c.calls <- height
			res, open := <-c.outcome
			if !open || !res {
				return nil, errors.New("scripted retrieval failure")
			}
		}
		if height == 0 || int(height) > len(pool.headers) {
			return nil, errors.New("no such header")
		}
		return pool.headers[height-1], nil
	}
	hsub := func(ctx context.Context) (<-chan *header.ExtendedHeader, error) {
		c, ok := ctx.Value(c20Key{}).(*c20Sub)
		if !ok {
			return nil, errors.New("no script")
		}
		return c.feed, nil
	}
	ctrl := gomock.NewController(t)
	getter := mock.NewMockGetter(ctrl)
	getter.EXPECT().GetNamespaceData(gomock.Any(), gomock.Any(), gomock.Any()).AnyTimes().
		DoAndReturn(func(ctx context.Context, h *header.ExtendedHeader, ns libshare.Namespace) (shwap.NamespaceData, error) {
			acc := &eds.Rsmt2D{ExtendedDataSquare: pool.edsses[h.Height()-1]}
			return eds.NamespaceData(context.Background(), acc, ns)
		})
	return NewService(nil, getter, hget, hsub)
}

func (x *c20Runner) subscribe(idx, ns int) bool {
	s := &c20Sub{idx: idx, ns: ns, feed: make(chan *header.ExtendedHeader), calls: make(chan uint64, 4096),
		outcome: make(chan bool), pc: "idle"}
	s.ctx, s.cancel = context.WithCancel(context.WithValue(context.Background(), c20Key{}, s))
	ch, err := x.svc.Subscribe(s.ctx, x.pool.nss[ns])
	if err != nil {
		x.violation("harness", "Subscribe: "+err.Error())
		return false
	}
	s.ch = ch
	x.subs = append(x.subs, s)
	return true
}

func (s *c20Sub) record(kind string, h int) {
	s.events = append(s.events, c20Ev{Kind: kind, H: h, QLen: len(s.ch)})
}

// receive takes one response (it must be there) and checks it against what the subscription owes next.
func (x *c20Runner) receive(s *c20Sub) (ok, closed bool) {
	select {
	case resp, open := <-s.ch:
		if !open {
			return false, true
		}
		x.check(s, resp)
		return true, false
	case <-time.After(c20Watchdog):
		return false, false
	}
}

func (x *c20Runner) check(s *c20Sub, resp *SubscriptionResponse) {
	got := c20Resp{IDs: []int64{}}
	if resp != nil {
		got.Height = int64(resp.Height)
		for _, b := range resp.Blobs {
			got.IDs = append(got.IDs, c20ID(b.Commitment))
		}
	}
	s.got = append(s.got, got)
	i := s.nrecv
	s.nrecv++
	if i >= len(s.delivered) {
		x.violation("response-without-header", fmt.Sprintf("sub %d: response %d (height %d) although only %d headers were delivered", s.idx, i, got.Height, len(s.delivered)))
		return
	}
	h := s.delivered[i]
	want := x.pool.ids[h-1][s.ns]
	okIDs := len(want) == len(got.IDs)
	for k := 0; okIDs && k < len(want); k++ {
		okIDs = want[k] == got.IDs[k]
	}
	hdr := x.pool.headers[h-1]
	if resp == nil || got.Height != int64(h) || resp.Header != &hdr.RawHeader || !okIDs {
		kind := "wrong-blobs"
		if got.Height != int64(h) {
			kind = "gap-dup-or-reorder"
		}
		x.violation("wrong-response:"+kind, fmt.Sprintf(
			"sub %d (namespace %d): response %d carries height %d blobs %v, owed is height %d blobs %v (delivered heights %v)",
			s.idx, s.ns, i, got.Height, got.IDs, h, want, s.delivered))
	}
}

// c20hchan mirrors the head of runtime.hchan (go1.26: qcount, dataqsiz, buf, elemsize, closed). It is used only to OBSERVE
// that the producer has returned (close(blobCh)) without receiving from the channel: receiving before the producer has
// evaluated len(blobCh) == cap(blobCh) would change what it decides. c20SelfTest checks the layout on every run.
type c20hchan struct {
	qcount   uint
	dataqsiz uint
	buf      unsafe.Pointer
	elemsize uint16
	closed   uint32
}

func c20IsClosed(ch <-chan *SubscriptionResponse) bool {
	p := *(*unsafe.Pointer)(unsafe.Pointer(&ch))
	return atomic.LoadUint32(&(*c20hchan)(p).closed) != 0
}

func c20SelfTest() error {
	c := make(chan *SubscriptionResponse, 16)
	var ro <-chan *SubscriptionResponse = c
	p := *(*unsafe.Pointer)(unsafe.Pointer(&ro))
	h := (*c20hchan)(p)
	c <- nil
	c <- nil
	if h.qcount != 2 || h.dataqsiz != 16 || c20IsClosed(ro) {
		return fmt.Errorf("runtime.hchan layout differs (qcount=%d dataqsiz=%d closed=%v)", h.qcount, h.dataqsiz, c20IsClosed(ro))
	}
	close(c)
	if !c20IsClosed(ro) || h.qcount != 2 {
		return errors.New("runtime.hchan layout differs (closed flag)")
	}
	return nil
}

// waitClosed waits until the producer has closed the channel, then reads what it left in it.
// alsoCalls: a new getAll call instead of the closing is the violation named sig.
func (x *c20Runner) waitClosed(s *c20Sub, kind string, h int, sig, what string, alsoCalls bool) bool {
	deadline := time.Now().Add(c20Watchdog)
	for !c20IsClosed(s.ch) {
		if alsoCalls {
			select {
			case hh := <-s.calls:
				x.violation(sig, fmt.Sprintf("sub %d: %s: the producer started another retrieval (height %d) instead of closing the stream", s.idx, what, hh))
				return false
			default:
			}
		}
		if time.Now().After(deadline) {
			x.violation("not-closed", fmt.Sprintf("sub %d: %s: the stream was not closed within the watchdog", s.idx, what))
			return false
		}
		runtime.Gosched()
		time.Sleep(20 * time.Microsecond)
	}
	n := len(s.ch)
	// the event itself, then the reads that happen after it
	s.events = append(s.events, c20Ev{Kind: kind, H: h, QLen: n})
	for k := n - 1; k >= 0; k-- {
		resp, open := <-s.ch
		if !open {
			x.violation("response-lost", fmt.Sprintf("sub %d: %d responses were buffered at the closing, fewer could be read", s.idx, n))
			return false
		}
		x.check(s, resp)
		if x.bad {
			return false
		}
		s.events = append(s.events, c20Ev{Kind: "consume", QLen: k})
	}
	if _, open := <-s.ch; open {
		x.violation("response-without-header", fmt.Sprintf("sub %d: a response appeared after the stream was closed", s.idx))
		return false
	}
	s.queue = 0
	s.pc, s.closed = "closed", true
	return true
}

func (x *c20Runner) waitCall(s *c20Sub, h int, what string) bool {
	deadline := time.Now().Add(c20Watchdog)
	for {
		select {
		case hh := <-s.calls:
			if int(hh) != h {
				x.violation("wrong-response:retrieval-height", fmt.Sprintf("sub %d: %s: retrieval for height %d, expected %d", s.idx, what, hh, h))
				return false
			}
			return true
		default:
		}
		if c20IsClosed(s.ch) {
			x.violation("closed-without-cause", fmt.Sprintf(
				"sub %d: %s: the stream was closed instead of retrieving height %d (cancel=%v stop=%v feedclosed=%v unread=%d)",
				s.idx, what, h, s.cancelled, s.stopped, s.fclosed, s.queue))
			return false
		}
		if len(s.ch) > s.queue {
			x.violation("response-without-retrieval", fmt.Sprintf(
				"sub %d: %s: a response was sent for height %d although its retrieval has not succeeded (the height is given up instead of retried)",
				s.idx, what, h))
			return false
		}
		if time.Now().After(deadline) {
			x.violation("no-retrieval", fmt.Sprintf("sub %d: %s: no retrieval for height %d was started", s.idx, what, h))
			return false
		}
		runtime.Gosched()
		time.Sleep(20 * time.Microsecond)
	}
}

func (s *c20Sub) ended() bool { return s.cancelled || s.stopped }

// ---- the events

func (x *c20Runner) evHeader(s *c20Sub, h int) bool {
	select {
	case s.feed <- x.pool.headers[h-1]:
	case <-time.After(c20Watchdog):
		x.violation("feed-not-read", fmt.Sprintf("sub %d: the producer did not take header %d from the feed", s.idx, h))
		return false
	}
	s.delivered = append(s.delivered, h)
	if s.ended() || s.queue == c20Cap {
		return x.waitClosed(s, "header", h, "not-closed", fmt.Sprintf("header %d delivered with cancel=%v stop=%v unread=%d", h, s.cancelled, s.stopped, s.queue), false)
	}
	s.pc, s.cur = "retry", h
	if !x.waitCall(s, h, "after the header was delivered") {
		return false
	}
	s.record("header", h)
	return true
}

func (x *c20Runner) evOutcome(s *c20Sub, ok bool) bool {
	kind := "fail"
	if ok {
		kind = "ok"
	}
	select {
	case s.outcome <- ok:
	case <-time.After(c20Watchdog):
		x.violation("harness", "no retrieval in flight")
		return false
	}
	if s.ended() {
		sig := "cancel-ignored-while-retrying"
		if !s.cancelled {
			sig = "stop-ignored-while-retrying"
		}
		return x.waitClosed(s, kind, 0, sig, fmt.Sprintf("retrieval of height %d returned (ok=%v) after cancel=%v stop=%v", s.cur, ok, s.cancelled, s.stopped), true)
	}
	if !ok {
		if !x.waitCall(s, s.cur, "after a failed retrieval") {
			return false
		}
		s.record("fail", 0)
		return true
	}
	// success: the response is sent (there is room) and the producer is back in its select
	deadline := time.Now().Add(c20Watchdog)
	for len(s.ch) != s.queue+1 {
		if time.Now().After(deadline) {
			x.violation("response-not-sent", fmt.Sprintf("sub %d: the response for height %d was not sent (channel length %d, expected %d)", s.idx, s.cur, len(s.ch), s.queue+1))
			return false
		}
		runtime.Gosched()
		time.Sleep(20 * time.Microsecond)
	}
	s.events = append(s.events, c20Ev{Kind: "ok", QLen: s.queue})
	s.queue++
	s.pc = "idle"
	s.record("send", 0)
	if s.fclosed {
		return x.waitClosed(s, "tick", 0, "not-closed", "feed closed and the pending height answered", false)
	}
	return true
}

func (x *c20Runner) evConsume(s *c20Sub) bool {
	ok, closed := x.receive(s)
	if closed {
		x.violation("closed-without-cause", fmt.Sprintf("sub %d: the stream is closed although %d responses are unread and nothing ended it (cancel=%v stop=%v feedclosed=%v)", s.idx, s.queue, s.cancelled, s.stopped, s.fclosed))
		return false
	}
	if !ok {
		x.violation("response-lost", fmt.Sprintf("sub %d: %d responses should be readable, none arrived", s.idx, s.queue))
		return false
	}
	s.queue--
	s.record("consume", 0)
	return !x.bad
}

func (x *c20Runner) evCancel(s *c20Sub) bool {
	s.cancel()
	s.cancelled = true
	s.record("cancel", 0)
	if s.pc == "idle" {
		return x.waitClosed(s, "tick", 0, "not-closed", "subscriber cancelled while the producer was idle", false)
	}
	return true
}

func (x *c20Runner) evFeedClose(s *c20Sub) bool {
	close(s.feed)
	s.fclosed = true
	s.record("feedclose", 0)
	if s.pc == "idle" {
		return x.waitClosed(s, "tick", 0, "not-closed", "header feed closed while the producer was idle", false)
	}
	return true
}

func (x *c20Runner) evStop() bool {
	if err := x.svc.Stop(context.Background()); err != nil {
		x.violation("harness", "Stop: "+err.Error())
		return false
	}
	for _, s := range x.subs {
		if s.pc == "closed" {
			continue
		}
		s.stopped = true
		s.record("stop", 0)
	}
	for _, s := range x.subs {
		if s.pc == "idle" {
			if !x.waitClosed(s, "tick", 0, "not-closed", "service stopped while the producer was idle", false) {
				return false
			}
		}
	}
	return true
}

// finish drains what is readable and notes whether the channel ended closed.
func (x *c20Runner) finish(s *c20Sub) {
	if s.pc != "closed" {
		for s.queue > 0 && !x.bad {
			if !x.evConsume(s) {
				return
			}
		}
		if c20IsClosed(s.ch) {
			x.violation("closed-without-cause", fmt.Sprintf("sub %d: the stream is closed at the end although nothing ended it (cancel=%v stop=%v feedclosed=%v pc=%s)", s.idx, s.cancelled, s.stopped, s.fclosed, s.pc))
		} else if len(s.ch) > 0 {
			x.violation("response-without-header", fmt.Sprintf("sub %d: an extra response was readable at the end", s.idx))
		}
	}
}

func (x *c20Runner) cleanup() {
	for _, s := range x.subs {
		s.cancel()
		close(s.outcome)
	}
	if x.svc != nil && x.svc.cancel != nil {
		x.svc.cancel()
	}
	// let the producers return (each one closes its channel)
	for _, s := range x.subs {
		deadline := time.After(c20Watchdog)
	drain:
		for {
			select {
			case _, open := <-s.ch:
				if !open {
					break drain
				}
			case <-s.calls:
			case <-deadline:
				break drain
			}
		}
	}
}

// ---------------------------------------------------------------- generation + run of one case

func c20RunCase(r *zv.Run, t *testing.T, pool *c20Pool, seed uint64) *c20Runner {
	rng := zv.NewRand(seed)
	x := &c20Runner{r: r, t: t, pool: pool, seed: seed}
	x.svc = c20NewService(t, pool)
	if err := x.svc.Start(context.Background()); err != nil {
		t.Fatal(err)
	}
	// a quarter of the cases run on a service that was stopped and started again before anybody subscribes (the
	// lifecycle hooks of a restarted node): a running service is a running service
	if (seed>>9)%4 == 0 {
		if err := x.svc.Stop(context.Background()); err != nil {
			t.Fatal(err)
		}
		if err := x.svc.Start(context.Background()); err != nil {
			t.Fatal(err)
		}
		r.Count("service_lifecycle", "stopped-and-restarted-before-subscribing")
	} else {
		r.Count("service_lifecycle", "started-once")
	}
	defer x.cleanup()
	nsubs := 1 + rng.Intn(3)
	perm := []int{0, 1, 2, 3}
	for i := 3; i > 0; i-- {
		j := rng.Intn(i + 1)
		perm[i], perm[j] = perm[j], perm[i]
	}
	for i := 0; i < nsubs; i++ {
		if !x.subscribe(i, perm[i]) {
			return x
		}
		x.subs[i].pace = rng.Intn(3)  // 0 fast, 1 slow, 2 stalled
		x.subs[i].fmode = rng.Intn(4) // 0 never fails, 1 sometimes, 2 bursts, 3 keeps failing once it starts
	}
	next := make([]int, nsubs) // next height of each feed
	for i := range next {
		next[i] = 1 + rng.Intn(3)
	}
	failing := make([]bool, nsubs)
	stopped := false
	steps := 15 + rng.Intn(70)
	if rng.Chance(25) {
		steps = 90 + rng.Intn(60) // long enough for a stalled reader to fall 16 behind
	}
	endAt := steps
	if rng.Chance(70) {
		endAt = rng.Intn(steps) // a cancel / stop / feed close is forced at this step
	}
	for step := 0; step < steps && !x.bad; step++ {
		i := rng.Intn(nsubs)
		s := x.subs[i]
		if step == endAt {
			switch rng.Intn(3) {
			case 0:
				if s.pc != "closed" && !s.cancelled {
					r.Count("end", "cancel@"+s.pc)
					x.evCancel(s)
				}
			case 1:
				if !stopped {
					stopped = true
					for _, q := range x.subs {
						r.Count("end", "stop@"+q.pc)
					}
					x.evStop()
				}
			default:
				if s.pc != "closed" && !s.fclosed {
					r.Count("end", "feedclose@"+s.pc)
					x.evFeedClose(s)
				}
			}
			continue
		}
		switch s.pc {
		case "closed":
			continue
		case "retry":
			fail := false
			switch s.fmode {
			case 1:
				fail = rng.Chance(30)
			case 2:
				if failing[i] {
					fail = rng.Chance(80)
				} else {
					fail = rng.Chance(15)
				}
			case 3:
				fail = failing[i] || rng.Chance(10)
			}
			if s.ended() && s.fmode != 0 && rng.Chance(70) {
				fail = true // the retrieval keeps failing while the stream has to end
			}
			failing[i] = fail
			r.Count("event", map[bool]string{true: "getall-fail", false: "getall-ok"}[fail])
			x.evOutcome(s, !fail)
		case "idle":
			// consumer
			wantConsume := false
			switch s.pace {
			case 0:
				wantConsume = s.queue > 0 && rng.Chance(85)
			case 1:
				wantConsume = s.queue > 0 && rng.Chance(15)
			}
			if wantConsume {
				r.Count("event", "consume")
				x.evConsume(s)
				continue
			}
			if s.fclosed {
				continue
			}
			h := next[i]
			if rng.Chance(6) { // the feed is not this harness's to order: repeats and jumps too
				h = 1 + rng.Intn(len(pool.headers))
			}
			if h > len(pool.headers) {
				h = 1 + rng.Intn(len(pool.headers))
			}
			next[i] = h + 1
			r.Count("event", "header")
			x.evHeader(s, h)
		}
	}
	if !x.bad {
		for _, s := range x.subs {
			x.finish(s)
			r.Count("final", fmt.Sprintf("pc=%s", s.pc))
			if s.queue == 0 && s.pc == "closed" && len(s.delivered) > len(s.got) && !s.cancelled && !s.stopped && !s.fclosed {
				r.Count("final", "overflow-closed")
			}
		}
	}
	return x
}

func c20Term(x *c20Runner) string {
	subs := make([]string, len(x.subs))
	for i, s := range x.subs {
		evs := make([]string, len(s.events))
		for j, e := range s.events {
			var et string
			switch e.Kind {
			case "header":
				ids := x.pool.ids[e.H-1][s.ns]
				zs := make([]string, len(ids))
				for k, v := range ids {
					zs[k] = zv.Z(v)
				}
				et = zv.App("Header", zv.Tuple(zv.Z(int64(e.H)), zv.List(zs)))
			case "fail":
				et = "GetAllFail"
			case "ok":
				et = "GetAllOk"
			case "send":
				et = "Send"
			case "tick":
				et = "Tick"
			case "consume":
				et = "Consume"
			case "cancel":
				et = "Cancel"
			case "stop":
				et = "StopService"
			case "feedclose":
				et = "FeedClose"
			}
			evs[j] = zv.Tuple(et, zv.Nat(e.QLen))
		}
		got := make([]string, len(s.got))
		for j, g := range s.got {
			zs := make([]string, len(g.IDs))
			for k, v := range g.IDs {
				zs[k] = zv.Z(v)
			}
			got[j] = zv.Tuple(zv.Z(g.Height), zv.List(zs))
		}
		subs[i] = zv.Tuple(zv.List(evs), zv.List(got), zv.Bool(s.closed))
	}
	return zv.List(subs)
}

func TestVerifC20(t *testing.T) {
	r := zv.Start(t, "C20")
	defer r.Finish()
	if v, err := strconv.Atoi(os.Getenv("VERIF_C20_WATCHDOG_S")); err == nil && v > 0 {
		c20Watchdog = time.Duration(v) * time.Second
	}
	g := r.Group("subscribe", c20Header, "case", "mismatches")
	if err := c20SelfTest(); err != nil {
		t.Fatalf("harness self-test: %v", err)
	}
	pool := c20BuildPool(t, zv.NewRand(r.Seed^0xc20), 40)

	record := func(seed uint64) (bad bool) {
		x := c20RunCase(r, t, pool, seed)
		if x.bad {
			r.Count("case", "abandoned")
			return true
		}
		key := ""
		for _, s := range x.subs {
			fails := 0
			for _, e := range s.events {
				if e.Kind == "fail" {
					fails++
				}
			}
			if len(s.got) > 0 && (fails > 0 || s.closed) {
				key = "responses-with-failures-or-closure"
			}
		}
		r.Count("case", fmt.Sprintf("subs=%d", len(x.subs)))
		g.Case(c20Term(x), x.snapshot(), key)
		return false
	}

	var rep c20Case
	if r.ReplayInput(&rep) {
		if rep.Kind == "" {
			record(rep.Seed)
		}
		return
	}
	rng := r.Rand()
	n := r.N(900, 40000)
	if v, err := strconv.Atoi(os.Getenv("VERIF_C20_N")); err == nil && v > 0 {
		n = v // debugging aid
	}
	bad := 0
	for i := 0; i < n; i++ {
		if record(rng.U64()) {
			bad++
		}
		if bad >= 3 {
			// every abandoned case may have cost a watchdog period; three replays are enough
			r.Count("case", "stopped-after-3-violations")
			break
		}
	}
}

//go:build verif

package blob

// C12 correspondence + oracle harness, package blob: commitment proofs and the blob inclusion check.
// (Uses the block builder / getter of zz_verif_c11_build_test.go; the spec sets overlay_tags=["c11"].)
//
// For every blob of generated blocks (real square builder, subtree-root threshold 64):
//   * Service.GetCommitmentProof -> Validate, Verify against the block's data root: honest proofs must verify (also after a
//     JSON round trip); every tampered proof / commitment / root must be refused WITHOUT panicking.
//   * Service.GetProof + Service.Included: true for the node's own proof; false/error, never a panic, for any tampered one.
// L3: honest rejected / tampered accepted / panic.  L2: [Proof.equal] and [Included] verdicts (CN.Blob.ProofEq) and the
// control flow of CommitmentProof.Validate/Verify with the primitives' answers observed from the real libraries
// (CN.Blob.Commitment).

import (
	"bytes"
	"context"
	"encoding/json"
	"errors"
	"fmt"
	"strconv"
	"strings"
	"testing"

	"github.com/celestiaorg/celestia-app/v9/pkg/appconsts"
	pkgproof "github.com/celestiaorg/celestia-app/v9/pkg/proof"
	"github.com/celestiaorg/go-square/merkle"
	"github.com/celestiaorg/go-square/v4/inclusion"
	libshare "github.com/celestiaorg/go-square/v4/share"
	"github.com/celestiaorg/nmt"

	"github.com/celestiaorg/celestia-node/share"
	zv "github.com/celestiaorg/celestia-node/zzverif"
)

const c12EqHeader = `From Coq Require Import List ZArith NArith.
From CN Require Import Blob.ProofEq.
Import ListNotations.
Open Scope Z_scope.
Notation np := mkNP (only parsing).
`

const c12ComHeader = `From Coq Require Import List ZArith NArith.
From CN Require Import Blob.ProofEq Blob.Commitment.
Import ListNotations.
Open Scope Z_scope.
`

type c12Replay struct {
	Spec   c11BlockSpec `json:"spec"`
	Blob   int          `json:"blob,omitempty"`
	Ns     []byte       `json:"namespace,omitempty"`
	Tamper string       `json:"tamper,omitempty"`
	Detail string       `json:"detail,omitempty"`
	JSON   string       `json:"json,omitempty"`
}

// ---------------------------------------------------------------- abstraction of blob.Proof for CN.Blob.ProofEq

type c12Ids struct{ m map[string]uint64 }

func (d *c12Ids) id(b []byte) string {
	if d.m == nil {
		d.m = map[string]uint64{}
	}
	v, ok := d.m[string(b)]
	if !ok {
		v = uint64(len(d.m) + 1)
		d.m[string(b)] = v
	}
	return strconv.FormatUint(v, 10)
}

func (d *c12Ids) nproof(p *nmt.Proof) string {
	if p == nil {
		return "None"
	}
	nodes := make([]string, len(p.Nodes()))
	for i, n := range p.Nodes() {
		nodes[i] = d.id(n)
	}
	return "(Some (np " + zv.Z(int64(p.Start())) + " " + zv.Z(int64(p.End())) + " [" + strings.Join(nodes, ";") + "]%N " + d.id(p.LeafHash()) + " " + zv.Bool(p.IsMaxNamespaceIDIgnored()) + "))"
}

func (d *c12Ids) bproof(p Proof) string {
	xs := make([]string, len(p))
	for i := range p {
		xs[i] = d.nproof(p[i])
	}
	return "[" + strings.Join(xs, "; ") + "]"
}

func c12Res(panicked string, err error) string {
	switch {
	case panicked != "":
		return "RPanic"
	case err != nil:
		return "RErr"
	}
	return "ROk"
}

// ---------------------------------------------------------------- tampering of blob.Proof

func c12CloneNP(p *nmt.Proof) *nmt.Proof {
	if p == nil {
		return nil
	}
	nodes := make([][]byte, len(p.Nodes()))
	for i, n := range p.Nodes() {
		nodes[i] = append([]byte{}, n...)
	}
	var np nmt.Proof
	if len(p.LeafHash()) > 0 {
		np = nmt.NewAbsenceProof(p.Start(), p.End(), nodes, append([]byte{}, p.LeafHash()...), p.IsMaxNamespaceIDIgnored())
	} else {
		np = nmt.NewInclusionProof(p.Start(), p.End(), nodes, p.IsMaxNamespaceIDIgnored())
	}
	return &np
}

func c12CloneProof(p Proof) Proof {
	out := make(Proof, len(p))
	for i := range p {
		out[i] = c12CloneNP(p[i])
	}
	return out
}

func c12WithNodes(p *nmt.Proof, nodes [][]byte) *nmt.Proof {
	np := nmt.NewInclusionProof(p.Start(), p.End(), nodes, p.IsMaxNamespaceIDIgnored())
	if len(p.LeafHash()) > 0 {
		np = nmt.NewAbsenceProof(p.Start(), p.End(), nodes, p.LeafHash(), p.IsMaxNamespaceIDIgnored())
	}
	return &np
}

var c12ProofTampers = []string{"append-node", "drop-node", "drop-all-nodes", "reorder-nodes", "substitute-node", "widen-end", "widen-start",
	"nil-component", "append-component", "drop-component", "reorder-components", "other-blob", "flip-ignore-flag", "leaf-hash", "empty", "mutate-node-byte"}

// c12TamperProof returns a tampered copy of p (nil when the tamper does not apply) that differs from p.
func c12TamperProof(name string, p, other Proof, rng *zv.Rand) Proof {
	if len(p) == 0 {
		return nil
	}
	q := c12CloneProof(p)
	i := rng.Intn(len(q))
	c := q[i]
	nodes := c.Nodes()
	switch name {
	case "append-node":
		extra := rng.Bytes(90)
		if len(nodes) > 0 && rng.Bool() {
			extra = append([]byte{}, nodes[rng.Intn(len(nodes))]...)
		}
		q[i] = c12WithNodes(c, append(nodes, extra))
	case "drop-node":
		if len(nodes) == 0 {
			return nil
		}
		j := rng.Intn(len(nodes))
		if rng.Bool() {
			j = len(nodes) - 1
		}
		q[i] = c12WithNodes(c, append(append([][]byte{}, nodes[:j]...), nodes[j+1:]...))
	case "drop-all-nodes":
		if len(nodes) == 0 {
			return nil
		}
		q[i] = c12WithNodes(c, nil)
	case "reorder-nodes":
		if len(nodes) < 2 {
			return nil
		}
		j := rng.Intn(len(nodes) - 1)
		if bytes.Equal(nodes[j], nodes[j+1]) {
			return nil
		}
		nodes[j], nodes[j+1] = nodes[j+1], nodes[j]
		q[i] = c12WithNodes(c, nodes)
	case "substitute-node":
		if len(nodes) == 0 {
			return nil
		}
		nodes[rng.Intn(len(nodes))] = rng.Bytes(90)
		q[i] = c12WithNodes(c, nodes)
	case "mutate-node-byte":
		if len(nodes) == 0 {
			return nil
		}
		n := nodes[rng.Intn(len(nodes))]
		n[rng.Intn(len(n))] ^= byte(1 << uint(rng.Intn(8)))
		q[i] = c12WithNodes(c, nodes)
	case "widen-end":
		np := nmt.NewInclusionProof(c.Start(), c.End()+1+rng.Intn(3), nodes, c.IsMaxNamespaceIDIgnored())
		q[i] = &np
	case "widen-start":
		np := nmt.NewInclusionProof(c.Start()-1-rng.Intn(2), c.End(), nodes, c.IsMaxNamespaceIDIgnored())
		q[i] = &np
	case "nil-component":
		q[i] = nil
	case "append-component":
		q = append(q, c12CloneNP(c))
	case "drop-component":
		q = append(q[:i], q[i+1:]...)
	case "reorder-components":
		if len(q) < 2 {
			return nil
		}
		j := (i + 1) % len(q)
		q[i], q[j] = q[j], q[i]
	case "other-blob":
		if len(other) == 0 {
			return nil
		}
		q = c12CloneProof(other)
	case "flip-ignore-flag":
		np := nmt.NewInclusionProof(c.Start(), c.End(), nodes, !c.IsMaxNamespaceIDIgnored())
		q[i] = &np
	case "leaf-hash":
		np := nmt.NewAbsenceProof(c.Start(), c.End(), nodes, rng.Bytes(90), c.IsMaxNamespaceIDIgnored())
		q[i] = &np
	case "empty":
		q = Proof{}
	}
	if c12ProofSame(p, q) {
		return nil
	}
	return q
}

func c12ProofSame(p, q Proof) bool {
	if len(p) != len(q) {
		return false
	}
	for i := range p {
		a, b := p[i], q[i]
		if (a == nil) != (b == nil) {
			return false
		}
		if a == nil {
			continue
		}
		if a.Start() != b.Start() || a.End() != b.End() || !bytes.Equal(a.LeafHash(), b.LeafHash()) || a.IsMaxNamespaceIDIgnored() != b.IsMaxNamespaceIDIgnored() ||
			len(a.Nodes()) != len(b.Nodes()) {
			return false
		}
		for j := range a.Nodes() {
			if !bytes.Equal(a.Nodes()[j], b.Nodes()[j]) {
				return false
			}
		}
	}
	return true
}

// ---------------------------------------------------------------- commitment proofs

func c12CloneCP(cp *CommitmentProof) *CommitmentProof {
	out := &CommitmentProof{NamespaceID: append([]byte{}, cp.NamespaceID...), NamespaceVersion: cp.NamespaceVersion}
	for _, r := range cp.SubtreeRoots {
		out.SubtreeRoots = append(out.SubtreeRoots, append([]byte{}, r...))
	}
	for _, p := range cp.SubtreeRootProofs {
		out.SubtreeRootProofs = append(out.SubtreeRootProofs, c12CloneNP(p))
	}
	out.RowProof.StartRow, out.RowProof.EndRow = cp.RowProof.StartRow, cp.RowProof.EndRow
	for _, r := range cp.RowProof.RowRoots {
		out.RowProof.RowRoots = append(out.RowProof.RowRoots, append([]byte{}, r...))
	}
	for _, p := range cp.RowProof.Proofs {
		if p == nil {
			out.RowProof.Proofs = append(out.RowProof.Proofs, nil)
			continue
		}
		np := &pkgproof.Proof{Total: p.Total, Index: p.Index, LeafHash: append([]byte{}, p.LeafHash...)}
		for _, a := range p.Aunts {
			np.Aunts = append(np.Aunts, append([]byte{}, a...))
		}
		out.RowProof.Proofs = append(out.RowProof.Proofs, np)
	}
	return out
}

// c12CoreSame: equality of everything Verify authenticates (subtree roots, subtree proofs' ranges and nodes, row roots,
// row proofs).  NamespaceID/Version, StartRow/EndRow (beyond their count), nmt leaf hash and flag are unauthenticated metadata.
func c12CoreSame(a, b *CommitmentProof) bool {
	eqBB := func(x, y [][]byte) bool {
		if len(x) != len(y) {
			return false
		}
		for i := range x {
			if !bytes.Equal(x[i], y[i]) {
				return false
			}
		}
		return true
	}
	if !eqBB(a.SubtreeRoots, b.SubtreeRoots) || !eqBB(a.RowProof.RowRoots, b.RowProof.RowRoots) ||
		len(a.SubtreeRootProofs) != len(b.SubtreeRootProofs) || len(a.RowProof.Proofs) != len(b.RowProof.Proofs) {
		return false
	}
	for i := range a.SubtreeRootProofs {
		x, y := a.SubtreeRootProofs[i], b.SubtreeRootProofs[i]
		if (x == nil) != (y == nil) {
			return false
		}
		if x != nil && (x.Start() != y.Start() || x.End() != y.End() || !eqBB(x.Nodes(), y.Nodes())) {
			return false
		}
	}
	for i := range a.RowProof.Proofs {
		x, y := a.RowProof.Proofs[i], b.RowProof.Proofs[i]
		if (x == nil) != (y == nil) {
			return false
		}
		if x != nil && (x.Total != y.Total || x.Index != y.Index || !bytes.Equal(x.LeafHash, y.LeafHash) || !eqBB(x.Aunts, y.Aunts)) {
			return false
		}
	}
	return true
}

var c12CPTampers = []string{"other-commitment", "other-root", "empty-root", "empty-commitment",
	"append-subtree-root", "drop-subtree-root", "reorder-subtree-roots", "substitute-subtree-root", "no-subtree-roots",
	"append-subtree-proof", "drop-subtree-proof", "reorder-subtree-proofs", "nil-subtree-proof", "widen-subtree-proof", "shift-subtree-proof",
	"drop-subtree-node", "append-subtree-node", "substitute-subtree-node",
	"append-row-root", "drop-row-root", "reorder-row-roots", "substitute-row-root",
	"append-row-proof", "drop-row-proof", "nil-row-proof", "row-proof-index", "row-proof-total", "row-proof-aunt", "row-proof-leaf",
	"end-row", "start-row", "shift-rows", "other-proof-roots", "other-proof-rows", "namespace", "json-byte"}

type c12Tampered struct {
	cp        *CommitmentProof
	root, com []byte
	meta      bool   // only unauthenticated metadata changed: acceptance is not a violation
	js        string // JSON text when the tamper is a byte mutation
	detail    string // what was done (row-range families)
}

// c12TamperCP applies one tamper family. donor: an honest proof of a blob with a DIFFERENT commitment of the same block.
func c12TamperCP(name string, cp, donor *CommitmentProof, root, com, otherRoot, otherCom []byte, rng *zv.Rand) *c12Tampered {
	t := &c12Tampered{cp: c12CloneCP(cp), root: root, com: com}
	q := t.cp
	swapBB := func(x [][]byte) bool {
		if len(x) < 2 {
			return false
		}
		i := rng.Intn(len(x) - 1)
		if bytes.Equal(x[i], x[i+1]) {
			return false
		}
		x[i], x[i+1] = x[i+1], x[i]
		return true
	}
	pickSP := func() int { return rng.Intn(len(q.SubtreeRootProofs)) }
	switch name {
	case "other-commitment":
		if otherCom == nil {
			return nil
		}
		t.com = otherCom
	case "other-root":
		if otherRoot == nil {
			return nil
		}
		t.root = otherRoot
	case "empty-root":
		t.root = nil
	case "empty-commitment":
		t.com = nil
	case "append-subtree-root":
		q.SubtreeRoots = append(q.SubtreeRoots, append([]byte{}, q.SubtreeRoots[rng.Intn(len(q.SubtreeRoots))]...))
	case "drop-subtree-root":
		i := rng.Intn(len(q.SubtreeRoots))
		q.SubtreeRoots = append(q.SubtreeRoots[:i], q.SubtreeRoots[i+1:]...)
	case "reorder-subtree-roots":
		if !swapBB(q.SubtreeRoots) {
			return nil
		}
	case "substitute-subtree-root":
		q.SubtreeRoots[rng.Intn(len(q.SubtreeRoots))] = rng.Bytes(90)
	case "no-subtree-roots":
		q.SubtreeRoots = nil
	case "append-subtree-proof":
		q.SubtreeRootProofs = append(q.SubtreeRootProofs, c12CloneNP(q.SubtreeRootProofs[pickSP()]))
	case "drop-subtree-proof":
		i := pickSP()
		q.SubtreeRootProofs = append(q.SubtreeRootProofs[:i], q.SubtreeRootProofs[i+1:]...)
	case "reorder-subtree-proofs":
		if len(q.SubtreeRootProofs) < 2 {
			return nil
		}
		q.SubtreeRootProofs[0], q.SubtreeRootProofs[1] = q.SubtreeRootProofs[1], q.SubtreeRootProofs[0]
	case "nil-subtree-proof":
		q.SubtreeRootProofs[pickSP()] = nil
	case "widen-subtree-proof":
		i := pickSP()
		p := q.SubtreeRootProofs[i]
		np := nmt.NewInclusionProof(p.Start(), p.End()+1+rng.Intn(2), p.Nodes(), true)
		q.SubtreeRootProofs[i] = &np
	case "shift-subtree-proof":
		i := pickSP()
		p := q.SubtreeRootProofs[i]
		d := 1 + rng.Intn(3)
		if rng.Bool() && p.Start() >= d {
			d = -d
		}
		np := nmt.NewInclusionProof(p.Start()+d, p.End()+d, p.Nodes(), true)
		q.SubtreeRootProofs[i] = &np
		// The position of a subtree-root proof is not authenticated beyond what the node list forces: nmt does not
		// know the tree size and, when the node list runs out, accepts the same roots under a shifted range that
		// yields the same tree shape (DESIGN section 2, compute_root_sound needs the bound on the claimed range).
		// The statement proven - these subtree roots are in this row, the rows in this data root, the roots hash to
		// this commitment - is unchanged, so an accepted shift is not a violation; whether it is accepted is still
		// compared with the model case by case (L2).
		t.meta = true
	case "drop-subtree-node", "append-subtree-node", "substitute-subtree-node":
		i := pickSP()
		p := q.SubtreeRootProofs[i]
		nodes := p.Nodes()
		switch name {
		case "drop-subtree-node":
			if len(nodes) == 0 {
				return nil
			}
			j := rng.Intn(len(nodes))
			nodes = append(append([][]byte{}, nodes[:j]...), nodes[j+1:]...)
		case "append-subtree-node":
			nodes = append(nodes, rng.Bytes(90))
		default:
			if len(nodes) == 0 {
				return nil
			}
			nodes[rng.Intn(len(nodes))] = rng.Bytes(90)
		}
		np := nmt.NewInclusionProof(p.Start(), p.End(), nodes, true)
		q.SubtreeRootProofs[i] = &np
	case "append-row-root":
		q.RowProof.RowRoots = append(q.RowProof.RowRoots, append([]byte{}, q.RowProof.RowRoots[0]...))
	case "drop-row-root":
		q.RowProof.RowRoots = q.RowProof.RowRoots[:len(q.RowProof.RowRoots)-1]
	case "reorder-row-roots":
		if !swapBB(q.RowProof.RowRoots) {
			return nil
		}
	case "substitute-row-root":
		q.RowProof.RowRoots[rng.Intn(len(q.RowProof.RowRoots))] = rng.Bytes(90)
	case "append-row-proof":
		q.RowProof.Proofs = append(q.RowProof.Proofs, q.RowProof.Proofs[0])
	case "drop-row-proof":
		q.RowProof.Proofs = q.RowProof.Proofs[:len(q.RowProof.Proofs)-1]
	case "nil-row-proof":
		q.RowProof.Proofs[rng.Intn(len(q.RowProof.Proofs))] = nil
	case "row-proof-index":
		p := q.RowProof.Proofs[rng.Intn(len(q.RowProof.Proofs))]
		p.Index += int64(1 + rng.Intn(3))
		if rng.Chance(20) {
			p.Index = -1
		}
	case "row-proof-total":
		p := q.RowProof.Proofs[rng.Intn(len(q.RowProof.Proofs))]
		p.Total += int64(1 + rng.Intn(3))
		if rng.Chance(20) {
			p.Total = -p.Total
		}
	case "row-proof-aunt":
		p := q.RowProof.Proofs[rng.Intn(len(q.RowProof.Proofs))]
		switch rng.Intn(3) {
		case 0:
			p.Aunts = append(p.Aunts, rng.Bytes(32))
		case 1:
			if len(p.Aunts) == 0 {
				return nil
			}
			p.Aunts = p.Aunts[:len(p.Aunts)-1]
		default:
			if len(p.Aunts) == 0 {
				return nil
			}
			p.Aunts[rng.Intn(len(p.Aunts))] = rng.Bytes(32)
		}
	case "row-proof-leaf":
		q.RowProof.Proofs[rng.Intn(len(q.RowProof.Proofs))].LeafHash = rng.Bytes(32)
	case "end-row":
		q.RowProof.EndRow += uint32(1 + rng.Intn(2))
	case "start-row":
		q.RowProof.StartRow++
	case "shift-rows":
		q.RowProof.StartRow++
		q.RowProof.EndRow++
		t.meta = true
	case "namespace":
		q.NamespaceID = rng.Bytes(len(q.NamespaceID))
		q.NamespaceVersion++
		t.meta = true
	case "other-proof-roots":
		if donor == nil {
			return nil
		}
		q.SubtreeRoots = c12CloneCP(donor).SubtreeRoots
	case "other-proof-rows":
		if donor == nil {
			return nil
		}
		d := c12CloneCP(donor)
		q.SubtreeRootProofs, q.RowProof = d.SubtreeRootProofs, d.RowProof
	case "json-byte":
		js, err := json.Marshal(cp)
		if err != nil {
			return nil
		}
		pos := rng.Intn(len(js))
		switch rng.Intn(3) {
		case 0:
			js[pos] ^= byte(1 << uint(rng.Intn(7)))
		case 1:
			js[pos] = "0123456789abcdefnul[]{}\",:AQg=/+"[rng.Intn(32)]
		default:
			js = append(js[:pos], js[pos+1:]...)
		}
		t.js = string(js)
		var dec CommitmentProof
		if p := zv.Recover(func() {
			if err := json.Unmarshal(js, &dec); err != nil {
				t.cp = nil
			}
		}); p != "" {
			t.cp = nil
			t.js = "PANIC:" + p + ":" + t.js
			return t
		}
		if t.cp != nil {
			t.cp = &dec
		}
		return t
	}
	return t
}

// ---------------------------------------------------------------- row-range arithmetic (uint32 boundaries)

// Validate computes the row count as int(EndRow-StartRow+1) in uint32: an inverted range StartRow = EndRow+1 and the full
// range [0, MaxUint32] both wrap to ZERO rows, and an inverted range can wrap to any count.  Only celestia-app's
// RowProof.Validate (called by Verify) refuses EndRow < StartRow and an empty list of row roots.
var c12RowTampers = []string{"trim-all-inverted", "trim-all-wrapped", "trim-all-zero", "trim-all-keep-rows", "rows-inverted-same-count",
	"rows-inverted-zero", "rows-swapped", "end-row-max", "start-row-max", "rows-full-range", "zero-rows-keep-roots"}

const c12InvertedVariants = 4

const c12MaxU32 = ^uint32(0)

// c12TamperRows: families around the row range.  "trim-all-*": every component dropped (the commitment presented is the hash
// of the empty list of subtree roots, which anybody can compute) with the row range spelled so that the uint32 count is 0
// (or not); the others keep the honest components and move the range to the uint32 boundaries.
func c12TamperRows(name string, variant int, viaJSON bool, cp *CommitmentProof, root, com, otherRoot []byte, rng *zv.Rand) *c12Tampered {
	t := &c12Tampered{cp: c12CloneCP(cp), root: root, com: com}
	q := t.cp
	n := uint32(len(q.RowProof.RowRoots))
	s0, e0 := q.RowProof.StartRow, q.RowProof.EndRow
	trim := func() {
		q.SubtreeRoots, q.SubtreeRootProofs = nil, nil
		q.RowProof.RowRoots, q.RowProof.Proofs = nil, nil
		t.com = merkle.HashFromByteSlices(nil)
		switch rng.Intn(3) {
		case 0:
			if otherRoot != nil {
				t.root = otherRoot
			}
		case 1:
			t.root = rng.Bytes(32)
		}
		if rng.Bool() {
			q.NamespaceID, q.NamespaceVersion = nil, 0
		}
	}
	switch name {
	case "trim-all-inverted":
		trim()
		switch variant {
		case 0:
			q.RowProof.StartRow, q.RowProof.EndRow = 1, 0
		case 1:
			q.RowProof.StartRow, q.RowProof.EndRow = c12MaxU32, c12MaxU32-1
		case 2:
			q.RowProof.StartRow, q.RowProof.EndRow = e0+1, e0
		default:
			e := uint32(rng.U64()) &^ 1
			q.RowProof.StartRow, q.RowProof.EndRow = e+1, e
		}
	case "trim-all-wrapped":
		trim()
		q.RowProof.StartRow, q.RowProof.EndRow = 0, c12MaxU32
	case "trim-all-zero":
		trim()
		q.RowProof.StartRow, q.RowProof.EndRow = 0, 0
	case "trim-all-keep-rows":
		trim()
	case "rows-inverted-same-count":
		// EndRow < StartRow and EndRow - StartRow + 1 == n (mod 2^32)
		if n < 2 {
			return nil
		}
		e := uint32(rng.Intn(int(n) - 1))
		q.RowProof.StartRow, q.RowProof.EndRow = e-n+1, e
	case "rows-inverted-zero":
		q.RowProof.StartRow, q.RowProof.EndRow = e0+1, e0
	case "rows-swapped":
		if s0 == e0 {
			return nil
		}
		q.RowProof.StartRow, q.RowProof.EndRow = e0, s0
	case "end-row-max":
		q.RowProof.EndRow = c12MaxU32
	case "start-row-max":
		q.RowProof.StartRow = c12MaxU32
	case "rows-full-range":
		q.RowProof.StartRow, q.RowProof.EndRow = 0, c12MaxU32
	case "zero-rows-keep-roots":
		// the uint32 count is 0, the subtree roots (and with them the commitment) stay: rows and proofs dropped
		q.SubtreeRootProofs, q.RowProof.RowRoots, q.RowProof.Proofs = nil, nil, nil
		if rng.Bool() {
			q.RowProof.StartRow, q.RowProof.EndRow = e0+1, e0
		} else {
			q.RowProof.StartRow, q.RowProof.EndRow = 0, c12MaxU32
		}
	default:
		return nil
	}
	t.detail = fmt.Sprintf("rows [%d,%d] -> [%d,%d], %d subtree roots, %d row roots, json=%v", s0, e0, q.RowProof.StartRow, q.RowProof.EndRow,
		len(q.SubtreeRoots), len(q.RowProof.RowRoots), viaJSON)
	if viaJSON {
		js, err := json.Marshal(q)
		if err != nil {
			return nil
		}
		t.js = string(js)
		var dec CommitmentProof
		if p := zv.Recover(func() { err = json.Unmarshal(js, &dec) }); p != "" {
			t.cp, t.js = nil, "PANIC:"+p+":"+t.js
			return t
		}
		if err != nil {
			t.cp = nil
			return t
		}
		t.cp = &dec
	}
	return t
}

// ---------------------------------------------------------------- the model's view of a commitment proof (CN.Blob.Commitment)

// c12CPTerm renders the structural content of a proof and the answers of the primitives (go-square merkle root,
// SubTreeWidth, nmt ToLeafRanges / VerifySubtreeRootInclusion, cometbft merkle proof verification) as the real libraries give them.
func c12CPTerm(cp *CommitmentProof, root, com []byte) string {
	// hash of the subtree roots vs the commitment
	hfbEq := bytes.Equal(merkle.HashFromByteSlices(cp.SubtreeRoots), com)
	shares := 0
	anyNil := false
	for _, p := range cp.SubtreeRootProofs {
		if p == nil {
			anyNil = true
			continue
		}
		shares += p.End() - p.Start()
	}
	width, werr := 0, error(nil)
	if !anyNil {
		width, werr = inclusion.SubTreeWidth(shares, subtreeRootThreshold)
	}
	wterm := "None"
	if werr == nil && !anyNil {
		wterm = "(Some " + zv.Z(int64(width)) + ")"
	}
	hasher := nmt.NewNmtHasher(appconsts.NewBaseHashFunc(), libshare.NamespaceSize, true)
	cursor := 0
	sps := make([]string, len(cp.SubtreeRootProofs))
	for i, p := range cp.SubtreeRootProofs {
		if p == nil {
			sps[i] = "None"
			continue
		}
		nr, vs := "None", "None"
		if werr == nil && !anyNil {
			if rs, err := nmt.ToLeafRanges(p.Start(), p.End(), width); err == nil {
				nr = "(Some " + zv.Nat(len(rs)) + ")"
				if cursor >= 0 && cursor+len(rs) <= len(cp.SubtreeRoots) && i < len(cp.RowProof.RowRoots) {
					var ok bool
					var err error
					if pp := zv.Recover(func() {
						ok, err = p.VerifySubtreeRootInclusion(hasher, cp.SubtreeRoots[cursor:cursor+len(rs)], width, cp.RowProof.RowRoots[i])
					}); pp == "" && err == nil {
						vs = "(Some " + zv.Bool(ok) + ")"
					}
				}
				cursor += len(rs)
			} else {
				cursor = -1 << 30
			}
		}
		sps[i] = "(Some (mkSRP " + zv.Z(int64(p.Start())) + " " + zv.Z(int64(p.End())) + " " + nr + " " + vs + "))"
	}
	rps := make([]string, len(cp.RowProof.Proofs))
	for i, p := range cp.RowProof.Proofs {
		if p == nil {
			rps[i] = "None"
			continue
		}
		ok := false
		if i < len(cp.RowProof.RowRoots) && len(root) > 0 {
			ok = p.Verify(root, cp.RowProof.RowRoots[i]) == nil
		}
		rps[i] = "(Some " + zv.Bool(ok) + ")"
	}
	return "(mkCP " + zv.Nat(len(cp.SubtreeRoots)) + " [" + strings.Join(sps, "; ") + "] " + zv.Nat(len(cp.RowProof.RowRoots)) + " [" + strings.Join(rps, "; ") + "] " +
		zv.Z(int64(cp.RowProof.StartRow)) + " " + zv.Z(int64(cp.RowProof.EndRow)) + " " + zv.Bool(hfbEq) + " " + wterm + " " + zv.Bool(len(root) == 0) + " " + zv.Bool(len(com) == 0) + ")"
}

// ---------------------------------------------------------------- the test

func TestVerifC12(t *testing.T) {
	r := zv.Start(t, "C12")
	defer r.Finish()
	ctx, cancel := context.WithCancel(context.Background())
	defer cancel()
	gEq := r.Group("proofeq", c12EqHeader, "pcase", "mismatches")
	gCom := r.Group("commitment", c12ComHeader, "ccase", "mismatches")
	gRows := r.Group("proofrows", c12RowsHeader(), "rcase", "rows_mismatches")
	defer func() { gRows.Header = c12RowsHeader() + c11NsDefs() }() // runs before r.Finish
	rng := r.Rand()

	var rp c12Replay
	specs := []c11BlockSpec{}
	if r.ReplayInput(&rp) {
		specs = append(specs, rp.Spec)
	} else {
		for i := 0; i < r.N(9, 120); i++ {
			rr := rng.Fork(uint64(i))
			spec := c11GenBuilt(rr)
			spec.Threshold = 64
			spec.MaxK = zv.Pick(rr, []int{4, 8, 16, 16, 32})
			if i%4 == 0 {
				// large blobs: subtree width > 1, several rows
				spec.MaxK = 32
				spec.Txs = append(spec.Txs, c11TxSpec{Seed: rr.U64(), Blobs: []c11BlobSpec{{Ns: 0, Size: 478 + 482*(64+rr.Intn(200)), Seed: rr.U64()}}})
			}
			specs = append(specs, spec)
		}
		// chained layouts: blobs of one namespace, each starting in the row in which a multi-row predecessor ended
		// (drawn from a stream of their own and placed last: the blocks above and their tampers do not depend on them)
		crng := zv.NewRand(r.Seed ^ 0xc12e)
		for i := 0; i < r.N(8, 60); i++ {
			specs = append(specs, c12GenChainedLayout(crng.Fork(uint64(2000+i)), i))
		}
		for i := 0; i < r.N(2, 12); i++ {
			if spec, ok := c12GenChainedBuilt(crng.Fork(uint64(1000+i)), 1+i%2); ok {
				specs = append(specs, spec)
			}
		}
	}

	var prevRoot []byte
	for _, spec := range specs {
		blk, err := c11Build(spec)
		if err != nil {
			continue
		}
		root := blk.hdr.DAH.Hash()
		g := &c11Getter{eds: blk.eds}
		svc := blk.service(g)
		r.Count("block_k", strconv.Itoa(blk.k))
		r.Count("block_kind", spec.Kind)

		// every blob of the block: the proof handed out covers exactly the rows of the blob, Included accepts exactly it
		c12ProofRows(ctx, r, gRows, spec, blk, svc, g)
		if spec.Kind != "built" {
			continue // hand-placed shares: blobs are not aligned for commitment proofs
		}

		// all blobs of the block in square order
		type bref struct {
			ns  libshare.Namespace
			ref c11Ref
		}
		var blobs []bref
		for _, ns := range blk.nss {
			for _, ref := range blk.ref[string(ns.Bytes())] {
				blobs = append(blobs, bref{ns, ref})
			}
		}
		if max := r.N(3, 6); len(blobs) > max {
			i := rng.Intn(len(blobs) - max + 1)
			blobs = blobs[i : i+max]
		}
		// honest proofs first (donors for substitution tampers)
		cps := make([]*CommitmentProof, len(blobs))
		prs := make([]*Proof, len(blobs))
		for i, b := range blobs {
			rep := c12Replay{Spec: spec, Blob: i, Ns: b.ns.Bytes()}
			if p := zv.Recover(func() { cps[i], err = svc.GetCommitmentProof(ctx, 1, b.ns, b.ref.com) }); p != "" || err != nil {
				rep.Detail = fmt.Sprint(p, err)
				r.Violation("commitment-proof-not-produced", "GetCommitmentProof failed for a blob of the block: "+rep.Detail, rep)
				cps[i] = nil
			}
			if p := zv.Recover(func() { prs[i], err = svc.GetProof(ctx, 1, b.ns, b.ref.com) }); p != "" || err != nil {
				rep.Detail = fmt.Sprint(p, err)
				r.Violation("proof-not-produced", "GetProof failed for a blob of the block: "+rep.Detail, rep)
				prs[i] = nil
			}
		}

		for i, b := range blobs {
			rep := func(tamper, detail string) c12Replay {
				return c12Replay{Spec: spec, Blob: i, Ns: b.ns.Bytes(), Tamper: tamper, Detail: detail}
			}
			// a blob with another commitment
			other := -1
			for j := range blobs {
				if !bytes.Equal(blobs[j].ref.com, b.ref.com) {
					other = j
					break
				}
			}

			// ------------------------------------------------ commitment proof
			if cp := cps[i]; cp != nil {
				verify := func(q *CommitmentProof, root, com []byte) (verdict string, err error) {
					if p := zv.Recover(func() { err = q.Verify(root, com) }); p != "" {
						return "panic", errors.New(p)
					}
					if err != nil {
						return "reject", err
					}
					return "accept", nil
				}
				emit := func(q *CommitmentProof, root, com []byte, verdict, key string) {
					obs := map[string]string{"accept": "ROk", "reject": "RErr", "panic": "RPanic"}[verdict]
					gCom.Case("(CVerify "+c12CPTerm(q, root, com)+" "+obs+")", map[string]any{"spec": spec, "blob": i, "tamper": key, "verdict": verdict}, key)
				}
				v, err := verify(cp, root, b.ref.com)
				r.Count("commitment_honest", v)
				if v != "accept" {
					r.Violation("commitment-honest-"+v, fmt.Sprintf("the node's own commitment proof does not verify: %v", err), rep("", fmt.Sprint(err)))
				}
				emit(cp, root, b.ref.com, v, "honest")
				// shape of an honest proof: every subtree root consumed, one proof per row
				// (ProveCommitment locates the blob by its shares: for byte-identical blobs that is the first of them)
				first := b.ref
				for _, o := range blk.ref[string(b.ns.Bytes())] {
					if bytes.Equal(o.com, b.ref.com) {
						first = o
						break
					}
				}
				if len(cp.SubtreeRootProofs) != len(cp.RowProof.RowRoots) || int(cp.RowProof.EndRow-cp.RowProof.StartRow)+1 != len(cp.RowProof.RowRoots) ||
					int(cp.RowProof.StartRow) != first.start/blk.k || int(cp.RowProof.EndRow) != (first.start+first.n-1)/blk.k {
					r.Violation("commitment-proof-rows", "the commitment proof does not cover exactly the rows of the blob", rep("", ""))
				}
				// JSON round trip
				if js, err := json.Marshal(cp); err != nil {
					r.Violation("commitment-json", "commitment proof does not marshal: "+err.Error(), rep("", ""))
				} else {
					var back CommitmentProof
					if err := json.Unmarshal(js, &back); err != nil {
						r.Violation("commitment-json", "commitment proof does not survive JSON: "+err.Error(), rep("", ""))
					} else if v, err := verify(&back, root, b.ref.com); v != "accept" {
						r.Violation("commitment-json-"+v, fmt.Sprintf("commitment proof no longer verifies after a JSON round trip: %v", err), rep("", ""))
					}
				}
				var donor *CommitmentProof
				var otherCom []byte
				if other >= 0 {
					donor, otherCom = cps[other], blobs[other].ref.com
				}
				runTamper := func(name string, tp *c12Tampered) {
					rp := rep(name, tp.detail)
					rp.JSON = tp.js
					if strings.HasPrefix(tp.js, "PANIC:") {
						r.Violation("commitment-json-panic", "decoding a mutated commitment proof panicked", rp)
						return
					}
					if tp.cp == nil {
						r.Count("commitment_tamper", name+":undecodable")
						return
					}
					v, err := verify(tp.cp, tp.root, tp.com)
					r.Count("commitment_tamper", name+":"+v)
					emit(tp.cp, tp.root, tp.com, v, name)
					switch v {
					case "panic":
						rp.Detail = err.Error()
						r.Violation("commitment-verify-panic:"+c12PanicClass(name, tp.cp), "CommitmentProof.Verify panicked on a malformed proof: "+err.Error(), rp)
					case "accept":
						same := c12CoreSame(tp.cp, cp) && bytes.Equal(tp.root, root) && bytes.Equal(tp.com, b.ref.com)
						switch {
						case len(tp.cp.SubtreeRoots) == 0 || len(tp.cp.RowProof.RowRoots) == 0:
							// nothing is tied to the root: the same proof "verifies" a constant commitment against every data root
							r.Violation("commitment-empty-proof-accepted:"+name, fmt.Sprintf("a commitment proof with %d subtree roots and %d row roots (rows [%d,%d]) verifies for commitment %x against root %x: it proves nothing",
								len(tp.cp.SubtreeRoots), len(tp.cp.RowProof.RowRoots), tp.cp.RowProof.StartRow, tp.cp.RowProof.EndRow, tp.com, tp.root), rp)
						case tp.cp.RowProof.EndRow < tp.cp.RowProof.StartRow:
							r.Violation("commitment-inverted-rows-accepted:"+name, fmt.Sprintf("a commitment proof claiming the inverted row range [%d,%d] (%d row roots) verifies",
								tp.cp.RowProof.StartRow, tp.cp.RowProof.EndRow, len(tp.cp.RowProof.RowRoots)), rp)
						case !same && !tp.meta:
							r.Violation("commitment-tampered-accepted:"+name, "a tampered commitment proof verifies", rp)
						}
					}
				}
				for _, name := range c12CPTampers {
					reps := 1
					if name == "json-byte" {
						reps = r.N(5, 25)
					}
					for k := 0; k < reps; k++ {
						tp := c12TamperCP(name, cp, donor, root, b.ref.com, prevRoot, otherCom, rng)
						if tp == nil {
							continue
						}
						runTamper(name, tp)
					}
				}
				// row-range arithmetic at the uint32 boundaries, as a struct and through the JSON form
				for _, name := range c12RowTampers {
					variants := 1
					if name == "trim-all-inverted" {
						variants = c12InvertedVariants
					}
					for variant := 0; variant < variants; variant++ {
						for _, viaJSON := range []bool{false, true} {
							if tp := c12TamperRows(name, variant, viaJSON, cp, root, b.ref.com, prevRoot, rng); tp != nil {
								runTamper(name, tp)
							}
						}
					}
				}
			}

			// ------------------------------------------------ Proof.equal / Included
			if pr := prs[i]; pr != nil {
				ids := &c12Ids{}
				included := func(q *Proof, com []byte) (string, error) {
					var ok bool
					var err error
					if p := zv.Recover(func() { ok, err = svc.Included(ctx, 1, b.ns, q, com) }); p != "" {
						return "IncPanic", errors.New(p)
					}
					switch {
					case err != nil:
						return "IncErr", err
					case ok:
						return "IncYes", nil
					}
					return "IncNo", nil
				}
				// the node's own proof
				v, err := included(pr, b.ref.com)
				r.Count("included_honest", v)
				if v != "IncYes" {
					r.Violation("included-honest-"+v, fmt.Sprintf("Included refuses the node's own proof: %v", err), rep("", fmt.Sprint(err)))
				}
				gEq.Case("(PIncluded (Some "+ids.bproof(*pr)+") (Some "+ids.bproof(*pr)+") "+v+")", map[string]any{"spec": spec, "blob": i, "op": "included-honest"}, "honest")
				// JSON round trip of the proof
				if js, err := json.Marshal(pr); err == nil {
					var back Proof
					if err := json.Unmarshal(js, &back); err != nil {
						r.Violation("proof-json", "blob proof does not survive JSON: "+err.Error(), rep("", ""))
					} else if v, _ := included(&back, b.ref.com); v != "IncYes" {
						r.Violation("proof-json-"+v, "blob proof is refused after a JSON round trip", rep("", ""))
					}
				}
				// nil proof, absent commitment
				v, _ = included(nil, b.ref.com)
				gEq.Case("(PIncluded (Some "+ids.bproof(*pr)+") None "+v+")", map[string]any{"spec": spec, "blob": i, "op": "included-nil"}, "nil")
				if v == "IncYes" || v == "IncPanic" {
					r.Violation("included-nil-"+v, "Included with a nil proof", rep("nil", ""))
				}
				absent := c11Commit(func() *libshare.Blob { b, _ := libshare.NewBlob(b.ns, rng.Bytes(300), 0, nil); return b }())
				v, err = included(pr, absent)
				gEq.Case("(PIncluded None (Some "+ids.bproof(*pr)+") "+v+")", map[string]any{"spec": spec, "blob": i, "op": "included-absent"}, "absent")
				if v != "IncNo" {
					r.Violation("included-absent-"+v, fmt.Sprintf("Included for a commitment that is not in the block answers %s (%v)", v, err), rep("absent", ""))
				}
				var otherProof Proof
				if other >= 0 && prs[other] != nil {
					otherProof = *prs[other]
				}
				for _, name := range c12ProofTampers {
					q := c12TamperProof(name, *pr, otherProof, rng)
					if q == nil {
						continue
					}
					// Proof.equal directly
					var eerr error
					p := zv.Recover(func() { eerr = pr.equal(q) })
					res := c12Res(p, eerr)
					gEq.Case("(PEqual "+ids.bproof(*pr)+" "+ids.bproof(q)+" "+res+")", map[string]any{"spec": spec, "blob": i, "tamper": name, "res": res}, name)
					// end to end
					v, err := included(&q, b.ref.com)
					r.Count("included_tamper", name+":"+v)
					gEq.Case("(PIncluded (Some "+ids.bproof(*pr)+") (Some "+ids.bproof(q)+") "+v+")", map[string]any{"spec": spec, "blob": i, "tamper": name, "res": v}, name)
					switch v {
					case "IncPanic":
						r.Violation("included-panic:"+c12EqPanicClass(name), "Included panicked on a malformed proof: "+err.Error(), rep(name, err.Error()))
					case "IncYes":
						r.Violation("included-tampered-accepted:"+name, "Included accepts a proof that is not the one the node derives", rep(name, ""))
					}
				}
			}
		}
		prevRoot = root
	}
}

// ---------------------------------------------------------------- proof rows (every blob of every block)

// c12Rows: rows [first,last] of the ODS a blob occupies, from the builder's record (start index, share count) and the square width.
func c12Rows(ref c11Ref, k int) (int, int) { return ref.start / k, (ref.start + ref.n - 1) / k }

// c12Chained: number of blobs that start in the row in which the previous blob of the same namespace, spanning >= 2 rows, ended.
func c12Chained(blk *c11Block) (n, longest int) {
	for _, ns := range blk.nss {
		run := 0
		refs := blk.ref[string(ns.Bytes())]
		for i := 1; i < len(refs); i++ {
			p0, p1 := c12Rows(refs[i-1], blk.k)
			b0, _ := c12Rows(refs[i], blk.k)
			if p1 > p0 && b0 == p1 {
				n++
				run++
				if run > longest {
					longest = run
				}
			} else {
				run = 0
			}
		}
	}
	return n, longest
}

// c12GenChainedLayout: hand-placed namespace: [filler of ns0 (Off shares)] then 2..4 blobs of ns1 back to back; every blob but the
// last spans >= 2 rows and ends inside a row, so the next one starts in its predecessor's last row. Variant 0 is the smallest
// instance (4x4 ODS, blob A = shares 0..5, blob B = shares 6..7).
func c12GenChainedLayout(rng *zv.Rand, variant int) c11BlockSpec {
	k := zv.Pick(rng, []int{4, 4, 8, 8, 16})
	spec := c11BlockSpec{Kind: "layout", MaxK: k, Threshold: 64, NsIDs: c11NsIDs(rng, 2)}
	blob := func(n int) {
		b := c11BlobSpec{Ns: 1, Seed: rng.U64()}
		if variant > 0 && rng.Chance(25) {
			b.Ver, b.Signer = 1, uint64(rng.Intn(3))
		}
		b.Size = c11SizeFor(rng, n, b.Ver)
		spec.Items = append(spec.Items, c11Item{Ns: 1, Blob: &b})
	}
	if variant == 0 {
		spec.MaxK = 4
		blob(6)
		blob(2)
		return spec
	}
	spec.Off = rng.Intn(2 * k)
	cur := spec.Off
	links := 1 + variant%3 // blobs with a chained successor
	for i := 0; i < links; i++ {
		end := (cur/k+1+rng.Intn(2))*k + 1 + rng.Intn(k-1) // first share after the blob: a later row, not at a row start
		blob(end - cur)
		cur = end
	}
	// the last blob: inside the row, up to the row's end, or running on into later rows
	left := k - cur%k
	switch rng.Intn(4) {
	case 0:
		blob(1)
	case 1:
		blob(left)
	case 2:
		blob(1 + rng.Intn(left))
	default:
		blob(left + 1 + rng.Intn(2*k))
	}
	if rng.Chance(40) { // something behind the chain in the same namespace
		if rng.Chance(50) {
			spec.Items = append(spec.Items, c11Item{Ns: 1, Pad: 1 + rng.Intn(k), PadV: 0})
		}
		blob(1 + rng.Intn(2*k))
	}
	return spec
}

// c12GenChainedBuilt: the same through the real square builder (blobs below the subtree root threshold are placed back to back):
// one transaction with links+1 blobs of one namespace; sizes are drawn until the built square has the chain.
func c12GenChainedBuilt(rng *zv.Rand, links int) (c11BlockSpec, bool) {
	for try := 0; try < 40; try++ {
		k := zv.Pick(rng, []int{4, 8, 8})
		spec := c11BlockSpec{Kind: "built", MaxK: k, Threshold: 64, NsIDs: c11NsIDs(rng, 1+rng.Intn(2))}
		ns := rng.Intn(len(spec.NsIDs))
		t := c11TxSpec{Seed: rng.U64()}
		for i := 0; i <= links; i++ {
			n := k + 1 + rng.Intn(k)
			if i == links {
				n = 1 + rng.Intn(k)
			}
			b := c11BlobSpec{Ns: ns, Seed: rng.U64()}
			b.Size = c11SizeFor(rng, n, 0)
			t.Blobs = append(t.Blobs, b)
		}
		spec.Txs = []c11TxSpec{t}
		blk, err := c11Build(spec)
		if err != nil || blk.skipped > 0 {
			continue
		}
		if _, longest := c12Chained(blk); longest >= links {
			return spec, true
		}
	}
	return c11BlockSpec{}, false
}

// header of the proof-rows cases: the parser model's notations (CN.Blob.Parser transcribes retrieve incl. its proofs bookkeeping)
func c12RowsHeader() string {
	return strings.Replace(c11Header, "Blob.Parser.", "Blob.Parser Blob.ProofRows.", 1)
}

// c12ProofRows checks, for every blob of the block, against an expectation computed without the service (the builder's record
// of start index / share count, the square width, and the row proofs of the namespace straight from the square):
//   - GetProof returns one nmt proof per row the blob occupies, each proving that row's namespace shares to that row's root;
//   - Included answers yes for exactly that proof and for GetProof's;
//   - Included refuses that proof padded in front with the proofs of the preceding rows (the previous blob's), trimmed, and the
//     proof of a neighbouring blob of the namespace.
func c12ProofRows(ctx context.Context, r *zv.Run, gRows *zv.Group, spec c11BlockSpec, blk *c11Block, svc *Service, g *c11Getter) {
	chained, longest := c12Chained(blk)
	for i := 0; i < chained; i++ {
		r.Count("rows_layout", "blob-starting-in-last-row-of-multirow-predecessor")
	}
	if longest >= 2 {
		r.Count("rows_layout", "chain-of-3-or-more")
	}
	for _, ns := range blk.nss {
		refs := blk.ref[string(ns.Bytes())]
		if len(refs) == 0 {
			continue
		}
		// the namespace's rows, straight from the square
		firstRow := -1
		for idx, sh := range blk.shares {
			if sh.Namespace().Equals(ns) {
				firstRow = idx / blk.k
				break
			}
		}
		nd, err := (&c11Getter{eds: blk.eds}).GetNamespaceData(ctx, blk.hdr, ns)
		if err != nil || firstRow < 0 {
			r.Count("rows_skipped", "namespace-data")
			continue
		}
		// L2: identifiers of the rows' proofs (equal content <-> equal id, ids from 1), queries collected per blob
		d := newC11Dict()
		rowIDs := make([]int, len(nd))
		for j := range nd {
			rowIDs[j] = j + 1
			for q := 0; q < j; q++ {
				if c12ProofSame(Proof{nd[q].Proof}, Proof{nd[j].Proof}) {
					rowIDs[j] = rowIDs[q]
					break
				}
			}
		}
		idOf := func(c *nmt.Proof) int {
			if c != nil {
				for j := range nd {
					if c12ProofSame(Proof{nd[j].Proof}, Proof{c}) {
						return rowIDs[j]
					}
				}
			}
			return 100000 // not the proof of any row of the namespace
		}
		var qs []string
		expected := func(ref c11Ref) Proof {
			r0, r1 := c12Rows(ref, blk.k)
			if r0 < firstRow || r1-firstRow >= len(nd) {
				return nil
			}
			var p Proof
			for row := r0; row <= r1; row++ {
				p = append(p, nd[row-firstRow].Proof)
			}
			return p
		}
		for i, b := range refs {
			first, firstIdx := b, i // byte-identical blobs: the service finds the first of them
			for j, o := range refs {
				if bytes.Equal(o.com, b.com) {
					first, firstIdx = o, j
					break
				}
			}
			if firstIdx != i {
				r.Count("rows_skipped", "duplicate")
				continue
			}
			r0, r1 := c12Rows(first, blk.k)
			exp := expected(first)
			if exp == nil {
				r.Count("rows_skipped", "rows-outside-namespace-data")
				continue
			}
			rep := func(tamper, detail string) c12Replay {
				return c12Replay{Spec: spec, Blob: i, Ns: ns.Bytes(), Tamper: tamper, Detail: detail}
			}
			where := fmt.Sprintf("blob %d of namespace %x (shares %d..%d = rows %d..%d of a %dx%d ODS)", i, ns.ID(), first.start, first.start+first.n-1, r0, r1, blk.k, blk.k)
			included := func(q Proof) (string, error) {
				var ok bool
				var err error
				qq := c12CloneProof(q)
				if p := zv.Recover(func() { ok, err = svc.Included(ctx, 1, ns, &qq, b.com) }); p != "" {
					return "IncPanic", errors.New(p)
				}
				switch {
				case err != nil:
					return "IncErr", err
				case ok:
					return "IncYes", nil
				}
				return "IncNo", nil
			}
			r.Count("rows_blob", fmt.Sprintf("rows=%d", minInt(r1-r0+1, 4)))

			// (1) the proof handed out
			var pr *Proof
			if p := zv.Recover(func() { pr, err = svc.GetProof(ctx, 1, ns, b.com) }); p != "" || err != nil || pr == nil {
				r.Violation("proof-not-produced", "GetProof failed for "+where+": "+fmt.Sprint(p, err), rep("", fmt.Sprint(p, err)))
				if p == "" && errors.Is(err, ErrBlobNotFound) {
					qs = append(qs, "(ComBlob "+d.blob(b.blob)+", RNotFound)")
				} else {
					qs = append(qs, "(ComBlob "+d.blob(b.blob)+", RErr)")
				}
			} else {
				ids := make([]string, len(*pr))
				for j, c := range *pr {
					ids[j] = strconv.Itoa(idOf(c))
				}
				qs = append(qs, "(ComBlob "+d.blob(b.blob)+", RRows ["+strings.Join(ids, ";")+"]%N)")
				bad := ""
				if len(*pr) != r1-r0+1 {
					bad = fmt.Sprintf("%d components for %d rows", len(*pr), r1-r0+1)
				} else if !c12ProofSame(*pr, exp) {
					bad = "components differ from the nmt proofs of the blob's rows"
				} else {
					for j, c := range *pr {
						row := r0 + j
						if c == nil || !c.VerifyInclusion(share.NewSHA256Hasher(), ns.Bytes(), libshare.ToBytes(nd[row-firstRow].Shares), blk.hdr.DAH.RowRoots[row]) {
							bad = fmt.Sprintf("component %d does not prove the namespace shares of row %d to that row's root", j, row)
							break
						}
					}
				}
				if bad != "" {
					r.Violation("proof-rows-wrong", "GetProof for "+where+" does not cover exactly the rows of the blob: "+bad, rep("get-proof", bad))
				}
				if v, err := included(*pr); v != "IncYes" {
					r.Violation("included-honest-"+v, fmt.Sprintf("Included refuses the node's own proof for %s: %v", where, err), rep("", fmt.Sprint(err)))
				}
			}
			// (2) the proof of exactly the blob's rows
			if v, err := included(exp); v != "IncYes" {
				r.Violation("included-own-proof-rejected", fmt.Sprintf("Included answers %s (%v) for the nmt proofs of exactly the rows of %s", v, err, where), rep("rows-proof", fmt.Sprint(err)))
			}
			// (3) padded / trimmed / a neighbour's
			reject := func(sig, name string, q Proof) {
				if q == nil || c12ProofSame(q, exp) {
					return
				}
				v, err := included(q)
				r.Count("rows_tamper", name+":"+v)
				switch v {
				case "IncYes":
					r.Violation(sig, fmt.Sprintf("Included accepts, for %s, %s (%d components)", where, name, len(q)), rep(name, ""))
				case "IncPanic":
					r.Violation("included-panic:"+name, "Included panicked: "+err.Error(), rep(name, err.Error()))
				}
			}
			if r0 > firstRow {
				reject("included-padded-proof-accepted", "the blob's proof padded in front with the proof of the preceding row", append(Proof{nd[r0-1-firstRow].Proof}, exp...))
			}
			if i > 0 {
				p0, _ := c12Rows(refs[i-1], blk.k)
				if p0 < r0 && p0 >= firstRow {
					var q Proof
					for row := p0; row < r0; row++ {
						q = append(q, nd[row-firstRow].Proof)
					}
					reject("included-padded-proof-accepted", "the blob's proof padded in front with the proofs of the previous blob's rows", append(q, exp...))
				}
				reject("included-neighbour-proof-accepted", "the proof of the previous blob of the namespace", expected(refs[i-1]))
			}
			if i+1 < len(refs) {
				reject("included-neighbour-proof-accepted", "the proof of the next blob of the namespace", expected(refs[i+1]))
			}
			if r1+1-firstRow < len(nd) {
				reject("included-padded-proof-accepted", "the blob's proof padded behind with the proof of the following row", append(append(Proof{}, exp...), nd[r1+1-firstRow].Proof))
			}
			if len(exp) > 1 {
				reject("included-trimmed-proof-accepted", "the blob's proof without its first row", exp[1:])
				reject("included-trimmed-proof-accepted", "the blob's proof without its last row", exp[:len(exp)-1])
			}
		}
		// L2: the same queries on the model (Blob/Parser.v get_proof_rows through Blob/ProofRows.v)
		nshares := 0
		for _, row := range nd {
			nshares += len(row.Shares)
		}
		if len(qs) > 0 && nshares <= 1500 {
			idt := make([]string, len(rowIDs))
			for j, v := range rowIDs {
				idt[j] = strconv.Itoa(v)
			}
			key := ""
			nsChained := false
			for i := 1; i < len(refs); i++ {
				p0, p1 := c12Rows(refs[i-1], blk.k)
				if b0, _ := c12Rows(refs[i], blk.k); p1 > p0 && b0 == p1 {
					nsChained = true
				}
			}
			switch {
			case nsChained:
				key = "chained"
			case len(refs) >= 2:
				key = "several-blobs"
			}
			term := "(" + c11NsNum(ns.Bytes()) + "%N, " + c11Ranges(blk.hdr) + ", " + d.rows(nd) + ", [" + strings.Join(idt, ";") + "]%N, [" + strings.Join(qs, "; ") + "])"
			gRows.Case(term, map[string]any{"spec": spec, "namespace": ns.Bytes(), "blobs": len(refs), "rows": len(nd)}, key)
		} else if len(qs) > 0 {
			r.Count("rows_skipped", "l2-namespace-too-large")
		}
	}
}

func minInt(a, b int) int {
	if a < b {
		return a
	}
	return b
}

// panic classes = signatures of the known defect families (so that a different panic has a different signature)
func c12EqPanicClass(tamper string) string {
	switch tamper {
	case "nil-component":
		return "nil-component"
	case "drop-node", "drop-all-nodes":
		return "fewer-nodes"
	}
	return tamper
}

func c12PanicClass(tamper string, cp *CommitmentProof) string {
	for _, p := range cp.SubtreeRootProofs {
		if p == nil {
			return "nil-subtree-proof"
		}
	}
	for _, p := range cp.RowProof.Proofs {
		if p == nil {
			return "nil-row-proof"
		}
	}
	return tamper
}

//go:build verif

package blob

// C11 correspondence + oracle harness (see /verif/DESIGN.md, C11).
//
// Blocks are built with the real go-square square builder from random multisets of blobs (1 byte .. several rows, share
// versions 0 and 1, few/many namespaces, duplicates, several blobs per transaction) plus ordinary transactions, and as
// hand-placed share sequences with arbitrary padding runs.  The real blob.Service runs over an in-memory getter.
// Every run also has blocks whose namespace spans more than 16 rows of a 32-wide square (c11GenLong).
//
// L3: GetAll / Get are compared with the builder's own record (blobs in square order, start index written into the PFB).
// L2: the namespace rows the getter handed to the service are abstracted to the share records of CN.Blob.Parser and
//     emitted with the observed answers; Coq re-computes the model's answers (mismatches).

import (
	"bytes"
	"context"
	"errors"
	"fmt"
	"strconv"
	"strings"
	"testing"

	libshare "github.com/celestiaorg/go-square/v4/share"

	"github.com/celestiaorg/celestia-node/share/shwap"
	zv "github.com/celestiaorg/celestia-node/zzverif"
)

type c11Replay struct {
	Spec   c11BlockSpec `json:"spec"`
	Ns     []byte       `json:"namespace,omitempty"`
	Op     string       `json:"op,omitempty"`
	Mutate string       `json:"mutate,omitempty"`
	Detail string       `json:"detail,omitempty"`
}

type c11Run struct {
	r   *zv.Run
	g   *zv.Group
	ctx context.Context
}

func c11Same(b *Blob, ref c11Ref, wantIdx int) string {
	switch {
	case b == nil || b.Blob == nil:
		return "nil blob"
	case !bytes.Equal(b.Namespace().Bytes(), ref.blob.Namespace().Bytes()):
		return "namespace differs"
	case !bytes.Equal(b.Data(), ref.blob.Data()):
		return fmt.Sprintf("data differs (got %d bytes, want %d)", len(b.Data()), len(ref.blob.Data()))
	case b.ShareVersion() != ref.blob.ShareVersion():
		return "share version differs"
	case !bytes.Equal(b.Signer(), ref.blob.Signer()):
		return "signer differs"
	case !bytes.Equal(b.Commitment, ref.com):
		return "commitment differs"
	case b.Index() != wantIdx:
		return fmt.Sprintf("index %d, want %d", b.Index(), wantIdx)
	}
	return ""
}

// observed renders a blob returned by the service; loose: see blobLoose.
func (d *c11Dict) observed(b *libshare.Blob, loose bool) (string, bool) {
	if loose {
		return d.blobLoose(b)
	}
	return d.blob(b), true
}

func (d *c11Dict) entries(bs []*Blob, loose bool) (string, bool) {
	xs := make([]string, len(bs))
	for i, b := range bs {
		t, ok := d.observed(b.Blob, loose)
		if !ok {
			return "", false
		}
		xs[i] = "(" + t + ", " + zv.Z(int64(b.Index())) + ")"
	}
	return "(ObsBlobs [" + strings.Join(xs, "; ") + "])", true
}

// c11Namespace runs every query for one namespace of one block against the real service (honest getter), checks the
// answers against the reference (L3) and emits the correspondence case (L2).
func (c *c11Run) namespace(blk *c11Block, ns libshare.Namespace, rng *zv.Rand, mutate string) {
	r := c.r
	g := &c11Getter{eds: blk.eds}
	var mutDesc string
	if mutate != "" {
		g.over, mutDesc = c11Mutator(mutate, rng)
	}
	svc := blk.service(g)
	d := newC11Dict()
	nd, gerr := g.GetNamespaceData(c.ctx, blk.hdr, ns)
	var gterm string
	switch {
	case gerr == nil:
		gterm = d.rows(nd)
	case errors.Is(gerr, shwap.ErrNotFound):
		gterm = "GNotFound"
	default:
		gterm = "GFail"
	}
	refs := blk.ref[string(ns.Bytes())]
	rep := func(op, detail string) c11Replay {
		return c11Replay{Spec: blk.spec, Ns: ns.Bytes(), Op: op, Mutate: mutate, Detail: detail}
	}
	var qs []string

	// ---- GetAll
	var all []*Blob
	var err error
	if p := zv.Recover(func() { all, err = svc.GetAll(c.ctx, 1, []libshare.Namespace{ns}) }); p != "" {
		r.Violation("getall-panic", "GetAll panicked: "+p, rep("getall", p))
		qs = append(qs, "(QAll, ObsPanic)")
	} else if err != nil {
		if mutate == "" {
			r.Violation("getall-error", "GetAll failed on an honest block: "+err.Error(), rep("getall", err.Error()))
		}
		qs = append(qs, "(QAll, ObsErr)")
	} else {
		if mutate == "" {
			if len(all) != len(refs) {
				r.Violation("getall-count", fmt.Sprintf("GetAll returned %d blobs, the block holds %d under the namespace", len(all), len(refs)), rep("getall", ""))
			} else {
				for i := range all {
					if why := c11Same(all[i], refs[i], blk.edsIndex(refs[i].start)); why != "" {
						r.Violation("getall-blob", fmt.Sprintf("GetAll blob %d of %d: %s", i, len(all), why), rep("getall", why))
						break
					}
					// the reported index addresses the blob's first share in the extended square
					w := 2 * blk.k
					first, _ := all[i].Blob.ToShares()
					if idx := all[i].Index(); idx < 0 || idx/w >= w || !bytes.Equal(blk.eds.GetCell(uint(idx/w), uint(idx%w)), first[0].ToBytes()) {
						r.Violation("getall-index-share", fmt.Sprintf("share at reported index %d is not the blob's first share", all[i].Index()), rep("getall", ""))
						break
					}
				}
			}
		}
		if t, ok := d.entries(all, mutate != ""); ok {
			qs = append(qs, "(QAll, "+t+")")
		} else {
			r.Count("abstraction", "ambiguous-last-share-skipped")
		}
	}
	r.Count("getall_blobs", strconv.Itoa(min(len(refs), 6)))

	// ---- Get by commitment: every commitment present under the namespace, and absent ones
	type target struct {
		com  []byte
		term string
		kind string
	}
	var targets []target
	seen := map[string]bool{}
	for _, ref := range refs {
		if !seen[string(ref.com)] {
			seen[string(ref.com)] = true
			targets = append(targets, target{ref.com, "(ComBlob " + d.blob(ref.blob) + ")", "present"})
		}
	}
	if len(targets) > 4 {
		// keep first, last and two random ones (duplicates keep the first occurrence semantics interesting)
		keep := []target{targets[0], targets[len(targets)-1], targets[1+rng.Intn(len(targets)-2)], targets[1+rng.Intn(len(targets)-2)]}
		targets = keep
	}
	// absent: a blob of another namespace of the block, a fresh blob of this namespace, random bytes
	for _, ons := range blk.nss {
		key, other := string(ons.Bytes()), blk.ref[string(ons.Bytes())]
		if key != string(ns.Bytes()) && len(other) > 0 {
			targets = append(targets, target{other[0].com, "(ComBlob " + d.blob(other[0].blob) + ")", "other-namespace"})
			// the same content re-labelled with this namespace
			if nb, e := libshare.NewBlob(ns, other[0].blob.Data(), other[0].blob.ShareVersion(), other[0].blob.Signer()); e == nil && ns.ValidateForBlob() == nil {
				com := c11Commit(nb)
				if !seen[string(com)] {
					targets = append(targets, target{com, "(ComBlob " + d.blob(nb) + ")", "relabelled"})
				}
			}
			break
		}
	}
	if fresh, e := libshare.NewBlob(ns, rng.Bytes(1+rng.Intn(600)), 0, nil); e == nil {
		targets = append(targets, target{c11Commit(fresh), "(ComBlob " + d.blob(fresh) + ")", "fresh"})
	}
	targets = append(targets, target{rng.Bytes(32), "(ComOther 1)", "random"}, target{nil, "(ComOther 2)", "empty"})

	for _, tg := range targets {
		var b *Blob
		var err error
		q := "(QGet " + tg.term + ", "
		r.Count("get_target", tg.kind)
		if p := zv.Recover(func() { b, err = svc.Get(c.ctx, 1, ns, tg.com) }); p != "" {
			r.Violation("get-panic", "Get panicked: "+p, rep("get:"+tg.kind, p))
			qs = append(qs, q+"ObsPanic)")
			continue
		}
		// reference: the first blob of the namespace with that commitment
		var want *c11Ref
		for i := range refs {
			if bytes.Equal(refs[i].com, tg.com) {
				want = &refs[i]
				break
			}
		}
		switch {
		case err == nil:
			if mutate == "" {
				if want == nil {
					r.Violation("get-phantom", "Get returned a blob for a commitment the block does not hold under the namespace", rep("get:"+tg.kind, ""))
				} else if why := c11Same(b, *want, blk.edsIndex(want.start)); why != "" {
					r.Violation("get-blob", "Get: "+why, rep("get:"+tg.kind, why))
				}
			}
			if t, ok := d.observed(b.Blob, mutate != ""); ok {
				qs = append(qs, q+"ObsFound "+t+" "+zv.Z(int64(b.Index()))+")")
			} else {
				r.Count("abstraction", "ambiguous-last-share-skipped")
			}
		case errors.Is(err, ErrBlobNotFound):
			if mutate == "" && want != nil {
				r.Violation("get-missed", "Get reports 'not found' for a blob the block holds under the namespace", rep("get:"+tg.kind, ""))
			}
			qs = append(qs, q+"ObsNotFound)")
		default:
			if mutate == "" {
				r.Violation("get-error", "Get failed with an error other than 'not found' on an honest block: "+err.Error(), rep("get:"+tg.kind, err.Error()))
			}
			qs = append(qs, q+"ObsErr)")
		}
	}

	// ---- emit
	term := "(" + c11NsNum(ns.Bytes()) + "%N, " + c11Ranges(blk.hdr) + ", " + gterm + ", [" + strings.Join(qs, "; ") + "])"
	key := ""
	nshares, nrows, npad := 0, len(nd), 0
	for _, row := range nd {
		nshares += len(row.Shares)
		for _, s := range row.Shares {
			if s.IsPadding() {
				npad++
			}
		}
	}
	multi := false
	for _, ref := range refs {
		if ref.start/blk.k != (ref.start+ref.n-1)/blk.k {
			multi = true
		}
	}
	switch {
	case mutate != "":
		key = "malformed"
	case len(refs) >= 2 || npad > 0 || multi || (len(refs) == 0 && nrows > 0):
		key = "layout"
	}
	c.g.Case(term, map[string]any{"spec": blk.spec, "namespace": ns.Bytes(), "mutate": mutate, "mutation": mutDesc, "rows": nrows, "shares": nshares, "padding": npad, "blobs": len(refs)}, key)
	r.Count("ns_rows", strconv.Itoa(min(nrows, 8)))
	// by the reference record: rows of the original square the namespace spans (the getter fans out over them)
	refRows := c11RefRows(refs, blk.k)
	bucket := func(n int) string {
		switch {
		case n <= 1:
			return strconv.Itoa(n)
		case n <= 8:
			return "2-8"
		case n < 16:
			return "9-15"
		case n <= 17:
			return strconv.Itoa(n)
		}
		return ">17"
	}
	if mutate == "" {
		r.Count("ns_rows_spanned", bucket(refRows))
		if refRows > 16 {
			r.Count("ns_feature", "namespace-rows>16")
		}
		for _, ref := range refs {
			if (ref.start+ref.n-1)/blk.k-ref.start/blk.k+1 > 16 {
				r.Count("ns_feature", "blob-rows>16")
			}
		}
	}
	r.Count("ns_padding_shares", strconv.Itoa(min(npad, 8)))
	if multi {
		r.Count("ns_feature", "blob-spans-rows")
	}
	if npad > 0 {
		r.Count("ns_feature", "padding")
	}
	if len(refs) == 0 && nrows > 0 {
		r.Count("ns_feature", "absence-proof")
	}
	if len(refs) == 0 && nrows == 0 {
		r.Count("ns_feature", "outside-every-row")
	}
	dup := map[string]int{}
	for _, ref := range refs {
		dup[string(ref.com)]++
		if dup[string(ref.com)] == 2 {
			r.Count("ns_feature", "byte-identical-blobs")
		}
	}
}

// c11Mutator: malformed answers of the share getter (L2 only: the model must track the code on these too).
func c11Mutator(name string, rng *zv.Rand) (func(shwap.NamespaceData, error) (shwap.NamespaceData, error), string) {
	a, b := rng.Intn(1<<20), rng.Intn(1<<20)
	cp := func(nd shwap.NamespaceData) shwap.NamespaceData {
		out := make(shwap.NamespaceData, len(nd))
		for i := range nd {
			out[i] = shwap.RowNamespaceData{Shares: append([]libshare.Share{}, nd[i].Shares...), Proof: nd[i].Proof}
		}
		return out
	}
	desc := fmt.Sprintf("%s(%d,%d)", name, a, b)
	return func(nd shwap.NamespaceData, err error) (shwap.NamespaceData, error) {
		if err != nil {
			return nd, err
		}
		switch name {
		case "notfound":
			return nil, shwap.ErrNotFound
		case "fail":
			return nil, errors.New("getter failure")
		}
		if len(nd) == 0 {
			return nd, nil
		}
		nd = cp(nd)
		i := a % len(nd)
		row := &nd[i]
		switch name {
		case "drop-share":
			if len(row.Shares) > 0 {
				j := b % len(row.Shares)
				row.Shares = append(row.Shares[:j], row.Shares[j+1:]...)
			}
		case "drop-last":
			last := &nd[len(nd)-1]
			if len(last.Shares) > 0 {
				last.Shares = last.Shares[:len(last.Shares)-1]
			}
		case "drop-first":
			if len(nd[0].Shares) > 0 {
				nd[0].Shares = nd[0].Shares[1:]
			}
		case "dup-share":
			if len(row.Shares) > 0 {
				j := b % len(row.Shares)
				row.Shares = append(row.Shares[:j+1], row.Shares[j:]...)
			}
		case "swap-rows":
			if len(nd) > 1 {
				j := b % len(nd)
				nd[i], nd[j] = nd[j], nd[i]
			}
		case "drop-row":
			nd = append(nd[:i], nd[i+1:]...)
		case "dup-row":
			nd = append(nd[:i+1], nd[i:]...)
		case "empty-row":
			row.Shares = nil
		case "shift-start":
			if row.Proof != nil {
				row.Proof = c11ProofAt(row.Proof, row.Proof.Start()+1+b%3)
			}
		case "reverse-row":
			for l, r := 0, len(row.Shares)-1; l < r; l, r = l+1, r-1 {
				row.Shares[l], row.Shares[r] = row.Shares[r], row.Shares[l]
			}
		}
		return nd, nil
	}, desc
}

var c11Mutations = []string{"notfound", "fail", "drop-share", "drop-last", "drop-first", "dup-share", "swap-rows", "drop-row", "dup-row",
	"empty-row", "shift-start", "reverse-row"}

func TestVerifC11(t *testing.T) {
	r := zv.Start(t, "C11")
	defer r.Finish()
	ctx, cancel := context.WithCancel(context.Background())
	defer cancel()
	c := &c11Run{r: r, g: r.Group("parser", c11Header, "case", "mismatches"), ctx: ctx}
	defer func() { c.g.Header = c11Header + c11NsDefs() }() // runs before r.Finish
	rng := r.Rand()

	// constants of go-square the model depends on
	for i, v := range []int{libshare.ShareSize, libshare.NamespaceSize, libshare.FirstSparseShareContentSize,
		libshare.FirstSparseShareContentSizeWithSigner, libshare.ContinuationSparseShareContentSize, libshare.SignerSize} {
		c.g.Case(fmt.Sprintf("(0%%N, []%%N, GNotFound, [(QConst %d%%nat %d%%N, ObsNotFound)])", i, v), map[string]any{"const": i, "v": v}, "")
	}
	// SparseSharesNeeded at capacity boundaries, through the model's [shares_needed] (a one-share namespace whose first
	// share announces that length: the parser must wait for exactly that many shares)
	for _, signer := range []bool{false, true} {
		for _, l := range []uint32{0, 1, 457, 458, 459, 477, 478, 479, 478 + 482, 478 + 482 + 1, 458 + 482, 458 + 482 + 1, 1 << 20, 1<<32 - 1} {
			if got := libshare.SparseSharesNeeded(l, signer); got < 0 {
				r.Violation("shares-needed-negative", fmt.Sprintf("SparseSharesNeeded(%d,%v) = %d", l, signer, got), nil)
			}
		}
	}

	var rp c11Replay
	if r.ReplayInput(&rp) {
		blk, err := c11Build(rp.Spec)
		if err != nil {
			t.Fatalf("replay: %v", err)
		}
		c.block(blk, rng, rp.Mutate)
		return
	}

	// ---- namespaces spanning more than 16 rows of the original square (the share getter fans out over the rows of a
	// namespace; seeded change C11-c: rows fetched in batches of 16 and stored at the position inside the batch). Needs a
	// square at least 32 wide: real-builder blocks with one blob of 18..26 rows (share version 0 and 1), with several
	// blobs of one namespace totalling more than 16 rows, and hand-placed squares whose namespaces span exactly 16 and
	// exactly 17 rows. First, so that they sit in the first shard of the Coq case files.
	nLong := r.N(1, 12)
	for i := 0; i < nLong; i++ {
		for v := 0; v < c11LongVariants; v++ {
			if v == 3 && !r.Thorough() {
				continue // 64-wide square: thorough tier only
			}
			// deterministic for the seed: the first attempt whose square really has a namespace of more than 16 rows
			// (the builder may leave out a transaction that does not fit)
			var blk *c11Block
			for attempt := 0; attempt < 8 && blk == nil; attempt++ {
				spec := c11GenLong(rng.Fork(uint64(i*64+v*8+attempt)+5<<32), v)
				b, err := c11Build(spec)
				if err != nil {
					r.Violation("builder-failed", "the square builder rejected a generated block: "+err.Error(), c11Replay{Spec: spec})
					break
				}
				if b.maxNsRows() > 16 {
					blk = b
				} else {
					r.Count("long_rows_retry", strconv.Itoa(v))
				}
			}
			if blk == nil {
				t.Fatalf("harness broken: no block of variant %d with a namespace spanning more than 16 rows", v)
			}
			r.Count("kind", "long-"+blk.spec.Kind)
			r.Count("square_size", strconv.Itoa(blk.k))
			c.block(blk, rng, "")
		}
	}

	nBuilt, nLayout, nMal := r.N(60, 1500), r.N(90, 2500), r.N(36, 1200)
	for i := 0; i < nBuilt; i++ {
		spec := c11GenBuilt(rng.Fork(uint64(i)))
		blk, err := c11Build(spec)
		if err != nil {
			r.Violation("builder-failed", "the square builder rejected a generated block: "+err.Error(), c11Replay{Spec: spec})
			continue
		}
		r.Count("kind", "built")
		r.Count("square_size", strconv.Itoa(blk.k))
		r.Count("threshold", strconv.Itoa(spec.Threshold))
		c.block(blk, rng, "")
	}
	for i := 0; i < nLayout; i++ {
		spec := c11GenLayout(rng.Fork(uint64(i) + 1<<32))
		blk, err := c11Build(spec)
		if err != nil {
			t.Fatalf("layout block: %v", err)
		}
		r.Count("kind", "layout")
		r.Count("square_size", strconv.Itoa(blk.k))
		c.block(blk, rng, "")
	}
	for i := 0; i < nMal; i++ {
		var spec c11BlockSpec
		if rng.Bool() {
			spec = c11GenBuilt(rng.Fork(uint64(i) + 2<<32))
			spec.MaxK = min(spec.MaxK, 8)
		} else {
			spec = c11GenLayout(rng.Fork(uint64(i) + 3<<32))
		}
		for ti := range spec.Txs {
			for bi := range spec.Txs[ti].Blobs {
				spec.Txs[ti].Blobs[bi].Const = false
			}
		}
		for ii := range spec.Items {
			if spec.Items[ii].Blob != nil {
				spec.Items[ii].Blob.Const = false
			}
		}
		blk, err := c11Build(spec)
		if err != nil {
			continue
		}
		r.Count("kind", "malformed")
		c.block(blk, rng, c11Mutations[i%len(c11Mutations)])
	}
}

const c11LongVariants = 5

// maxNsRows: the largest number of square rows any one namespace of the block spans (by the reference record).
func (b *c11Block) maxNsRows() int {
	m := 0
	for _, refs := range b.ref {
		if n := c11RefRows(refs, b.k); n > m {
			m = n
		}
	}
	return m
}

// c11RefRows: rows of the original square from the first share of the first blob to the last share of the last blob.
func c11RefRows(refs []c11Ref, k int) int {
	if len(refs) == 0 {
		return 0
	}
	last := refs[len(refs)-1]
	return (last.start+last.n-1)/k - refs[0].start/k + 1
}

// c11SizeFor: a data size that takes exactly n shares.
func c11SizeFor(rng *zv.Rand, n int, ver uint8) int {
	first := libshare.FirstSparseShareContentSize
	if ver == 1 {
		first = libshare.FirstSparseShareContentSizeWithSigner
	}
	if n == 1 {
		return 1 + rng.Intn(first)
	}
	return first + libshare.ContinuationSparseShareContentSize*(n-1) - rng.Intn(libshare.ContinuationSparseShareContentSize)
}

// c11GenLong: blocks in which a namespace spans more than 16 rows.
//
//	0: real builder, 32 wide: one blob of 18..26 rows, share version 0, plus small blobs of other namespaces
//	1: real builder, 32 wide: the same with share version 1 (signer)
//	2: real builder, 32 wide: one namespace with 4..7 blobs (one byte-identical pair) totalling 18..23 rows
//	3: real builder, 64 wide: one blob of 18..40 rows (thorough tier)
//	4: hand-placed, 32 wide: a namespace spanning exactly 16 rows (one blob, or two blobs around a padding run) followed by
//	   one spanning exactly 17 rows
func c11GenLong(rng *zv.Rand, variant int) c11BlockSpec {
	if variant == 4 {
		k := 32
		spec := c11BlockSpec{Kind: "layout", MaxK: k, Threshold: 64, NsIDs: c11NsIDs(rng, 3)}
		c0 := 1 + rng.Intn(k-1) // the 16-row namespace runs from (0, c0)
		c1 := rng.Intn(k - 1)   // to (15, c1); the 17-row namespace from (15, c1+1)
		c2 := rng.Intn(k)       // to (31, c2)
		n16 := 15*k + c1 + 1 - c0
		n17 := 31*k + c2 + 1 - (15*k + c1 + 1)
		spec.Off = c0
		blob := func(ns, n int) c11Item {
			b := c11BlobSpec{Ns: ns, Seed: rng.U64(), Ver: uint8(rng.Intn(2))}
			b.Signer = uint64(rng.Intn(3))
			b.Size = c11SizeFor(rng, n, b.Ver)
			return c11Item{Ns: ns, Blob: &b}
		}
		if rng.Bool() {
			spec.Items = append(spec.Items, blob(1, n16))
		} else {
			a := 1 + rng.Intn(n16-40)
			pad := 1 + rng.Intn(30)
			spec.Items = append(spec.Items, blob(1, a), c11Item{Ns: 1, Pad: pad, PadV: uint8(rng.Intn(2))}, blob(1, n16-a-pad))
		}
		spec.Items = append(spec.Items, blob(2, n17))
		return spec
	}
	k := 32
	if variant == 3 {
		k = 64
	}
	spec := c11BlockSpec{Kind: "built", MaxK: k, Threshold: zv.Pick(rng, []int{64, 64, 8}), NsIDs: c11NsIDs(rng, 2+rng.Intn(2))}
	long := rng.Intn(len(spec.NsIDs))
	// the long namespace first: it is appended while the builder is empty, so it always fits
	switch variant {
	case 2:
		total := (18 + rng.Intn(5)) * k
		nb := 4 + rng.Intn(4)
		var blobs []c11BlobSpec
		for i := 0; i < nb; i++ {
			n := total - (nb-1)*(total/nb)
			if i > 0 {
				n = total/nb + rng.Intn(21)
			}
			b := c11BlobSpec{Ns: long, Seed: rng.U64(), Ver: uint8(rng.Intn(2)), Signer: uint64(rng.Intn(2))}
			b.Size = c11SizeFor(rng, n, b.Ver)
			if i == nb-1 {
				b = blobs[rng.Intn(len(blobs))] // byte-identical to an earlier one
			}
			blobs = append(blobs, b)
		}
		for i := 0; i < len(blobs); {
			t := c11TxSpec{Seed: rng.U64()}
			for j, m := 0, 1+rng.Intn(3); j < m && i < len(blobs); j++ {
				t.Blobs = append(t.Blobs, blobs[i])
				i++
			}
			spec.Txs = append(spec.Txs, t)
		}
	default:
		rows := 18 + rng.Intn(9)
		if variant == 3 {
			rows = 18 + rng.Intn(23)
		}
		b := c11BlobSpec{Ns: long, Seed: rng.U64()}
		if variant == 1 {
			b.Ver, b.Signer = 1, uint64(rng.Intn(3))
		}
		b.Size = c11SizeFor(rng, (rows-1)*k+1+rng.Intn(k), b.Ver)
		spec.Txs = append(spec.Txs, c11TxSpec{Seed: rng.U64(), Blobs: []c11BlobSpec{b}})
	}
	// small company: blobs of the other namespaces (and sometimes of the long one), an ordinary transaction
	for i, n := 0, 1+rng.Intn(3); i < n; i++ {
		t := c11TxSpec{Seed: rng.U64()}
		for j, m := 0, 1+rng.Intn(2); j < m; j++ {
			b := c11BlobSpec{Ns: rng.Intn(len(spec.NsIDs)), Seed: rng.U64(), Ver: uint8(rng.Intn(2)), Signer: uint64(rng.Intn(3))}
			b.Size = c11SizeFor(rng, 1+rng.Intn(6), b.Ver)
			t.Blobs = append(t.Blobs, b)
		}
		spec.Txs = append(spec.Txs, t)
	}
	if rng.Bool() {
		spec.Txs = append(spec.Txs, c11TxSpec{Plain: 1 + rng.Intn(900), Seed: rng.U64()})
	}
	return spec
}

// block queries every namespace that holds blobs and a few that do not.
func (c *c11Run) block(blk *c11Block, rng *zv.Rand, mutate string) {
	var present []libshare.Namespace
	for _, ns := range blk.nss {
		if len(blk.ref[string(ns.Bytes())]) > 0 {
			present = append(present, ns)
		}
	}
	if mutate != "" {
		if len(present) > 0 {
			c.namespace(blk, zv.Pick(rng, present), rng, mutate)
		}
		return
	}
	if len(present) > 4 {
		i := rng.Intn(len(present) - 3)
		present = present[i : i+4]
	}
	for _, ns := range present {
		c.namespace(blk, ns, rng, "")
	}
	for _, ns := range c11AbsentNamespaces(rng, blk) {
		c.r.Count("query_ns", "absent")
		c.namespace(blk, ns, rng, "")
	}
	// GetAll over several namespaces at once: concatenation in request order
	if len(present) >= 2 {
		var all []*Blob
		var err error
		if p := zv.Recover(func() { all, err = blk.service(&c11Getter{eds: blk.eds}).GetAll(c.ctx, 1, present) }); p != "" || err != nil {
			c.r.Violation("getall-many-failed", fmt.Sprintf("GetAll over %d namespaces failed: %v %s", len(present), err, p), c11Replay{Spec: blk.spec, Op: "getall-many"})
			return
		}
		var want []c11Ref
		for _, ns := range present {
			want = append(want, blk.ref[string(ns.Bytes())]...)
		}
		ok := len(all) == len(want)
		for i := 0; ok && i < len(all); i++ {
			ok = c11Same(all[i], want[i], blk.edsIndex(want[i].start)) == ""
		}
		if !ok {
			c.r.Violation("getall-many", "GetAll over several namespaces is not the concatenation of the per-namespace lists in request order", c11Replay{Spec: blk.spec, Op: "getall-many"})
		}
		c.r.Count("query_ns", "many")
	}
}

//go:build verif

package blob

// Shared helpers of the C11 / C12 harnesses of package blob: deterministic block construction with the REAL go-square
// square builder (or hand-placed share sequences), an in-memory share getter over the extended square, and the
// abstraction of shares / blobs to the terms of the Coq model CN.Blob.Parser.

import (
	"bytes"
	"context"
	"fmt"
	"math/big"
	"sort"
	"strconv"
	"strings"

	"github.com/celestiaorg/celestia-app/v9/pkg/wrapper"
	"github.com/celestiaorg/go-square/merkle"
	square "github.com/celestiaorg/go-square/v4"
	"github.com/celestiaorg/go-square/v4/inclusion"
	libshare "github.com/celestiaorg/go-square/v4/share"
	sqtx "github.com/celestiaorg/go-square/v4/tx"
	"github.com/celestiaorg/nmt"
	"github.com/celestiaorg/rsmt2d"

	"github.com/celestiaorg/celestia-node/header"
	"github.com/celestiaorg/celestia-node/share"
	"github.com/celestiaorg/celestia-node/share/eds"
	"github.com/celestiaorg/celestia-node/share/shwap"
	zv "github.com/celestiaorg/celestia-node/zzverif"
)

// ---------------------------------------------------------------- block specifications (replayable)

type c11BlobSpec struct {
	Ns     int    `json:"ns"`               // index into the block's namespace table
	Size   int    `json:"size"`             // data bytes
	Ver    uint8  `json:"ver"`              // share version 0 / 1
	Seed   uint64 `json:"seed"`             // data seed
	Const  bool   `json:"const,omitempty"`  // data = Size x 0x42 (byte-identical shares across blobs)
	Signer uint64 `json:"signer,omitempty"` // signer seed (version 1)
}

type c11TxSpec struct {
	Plain int           `json:"plain,omitempty"` // size of an ordinary transaction; 0 = blob transaction
	Seed  uint64        `json:"seed"`
	Blobs []c11BlobSpec `json:"blobs,omitempty"`
}

type c11Item struct {
	Ns   int          `json:"ns"`
	Pad  int          `json:"pad,omitempty"` // run of namespace padding shares
	PadV uint8        `json:"padv,omitempty"`
	Blob *c11BlobSpec `json:"blob,omitempty"`
}

type c11BlockSpec struct {
	Kind      string      `json:"kind"` // "built": real square builder; "layout": hand-placed share sequence
	MaxK      int         `json:"max_k"`
	Threshold int         `json:"threshold"`
	NsIDs     [][]byte    `json:"ns_ids"` // sorted 10-byte version-0 namespace ids
	Txs       []c11TxSpec `json:"txs,omitempty"`
	Off       int         `json:"off,omitempty"` // layout: shares of a lower namespace in front
	Items     []c11Item   `json:"items,omitempty"`
}

type c11Ref struct {
	blob  *libshare.Blob
	com   []byte
	start int // ODS index of the first share
	n     int // number of shares
}

type c11Block struct {
	spec   c11BlockSpec
	k      int
	shares []libshare.Share
	eds    *rsmt2d.ExtendedDataSquare
	hdr    *header.ExtendedHeader
	nss    []libshare.Namespace
	ref    map[string][]c11Ref // namespace bytes -> blobs in block order
	skipped int
}

func c11Data(b c11BlobSpec) []byte {
	if b.Const {
		return bytes.Repeat([]byte{0x42}, b.Size)
	}
	return zv.NewRand(b.Seed).Bytes(b.Size)
}

func c11LibBlob(nss []libshare.Namespace, b c11BlobSpec) (*libshare.Blob, error) {
	var signer []byte
	if b.Ver == libshare.ShareVersionOne {
		signer = zv.NewRand(b.Signer ^ 0x5151).Bytes(libshare.SignerSize)
	}
	return libshare.NewBlob(nss[b.Ns], c11Data(b), b.Ver, signer)
}

func c11Commit(b *libshare.Blob) []byte {
	com, err := inclusion.CreateCommitment(b, merkle.HashFromByteSlices, subtreeRootThreshold)
	if err != nil {
		panic(err)
	}
	return com
}

func c11Namespaces(ids [][]byte) []libshare.Namespace {
	nss := make([]libshare.Namespace, len(ids))
	for i, id := range ids {
		nss[i] = libshare.MustNewV0Namespace(id)
	}
	return nss
}

// c11Build constructs the block described by spec.
func c11Build(spec c11BlockSpec) (*c11Block, error) {
	blk := &c11Block{spec: spec, nss: c11Namespaces(spec.NsIDs), ref: map[string][]c11Ref{}}
	switch spec.Kind {
	case "built":
		b, err := square.NewBuilder(spec.MaxK, spec.Threshold)
		if err != nil {
			return nil, err
		}
		for _, t := range spec.Txs {
			if t.Plain > 0 {
				if !b.AppendTx(zv.NewRand(t.Seed).Bytes(t.Plain)) {
					blk.skipped++
				}
				continue
			}
			blobs := make([]*libshare.Blob, len(t.Blobs))
			for i, bs := range t.Blobs {
				lb, err := c11LibBlob(blk.nss, bs)
				if err != nil {
					return nil, err
				}
				blobs[i] = lb
			}
			ok, err := b.AppendBlobTx(&sqtx.BlobTx{Tx: zv.NewRand(t.Seed).Bytes(40 + int(t.Seed%200)), Blobs: blobs})
			if err != nil {
				return nil, err
			}
			if !ok {
				blk.skipped++
			}
		}
		sq, err := b.Export()
		if err != nil {
			return nil, err
		}
		blk.shares = sq
		// the builder's own record: blobs in square order and the start index written into the PFB
		for _, e := range b.Blobs {
			if e.PfbIndex < 0 {
				continue
			}
			start := int(b.Pfbs[e.PfbIndex].ShareIndexes[e.BlobIndex])
			key := string(e.Blob.Namespace().Bytes())
			blk.ref[key] = append(blk.ref[key], c11Ref{blob: e.Blob, com: c11Commit(e.Blob), start: start, n: e.NumShares})
		}
	case "layout":
		var shares []libshare.Share
		if spec.Off > 0 {
			// a blob of the lowest namespace that takes exactly Off shares
			size := libshare.FirstSparseShareContentSize + (spec.Off-1)*libshare.ContinuationSparseShareContentSize
			fb, err := libshare.NewBlob(blk.nss[0], bytes.Repeat([]byte{7}, size), 0, nil)
			if err != nil {
				return nil, err
			}
			fs, err := fb.ToShares()
			if err != nil {
				return nil, err
			}
			if len(fs) != spec.Off {
				return nil, fmt.Errorf("filler has %d shares, want %d", len(fs), spec.Off)
			}
			key := string(blk.nss[0].Bytes())
			blk.ref[key] = append(blk.ref[key], c11Ref{blob: fb, com: c11Commit(fb), start: 0, n: len(fs)})
			shares = append(shares, fs...)
		}
		for _, it := range spec.Items {
			if it.Blob == nil {
				ps, err := libshare.NamespacePaddingShares(blk.nss[it.Ns], it.PadV, it.Pad)
				if err != nil {
					return nil, err
				}
				shares = append(shares, ps...)
				continue
			}
			lb, err := c11LibBlob(blk.nss, *it.Blob)
			if err != nil {
				return nil, err
			}
			bs, err := lb.ToShares()
			if err != nil {
				return nil, err
			}
			key := string(lb.Namespace().Bytes())
			blk.ref[key] = append(blk.ref[key], c11Ref{blob: lb, com: c11Commit(lb), start: len(shares), n: len(bs)})
			shares = append(shares, bs...)
		}
		k := 1
		for k*k < len(shares) || k < spec.MaxK {
			k *= 2
		}
		for len(shares) < k*k {
			shares = append(shares, libshare.TailPaddingShare())
		}
		blk.shares = shares
	default:
		return nil, fmt.Errorf("unknown kind %q", spec.Kind)
	}
	k := 1
	for k*k < len(blk.shares) {
		k *= 2
	}
	if k*k != len(blk.shares) {
		return nil, fmt.Errorf("square of %d shares", len(blk.shares))
	}
	blk.k = k
	sq, err := rsmt2d.ComputeExtendedDataSquare(libshare.ToBytes(blk.shares), share.DefaultRSMT2DCodec(), wrapper.NewConstructor(uint64(k)))
	if err != nil {
		return nil, err
	}
	blk.eds = sq
	roots, err := share.NewAxisRoots(sq)
	if err != nil {
		return nil, err
	}
	eh := &header.ExtendedHeader{DAH: roots}
	eh.RawHeader.Height = 1
	eh.RawHeader.DataHash = roots.Hash()
	blk.hdr = eh
	return blk, nil
}

// edsIndex converts an ODS share index to the index in the extended square (row * EDS width + column).
func (b *c11Block) edsIndex(ods int) int { return (ods/b.k)*(2*b.k) + ods%b.k }

// ---------------------------------------------------------------- in-memory getter

type c11Getter struct {
	eds *rsmt2d.ExtendedDataSquare
	// over, when set, post-processes the honest namespace data (malformed-input stream, getter errors)
	over func(nd shwap.NamespaceData, err error) (shwap.NamespaceData, error)
}

func (g *c11Getter) acc() *eds.Rsmt2D { return &eds.Rsmt2D{ExtendedDataSquare: g.eds} }

func (g *c11Getter) GetSamples(ctx context.Context, _ *header.ExtendedHeader, idx []shwap.SampleCoords) ([]shwap.Sample, error) {
	out := make([]shwap.Sample, len(idx))
	for i, c := range idx {
		s, err := g.acc().Sample(ctx, c)
		if err != nil {
			return nil, err
		}
		out[i] = s
	}
	return out, nil
}

func (g *c11Getter) GetEDS(context.Context, *header.ExtendedHeader) (*rsmt2d.ExtendedDataSquare, error) {
	return g.eds, nil
}

func (g *c11Getter) GetRow(_ context.Context, _ *header.ExtendedHeader, rowIdx int) (shwap.Row, error) {
	return g.acc().HalfRow(rowIdx, shwap.Left)
}

func (g *c11Getter) GetNamespaceData(ctx context.Context, _ *header.ExtendedHeader, ns libshare.Namespace) (shwap.NamespaceData, error) {
	nd, err := eds.NamespaceData(ctx, g.acc(), ns)
	if g.over != nil {
		return g.over(nd, err)
	}
	return nd, err
}

func (g *c11Getter) GetRangeNamespaceData(ctx context.Context, _ *header.ExtendedHeader, from, to int) (shwap.RangeNamespaceData, error) {
	return g.acc().RangeNamespaceData(ctx, from, to)
}

func (b *c11Block) service(g *c11Getter) *Service {
	return NewService(nil, g,
		func(context.Context, uint64) (*header.ExtendedHeader, error) { return b.hdr, nil },
		func(context.Context) (<-chan *header.ExtendedHeader, error) { return nil, fmt.Errorf("not implemented") })
}

// ---------------------------------------------------------------- abstraction to the Coq model (CN.Blob.Parser)

const c11Header = `From Coq Require Import List ZArith NArith.
From CN Require Import Blob.Parser.
Import ListNotations.
Open Scope Z_scope.
Notation sh := mkShare (only parsing).
Notation cs ns ver d := (mkShare ns false false 0 ver None d) (only parsing).
`

// Long namespace numbers are slow to parse in Coq (number notations are interpreted by reduction): each distinct long
// value is bound once to a name in the header of the generated files.
var c11NsTab = map[string]string{}
var c11NsOrder []string

func c11NsDefs() string {
	var sb strings.Builder
	for _, dec := range c11NsOrder {
		sb.WriteString("Definition " + c11NsTab[dec] + " : N := " + dec + ".\n")
	}
	return sb.String()
}

type c11Dict struct {
	ids     map[string]uint64
	order   [][]byte // share contents in id order (id = position + 1)
	signers map[string]uint64
}

func newC11Dict() *c11Dict { return &c11Dict{ids: map[string]uint64{}, signers: map[string]uint64{}} }

func (d *c11Dict) id(b []byte) uint64 {
	if v, ok := d.ids[string(b)]; ok {
		return v
	}
	v := uint64(len(d.ids) + 1)
	d.ids[string(b)] = v
	d.order = append(d.order, append([]byte{}, b...))
	return v
}

// blobLoose renders an observed blob whose shares may not be canonical (malformed getter answers): the bytes of the
// last share beyond the data are dropped by the real parser, so the last chunk is identified by the bytes that count.
// ok=false when several known shares fit (the abstraction cannot tell them apart).
func (d *c11Dict) blobLoose(b *libshare.Blob) (string, bool) {
	shs, err := b.ToShares()
	if err != nil {
		panic(err)
	}
	ids := make([]string, len(shs))
	for i, s := range shs {
		if i < len(shs)-1 {
			if _, known := d.ids[string(s.ToBytes())]; i > 0 && !known {
				// a middle share re-split from a blob assembled across blobs of different share versions (malformed
				// getter answers only): a continuation share contributes its data whatever version its info byte
				// announces, so it is identified by namespace + data, like the last share below
				nsz := libshare.NamespaceSize
				sb := s.ToBytes()
				var cands []uint64
				for k, kn := range d.order {
					if bytes.Equal(kn[:nsz], sb[:nsz]) && kn[nsz]&1 == 0 && bytes.Equal(kn[nsz+1:], sb[nsz+1:]) {
						cands = append(cands, uint64(k+1))
					}
				}
				switch len(cands) {
				case 0:
				case 1:
					ids[i] = strconv.FormatUint(cands[0], 10)
					continue
				default:
					return "", false
				}
			}
			ids[i] = strconv.FormatUint(d.id(s.ToBytes()), 10)
			continue
		}
		used := len(s.ToBytes()) - len(s.RawData()) // header
		rest := len(b.Data())
		for j := 0; j < i; j++ {
			rest -= len(shs[j].RawData())
		}
		used += rest
		var cands []uint64
		for k, known := range d.order {
			sb := s.ToBytes()
			ok := bytes.Equal(known[:used], sb[:used])
			if i > 0 {
				// a continuation share contributes its data whatever share version its info byte announces
				nsz := libshare.NamespaceSize
				ok = bytes.Equal(known[:nsz], sb[:nsz]) && known[nsz]&1 == 0 && bytes.Equal(known[nsz+1:used], sb[nsz+1:used])
			}
			if ok {
				cands = append(cands, uint64(k+1))
			}
		}
		switch len(cands) {
		case 0:
			ids[i] = strconv.FormatUint(d.id(s.ToBytes()), 10)
		case 1:
			ids[i] = strconv.FormatUint(cands[0], 10)
		default:
			return "", false
		}
	}
	return "(mkBlob " + c11NsNum(b.Namespace().Bytes()) + " " + strconv.Itoa(int(b.ShareVersion())) + " " + d.signer(b.Signer()) + " " +
		strconv.Itoa(len(b.Data())) + " [" + strings.Join(ids, ";") + "]%N)", true
}

func (d *c11Dict) signer(b []byte) string {
	if b == nil {
		return "None"
	}
	v, ok := d.signers[string(b)]
	if !ok {
		v = uint64(len(d.signers) + 1)
		d.signers[string(b)] = v
	}
	return "(Some " + strconv.FormatUint(v, 10) + "%N)"
}

func c11NsNum(ns []byte) string {
	dec := new(big.Int).SetBytes(ns).String()
	if len(dec) <= 6 {
		return dec
	}
	name, ok := c11NsTab[dec]
	if !ok {
		name = "n" + strconv.Itoa(len(c11NsTab))
		c11NsTab[dec] = name
		c11NsOrder = append(c11NsOrder, dec)
	}
	return name
}

func (d *c11Dict) share(s libshare.Share) string {
	ns := c11NsNum(s.Namespace().Bytes())
	id := strconv.FormatUint(d.id(s.ToBytes()), 10)
	signer := libshare.GetSigner(s)
	ver := strconv.Itoa(int(s.Version()))
	if !s.IsPadding() && !s.IsSequenceStart() && s.SequenceLen() == 0 && signer == nil {
		return "cs " + ns + " " + ver + " " + id
	}
	return "sh " + ns + " " + zv.Bool(s.IsPadding()) + " " + zv.Bool(s.IsSequenceStart()) + " " +
		strconv.FormatUint(uint64(s.SequenceLen()), 10) + " " + ver + " " + d.signer(signer) + " " + id
}

// blob renders a blob as a model record; chunk ids are the ids of the shares the blob splits into.
func (d *c11Dict) blob(b *libshare.Blob) string {
	shs, err := b.ToShares()
	if err != nil {
		panic(err)
	}
	ids := make([]string, len(shs))
	for i, s := range shs {
		ids[i] = strconv.FormatUint(d.id(s.ToBytes()), 10)
	}
	return "(mkBlob " + c11NsNum(b.Namespace().Bytes()) + " " + strconv.Itoa(int(b.ShareVersion())) + " " + d.signer(b.Signer()) + " " +
		strconv.Itoa(len(b.Data())) + " [" + strings.Join(ids, ";") + "]%N)"
}

func (d *c11Dict) rows(nd shwap.NamespaceData) string {
	rows := make([]string, len(nd))
	for i, row := range nd {
		shs := make([]string, len(row.Shares))
		for j, s := range row.Shares {
			shs[j] = d.share(s)
		}
		start := 0
		if row.Proof != nil {
			start = row.Proof.Start()
		}
		rows[i] = "(" + zv.Z(int64(start)) + ", [" + strings.Join(shs, "; ") + "])"
	}
	return "(GRows [" + strings.Join(rows, "; ") + "])"
}

func c11Ranges(h *header.ExtendedHeader) string {
	rs := make([]string, len(h.DAH.RowRoots))
	for i, root := range h.DAH.RowRoots {
		rs[i] = "(" + c11NsNum(root[:libshare.NamespaceSize]) + ", " + c11NsNum(root[libshare.NamespaceSize:2*libshare.NamespaceSize]) + ")"
	}
	return "[" + strings.Join(rs, "; ") + "]%N"
}

// ---------------------------------------------------------------- generators

func c11NsIDs(rng *zv.Rand, n int) [][]byte {
	seen := map[string]bool{}
	var ids [][]byte
	for len(ids) < n {
		id := make([]byte, libshare.NamespaceVersionZeroIDSize)
		switch rng.Intn(4) {
		case 0: // long random id
			copy(id, rng.Bytes(len(id)))
		default: // short id (keeps the Coq terms small); > 0xFF so that it is not a reserved namespace
			id[len(id)-2] = byte(1 + rng.Intn(200))
			id[len(id)-1] = byte(rng.Intn(256))
		}
		if seen[string(id)] {
			continue
		}
		seen[string(id)] = true
		ids = append(ids, id)
	}
	sort.Slice(ids, func(i, j int) bool { return bytes.Compare(ids[i], ids[j]) < 0 })
	return ids
}

// c11BlobSize picks a data size: one byte, share-capacity boundaries, a few shares, up to several rows of a k-wide square.
func c11BlobSize(rng *zv.Rand, k int, ver uint8) int {
	if n := c11BlobSize0(rng, k, ver); n >= 1 {
		return n
	}
	return 1
}

func c11BlobSize0(rng *zv.Rand, k int, ver uint8) int {
	first := libshare.FirstSparseShareContentSize
	if ver == 1 {
		first = libshare.FirstSparseShareContentSizeWithSigner
	}
	cont := libshare.ContinuationSparseShareContentSize
	switch rng.Intn(10) {
	case 0:
		return 1
	case 1:
		return 1 + rng.Intn(first)
	case 2: // exactly at / around the first-share capacity
		return first - 1 + rng.Intn(3)
	case 3: // exactly at / around a continuation boundary
		return first + cont*(1+rng.Intn(3)) - 1 + rng.Intn(3)
	case 4, 5: // several rows
		n := k + rng.Intn(3*k+1)
		return first + cont*(n-1) - rng.Intn(cont)
	default:
		n := 2 + rng.Intn(k+2)
		return first + cont*(n-1) - rng.Intn(cont)
	}
}

func c11RandBlob(rng *zv.Rand, nsCount, k int) c11BlobSpec {
	b := c11BlobSpec{Ns: rng.Intn(nsCount), Seed: rng.U64()}
	if rng.Chance(35) {
		b.Ver = 1
		b.Signer = uint64(rng.Intn(3))
	}
	b.Size = c11BlobSize(rng, k, b.Ver)
	b.Const = rng.Chance(15)
	return b
}

func c11GenBuilt(rng *zv.Rand) c11BlockSpec {
	k := zv.Pick(rng, []int{2, 4, 8, 8, 16, 16, 32})
	spec := c11BlockSpec{Kind: "built", MaxK: k, Threshold: zv.Pick(rng, []int{64, 64, 8, 2, 1})}
	nsCount := 1 + rng.Intn(2)
	if rng.Chance(40) {
		nsCount = 3 + rng.Intn(6)
	}
	spec.NsIDs = c11NsIDs(rng, nsCount)
	for i, n := 0, rng.Intn(4); i < n; i++ {
		spec.Txs = append(spec.Txs, c11TxSpec{Plain: 1 + rng.Intn(900), Seed: rng.U64()})
	}
	var prev []c11BlobSpec
	for i, n := 0, 1+rng.Intn(8); i < n; i++ {
		t := c11TxSpec{Seed: rng.U64()}
		for j, m := 0, 1+rng.Intn(3); j < m; j++ {
			var b c11BlobSpec
			if len(prev) > 0 && rng.Chance(25) {
				b = zv.Pick(rng, prev) // byte-identical duplicate
			} else {
				b = c11RandBlob(rng, nsCount, k)
			}
			prev = append(prev, b)
			t.Blobs = append(t.Blobs, b)
		}
		spec.Txs = append(spec.Txs, t)
	}
	return spec
}

// c11GenLayout: hand-placed namespace data: [filler of ns0] then items of ns 1.. with arbitrary padding runs.
func c11GenLayout(rng *zv.Rand) c11BlockSpec {
	k := zv.Pick(rng, []int{1, 2, 4, 4, 8, 8, 16})
	spec := c11BlockSpec{Kind: "layout", MaxK: k, Threshold: 64}
	nsCount := 2 + rng.Intn(3)
	spec.NsIDs = c11NsIDs(rng, nsCount)
	spec.Off = rng.Intn(2*k + 1)
	var prev []c11BlobSpec
	for ns := 1; ns < nsCount; ns++ {
		for i, n := 0, 1+rng.Intn(5); i < n; i++ {
			if rng.Chance(45) {
				spec.Items = append(spec.Items, c11Item{Ns: ns, Pad: 1 + rng.Intn(2*k+1), PadV: uint8(rng.Intn(2))})
				continue
			}
			var b c11BlobSpec
			if len(prev) > 0 && prev[len(prev)-1].Ns == ns && rng.Chance(25) {
				b = prev[len(prev)-1]
			} else {
				b = c11RandBlob(rng, nsCount, k)
				b.Ns = ns
			}
			prev = append(prev, b)
			bb := b
			spec.Items = append(spec.Items, c11Item{Ns: ns, Blob: &bb})
		}
	}
	return spec
}

// c11AbsentNamespaces: namespaces that hold no blob in the block: neighbours of present ones and a random one.
func c11AbsentNamespaces(rng *zv.Rand, blk *c11Block) []libshare.Namespace {
	present := map[string]bool{}
	for _, ns := range blk.nss {
		present[string(ns.Bytes())] = true
	}
	var out []libshare.Namespace
	add := func(id []byte) {
		ns, err := libshare.NewV0Namespace(id)
		if err != nil || present[string(ns.Bytes())] || ns.ValidateForBlob() != nil {
			return
		}
		present[string(ns.Bytes())] = true
		out = append(out, ns)
	}
	for _, id := range blk.spec.NsIDs {
		up := append([]byte{}, id...)
		up[len(up)-1]++
		add(up)
		down := append([]byte{}, id...)
		down[len(down)-1]--
		add(down)
	}
	add(rng.Bytes(libshare.NamespaceVersionZeroIDSize))
	if len(out) > 2 {
		i := rng.Intn(len(out) - 1)
		out = out[i : i+2]
	}
	return out
}

// c11ProofAt re-labels an nmt proof with another start (malformed-input stream).
func c11ProofAt(p *nmt.Proof, start int) *nmt.Proof {
	np := nmt.NewInclusionProof(start, start+(p.End()-p.Start()), p.Nodes(), p.IsMaxNamespaceIDIgnored())
	return &np
}

//go:build verif

package full

// C14, store side of Pruner.Prune (L3 oracle only; the pruner model treats Prune as an opaque call):
// an archival node's Prune removes only the parity quadrant and leaves the block fully servable (every sample of the
// extended square is still served, verifies against the roots and equals the original cell; the ODS shares are unchanged);
// a pruned node's Prune removes the block; pruning after the one-way archival -> pruned conversion removes what the
// archival prune had left; Prune is idempotent (the pruner may hand a height over twice: retry after a crash).

import (
	"bytes"
	"context"
	"fmt"
	"testing"

	"github.com/celestiaorg/rsmt2d"

	"github.com/celestiaorg/celestia-node/header/headertest"
	"github.com/celestiaorg/celestia-node/share"
	"github.com/celestiaorg/celestia-node/share/eds/edstest"
	"github.com/celestiaorg/celestia-node/share/shwap"
	"github.com/celestiaorg/celestia-node/store"
	zv "github.com/celestiaorg/celestia-node/zzverif"
)

func c14Servable(ctx context.Context, st *store.Store, height uint64, sq *rsmt2d.ExtendedDataSquare, roots *share.AxisRoots) error {
	acc, err := st.GetByHeight(ctx, height)
	if err != nil {
		return fmt.Errorf("GetByHeight: %w", err)
	}
	defer acc.Close()
	w := int(sq.Width())
	for i := 0; i < w; i++ {
		for j := 0; j < w; j++ {
			smpl, err := acc.Sample(ctx, shwap.SampleCoords{Row: i, Col: j})
			if err != nil {
				return fmt.Errorf("sample (%d,%d): %w", i, j, err)
			}
			if err := smpl.Verify(roots, i, j); err != nil {
				return fmt.Errorf("sample (%d,%d) does not verify: %w", i, j, err)
			}
			if !bytes.Equal(smpl.Share.ToBytes(), sq.GetCell(uint(i), uint(j))) {
				return fmt.Errorf("sample (%d,%d) differs from the stored square", i, j)
			}
		}
	}
	shrs, err := acc.Shares(ctx)
	if err != nil {
		return fmt.Errorf("Shares: %w", err)
	}
	ods := w / 2
	if len(shrs) != ods*ods {
		return fmt.Errorf("Shares: %d shares, want %d", len(shrs), ods*ods)
	}
	for k, s := range shrs {
		if !bytes.Equal(s.ToBytes(), sq.GetCell(uint(k/ods), uint(k%ods))) {
			return fmt.Errorf("ODS share %d differs", k)
		}
	}
	return nil
}

func TestVerifC14Full(t *testing.T) {
	r := zv.Start(t, "C14")
	defer r.Finish()
	ctx := context.Background()
	st, err := store.NewStore(store.DefaultParameters(), t.TempDir())
	if err != nil {
		t.Fatal(err)
	}
	archival := NewShareAvailability(st, nil, WithArchivalMode())
	pruned := NewShareAvailability(st, nil)
	rng := r.Rand()
	height := uint64(10)
	n := 0
	for it := 0; it < r.N(12, 200); it++ {
		size := zv.Pick(rng, []int{1, 2, 4, 8})
		sq := edstest.RandEDS(t, size)
		roots, err := share.NewAxisRoots(sq)
		if err != nil {
			t.Fatal(err)
		}
		height++
		eh := headertest.RandExtendedHeaderWithRoot(t, roots)
		eh.RawHeader.Height = int64(height)
		if err := st.PutODSQ4(ctx, roots, height, sq); err != nil {
			t.Fatal(err)
		}
		replay := map[string]any{"ods_size": size, "height": height, "seed": r.Seed}
		mode := rng.Intn(3) // 0 archival, 1 pruned, 2 archival then converted to pruned
		r.Count("store_mode", []string{"archival", "pruned", "archival-then-pruned"}[mode])
		if mode != 1 {
			for rep := 0; rep < 2; rep++ { // twice: Prune is idempotent
				if err := archival.Prune(ctx, eh); err != nil {
					r.Violation("archival-prune-error", fmt.Sprintf("archival Prune (call %d) of height %d failed: %v", rep+1, height, err), replay)
				}
				if q4, _ := st.HasQ4ByHash(ctx, roots.Hash()); q4 {
					r.Violation("archival-prune-keeps-q4", fmt.Sprintf("after an archival Prune the parity quadrant file of height %d is still there", height), replay)
				}
				if has, _ := st.HasByHeight(ctx, height); !has {
					r.Violation("archival-prune-removes-ods", fmt.Sprintf("after an archival Prune height %d is gone from the store", height), replay)
				} else if err := c14Servable(ctx, st, height, sq, roots); err != nil {
					r.Violation("archival-prune-not-servable", fmt.Sprintf("after an archival Prune height %d (ods %d) is not fully servable: %v", height, size, err), replay)
				}
			}
		}
		if mode != 0 {
			for rep := 0; rep < 2; rep++ {
				if err := pruned.Prune(ctx, eh); err != nil {
					r.Violation("prune-error", fmt.Sprintf("Prune (call %d) of height %d failed: %v", rep+1, height, err), replay)
				}
				hasH, _ := st.HasByHeight(ctx, height)
				hasD, _ := st.HasByHash(ctx, roots.Hash())
				hasQ, _ := st.HasQ4ByHash(ctx, roots.Hash())
				if hasH || hasD || hasQ {
					r.Violation("prune-leaves-data", fmt.Sprintf("after Prune height %d is still stored (by height %v, by hash %v, q4 %v)", height, hasH, hasD, hasQ), replay)
				}
			}
		}
		n++
	}
	r.Set("store_prune_scenarios", n)
}

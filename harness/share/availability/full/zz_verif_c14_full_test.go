//go:build verif

package full

// C14, store side of Pruner.Prune (L3 oracle only; the pruner model treats Prune as an opaque call):
// an archival node's Prune removes only the parity quadrant and leaves the block fully servable (every sample of the
// extended square is still served, verifies against the roots and equals the original cell; the ODS shares are unchanged);
// a pruned node's Prune removes the block; pruning after the one-way archival -> pruned conversion removes what the
// archival prune had left; Prune is idempotent (the pruner may hand a height over twice: retry after a crash).

import (
	"bytes"
	"context"
	"fmt"
	"os"
	"path/filepath"
	"strconv"
	"testing"

	"github.com/celestiaorg/rsmt2d"

	"github.com/celestiaorg/celestia-node/header/headertest"
	"github.com/celestiaorg/celestia-node/share"
	"github.com/celestiaorg/celestia-node/share/eds/edstest"
	"github.com/celestiaorg/celestia-node/share/shwap"
	"github.com/celestiaorg/celestia-node/store"
	zv "github.com/celestiaorg/celestia-node/zzverif"
)

func c14Servable(ctx context.Context, st *store.Store, height uint64, sq *rsmt2d.ExtendedDataSquare, roots *share.AxisRoots) error {
	acc, err := st.GetByHeight(ctx, height)
	if err != nil {
		return fmt.Errorf("GetByHeight: %w", err)
	}
	defer acc.Close()
	w := int(sq.Width())
	for i := 0; i < w; i++ {
		for j := 0; j < w; j++ {
			smpl, err := acc.Sample(ctx, shwap.SampleCoords{Row: i, Col: j})
			if err != nil {
				return fmt.Errorf("sample (%d,%d): %w", i, j, err)
			}
			if err := smpl.Verify(roots, i, j); err != nil {
				return fmt.Errorf("sample (%d,%d) does not verify: %w", i, j, err)
			}
			if !bytes.Equal(smpl.Share.ToBytes(), sq.GetCell(uint(i), uint(j))) {
				return fmt.Errorf("sample (%d,%d) differs from the stored square", i, j)
			}
		}
	}
	shrs, err := acc.Shares(ctx)
	if err != nil {
		return fmt.Errorf("Shares: %w", err)
	}
	ods := w / 2
	if len(shrs) != ods*ods {
		return fmt.Errorf("Shares: %d shares, want %d", len(shrs), ods*ods)
	}
	for k, s := range shrs {
		if !bytes.Equal(s.ToBytes(), sq.GetCell(uint(k/ods), uint(k%ods))) {
			return fmt.Errorf("ODS share %d differs", k)
		}
	}
	return nil
}

func TestVerifC14Full(t *testing.T) {
	r := zv.Start(t, "C14")
	defer r.Finish()
	ctx := context.Background()
	st, err := store.NewStore(store.DefaultParameters(), t.TempDir())
	if err != nil {
		t.Fatal(err)
	}
	archival := NewShareAvailability(st, nil, WithArchivalMode())
	pruned := NewShareAvailability(st, nil)
	rng := r.Rand()
	height := uint64(10)
	n := 0
	for it := 0; it < r.N(12, 200); it++ {
		size := zv.Pick(rng, []int{1, 2, 4, 8})
		sq := edstest.RandEDS(t, size)
		roots, err := share.NewAxisRoots(sq)
		if err != nil {
			t.Fatal(err)
		}
		height++
		eh := headertest.RandExtendedHeaderWithRoot(t, roots)
		eh.RawHeader.Height = int64(height)
		if err := st.PutODSQ4(ctx, roots, height, sq); err != nil {
			t.Fatal(err)
		}
		replay := map[string]any{"ods_size": size, "height": height, "seed": r.Seed}
		mode := rng.Intn(3) // 0 archival, 1 pruned, 2 archival then converted to pruned
		r.Count("store_mode", []string{"archival", "pruned", "archival-then-pruned"}[mode])
		if mode != 1 {
			for rep := 0; rep < 2; rep++ { // twice: Prune is idempotent
				if err := archival.Prune(ctx, eh); err != nil {
					r.Violation("archival-prune-error", fmt.Sprintf("archival Prune (call %d) of height %d failed: %v", rep+1, height, err), replay)
				}
				if q4, _ := st.HasQ4ByHash(ctx, roots.Hash()); q4 {
					r.Violation("archival-prune-keeps-q4", fmt.Sprintf("after an archival Prune the parity quadrant file of height %d is still there", height), replay)
				}
				if has, _ := st.HasByHeight(ctx, height); !has {
					r.Violation("archival-prune-removes-ods", fmt.Sprintf("after an archival Prune height %d is gone from the store", height), replay)
				} else if err := c14Servable(ctx, st, height, sq, roots); err != nil {
					r.Violation("archival-prune-not-servable", fmt.Sprintf("after an archival Prune height %d (ods %d) is not fully servable: %v", height, size, err), replay)
				}
			}
		}
		if mode != 0 {
			for rep := 0; rep < 2; rep++ {
				if err := pruned.Prune(ctx, eh); err != nil {
					r.Violation("prune-error", fmt.Sprintf("Prune (call %d) of height %d failed: %v", rep+1, height, err), replay)
				}
				hasH, _ := st.HasByHeight(ctx, height)
				hasD, _ := st.HasByHash(ctx, roots.Hash())
				hasQ, _ := st.HasQ4ByHash(ctx, roots.Hash())
				if hasH || hasD || hasQ {
					r.Violation("prune-leaves-data", fmt.Sprintf("after Prune height %d is still stored (by height %v, by hash %v, q4 %v)", height, hasH, hasD, hasQ), replay)
				}
			}
		}
		n++
	}
	r.Set("store_prune_scenarios", n)
	c14Partial(t, r)
}

// c14Partial: Prune must be repeatable. RemoveODSQ4 takes a block away in steps (recent-cache entry, heights/<h>.ods link,
// blocks/<hash>.ods, blocks/<hash>.q4); the pruner service writes its checkpoint only after a batch (a crash replays the batch after
// the restart), retries failed heights and forgets a height for good on a nil verdict. So for every state a crash / a failed step /
// an interrupted put can leave on disk, the next Prune of that header has to remove whatever is left (pruned mode: nothing of the
// block stays; archival mode: no parity quadrant stays, a complete ODS + link stays servable) or say that it could not.
func c14Partial(t *testing.T, r *zv.Run) {
	ctx := context.Background()
	rng := r.Rand()
	type state struct {
		name                string
		q4put               bool // stored with PutODSQ4 (else PutODS: an out-of-window block of an archival node)
		rmLink, rmODS, rmQ4 bool // what is already gone when Prune is called
		faultQ4             bool // the Q4 removal fails once (the path is a non-empty directory), then heals
	}
	states := []state{
		{name: "complete", q4put: true},
		{name: "complete-ods-only"},
		{name: "link-removed", q4put: true, rmLink: true},                         // crash after the link removal / put died before linkHeight
		{name: "link-removed-ods-only", rmLink: true},                             // PutODS died before linkHeight
		{name: "link-ods-removed", q4put: true, rmLink: true, rmODS: true},        // crash between removeODS and removeQ4
		{name: "q4-removed", q4put: true, rmQ4: true},                             // archival prune done, then converted to pruned
		{name: "link-q4-removed", q4put: true, rmLink: true, rmQ4: true},          // archival prune, then a pruned Prune died after the link
		{name: "all-removed", q4put: true, rmLink: true, rmODS: true, rmQ4: true}, // the whole Prune replayed
		{name: "q4-removal-fails-once", q4put: true, faultQ4: true},
		{name: "link-removed-q4-removal-fails-once", q4put: true, rmLink: true, faultQ4: true},
	}
	lexists := func(p string) bool { _, err := os.Lstat(p); return err == nil }
	height := uint64(1000)
	n := 0
	for rep := 0; rep < r.N(1, 6); rep++ {
		for _, sc := range states {
			for _, archival := range []bool{false, true} {
				for _, restart := range []bool{true, false} {
					size := zv.Pick(rng, []int{1, 2, 4})
					dir := t.TempDir()
					st, err := store.NewStore(store.DefaultParameters(), dir)
					if err != nil {
						t.Fatal(err)
					}
					sq := edstest.RandEDS(t, size)
					roots, err := share.NewAxisRoots(sq)
					if err != nil {
						t.Fatal(err)
					}
					height++
					eh := headertest.RandExtendedHeaderWithRoot(t, roots)
					eh.RawHeader.Height = int64(height)
					if sc.q4put {
						err = st.PutODSQ4(ctx, roots, height, sq)
					} else {
						err = st.PutODS(ctx, roots, height, sq)
					}
					if err != nil {
						t.Fatal(err)
					}
					hash := share.DataHash(roots.Hash()).String()
					pODS := filepath.Join(dir, "blocks", hash+".ods")
					pQ4 := filepath.Join(dir, "blocks", hash+".q4")
					pLink := filepath.Join(dir, "blocks", "heights", strconv.FormatUint(height, 10)+".ods")
					if !lexists(pODS) || !lexists(pLink) || lexists(pQ4) != sc.q4put {
						t.Fatalf("store layout differs from what the harness assumes (ods %v link %v q4 %v)", lexists(pODS), lexists(pLink), lexists(pQ4))
					}
					rm := func(p string) {
						if err := os.Remove(p); err != nil {
							t.Fatal(err)
						}
					}
					if sc.rmLink {
						rm(pLink)
					}
					if sc.rmODS {
						rm(pODS)
					}
					if sc.rmQ4 {
						rm(pQ4)
					}
					var q4bytes []byte
					if sc.faultQ4 {
						if q4bytes, err = os.ReadFile(pQ4); err != nil {
							t.Fatal(err)
						}
						rm(pQ4)
						if err := os.Mkdir(pQ4, 0o755); err != nil {
							t.Fatal(err)
						}
						if err := os.WriteFile(filepath.Join(pQ4, "busy"), []byte{1}, 0o600); err != nil {
							t.Fatal(err)
						}
					}
					if restart {
						_ = st.Stop(ctx)
						if st, err = store.NewStore(store.DefaultParameters(), dir); err != nil {
							t.Fatal(err)
						}
					}
					var fa *ShareAvailability
					if archival {
						fa = NewShareAvailability(st, nil, WithArchivalMode())
					} else {
						fa = NewShareAvailability(st, nil)
					}
					mode := "pruned"
					if archival {
						mode = "archival"
					}
					replay := map[string]any{"state": sc.name, "mode": mode, "restart": restart, "ods_size": size, "height": height, "seed": r.Seed}
					r.Count("partial_state", sc.name+"/"+mode)
					what := fmt.Sprintf("%s Prune of height %d in state %q (restart %v)", mode, height, sc.name, restart)
					complete := !sc.rmLink && !sc.rmODS
					left := func() string {
						s := ""
						if lexists(pLink) {
							s += " heights/<h>.ods"
						}
						if lexists(pODS) {
							s += " blocks/<hash>.ods"
						}
						if lexists(pQ4) {
							s += " blocks/<hash>.q4"
						}
						return s
					}
					check := func(call string) {
						if archival {
							if lexists(pQ4) {
								r.Violation("full-prune-leaves-files", fmt.Sprintf("%s (%s) returned nil but the parity quadrant file is still on disk:%s", what, call, left()), replay)
							}
							if complete {
								if !lexists(pODS) || !lexists(pLink) {
									r.Violation("archival-prune-removes-ods", fmt.Sprintf("%s (%s) removed the ODS of a complete block; left:%s", what, call, left()), replay)
								} else if err := c14Servable(ctx, st, height, sq, roots); err != nil {
									r.Violation("archival-prune-not-servable", fmt.Sprintf("after %s (%s) the block is not fully servable: %v", what, call, err), replay)
								}
							}
							return
						}
						if l := left(); l != "" {
							r.Violation("full-prune-leaves-files", fmt.Sprintf("%s (%s) returned nil but files of the block are still on disk:%s", what, call, l), replay)
						}
						hasH, _ := st.HasByHeight(ctx, height)
						hasD, _ := st.HasByHash(ctx, roots.Hash())
						hasQ, _ := st.HasQ4ByHash(ctx, roots.Hash())
						if hasH || hasD || hasQ {
							r.Violation("prune-leaves-data", fmt.Sprintf("after %s (%s) the block is still stored (by height %v, by hash %v, q4 %v)", what, call, hasH, hasD, hasQ), replay)
						}
					}
					err = fa.Prune(ctx, eh)
					if sc.faultQ4 {
						if err == nil {
							r.Violation("full-prune-hides-failure", fmt.Sprintf("%s returned nil although the parity quadrant could not be removed (the pruner forgets the height); left:%s", what, left()), replay)
						}
						// the fault heals; the pruner service retries the failed height
						if err := os.RemoveAll(pQ4); err != nil {
							t.Fatal(err)
						}
						if err := os.WriteFile(pQ4, q4bytes, 0o600); err != nil {
							t.Fatal(err)
						}
						if err := fa.Prune(ctx, eh); err != nil {
							r.Violation("full-prune-retry-error", fmt.Sprintf("retry of %s after the fault healed failed: %v", what, err), replay)
						} else {
							check("retry after the failed Q4 removal")
						}
					} else if err != nil {
						r.Violation("full-prune-partial-error", fmt.Sprintf("%s failed without any fault: %v", what, err), replay)
					} else {
						check("first call")
					}
					if err := fa.Prune(ctx, eh); err != nil { // handed over once more (batch replayed): still nil, still clean
						r.Violation("full-prune-partial-error", fmt.Sprintf("repeated %s failed: %v", what, err), replay)
					} else {
						check("repeated call")
					}
					_ = st.Stop(ctx)
					n++
				}
			}
		}
	}
	r.Set("store_partial_prune_scenarios", n)
}

//go:build verif

package light

// C03 correspondence + oracle harness (see /verif/DESIGN.md, C03; model: /verif/coq/theories/Light/Sampling.v).
//
// The REAL ShareAvailability runs over a scripted shwap.Getter (every GetSamples call blocks until the harness answers it with a
// scripted slice/error), an in-memory datastore shared by all instances of one scenario (an instance that "crashed" can no longer
// write to it) and a scripted crypto/rand.Reader (so that the bytes consumed by selectRandomSamples are an input of the model).
//
// L2: every scenario = a history of coarse events (call / wake / getter answer / context abort / crash / restart) with what the
//     implementation was observed to do (blocked | coordinates handed to the getter | verdict class; durable JSON per root).
//     Coq re-runs the model on the same history (CN.Light.Sampling.mismatches). Every fresh draw is a second kind of case
//     (CN.Light.Sampling.draw_mismatches): same bytes => same coordinate set, all bytes consumed.
// L3: an independent ground-truth oracle (no model): success only when every coordinate of the FIRST draw for that root was
//     served non-empty at its own position by a contract-abiding answer; the coordinates requested for a root never change
//     (retries, concurrent calls, crash/restart); at most one call per height inside the getter; no panic.
//
// Datastore faults: the datastore handed to every instance is a scripted wrapper (c03DS) around the shared in-memory map. It sees
// every child operation autobatch issues on behalf of a call (Get; Batch, batch.Put, batch.Commit of a Flush) together with the
// context of that call, and (a) fails the n-th operation of one kind of one call with an I/O error when armed, (b) in "context
// aware" scenarios refuses every operation whose context is already done with ctx.Err() (what a datastore that honours contexts
// does). What failed is OBSERVED (operation log per call) and handed to the model as CfLoad / CfStore; the oracle checks: a call
// whose load failed returns an error, never reaches the getter and leaves the durable result exactly as it was; a call whose store
// failed returns an error; afterwards the coordinates requested for the root are still coordinates of the first draw and contain
// every coordinate that was never served.

import (
	"context"
	crand "crypto/rand"
	"encoding/json"
	"errors"
	"fmt"
	"io"
	"math"
	"os"
	"runtime"
	"sort"
	"strings"
	"sync"
	"sync/atomic"
	"testing"
	"time"

	"github.com/ipfs/go-datastore"
	ds_sync "github.com/ipfs/go-datastore/sync"

	libshare "github.com/celestiaorg/go-square/v4/share"
	"github.com/celestiaorg/nmt"
	"github.com/celestiaorg/rsmt2d"

	"github.com/celestiaorg/celestia-node/header"
	"github.com/celestiaorg/celestia-node/share"
	"github.com/celestiaorg/celestia-node/share/availability"
	"github.com/celestiaorg/celestia-node/share/shwap"
	zv "github.com/celestiaorg/celestia-node/zzverif"
)

const c03Header = `From Coq Require Import List ZArith NArith.
From CN Require Import Light.Map Light.Sampling.
Import ListNotations.
Open Scope Z_scope.
`

// ---------------------------------------------------------------- scenario description (self-contained, replayable)

type c03Coord [2]int // row, col

type c03Hdr struct {
	Height uint64 `json:"height"`
	Root   int    `json:"root"` // identifies the data root (same Root => same DAH bytes => same datastore key)
	W      int    `json:"w"`    // len(RowRoots)
	Empty  bool   `json:"empty,omitempty"`
	InWin  bool   `json:"in_window"`
}

type c03Resp struct {
	Slots []int  `json:"slots"`         // per returned slot: 0 empty, 1 non-empty (verified by the getter), 2 non-empty but NOT verified
	Nil   bool   `json:"nil,omitempty"` // return a nil slice
	Err   string `json:"err,omitempty"` // "", canceled, deadline, other
}

// c03Fault arms the datastore: the Nth child operation of kind Op issued on behalf of call T during this op fails with an I/O error
type c03Fault struct {
	Op  string `json:"op"` // get | batch | bput | commit
	Nth int    `json:"nth"`
}

type c03Op struct {
	Kind      string    `json:"k"` // call | resp | abort | cancel | crash | restart
	T         int       `json:"t,omitempty"`
	H         int       `json:"h,omitempty"`  // call: header index
	PreCancel bool      `json:"pc,omitempty"` // call: context already cancelled
	Deadline  bool      `json:"dl,omitempty"` // call: context carries a (far) deadline
	Resp      *c03Resp  `json:"r,omitempty"`
	AbortErr  string    `json:"ae,omitempty"` // abort (waiting call) / cancel (call inside the getter): canceled | deadline
	Count     int       `json:"n,omitempty"`  // crash/restart: SampleAmount of the new instance
	Fault     *c03Fault `json:"f,omitempty"`  // call / resp: datastore fault armed for call T
}

type c03Scenario struct {
	Name     string   `json:"name"`
	Count    int      `json:"count"`
	Batch    int      `json:"batch"`
	RandSeed uint64   `json:"rand_seed"`
	CtxAware bool     `json:"ctx_aware,omitempty"` // the datastore refuses operations whose context is done
	Hdrs     []c03Hdr `json:"hdrs"`
	Ops      []c03Op  `json:"ops"`
}

// ---------------------------------------------------------------- scripted crypto/rand.Reader

type c03Reader struct {
	mu  sync.Mutex
	rng *zv.Rand
	log []byte
}

func (r *c03Reader) Read(p []byte) (int, error) {
	r.mu.Lock()
	defer r.mu.Unlock()
	for i := range p {
		p[i] = byte(r.rng.U64() >> 17)
	}
	r.log = append(r.log, p...)
	return len(p), nil
}

func (r *c03Reader) mark() []byte {
	r.mu.Lock()
	defer r.mu.Unlock()
	b := r.log
	r.log = nil
	return b
}

// ---------------------------------------------------------------- controllable context

type c03Ctx struct {
	done     chan struct{}
	once     sync.Once
	mu       sync.Mutex
	err      error
	deadline bool
	vals     *c03Thread
}

type c03Key struct{}

func (c *c03Ctx) Deadline() (time.Time, bool) {
	if c.deadline {
		return time.Now().Add(24 * time.Hour), true
	}
	return time.Time{}, false
}
func (c *c03Ctx) Done() <-chan struct{} { return c.done }
func (c *c03Ctx) Err() error {
	c.mu.Lock()
	defer c.mu.Unlock()
	return c.err
}
func (c *c03Ctx) Value(k any) any {
	if _, ok := k.(c03Key); ok {
		return c.vals
	}
	return nil
}
func (c *c03Ctx) finish(err error) {
	c.once.Do(func() {
		c.mu.Lock()
		c.err = err
		c.mu.Unlock()
		close(c.done)
	})
}

// ---------------------------------------------------------------- datastore of one instance (dies with the instance; scripted faults)

type c03DS struct {
	datastore.Batching
	dead *atomic.Bool
	w    *c03World
}

var (
	errC03Dead = errors.New("c03: instance crashed")
	errC03IO   = errors.New("c03: scripted datastore i/o error")
)

// one child operation issued on behalf of a call: what, and how it failed ("" = it did not)
type c03DSEv struct {
	Op    string
	Class string // "", other (armed I/O error), canceled, deadline (context-aware datastore, context done)
}

// fault decides whether child operation op, issued with ctx, fails; it logs the operation with the call it belongs to.
func (d *c03DS) fault(ctx context.Context, op string) error {
	th, _ := ctx.Value(c03Key{}).(*c03Thread)
	if th == nil {
		return nil // Close, the harness itself
	}
	w := d.w
	w.mu.Lock()
	defer w.mu.Unlock()
	if w.sc.CtxAware {
		if err := ctx.Err(); err != nil {
			cl := "canceled"
			if errors.Is(err, context.DeadlineExceeded) {
				cl = "deadline"
			}
			th.dslog = append(th.dslog, c03DSEv{op, cl})
			return err
		}
	}
	th.opN[op]++
	if a := th.arm; a != nil && a.Op == op && th.opN[op] == a.Nth {
		th.arm = nil
		th.dslog = append(th.dslog, c03DSEv{op, "other"})
		return errC03IO
	}
	th.dslog = append(th.dslog, c03DSEv{op, ""})
	return nil
}

func (d *c03DS) Get(ctx context.Context, k datastore.Key) ([]byte, error) {
	if err := d.fault(ctx, "get"); err != nil {
		return nil, err
	}
	return d.Batching.Get(ctx, k)
}

func (d *c03DS) Put(ctx context.Context, k datastore.Key, v []byte) error {
	if d.dead.Load() {
		return errC03Dead
	}
	if err := d.fault(ctx, "put"); err != nil {
		return err
	}
	return d.Batching.Put(ctx, k, v)
}

func (d *c03DS) Delete(ctx context.Context, k datastore.Key) error {
	if d.dead.Load() {
		return errC03Dead
	}
	return d.Batching.Delete(ctx, k)
}

type c03Batch struct {
	datastore.Batch
	d *c03DS
}

func (b *c03Batch) Put(ctx context.Context, k datastore.Key, v []byte) error {
	if err := b.d.fault(ctx, "bput"); err != nil {
		return err
	}
	return b.Batch.Put(ctx, k, v)
}

// Commit fails as a whole: a failed commit writes nothing.
func (b *c03Batch) Commit(ctx context.Context) error {
	if b.d.dead.Load() {
		return errC03Dead
	}
	if err := b.d.fault(ctx, "commit"); err != nil {
		return err
	}
	return b.Batch.Commit(ctx)
}

func (d *c03DS) Batch(ctx context.Context) (datastore.Batch, error) {
	if err := d.fault(ctx, "batch"); err != nil {
		return nil, err
	}
	b, err := d.Batching.Batch(ctx)
	if err != nil {
		return nil, err
	}
	return &c03Batch{Batch: b, d: d}, nil
}

// c03ObservedFault reads the operation log of one call over one coarse event: the first failed operation decides.
// kind: "" | load | store; point (store): SfEarly (first flush, before the buffer is emptied) | SfCommit (first flush, commit) |
// SfSecond (a later flush).
func c03ObservedFault(log []c03DSEv) (kind, point, class string) {
	flush := 0
	for _, ev := range log {
		if ev.Op == "batch" {
			flush++
		}
		if ev.Class == "" {
			continue
		}
		switch {
		case ev.Op == "get":
			return "load", "", ev.Class
		case flush >= 2:
			return "store", "SfSecond", ev.Class
		case ev.Op == "commit":
			return "store", "SfCommit", ev.Class
		}
		return "store", "SfEarly", ev.Class
	}
	return "", "", ""
}

// ---------------------------------------------------------------- world = real code + schedule control + ground truth

const (
	c03Running = iota
	c03InGetter
	c03Returned
)

type c03Thread struct {
	id      int
	h       int
	ctx     *c03Ctx
	state   int
	coords  []c03Coord
	verdict string
	respCh  chan c03Resp
	entered bool // a getter entry not yet processed by the main goroutine
	blocked bool // as last reported
	w       *c03World

	// datastore: armed fault, operation counters and operation log of the current coarse event (guarded by w.mu)
	arm   *c03Fault
	opN   map[string]int
	dslog []c03DSEv
}

type c03Truth struct {
	first      []c03Coord
	firstSet   map[c03Coord]bool
	pending    map[c03Coord]bool
	tainted    bool // a contract-violating answer (short/long/unverified) was scripted for this root: no oracle afterwards
	sinceCrash bool
	sinceRest  bool
	sinceEmpty bool
	stored     bool // an answer with at least one slot was processed: the code has written a result for this root
	drawCount  int
	storeFault bool // a store for this root failed: what was served need not be recorded; requests may repeat served coordinates
}

type c03World struct {
	r    *zv.Run
	sc   *c03Scenario
	rd   *c03Reader
	base datastore.Batching
	la   *ShareAvailability
	dead *atomic.Bool
	hdrs []*header.ExtendedHeader

	mu      sync.Mutex
	threads map[int]*c03Thread
	count   int

	terms    []string
	trace    []any
	truth    map[int]*c03Truth
	draws    *zv.Group
	viol     func(sig, desc string)
	nViol    int
	features map[string]int
	broken   string

	lastPersist map[int]string
	drop        bool // the tree under test drops a failed write from the write buffer (fix-c03-3), probed on the real code
}

// GetSamples is the scripted getter: it parks the call until the harness answers it.
func (w *c03World) GetSamples(ctx context.Context, _ *header.ExtendedHeader, idxs []shwap.SampleCoords) ([]shwap.Sample, error) {
	th, _ := ctx.Value(c03Key{}).(*c03Thread)
	if th == nil {
		panic("c03: getter called without thread")
	}
	cs := make([]c03Coord, len(idxs))
	for i, x := range idxs {
		cs[i] = c03Coord{x.Row, x.Col}
	}
	w.mu.Lock()
	th.coords = cs
	th.state = c03InGetter
	th.entered = true
	w.mu.Unlock()
	resp := <-th.respCh
	w.mu.Lock()
	th.state = c03Running
	w.mu.Unlock()
	var err error
	switch resp.Err {
	case "canceled":
		err = fmt.Errorf("scripted getter: %w", context.Canceled)
	case "deadline":
		err = fmt.Errorf("scripted getter: %w", context.DeadlineExceeded)
	case "other":
		err = errors.New("scripted getter: not found")
	}
	if resp.Nil {
		return nil, err
	}
	out := make([]shwap.Sample, len(resp.Slots))
	for i, k := range resp.Slots {
		if k != 0 {
			out[i] = shwap.Sample{Proof: &nmt.Proof{}}
		}
	}
	return out, err
}

func (w *c03World) GetEDS(context.Context, *header.ExtendedHeader) (*rsmt2d.ExtendedDataSquare, error) {
	panic("not used")
}
func (w *c03World) GetRow(context.Context, *header.ExtendedHeader, int) (shwap.Row, error) {
	panic("not used")
}
func (w *c03World) GetNamespaceData(context.Context, *header.ExtendedHeader, libshare.Namespace) (shwap.NamespaceData, error) {
	panic("not used")
}
func (w *c03World) GetRangeNamespaceData(context.Context, *header.ExtendedHeader, int, int) (shwap.RangeNamespaceData, error) {
	panic("not used")
}

func c03MakeHeader(h c03Hdr) *header.ExtendedHeader {
	var dah *share.AxisRoots
	if h.Empty {
		dah = share.EmptyEDSRoots()
	} else {
		dah = &share.AxisRoots{RowRoots: make([][]byte, h.W), ColumnRoots: make([][]byte, h.W)}
		for i := 0; i < h.W; i++ {
			row := make([]byte, 90)
			col := make([]byte, 90)
			row[0], row[1], row[2], row[3] = byte(h.Root), byte(h.Root>>8), 1, byte(i)
			col[0], col[1], col[2], col[3] = byte(h.Root), byte(h.Root>>8), 2, byte(i)
			dah.RowRoots[i], dah.ColumnRoots[i] = row, col
		}
	}
	dah.Hash() // memoise before any concurrent use
	t := time.Now()
	if !h.InWin {
		t = t.Add(-availability.SamplingWindow - 24*time.Hour)
	}
	return &header.ExtendedHeader{RawHeader: header.RawHeader{Height: int64(h.Height), Time: t}, DAH: dah}
}

func (w *c03World) newInstance(count int) {
	w.dead = &atomic.Bool{}
	w.count = count
	w.threads = map[int]*c03Thread{}
	w.la = NewShareAvailability(w, &c03DS{Batching: w.base, dead: w.dead, w: w}, nil, WithSampleAmount(uint(count)))
}

func c03Classify(err error) string {
	switch {
	case err == nil:
		return "VOk"
	case errors.Is(err, share.ErrNotAvailable):
		return "VNotAvailable"
	case errors.Is(err, context.Canceled):
		return "VCanceled"
	case errors.Is(err, context.DeadlineExceeded):
		return "VDeadline"
	case errors.Is(err, availability.ErrOutsideSamplingWindow):
		return "VOutside"
	}
	return "VErr"
}

// blockedInSession counts goroutines parked in the select of utils.(*Sessions).StartSession (consistent snapshot).
func c03BlockedInSession() int {
	buf := make([]byte, 1<<20)
	for {
		n := runtime.Stack(buf, true)
		if n < len(buf) {
			buf = buf[:n]
			break
		}
		buf = make([]byte, 2*len(buf))
	}
	cnt := 0
	for _, g := range strings.Split(string(buf), "\n\n") {
		nl := strings.IndexByte(g, '\n')
		if nl < 0 {
			continue
		}
		if strings.Contains(g[:nl], "[select") && strings.Contains(g, "utils.(*Sessions).StartSession") {
			cnt++
		}
	}
	return cnt
}

// settle blocks until every started call of the running instance is parked: returned, inside the getter, or waiting for
// its session. It relies on events only (goroutine states), never on elapsed time.
func (w *c03World) settle() {
	start := time.Now()
	for i := 0; ; i++ {
		un := w.unaccounted()
		if un == 0 {
			return
		}
		if c03BlockedInSession() == un && w.unaccounted() == un {
			return
		}
		if i < 20 {
			runtime.Gosched()
		} else {
			time.Sleep(50 * time.Microsecond)
		}
		if time.Since(start) > 60*time.Second {
			w.broken = "settle timed out"
			return
		}
	}
}

func (w *c03World) unaccounted() int {
	w.mu.Lock()
	defer w.mu.Unlock()
	n := 0
	for _, th := range w.threads {
		if th.state == c03Running {
			n++
		}
	}
	return n
}

// ---------------------------------------------------------------- Coq emitters

func c03Coords(cs []c03Coord) string {
	xs := make([]string, len(cs))
	for i, c := range cs {
		xs[i] = fmt.Sprintf("(%d,%d)", c[0], c[1])
	}
	return "[" + strings.Join(xs, ";") + "]"
}

func c03HdrTerm(h c03Hdr) string {
	return zv.App("mkhdr", zv.N(h.Height), zv.N(uint64(h.Root)), zv.Z(int64(h.W)), zv.Bool(h.Empty), zv.Bool(h.InWin))
}

func (w *c03World) obsOf(th *c03Thread) (string, any) {
	switch th.state {
	case c03InGetter:
		return "(OInGetter " + c03Coords(th.coords) + ")", map[string]any{"in_getter": th.coords}
	case c03Returned:
		return "(OReturned " + th.verdict + ")", map[string]any{"returned": th.verdict}
	}
	return "OBlocked", "blocked"
}

func c03RespTerm(r c03Resp) string {
	xs := []string{}
	if !r.Nil {
		for _, k := range r.Slots {
			switch k {
			case 0:
				xs = append(xs, "E")
			case 1:
				xs = append(xs, "F")
			default:
				xs = append(xs, "U")
			}
		}
	}
	e := map[string]string{"": "ENone", "canceled": "ECanceled", "deadline": "EDeadline", "other": "EOther"}[r.Err]
	return "(mkresp [" + strings.Join(xs, ";") + "] " + e + ")"
}

func (w *c03World) emit(term string, js any) {
	w.terms = append(w.terms, term)
	w.trace = append(w.trace, js)
}

// persisted reads the DURABLE datastore (what a fresh process would see).
func (w *c03World) persisted(h int) (*SamplingResult, bool) {
	key := samplingResultsPrefix.Child(datastoreKeyForRoot(w.hdrs[h].DAH))
	data, err := w.base.Get(context.Background(), key)
	if err != nil {
		return nil, false
	}
	var res SamplingResult
	if err := json.Unmarshal(data, &res); err != nil {
		w.broken = "persisted JSON does not parse: " + err.Error()
		return nil, false
	}
	return &res, true
}

func c03FromSC(xs []shwap.SampleCoords) []c03Coord {
	out := make([]c03Coord, len(xs))
	for i, x := range xs {
		out[i] = c03Coord{x.Row, x.Col}
	}
	return out
}

// emitPersist records the durable content of every root whose content changed since it was last recorded (all roots when
// force is set: start and end of a scenario).
func (w *c03World) emitPersist(force bool) {
	seen := map[int]bool{}
	for hi, h := range w.sc.Hdrs {
		if h.Empty || seen[h.Root] {
			continue
		}
		seen[h.Root] = true
		res, ok := w.persisted(hi)
		if !ok {
			if force || w.lastPersist[h.Root] != "-" {
				w.emit(zv.App("CPersist", zv.N(uint64(h.Root)), "None"), map[string]any{"persist": h.Root, "v": nil})
			}
			w.lastPersist[h.Root] = "-"
			continue
		}
		av, rm := c03FromSC(res.Available), c03FromSC(res.Remaining)
		term := zv.App("CPersist", zv.N(uint64(h.Root)), "(Some (mkres "+c03Coords(av)+" "+c03Coords(rm)+"))")
		if force || w.lastPersist[h.Root] != term {
			w.emit(term, map[string]any{"persist": h.Root, "available": av, "remaining": rm})
		}
		w.lastPersist[h.Root] = term
		w.checkPersist(h, av, rm)
	}
}

// ---------------------------------------------------------------- L3 ground truth

func (w *c03World) truthOf(root int) *c03Truth {
	t := w.truth[root]
	if t == nil {
		t = &c03Truth{}
		w.truth[root] = t
	}
	return t
}

func c03Min(a, b int) int {
	if a < b {
		return a
	}
	return b
}

// onEnter: call th handed th.coords to the getter (drewNow: it read random bytes on the way, i.e. made the draw itself).
func (w *c03World) onEnter(th *c03Thread, drewNow bool) {
	h := w.sc.Hdrs[th.h]
	t := w.truthOf(h.Root)
	// at most one call per height inside the getter
	for _, o := range w.threads {
		if o != th && o.state == c03InGetter && w.sc.Hdrs[o.h].Height == h.Height {
			w.viol("session-overlap", fmt.Sprintf("calls %d and %d for height %d are inside the getter at the same time", o.id, th.id, h.Height))
		}
	}
	if t.tainted {
		return
	}
	if t.first == nil {
		// first draw for this root: distinct, inside the square, min(count, w*w) of them
		t.first = append([]c03Coord{}, th.coords...)
		t.firstSet = map[c03Coord]bool{}
		t.pending = map[c03Coord]bool{}
		t.drawCount = w.count
		for _, c := range th.coords {
			if c[0] < 0 || c[0] >= h.W || c[1] < 0 || c[1] >= h.W {
				w.viol("draw-out-of-square", fmt.Sprintf("root %d: drawn coordinate %v outside %dx%d", h.Root, c, h.W, h.W))
			}
			if t.firstSet[c] {
				w.viol("draw-duplicate", fmt.Sprintf("root %d: coordinate %v drawn twice", h.Root, c))
			}
			t.firstSet[c] = true
			t.pending[c] = true
		}
		// (after a failed eager persist whose draw survived, the first request may be for the draw of an earlier call, made
		// under the SampleAmount of an earlier instance)
		if (drewNow || !t.storeFault) && len(th.coords) != c03Min(w.count, h.W*h.W) {
			w.viol("draw-count", fmt.Sprintf("root %d: %d coordinates drawn, want min(%d,%d)", h.Root, len(th.coords), w.count, h.W*h.W))
		}
	} else {
		// the request must be the pending coordinates of the first draw; after a failed store, coordinates that were served but
		// could not be recorded may be asked for again: then first draw >= request >= never served
		same := len(th.coords) == len(t.pending) || t.storeFault
		seen := map[c03Coord]bool{}
		for _, c := range th.coords {
			if !(t.pending[c] || (t.storeFault && t.firstSet[c])) || seen[c] {
				same = false
			}
			seen[c] = true
		}
		for c := range t.pending {
			if !seen[c] {
				same = false
			}
		}
		if !same {
			sig := "coords-changed"
			switch {
			case t.storeFault:
				// a store failed earlier; the set that was requested from the getter has been replaced all the same
				sig = "redraw-after-failed-store"
			case t.sinceCrash:
				sig = "redraw-after-crash"
			case !t.stored:
				// no crash, and no answer with at least one slot was ever processed for this root: only empty answers so far
				sig = "redraw-after-empty-response"
			case t.sinceRest:
				sig = "redraw-after-restart"
			}
			w.viol(sig, fmt.Sprintf("root %d: pending coordinates %v but the getter was asked for %v", h.Root, c03Keys(t.pending), th.coords))
			t.tainted = true
		}
	}
	t.sinceCrash, t.sinceRest, t.sinceEmpty = false, false, false
}

func c03Keys(m map[c03Coord]bool) []c03Coord {
	out := []c03Coord{}
	for k := range m {
		out = append(out, k)
	}
	sort.Slice(out, func(i, j int) bool { return out[i][0] < out[j][0] || (out[i][0] == out[j][0] && out[i][1] < out[j][1]) })
	return out
}

// onResp: the scripted answer for th (requested th.coords).
func (w *c03World) onResp(th *c03Thread, r c03Resp) {
	t := w.truthOf(w.sc.Hdrs[th.h].Root)
	n := len(r.Slots)
	if r.Nil {
		n = 0
	}
	if n == 0 {
		t.sinceEmpty = true
		return
	}
	t.stored = true
	if n != len(th.coords) {
		t.tainted = true // outside the Getter contract
		return
	}
	for i, k := range r.Slots {
		switch k {
		case 1:
			delete(t.pending, th.coords[i])
		case 2:
			t.tainted = true // unverified sample handed back: the consequence is reported as evidence (owned by C06)
		}
	}
}

func (w *c03World) onReturn(th *c03Thread, contractOK bool) {
	h := w.sc.Hdrs[th.h]
	if th.verdict == "VPanic" && contractOK {
		w.viol("panic", fmt.Sprintf("call %d for root %d panicked", th.id, h.Root))
	}
	if h.Empty || !h.InWin || th.verdict != "VOk" {
		return
	}
	t := w.truthOf(h.Root)
	if t.tainted {
		return
	}
	if t.first == nil {
		if c03Min(w.count, h.W*h.W) != 0 {
			w.viol("success-without-sampling", fmt.Sprintf("root %d: success although no coordinate was ever requested", h.Root))
		}
		return
	}
	if len(t.pending) > 0 {
		w.viol("success-with-pending", fmt.Sprintf("root %d: success while %v of the first draw were never served", h.Root, c03Keys(t.pending)))
	}
	if len(t.first) < c03Min(w.count, h.W*h.W) {
		w.viol("success-below-count", fmt.Sprintf("root %d: success with %d sampled coordinates, want at least min(%d,%d)", h.Root, len(t.first), w.count, h.W*h.W))
	}
}

// checkPersist: durable result = first draw, available only what was served.
func (w *c03World) checkPersist(h c03Hdr, av, rm []c03Coord) {
	t := w.truthOf(h.Root)
	if t.tainted || t.first == nil {
		return
	}
	seen := map[c03Coord]bool{}
	bad := len(av)+len(rm) != len(t.first)
	for _, c := range append(append([]c03Coord{}, av...), rm...) {
		if !t.firstSet[c] || seen[c] {
			bad = true
		}
		seen[c] = true
	}
	if bad {
		w.viol("persisted-set-changed", fmt.Sprintf("root %d: persisted available+remaining %v+%v is not the first draw %v", h.Root, av, rm, t.first))
		t.tainted = true
		return
	}
	for _, c := range av {
		if t.pending[c] {
			w.viol("persisted-unserved-available", fmt.Sprintf("root %d: %v is persisted as available but was never served", h.Root, c))
			t.tainted = true
			return
		}
	}
}

// ---------------------------------------------------------------- datastore faults: observation and oracle

// takeFault consumes the datastore operation log of th over the coarse event that just ended.
func (w *c03World) takeFault(th *c03Thread) (kind, point, class string) {
	w.mu.Lock()
	log := th.dslog
	th.dslog = nil
	w.mu.Unlock()
	return c03ObservedFault(log)
}

// peekOrder: the remaining coordinates the running instance would load for header hi (write buffer first), nil when none.
func (w *c03World) peekOrder(hi int) []c03Coord {
	key := datastoreKeyForRoot(w.hdrs[hi].DAH)
	w.la.dsLk.RLock()
	data, err := w.la.ds.Get(context.Background(), key)
	w.la.dsLk.RUnlock()
	if err != nil {
		return nil
	}
	var res SamplingResult
	if json.Unmarshal(data, &res) != nil {
		return nil
	}
	return c03FromSC(res.Remaining)
}

func c03FaultTerm(kind, point, class string, order []c03Coord) (string, any) {
	e := map[string]string{"other": "EOther", "canceled": "ECanceled", "deadline": "EDeadline"}[class]
	if kind == "load" {
		return "(CfLoad " + e + ")", map[string]any{"load_failed": class}
	}
	return "(CfStore " + point + " " + e + " " + c03Coords(order) + ")", map[string]any{"store_failed": class, "at": point, "order": order}
}

// durableRaw: the bytes a fresh process would find for header hi ("-" when there are none).
func (w *c03World) durableRaw(hi int) string {
	key := samplingResultsPrefix.Child(datastoreKeyForRoot(w.hdrs[hi].DAH))
	data, err := w.base.Get(context.Background(), key)
	if err != nil {
		return "-"
	}
	return string(data)
}

func (w *c03World) durableAll() map[int]string {
	m := map[int]string{}
	for hi, h := range w.sc.Hdrs {
		if !h.Empty {
			m[h.Root] = w.durableRaw(hi)
		}
	}
	return m
}

// onFault: the oracle for a call that ran into a datastore fault (before = durable content when the op started).
func (w *c03World) onFault(th *c03Thread, kind, point, class string, before map[int]string) {
	h := w.sc.Hdrs[th.h]
	t := w.truthOf(h.Root)
	w.features["dsfault"]++
	w.r.Count("ds_fault", kind+"/"+point+"/"+class)
	failedOK := th.state == c03Returned && th.verdict != "VOk"
	switch kind {
	case "load":
		if !failedOK {
			what := "was handed coordinates " + fmt.Sprint(th.coords)
			if th.state == c03Returned {
				what = "returned " + th.verdict
			}
			w.viol("load-failure-ignored", fmt.Sprintf("root %d: the load of the previous result failed (%s) but call %d went on and %s", h.Root, class, th.id, what))
		}
		if b := before[h.Root]; b != "-" && b != w.durableRaw(th.h) {
			w.viol("load-failure-changed-result", fmt.Sprintf("root %d: the load of the previous result failed (%s) in call %d and the durable result changed from %s to %s",
				h.Root, class, th.id, b, w.durableRaw(th.h)))
			t.tainted = true
		}
	case "store":
		t.storeFault = true
		if !failedOK {
			w.viol("store-failure-ignored", fmt.Sprintf("root %d: persisting the result failed (%s at %s) but call %d did not return an error", h.Root, class, point, th.id))
		}
	}
}

// ---------------------------------------------------------------- executing one op on the real code

func (w *c03World) snapshot() map[int]int {
	w.mu.Lock()
	defer w.mu.Unlock()
	m := map[int]int{}
	for id, th := range w.threads {
		st := th.state
		if st == c03Running {
			st = -1 // blocked (after settle)
		}
		m[id] = st
	}
	return m
}

// afterSettle reports the calls (other than skip) that moved since before: returned ones first, then the one inside the getter.
func (w *c03World) afterSettle(before map[int]int, skip int, bytes []byte, durBefore map[int]string) {
	var ret, ing []*c03Thread
	w.mu.Lock()
	for id, th := range w.threads {
		if id == skip {
			continue
		}
		old, ok := before[id]
		if !ok || old != -1 {
			continue
		}
		switch th.state {
		case c03Returned:
			ret = append(ret, th)
		case c03InGetter:
			ing = append(ing, th)
		}
	}
	w.mu.Unlock()
	sort.Slice(ret, func(i, j int) bool { return ret[i].id < ret[j].id })
	sort.Slice(ing, func(i, j int) bool { return ing[i].id < ing[j].id })
	all := append(ret, ing...)
	for i, th := range all {
		var bs []byte
		if i == len(all)-1 {
			bs = bytes
		}
		o, oj := w.obsOf(th)
		if kind, point, class := w.takeFault(th); kind != "" {
			ft, fj := c03FaultTerm(kind, point, class, w.peekOrder(th.h))
			w.emit(zv.App("CWakeF", zv.N(uint64(th.id)), zv.Bytes(bs), ft, o), map[string]any{"wake": th.id, "bytes": bs, "fault": fj, "obs": oj})
			w.onFault(th, kind, point, class, durBefore)
		} else {
			w.emit(zv.App("CWake", zv.N(uint64(th.id)), zv.Bytes(bs), o), map[string]any{"wake": th.id, "bytes": bs, "obs": oj})
		}
		w.features["wake"]++
		w.process(th, bs, true)
	}
}

// process runs the oracle for a call that reached the getter or returned, and records a fresh draw.
func (w *c03World) process(th *c03Thread, bytes []byte, contractOK bool) {
	if th.state == c03InGetter && th.entered {
		th.entered = false
		h := w.sc.Hdrs[th.h]
		// a fresh draw (no bytes are read for a 1x1 square or an empty set); after a failed eager persist the first request for
		// a root may be for a draw made by an earlier call: no draw case then
		if t := w.truthOf(h.Root); len(bytes) > 0 || (t.first == nil && !t.storeFault) {
			w.draws.Case(zv.Tuple(zv.Z(int64(h.W)), zv.Z(int64(w.count)), zv.Bytes(bytes), c03Coords(th.coords)),
				map[string]any{"w": h.W, "count": w.count, "bytes": bytes, "coords": th.coords}, "draw")
			w.r.Count("draw_w", fmt.Sprint(h.W))
		}
		w.onEnter(th, len(bytes) > 0)
	}
	if th.state == c03Returned {
		w.onReturn(th, contractOK)
		w.r.Count("verdict", th.verdict)
	}
}

func (w *c03World) exec(op c03Op) bool {
	durBefore := w.durableAll()
	defer func() {
		// a fault is armed for one op only
		w.mu.Lock()
		for _, th := range w.threads {
			th.arm = nil
		}
		w.mu.Unlock()
	}()
	switch op.Kind {
	case "call":
		if _, dup := w.threads[op.T]; dup || op.H < 0 || op.H >= len(w.hdrs) {
			return false
		}
		th := &c03Thread{id: op.T, h: op.H, respCh: make(chan c03Resp, 1), w: w, opN: map[string]int{}, arm: op.Fault}
		th.ctx = &c03Ctx{done: make(chan struct{}), deadline: op.Deadline, vals: th}
		if op.PreCancel {
			th.ctx.finish(context.Canceled)
		}
		// would the call have to wait for a session?
		holder := false
		w.mu.Lock()
		for _, o := range w.threads {
			if o.state != c03Returned && w.sc.Hdrs[o.h].Height == w.sc.Hdrs[op.H].Height {
				holder = true
			}
		}
		w.threads[op.T] = th
		w.mu.Unlock()
		la, hdr := w.la, w.hdrs[op.H]
		go func() {
			v := ""
			if p := zv.Recover(func() { v = c03Classify(la.SharesAvailable(th.ctx, hdr)) }); p != "" {
				v = "VPanic"
			}
			w.mu.Lock()
			th.verdict = v
			th.state = c03Returned
			w.mu.Unlock()
		}()
		w.settle()
		bytes := w.rd.mark()
		o, oj := w.obsOf(th)
		hs := w.sc.Hdrs[op.H]
		if op.PreCancel && holder && th.state == c03Returned && !hs.Empty && hs.InWin {
			// the call met a held session with a context that was already done
			w.emit(zv.App("CCall", zv.N(uint64(op.T)), zv.Nat(op.H), zv.Bytes(nil), "OAny"), map[string]any{"call": op.T, "hdr": hs, "pre_cancelled": true})
			w.emit(zv.App("CAbort", zv.N(uint64(op.T)), "ECanceled", o), map[string]any{"abort": op.T, "obs": oj})
		} else if kind, point, class := w.takeFault(th); kind != "" {
			ft, fj := c03FaultTerm(kind, point, class, w.peekOrder(op.H))
			w.emit(zv.App("CCallF", zv.N(uint64(op.T)), zv.Nat(op.H), zv.Bytes(bytes), ft, o),
				map[string]any{"call": op.T, "hdr": hs, "bytes": bytes, "fault": fj, "obs": oj})
			w.onFault(th, kind, point, class, durBefore)
		} else {
			w.emit(zv.App("CCall", zv.N(uint64(op.T)), zv.Nat(op.H), zv.Bytes(bytes), o), map[string]any{"call": op.T, "hdr": hs, "bytes": bytes, "obs": oj})
		}
		if th.state == c03Running {
			w.features["blocked"]++
		}
		w.process(th, bytes, true)
	case "resp":
		th := w.threads[op.T]
		if th == nil || th.state != c03InGetter || op.Resp == nil {
			return false
		}
		before := w.snapshot()
		w.mu.Lock()
		th.arm, th.opN, th.dslog = op.Fault, map[string]int{}, nil
		w.mu.Unlock()
		w.onResp(th, *op.Resp)
		n := len(op.Resp.Slots)
		if op.Resp.Nil {
			n = 0
		}
		contractOK := n == 0 || n == len(th.coords)
		th.respCh <- *op.Resp
		// the answered call must leave the getter before we look at the world again
		for {
			w.mu.Lock()
			st := th.state
			w.mu.Unlock()
			if st != c03InGetter {
				break
			}
			runtime.Gosched()
		}
		w.settle()
		bytes := w.rd.mark()
		o, oj := w.obsOf(th)
		if kind, point, class := w.takeFault(th); kind != "" {
			ft, fj := c03FaultTerm(kind, point, class, nil)
			w.emit(zv.App("CRespF", zv.N(uint64(op.T)), c03RespTerm(*op.Resp), ft, o), map[string]any{"resp": op.T, "r": op.Resp, "fault": fj, "obs": oj})
			w.onFault(th, kind, point, class, durBefore)
		} else {
			w.emit(zv.App("CResp", zv.N(uint64(op.T)), c03RespTerm(*op.Resp), o), map[string]any{"resp": op.T, "r": op.Resp, "obs": oj})
		}
		w.process(th, nil, contractOK)
		w.afterSettle(before, op.T, bytes, durBefore)
	case "cancel":
		// the context of a call that is inside the getter is done; the (scripted) getter answers when the harness says so. Nothing
		// the model sees happens now: a context-aware datastore will refuse the persist after the answer.
		th := w.threads[op.T]
		if th == nil || th.state != c03InGetter {
			return false
		}
		e := context.Canceled
		if op.AbortErr == "deadline" {
			e = context.DeadlineExceeded
		}
		th.ctx.finish(e)
	case "abort":
		th := w.threads[op.T]
		if th == nil || th.state != c03Running {
			return false
		}
		e, ec := context.Canceled, "ECanceled"
		if op.AbortErr == "deadline" {
			e, ec = context.DeadlineExceeded, "EDeadline"
		}
		th.ctx.finish(e)
		w.settle()
		o, oj := w.obsOf(th)
		w.emit(zv.App("CAbort", zv.N(uint64(op.T)), ec, o), map[string]any{"abort": op.T, "err": op.AbortErr, "obs": oj})
		w.process(th, nil, true)
	case "crash", "restart":
		live := 0
		for _, th := range w.threads {
			if th.state != c03Returned {
				live++
			}
		}
		if op.Kind == "restart" && live > 0 {
			return false
		}
		if op.Kind == "crash" {
			// the process dies: nothing it still does reaches the datastore; let its goroutines run out
			w.dead.Store(true)
			for {
				done := true
				w.mu.Lock()
				for _, th := range w.threads {
					th.ctx.finish(context.Canceled)
					if th.state == c03InGetter {
						select {
						case th.respCh <- c03Resp{Nil: true, Err: "canceled"}:
						default:
						}
					}
					if th.state != c03Returned {
						done = false
					}
				}
				w.mu.Unlock()
				if done {
					break
				}
				runtime.Gosched()
			}
			w.rd.mark()
			w.emit(zv.App("CCrash", zv.Z(int64(op.Count))), map[string]any{"crash": true, "count": op.Count})
			for _, t := range w.truth {
				t.sinceCrash = true
			}
		} else {
			if err := w.la.Close(context.Background()); err != nil {
				w.broken = "Close: " + err.Error()
			}
			w.emit(zv.App("CRestart", zv.Z(int64(op.Count))), map[string]any{"restart": true, "count": op.Count})
			for _, t := range w.truth {
				t.sinceRest = true
			}
		}
		w.newInstance(op.Count)
	default:
		return false
	}
	w.emitPersist(false)
	return true
}

// ---------------------------------------------------------------- generating scenarios online

func c03GenResp(rng *zv.Rand, n int, allowContractBreak bool) (c03Resp, string) {
	r := c03Resp{}
	kind := ""
	p := rng.Intn(100)
	switch {
	case p < 30:
		kind = "all"
		r.Slots = make([]int, n)
		for i := range r.Slots {
			r.Slots[i] = 1
		}
	case p < 62:
		kind = "subset"
		r.Slots = make([]int, n)
		q := 20 + rng.Intn(70)
		for i := range r.Slots {
			if rng.Chance(q) {
				r.Slots[i] = 1
			}
		}
	case p < 72:
		kind = "none-served"
		r.Slots = make([]int, n)
	case p < 84:
		kind = "nil"
		r.Nil = true
	case p < 88:
		kind = "empty-slice"
		r.Slots = []int{}
	case p < 94 && allowContractBreak && n > 1:
		kind = "short"
		r.Slots = make([]int, 1+rng.Intn(n-1))
		for i := range r.Slots {
			if rng.Chance(70) {
				r.Slots[i] = 1
			}
		}
	case p < 98 && allowContractBreak:
		kind = "long"
		r.Slots = make([]int, n+1+rng.Intn(3))
		for i := range r.Slots {
			if rng.Chance(70) {
				r.Slots[i] = 1
			}
		}
	default:
		kind = "one-missing"
		r.Slots = make([]int, n)
		for i := range r.Slots {
			r.Slots[i] = 1
		}
		if n > 0 {
			r.Slots[rng.Intn(n)] = 0
		}
	}
	switch e := rng.Intn(100); {
	case kind == "all" && e < 70:
	case e < 40:
	case e < 60:
		r.Err = "other"
	case e < 80:
		r.Err = "deadline"
	default:
		r.Err = "canceled"
	}
	return r, kind
}

var c03Widths = []int{2, 2, 4, 4, 4, 8, 8, 16, 32, 1, 3, 5, 6}

func c03GenScenario(rng *zv.Rand, idx int) (*c03Scenario, int, int) {
	sc := &c03Scenario{Name: fmt.Sprintf("gen-%d", idx), RandSeed: rng.U64(), Batch: 2048}
	if rng.Chance(30) {
		sc.Batch = rng.Intn(3)
	}
	sc.CtxAware = rng.Chance(25)
	concurrent := rng.Chance(45)
	nh := 1
	if concurrent || rng.Chance(30) {
		nh = 1 + rng.Intn(3)
	}
	for i := 0; i < nh; i++ {
		h := c03Hdr{Height: uint64(10 + i), Root: 1 + i, W: zv.Pick(rng, c03Widths), InWin: !rng.Chance(3)}
		if rng.Chance(3) {
			h.Empty = true
		}
		sc.Hdrs = append(sc.Hdrs, h)
	}
	w0 := sc.Hdrs[0].W
	small := w0 <= 4 // keep the number of coordinates per event small: Coq parses the case files slowly
	switch p := rng.Intn(100); {
	case p < 30:
		sc.Count = 16
	case p < 42 && small:
		sc.Count = w0 * w0
	case p < 50 && small:
		sc.Count = w0*w0 + 1 + rng.Intn(3)
	case p < 53:
		sc.Count = 0
	default:
		sc.Count = 1 + rng.Intn(12)
	}
	maxThreads := 1
	if concurrent {
		maxThreads = 2 + rng.Intn(3)
	}
	return sc, maxThreads, 5 + rng.Intn(12)
}

// c03GenFault: a datastore fault for a call (load or eager persist) or for the persist after an answer
func c03GenFault(rng *zv.Rand, withLoad bool, batch int) *c03Fault {
	f := &c03Fault{Nth: 1}
	p := rng.Intn(100)
	switch {
	case withLoad && p < 45:
		f.Op = "get"
		return f
	case p < 65:
		f.Op = "batch"
	case p < 90:
		f.Op = "commit"
	default:
		f.Op = "bput"
	}
	if f.Op != "bput" && batch < 3 && rng.Chance(50) {
		f.Nth = 2 // the explicit Flush after a threshold flush (small write batches)
	}
	return f
}

// c03Next picks the next op from the current state of the world.
func c03Next(w *c03World, rng *zv.Rand, maxThreads int, nextTid *int, draining bool) (c03Op, string, bool) {
	var inG, blocked []*c03Thread
	live := 0
	ids := make([]int, 0, len(w.threads))
	for id := range w.threads {
		ids = append(ids, id)
	}
	sort.Ints(ids)
	for _, id := range ids {
		th := w.threads[id]
		switch th.state {
		case c03InGetter:
			inG = append(inG, th)
			live++
		case c03Running:
			blocked = append(blocked, th)
			live++
		}
	}
	if draining {
		if len(inG) == 0 {
			return c03Op{}, "", false
		}
		th := inG[0]
		sl := make([]int, len(th.coords))
		for i := range sl {
			sl[i] = 1
		}
		return c03Op{Kind: "resp", T: th.id, Resp: &c03Resp{Slots: sl}}, "all", true
	}
	for tries := 0; tries < 20; tries++ {
		p := rng.Intn(100)
		switch {
		case p < 40 && live < maxThreads:
			h := rng.Intn(len(w.sc.Hdrs))
			if len(inG) > 0 && rng.Chance(60) {
				h = inG[rng.Intn(len(inG))].h // contention for a held session
			}
			op := c03Op{Kind: "call", T: *nextTid, H: h, PreCancel: rng.Chance(6), Deadline: rng.Chance(30)}
			if rng.Chance(13) {
				op.Fault = c03GenFault(rng, true, w.sc.Batch)
			}
			*nextTid++
			return op, "", true
		case p >= 40 && p < 45 && len(inG) > 0 && w.sc.CtxAware:
			th := inG[rng.Intn(len(inG))]
			if th.ctx.Err() != nil {
				continue
			}
			ae := "canceled"
			if rng.Chance(40) {
				ae = "deadline"
			}
			return c03Op{Kind: "cancel", T: th.id, AbortErr: ae}, "", true
		case p >= 40 && p < 84 && len(inG) > 0:
			th := inG[rng.Intn(len(inG))]
			r, kind := c03GenResp(rng, len(th.coords), true)
			op := c03Op{Kind: "resp", T: th.id, Resp: &r}
			if rng.Chance(14) {
				op.Fault = c03GenFault(rng, false, w.sc.Batch)
			}
			return op, kind, true
		case p >= 84 && p < 90 && len(blocked) > 0:
			th := blocked[rng.Intn(len(blocked))]
			ae := "canceled"
			if rng.Chance(40) {
				ae = "deadline"
			}
			return c03Op{Kind: "abort", T: th.id, AbortErr: ae}, "", true
		case p >= 90 && p < 95:
			n := w.count
			if rng.Chance(6) {
				n = 1 + rng.Intn(20)
			}
			return c03Op{Kind: "crash", Count: n}, "", true
		case p >= 95 && live == 0:
			n := w.count
			if rng.Chance(6) {
				n = 1 + rng.Intn(20)
			}
			return c03Op{Kind: "restart", Count: n}, "", true
		}
	}
	return c03Op{}, "", false
}

// c03ProbeDrop asks the real code what a failed write leaves behind: storeResult with a datastore whose Batch() fails, then a read
// through the instance. true = the failed write is gone from the write buffer (fix-c03-3), false = it is still readable.
func c03ProbeDrop() bool {
	probe := &c03World{sc: &c03Scenario{}}
	th := &c03Thread{opN: map[string]int{}, arm: &c03Fault{Op: "batch", Nth: 1}}
	th.ctx = &c03Ctx{done: make(chan struct{}), vals: th}
	la := NewShareAvailability(nil, &c03DS{Batching: ds_sync.MutexWrap(datastore.NewMapDatastore()), dead: &atomic.Bool{}, w: probe}, nil)
	key := datastore.NewKey("c03-probe")
	if err := la.storeResult(th.ctx, key, &SamplingResult{}); err == nil {
		return false // storeResult did not flush at all: whatever it wrote is (only) in the write buffer
	}
	la.dsLk.RLock()
	_, err := la.ds.Get(context.Background(), key)
	la.dsLk.RUnlock()
	return err != nil
}

var c03Drop = sync.OnceValue(c03ProbeDrop)

func c03NewWorld(r *zv.Run, sc *c03Scenario, draws *zv.Group) *c03World {
	w := &c03World{r: r, sc: sc, truth: map[int]*c03Truth{}, draws: draws, features: map[string]int{}, lastPersist: map[int]string{}}
	w.drop = c03Drop()
	w.rd = &c03Reader{rng: zv.NewRand(sc.RandSeed)}
	crand.Reader = w.rd
	writeBatchSize = sc.Batch
	w.base = ds_sync.MutexWrap(datastore.NewMapDatastore())
	for _, h := range sc.Hdrs {
		w.hdrs = append(w.hdrs, c03MakeHeader(h))
	}
	w.viol = func(sig, desc string) {
		w.nViol++
		r.Violation(sig, desc, sc)
	}
	w.newInstance(sc.Count)
	return w
}

// allDone: no call is running and every block that needs sampling has a complete durable result.
func (w *c03World) allDone() bool {
	for _, th := range w.threads {
		if th.state != c03Returned {
			return false
		}
	}
	for hi, h := range w.sc.Hdrs {
		if h.Empty || !h.InWin {
			continue
		}
		res, ok := w.persisted(hi)
		if !ok || len(res.Remaining) > 0 {
			return false
		}
	}
	return true
}

// finish lets every goroutine of the scenario run out.
func (w *c03World) finish() {
	w.dead.Store(true)
	for {
		done := true
		w.mu.Lock()
		for _, th := range w.threads {
			th.ctx.finish(context.Canceled)
			if th.state == c03InGetter {
				select {
				case th.respCh <- c03Resp{Nil: true, Err: "canceled"}:
				default:
				}
			}
			if th.state != c03Returned {
				done = false
			}
		}
		w.mu.Unlock()
		if done {
			return
		}
		runtime.Gosched()
	}
}

func (w *c03World) caseOut(g *zv.Group) {
	w.emitPersist(true)
	hs := make([]string, len(w.sc.Hdrs))
	for i, h := range w.sc.Hdrs {
		hs[i] = c03HdrTerm(h)
	}
	term := zv.Tuple(zv.Nat(w.sc.Batch), zv.Bool(w.drop), zv.Z(int64(w.sc.Count)), zv.List(hs), zv.List(w.terms))
	key := ""
	if (w.features["partial"] > 0) && (w.features["restart"] > 0 || w.features["blocked"] > 0) {
		key = "nt"
	}
	g.Case(term, map[string]any{"scenario": w.sc, "drops_failed_write": w.drop, "trace": w.trace}, key)
}

func (w *c03World) note(op c03Op, kind string) {
	w.r.Count("op", op.Kind)
	switch op.Kind {
	case "resp":
		w.r.Count("answer", kind+"/"+map[string]string{"": "nil-error"}[op.Resp.Err]+op.Resp.Err)
		if kind != "all" {
			w.features["partial"]++
		}
	case "crash", "restart":
		w.features["restart"]++
	}
	if op.Fault != nil {
		w.r.Count("fault_armed", op.Kind+"/"+op.Fault.Op)
	}
}

func c03RunGenerated(r *zv.Run, g, draws *zv.Group, rng *zv.Rand, idx int) {
	sc, maxThreads, nOps := c03GenScenario(rng, idx)
	w := c03NewWorld(r, sc, draws)
	nextTid := 1
	for i := 0; i < nOps+40; i++ {
		if i < nOps && w.allDone() && rng.Chance(60) {
			nOps = i // every block is fully sampled and nobody is running: little left to see
		}
		op, kind, ok := c03Next(w, rng, maxThreads, &nextTid, i >= nOps)
		if !ok {
			break
		}
		if w.exec(op) {
			sc.Ops = append(sc.Ops, op)
			w.note(op, kind)
		}
		if w.broken != "" {
			break
		}
	}
	w.finish()
	if w.broken != "" {
		r.Violation("harness-broken", w.broken, sc)
	}
	r.Count("threads", fmt.Sprint(maxThreads))
	for _, f := range []string{"partial", "restart", "blocked", "wake", "dsfault"} {
		if w.features[f] > 0 {
			r.Count("histories_with", f)
		}
	}
	r.Count("count_vs_area", c03CountClass(sc.Count, sc.Hdrs[0].W))
	w.caseOut(g)
}

func c03WClass(w int) string {
	switch {
	case w&(w-1) == 0:
		return "power-of-two"
	case w < 13:
		return "small-not-power-of-two"
	}
	return "large-not-power-of-two"
}

func c03CountClass(count, w int) string {
	switch {
	case count == 0:
		return "zero"
	case count < w*w:
		return "below-area"
	case count == w*w:
		return "equal-area"
	}
	return "above-area"
}

func c03RunScripted(r *zv.Run, g, draws *zv.Group, sc *c03Scenario) *c03World {
	w := c03NewWorld(r, sc, draws)
	for _, op := range sc.Ops {
		if w.exec(op) {
			w.note(op, "scripted")
		}
		if w.broken != "" {
			break
		}
	}
	w.finish()
	if w.broken != "" {
		r.Violation("harness-broken", w.broken, sc)
	}
	if g != nil {
		w.caseOut(g)
	}
	return w
}

// ---------------------------------------------------------------- fixed scenarios: the histories behind the repaired defects

func c03All(n int) *c03Resp {
	s := make([]int, n)
	for i := range s {
		s[i] = 1
	}
	return &c03Resp{Slots: s}
}

func c03FixedScenarios() []*c03Scenario {
	h := []c03Hdr{{Height: 7, Root: 1, W: 8, InWin: true}}
	return []*c03Scenario{
		// the getter hands back nothing at all (bitswap getter: nil slice when no block could be fetched), then a retry
		{Name: "empty-response-then-retry", Count: 4, Batch: 2048, RandSeed: 11, Hdrs: h, Ops: []c03Op{
			{Kind: "call", T: 1}, {Kind: "resp", T: 1, Resp: &c03Resp{Nil: true, Err: "other"}},
			{Kind: "call", T: 2}, {Kind: "resp", T: 2, Resp: c03All(4)}}},
		// partial answer, process dies without Close, fresh instance over the same datastore
		{Name: "partial-crash-retry", Count: 4, Batch: 2048, RandSeed: 12, Hdrs: h, Ops: []c03Op{
			{Kind: "call", T: 1}, {Kind: "resp", T: 1, Resp: &c03Resp{Slots: []int{1, 0, 1, 0}, Err: "deadline"}},
			{Kind: "crash", Count: 4}, {Kind: "call", T: 1}, {Kind: "resp", T: 1, Resp: c03All(2)}}},
		// the process dies while the very first request is outstanding
		{Name: "crash-during-first-request", Count: 4, Batch: 2048, RandSeed: 13, Hdrs: h, Ops: []c03Op{
			{Kind: "call", T: 1}, {Kind: "crash", Count: 4}, {Kind: "call", T: 1}, {Kind: "resp", T: 1, Resp: c03All(4)}}},
		// graceful restart keeps the coordinates
		{Name: "partial-restart-retry", Count: 4, Batch: 2048, RandSeed: 14, Hdrs: h, Ops: []c03Op{
			{Kind: "call", T: 1}, {Kind: "resp", T: 1, Resp: &c03Resp{Slots: []int{0, 1, 1, 0}, Err: "canceled"}},
			{Kind: "restart", Count: 4}, {Kind: "call", T: 1}, {Kind: "resp", T: 1, Resp: c03All(2)}}},
		// three calls for one height: one holds the session, two wait; the holder is answered partially
		{Name: "three-calls-one-height", Count: 3, Batch: 2048, RandSeed: 15, Hdrs: h, Ops: []c03Op{
			{Kind: "call", T: 1}, {Kind: "call", T: 2}, {Kind: "call", T: 3},
			{Kind: "resp", T: 1, Resp: &c03Resp{Slots: []int{1, 0, 0}}}, {Kind: "abort", T: 3, AbortErr: "deadline"}}},

		// ---- datastore faults
		// partial answer; the retry cannot read the previous result (I/O error): it must fail and change nothing; the next retry
		// asks for exactly the two pending coordinates
		{Name: "load-io-error-keeps-result", Count: 4, Batch: 2048, RandSeed: 16, Hdrs: h, Ops: []c03Op{
			{Kind: "call", T: 1}, {Kind: "resp", T: 1, Resp: &c03Resp{Slots: []int{1, 0, 1, 0}, Err: "other"}},
			{Kind: "call", T: 2, Fault: &c03Fault{Op: "get", Nth: 1}},
			{Kind: "call", T: 3}, {Kind: "resp", T: 3, Resp: c03All(2)}}},
		// the same with a caller whose context is already cancelled, on a datastore that honours contexts
		{Name: "load-cancelled-context-keeps-result", Count: 4, Batch: 2048, RandSeed: 17, CtxAware: true, Hdrs: h, Ops: []c03Op{
			{Kind: "call", T: 1}, {Kind: "resp", T: 1, Resp: &c03Resp{Slots: []int{0, 1, 1, 0}, Err: "deadline"}},
			{Kind: "call", T: 2, PreCancel: true},
			{Kind: "crash", Count: 4}, {Kind: "call", T: 3}, {Kind: "resp", T: 3, Resp: c03All(2)}}},
		// everything is served but the result cannot be committed: the call fails, nothing counts as sampled, the retry asks again
		{Name: "final-store-commit-fails", Count: 4, Batch: 2048, RandSeed: 18, Hdrs: h, Ops: []c03Op{
			{Kind: "call", T: 1}, {Kind: "resp", T: 1, Resp: c03All(4), Fault: &c03Fault{Op: "commit", Nth: 1}},
			{Kind: "call", T: 2}, {Kind: "resp", T: 2, Resp: c03All(4)}}},
		// the context ends while the getter works; a context-aware datastore refuses the persist of the partial answer
		{Name: "cancelled-while-sampling", Count: 4, Batch: 2048, RandSeed: 19, CtxAware: true, Hdrs: h, Ops: []c03Op{
			{Kind: "call", T: 1, Deadline: true}, {Kind: "cancel", T: 1, AbortErr: "deadline"},
			{Kind: "resp", T: 1, Resp: &c03Resp{Slots: []int{1, 1, 0, 0}, Err: "deadline"}},
			{Kind: "crash", Count: 4}, {Kind: "call", T: 2}, {Kind: "resp", T: 2, Resp: c03All(4)}}},
		// small write batch: the threshold flush inside Put goes through, the explicit Flush after it fails: the draw is durable,
		// the call fails, the retry asks for that draw
		{Name: "eager-store-second-flush-fails", Count: 3, Batch: 0, RandSeed: 20, Hdrs: h, Ops: []c03Op{
			{Kind: "call", T: 1, Fault: &c03Fault{Op: "batch", Nth: 2}},
			{Kind: "crash", Count: 3}, {Kind: "call", T: 2}, {Kind: "resp", T: 2, Resp: c03All(3)}}},
		// the witness of C03_pending_stable_keepbuf_refuted (repaired by fix-c03-3): the eager persist of the first draw fails at
		// Batch(); the retry must not hand coordinates to the getter that are not durable - the getter hands back nothing, the
		// process dies, and the next call has to ask for the same coordinates
		{Name: "failed-eager-store-retry-crash", Count: 4, Batch: 2048, RandSeed: 22, Hdrs: h, Ops: []c03Op{
			{Kind: "call", T: 1, Fault: &c03Fault{Op: "batch", Nth: 1}},
			{Kind: "call", T: 2}, {Kind: "resp", T: 2, Resp: &c03Resp{Nil: true, Err: "other"}},
			{Kind: "crash", Count: 4}, {Kind: "call", T: 3}, {Kind: "resp", T: 3, Resp: c03All(4)}}},
	}
}

// ---------------------------------------------------------------- the test

func TestVerifC03(t *testing.T) {
	r := zv.Start(t, "C03")
	defer r.Finish()
	os.Unsetenv("CELESTIA_OVERRIDE_AVAILABILITY_WINDOW")
	oldReader, oldBatch := crand.Reader, writeBatchSize
	defer func() { crand.Reader, writeBatchSize = oldReader, oldBatch }()

	var replay c03Scenario
	if r.ReplayInput(&replay) {
		// one scenario only; every group must hold at least one case
		g := r.Group("hist00", c03Header, "case", "mismatches")
		draws := r.Group("draw00", c03Header, "draw_case", "draw_mismatches")
		draws.Case(zv.Tuple(zv.Z(1), zv.Z(0), zv.Bytes(nil), c03Coords(nil)), map[string]any{"w": 1, "count": 0}, "")
		w := c03RunScripted(r, g, draws, &replay)
		r.Set("replay_violations", w.nViol)
		return
	}

	// Coq spends its time parsing the case terms (about 10 KB/s), so the histories are spread over many small groups: the
	// driver evaluates the groups' files in parallel.
	ng := r.N(12, 120)
	hist := make([]*zv.Group, ng)
	for i := range hist {
		hist[i] = r.Group(fmt.Sprintf("hist%02d", i), c03Header, "case", "mismatches")
	}
	g := hist[0]
	nd0 := r.N(4, 40)
	drawGroups := make([]*zv.Group, nd0)
	for i := range drawGroups {
		drawGroups[i] = r.Group(fmt.Sprintf("draw%02d", i), c03Header, "draw_case", "draw_mismatches")
	}
	draws := drawGroups[0]

	for _, sc := range c03FixedScenarios() {
		c03RunScripted(r, g, draws, sc)
	}
	c03Demo(r, g, draws)

	n := r.N(600, 9600)
	for i := 0; i < n; i++ {
		c03RunGenerated(r, hist[i%ng], drawGroups[i%nd0], r.Rand().Fork(uint64(i)), i)
	}

	// plain draws through the scripted reader: every width up to 64 (incl. non powers of two: the rejection loop of rand.Int)
	hits := map[int][]int{} // small widths: how often each cell of the square was drawn
	nd := r.N(300, 4000)
	rng := r.Rand().Fork(1 << 40)
	rd := &c03Reader{rng: zv.NewRand(rng.U64())}
	crand.Reader = rd
	for i := 0; i < nd; i++ {
		w := 1 + rng.Intn(12)
		if rng.Chance(35) {
			w = 2 + rng.Intn(3) // 2..4: enough draws per cell for the coverage check below
		}
		switch {
		case rng.Chance(10):
			w = 1 << uint(rng.Intn(10)) // up to the largest extended square (512)
		case rng.Chance(10):
			w = 1 + rng.Intn(600)
		}
		count := rng.Intn(20)
		if w <= 5 && rng.Chance(50) {
			count = rng.Intn(w*w + 3)
		}
		rd.mark()
		var res *SamplingResult
		if p := zv.Recover(func() { res = NewSamplingResult(w, count) }); p != "" {
			r.Violation("draw-panic", fmt.Sprintf("NewSamplingResult(%d,%d) panicked: %s", w, count, p), map[string]any{"w": w, "count": count})
			continue
		}
		bytes := rd.mark()
		cs := c03FromSC(res.Remaining)
		drawGroups[i%nd0].Case(zv.Tuple(zv.Z(int64(w)), zv.Z(int64(count)), zv.Bytes(bytes), c03Coords(cs)),
			map[string]any{"w": w, "count": count, "bytes": bytes, "coords": cs}, "draw")
		r.Count("plain_draw_w", c03WClass(w))
		seen := map[c03Coord]bool{}
		if w <= 6 && hits[w] == nil {
			hits[w] = make([]int, w*w)
		}
		for _, c := range cs {
			if w <= 6 && c[0] >= 0 && c[0] < w && c[1] >= 0 && c[1] < w {
				hits[w][c[0]*w+c[1]]++
			}
			if c[0] < 0 || c[0] >= w || c[1] < 0 || c[1] >= w || seen[c] {
				r.Violation("draw-bad", fmt.Sprintf("NewSamplingResult(%d,%d) drew %v", w, count, cs), map[string]any{"w": w, "count": count, "bytes": bytes})
			}
			seen[c] = true
		}
		if len(cs) != c03Min(count, w*w) || len(res.Available) != 0 {
			r.Violation("draw-count", fmt.Sprintf("NewSamplingResult(%d,%d) drew %d coordinates", w, count, len(cs)), map[string]any{"w": w, "count": count, "bytes": bytes})
		}
	}

	// "drawn from the WHOLE extended square": on small squares every cell must turn up once enough coordinates were drawn
	for w, cells := range hits {
		total := 0
		for _, n := range cells {
			total += n
		}
		if total < 40*w*w {
			continue
		}
		for i, n := range cells {
			if n == 0 {
				r.Violation("draw-not-whole-square", fmt.Sprintf("width %d: cell (%d,%d) never drawn in %d coordinates", w, i/w, i%w, total),
					map[string]any{"w": w, "hits": cells})
				break
			}
		}
	}

	// distribution of the REAL crypto/rand draws on small squares (a statistical test, reported; not part of the proof)
	crand.Reader = oldReader
	r.Set("chi_square", c03ChiSquare(r.N(20000, 200000)))
}

// c03Demo shows what light availability does with a non-empty sample the getter did NOT verify (what shrex GetSamples hands
// back after a verification failure, together with the deadline error): it is counted as sampled. Owned by C06; reported here.
func c03Demo(r *zv.Run, g, draws *zv.Group) {
	sc := &c03Scenario{Name: "unverified-nonempty-sample", Count: 4, Batch: 2048, RandSeed: 21,
		Hdrs: []c03Hdr{{Height: 9, Root: 1, W: 8, InWin: true}},
		Ops: []c03Op{{Kind: "call", T: 1}, {Kind: "resp", T: 1, Resp: &c03Resp{Slots: []int{1, 2, 1, 1}, Err: "deadline"}}}}
	w := c03RunScripted(r, g, draws, sc)
	res, _ := w.persisted(0)
	out := map[string]any{"scenario": sc, "trace": w.trace}
	if res != nil {
		out["persisted_available"] = c03FromSC(res.Available)
		out["persisted_remaining"] = c03FromSC(res.Remaining)
	}
	for _, e := range w.trace {
		if m, ok := e.(map[string]any); ok {
			if _, isResp := m["resp"]; isResp {
				out["verdict_after_unverified_sample"] = m["obs"]
			}
		}
	}
	out["note"] = "slot kind 2 = non-empty sample that failed/never passed Verify (shrex.go GetSamples leaves it in samples[i]); light availability has no way to tell and counts it as sampled — avail_sound is stated relative to 'returned non-empty by the getter', which C06 must make imply 'verified'"
	r.Set("c06_unverified_sample_consequence", out)
}

func c03ChiSquare(n int) any {
	out := []any{}
	for _, cfg := range [][2]int{{2, 1}, {2, 3}, {4, 1}, {4, 5}, {8, 16}} {
		w, count := cfg[0], cfg[1]
		cells := make([]int, w*w)
		reps := n / count
		for i := 0; i < reps; i++ {
			for _, c := range selectRandomSamples(w, count) {
				cells[c.Row*w+c.Col]++
			}
		}
		exp := float64(reps*count) / float64(w*w)
		chi := 0.0
		for _, o := range cells {
			d := float64(o) - exp
			chi += d * d / exp
		}
		df := float64(w*w - 1)
		// Wilson-Hilferty normal approximation of the chi-square quantile position
		z := (math.Pow(chi/df, 1.0/3) - (1 - 2/(9*df))) / math.Sqrt(2/(9*df))
		out = append(out, map[string]any{"w": w, "count": count, "draws": reps, "chi2": math.Round(chi*1000) / 1000, "df": w*w - 1, "z": math.Round(z*1000) / 1000})
	}
	return out
}

var _ io.Reader = (*c03Reader)(nil)

//go:build verif

package light

// C14, light-node side of Pruner.Prune: "pruned" must mean that nothing of the block is left.
//
// The REAL light ShareAvailability samples generated blocks through the REAL bitswap getter (the wire is replaced by an
// in-process exchange that serves from the real bitswap.Blockstore over the squares and hands every body to the registered
// multihash, as the bitswap client does), so that sample blocks and the sampling result exist in a real blockstore /
// datastore.  Time then passes (a head far ahead is appended to a fake header store) and the REAL pruner.Service is
// started once per cycle - Stop + a new Service (and, per script, a new ShareAvailability) between the cycles - with the
// light availability as its Pruner and a blockstore whose DeleteBlock fails by script (none / some / the first / all /
// transient for k attempts / permanent).
//
// L3 (after every cycle, from the stores and the persisted checkpoint):
//   * a Prune call that returned nil leaves no sample block and no sampling result of that height;
//   * a Prune call that returned an error leaves the height in the checkpoint's failed set and the sampling result in place
//     (it is the only index of the remaining sample blocks);
//   * every height the checkpoint has passed and that is not in the failed set has nothing left; every height older than
//     the cutoff by more than a block time is pruned or recorded failed; heights inside the window are never touched;
//   * a failed height is retried by every cycle; once its faults are over everything is removed and the failed set drained.
// L2: every observed Prune call (stored samples and index before, fault pattern, verdict, stored samples and index after
//     the cycle) is re-computed by CN.Pruner.Light.prune_one inside Coq.

import (
	"context"
	"encoding/json"
	"errors"
	"fmt"
	"sort"
	"strconv"
	"strings"
	"sync"
	"testing"
	"time"

	"github.com/ipfs/boxo/blockstore"
	"github.com/ipfs/boxo/exchange"
	blocks "github.com/ipfs/go-block-format"
	"github.com/ipfs/go-cid"
	"github.com/ipfs/go-datastore"
	contextds "github.com/ipfs/go-datastore/context"
	dssync "github.com/ipfs/go-datastore/sync"
	logging "github.com/ipfs/go-log/v2"

	libhead "github.com/celestiaorg/go-header"

	"github.com/celestiaorg/celestia-node/header"
	"github.com/celestiaorg/celestia-node/pruner"
	"github.com/celestiaorg/celestia-node/share"
	"github.com/celestiaorg/celestia-node/share/eds"
	"github.com/celestiaorg/celestia-node/share/eds/edstest"
	"github.com/celestiaorg/celestia-node/share/shwap"
	"github.com/celestiaorg/celestia-node/share/shwap/p2p/bitswap"
	"github.com/celestiaorg/celestia-node/store"
	zv "github.com/celestiaorg/celestia-node/zzverif"
)

const c14lHeader = `From Coq Require Import List Bool NArith.
From CN Require Import Pruner.Light.
Import ListNotations.
`

const (
	c14lWindow    = time.Hour
	c14lBlockTime = 10 * time.Second
)

// ---------------------------------------------------------------- scenario (self-contained, JSON-replayable)

type c14lHeight struct {
	ODS      int    `json:"ods"`       // 0: empty block
	Samples  int    `json:"samples"`   // sample amount
	Partial  bool   `json:"partial"`   // the exchange withholds some samples: sampling ends with part of them available
	Kind     string `json:"faults"`    // fault kind of this height's DeleteBlock calls
	K        int    `json:"k"`         // transient: number of faulty attempts
	Seed     uint64 `json:"seed"`      // positions of the faults, withheld samples
	InWindow bool   `json:"in_window"` // derived: newer than the cutoff
}

type c14lScenario struct {
	Heights  []c14lHeight `json:"heights"` // heights 1..n
	Old      int          `json:"old"`     // heights 1..Old are at or before the cutoff, the rest inside the window
	Cycles   int          `json:"cycles"`
	Wiring   string       `json:"wiring"`   // node: datastore wrapped as nodebuilder does (deletes ride the service's write batch) | plain
	Recreate []bool       `json:"recreate"` // per cycle: a new ShareAvailability after the cycle (the service is always a new one)
}

var c14lKinds = []string{"none", "some-once", "first-once", "last-once", "all-once", "transient", "permanent-one", "permanent-all"}

// c14lPattern: which DeleteBlock calls of the attempt-th Prune call for a height with n listed samples fail.
func c14lPattern(h c14lHeight, attempt, n int) []bool {
	p := make([]bool, n)
	if n == 0 {
		return p
	}
	rng := zv.NewRand(h.Seed ^ uint64(attempt+1)*0x9e3779b97f4a7c15)
	some := func() {
		any := false
		for i := range p {
			p[i] = rng.Intn(3) == 0
			any = any || p[i]
		}
		if !any {
			p[rng.Intn(n)] = true
		}
	}
	switch h.Kind {
	case "some-once":
		if attempt == 0 {
			some()
		}
	case "first-once":
		if attempt == 0 {
			p[0] = true
		}
	case "last-once":
		if attempt == 0 {
			p[n-1] = true
		}
	case "all-once":
		if attempt == 0 {
			for i := range p {
				p[i] = true
			}
		}
	case "transient":
		if attempt < h.K {
			some()
		}
	case "permanent-one":
		p[int(h.Seed%uint64(n))] = true
	case "permanent-all":
		for i := range p {
			p[i] = true
		}
	}
	return p
}

// c14lHeals: the number of the first attempt (0-based) without any fault; -1: never.
func c14lHeals(h c14lHeight) int {
	switch h.Kind {
	case "none":
		return 0
	case "some-once", "first-once", "last-once", "all-once":
		return 1
	case "transient":
		return h.K
	}
	return -1
}

func c14lGen(rng *zv.Rand) c14lScenario {
	n := 2 + rng.Intn(4)
	sc := c14lScenario{Cycles: 5, Wiring: zv.Pick(rng, []string{"node", "node", "plain"})}
	sc.Old = 1 + rng.Intn(n)
	for i := 0; i < n; i++ {
		h := c14lHeight{ODS: zv.Pick(rng, []int{1, 2, 2, 4}), Samples: 1 + rng.Intn(12), Seed: rng.U64(), Kind: zv.Pick(rng, c14lKinds), K: 1 + rng.Intn(3)}
		if rng.Chance(10) {
			h.ODS = 0
		}
		h.Partial = rng.Chance(20)
		if rng.Chance(25) {
			h.Kind = "none"
		}
		h.InWindow = i+1 > sc.Old
		sc.Heights = append(sc.Heights, h)
	}
	for c := 0; c < sc.Cycles; c++ {
		sc.Recreate = append(sc.Recreate, rng.Bool())
	}
	return sc
}

// ---------------------------------------------------------------- the serving side: squares behind the real bitswap.Blockstore

type c14lAccessors struct {
	mu  sync.Mutex
	eds map[uint64]*eds.Rsmt2D
}

func (a *c14lAccessors) GetByHeight(_ context.Context, h uint64) (eds.AccessorStreamer, error) {
	a.mu.Lock()
	defer a.mu.Unlock()
	if e, ok := a.eds[h]; ok {
		return e, nil
	}
	return nil, store.ErrNotFound
}

func (a *c14lAccessors) HasByHeight(_ context.Context, h uint64) (bool, error) {
	a.mu.Lock()
	defer a.mu.Unlock()
	_, ok := a.eds[h]
	return ok, nil
}

// c14lExchange stands for the bitswap wire: every wanted block is read from the serving blockstore and its body handed to
// the multihash registered for the CID's prefix (which verifies it against the roots and fills the requester's container),
// exactly what the bitswap client does with the blocks of an incoming message.
type c14lExchange struct {
	serve    *bitswap.Blockstore
	mu       sync.Mutex
	withhold func(n int) bool // decides per requested block (by running number) whether it is withheld
	n        int
}

func (e *c14lExchange) one(ctx context.Context, c cid.Cid) (blocks.Block, error) {
	e.mu.Lock()
	skip := e.withhold != nil && e.withhold(e.n)
	e.n++
	e.mu.Unlock()
	if skip {
		return nil, errors.New("withheld")
	}
	blk, err := e.serve.Get(ctx, c)
	if err != nil {
		return nil, err
	}
	got, err := c.Prefix().Sum(blk.RawData())
	if err != nil {
		return nil, err
	}
	if !got.Equals(c) {
		return nil, errors.New("cid mismatch")
	}
	return blocks.NewBlockWithCid(blk.RawData(), got)
}

func (e *c14lExchange) GetBlock(ctx context.Context, c cid.Cid) (blocks.Block, error) {
	return e.one(ctx, c)
}
func (e *c14lExchange) GetBlocks(ctx context.Context, cids []cid.Cid) (<-chan blocks.Block, error) {
	out := make(chan blocks.Block, len(cids))
	for _, c := range cids {
		if blk, err := e.one(ctx, c); err == nil {
			out <- blk
		}
	}
	close(out)
	return out, nil
}
func (e *c14lExchange) NotifyNewBlocks(context.Context, ...blocks.Block) error { return nil }
func (e *c14lExchange) Close() error                                           { return nil }
func (e *c14lExchange) NewSession(context.Context) exchange.Fetcher            { return e }

// ---------------------------------------------------------------- fault-injecting blockstore

var errC14lIO = errors.New("verif: input/output error")

type c14lBS struct {
	blockstore.Blockstore
	mu      sync.Mutex
	pattern []bool // faults of the Prune call in progress, by DeleteBlock call number
	calls   int
	log     []bool // per DeleteBlock call of the Prune call in progress: failed?
}

func (b *c14lBS) begin(p []bool) {
	b.mu.Lock()
	b.pattern, b.calls, b.log = p, 0, nil
	b.mu.Unlock()
}

func (b *c14lBS) end() (calls int, log []bool) {
	b.mu.Lock()
	defer b.mu.Unlock()
	calls, log = b.calls, b.log
	b.pattern, b.calls, b.log = nil, 0, nil
	return calls, log
}

func (b *c14lBS) DeleteBlock(ctx context.Context, c cid.Cid) error {
	b.mu.Lock()
	i := b.calls
	b.calls++
	fail := i < len(b.pattern) && b.pattern[i]
	b.log = append(b.log, fail)
	b.mu.Unlock()
	if fail {
		return fmt.Errorf("delete %s: %w", c, errC14lIO)
	}
	return b.Blockstore.DeleteBlock(ctx, c)
}

// ---------------------------------------------------------------- fake header store (what pruner.Service asks of it)

type c14lStore struct {
	libhead.Store[*header.ExtendedHeader] // nil: every method the pruner does not call panics
	mu                                    sync.Mutex
	cond                                  *sync.Cond
	hdrs                                  []*header.ExtendedHeader // heights 1..len
	tailN                                 int
}

func (s *c14lStore) Head(context.Context, ...libhead.HeadOption[*header.ExtendedHeader]) (*header.ExtendedHeader, error) {
	s.mu.Lock()
	defer s.mu.Unlock()
	return s.hdrs[len(s.hdrs)-1], nil
}

func (s *c14lStore) Tail(context.Context) (*header.ExtendedHeader, error) {
	s.mu.Lock()
	defer s.mu.Unlock()
	s.tailN++
	s.cond.Broadcast()
	return s.hdrs[0], nil
}

func (s *c14lStore) tailCalls() int {
	s.mu.Lock()
	defer s.mu.Unlock()
	return s.tailN
}

func (s *c14lStore) waitTailCalls(atLeast int) {
	s.mu.Lock()
	for s.tailN < atLeast {
		s.cond.Wait()
	}
	s.mu.Unlock()
}

func (s *c14lStore) get(h uint64) (*header.ExtendedHeader, error) {
	if h < 1 || h > uint64(len(s.hdrs)) {
		return nil, libhead.ErrNotFound
	}
	return s.hdrs[h-1], nil
}

func (s *c14lStore) GetByHeight(_ context.Context, h uint64) (*header.ExtendedHeader, error) {
	s.mu.Lock()
	defer s.mu.Unlock()
	return s.get(h)
}

func (s *c14lStore) GetRangeByHeight(_ context.Context, from *header.ExtendedHeader, to uint64) ([]*header.ExtendedHeader, error) {
	s.mu.Lock()
	defer s.mu.Unlock()
	lo := from.Height() + 1
	if lo >= to {
		return nil, fmt.Errorf("invalid range(%d,%d)", lo, to)
	}
	var out []*header.ExtendedHeader
	for h := lo; h < to; h++ {
		eh, err := s.get(h)
		if err != nil {
			return nil, err
		}
		out = append(out, eh)
	}
	return out, nil
}

func (s *c14lStore) OnDelete(func(context.Context, uint64) error) {}

// ---------------------------------------------------------------- the Pruner handed to the service: the real availability, observed

type c14lCall struct {
	Height  uint64 `json:"height"`
	Attempt int    `json:"attempt"`
	Before  []bool `json:"present_before"`
	IdxB    bool   `json:"index_before"`
	Faults  []bool `json:"faults"`
	OK      bool   `json:"ok"`
	Deletes int    `json:"delete_calls"`
	After   []bool `json:"present_after"`
	IdxA    bool   `json:"index_after"`
	Err     string `json:"-"`
}

type c14lWorld struct {
	t        *testing.T
	ctx      context.Context
	sc       c14lScenario
	ds       datastore.Batching
	inner    blockstore.Blockstore
	bs       *c14lBS
	getter   *bitswap.Getter
	la       *ShareAvailability
	hdrs     []*header.ExtendedHeader // sampled heights 1..n
	cids     [][]cid.Cid              // per height: blocks of the listed (available) samples, in deletion order
	unlisted [][]cid.Cid              // per height: anything else of that height found in the blockstore after sampling (must be none)
	attempts map[uint64]int
	mu       sync.Mutex
	calls    []*c14lCall
}

func (w *c14lWorld) present(h int) []bool {
	out := make([]bool, len(w.cids[h]))
	for i, c := range w.cids[h] {
		ok, err := w.inner.Has(w.ctx, c)
		if err != nil {
			w.t.Fatalf("blockstore Has: %v", err)
		}
		out[i] = ok
	}
	return out
}

func (w *c14lWorld) hasIndex(h int) bool {
	ok, err := w.la.ds.Has(w.ctx, datastoreKeyForRoot(w.hdrs[h].DAH))
	if err != nil {
		w.t.Fatalf("datastore Has: %v", err)
	}
	return ok
}

func (w *c14lWorld) Prune(ctx context.Context, eh *header.ExtendedHeader) error {
	hi := int(eh.Height()) - 1
	if hi < 0 || hi >= len(w.hdrs) {
		// the head (never sampled, inside the window): must not be handed over; recorded as a call on an unknown height
		w.mu.Lock()
		w.calls = append(w.calls, &c14lCall{Height: eh.Height(), OK: true})
		w.mu.Unlock()
		return nil
	}
	w.mu.Lock()
	a := w.attempts[eh.Height()]
	w.attempts[eh.Height()] = a + 1
	w.mu.Unlock()
	call := &c14lCall{Height: eh.Height(), Attempt: a, Before: w.present(hi), IdxB: w.hasIndex(hi)}
	call.Faults = c14lPattern(w.sc.Heights[hi], a, len(w.cids[hi]))
	w.bs.begin(call.Faults)
	err := w.la.Prune(ctx, eh)
	call.Deletes, _ = w.bs.end()
	call.OK = err == nil
	if err != nil {
		call.Err = err.Error()
	}
	w.mu.Lock()
	w.calls = append(w.calls, call)
	w.mu.Unlock()
	return err
}

type c14lCheckpoint struct {
	LastPrunedHeight uint64              `json:"last_pruned_height"`
	FailedHeaders    map[uint64]struct{} `json:"failed"`
}

func (w *c14lWorld) checkpoint() (c14lCheckpoint, bool) {
	var cp c14lCheckpoint
	raw, err := w.ds.Get(w.ctx, datastore.NewKey("/pruner/checkpoint"))
	if errors.Is(err, datastore.ErrNotFound) {
		return cp, false
	}
	if err != nil {
		w.t.Fatalf("checkpoint: %v", err)
	}
	if err := json.Unmarshal(raw, &cp); err != nil {
		w.t.Fatalf("checkpoint: %v", err)
	}
	return cp, true
}

func c14lBools(xs []bool) string {
	ss := make([]string, len(xs))
	for i, x := range xs {
		ss[i] = zv.Bool(x)
	}
	return "[" + strings.Join(ss, "; ") + "]"
}

// ---------------------------------------------------------------- one scenario

func c14lRun(t *testing.T, r *zv.Run, g *zv.Group, sc c14lScenario, idx int) {
	ctx, cancel := context.WithCancel(context.Background())
	defer cancel()
	replay := map[string]any{"scenario": sc, "seed": r.Seed, "index": idx}
	viol := func(sig, desc string) { r.Violation(sig, desc, replay) }

	base := dssync.MutexWrap(datastore.NewMapDatastore())
	var ds datastore.Batching = base
	if sc.Wiring == "node" {
		ds = contextds.WrapDatastore(base).(datastore.Batching)
	}
	inner := blockstore.NewBlockstore(ds)
	w := &c14lWorld{t: t, ctx: ctx, sc: sc, ds: ds, inner: inner, bs: &c14lBS{Blockstore: inner}, attempts: map[uint64]int{}}
	acc := &c14lAccessors{eds: map[uint64]*eds.Rsmt2D{}}
	ex := &c14lExchange{serve: &bitswap.Blockstore{Getter: acc}}
	w.getter = bitswap.NewGetter(ex, w.bs, 0)
	w.getter.Start()
	defer w.getter.Stop()

	// ---- the chain: heights 1..n sampled now; times 10 s apart, all recent
	n := len(sc.Heights)
	t0 := time.Now().Add(-time.Duration(n+1) * c14lBlockTime)
	hs := &c14lStore{}
	hs.cond = sync.NewCond(&hs.mu)
	known := map[string]bool{}
	for i, hc := range sc.Heights {
		height := uint64(i + 1)
		var roots *share.AxisRoots
		if hc.ODS == 0 {
			roots = share.EmptyEDSRoots()
		} else {
			sq := edstest.RandEDS(t, hc.ODS)
			var err error
			if roots, err = share.NewAxisRoots(sq); err != nil {
				t.Fatal(err)
			}
			acc.mu.Lock()
			acc.eds[height] = &eds.Rsmt2D{ExtendedDataSquare: sq}
			acc.mu.Unlock()
		}
		eh := &header.ExtendedHeader{RawHeader: header.RawHeader{Height: int64(height), Time: t0.Add(time.Duration(i) * c14lBlockTime)}, DAH: roots}
		w.hdrs = append(w.hdrs, eh)
		hs.hdrs = append(hs.hdrs, eh)

		// ---- real sampling of this height (its own instance: its own sample amount), then a graceful Close
		ex.mu.Lock()
		ex.n = 0
		ex.withhold = nil
		if hc.Partial {
			seed := hc.Seed
			ex.withhold = func(k int) bool { return k > 0 && zv.NewRand(seed^uint64(k)).Intn(3) == 0 }
		}
		ex.mu.Unlock()
		sampler := NewShareAvailability(w.getter, ds, w.bs, WithSampleAmount(uint(hc.Samples)))
		serr := sampler.SharesAvailable(ctx, eh)
		if err := sampler.Close(ctx); err != nil {
			t.Fatal(err)
		}
		if serr != nil && !errors.Is(serr, share.ErrNotAvailable) {
			t.Fatalf("sampling height %d: %v", height, serr)
		}
		if serr != nil && !hc.Partial {
			t.Fatalf("sampling height %d with a complete exchange: %v", height, serr)
		}
		// what the sampling result lists, and what is in the blockstore
		var listed []cid.Cid
		if raw, err := ds.Get(ctx, datastore.NewKey("/sampling_result").Child(datastoreKeyForRoot(roots))); err == nil {
			var res SamplingResult
			if err := json.Unmarshal(raw, &res); err != nil {
				t.Fatal(err)
			}
			for _, s := range res.Available {
				blk, err := bitswap.NewEmptySampleBlock(height, shwap.SampleCoords{Row: s.Row, Col: s.Col}, len(roots.RowRoots))
				if err != nil {
					t.Fatal(err)
				}
				listed = append(listed, blk.CID())
			}
			r.Count("light_sampling", fmt.Sprintf("available=%d remaining=%d", c14lBucket(len(res.Available)), c14lBucket(len(res.Remaining))))
		} else if hc.ODS != 0 {
			t.Fatalf("no sampling result for height %d: %v", height, err)
		} else {
			r.Count("light_sampling", "empty-block")
		}
		w.cids = append(w.cids, listed)
		for _, c := range listed {
			known[string(c.Hash())] = true
		}
		// anything else stored by this sampling is a block no index lists
		var extra []cid.Cid
		keys, err := inner.AllKeysChan(ctx)
		if err != nil {
			t.Fatal(err)
		}
		for c := range keys {
			if !known[string(c.Hash())] {
				known[string(c.Hash())] = true
				extra = append(extra, c)
			}
		}
		w.unlisted = append(w.unlisted, extra)
		if len(extra) > 0 {
			viol("light-sample-stored-unlisted", fmt.Sprintf("after sampling height %d the blockstore holds %d block(s) the sampling result does not list: they can never be pruned", height, len(extra)))
		}
		for k, p := range w.presentAt(i, listed) {
			if !p {
				t.Fatalf("height %d: listed sample %d is not in the blockstore after sampling", height, k)
			}
		}
	}
	// ---- time passes: the head is one window (+5 s) ahead of height Old
	head := &header.ExtendedHeader{RawHeader: header.RawHeader{Height: int64(n + 1), Time: w.hdrs[sc.Old-1].Time().Add(c14lWindow + 5*time.Second)}, DAH: share.EmptyEDSRoots()}
	hs.hdrs = append(hs.hdrs, head)
	cutoff := head.Time().Add(-c14lWindow)

	w.la = NewShareAvailability(w.getter, ds, w.bs)
	lastResult := map[uint64]bool{} // height -> last Prune verdict
	for cyc := 0; cyc < sc.Cycles; cyc++ {
		_, hadCp := w.checkpoint()
		svc, err := pruner.NewService(w, c14lWindow, hs, ds, c14lBlockTime, pruner.WithPruneCycle(time.Hour))
		if err != nil {
			t.Fatal(err)
		}
		want := hs.tailCalls() + 1
		if !hadCp {
			want++ // Start initialises the checkpoint from the tail
		}
		if err := svc.Start(ctx); err != nil {
			t.Fatal(err)
		}
		hs.waitTailCalls(want)                         // the cycle has begun (it holds the checkpoint mutex) ...
		if _, err := svc.LastPruned(ctx); err != nil { // ... and this returns when it is over
			t.Fatal(err)
		}
		if err := svc.Stop(ctx); err != nil {
			t.Fatal(err)
		}
		cp, ok := w.checkpoint()
		if !ok {
			t.Fatal("no checkpoint after Stop")
		}
		if sc.Recreate[cyc] {
			if err := w.la.Close(ctx); err != nil {
				t.Fatal(err)
			}
			w.la = NewShareAvailability(w.getter, ds, w.bs)
		}
		w.mu.Lock()
		calls := w.calls
		w.calls = nil
		w.mu.Unlock()

		called := map[uint64]int{}
		for _, c := range calls {
			called[c.Height]++
			hi := int(c.Height) - 1
			if hi >= len(w.hdrs) || w.hdrs[hi].Time().After(cutoff) {
				viol("light-prune-in-window", fmt.Sprintf("cycle %d: height %d (inside the window) was handed to Prune", cyc+1, c.Height))
				continue
			}
			c.After, c.IdxA = w.present(hi), w.hasIndex(hi)
			lastResult[c.Height] = c.OK
			left := 0
			for _, p := range c.After {
				if p {
					left++
				}
			}
			kind := sc.Heights[hi].Kind
			r.Count("light_prune", fmt.Sprintf("%s attempt=%d ok=%v", kind, c14lBucket(c.Attempt), c.OK))
			nontriv := ""
			for _, f := range c.Faults {
				if f {
					nontriv = kind
				}
			}
			if c.Attempt > 0 {
				nontriv = kind + "-retry"
			}
			g.Case("(LPrune (mkL "+c14lBools(c.Before)+" "+zv.Bool(c.IdxB)+") "+c14lBools(c.Faults)+" "+zv.Bool(c.OK)+" (mkL "+c14lBools(c.After)+" "+zv.Bool(c.IdxA)+"))",
				map[string]any{"scenario": idx, "cycle": cyc + 1, "call": c, "wiring": sc.Wiring}, nontriv)
			if c.OK && (left > 0 || c.IdxA) {
				viol("light-prune-ok-leaves-data", fmt.Sprintf("cycle %d: Prune of height %d returned nil (faults %v, %d DeleteBlock calls) but %d of %d sample block(s) are still stored (sampling result present: %v): the height counts as pruned and is never visited again",
					cyc+1, c.Height, c.Faults, c.Deletes, left, len(c.After), c.IdxA))
			}
			if !c.OK {
				if _, in := cp.FailedHeaders[c.Height]; !in {
					viol("light-prune-error-not-recorded", fmt.Sprintf("cycle %d: Prune of height %d failed (%s) but the height is not in the persisted failed set %v", cyc+1, c.Height, c.Err, c14lSet(cp.FailedHeaders)))
				}
				if left > 0 && !c.IdxA {
					viol("light-prune-error-lost-index", fmt.Sprintf("cycle %d: Prune of height %d failed with %d sample block(s) left, but the sampling result (their only index) is gone", cyc+1, c.Height, left))
				}
				faulty := false
				for k := 0; k < c.Deletes && k < len(c.Faults); k++ {
					faulty = faulty || c.Faults[k]
				}
				if !faulty {
					viol("light-prune-error-without-fault", fmt.Sprintf("cycle %d: Prune of height %d failed without any injected fault: %s", cyc+1, c.Height, c.Err))
				}
			}
			if called[c.Height] > 1 {
				viol("light-prune-twice-in-cycle", fmt.Sprintf("cycle %d: height %d was handed to Prune %d times", cyc+1, c.Height, called[c.Height]))
			}
		}
		// ---- state oracles over all heights
		for hi := range w.hdrs {
			height := uint64(hi + 1)
			ht := w.hdrs[hi].Time()
			left := 0
			for _, p := range w.present(hi) {
				if p {
					left++
				}
			}
			idxNow := w.hasIndex(hi)
			_, failed := cp.FailedHeaders[height]
			mustPrune := ht.Add(c14lBlockTime).Before(cutoff)
			switch {
			case ht.After(cutoff):
				if left != len(w.cids[hi]) || (len(w.cids[hi]) > 0 && !idxNow) {
					viol("light-in-window-data-removed", fmt.Sprintf("cycle %d: height %d is inside the window but %d of its %d sample blocks / its sampling result (present: %v) are gone", cyc+1, height, len(w.cids[hi])-left, len(w.cids[hi]), idxNow))
				}
			case w.attempts[height] == 0:
				if mustPrune {
					viol("light-old-height-skipped", fmt.Sprintf("cycle %d: height %d is older than the cutoff by more than a block time but was never handed to Prune (checkpoint %d, failed %v)", cyc+1, height, cp.LastPrunedHeight, c14lSet(cp.FailedHeaders)))
				}
			case !failed:
				if left > 0 || idxNow {
					viol("light-pruned-height-leftover", fmt.Sprintf("cycle %d: height %d was handed to Prune and is not in the failed set %v (last pruned %d), but %d sample block(s) are still stored (sampling result present: %v): neither pruned nor recorded as failed",
						cyc+1, height, c14lSet(cp.FailedHeaders), cp.LastPrunedHeight, left, idxNow))
				}
			default:
				if called[height] == 0 {
					viol("light-failed-not-retried", fmt.Sprintf("cycle %d: height %d is in the failed set but was not handed to Prune", cyc+1, height))
				} else if lastResult[height] {
					viol("light-pruned-still-failed", fmt.Sprintf("cycle %d: height %d was pruned successfully but is still in the failed set", cyc+1, height))
				}
			}
		}
	}
	// ---- after the last cycle: transient faults are over
	cp, _ := w.checkpoint()
	for hi, hc := range sc.Heights {
		height := uint64(hi + 1)
		if w.hdrs[hi].Time().After(cutoff) {
			continue
		}
		if w.attempts[height] == 0 {
			continue // not old enough to be found (reported above when it had to be)
		}
		heals := c14lHeals(hc)
		left := 0
		for _, p := range w.present(hi) {
			if p {
				left++
			}
		}
		_, failed := cp.FailedHeaders[height]
		if heals >= 0 && heals < sc.Cycles {
			if left > 0 || w.hasIndex(hi) || failed {
				viol("light-transient-not-removed", fmt.Sprintf("height %d (faults %q, clean from attempt %d) after %d cycles: %d sample block(s) left, sampling result present: %v, in failed set: %v",
					height, hc.Kind, heals+1, sc.Cycles, left, w.hasIndex(hi), failed))
			}
			if w.attempts[height] != heals+1 && len(w.cids[hi]) > 0 {
				viol("light-attempt-count", fmt.Sprintf("height %d (faults %q) was handed to Prune %d times, expected %d (once per cycle until it succeeds)", height, hc.Kind, w.attempts[height], heals+1))
			}
		} else if len(w.cids[hi]) > 0 {
			if !failed || !w.hasIndex(hi) || w.attempts[height] != sc.Cycles {
				viol("light-permanent-fault-forgotten", fmt.Sprintf("height %d (faults %q) after %d cycles: in failed set: %v, sampling result present: %v, attempts: %d, %d block(s) left",
					height, hc.Kind, sc.Cycles, failed, w.hasIndex(hi), w.attempts[height], left))
			}
		}
	}
	r.Count("light_wiring", sc.Wiring)
}

func (w *c14lWorld) presentAt(_ int, cids []cid.Cid) []bool {
	out := make([]bool, len(cids))
	for i, c := range cids {
		out[i], _ = w.inner.Has(w.ctx, c)
	}
	return out
}

func c14lBucket(n int) int {
	if n > 3 {
		return 4
	}
	return n
}

func c14lSet(m map[uint64]struct{}) string {
	var ks []int
	for k := range m {
		ks = append(ks, int(k))
	}
	sort.Ints(ks)
	ss := make([]string, len(ks))
	for i, k := range ks {
		ss[i] = strconv.Itoa(k)
	}
	return "{" + strings.Join(ss, ",") + "}"
}

func TestVerifC14Light(t *testing.T) {
	r := zv.Start(t, "C14")
	defer r.Finish()
	g := r.Group("light", c14lHeader, "lcase", "light_mismatches")
	// every injected fault is logged as an error by the service and the availability: keep the run's log readable
	_ = logging.SetLogLevel("pruner/service", "fatal")
	_ = logging.SetLogLevel("share/light", "fatal")
	var rp struct {
		Scenario c14lScenario `json:"scenario"`
	}
	if r.ReplayInput(&rp) && len(rp.Scenario.Heights) > 0 {
		c14lRun(t, r, g, rp.Scenario, 0)
		return
	}
	rng := r.Rand()
	// directed: every fault kind once on a two-height chain, both wirings
	i := 0
	for _, wiring := range []string{"node", "plain"} {
		for _, kind := range c14lKinds {
			sc := c14lScenario{Cycles: 5, Wiring: wiring, Old: 2, Recreate: []bool{true, false, true, false, true}}
			sc.Heights = []c14lHeight{
				{ODS: 2, Samples: 6, Kind: kind, K: 2, Seed: rng.U64()},
				{ODS: 2, Samples: 4, Kind: "none", Seed: rng.U64()},
				{ODS: 2, Samples: 3, Kind: "none", Seed: rng.U64(), InWindow: true},
			}
			c14lRun(t, r, g, sc, i)
			i++
		}
	}
	for k := 0; k < r.N(150, 2000); k++ {
		c14lRun(t, r, g, c14lGen(rng.Fork(uint64(k))), i)
		i++
	}
	r.Set("light_scenarios", i)
}

//go:build verif

package shwap_test

// C01: verified shares are exactly the shares committed at the requested position.
// For every generated square: honest responses and forgery families for samples, rows and share ranges are run through
// the REAL verifiers; each (input, verdict) is emitted as a Coq case for the model (L2), and the implementation
// oracle (L3) reports any accepted response whose shares differ from the committed ones at the requested position.

import (
	"bytes"
	"context"
	"fmt"
	"testing"

	libshare "github.com/celestiaorg/go-square/v4/share"
	"github.com/celestiaorg/nmt"
	"github.com/celestiaorg/rsmt2d"

	"github.com/celestiaorg/celestia-node/share"
	"github.com/celestiaorg/celestia-node/share/shwap"
	zv "github.com/celestiaorg/celestia-node/zzverif"
)

type c01Info struct {
	Kind   string `json:"kind"`
	K      int    `json:"k"`
	Layout string `json:"layout"`
	Target string `json:"target"`
	Forge  string `json:"forgery"`
	Accept bool   `json:"accepted"`
}

func TestVerifC01(t *testing.T) {
	r := zv.Start(t, "C01")
	defer r.Finish()
	g := r.Group("verify", c01Header, "vcase", "mismatches")
	rng := r.Rand()
	sy := newSymb()
	defer func() { g.Header = sy.WriteDefs(r.Out, "c01") }() // runs before r.Finish: all named digests / namespaces
	ctx := context.Background()

	layouts := []string{"single", "many", "spanning", "padded", "reserved"}
	type plan struct {
		k, reps int
		model   bool
	}
	plans := []plan{{1, 1, true}, {2, 1, true}, {4, 1, true}, {8, 1, false}}
	if r.Thorough() {
		plans = []plan{{1, 3, true}, {2, 10, true}, {4, 8, true}, {8, 3, true}, {16, 1, false}, {32, 1, false}}
	}
	var prev *square
	for _, pl := range plans {
		for rep := 0; rep < pl.reps; rep++ {
			for _, lay := range layouts {
				if pl.k == 1 && (lay == "padded" || lay == "spanning" || lay == "reserved") {
					continue
				}
				if pl.k >= 8 && rep == 0 && lay != "spanning" && lay != "padded" && !r.Thorough() {
					continue
				}
				q := genSquare(t, sy, rng.Fork(uint64(pl.k*1000+rep)), pl.k, lay)
				other := prev
				if other == nil || other.k != q.k {
					other = genSquare(t, sy, rng.Fork(uint64(pl.k*1000+rep+500)), pl.k, "many")
				}
				c01Trees(r, g, sy, q, pl.model)
				c01Samples(t, r, g, sy, rng, q, other, pl.model)
				c01Rows(t, r, g, sy, rng, q, other, pl.model)
				c01Ranges(t, ctx, r, g, sy, rng, q, other, pl.model)
				prev = q
				r.Count("squares", fmt.Sprintf("k=%d/%s", pl.k, lay))
			}
		}
	}
}

// forgeChance: percentage of honest samples that get the full forgery family in the quick tier
func forgeChance(w int) int {
	switch {
	case w <= 2:
		return 100
	case w <= 4:
		return 15
	case w <= 8:
		return 5
	}
	return 10
}

// ---------------------------------------------------------------- honest tree = model tree
func c01Trees(r *zv.Run, g *zv.Group, sy *symb, q *square, model bool) {
	if !model {
		return
	}
	d := 0
	for 1<<d < 2*q.k {
		d++
	}
	for i := 0; i < 2*q.k; i++ {
		if q.k > 2 && i%3 != 0 {
			continue
		}
		g.Case(zv.App("CTree", zv.Nat(d), sy.digs(q.rowLeaves[i]), sy.dig(q.roots.RowRoots[i])),
			c01Info{Kind: "tree", K: q.k, Layout: q.layout, Target: fmt.Sprint("row ", i), Accept: true}, "tree")
		r.Count("case", "tree")
	}
}

// ---------------------------------------------------------------- samples
func c01Samples(t *testing.T, r *zv.Run, g *zv.Group, sy *symb, rng *zv.Rand, q, other *square, model bool) {
	w := 2 * q.k
	check := func(s shwap.Sample, row, col int, forge string) {
		var err error
		if p := zv.Recover(func() { err = s.Verify(q.roots, row, col) }); p != "" {
			r.Violation("sample-verify-panic", "Sample.Verify panicked: "+p, c01Info{Kind: "sample", K: q.k, Layout: q.layout, Target: joinInts(row, col), Forge: forge})
			return
		}
		acc := err == nil
		info := c01Info{Kind: "sample", K: q.k, Layout: q.layout, Target: joinInts(row, col), Forge: forge, Accept: acc}
		if acc && !bytes.Equal(s.Share.ToBytes(), q.eds.GetCell(uint(row), uint(col))) {
			r.Violation("sample-wrong-share-accepted:"+forge, fmt.Sprintf("k=%d (%d,%d): a sample whose share is not the committed share at that coordinate verifies", q.k, row, col), info)
		}
		if forge == "honest" && !acc {
			r.Violation("sample-honest-rejected", fmt.Sprintf("k=%d (%d,%d) axis %d: honest sample rejected: %v", q.k, row, col, s.ProofType, err), info)
		}
		r.Count("sample", forge+fmt.Sprintf("/accept=%v", acc))
		if model && proofOK(s.Proof) {
			key := ""
			if forge != "honest" || true {
				key = "x"
			}
			term := zv.App("CSample", sy.rootsAt(q.roots, row, col),
				zv.App("mksample", sy.share(s.Share), sy.proof(s.Proof), zv.Nat(int(s.ProofType))),
				zv.Nat(row), zv.Nat(col), zv.Bool(acc))
			g.Case(term, info, key)
		}
	}
	coords := [][2]int{}
	if w <= 4 {
		for i := 0; i < w; i++ {
			for j := 0; j < w; j++ {
				coords = append(coords, [2]int{i, j})
			}
		}
	} else {
		for n := 0; n < r.N(6, 24); n++ {
			coords = append(coords, [2]int{rng.Intn(w), rng.Intn(w)})
		}
		coords = append(coords, [2]int{0, 0}, [2]int{w - 1, w - 1}, [2]int{q.k - 1, q.k}, [2]int{q.k, q.k - 1})
	}
	for _, c := range coords {
		row, col := c[0], c[1]
		for _, axis := range []rsmt2d.Axis{rsmt2d.Row, rsmt2d.Col} {
			s, err := q.acc.SampleForProofAxis(shwap.SampleCoords{Row: row, Col: col}, axis)
			if err != nil {
				t.Fatal(err)
			}
			check(s, row, col, "honest")
			if (r.Thorough() && (w <= 4 || rng.Chance(40))) || (!r.Thorough() && rng.Chance(forgeChance(w))) {
				// presented for other coordinates (shifted row / col / both)
				for _, d := range [][2]int{{0, 1}, {1, 0}, {1, 1}, {0, w / 2}, {w / 2, 0}} {
					check(s, (row+d[0])%w, (col+d[1])%w, "shifted")
				}
				// wrong axis flag
				f := s
				f.ProofType = 1 - s.ProofType
				check(f, row, col, "axis-flipped")
				f.ProofType = 2
				check(f, row, col, "axis-invalid")
				// an out-of-enum axis together with other coordinates: the sites that interpret the axis must agree
				for _, pt := range []rsmt2d.Axis{2, 3, 7} {
					f.ProofType = pt
					for _, d := range [][2]int{{0, 1}, {1, 0}, {1, 1}, {w - 1, 0}, {0, w - 1}} {
						check(f, (row+d[0])%w, (col+d[1])%w, "axis-invalid-shifted")
					}
				}
				// start/end moved, node list kept / trimmed (position "promotion" when the nodes run out)
				for _, delta := range []int{1, 2, w / 2, w, 2 * w} {
					for _, trim := range []int{0, 1} {
						nodes := cloneNodes(s.Proof.Nodes())
						if trim <= len(nodes) {
							nodes = nodes[:len(nodes)-trim]
						}
						f := s
						f.Proof = cloneProof(s.Proof, s.Proof.Start()+delta, s.Proof.End()+delta, nodes, nil)
						check(f, row, col, "range-moved")
						if axis == rsmt2d.Row && col+delta < w {
							check(f, row, col+delta, "range-moved-and-requested")
						}
						if axis == rsmt2d.Col && row+delta < w {
							check(f, row+delta, col, "range-moved-and-requested")
						}
					}
				}
				// widened range
				f = s
				f.Proof = cloneProof(s.Proof, s.Proof.Start(), s.Proof.End()+1, cloneNodes(s.Proof.Nodes()), nil)
				check(f, row, col, "range-widened")
				// nodes dropped / duplicated / swapped / borrowed from the neighbour
				nodes := cloneNodes(s.Proof.Nodes())
				if len(nodes) > 0 {
					f.Proof = cloneProof(s.Proof, s.Proof.Start(), s.Proof.End(), nodes[1:], nil)
					check(f, row, col, "node-dropped")
					f.Proof = cloneProof(s.Proof, s.Proof.Start(), s.Proof.End(), append(cloneNodes(nodes), nodes[0]), nil)
					check(f, row, col, "node-appended")
				}
				if len(nodes) > 1 {
					sw := cloneNodes(nodes)
					sw[0], sw[1] = sw[1], sw[0]
					f.Proof = cloneProof(s.Proof, s.Proof.Start(), s.Proof.End(), sw, nil)
					check(f, row, col, "nodes-swapped")
				}
				nb, _ := q.acc.SampleForProofAxis(shwap.SampleCoords{Row: (row + 1) % w, Col: (col + 1) % w}, axis)
				f = s
				f.Proof = cloneProof(s.Proof, s.Proof.Start(), s.Proof.End(), cloneNodes(nb.Proof.Nodes()), nil)
				check(f, row, col, "proof-borrowed")
				f = s
				f.Share = nb.Share
				check(f, row, col, "share-substituted")
				f.Share = mutateShare(s.Share, rng, true)
				check(f, row, col, "share-mutated")
				f.Share = mutateShare(s.Share, rng, false)
				check(f, row, col, "share-mutated")
				// material from a different square
				os, _ := other.acc.SampleForProofAxis(shwap.SampleCoords{Row: row, Col: col}, axis)
				check(os, row, col, "other-square")
				f = s
				f.Share = os.Share
				check(f, row, col, "other-square-share")
				// a node with a flipped byte (namespace part / hash part), a node of the wrong length
				if len(nodes) > 0 {
					for _, pos := range []int{rng.Intn(2 * nsSize), 2*nsSize + rng.Intn(32)} {
						mn := cloneNodes(nodes)
						mn[rng.Intn(len(mn))][pos] ^= 0x40
						f = s
						f.Proof = cloneProof(s.Proof, s.Proof.Start(), s.Proof.End(), mn, nil)
						check(f, row, col, "node-mutated")
					}
					mn := cloneNodes(nodes)
					mn[0] = mn[0][:len(mn[0])-1]
					f = s
					f.Proof = cloneProof(s.Proof, s.Proof.Start(), s.Proof.End(), mn, nil)
					check(f, row, col, "node-short")
				}
				// absence-flavoured proof and empty proof
				f = s
				f.Proof = cloneProof(s.Proof, s.Proof.Start(), s.Proof.End(), cloneNodes(nodes), q.rowLeaves[row][col])
				check(f, row, col, "absence-flavoured")
				ep := nmt.NewEmptyRangeProof(true)
				f.Proof = &ep
				check(f, row, col, "empty-proof")
				f.Proof = nil
				check(f, row, col, "nil-proof")
			}
		}
	}
}

// ---------------------------------------------------------------- rows
func c01Rows(t *testing.T, r *zv.Run, g *zv.Group, sy *symb, rng *zv.Rand, q, other *square, model bool) {
	w := 2 * q.k
	type tbl struct{ dl, dr []string }
	decode := func(half []libshare.Share, side int) ([]libshare.Share, bool) {
		full := make([]libshare.Share, 2*len(half))
		copy(full[side*len(half):], half)
		out, err := share.DefaultRSMT2DCodec().Decode(libshare.ToBytes(full))
		if err != nil {
			return nil, false
		}
		shs, err := libshare.FromBytes(out)
		if err != nil {
			return nil, false
		}
		return shs, true
	}
	entry := func(half []libshare.Share, side int) string {
		full, ok := decode(half, side)
		return zv.Tuple(sy.shares(half), zv.Opt(ok, sy.shares(full)))
	}
	check := func(shs []libshare.Share, side shwap.RowSide, idx int, forge string) {
		orig := append([]libshare.Share{}, shs...)
		row := shwap.NewRow(append([]libshare.Share{}, shs...), side)
		var err error
		if p := zv.Recover(func() { err = row.Verify(q.roots, idx) }); p != "" {
			r.Violation("row-verify-panic", "Row.Verify panicked: "+p, c01Info{Kind: "row", K: q.k, Target: fmt.Sprint(idx), Forge: forge})
			return
		}
		acc := err == nil
		info := c01Info{Kind: "row", K: q.k, Layout: q.layout, Target: fmt.Sprintf("row %d side %d", idx, side), Forge: forge, Accept: acc}
		if acc {
			got, _ := row.Shares()
			if !eqBytes2(flatBytes(got), q.eds.Row(uint(idx))) {
				r.Violation("row-wrong-shares-accepted:"+forge, fmt.Sprintf("k=%d row %d: a row that differs from the committed row verifies", q.k, idx), info)
			}
		}
		if forge == "honest" && !acc {
			r.Violation("row-honest-rejected", fmt.Sprintf("k=%d row %d side %d: %v", q.k, idx, side, err), info)
		}
		r.Count("row", forge+fmt.Sprintf("/accept=%v", acc))
		if model && len(orig) > 0 {
			dl, dr := "[]", "[]"
			if side == shwap.Left {
				dl = zv.List([]string{entry(orig, 0)})
			}
			if side == shwap.Right {
				dr = zv.List([]string{entry(orig, 1)})
			}
			g.Case(zv.App("CRow", dl, dr, sy.rootsAt(q.roots, idx, -1), zv.Nat(int(side)), sy.shares(orig), zv.Nat(idx), zv.Bool(acc)), info, "x")
		}
	}
	rows := []int{0, q.k - 1, q.k, w - 1}
	if w <= 4 {
		rows = nil
		for i := 0; i < w; i++ {
			rows = append(rows, i)
		}
	}
	for _, idx := range rows {
		for _, side := range []shwap.RowSide{shwap.Left, shwap.Right, shwap.Both} {
			hr, err := q.acc.HalfRow(idx, side)
			if err != nil {
				t.Fatal(err)
			}
			shs, _ := hr.Shares() // for Left/Right this decodes; take the raw halves from the square instead
			full, _ := libshare.FromBytes(q.eds.Row(uint(idx)))
			var half []libshare.Share
			switch side {
			case shwap.Left:
				half = full[:q.k]
			case shwap.Right:
				half = full[q.k:]
			default:
				half = full
			}
			_ = shs
			check(half, side, idx, "honest")
			check(half, side, (idx+1)%w, "shifted-row")
			if side != shwap.Both {
				check(half, 1-side, idx, "wrong-side")
			}
			ofull, _ := libshare.FromBytes(other.eds.Row(uint(idx)))
			oh := ofull
			if side == shwap.Left {
				oh = ofull[:q.k]
			} else if side == shwap.Right {
				oh = ofull[q.k:]
			}
			check(oh, side, idx, "other-square")
			if len(half) > 1 {
				sw := append([]libshare.Share{}, half...)
				sw[0], sw[len(sw)-1] = sw[len(sw)-1], sw[0]
				check(sw, side, idx, "reordered")
				check(half[:len(half)-1], side, idx, "truncated")
			}
			mu := append([]libshare.Share{}, half...)
			mu[rng.Intn(len(mu))] = mutateShare(mu[0], rng, true)
			check(mu, side, idx, "share-mutated")
			check(append(append([]libshare.Share{}, half...), half[0]), side, idx, "extended")
			check(half, shwap.RowSide(3), idx, "invalid-side")
		}
	}
}

// ---------------------------------------------------------------- share ranges
func c01Ranges(t *testing.T, ctx context.Context, r *zv.Run, g *zv.Group, sy *symb, rng *zv.Rand, q, other *square, model bool) {
	k := q.k
	// maximal single-namespace runs of the ODS
	type run struct{ from, to int } // [from, to)
	var runs []run
	for i := 0; i < k*k; {
		j := i
		for j < k*k && q.ods[j].Namespace().Equals(q.ods[i].Namespace()) {
			j++
		}
		runs = append(runs, run{i, j})
		i = j
	}
	coordsOf := func(i int) shwap.SampleCoords { return shwap.SampleCoords{Row: i / k, Col: i % k} }
	extEntry := func(row []libshare.Share) string {
		if len(row) == 0 {
			return ""
		}
		ext, err := share.ExtendShares(row)
		if err != nil {
			return zv.Tuple(sy.shares(row), "None")
		}
		return zv.Tuple(sy.shares(row), zv.Some(sy.shares(ext[len(row):])))
	}
	check := func(d shwap.RangeNamespaceData, from, to int, forge string) {
		fc, tc := coordsOf(from), coordsOf(to-1)
		if tc.Row < fc.Row || tc.Row >= 2*k {
			return
		}
		expected := q.roots.RowRoots[fc.Row : tc.Row+1]
		// snapshot the input: verification may not mutate it, but be safe
		var err error
		if p := zv.Recover(func() { err = d.VerifyInclusion(fc, tc, k, expected) }); p != "" {
			r.Violation("range-verify-panic:"+forge, "RangeNamespaceData.VerifyInclusion panicked: "+p,
				c01Info{Kind: "range", K: k, Layout: q.layout, Target: joinInts(from, to), Forge: forge})
			return
		}
		acc := err == nil
		info := c01Info{Kind: "range", K: k, Layout: q.layout, Target: joinInts(from, to), Forge: forge, Accept: acc}
		if acc {
			want := flatBytes(q.ods[from:to])
			if !eqBytes2(flatBytes(d.Flatten()), want) {
				r.Violation("range-wrong-shares-accepted:"+forge, fmt.Sprintf("k=%d range [%d,%d): a response whose shares are not the committed shares of that range verifies", k, from, to), info)
			}
		}
		if forge == "honest" && !acc {
			r.Violation("range-honest-rejected", fmt.Sprintf("k=%d [%d,%d): %v", k, from, to, err), info)
		}
		r.Count("range", forge+fmt.Sprintf("/accept=%v", acc))
		if model && proofOK(d.FirstIncompleteRowProof) && proofOK(d.LastIncompleteRowProof) {
			var ext []string
			rowsT := make([]string, len(d.Shares))
			for i, row := range d.Shares {
				rowsT[i] = sy.shares(row)
				if e := extEntry(row); e != "" {
					ext = append(ext, e)
				}
			}
			term := zv.App("CRange", zv.List(ext),
				zv.App("mkrng", zv.List(rowsT), sy.proof(d.FirstIncompleteRowProof), sy.proof(d.LastIncompleteRowProof)),
				zv.Nat(fc.Row), zv.Nat(fc.Col), zv.Nat(tc.Row), zv.Nat(tc.Col), zv.Nat(k), sy.digs(expected), "false", zv.Bool(acc))
			g.Case(term, info, "x")
		}
	}
	cp := func(d shwap.RangeNamespaceData) shwap.RangeNamespaceData {
		out := shwap.RangeNamespaceData{FirstIncompleteRowProof: d.FirstIncompleteRowProof, LastIncompleteRowProof: d.LastIncompleteRowProof}
		for _, row := range d.Shares {
			out.Shares = append(out.Shares, append([]libshare.Share{}, row...))
		}
		return out
	}
	honest := func(from, to int) (shwap.RangeNamespaceData, bool) {
		d, err := q.acc.RangeNamespaceData(ctx, from, to)
		return d, err == nil
	}
	nTargets := 0
	for _, ru := range runs {
		if q.ods[ru.from].Namespace().IsTailPadding() {
			continue
		}
		var targets []run
		ln := ru.to - ru.from
		targets = append(targets, ru)
		for n := 0; n < 4 && ln > 1; n++ {
			a := ru.from + rng.Intn(ln)
			b := a + 1 + rng.Intn(ru.to-a)
			targets = append(targets, run{a, b})
		}
		// ranges that start mid-row and end mid-row of a later row (needs both proofs)
		if ln > k+1 {
			targets = append(targets, run{ru.from + 1, ru.to - 1})
			a := (ru.from/k+1)*k - 1 // last column of the first row
			if a+2 <= ru.to {
				targets = append(targets, run{a, a + 2})
			}
		}
		// single-row ranges that start at column 0 and end mid-row, or start mid-row and end at the last column
		// (exactly one proof, on one side only), and whole rows
		for rowStart := ((ru.from + k - 1) / k) * k; rowStart < ru.to && k > 1; rowStart += k {
			for _, w := range []int{1, k / 2, k - 1, k} {
				if w >= 1 && rowStart+w <= ru.to {
					targets = append(targets, run{rowStart, rowStart + w})
				}
			}
			if rowStart+k <= ru.to {
				targets = append(targets, run{rowStart + 1, rowStart + k}, run{rowStart + k - 1, rowStart + k})
			}
			if len(targets) > 24 {
				break
			}
		}
		for _, tg := range targets {
			if nTargets > r.N(60, 400) && k > 1 {
				break
			}
			nTargets++
			d, ok := honest(tg.from, tg.to)
			if !ok {
				continue
			}
			check(cp(d), tg.from, tg.to, "honest")
			// presented for a shifted / wider / narrower request
			check(cp(d), tg.from+1, tg.to+1, "request-shifted")
			if tg.to < k*k {
				check(cp(d), tg.from, tg.to+1, "request-wider")
			}
			if tg.to-tg.from > 1 {
				check(cp(d), tg.from, tg.to-1, "request-narrower")
				check(cp(d), tg.from+1, tg.to, "request-narrower")
			}
			// the honest response of a neighbouring range of the same length (shifted right / left inside the square,
			// with its own valid proofs) presented for this request
			for _, j := range []int{1, 2, -1, k, -k} {
				if tg.from+j < 0 || tg.to+j > k*k || j == 0 {
					continue
				}
				if sd, ok := honest(tg.from+j, tg.to+j); ok {
					check(sd, tg.from, tg.to, fmt.Sprintf("response-shifted%+d", j))
				}
			}
			// proofs dropped / swapped
			f := cp(d)
			f.FirstIncompleteRowProof = nil
			check(f, tg.from, tg.to, "first-proof-dropped")
			f = cp(d)
			f.LastIncompleteRowProof = nil
			check(f, tg.from, tg.to, "last-proof-dropped")
			f = cp(d)
			f.FirstIncompleteRowProof, f.LastIncompleteRowProof = d.LastIncompleteRowProof, d.FirstIncompleteRowProof
			check(f, tg.from, tg.to, "proofs-swapped")
			// re-sliced across rows keeping the total: move the cut between the first and the second row
			fc, tc := coordsOf(tg.from), coordsOf(tg.to-1)
			if tc.Row > fc.Row {
				total := tg.to - tg.from
				// full first row (no first proof) + the rest taken from the END of the last row's columns
				f = shwap.RangeNamespaceData{}
				firstFull, _ := libshare.FromBytes(q.eds.Row(uint(fc.Row)))
				f.Shares = append(f.Shares, firstFull[:k])
				rest := total - k
				for rw := fc.Row + 1; rw <= tc.Row && rest > 0; rw++ {
					rowShares, _ := libshare.FromBytes(q.eds.Row(uint(rw)))
					if rw < tc.Row {
						n := k
						if n > rest {
							n = rest
						}
						f.Shares = append(f.Shares, rowShares[:n])
						rest -= n
					} else {
						// last row: columns ending at to.Col, as many as needed to keep the total
						lo := tc.Col + 1 - rest
						if lo < 0 {
							lo = 0
						}
						f.Shares = append(f.Shares, rowShares[lo:tc.Col+1])
						pr, err := q.rowTree(rw).ProveRange(lo, tc.Col+1)
						if err == nil {
							f.LastIncompleteRowProof = &pr
						}
						rest -= tc.Col + 1 - lo
					}
				}
				if len(f.Shares) == tc.Row-fc.Row+1 && rest == 0 {
					check(f, tg.from, tg.to, "resliced-across-rows")
				}
				// partial first row presented without its proof
				f = cp(d)
				f.FirstIncompleteRowProof = nil
				if len(f.Shares[0]) < k {
					pad, _ := libshare.FromBytes(q.eds.Row(uint(fc.Row)))
					f.Shares[0] = pad[:k]
					last := f.Shares[len(f.Shares)-1]
					cut := k - len(d.Shares[0])
					if len(last) > cut {
						f.Shares[len(f.Shares)-1] = last[cut:]
						check(f, tg.from, tg.to, "first-row-completed-last-row-trimmed")
					}
				}
			}
			// a share replaced / two shares swapped / material from another square
			f = cp(d)
			f.Shares[0][0] = mutateShare(f.Shares[0][0], rng, true)
			check(f, tg.from, tg.to, "share-mutated")
			if tg.to-tg.from > 1 {
				f = cp(d)
				lr := len(f.Shares) - 1
				a, b := &f.Shares[0][0], &f.Shares[lr][len(f.Shares[lr])-1]
				*a, *b = *b, *a
				check(f, tg.from, tg.to, "shares-swapped")
			}
			if od, err := other.acc.RangeNamespaceData(ctx, tg.from, tg.to); err == nil {
				check(od, tg.from, tg.to, "other-square")
			}
			// proof start/end perturbed
			if d.FirstIncompleteRowProof != nil {
				p := d.FirstIncompleteRowProof
				f = cp(d)
				f.FirstIncompleteRowProof = cloneProof(p, p.Start(), p.End()+1, cloneNodes(p.Nodes()), nil)
				check(f, tg.from, tg.to, "first-proof-widened")
				f = cp(d)
				f.FirstIncompleteRowProof = cloneProof(p, p.Start()+1, p.End()+1, cloneNodes(p.Nodes()), nil)
				check(f, tg.from, tg.to, "first-proof-moved")
				if len(p.Nodes()) > 0 {
					f = cp(d)
					f.FirstIncompleteRowProof = cloneProof(p, p.Start(), p.End(), cloneNodes(p.Nodes())[1:], nil)
					check(f, tg.from, tg.to, "first-proof-node-dropped")
				}
			}
			if d.LastIncompleteRowProof != nil {
				p := d.LastIncompleteRowProof
				f = cp(d)
				f.LastIncompleteRowProof = cloneProof(p, p.Start()+1, p.End(), cloneNodes(p.Nodes()), nil)
				check(f, tg.from, tg.to, "last-proof-narrowed")
			}
			// rows dropped / duplicated
			if len(d.Shares) > 1 {
				f = cp(d)
				f.Shares = f.Shares[1:]
				check(f, tg.from, tg.to, "row-dropped")
				f = cp(d)
				f.Shares = append(f.Shares[:1], f.Shares...)
				check(f, tg.from, tg.to, "row-duplicated")
			}
			f = cp(d)
			f.Shares = nil
			check(f, tg.from, tg.to, "no-shares")
		}
	}
}

//go:build verif

package shwap_test

// C02: verified namespace data is complete. Built with the C01 helper files (overlay tag c01).
// Honest NamespaceData / RowNamespaceData for every class of namespace (present in one row, spanning rows, filling rows,
// absent inside a row's range, absent outside every range, reserved) and the forgery families of the property text go
// through the REAL verifiers; each (input, verdict) is a Coq case (L2); the oracle (L3) reports accepted responses whose
// flattened shares are not exactly the namespace's shares in block order, or that cover the wrong rows.

import (
	"context"
	"fmt"
	"testing"

	libshare "github.com/celestiaorg/go-square/v4/share"
	"github.com/celestiaorg/nmt"

	"github.com/celestiaorg/celestia-node/share"
	"github.com/celestiaorg/celestia-node/share/eds"
	"github.com/celestiaorg/celestia-node/share/shwap"
	zv "github.com/celestiaorg/celestia-node/zzverif"
)

func TestVerifC02(t *testing.T) {
	r := zv.Start(t, "C02")
	defer r.Finish()
	g := r.Group("nd", c01Header, "vcase", "mismatches")
	rng := r.Rand()
	sy := newSymb()
	defer func() { g.Header = sy.WriteDefs(r.Out, "c02") }()
	ctx := context.Background()

	layouts := []string{"single", "many", "spanning", "padded", "reserved"}
	type plan struct {
		k, reps int
		model   bool
	}
	plans := []plan{{1, 1, true}, {2, 2, true}, {4, 2, true}, {8, 1, false}}
	if r.Thorough() {
		plans = []plan{{1, 2, true}, {2, 10, true}, {4, 10, true}, {8, 4, true}, {16, 2, false}, {32, 1, false}}
	}
	for _, pl := range plans {
		for rep := 0; rep < pl.reps; rep++ {
			for _, lay := range layouts {
				if pl.k == 1 && lay != "single" && lay != "many" {
					continue
				}
				q := genSquare(t, sy, rng.Fork(uint64(pl.k*100+rep)), pl.k, lay)
				other := genSquare(t, sy, rng.Fork(uint64(pl.k*100+rep+50)), pl.k, "spanning")
				c01Trees(r, g, sy, q, pl.model) // honest roots = model tree, and well formed (hypothesis of the C02 theorems)
				c02Square(t, ctx, r, g, sy, rng, q, other, pl.model)
				r.Count("squares", fmt.Sprintf("k=%d/%s", pl.k, lay))
			}
		}
	}
}

func rndTerm(sy *symb, d shwap.RowNamespaceData) string {
	return zv.App("mkrnd", sy.shares(d.Shares), sy.proof(d.Proof))
}

func ndOK(nd shwap.NamespaceData) bool {
	for _, d := range nd {
		if !proofOK(d.Proof) {
			return false
		}
	}
	return true
}

func cpND(nd shwap.NamespaceData) shwap.NamespaceData {
	out := make(shwap.NamespaceData, len(nd))
	for i, d := range nd {
		out[i] = shwap.RowNamespaceData{Shares: append([]libshare.Share{}, d.Shares...), Proof: d.Proof}
	}
	return out
}

func c02Square(t *testing.T, ctx context.Context, r *zv.Run, g *zv.Group, sy *symb, rng *zv.Rand, q, other *square, model bool) {
	k := q.k
	rootsT := ""
	if model {
		rootsT = sy.roots(q.roots)
	}
	class := func(ns libshare.Namespace) string {
		ref := q.nsShares(ns)
		rows, _ := share.RowsWithNamespace(q.roots, ns)
		switch {
		case len(ref) > 0 && len(rows) > 1:
			return "present-spanning-rows"
		case len(ref) > 0 && len(ref) >= k:
			return "present-filling-row"
		case len(ref) > 0:
			return "present-one-row"
		case len(rows) > 0:
			return "absent-inside-range"
		default:
			return "absent-outside-all"
		}
	}
	checkND := func(nd shwap.NamespaceData, ns libshare.Namespace, forge string) {
		var err error
		if p := zv.Recover(func() { err = nd.Verify(q.roots, ns) }); p != "" {
			r.Violation("nd-verify-panic:"+forge, "NamespaceData.Verify panicked: "+p, c01Info{Kind: "nd", K: k, Layout: q.layout, Target: hexShort(ns.Bytes()), Forge: forge})
			return
		}
		acc := err == nil
		cl := class(ns)
		info := c01Info{Kind: "nd", K: k, Layout: q.layout, Target: cl + " " + hexShort(ns.Bytes()), Forge: forge, Accept: acc}
		if acc {
			ref := q.nsShares(ns)
			if !eqBytes2(flatBytes(nd.Flatten()), ref) {
				r.Violation("nd-incomplete-or-wrong-accepted:"+forge, fmt.Sprintf("k=%d %s: namespace data that is not exactly the namespace's shares in block order verifies (got %d shares, block has %d)", k, cl, len(nd.Flatten()), len(ref)), info)
			}
			rows, _ := share.RowsWithNamespace(q.roots, ns)
			if len(nd) != len(rows) {
				r.Violation("nd-wrong-row-count-accepted:"+forge, "namespace data with a wrong number of rows verifies", info)
			}
			for _, d := range nd {
				if len(d.Shares) == 0 && (d.Proof == nil || !d.Proof.IsOfAbsence()) {
					r.Violation("nd-empty-row-without-absence-accepted:"+forge, "a row entry without shares and without an absence proof verifies", info)
				}
			}
		}
		if forge == "honest" && !acc {
			r.Violation("nd-honest-rejected", fmt.Sprintf("k=%d %s: %v", k, cl, err), info)
		}
		r.Count("nd", cl+"/"+forge+fmt.Sprintf("/accept=%v", acc))
		if model && ndOK(nd) {
			rows := make([]string, len(nd))
			for i := range nd {
				rows[i] = rndTerm(sy, nd[i])
			}
			g.Case(zv.App("CNd", rootsT, sy.ns(ns.Bytes()), zv.List(rows), zv.Bool(acc)), info, "x")
		}
	}
	checkRND := func(d shwap.RowNamespaceData, ns libshare.Namespace, row int, forge string) {
		var err error
		if p := zv.Recover(func() { err = d.Verify(q.roots, ns, row) }); p != "" {
			r.Violation("rnd-verify-panic:"+forge, "RowNamespaceData.Verify panicked: "+p, c01Info{Kind: "rnd", K: k, Layout: q.layout, Target: fmt.Sprint(row), Forge: forge})
			return
		}
		acc := err == nil
		info := c01Info{Kind: "rnd", K: k, Layout: q.layout, Target: fmt.Sprintf("row %d ns %s", row, hexShort(ns.Bytes())), Forge: forge, Accept: acc}
		if acc {
			var ref [][]byte
			if row < k {
				for j := 0; j < k; j++ {
					if q.ods[row*k+j].Namespace().Equals(ns) {
						ref = append(ref, q.ods[row*k+j].ToBytes())
					}
				}
			}
			if !eqBytes2(flatBytes(d.Shares), ref) {
				r.Violation("rnd-incomplete-or-wrong-accepted:"+forge, fmt.Sprintf("k=%d row %d: row namespace data that is not exactly the row's shares of the namespace verifies", k, row), info)
			}
		}
		r.Count("rnd", forge+fmt.Sprintf("/accept=%v", acc))
		if model && proofOK(d.Proof) {
			g.Case(zv.App("CRnd", rootsT, sy.ns(ns.Bytes()), rndTerm(sy, d), zv.Nat(row), zv.Bool(acc)), info, "x")
		}
	}

	cands := q.candidateNamespaces(rng)
	if len(cands) > r.N(10, 40) {
		// keep every class represented: shuffle deterministically and cut
		for i := len(cands) - 1; i > 0; i-- {
			j := rng.Intn(i + 1)
			cands[i], cands[j] = cands[j], cands[i]
		}
		cands = cands[:r.N(10, 40)]
	}
	for _, ns := range cands {
		nd, err := eds.NamespaceData(ctx, &q.acc, ns)
		if err != nil {
			t.Fatalf("honest NamespaceData: %v", err)
		}
		checkND(cpND(nd), ns, "honest")
		rows, _ := share.RowsWithNamespace(q.roots, ns)

		// ---- whole-response forgeries
		if len(nd) > 0 {
			checkND(cpND(nd)[1:], ns, "first-row-dropped")
			checkND(cpND(nd)[:len(nd)-1], ns, "last-row-dropped")
			checkND(append(cpND(nd), cpND(nd)[len(nd)-1]), ns, "row-duplicated")
			if len(nd) > 1 {
				f := cpND(nd)
				f[0], f[1] = f[1], f[0]
				checkND(f, ns, "rows-reordered")
			}
		}
		checkND(shwap.NamespaceData{}, ns, "empty-response")
		// data of a neighbouring namespace / another square presented for this namespace
		for _, o := range cands {
			if !o.Equals(ns) && rng.Chance(25) {
				if ond, err := eds.NamespaceData(ctx, &q.acc, o); err == nil {
					checkND(cpND(ond), ns, "other-namespace")
				}
				break
			}
		}
		if ond, err := eds.NamespaceData(ctx, &other.acc, ns); err == nil {
			checkND(cpND(ond), ns, "other-square")
		}

		// ---- per-row forgeries
		for i, row := range rows {
			d := nd[i]
			checkRND(d, ns, row, "honest")
			if len(rows) > 1 {
				checkRND(d, ns, rows[(i+1)%len(rows)], "reused-for-other-row")
			}
			checkRND(d, ns, (row+1)%(2*k), "row-shifted")
			tr := q.rowTree(row)
			if len(d.Shares) > 0 {
				s, e := d.Proof.Start(), d.Proof.End()
				full, _ := libshare.FromBytes(q.eds.Row(uint(row)))
				// truncated: first / last share dropped, with a genuine inclusion proof of the narrower range
				if e-s > 1 {
					for _, cut := range [][2]int{{s + 1, e}, {s, e - 1}} {
						if pr, err := tr.ProveRange(cut[0], cut[1]); err == nil {
							f := shwap.RowNamespaceData{Shares: append([]libshare.Share{}, full[cut[0]:cut[1]]...), Proof: &pr}
							checkRND(f, ns, row, "truncated-with-valid-subrange-proof")
							fnd := cpND(nd)
							fnd[i] = f
							checkND(fnd, ns, "truncated-with-valid-subrange-proof")
						}
					}
				}
				// only the first share, claimed as the whole answer
				if pr, err := tr.ProveRange(s, s+1); err == nil && e-s > 1 {
					checkRND(shwap.RowNamespaceData{Shares: full[s : s+1], Proof: &pr}, ns, row, "single-share-of-many")
				}
				// padded with a neighbour of another namespace
				if e < k {
					if pr, err := tr.ProveRange(s, e+1); err == nil {
						checkRND(shwap.RowNamespaceData{Shares: append([]libshare.Share{}, full[s:e+1]...), Proof: &pr}, ns, row, "padded-with-neighbour")
					}
				}
				if s > 0 {
					if pr, err := tr.ProveRange(s-1, e); err == nil {
						checkRND(shwap.RowNamespaceData{Shares: append([]libshare.Share{}, full[s-1:e]...), Proof: &pr}, ns, row, "padded-with-neighbour")
					}
				}
				// reordered / duplicated shares under the honest proof
				if len(d.Shares) > 1 {
					f := shwap.RowNamespaceData{Shares: append([]libshare.Share{}, d.Shares...), Proof: d.Proof}
					f.Shares[0], f.Shares[1] = f.Shares[1], f.Shares[0]
					checkRND(f, ns, row, "shares-reordered")
				}
				f := shwap.RowNamespaceData{Shares: append(append([]libshare.Share{}, d.Shares...), d.Shares[0]), Proof: d.Proof}
				checkRND(f, ns, row, "share-duplicated")
				// shares withheld entirely: claim absence although present (absence proof built from the next leaf)
				for _, lf := range []int{e, s, e - 1} {
					if lf >= 0 && lf < 2*k {
						if pr, err := tr.ProveRange(lf, lf+1); err == nil {
							ap := nmt.NewAbsenceProof(lf, lf+1, pr.Nodes(), q.rowLeaves[row][lf], true)
							checkRND(shwap.RowNamespaceData{Proof: &ap}, ns, row, "absence-claimed-for-present")
							fnd := cpND(nd)
							fnd[i] = shwap.RowNamespaceData{Proof: &ap}
							checkND(fnd, ns, "absence-claimed-for-present")
						}
					}
				}
				// claimed range moved (position inflation) with nodes kept/trimmed
				for _, delta := range []int{1, 2 * k} {
					nodes := cloneNodes(d.Proof.Nodes())
					mp := cloneProof(d.Proof, s+delta, e+delta, nodes, nil)
					checkRND(shwap.RowNamespaceData{Shares: d.Shares, Proof: mp}, ns, row, "range-moved")
					if len(nodes) > 0 {
						mp = cloneProof(d.Proof, s+delta, e+delta, nodes[:len(nodes)-1], nil)
						checkRND(shwap.RowNamespaceData{Shares: d.Shares, Proof: mp}, ns, row, "range-moved-nodes-trimmed")
					}
				}
				// node dropped / node with inflated or deflated namespace bounds
				nodes := cloneNodes(d.Proof.Nodes())
				if len(nodes) > 0 {
					checkRND(shwap.RowNamespaceData{Shares: d.Shares, Proof: cloneProof(d.Proof, s, e, nodes[1:], nil)}, ns, row, "node-dropped")
					mn := cloneNodes(nodes)
					x := rng.Intn(len(mn))
					mn[x][rng.Intn(2*nsSize)] ^= 0x01
					checkRND(shwap.RowNamespaceData{Shares: d.Shares, Proof: cloneProof(d.Proof, s, e, mn, nil)}, ns, row, "node-namespace-mutated")
					mn = cloneNodes(nodes)
					mn[x][2*nsSize+rng.Intn(32)] ^= 0x10
					checkRND(shwap.RowNamespaceData{Shares: d.Shares, Proof: cloneProof(d.Proof, s, e, mn, nil)}, ns, row, "node-hash-mutated")
				}
				// a share mutated
				f = shwap.RowNamespaceData{Shares: append([]libshare.Share{}, d.Shares...), Proof: d.Proof}
				f.Shares[0] = mutateShare(f.Shares[0], rng, true)
				checkRND(f, ns, row, "share-mutated")
				// inclusion proof presented without the shares
				checkRND(shwap.RowNamespaceData{Proof: d.Proof}, ns, row, "shares-removed")
			} else {
				// honest absence: swap in an inclusion-flavoured proof, another leaf, shares of a neighbour
				p := d.Proof
				ip := cloneProof(p, p.Start(), p.End(), cloneNodes(p.Nodes()), nil)
				checkRND(shwap.RowNamespaceData{Proof: ip}, ns, row, "absence-turned-inclusion")
				full, _ := libshare.FromBytes(q.eds.Row(uint(row)))
				if p.Start() < k {
					checkRND(shwap.RowNamespaceData{Shares: full[p.Start():p.End()], Proof: ip}, ns, row, "neighbour-as-inclusion")
					checkRND(shwap.RowNamespaceData{Shares: full[p.Start():p.End()], Proof: p}, ns, row, "absence-with-shares")
				}
				for _, lf := range []int{p.Start() + 1, p.Start() - 1} {
					if lf >= 0 && lf < 2*k {
						if pr, err := tr.ProveRange(lf, lf+1); err == nil {
							ap := nmt.NewAbsenceProof(lf, lf+1, pr.Nodes(), q.rowLeaves[row][lf], true)
							checkRND(shwap.RowNamespaceData{Proof: &ap}, ns, row, "absence-other-leaf")
						}
					}
				}
				ap := nmt.NewAbsenceProof(p.Start(), p.End(), cloneNodes(p.Nodes()), p.LeafHash()[:len(p.LeafHash())-1], true)
				checkRND(shwap.RowNamespaceData{Proof: &ap}, ns, row, "absence-leaf-short")
			}
			ep := nmt.NewEmptyRangeProof(true)
			checkRND(shwap.RowNamespaceData{Proof: &ep}, ns, row, "empty-proof")
			checkRND(shwap.RowNamespaceData{}, ns, row, "nil-proof")
		}
		// rows outside the namespace's range: any claim for them must fail
		if len(rows) < 2*k {
			for row := 0; row < 2*k; row++ {
				in := false
				for _, x := range rows {
					in = in || x == row
				}
				if !in && len(nd) > 0 {
					checkRND(nd[0], ns, row, "row-outside-range")
					break
				}
			}
		}
	}
}

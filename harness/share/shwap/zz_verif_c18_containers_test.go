//go:build verif

package shwap_test

// C18, container part: byte-level correspondence + oracle harness for the protobuf and length-delimited stream forms of
// Sample, Row, RowNamespaceData, NamespaceData and RangeNamespaceData (model: CN.Shwap.Containers over CN.Shwap.Wire).
//
// L2: (a) encoder cases: a domain value (synthetic: shares whose 512 bytes are all equal, proofs with 0-3 nodes; plus a few
//         values built from a real square by the real constructors) is encoded by the REAL ToProto+Marshal / WriteTo; the case
//         carries the value as a Coq term and the real bytes (run-length encoded); Coq checks model bytes = real bytes.
//     (b) decoder cases: honest encodings, hand-assembled adversarial messages (unknown fields of every wire type, groups,
//         duplicated/merged fields, wrong wire types, over-long and 10-byte varints, field-number wrap-around, share lengths
//         != 512, empty range rows, ...), truncations and byte mutations of all of these are fed to the REAL
//         Unmarshal+XxxFromProto and ReadFrom (fresh receiver) under recover(); the case carries the observed outcome
//         (value | error | panic) for the model's decoder to reproduce.
//     (c) every value built by the real constructors satisfies the model's well-formedness predicate (CWf).
// L3: round trip through the real code == the documented normal form; no decoder panic; no decoder returns a container holding a
//     share whose length is not 512 or (protobuf form) a range row without shares.

import (
	"bytes"
	"context"
	"encoding/hex"
	"encoding/json"
	"fmt"
	"strings"
	"testing"

	"github.com/celestiaorg/go-libp2p-messenger/serde"
	libshare "github.com/celestiaorg/go-square/v4/share"
	"github.com/celestiaorg/nmt"
	"github.com/celestiaorg/rsmt2d"

	"github.com/celestiaorg/celestia-node/share/eds"
	"github.com/celestiaorg/celestia-node/share/eds/edstest"
	"github.com/celestiaorg/celestia-node/share/shwap"
	"github.com/celestiaorg/celestia-node/share/shwap/pb"
	zv "github.com/celestiaorg/celestia-node/zzverif"
)

const c18cHeader = `From Coq Require Import List ZArith.
From CN Require Import Base.Bytes Base.Varint Shwap.Wire Shwap.Containers.
Import ListNotations.
Open Scope Z_scope.
Notation X := expand (only parsing).
Notation P := mkproof (only parsing).
`

// ---------------------------------------------------------------- domain values (harness-side description)

type c18cProof struct {
	Start int64    `json:"start"`
	End   int64    `json:"end"`
	Nodes [][]byte `json:"nodes,omitempty"`
	Leaf  []byte   `json:"leaf,omitempty"`
	Ign   bool     `json:"ign,omitempty"`
}

// c18cCont is one container value. Kind: sample | row | rnd | nd | range.
type c18cCont struct {
	Kind   string      `json:"kind"`
	Shares [][]byte    `json:"shares,omitempty"` // sample: 1 entry (nil entry = zero-value Share); row, rnd: the shares
	Proof  *c18cProof  `json:"proof,omitempty"`  // sample, rnd
	Int    int64       `json:"int,omitempty"`    // sample: ProofType; row: side
	Rows   [][][]byte  `json:"rows,omitempty"`   // range
	First  *c18cProof  `json:"first,omitempty"`  // range
	Last   *c18cProof  `json:"last,omitempty"`   // range
	Nd     []*c18cCont `json:"nd,omitempty"`     // nd: list of rnd
}

func (p *c18cProof) real() *nmt.Proof {
	if p == nil {
		return nil
	}
	var pr nmt.Proof
	if len(p.Leaf) > 0 {
		pr = nmt.NewAbsenceProof(int(p.Start), int(p.End), p.Nodes, p.Leaf, p.Ign)
	} else {
		pr = nmt.NewInclusionProof(int(p.Start), int(p.End), p.Nodes, p.Ign)
	}
	return &pr
}

func c18cProofOf(p *nmt.Proof) *c18cProof {
	if p == nil {
		return nil
	}
	return &c18cProof{Start: int64(p.Start()), End: int64(p.End()), Nodes: p.Nodes(), Leaf: p.LeafHash(), Ign: p.IsMaxNamespaceIDIgnored()}
}

func c18cShare(b []byte) libshare.Share {
	if b == nil {
		return libshare.Share{}
	}
	s, err := libshare.NewShare(b)
	if err != nil {
		panic(err)
	}
	return s
}

func c18cSharesReal(bs [][]byte) []libshare.Share {
	out := make([]libshare.Share, len(bs))
	for i, b := range bs {
		out[i] = c18cShare(b)
	}
	return out
}

func c18cSharesOf(ss []libshare.Share) [][]byte {
	out := make([][]byte, len(ss))
	for i := range ss {
		out[i] = append([]byte{}, ss[i].ToBytes()...)
	}
	return out
}

// ---------------------------------------------------------------- Coq emitters

type c18cEmitter struct {
	names []string // named byte strings (defined in the group header), longest first
	vals  [][]byte
}

// chunks renders a byte string as [list chunk]: runs of >= 6 equal bytes become Rep, known named strings become Lit name.
func (e *c18cEmitter) chunks(b []byte) string {
	var parts []string
	var lit []string
	flush := func() {
		if len(lit) > 0 {
			parts = append(parts, "Lit ["+strings.Join(lit, ";")+"]")
			lit = nil
		}
	}
	for i := 0; i < len(b); {
		named := false
		for k, v := range e.vals {
			if len(v) > 0 && i+len(v) <= len(b) && bytes.Equal(b[i:i+len(v)], v) {
				flush()
				parts = append(parts, "Lit "+e.names[k])
				i += len(v)
				named = true
				break
			}
		}
		if named {
			continue
		}
		j := i
		for j < len(b) && b[j] == b[i] {
			j++
		}
		if j-i >= 6 {
			flush()
			parts = append(parts, fmt.Sprintf("Rep %d %d", j-i, b[i]))
			i = j
			continue
		}
		lit = append(lit, fmt.Sprint(int(b[i])))
		i++
	}
	flush()
	return "[" + strings.Join(parts, "; ") + "]"
}

func (e *c18cEmitter) bytes(b []byte) string {
	if len(b) == 0 {
		return "[]"
	}
	return "(X " + e.chunks(b) + ")"
}

func (e *c18cEmitter) byteLists(bs [][]byte) string {
	xs := make([]string, len(bs))
	for i, b := range bs {
		xs[i] = e.bytes(b)
	}
	return zv.List(xs)
}

func (e *c18cEmitter) proof(p *c18cProof) string {
	if p == nil {
		return "None"
	}
	return zv.Some(zv.App("P", zv.Z(p.Start), zv.Z(p.End), e.byteLists(p.Nodes), e.bytes(p.Leaf), zv.Bool(p.Ign)))
}

func (e *c18cEmitter) rnd(c *c18cCont) string {
	return zv.App("mkrnd", e.byteLists(c.Shares), e.proof(c.Proof))
}

func (e *c18cEmitter) cont(c *c18cCont) string {
	switch c.Kind {
	case "sample":
		var sh []byte
		if len(c.Shares) > 0 {
			sh = c.Shares[0]
		}
		return zv.App("CSample", zv.App("mksample", e.bytes(sh), e.proof(c.Proof), zv.Z(c.Int)))
	case "row":
		return zv.App("CRow", zv.App("mkrow", e.byteLists(c.Shares), zv.Z(c.Int)))
	case "rnd":
		return zv.App("CRnd", e.rnd(c))
	case "nd":
		xs := make([]string, len(c.Nd))
		for i, d := range c.Nd {
			xs[i] = e.rnd(d)
		}
		return zv.App("CNd", zv.List(xs))
	case "range":
		rows := make([]string, len(c.Rows))
		for i, r := range c.Rows {
			rows[i] = e.byteLists(r)
		}
		return zv.App("CRange", zv.App("mkrange", zv.List(rows), e.proof(c.First), e.proof(c.Last)))
	}
	panic("kind")
}

var c18cKindCoq = map[string]string{"sample": "KSampleC", "row": "KRowC", "rnd": "KRndC", "nd": "KNdC", "range": "KRangeC"}

// ---------------------------------------------------------------- driving the real code

// c18cEncode runs the real encoder. form: proto | stream. Outcome: bytes | error | panic.
func c18cEncode(c *c18cCont, form string) (out []byte, outcome string) {
	var err error
	p := zv.Recover(func() {
		var buf bytes.Buffer
		switch c.Kind {
		case "sample":
			var sh []byte
			if len(c.Shares) > 0 {
				sh = c.Shares[0]
			}
			s := shwap.Sample{Share: c18cShare(sh), Proof: c.Proof.real(), ProofType: rsmt2d.Axis(c.Int)}
			if form == "proto" {
				out, err = s.ToProto().Marshal()
			} else {
				_, err = s.WriteTo(&buf)
			}
		case "row":
			r := shwap.NewRow(c18cSharesReal(c.Shares), shwap.RowSide(c.Int))
			if form == "proto" {
				out, err = r.ToProto().Marshal()
			} else {
				_, err = r.WriteTo(&buf)
			}
		case "rnd":
			d := shwap.RowNamespaceData{Shares: c18cSharesReal(c.Shares), Proof: c.Proof.real()}
			if form == "proto" {
				out, err = d.ToProto().Marshal()
			} else {
				_, err = d.WriteTo(&buf)
			}
		case "nd":
			nd := make(shwap.NamespaceData, len(c.Nd))
			for i, d := range c.Nd {
				nd[i] = shwap.RowNamespaceData{Shares: c18cSharesReal(d.Shares), Proof: d.Proof.real()}
			}
			if form == "proto" {
				panic("nd has no protobuf form")
			}
			_, err = nd.WriteTo(&buf)
		case "range":
			g := shwap.RangeNamespaceData{FirstIncompleteRowProof: c.First.real(), LastIncompleteRowProof: c.Last.real()}
			g.Shares = make([][]libshare.Share, len(c.Rows))
			for i, r := range c.Rows {
				g.Shares[i] = c18cSharesReal(r)
			}
			if form == "proto" {
				out, err = g.ToProto().Marshal()
			} else {
				_, err = g.WriteTo(&buf)
			}
		}
		if form == "stream" {
			out = buf.Bytes()
		}
	})
	switch {
	case p != "":
		return nil, "panic"
	case err != nil:
		return nil, "error"
	}
	return out, "bytes"
}

func c18cRndOf(d shwap.RowNamespaceData) *c18cCont {
	return &c18cCont{Kind: "rnd", Shares: c18cSharesOf(d.Shares), Proof: c18cProofOf(d.Proof)}
}

func c18cRangeOf(g shwap.RangeNamespaceData) *c18cCont {
	c := &c18cCont{Kind: "range", First: c18cProofOf(g.FirstIncompleteRowProof), Last: c18cProofOf(g.LastIncompleteRowProof)}
	c.Rows = make([][][]byte, len(g.Shares))
	for i, r := range g.Shares {
		c.Rows[i] = c18cSharesOf(r)
	}
	return c
}

func c18cSampleOf(s shwap.Sample) *c18cCont {
	c := &c18cCont{Kind: "sample", Proof: c18cProofOf(s.Proof), Int: int64(s.ProofType)}
	if b := s.Share.ToBytes(); b != nil {
		c.Shares = [][]byte{append([]byte{}, b...)}
	}
	return c
}

// c18cRowOf projects a Row (unexported fields) through its JSON form: shares and the side string.
func c18cRowOf(r shwap.Row) *c18cCont {
	js, err := json.Marshal(r)
	if err != nil {
		panic(err)
	}
	var v struct {
		Shares [][]byte `json:"shares"`
		Side   string   `json:"side"`
	}
	if err := json.Unmarshal(js, &v); err != nil {
		panic(err)
	}
	side := map[string]int64{"LEFT": 0, "RIGHT": 1, "BOTH": 2}[v.Side]
	return &c18cCont{Kind: "row", Shares: v.Shares, Int: side}
}

// c18cDecode runs the real decoder on arbitrary bytes (fresh receiver). Outcome: value | error | panic.
func c18cDecode(kind, form string, in []byte) (val *c18cCont, outcome string) {
	var err error
	p := zv.Recover(func() {
		rd := bytes.NewReader(in)
		switch kind {
		case "sample":
			var s shwap.Sample
			if form == "proto" {
				var m pb.Sample
				if err = m.Unmarshal(in); err == nil {
					s, err = shwap.SampleFromProto(&m)
				}
			} else {
				_, err = s.ReadFrom(rd)
			}
			if err == nil {
				val = c18cSampleOf(s)
			}
		case "row":
			var r shwap.Row
			if form == "proto" {
				var m pb.Row
				if err = m.Unmarshal(in); err == nil {
					r, err = shwap.RowFromProto(&m)
				}
			} else {
				_, err = r.ReadFrom(rd)
			}
			if err == nil {
				val = c18cRowOf(r)
			}
		case "rnd":
			var d shwap.RowNamespaceData
			if form == "proto" {
				var m pb.RowNamespaceData
				if err = m.Unmarshal(in); err == nil {
					d, err = shwap.RowNamespaceDataFromProto(&m)
				}
			} else {
				_, err = d.ReadFrom(rd)
			}
			if err == nil {
				val = c18cRndOf(d)
			}
		case "nd":
			var nd shwap.NamespaceData
			_, err = nd.ReadFrom(rd)
			if err == nil {
				val = &c18cCont{Kind: "nd"}
				for _, d := range nd {
					val.Nd = append(val.Nd, c18cRndOf(d))
				}
			}
		case "range":
			var g shwap.RangeNamespaceData
			if form == "proto" {
				var m pb.RangeNamespaceData
				if err = m.Unmarshal(in); err == nil {
					g, err = shwap.RangeNamespaceDataFromProto(&m)
				}
			} else {
				_, err = g.ReadFrom(rd)
			}
			if err == nil {
				val = c18cRangeOf(g)
			}
		}
	})
	switch {
	case p != "":
		return nil, "panic:" + p
	case err != nil:
		if form != "proto" {
			c18cReuseCheck(kind, in, nil, "error")
		}
		return nil, "error"
	}
	if form != "proto" {
		c18cReuseCheck(kind, in, val, "value")
	}
	return val, "value"
}

// ---------------------------------------------------------------- decoding into a receiver that already holds a value
//
// The getters reuse one container across the responses of several peers, so ReadFrom must give the same result on a
// receiver that already holds an earlier response as on a fresh one (what the wire carries is what the caller gets).

type c18cRecv struct {
	read func(in []byte) error
	cont func() *c18cCont
}

func c18cNewRecv(kind string) *c18cRecv {
	switch kind {
	case "sample":
		v := new(shwap.Sample)
		return &c18cRecv{func(in []byte) error { _, err := v.ReadFrom(bytes.NewReader(in)); return err }, func() *c18cCont { return c18cSampleOf(*v) }}
	case "row":
		v := new(shwap.Row)
		return &c18cRecv{func(in []byte) error { _, err := v.ReadFrom(bytes.NewReader(in)); return err }, func() *c18cCont { return c18cRowOf(*v) }}
	case "rnd":
		v := new(shwap.RowNamespaceData)
		return &c18cRecv{func(in []byte) error { _, err := v.ReadFrom(bytes.NewReader(in)); return err }, func() *c18cCont { return c18cRndOf(*v) }}
	case "nd":
		v := new(shwap.NamespaceData)
		return &c18cRecv{func(in []byte) error { _, err := v.ReadFrom(bytes.NewReader(in)); return err }, func() *c18cCont {
			c := &c18cCont{Kind: "nd"}
			for _, d := range *v {
				c.Nd = append(c.Nd, c18cRndOf(d))
			}
			return c
		}}
	case "range":
		v := new(shwap.RangeNamespaceData)
		return &c18cRecv{func(in []byte) error { _, err := v.ReadFrom(bytes.NewReader(in)); return err }, func() *c18cCont { return c18cRangeOf(*v) }}
	}
	return nil
}

var (
	c18cPrev      = map[string][][]byte{} // per kind: streams that decoded to a value earlier in the run (the longest and the latest)
	c18cReuseDiff []map[string]any
	c18cReuseN    int
)

func c18cReuseCheck(kind string, in []byte, fresh *c18cCont, outcome string) {
	for _, prev := range c18cPrev[kind] {
		rc := c18cNewRecv(kind)
		if rc == nil {
			return
		}
		var err error
		var got *c18cCont
		pn := zv.Recover(func() {
			if e := rc.read(prev); e != nil {
				err = fmt.Errorf("earlier stream no longer decodes: %w", e)
				return
			}
			if err = rc.read(in); err == nil {
				got = rc.cont()
			}
		})
		c18cReuseN++
		bad := ""
		switch {
		case pn != "":
			bad = "panic: " + pn
		case outcome == "value" && err != nil:
			bad = "a stream that decodes into a fresh receiver is refused by a used one: " + err.Error()
		case outcome == "value" && !c18cEqual(fresh, got):
			bad = "the value decoded into a used receiver differs from the value decoded into a fresh one"
		case outcome == "error" && err == nil:
			bad = "a stream that a fresh receiver refuses is accepted by a used one"
		}
		if bad != "" && len(c18cReuseDiff) < 20 {
			c18cReuseDiff = append(c18cReuseDiff, map[string]any{"kind": kind, "why": bad, "earlier_stream_hex": c18cHex(prev), "stream_hex": c18cHex(in)})
		}
	}
	if outcome == "value" && len(in) > 0 {
		ps := c18cPrev[kind]
		switch {
		case len(ps) == 0:
			ps = [][]byte{in, in}
		default:
			if len(in) > len(ps[0]) {
				ps[0] = in
			}
			ps[1] = in
		}
		c18cPrev[kind] = ps
	}
}

// ---------------------------------------------------------------- the normal form the Go code is documented (in the model) to return

func c18cCanonProofNoLeaf(p *c18cProof) *c18cProof {
	if p == nil {
		return nil
	}
	return &c18cProof{Start: p.Start, End: p.End, Nodes: p.Nodes, Ign: p.Ign}
}

func c18cCanonProtoToProof(p *c18cProof) *c18cProof {
	if p == nil {
		return nil
	}
	if p.Start == 0 && p.End == 0 {
		return &c18cProof{Ign: p.Ign}
	}
	return p
}

// c18cWellFormed: the hypothesis of the round-trip theorems, restated on the harness side (only used to decide which values the
// L3 oracle applies to; the Coq side re-checks real-constructor values with its own predicate through CWf cases).
func c18cWellFormed(c *c18cCont) bool {
	okShares := func(ss [][]byte) bool {
		for _, s := range ss {
			if len(s) != libshare.ShareSize {
				return false
			}
		}
		return true
	}
	switch c.Kind {
	case "sample":
		return len(c.Shares) == 1 && okShares(c.Shares) && c.Proof != nil && c.Int >= -(1<<31) && c.Int < 1<<31
	case "row":
		return okShares(c.Shares) && c.Int >= 0 && c.Int <= 2
	case "rnd":
		return okShares(c.Shares)
	case "nd":
		for _, d := range c.Nd {
			if !okShares(d.Shares) {
				return false
			}
		}
		return true
	case "range":
		for _, r := range c.Rows {
			if len(r) == 0 || !okShares(r) {
				return false
			}
		}
		return true
	}
	return false
}

func c18cCanon(c *c18cCont, form string) *c18cCont {
	switch c.Kind {
	case "sample":
		return &c18cCont{Kind: "sample", Shares: c.Shares, Proof: c18cCanonProofNoLeaf(c.Proof), Int: c.Int}
	case "row":
		if c.Int == 2 {
			return &c18cCont{Kind: "row", Shares: c.Shares[:len(c.Shares)/2], Int: 0}
		}
		return c
	case "range":
		if form == "proto" {
			return &c18cCont{Kind: "range", Rows: c.Rows, First: c18cCanonProtoToProof(c.First), Last: c18cCanonProtoToProof(c.Last)}
		}
		switch len(c.Rows) {
		case 0:
			return &c18cCont{Kind: "range"}
		case 1:
			return &c18cCont{Kind: "range", Rows: c.Rows, First: c.First}
		}
		return c
	}
	return c
}

// c18cEqual compares two container descriptions, identifying nil and empty slices.
func c18cEqual(a, b *c18cCont) bool {
	eqB := func(x, y []byte) bool { return bytes.Equal(x, y) }
	eqBB := func(x, y [][]byte) bool {
		if len(x) != len(y) {
			return false
		}
		for i := range x {
			if !eqB(x[i], y[i]) {
				return false
			}
		}
		return true
	}
	eqP := func(x, y *c18cProof) bool {
		if x == nil || y == nil {
			return x == nil && y == nil
		}
		return x.Start == y.Start && x.End == y.End && eqBB(x.Nodes, y.Nodes) && eqB(x.Leaf, y.Leaf) && x.Ign == y.Ign
	}
	if a.Kind != b.Kind || a.Int != b.Int || !eqBB(a.Shares, b.Shares) || !eqP(a.Proof, b.Proof) || !eqP(a.First, b.First) || !eqP(a.Last, b.Last) ||
		len(a.Rows) != len(b.Rows) || len(a.Nd) != len(b.Nd) {
		return false
	}
	for i := range a.Rows {
		if !eqBB(a.Rows[i], b.Rows[i]) {
			return false
		}
	}
	for i := range a.Nd {
		if !c18cEqual(a.Nd[i], b.Nd[i]) {
			return false
		}
	}
	return true
}

// c18cMalformed reports a decoded value no decoder may return: a share whose length is not 512 (any form), a range row without
// shares (protobuf form, where RangeNamespaceDataFromProto promises to refuse it).
func c18cMalformed(c *c18cCont, form string) string {
	bad := func(ss [][]byte) bool {
		for _, s := range ss {
			if len(s) != libshare.ShareSize {
				return true
			}
		}
		return false
	}
	if bad(c.Shares) || (c.Kind == "sample" && len(c.Shares) != 1) {
		return "share length != 512"
	}
	for _, r := range c.Rows {
		if bad(r) {
			return "share length != 512"
		}
		if len(r) == 0 && form == "proto" {
			return "range row without shares"
		}
	}
	for _, d := range c.Nd {
		if bad(d.Shares) {
			return "share length != 512"
		}
	}
	return ""
}

// ---------------------------------------------------------------- a tiny protobuf writer for adversarial messages

type c18cW struct {
	b      []byte
	struct_ []int // offsets of structural (non-payload) bytes: tags, lengths, scalars
}

func (w *c18cW) mark(n int) {
	for i := 0; i < n; i++ {
		w.struct_ = append(w.struct_, len(w.b)+i)
	}
}

func c18cUvarint(v uint64) []byte {
	var out []byte
	for v >= 0x80 {
		out = append(out, byte(v)|0x80)
		v >>= 7
	}
	return append(out, byte(v))
}

func (w *c18cW) raw(b []byte, structural bool) *c18cW {
	if structural {
		w.mark(len(b))
	}
	w.b = append(w.b, b...)
	return w
}
func (w *c18cW) tag(num uint64, wt int) *c18cW { return w.raw(c18cUvarint(num<<3|uint64(wt)), true) }
func (w *c18cW) varint(num uint64, v uint64) *c18cW {
	return w.tag(num, 0).raw(c18cUvarint(v), true)
}
func (w *c18cW) bytesField(num uint64, b []byte, payload bool) *c18cW {
	w.tag(num, 2).raw(c18cUvarint(uint64(len(b))), true)
	return w.raw(b, !payload)
}

func c18cShareMsg(data []byte) []byte {
	if len(data) == 0 {
		return nil
	}
	return (&c18cW{}).bytesField(1, data, true).b
}

func c18cProofMsg(p *c18cProof) []byte {
	w := &c18cW{}
	if p.Start != 0 {
		w.varint(1, uint64(p.Start))
	}
	if p.End != 0 {
		w.varint(2, uint64(p.End))
	}
	for _, n := range p.Nodes {
		w.bytesField(3, n, true)
	}
	if len(p.Leaf) > 0 {
		w.bytesField(4, p.Leaf, true)
	}
	if p.Ign {
		w.varint(5, 1)
	}
	return w.b
}

// ---------------------------------------------------------------- generators

type c18cGen struct {
	rng *zv.Rand
}

func (g *c18cGen) payload(n int) []byte { return bytes.Repeat([]byte{byte(g.rng.Intn(256))}, n) }

func (g *c18cGen) share() []byte { return g.payload(libshare.ShareSize) }

func (g *c18cGen) shares(max int) [][]byte {
	n := g.rng.Intn(max + 1)
	out := make([][]byte, n)
	for i := range out {
		out[i] = g.share()
	}
	return out
}

func (g *c18cGen) index() int64 {
	small := []int64{0, 0, 0, 1, 1, 2, 3, 5, 7, 127, 128, 255, 300, 16383, 16384}
	odd := []int64{-1, -2, 1 << 31, 1<<32 - 1, 1 << 32, 1 << 62, 1<<63 - 1, -(1 << 63), -(1 << 31)}
	if g.rng.Chance(85) {
		return zv.Pick(g.rng, small)
	}
	return zv.Pick(g.rng, odd)
}

func (g *c18cGen) proof() *c18cProof {
	if g.rng.Chance(18) { // corner cases of the nil / empty / zero rules
		return zv.Pick(g.rng, []*c18cProof{
			{},                              // all defaults: non-nil but encodes to an empty message
			{Ign: true},                     // the empty range proof as nmt builds it
			{Start: 5, End: 5},              // Start == End, no nodes: "empty" by IsEmptyProof, not by ProtoToProof
			{Nodes: [][]byte{g.payload(90)}}, // Start = End = 0 with nodes: emptied by ProtoToProof
			{Leaf: g.payload(90)},           // Start = End = 0 with a leaf hash
			{Start: 0, End: 1},
			{Start: 1 << 32, End: 1<<32 + 1}, // beyond 32 bits
			{Start: -1, End: 1<<63 - 1},
		})
	}
	p := &c18cProof{Start: g.index(), End: g.index(), Ign: g.rng.Bool()}
	for i, n := 0, g.rng.Intn(4); i < n; i++ {
		ln := 90
		if g.rng.Chance(10) {
			ln = zv.Pick(g.rng, []int{0, 1, 48, 127, 128})
		}
		p.Nodes = append(p.Nodes, g.payload(ln))
	}
	if g.rng.Chance(25) {
		p.Leaf = g.payload(zv.Pick(g.rng, []int{90, 90, 1, 48}))
	}
	return p
}

func (g *c18cGen) optProof(pct int) *c18cProof {
	if g.rng.Chance(pct) {
		return g.proof()
	}
	return nil
}

func (g *c18cGen) cont(kind string) *c18cCont {
	c := &c18cCont{Kind: kind}
	switch kind {
	case "sample":
		c.Shares = [][]byte{g.share()}
		if g.rng.Chance(4) {
			c.Shares = nil // zero-value Share
		}
		c.Proof = g.optProof(95)
		c.Int = int64(g.rng.Intn(2))
		if g.rng.Chance(15) {
			c.Int = zv.Pick(g.rng, []int64{2, 3, -1, 127, 128, 300, 1<<31 - 1, 1 << 31, -(1 << 31), 1 << 32, 1<<32 + 1, -(1 << 40)})
		}
	case "row":
		c.Shares = g.shares(4)
		c.Int = int64(g.rng.Intn(3))
		if g.rng.Chance(12) {
			c.Int = zv.Pick(g.rng, []int64{3, -1, 7, 1 << 32, 1<<32 + 2})
		}
	case "rnd":
		c.Shares = g.shares(3)
		c.Proof = g.optProof(75)
	case "nd":
		for i, n := 0, g.rng.Intn(4); i < n; i++ {
			c.Nd = append(c.Nd, g.cont("rnd"))
		}
	case "range":
		for i, n := 0, g.rng.Intn(4); i < n; i++ {
			r := g.shares(2)
			if len(r) == 0 && g.rng.Chance(80) {
				r = [][]byte{g.share()}
			}
			c.Rows = append(c.Rows, r)
		}
		c.First, c.Last = g.optProof(60), g.optProof(50)
		if c.First != nil && g.rng.Chance(15) {
			c.First.Start, c.First.End = 0, 0
		}
	}
	return c
}

// adversarial assembles a message for the given kind by hand. It returns the bytes and the offsets of structural bytes.
func (g *c18cGen) adversarial(kind string) ([]byte, []int) {
	w := &c18cW{}
	rng := g.rng
	unknown := func() {
		num := uint64(zv.Pick(rng, []int{6, 7, 15, 16, 99, 2047, 1 << 20, 1<<28 - 1, 1<<29 - 1}))
		switch rng.Intn(7) {
		case 0:
			w.varint(num, rng.U64()>>uint(rng.Intn(64)))
		case 1:
			w.tag(num, 1).raw(rng.Bytes(8), true)
		case 2:
			w.bytesField(num, rng.Bytes(rng.Intn(5)), false)
		case 3:
			w.tag(num, 5).raw(rng.Bytes(4), true)
		case 4: // group, possibly nested, possibly with content
			w.tag(num, 3)
			if rng.Bool() {
				w.varint(uint64(rng.Intn(4)), 5)
			}
			if rng.Bool() {
				w.tag(9, 3).bytesField(2, []byte{1, 2}, false).tag(9, 4)
			}
			if rng.Chance(85) {
				w.tag(uint64(rng.Intn(3)), 4)
			}
		case 5:
			w.tag(num, 1).raw(rng.Bytes(rng.Intn(8)), true) // short fixed64 (only wrong when at the end)
		case 6:
			w.tag(num, zv.Pick(rng, []int{4, 6, 7}))
		}
	}
	longVarint := func(v uint64, pad int) []byte { // over-long encoding of v: pad extra 0x80 continuation bytes
		b := c18cUvarint(v)
		for i := 0; i < pad; i++ {
			b[len(b)-1] |= 0x80
			b = append(b, 0)
		}
		return b
	}
	weirdVarint := func() []byte {
		switch rng.Intn(6) {
		case 0:
			return longVarint(uint64(rng.Intn(3)), 1+rng.Intn(3))
		case 1:
			return longVarint(uint64(rng.Intn(300)), 9) // 10 or 11 bytes
		case 2:
			return append(bytes.Repeat([]byte{0x80}, 9), byte(rng.Intn(128))) // 10th byte with bits above bit 63
		case 3:
			return append(bytes.Repeat([]byte{0xff}, 9), 0x01) // 2^64-1
		case 4:
			return bytes.Repeat([]byte{0x80}, 10+rng.Intn(2)) // never terminated
		default:
			return c18cUvarint(rng.U64() >> uint(rng.Intn(64)))
		}
	}
	shareMsg := func() []byte {
		ln := libshare.ShareSize
		if rng.Chance(20) {
			ln = zv.Pick(rng, []int{0, 1, 511, 513, 1024})
		}
		m := c18cShareMsg(g.payload(ln))
		if rng.Chance(8) { // Data given twice: last wins
			m = append(append([]byte{}, c18cShareMsg(g.payload(3))...), m...)
		}
		if rng.Chance(6) {
			m = append(m, (&c18cW{}).varint(9, 1).b...)
		}
		if rng.Chance(4) {
			m = (&c18cW{}).varint(1, 5).b // wrong wire type for Data
		}
		return m
	}
	proofMsg := func() []byte {
		p := g.proof()
		m := c18cProofMsg(p)
		switch rng.Intn(12) {
		case 0:
			m = append(m, c18cProofMsg(g.proof())...) // whole proof twice: scalars last-wins, nodes append
		case 1:
			m = append((&c18cW{}).tag(1, 0).raw(weirdVarint(), true).b, m...)
		case 2:
			m = append(m, (&c18cW{}).tag(5, 0).raw(weirdVarint(), true).b...)
		case 3:
			m = append(m, (&c18cW{}).bytesField(4, nil, false).b...) // explicit empty leaf hash
		case 4:
			m = append(m, (&c18cW{}).bytesField(1, []byte{1}, false).b...) // wrong wire type for Start
		case 5:
			m = append(m, (&c18cW{}).varint(3, 7).b...) // wrong wire type for Nodes
		case 6:
			m = append(m, (&c18cW{}).varint(1<<29+1, 7).b...) // field number 2^29+1 -> tag >= 2^32
		}
		return m
	}
	field := func(num uint64, m []byte) { w.bytesField(num, m, true) }
	nparts := 1 + rng.Intn(4)
	for i := 0; i < nparts; i++ {
		if rng.Chance(18) {
			unknown()
		}
		switch kind {
		case "sample":
			switch rng.Intn(6) {
			case 0, 1:
				field(1, shareMsg())
			case 2, 3:
				field(2, proofMsg())
			case 4:
				w.tag(3, 0).raw(weirdVarint(), true)
			case 5:
				w.varint(3, uint64(rng.Intn(3)))
			}
		case "row":
			switch rng.Intn(5) {
			case 0, 1, 2:
				field(1, shareMsg())
			case 3:
				w.tag(2, 0).raw(weirdVarint(), true)
			case 4:
				w.varint(2, uint64(rng.Intn(4)))
			}
		case "rnd", "nd":
			switch rng.Intn(4) {
			case 0, 1:
				field(1, shareMsg())
			case 2, 3:
				field(2, proofMsg())
			}
		case "range":
			switch rng.Intn(5) {
			case 0, 1, 2:
				rw := &c18cW{}
				for j, n := 0, rng.Intn(3); j < n; j++ {
					rw.bytesField(1, shareMsg(), true)
				}
				if rng.Chance(10) {
					rw.varint(1, 3)
				}
				field(1, rw.b)
			case 3:
				field(2, proofMsg())
			case 4:
				field(3, proofMsg())
			}
		}
	}
	// occasionally: a known field with a wrong wire type, a huge or wrapped field number, a zero tag, an absurd length
	switch rng.Intn(14) {
	case 0:
		w.varint(1, 3)
	case 1:
		w.tag(2, 5).raw(rng.Bytes(4), true)
	case 2:
		w.tag(1<<29|1, 2).raw([]byte{0}, true) // int32(wire>>3) wraps to field 1
	case 3:
		w.raw([]byte{0}, true) // tag 0: illegal
	case 4:
		w.tag(1, 2).raw(append(bytes.Repeat([]byte{0xff}, 9), 0x01), true) // length 2^64-1 (negative int)
	case 5:
		w.tag(1, 2).raw(c18cUvarint(uint64(len(w.b))+1000), true) // length beyond the buffer
	case 6:
		w.tag(1<<31, 0).raw([]byte{1}, true) // field number 2^31: negative int32
	}
	return w.b, w.struct_
}

func c18cFrame(m []byte) []byte { return append(c18cUvarint(uint64(len(m))), m...) }

// ---------------------------------------------------------------- the test

type c18cCase struct {
	Op      string    `json:"op"` // enc | dec | wf
	Kind    string    `json:"kind"`
	Form    string    `json:"form,omitempty"`
	Value   *c18cCont `json:"value,omitempty"`
	Input   string    `json:"input_hex,omitempty"`
	Outcome string    `json:"outcome,omitempty"`
	Output  string    `json:"output_hex,omitempty"`
	Decoded *c18cCont `json:"decoded,omitempty"`
	Origin  string    `json:"origin,omitempty"`
}

func c18cHex(b []byte) string {
	if len(b) > 4096 {
		return hex.EncodeToString(b[:4096]) + "..."
	}
	return hex.EncodeToString(b)
}

func TestVerifC18Containers(t *testing.T) {
	r := zv.Start(t, "C18")
	defer r.Finish()
	defer func() {
		r.Set("reused_receiver_decodes", c18cReuseN)
		for _, d := range c18cReuseDiff {
			r.Violation("reused-receiver:"+fmt.Sprint(d["kind"]), fmt.Sprintf("ReadFrom into a %v that already holds an earlier response: %v", d["kind"], d["why"]), d)
		}
	}()
	rng := r.Rand().Fork(1818)
	gen := &c18cGen{rng: rng}
	em := &c18cEmitter{}
	grp := r.Group("cont", c18cHeader, "ccase", "mismatches")
	kinds := []string{"sample", "row", "rnd", "nd", "range"}
	forms := func(kind string) []string {
		if kind == "nd" {
			return []string{"stream"}
		}
		return []string{"proto", "stream"}
	}

	// ---- constants the model depends on
	for i, v := range []int64{int64(libshare.ShareSize), int64(serde.MaxMessageSize), int64(shwap.Left), int64(shwap.Right), int64(shwap.Both),
		int64(pb.Row_LEFT), int64(pb.Row_RIGHT), int64(rsmt2d.Row), int64(rsmt2d.Col)} {
		grp.Case(zv.App("CConst", zv.Nat(i), zv.Z(v)), map[string]any{"op": "const", "name": i, "v": v}, "")
	}

	decode := func(g *zv.Group, e *c18cEmitter, kind, form string, in []byte, origin string) (*c18cCont, string) {
		val, outcome := c18cDecode(kind, form, in)
		c := c18cCase{Op: "dec", Kind: kind, Form: form, Input: c18cHex(in), Outcome: outcome, Decoded: val, Origin: origin}
		obs := "DoErr"
		key := ""
		switch {
		case strings.HasPrefix(outcome, "panic"):
			obs = "DoPanic"
			r.Violation("container-panic:"+kind+"-"+form, "decoder panicked on arbitrary bytes: "+outcome, c)
		case outcome == "value":
			obs = zv.App("DoVal", e.cont(val))
			key = "accepted"
			if why := c18cMalformed(val, form); why != "" {
				r.Violation("container-accepts-malformed:"+kind+"-"+form, "decoder returned a malformed container ("+why+")", c)
			}
		default:
			if origin != "random" {
				key = "rejected-structured"
			}
		}
		fcoq := map[string]string{"proto": "FProto", "stream": "FStream"}[form]
		g.Case(zv.App("CDec", fcoq, c18cKindCoq[kind], e.chunks(in), obs), c, key)
		r.Count("dec", kind+"-"+form+":"+strings.SplitN(outcome, ":", 2)[0])
		r.Count("dec-origin", origin)
		return val, outcome
	}

	// encode a value in every form, emit the encoder case, then feed the bytes back (honest decode + L3 round-trip oracle)
	roundtrip := func(g *zv.Group, e *c18cEmitter, c *c18cCont, origin string) (encs map[string][]byte) {
		encs = map[string][]byte{}
		for _, form := range forms(c.Kind) {
			out, outcome := c18cEncode(c, form)
			cs := c18cCase{Op: "enc", Kind: c.Kind, Form: form, Value: c, Outcome: outcome, Output: c18cHex(out), Origin: origin}
			obs := map[string]string{"error": "EoError", "panic": "EoPanic"}[outcome]
			if outcome == "bytes" {
				obs = zv.App("EoBytes", e.chunks(out))
			}
			fcoq := map[string]string{"proto": "FProto", "stream": "FStream"}[form]
			g.Case(zv.App("CEnc", fcoq, e.cont(c), obs), cs, "enc-"+outcome)
			r.Count("enc", c.Kind+"-"+form+":"+outcome)
			wf := c18cWellFormed(c)
			if outcome != "bytes" {
				if wf {
					r.Violation("container-encode-fails:"+c.Kind+"-"+form, "encoder "+outcome+" on a well-formed container", cs)
				}
				continue
			}
			encs[form] = out
			back, doutcome := decode(g, e, c.Kind, form, out, "honest")
			if !wf {
				continue
			}
			r.Count("roundtrip", c.Kind+"-"+form)
			if doutcome != "value" {
				r.Violation("container-roundtrip:"+c.Kind+"-"+form, "decoder refuses the encoding of a well-formed container ("+doutcome+")", cs)
			} else if want := c18cCanon(c, form); !c18cEqual(back, want) {
				cs.Decoded = back
				r.Violation("container-roundtrip:"+c.Kind+"-"+form, "a well-formed container does not decode back to its normal form", cs)
			}
		}
		return encs
	}

	mutate := func(g *zv.Group, e *c18cEmitter, kind, form string, msg []byte, structural []int, n int, origin string) {
		for i := 0; i < n; i++ {
			b := append([]byte{}, msg...)
			pos := func() int {
				if len(structural) > 0 && rng.Chance(80) {
					return zv.Pick(rng, structural)
				}
				return rng.Intn(len(b))
			}
			if len(b) == 0 {
				b = rng.Bytes(1 + rng.Intn(3))
			} else {
				switch rng.Intn(6) {
				case 0, 1: // truncate
					p := pos()
					if rng.Chance(30) {
						p = len(b) - 1 - rng.Intn(min(len(b), 4))
						if p < 0 {
							p = 0
						}
					}
					b = b[:p]
				case 2: // flip one bit
					b[pos()] ^= 1 << uint(rng.Intn(8))
				case 3: // replace a byte
					b[pos()] = byte(rng.U64())
				case 4: // insert a byte
					p := pos()
					b = append(b[:p], append([]byte{byte(rng.U64())}, b[p:]...)...)
				case 5: // append garbage
					b = append(b, rng.Bytes(1+rng.Intn(4))...)
				}
			}
			decode(g, e, kind, form, b, origin)
		}
	}

	// structural offsets of an honest encoding: everything that is not inside a run of >= 32 equal bytes
	structOf := func(b []byte) []int {
		var out []int
		for i := 0; i < len(b); {
			j := i
			for j < len(b) && b[j] == b[i] {
				j++
			}
			if j-i < 32 {
				for k := i; k < j; k++ {
					out = append(out, k)
				}
			}
			i = j
		}
		return out
	}

	// ---- replay of a single recorded case (./check C18 --replay file): re-run it first, then the regular streams
	var rc c18cCase
	if r.ReplayInput(&rc) && (rc.Op == "enc" || rc.Op == "dec") {
		if rc.Value != nil {
			roundtrip(grp, em, rc.Value, "replay")
		}
		if in, err := hex.DecodeString(strings.TrimSuffix(rc.Input, "...")); err == nil && rc.Op == "dec" && c18cKindCoq[rc.Kind] != "" &&
			(rc.Form == "proto" && rc.Kind != "nd" || rc.Form == "stream") {
			decode(grp, em, rc.Kind, rc.Form, in, "replay")
		}
	}

	// ---- structured stream: synthetic values, all kinds
	for it := 0; it < r.N(22, 400); it++ {
		for _, kind := range kinds {
			c := gen.cont(kind)
			encs := roundtrip(grp, em, c, "synthetic")
			for form, out := range encs {
				mutate(grp, em, kind, form, out, structOf(out), r.N(2, 6), "mutated-honest")
			}
		}
	}
	// boundary values of the framing: a message just above serde's size limit is refused by the writer
	{
		big := &c18cCont{Kind: "row", Int: 0}
		sh := gen.share()
		for i := 0; i < 2048; i++ { // 2048 * 518 bytes > 1 MiB
			big.Shares = append(big.Shares, sh)
		}
		_, outcome := c18cEncode(big, "stream")
		term := zv.App("CRow", zv.App("mkrow", zv.App("repeat", em.bytes(sh), "2048%nat"), "0"))
		grp.Case(zv.App("CEnc", "FStream", term, map[string]string{"error": "EoError", "panic": "EoPanic", "bytes": "(EoBytes [])"}[outcome]),
			c18cCase{Op: "enc", Kind: "row", Form: "stream", Outcome: outcome, Origin: "too-big: row of 2048 equal shares"}, "enc-too-big")
		r.Count("enc", "row-stream-too-big:"+outcome)
		// reader side: a length prefix above the limit is refused without reading on
		decode(grp, em, "row", "stream", append(c18cUvarint(serde.MaxMessageSize+1), 0x0a, 0x00), "frame")
		decode(grp, em, "row", "stream", append(c18cUvarint(serde.MaxMessageSize), 0x0a, 0x00), "frame")
	}

	// ---- adversarial stream: hand-assembled messages, their frames, and mutations of both
	for it := 0; it < r.N(40, 800); it++ {
		for _, kind := range kinds {
			msg, st := gen.adversarial(kind)
			if kind != "nd" {
				decode(grp, em, kind, "proto", msg, "adversarial")
				mutate(grp, em, kind, "proto", msg, st, 1, "mutated-adversarial")
			}
			stream := c18cFrame(msg)
			if kind == "nd" || kind == "range" { // the stream form of both is a sequence of RowNamespaceData frames
				stream = nil
				for j, n := 0, 1+rng.Intn(3); j < n; j++ {
					m2, _ := gen.adversarial("rnd")
					stream = append(stream, c18cFrame(m2)...)
				}
				if rng.Chance(12) {
					stream = append(stream, c18cUvarint(uint64(1+rng.Intn(300)))...) // a length prefix followed by nothing
				}
			}
			decode(grp, em, kind, "stream", stream, "adversarial")
			mutate(grp, em, kind, "stream", stream, nil, 1, "mutated-adversarial")
		}
	}
	// framing corner cases for every kind
	for _, kind := range kinds {
		for _, in := range [][]byte{{}, {0}, {0, 0}, {1}, {5}, {0x80}, {0x80, 0x00}, {0x81, 0x00, 0x0a}, {2, 0x0a, 0x00}, {2, 0x0a, 0x00, 0xff},
			append(bytes.Repeat([]byte{0x80}, 9), 0x01), append(bytes.Repeat([]byte{0x80}, 9), 0x02), bytes.Repeat([]byte{0x80}, 10),
			{2, 0x12, 0x00}, {2, 0x12, 0x00, 2, 0x12, 0x00}, {2, 0x12, 0x00, 0, 2, 0x12, 0x00}, {2, 0x12, 0x00, 3}, {0, 3}, {0, 0x80}} {
			decode(grp, em, kind, "stream", in, "frame")
		}
	}
	// random bytes
	for it := 0; it < r.N(30, 3000); it++ {
		b := rng.Bytes(rng.Intn(24))
		for _, kind := range kinds {
			for _, form := range forms(kind) {
				decode(grp, em, kind, form, b, "random")
			}
		}
	}

	// ---- values built by the real constructors from a real square: well-formedness (CWf), byte-level encoder tie, round trip
	c18cReal(t, r, rng, roundtrip)
}

// c18cReal builds containers with the real constructors from real squares. Shares and proof nodes are random bytes, so each is
// defined once in the group header and referred to by name.
func c18cReal(t *testing.T, r *zv.Run, rng *zv.Rand, roundtrip func(*zv.Group, *c18cEmitter, *c18cCont, string) map[string][]byte) {
	ctx := context.Background()
	g := r.Group("contreal", c18cHeader, "ccase", "mismatches")
	em := &c18cEmitter{}
	var defs strings.Builder
	name := func(b []byte) {
		if len(b) < 8 {
			return
		}
		for _, v := range em.vals {
			if bytes.Equal(v, b) {
				return
			}
		}
		n := fmt.Sprintf("b%d", len(em.vals))
		em.names = append(em.names, n)
		em.vals = append(em.vals, append([]byte{}, b...))
		defs.WriteString("Definition " + n + " : list Z := " + zv.Bytes(b) + ".\n")
	}
	nameProof := func(p *c18cProof) {
		if p != nil {
			for _, n := range p.Nodes {
				name(n)
			}
			name(p.Leaf)
		}
	}
	nameAll := func(c *c18cCont) {
		for _, s := range c.Shares {
			name(s)
		}
		for _, rw := range c.Rows {
			for _, s := range rw {
				name(s)
			}
		}
		nameProof(c.Proof)
		nameProof(c.First)
		nameProof(c.Last)
		for _, d := range c.Nd {
			for _, s := range d.Shares {
				name(s)
			}
			nameProof(d.Proof)
		}
	}
	var conts []*c18cCont
	sizes := []int{1}
	if r.Thorough() {
		sizes = []int{1, 2, 4}
	}
	for _, ods := range sizes {
		sq := edstest.RandEDS(t, ods)
		acc := eds.Rsmt2D{ExtendedDataSquare: sq}
		for it := 0; it < r.N(1, 6); it++ {
			row, col := rng.Intn(2*ods), rng.Intn(2*ods)
			axis := rsmt2d.Row
			if rng.Bool() {
				axis = rsmt2d.Col
			}
			smpl, err := acc.SampleForProofAxis(shwap.SampleCoords{Row: row, Col: col}, axis)
			if err != nil {
				t.Fatal(err)
			}
			conts = append(conts, c18cSampleOf(smpl))
			half, err := acc.AxisHalf(ctx, rsmt2d.Row, row)
			if err != nil {
				t.Fatal(err)
			}
			conts = append(conts, c18cRowOf(half.ToRow()))
			both, err := shwap.RowFromEDS(sq, rng.Intn(ods), shwap.Both)
			if err != nil {
				t.Fatal(err)
			}
			conts = append(conts, c18cRowOf(both))
			orow := rng.Intn(ods)
			ns, _ := libshare.NewNamespaceFromBytes(sq.Row(uint(orow))[rng.Intn(ods)][:libshare.NamespaceSize])
			if rnd, err := acc.RowNamespaceData(ctx, ns, orow); err == nil {
				conts = append(conts, c18cRndOf(rnd))
			}
			from := rng.Intn(ods * ods)
			to := from + 1 + rng.Intn(ods*ods-from)
			if rg, err := acc.RangeNamespaceData(ctx, from, to); err == nil {
				conts = append(conts, c18cRangeOf(rg))
			}
		}
	}
	for _, c := range conts {
		nameAll(c)
	}
	g.Header = c18cHeader + defs.String()
	for _, c := range conts {
		g.Case(zv.App("CWf", em.cont(c)), c18cCase{Op: "wf", Kind: c.Kind, Value: c, Origin: "real-constructor"}, "wf-real")
		r.Count("real", c.Kind)
		if !c18cWellFormed(c) {
			r.Violation("container-constructor-illformed:"+c.Kind, "a real constructor produced a container outside the round-trip theorem's hypothesis", c)
		}
		roundtrip(g, em, c, "real-constructor")
	}
}

//go:build verif

package shwap_test

// C18 correspondence + oracle harness (see /verif/DESIGN.md, C18).
//
// L2: every identifier constructor / FromBinary decoder is run on boundary-exhaustive and random inputs; the
//     observed (value, encoding | error | panic) is written as a Coq case for CN.Shwap.Ids.mismatches.
// L3: property oracle on the implementation itself: decode(encode(x)) == x, decoders never panic, an accepted
//     identifier stays inside the square, containers survive protobuf / stream / JSON.

import (
	"bytes"
	"context"
	"encoding/json"
	"fmt"
	"io"
	"reflect"
	"testing"

	libshare "github.com/celestiaorg/go-square/v4/share"
	"github.com/celestiaorg/rsmt2d"

	"github.com/celestiaorg/celestia-node/share"
	"github.com/celestiaorg/celestia-node/share/eds"
	"github.com/celestiaorg/celestia-node/share/eds/edstest"
	"github.com/celestiaorg/celestia-node/share/shwap"
	zv "github.com/celestiaorg/celestia-node/zzverif"
)

const c18Header = `From Coq Require Import List ZArith.
From CN Require Import Base.Bytes Shwap.Ids.
Import ListNotations.
Open Scope Z_scope.
`

var c18Kinds = []string{"KEds", "KRow", "KSample", "KNd", "KRnd", "KRange", "KRangeV0"}

type c18ID struct {
	H   uint64 `json:"h"`
	A   int    `json:"a"`
	B   int    `json:"b"`
	Ns  []byte `json:"ns,omitempty"`
	Enc []byte `json:"enc,omitempty"`
}

type c18Case struct {
	Op   string `json:"op"`
	Kind string `json:"kind"`
	Size int    `json:"size,omitempty"`
	In   c18ID  `json:"in"`
	Obs  string `json:"obs"` // none | panic | id
	Out  *c18ID `json:"out,omitempty"`
}

func c18CoqID(i c18ID) string {
	return zv.App("mkid", zv.ZU(i.H), zv.Z(int64(i.A)), zv.Z(int64(i.B)), zv.Bytes(i.Ns))
}

func c18CoqObs(c c18Case) string {
	switch c.Obs {
	case "none":
		return "ONone"
	case "panic":
		return "OPanic"
	}
	return zv.App("OId", c18CoqID(*c.Out), zv.Bytes(c.Out.Enc))
}

func c18Term(c c18Case) string {
	var op string
	if c.Op == "new" {
		op = zv.App("New", c.Kind, zv.Z(int64(c.Size)), c18CoqID(c.In))
	} else {
		op = zv.App("Dec", c.Kind, zv.Bytes(c.In.Enc))
	}
	return zv.Tuple(op, c18CoqObs(c))
}

// c18New runs the real constructor and reports the value through its public fields and MarshalBinary.
func c18New(kind string, size int, in c18ID) (out *c18ID, err error) {
	var ns libshare.Namespace
	if kind == "KNd" || kind == "KRnd" {
		ns, err = libshare.NewNamespaceFromBytes(in.Ns)
		if err != nil {
			// the Go API takes a libshare.Namespace value; an invalid one can only be smuggled in unvalidated
			ns = unsafeNamespace(in.Ns)
		}
	}
	switch kind {
	case "KEds":
		id, e := shwap.NewEdsID(in.H)
		if e != nil {
			return nil, e
		}
		b, _ := id.MarshalBinary()
		return &c18ID{H: id.Height(), Enc: b}, nil
	case "KRow":
		id, e := shwap.NewRowID(in.H, in.A, size)
		if e != nil {
			return nil, e
		}
		b, _ := id.MarshalBinary()
		return &c18ID{H: id.Height(), A: id.RowIndex, Enc: b}, nil
	case "KSample":
		id, e := shwap.NewSampleID(in.H, shwap.SampleCoords{Row: in.A, Col: in.B}, size)
		if e != nil {
			return nil, e
		}
		b, _ := id.MarshalBinary()
		return &c18ID{H: id.Height(), A: id.RowIndex, B: id.ShareIndex, Enc: b}, nil
	case "KNd":
		id, e := shwap.NewNamespaceDataID(in.H, ns)
		if e != nil {
			return nil, e
		}
		b, _ := id.MarshalBinary()
		return &c18ID{H: id.Height(), Ns: id.DataNamespace.Bytes(), Enc: b}, nil
	case "KRnd":
		id, e := shwap.NewRowNamespaceDataID(in.H, in.A, ns, size)
		if e != nil {
			return nil, e
		}
		b, _ := id.MarshalBinary()
		return &c18ID{H: id.Height(), A: id.RowIndex, Ns: id.DataNamespace.Bytes(), Enc: b}, nil
	case "KRange":
		eid, e := shwap.NewEdsID(in.H)
		if e != nil {
			// NewRangeNamespaceDataID validates the EdsID itself as well; build the raw value through the decoder-free path
			eid = shwap.EdsID{}
		}
		id, e := shwap.NewRangeNamespaceDataID(eid, in.A, in.B, size)
		if e != nil {
			return nil, e
		}
		b, _ := id.MarshalBinary()
		return &c18ID{H: id.Height(), A: id.From, B: id.To, Enc: b}, nil
	case "KRangeV0":
		eid, e := shwap.NewEdsID(in.H)
		if e != nil {
			eid = shwap.EdsID{}
		}
		id, e := shwap.NewRangeNamespaceDataIDV0(eid, in.A, in.B, size)
		if e != nil {
			return nil, e
		}
		b, _ := id.MarshalBinary()
		return &c18ID{H: id.Height(), A: id.From, B: id.To, Enc: b}, nil
	}
	panic("kind")
}

// unsafeNamespace builds a libshare.Namespace holding arbitrary 29 bytes (JSON is validated, so go through a
// valid one and overwrite its backing array, which Bytes() exposes).
func unsafeNamespace(b []byte) libshare.Namespace {
	ns := libshare.MustNewV0Namespace([]byte{1})
	raw := ns.Bytes()
	if len(b) == len(raw) {
		copy(raw, b)
	}
	return ns
}

func c18Dec(kind string, bs []byte) (out *c18ID, err error) {
	switch kind {
	case "KEds":
		id, e := shwap.EdsIDFromBinary(bs)
		if e != nil {
			return nil, e
		}
		b, _ := id.MarshalBinary()
		return &c18ID{H: id.Height(), Enc: b}, nil
	case "KRow":
		id, e := shwap.RowIDFromBinary(bs)
		if e != nil {
			return nil, e
		}
		b, _ := id.MarshalBinary()
		return &c18ID{H: id.Height(), A: id.RowIndex, Enc: b}, nil
	case "KSample":
		id, e := shwap.SampleIDFromBinary(bs)
		if e != nil {
			return nil, e
		}
		b, _ := id.MarshalBinary()
		return &c18ID{H: id.Height(), A: id.RowIndex, B: id.ShareIndex, Enc: b}, nil
	case "KNd":
		id, e := shwap.NamespaceDataIDFromBinary(bs)
		if e != nil {
			return nil, e
		}
		b, _ := id.MarshalBinary()
		return &c18ID{H: id.Height(), Ns: id.DataNamespace.Bytes(), Enc: b}, nil
	case "KRnd":
		id, e := shwap.RowNamespaceDataIDFromBinary(bs)
		if e != nil {
			return nil, e
		}
		b, _ := id.MarshalBinary()
		return &c18ID{H: id.Height(), A: id.RowIndex, Ns: id.DataNamespace.Bytes(), Enc: b}, nil
	case "KRange":
		id, e := shwap.RangeNamespaceDataIDFromBinary(bs)
		if e != nil {
			return nil, e
		}
		b, _ := id.MarshalBinary()
		return &c18ID{H: id.Height(), A: id.From, B: id.To, Enc: b}, nil
	case "KRangeV0":
		id, e := shwap.RangeNamespaceDataIDV0FromBinary(bs)
		if e != nil {
			return nil, e
		}
		b, _ := id.MarshalBinary()
		return &c18ID{H: id.Height(), A: id.From, B: id.To, Enc: b}, nil
	}
	panic("kind")
}

// c18ReadFrom decodes through the stream decoder (ReadFrom); must agree with FromBinary.
// A successfully decoded identifier is kept (c18Held) and re-encoded after later decodes: a decoded value must not
// change when the decoder is used again (no aliasing of scratch buffers).
type c18Marshaler interface{ MarshalBinary() ([]byte, error) }

type c18HeldID struct {
	kind string
	id   c18Marshaler
	enc  []byte // the bytes it was decoded from (decoders are canonical: MarshalBinary must give them back)
}

var (
	c18Held        = map[string][]c18HeldID{}
	c18HeldChanged []map[string]any
	c18HeldChecks  int
)

// c18Frag delivers its bytes in pieces (1 byte, then halves of what is left): a stream reader may return fewer bytes
// than asked for, and a decoder must not mistake a short read for the whole identifier.
type c18Frag struct {
	b []byte
	n int
}

func (f *c18Frag) Read(p []byte) (int, error) {
	if len(f.b) == 0 {
		return 0, io.EOF
	}
	k := 1
	if f.n > 0 {
		k = (len(f.b) + 1) / 2
	}
	f.n++
	if k > len(p) {
		k = len(p)
	}
	copy(p, f.b[:k])
	f.b = f.b[k:]
	return k, nil
}

var c18FragFlip bool

func c18ReadFrom(kind string, bs []byte) (ok bool) {
	var r io.Reader = bytes.NewReader(bs)
	// every second call reads from a fragmenting reader: the verdict and the value must be the same
	c18FragFlip = !c18FragFlip
	if c18FragFlip {
		r = &c18Frag{b: append([]byte{}, bs...)}
	}
	var err error
	var dec c18Marshaler
	switch kind {
	case "KEds":
		id := new(shwap.EdsID)
		_, err = id.ReadFrom(r)
		dec = id
	case "KRow":
		id := new(shwap.RowID)
		_, err = id.ReadFrom(r)
		dec = id
	case "KSample":
		id := new(shwap.SampleID)
		_, err = id.ReadFrom(r)
		dec = id
	case "KNd":
		id := new(shwap.NamespaceDataID)
		_, err = id.ReadFrom(r)
		dec = id
	case "KRnd":
		id := new(shwap.RowNamespaceDataID)
		_, err = id.ReadFrom(r)
		dec = id
	case "KRange":
		id := new(shwap.RangeNamespaceDataID)
		_, err = id.ReadFrom(r)
		dec = id
	case "KRangeV0":
		id := new(shwap.RangeNamespaceDataIDV0)
		_, err = id.ReadFrom(r)
		dec = id
	}
	// every identifier decoded earlier must still be the value it was decoded to
	for _, h := range c18Held[kind] {
		c18HeldChecks++
		now, merr := h.id.MarshalBinary()
		if (merr != nil || !bytes.Equal(now, h.enc)) && len(c18HeldChanged) < 10 {
			c18HeldChanged = append(c18HeldChanged, map[string]any{"kind": kind, "decoded_from_hex": fmt.Sprintf("%x", h.enc), "now_hex": fmt.Sprintf("%x", now),
				"after_decoding_hex": fmt.Sprintf("%x", bs)})
		}
	}
	if err == nil && dec != nil && len(bs) == c18Sizes[kind] {
		hs := append(c18Held[kind], c18HeldID{kind: kind, id: dec, enc: append([]byte{}, bs...)})
		if len(hs) > 6 {
			hs = hs[len(hs)-6:]
		}
		c18Held[kind] = hs
	}
	return err == nil
}

var c18Sizes = map[string]int{"KEds": 8, "KRow": 10, "KSample": 12, "KNd": 37, "KRnd": 39, "KRange": 16, "KRangeV0": 12}

func c18Namespaces(rng *zv.Rand) [][]byte {
	v0 := func(tail ...byte) []byte {
		b := make([]byte, 29)
		copy(b[29-len(tail):], tail)
		return b
	}
	ff := bytes.Repeat([]byte{0xff}, 29)
	tail := append(bytes.Repeat([]byte{0xff}, 28), 0xfe)
	badPrefix := v0(1)
	badPrefix[5] = 1 // version 0 without 18 leading zeros
	badVer := v0(7)
	badVer[0] = 3
	v255 := v0(9)
	v255[0] = 0xff
	rnd := rng.Bytes(29)
	rnd[0] = 0
	for i := 1; i < 19; i++ {
		rnd[i] = 0
	}
	return [][]byte{v0(1), v0(4), v0(0xff, 0xff), rnd, ff, tail, badPrefix, badVer, v255, v0(), libshare.TxNamespace.Bytes(),
		libshare.PayForBlobNamespace.Bytes(), libshare.PrimaryReservedPaddingNamespace.Bytes(), rng.Bytes(29), rng.Bytes(28), rng.Bytes(30), {}}
}

func TestVerifC18(t *testing.T) {
	r := zv.Start(t, "C18")
	defer r.Finish()
	defer func() {
		r.Set("decoded_id_stability_checks", c18HeldChecks)
		for _, d := range c18HeldChanged {
			r.Violation("decoded-id-changed:"+fmt.Sprint(d["kind"]), fmt.Sprintf("an identifier decoded by ReadFrom changed its value after a later ReadFrom (decoded from %v, now encodes as %v)", d["decoded_from_hex"], d["now_hex"]), d)
		}
	}()
	g := r.Group("ids", c18Header, "case", "mismatches")
	rng := r.Rand()

	// ---- constants of the implementation
	consts := []int{shwap.EdsIDSize, shwap.RowIDSize, shwap.SampleIDSize, shwap.NamespaceDataIDSize,
		shwap.RowNamespaceDataIDSize, shwap.RangeNamespaceDataIDSize, shwap.RangeNamespaceDataIDV0Size,
		libshare.NamespaceSize, share.MaxSquareSize}
	for i, v := range consts {
		g.Case(zv.Tuple(zv.App("Const", zv.Nat(i), zv.Z(int64(v))), "ONone"), map[string]any{"op": "const", "name": i, "v": v}, "")
	}
	maxODS := share.MaxSquareSize

	record := func(c c18Case) {
		key := ""
		if c.Obs != "none" {
			key = "accepted"
		} else if c.Op == "dec" && len(c.In.Enc) == c18Sizes[c.Kind] {
			key = "rejected-right-length"
		} else if c.Op == "new" {
			key = "rejected-ctor"
		}
		g.Case(c18Term(c), c, key)
		r.Count("op", c.Op+":"+c.Kind)
		r.Count("obs", c.Op+":"+c.Obs)
	}

	// ---- L3 oracle for one constructor call
	tryNew := func(kind string, size int, in c18ID) {
		c := c18Case{Op: "new", Kind: kind, Size: size, In: in}
		var out *c18ID
		var err error
		p := zv.Recover(func() { out, err = c18New(kind, size, in) })
		switch {
		case p != "":
			c.Obs = "panic"
			r.Violation("ctor-panic:"+kind, "constructor panicked: "+p, c)
		case err != nil:
			c.Obs = "none"
		default:
			c.Obs, c.Out = "id", out
			// oracle: the encoding decodes back to an equal value that is still inside the square
			var back *c18ID
			var derr error
			if pp := zv.Recover(func() { back, derr = c18Dec(kind, out.Enc) }); pp != "" {
				r.Violation("dec-panic:"+kind, "decoder panicked on an encoder's output: "+pp, c)
			} else if derr != nil {
				r.Violation("roundtrip-rejected:"+kind, fmt.Sprintf("decoder rejects the encoding of an accepted id: %v", derr), c)
			} else if back.H != out.H || back.A != out.A || back.B != out.B || !bytes.Equal(back.Ns, out.Ns) {
				r.Violation("roundtrip-altered:"+kind, fmt.Sprintf("id (h=%d a=%d b=%d) decodes back as (h=%d a=%d b=%d): a field was silently altered by the encoder",
					out.H, out.A, out.B, back.H, back.A, back.B), c)
			}
			if len(out.Enc) != c18Sizes[kind] {
				r.Violation("enc-length:"+kind, "encoding has the wrong length", c)
			}
		}
		record(c)
	}

	tryDec := func(kind string, bs []byte) {
		c := c18Case{Op: "dec", Kind: kind, In: c18ID{Enc: bs}}
		var out *c18ID
		var err error
		p := zv.Recover(func() { out, err = c18Dec(kind, bs) })
		switch {
		case p != "":
			c.Obs = "panic"
			r.Violation("dec-panic:"+kind, "decoder panicked on arbitrary bytes: "+p, c)
		case err != nil:
			c.Obs = "none"
		default:
			c.Obs, c.Out = "id", out
			if !bytes.Equal(out.Enc, bs) {
				r.Violation("dec-noncanonical:"+kind, "decoder accepted bytes that are not the encoding of the value it returned", c)
			}
			if len(bs) != c18Sizes[kind] {
				r.Violation("dec-wrong-length:"+kind, "decoder accepted input of the wrong length", c)
			}
		}
		var rok bool
		if pp := zv.Recover(func() { rok = c18ReadFrom(kind, bs) }); pp != "" {
			r.Violation("readfrom-panic:"+kind, "ReadFrom panicked: "+pp, c)
		} else if len(bs) == c18Sizes[kind] && rok != (c.Obs == "id") {
			r.Violation("readfrom-differs:"+kind, "ReadFrom and FromBinary disagree on the same bytes", c)
		}
		record(c)
	}

	// ---- structured constructor inputs: boundary-exhaustive
	heights := []uint64{0, 1, 2, 255, 256, 1 << 16, 1<<32 - 1, 1 << 32, 1<<63 - 1, 1 << 63, 1<<64 - 1, rng.U64()}
	edsSizes := []int{0, 1, 2, 4, 8, 64, 256, 1024, 2 * maxODS}
	idxs := func(sz int) []int {
		s := []int{-1 << 62, -65536, -1, 0, 1, sz / 2, sz - 1, sz, sz + 1, 255, 256, 65535, 65536, 65537, 1 << 31, 1<<32 - 1, 1 << 32}
		for i := 0; i < 3; i++ {
			s = append(s, rng.Intn(sz+2))
		}
		return s
	}
	nss := c18Namespaces(rng)
	validNs := [][]byte{nss[0], nss[1], nss[2], nss[3], nss[10], nss[11]}
	for _, h := range heights {
		tryNew("KEds", 0, c18ID{H: h})
		for _, ns := range nss {
			if len(ns) == 29 {
				tryNew("KNd", 0, c18ID{H: h, Ns: ns})
			}
		}
	}
	for _, sz := range edsSizes {
		for _, a := range idxs(sz) {
			h := zv.Pick(rng, heights)
			tryNew("KRow", sz, c18ID{H: h, A: a})
			tryNew("KRow", sz, c18ID{H: 5, A: a})
			for _, b := range idxs(sz) {
				tryNew("KSample", sz, c18ID{H: 7, A: a, B: b})
			}
			for _, ns := range nss {
				if len(ns) == 29 {
					tryNew("KRnd", sz, c18ID{H: 9, A: a, Ns: ns})
				}
			}
		}
	}
	odsSizes := []int{0, 1, 2, 4, 16, 128, 255, 256, 257, maxODS}
	for _, sz := range odsSizes {
		n := sz * sz
		pts := []int{-1, 0, 1, 2, n / 2, n - 1, n, n + 1, 65535, 65536, 65537, 65540, 131072, 262143, 262144, 1<<32 - 1, 1 << 32}
		for i := 0; i < 4; i++ {
			pts = append(pts, rng.Intn(n+2))
		}
		for _, a := range pts {
			for _, b := range pts {
				tryNew("KRange", sz, c18ID{H: 3, A: a, B: b})
				tryNew("KRangeV0", sz, c18ID{H: 3, A: a, B: b})
			}
		}
		tryNew("KRange", sz, c18ID{H: 0, A: 0, B: 1})
		tryNew("KRangeV0", sz, c18ID{H: 0, A: 0, B: 1})
	}
	// random valid ids at the protocol maximum
	for i := 0; i < r.N(300, 20000); i++ {
		k := zv.Pick(rng, c18Kinds)
		eds := 2 * (1 << rng.Intn(10))
		ods := 1 << rng.Intn(10)
		in := c18ID{H: 1 + rng.U64()>>uint(rng.Intn(64))}
		switch k {
		case "KRow":
			in.A = rng.Intn(eds)
			tryNew(k, eds, in)
		case "KSample":
			in.A, in.B = rng.Intn(eds), rng.Intn(eds)
			tryNew(k, eds, in)
		case "KNd":
			in.Ns = zv.Pick(rng, validNs)
			tryNew(k, 0, in)
		case "KRnd":
			in.A, in.Ns = rng.Intn(eds), zv.Pick(rng, validNs)
			tryNew(k, eds, in)
		case "KRange", "KRangeV0":
			in.A = rng.Intn(ods * ods)
			in.B = in.A + 1 + rng.Intn(ods*ods-in.A)
			tryNew(k, ods, in)
		default:
			tryNew(k, 0, in)
		}
	}

	// ---- decoder inputs: honest encodings, each field at its extremes, wrong lengths, mutations, random bytes
	for _, k := range c18Kinds {
		n := c18Sizes[k]
		zero := make([]byte, n)
		ones := bytes.Repeat([]byte{0xff}, n)
		h1 := make([]byte, n)
		h1[7] = 1
		tryDec(k, zero)
		tryDec(k, ones)
		tryDec(k, h1)
		for _, ln := range []int{0, 1, n - 1, n + 1, 2 * n} {
			tryDec(k, rng.Bytes(ln))
		}
		// structured: height 1 + every namespace variant / field extremes
		for _, tailv := range [][]byte{{0, 0}, {0xff, 0xff}, {0, 1}, {1, 0}} {
			b := append([]byte{}, h1...)
			for i := 8; i+1 < n && i < 16; i += 2 {
				copy(b[i:], tailv)
			}
			tryDec(k, b)
		}
		if k == "KNd" || k == "KRnd" {
			off := n - 29
			for _, ns := range nss {
				if len(ns) != 29 {
					continue
				}
				b := append([]byte{}, h1...)
				copy(b[off:], ns)
				tryDec(k, b)
			}
		}
		for i := 0; i < r.N(60, 5000); i++ {
			b := rng.Bytes(n)
			if rng.Chance(60) && (k == "KNd" || k == "KRnd") {
				copy(b[n-29:], zv.Pick(rng, validNs))
			}
			if rng.Chance(10) {
				copy(b[:8], zero[:8])
			}
			if (k == "KRange" || k == "KRangeV0") && rng.Chance(50) {
				// make from < to likely
				b[8] = 0
			}
			// single-byte mutation of a previously accepted encoding
			tryDec(k, b)
		}
	}

	c18Containers(t, r)
}

// c18Containers: L3 only — containers built from real squares survive protobuf, length-delimited stream and JSON;
// arbitrary bytes never panic a container decoder.
func c18Containers(t *testing.T, r *zv.Run) {
	rng := r.Rand().Fork(18)
	ctx := context.Background()
	type jsonRT struct {
		name string
		v    any
		into func() any
	}
	n := 0
	for _, ods := range []int{1, 2, 4, 8} {
		sq := edstest.RandEDS(t, ods)
		acc := eds.Rsmt2D{ExtendedDataSquare: sq}
		for it := 0; it < r.N(6, 60); it++ {
			row, col := rng.Intn(2*ods), rng.Intn(2*ods)
			axis := rsmt2d.Row
			if rng.Bool() {
				axis = rsmt2d.Col
			}
			smpl, err := acc.SampleForProofAxis(shwap.SampleCoords{Row: row, Col: col}, axis)
			if err != nil {
				t.Fatal(err)
			}
			// protobuf
			if p := zv.Recover(func() {
				back, err := shwap.SampleFromProto(smpl.ToProto())
				if err != nil || !reflect.DeepEqual(back.Share.ToBytes(), smpl.Share.ToBytes()) || back.ProofType != smpl.ProofType ||
					back.Proof.Start() != smpl.Proof.Start() || back.Proof.End() != smpl.Proof.End() || !reflect.DeepEqual(back.Proof.Nodes(), smpl.Proof.Nodes()) {
					r.Violation("container-roundtrip:sample-proto", fmt.Sprintf("sample (%d,%d) axis %d of ods %d does not survive protobuf: %v", row, col, axis, ods, err), nil)
				}
			}); p != "" {
				r.Violation("container-panic:sample-proto", p, nil)
			}
			// stream
			var buf bytes.Buffer
			if _, err := smpl.WriteTo(&buf); err != nil {
				r.Violation("container-roundtrip:sample-stream", err.Error(), nil)
			}
			var s2 shwap.Sample
			if _, err := s2.ReadFrom(&buf); err != nil || !reflect.DeepEqual(s2.Share.ToBytes(), smpl.Share.ToBytes()) || s2.ProofType != smpl.ProofType {
				r.Violation("container-roundtrip:sample-stream", fmt.Sprintf("sample does not survive the stream form: %v", err), nil)
			}
			// JSON
			js, err := json.Marshal(smpl)
			var s3 shwap.Sample
			if err == nil {
				err = json.Unmarshal(js, &s3)
			}
			if err != nil || !reflect.DeepEqual(s3.Share.ToBytes(), smpl.Share.ToBytes()) || s3.ProofType != smpl.ProofType ||
				s3.Proof.Start() != smpl.Proof.Start() || s3.Proof.End() != smpl.Proof.End() || !reflect.DeepEqual(s3.Proof.Nodes(), smpl.Proof.Nodes()) {
				r.Violation("container-roundtrip:sample-json", fmt.Sprintf("sample does not survive JSON: %v", err), nil)
			}
			n++
			r.Count("container", "sample")

			// Row, both sides
			half, err := acc.AxisHalf(ctx, rsmt2d.Row, row)
			if err != nil {
				t.Fatal(err)
			}
			rw := half.ToRow()
			back, err := shwap.RowFromProto(rw.ToProto())
			if err != nil || !c18RowEq(back, rw) {
				r.Violation("container-roundtrip:row-proto", fmt.Sprintf("row %d does not survive protobuf: %v", row, err), nil)
			}
			buf.Reset()
			if _, err := rw.WriteTo(&buf); err != nil {
				r.Violation("container-roundtrip:row-stream", err.Error(), nil)
			}
			var r2 shwap.Row
			if _, err := r2.ReadFrom(&buf); err != nil || !c18RowEq(r2, rw) {
				r.Violation("container-roundtrip:row-stream", fmt.Sprintf("row does not survive the stream form: %v", err), nil)
			}
			js, err = json.Marshal(rw)
			var r3 shwap.Row
			if err == nil {
				if p := zv.Recover(func() { err = json.Unmarshal(js, &r3) }); p != "" {
					r.Violation("container-panic:row-json", p, nil)
				}
			}
			if err != nil || !c18RowEq(r3, rw) {
				r.Violation("container-roundtrip:row-json", fmt.Sprintf("row does not survive JSON: %v", err), nil)
			}
			n++
			r.Count("container", "row")

			// RowNamespaceData for a namespace of the row (inclusion) and range data
			if row < ods {
				shrs := sq.Row(uint(row))
				ns, _ := libshare.NewNamespaceFromBytes(shrs[rng.Intn(ods)][:libshare.NamespaceSize])
				rnd, err := acc.RowNamespaceData(ctx, ns, row)
				if err == nil {
					back, err := shwap.RowNamespaceDataFromProto(rnd.ToProto())
					if err != nil || len(back.Shares) != len(rnd.Shares) || (back.Proof == nil) != (rnd.Proof == nil) ||
						(rnd.Proof != nil && (back.Proof.Start() != rnd.Proof.Start() || back.Proof.End() != rnd.Proof.End())) {
						r.Violation("container-roundtrip:rnd-proto", fmt.Sprintf("row namespace data does not survive protobuf: %v", err), nil)
					}
					buf.Reset()
					_, _ = rnd.WriteTo(&buf)
					var d2 shwap.RowNamespaceData
					if _, err := d2.ReadFrom(&buf); err != nil || len(d2.Shares) != len(rnd.Shares) {
						r.Violation("container-roundtrip:rnd-stream", fmt.Sprintf("row namespace data does not survive the stream form: %v", err), nil)
					}
					n++
					r.Count("container", "rnd")
				}
				from := rng.Intn(ods * ods)
				to := from + 1 + rng.Intn(ods*ods-from)
				rng2, err := acc.RangeNamespaceData(ctx, from, to)
				if err == nil {
					pbv := rng2.ToProto()
					back, err := shwap.RangeNamespaceDataFromProto(pbv)
					if err != nil || !reflect.DeepEqual(c18Flat(back.Flatten()), c18Flat(rng2.Flatten())) ||
						(back.FirstIncompleteRowProof == nil) != (rng2.FirstIncompleteRowProof == nil) ||
						(back.LastIncompleteRowProof == nil) != (rng2.LastIncompleteRowProof == nil) {
						r.Violation("container-roundtrip:range-proto", fmt.Sprintf("range data [%d,%d) ods %d does not survive protobuf: %v", from, to, ods, err), nil)
					}
					buf.Reset()
					_, _ = rng2.WriteTo(&buf)
					var d2 shwap.RangeNamespaceData
					if _, err := d2.ReadFrom(&buf); err != nil || !reflect.DeepEqual(c18Flat(d2.Flatten()), c18Flat(rng2.Flatten())) {
						r.Violation("container-roundtrip:range-stream", fmt.Sprintf("range data does not survive the stream form: %v", err), nil)
					}
					n++
					r.Count("container", "range")
				}
			}
		}
	}
	// arbitrary bytes / JSON into every container decoder: never a panic
	jsons := []string{`{}`, `null`, `[]`, `{"shares":[],"side":"MIDDLE"}`, `{"shares":[],"side":"LEFT"}`, `{"shares":null,"side":""}`,
		`{"share":null,"proof":null,"proof_type":7}`, `{"share":"AA==","proof":{},"proof_type":0}`, `{"shares":["AA=="],"side":"RIGHT"}`, `"x"`, `1`}
	for i := 0; i < r.N(200, 5000); i++ {
		var b []byte
		if i < len(jsons) {
			b = []byte(jsons[i])
		} else {
			b = rng.Bytes(rng.Intn(96))
		}
		for name, f := range map[string]func(){
			"sample-json": func() { var s shwap.Sample; _ = json.Unmarshal(b, &s) },
			"row-json":    func() { var s shwap.Row; _ = json.Unmarshal(b, &s) },
			"sample-read": func() { var s shwap.Sample; _, _ = s.ReadFrom(bytes.NewReader(b)) },
			"row-read":    func() { var s shwap.Row; _, _ = s.ReadFrom(bytes.NewReader(b)) },
			"rnd-read":    func() { var s shwap.RowNamespaceData; _, _ = s.ReadFrom(bytes.NewReader(b)) },
			"nd-read":     func() { var s shwap.NamespaceData; _, _ = s.ReadFrom(bytes.NewReader(b)) },
			"range-read":  func() { var s shwap.RangeNamespaceData; _, _ = s.ReadFrom(bytes.NewReader(b)) },
		} {
			if p := zv.Recover(f); p != "" {
				r.Violation("container-panic:"+name, "decoder panicked on arbitrary input: "+p, map[string]any{"decoder": name, "input": string(b), "input_hex": fmt.Sprintf("%x", b)})
			}
			r.Count("container-fuzz", name)
		}
	}
	r.Set("container_roundtrips", n)
}

func c18RowEq(a, b shwap.Row) bool {
	// Row has unexported fields; compare through the wire form
	pa, pb := a.ToProto(), b.ToProto()
	return reflect.DeepEqual(pa, pb)
}

func c18Flat(s []libshare.Share) [][]byte {
	out := make([][]byte, len(s))
	for i := range s {
		out[i] = s[i].ToBytes()
	}
	return out
}

//go:build verif

package shwap_test

// Shared machinery of the C01/C02 harnesses: square generation from a namespace-layout grammar, the symboliser that
// maps real NMT digests / shares / proofs to terms of the Coq model (CN.Base.Nmt, CN.Shwap.Verify), and emitters.

import (
	"bytes"
	"crypto/sha256"
	"fmt"
	"math/big"
	"os"
	"path/filepath"
	"sort"
	"strings"
	"testing"

	"github.com/celestiaorg/celestia-app/v9/pkg/wrapper"
	libshare "github.com/celestiaorg/go-square/v4/share"
	"github.com/celestiaorg/nmt"
	"github.com/celestiaorg/rsmt2d"

	"github.com/celestiaorg/celestia-node/share"
	"github.com/celestiaorg/celestia-node/share/eds"
	"github.com/celestiaorg/celestia-node/share/shwap"
	zv "github.com/celestiaorg/celestia-node/zzverif"
)

const c01Header = `From Coq Require Import List Arith NArith.
From CN Require Import Base.Nmt Shwap.Verify Shwap.VerifyCases.
Import ListNotations.
`

const nsSize = libshare.NamespaceSize

type symNode struct {
	leaf   bool
	prefix []byte // leaf: namespace prefix
	share  []byte // leaf: 512 share bytes
	l, r   []byte // node: children digests (90 bytes each)
}

type symb struct {
	shareID map[string]uint64
	nodes   map[[32]byte]symNode
	atoms   map[[32]byte]uint64
	hasher  *nmt.NmtHasher
	// named definitions shared by all cases of a run (written once to defs_<name>.v): namespaces and known digests
	nsName  map[string]string
	digName map[string]string
	defs    strings.Builder
}

func newSymb() *symb {
	s := &symb{shareID: map[string]uint64{}, nodes: map[[32]byte]symNode{}, atoms: map[[32]byte]uint64{},
		nsName: map[string]string{}, digName: map[string]string{}}
	s.atoms[sha256.Sum256(nil)] = 0 // sha256("") : the empty root
	s.hasher = nmt.NewNmtHasher(sha256.New(), nsSize, true)
	return s
}

func bigN(b []byte) string { return new(big.Int).SetBytes(b).String() + "%N" }

// ns names a namespace value once (Definition nsK : N := ...) and refers to it by name afterwards.
func (s *symb) ns(b []byte) string {
	if n, ok := s.nsName[string(b)]; ok {
		return n
	}
	n := fmt.Sprintf("ns%d", len(s.nsName))
	s.nsName[string(b)] = n
	fmt.Fprintf(&s.defs, "Definition %s : N := %s.\n", n, bigN(b))
	return n
}

// WriteDefs writes every definition made so far into <out>/defs_<name>.v (compiled once by the driver before the
// case shards) and returns the Coq header that imports it.
func (s *symb) WriteDefs(out, name string) string {
	if err := os.WriteFile(filepath.Join(out, "defs_"+name+".v"), []byte(c01Header+s.defs.String()), 0o644); err != nil {
		panic(err)
	}
	return c01Header + "Require Import defs_" + name + ".\n"
}

func (s *symb) sid(sh []byte) uint64 {
	id, ok := s.shareID[string(sh)]
	if !ok {
		id = uint64(len(s.shareID) + 1)
		s.shareID[string(sh)] = id
	}
	return id
}

// share renders a share as (namespace, id)
func (s *symb) share(sh libshare.Share) string {
	b := sh.ToBytes()
	return "(" + s.ns(b[:nsSize]) + ", " + zv.N(s.sid(b)) + ")"
}

func (s *symb) shares(shs []libshare.Share) string {
	xs := make([]string, len(shs))
	for i := range shs {
		xs[i] = s.share(shs[i])
	}
	return zv.List(xs)
}

func sha32(d []byte) (k [32]byte) { copy(k[:], d[2*nsSize:]); return }

// dig renders a 90-byte NMT digest as a term of CN.Base.Nmt.dig. Digests of known trees are named definitions.
func (s *symb) dig(d []byte) string {
	if len(d) != 2*nsSize+32 {
		return "DBad"
	}
	if n, ok := s.digName[string(d)]; ok {
		return n
	}
	mn, mx := s.ns(d[:nsSize]), s.ns(d[nsSize:2*nsSize])
	if n, ok := s.nodes[sha32(d)]; ok {
		var body string
		if n.leaf {
			body = fmt.Sprintf("DLeaf %s %s %s %s %s", mn, mx, s.ns(n.prefix), s.ns(n.share[:nsSize]), zv.N(s.sid(n.share)))
		} else {
			body = fmt.Sprintf("DNode %s %s %s %s", mn, mx, s.dig(n.l), s.dig(n.r))
		}
		name := fmt.Sprintf("d%d", len(s.digName))
		s.digName[string(d)] = name
		fmt.Fprintf(&s.defs, "Definition %s : dig := %s.\n", name, body)
		return name
	}
	id, ok := s.atoms[sha32(d)]
	if !ok {
		id = uint64(len(s.atoms))
		s.atoms[sha32(d)] = id
	}
	return fmt.Sprintf("(DAtom %s %s %s)", mn, mx, zv.N(id))
}

func (s *symb) digs(ds [][]byte) string {
	xs := make([]string, len(ds))
	for i := range ds {
		xs[i] = s.dig(ds[i])
	}
	return zv.List(xs)
}

// proofOK says whether a proof's indices are representable as small nat literals in the model
func proofOK(p *nmt.Proof) bool {
	return p == nil || (p.Start() >= 0 && p.End() >= 0 && p.Start() <= 4096 && p.End() <= 4096)
}

func (s *symb) proof(p *nmt.Proof) string {
	if p == nil {
		return "None"
	}
	leaf := "None"
	if len(p.LeafHash()) > 0 {
		leaf = zv.Some(s.dig(p.LeafHash()))
	}
	return zv.Some(zv.App("mkproof", zv.Nat(p.Start()), zv.Nat(p.End()), s.digs(p.Nodes()), leaf))
}

// rootsAt renders the roots keeping only row root i and column root j (the others become DBad): the sample and row
// verifiers read nothing else but the lengths, and evaluating fewer big terms keeps the in-Coq evaluation fast.
func (s *symb) rootsAt(r *share.AxisRoots, i, j int) string {
	rows := make([]string, len(r.RowRoots))
	cols := make([]string, len(r.ColumnRoots))
	for x := range rows {
		rows[x] = "DBad"
		if x == i {
			rows[x] = s.dig(r.RowRoots[x])
		}
	}
	for x := range cols {
		cols[x] = "DBad"
		if x == j {
			cols[x] = s.dig(r.ColumnRoots[x])
		}
	}
	return zv.App("mkroots", zv.List(rows), zv.List(cols))
}

func (s *symb) roots(r *share.AxisRoots) string {
	return zv.App("mkroots", s.digs(r.RowRoots), s.digs(r.ColumnRoots))
}

// learnTree registers every digest of the erasured NMT over one axis and returns the root and the leaf digests.
func (s *symb) learnTree(k, axisIdx int, cells [][]byte) (root []byte, leaves [][]byte) {
	w := len(cells)
	leaves = make([][]byte, w)
	for j, c := range cells {
		i := axisIdx
		var prefix []byte
		if i < k && j < k {
			prefix = c[:nsSize]
		} else {
			prefix = libshare.ParitySharesNamespace.Bytes()
		}
		data := append(append([]byte{}, prefix...), c...)
		h, err := s.hasher.HashLeaf(data)
		if err != nil {
			panic(err)
		}
		h = append([]byte{}, h...)
		s.nodes[sha32(h)] = symNode{leaf: true, prefix: append([]byte{}, prefix...), share: append([]byte{}, c...)}
		leaves[j] = h
	}
	var rec func(lo, hi int) []byte
	rec = func(lo, hi int) []byte {
		if hi-lo == 1 {
			return leaves[lo]
		}
		mid := (lo + hi) / 2
		l, r := rec(lo, mid), rec(mid, hi)
		h, err := s.hasher.HashNode(l, r)
		if err != nil {
			panic(err)
		}
		h = append([]byte{}, h...)
		s.nodes[sha32(h)] = symNode{l: l, r: r}
		return h
	}
	return rec(0, w), leaves
}

// square is one generated block
type square struct {
	k      int
	ods    []libshare.Share // row-major k*k
	eds    *rsmt2d.ExtendedDataSquare
	acc    eds.Rsmt2D
	roots  *share.AxisRoots
	nsList []libshare.Namespace // distinct data namespaces present in the ODS, ascending
	layout string
	rowLeaves [][][]byte
}

func (q *square) cell(i, j int) libshare.Share {
	sh, err := libshare.NewShare(q.eds.GetCell(uint(i), uint(j)))
	if err != nil {
		panic(err)
	}
	return *sh2(sh)
}

func sh2(s libshare.Share) *libshare.Share { return &s }

func mkShare(ns libshare.Namespace, rng *zv.Rand) libshare.Share {
	b := rng.Bytes(libshare.ShareSize)
	copy(b, ns.Bytes())
	s, err := libshare.NewShare(b)
	if err != nil {
		panic(err)
	}
	return s
}

func v0ns(x uint64) libshare.Namespace {
	b := make([]byte, 10)
	for i := 0; i < 8; i++ {
		b[9-i] = byte(x >> (8 * i))
	}
	return libshare.MustNewV0Namespace(b)
}

// genSquare builds a valid square (namespace-ordered, tail padding at the end) from a layout grammar.
func genSquare(t testing.TB, sy *symb, rng *zv.Rand, k int, layout string) *square {
	n := k * k
	type run struct {
		ns  libshare.Namespace
		cnt int
	}
	var runs []run
	base := uint64(1000 + rng.Intn(1000))
	pad := 0
	switch layout {
	case "single": // one namespace fills the whole square
		runs = []run{{v0ns(base), n}}
	case "many": // every share its own namespace
		for i := 0; i < n; i++ {
			runs = append(runs, run{v0ns(base + uint64(2*i)), 1})
		}
	case "spanning": // a few namespaces, one of them spanning several rows, gaps between namespace ids
		left := n
		for left > 0 {
			c := 1 + rng.Intn(2*k+1)
			if c > left {
				c = left
			}
			runs = append(runs, run{v0ns(base + uint64(3*len(runs))), c})
			left -= c
		}
	case "padded": // some data then tail padding (any amount from 1 to n-1)
		pad = 1 + rng.Intn(n)
		if pad >= n {
			pad = n - 1
		}
		left := n - pad
		for left > 0 {
			c := 1 + rng.Intn(k+1)
			if c > left {
				c = left
			}
			runs = append(runs, run{v0ns(base + uint64(2*len(runs))), c})
			left -= c
		}
	case "reserved": // tx + pfb namespaces first, then data, then padding
		runs = append(runs, run{libshare.TxNamespace, 1})
		if n > 2 {
			runs = append(runs, run{libshare.PayForBlobNamespace, 1})
		}
		left := n - len(runs)
		if left > 1 {
			pad = rng.Intn(left/2 + 1)
			left -= pad
		}
		for left > 0 {
			c := 1 + rng.Intn(k+1)
			if c > left {
				c = left
			}
			runs = append(runs, run{v0ns(base + uint64(2*len(runs))), c})
			left -= c
		}
	default:
		t.Fatalf("layout %q", layout)
	}
	q := &square{k: k, layout: layout}
	for _, r := range runs {
		for i := 0; i < r.cnt; i++ {
			q.ods = append(q.ods, mkShare(r.ns, rng))
		}
		if !r.ns.IsReserved() || r.ns.Equals(libshare.TxNamespace) || r.ns.Equals(libshare.PayForBlobNamespace) {
			q.nsList = append(q.nsList, r.ns)
		}
	}
	for i := 0; i < pad; i++ {
		q.ods = append(q.ods, libshare.TailPaddingShare())
	}
	if len(q.ods) != n {
		t.Fatalf("layout produced %d shares for k=%d", len(q.ods), k)
	}
	sq, err := rsmt2d.ComputeExtendedDataSquare(libshare.ToBytes(q.ods), share.DefaultRSMT2DCodec(), wrapper.NewConstructor(uint64(k)))
	if err != nil {
		t.Fatal(err)
	}
	q.eds = sq
	q.acc = eds.Rsmt2D{ExtendedDataSquare: sq}
	q.roots, err = share.NewAxisRoots(sq)
	if err != nil {
		t.Fatal(err)
	}
	for i := 0; i < 2*k; i++ {
		root, leaves := sy.learnTree(k, i, sq.Row(uint(i)))
		if !bytes.Equal(root, q.roots.RowRoots[i]) {
			t.Fatalf("harness tree recomputation disagrees with the DAH row root %d", i)
		}
		q.rowLeaves = append(q.rowLeaves, leaves)
		// the prefix rule (own namespace iff both coordinates are in the first quadrant) is symmetric in (row, col)
		croot, _ := sy.learnTree(k, i, sq.Col(uint(i)))
		if !bytes.Equal(croot, q.roots.ColumnRoots[i]) {
			t.Fatalf("harness tree recomputation disagrees with the DAH column root %d", i)
		}
	}
	return q
}

// rowTree builds the real erasured NMT of a row so that honest-looking proofs for arbitrary sub-ranges can be made.
func (q *square) rowTree(i int) *wrapper.ErasuredNamespacedMerkleTree {
	tr := wrapper.NewErasuredNamespacedMerkleTree(uint64(q.k), uint(i))
	for _, c := range q.eds.Row(uint(i)) {
		if err := tr.Push(c); err != nil {
			panic(err)
		}
	}
	if _, err := tr.Root(); err != nil {
		panic(err)
	}
	return &tr
}

// nsShares is the reference answer for a namespace: all ODS shares of that namespace in block order.
func (q *square) nsShares(ns libshare.Namespace) [][]byte {
	var out [][]byte
	for _, s := range q.ods {
		if s.Namespace().Equals(ns) {
			out = append(out, s.ToBytes())
		}
	}
	return out
}

func flatBytes(s []libshare.Share) [][]byte {
	out := make([][]byte, len(s))
	for i := range s {
		out[i] = s[i].ToBytes()
	}
	return out
}

func eqBytes2(a, b [][]byte) bool {
	if len(a) != len(b) {
		return false
	}
	for i := range a {
		if !bytes.Equal(a[i], b[i]) {
			return false
		}
	}
	return true
}

func cloneProof(p *nmt.Proof, start, end int, nodes [][]byte, leaf []byte) *nmt.Proof {
	var np nmt.Proof
	if len(leaf) > 0 {
		np = nmt.NewAbsenceProof(start, end, nodes, leaf, true)
	} else {
		np = nmt.NewInclusionProof(start, end, nodes, true)
	}
	return &np
}

func cloneNodes(n [][]byte) [][]byte {
	out := make([][]byte, len(n))
	for i := range n {
		out[i] = append([]byte{}, n[i]...)
	}
	return out
}

func mutateShare(s libshare.Share, rng *zv.Rand, keepNs bool) libshare.Share {
	b := append([]byte{}, s.ToBytes()...)
	lo := 0
	if keepNs {
		lo = nsSize
	}
	i := lo + rng.Intn(len(b)-lo)
	b[i] ^= byte(1 + rng.Intn(255))
	out, err := libshare.NewShare(b)
	if err != nil {
		panic(err)
	}
	return out
}

// candidate namespaces for a square: present ones, absent inside a row's range, absent below/above everything, reserved
func (q *square) candidateNamespaces(rng *zv.Rand) []libshare.Namespace {
	seen := map[string]bool{}
	var out []libshare.Namespace
	add := func(ns libshare.Namespace) {
		if ns.ValidateForData() != nil || seen[string(ns.Bytes())] {
			return
		}
		seen[string(ns.Bytes())] = true
		out = append(out, ns)
	}
	for _, ns := range q.nsList {
		add(ns)
		if up, err := ns.AddInt(1); err == nil {
			add(up) // usually absent, just above a present one (inside a row's range when the row continues)
		}
		if down, err := ns.AddInt(-1); err == nil {
			add(down)
		}
	}
	add(v0ns(1))
	add(v0ns(1 << 40))
	add(libshare.TxNamespace)
	add(libshare.PayForBlobNamespace)
	add(libshare.PrimaryReservedPaddingNamespace)
	sort.Slice(out, func(i, j int) bool { return bytes.Compare(out[i].Bytes(), out[j].Bytes()) < 0 })
	return out
}

func hexShort(b []byte) string {
	if len(b) > 6 {
		b = b[len(b)-6:]
	}
	return fmt.Sprintf("%x", b)
}

func joinInts(xs ...int) string {
	ss := make([]string, len(xs))
	for i, x := range xs {
		ss[i] = fmt.Sprint(x)
	}
	return strings.Join(ss, ",")
}

var _ = shwap.Left

//go:build verif

package bitswap

// C10 — concurrent fetches of ONE CID, as schedules of explicit steps forced on the real Fetch.
//
// Every Fetch runs in its own goroutine and is parked at the points where it touches state shared with the other fetches
// and with the hasher:
//
//	enter f    start Fetch f; it runs until it is about to register the CID (parked inside Block.UnmarshalFn(root), which
//	           the code calls right before unmarshalFns.LoadOrStore)
//	reg f      let it register (or find itself a duplicate); it runs until it calls GetBlocks (parked)
//	sub f      GetBlocks: the session of f now wants the CID
//	check b    the exchange decodes a message carrying body b: Prefix.Sum with the registered hash function = hasher.Write
//	publish i  the exchange hands the i-th decoded-but-unpublished block to every session that wants its CID now
//	deliver b  check b immediately followed by its publication
//	recv f     f takes the block out of its session channel (it is then parked inside exchange.NotifyNewBlocks)
//	finish f   NotifyNewBlocks (the exchange re-publishes the block to every session wanting it, as boxo's client does),
//	           duplicate path or store, return, deferred registry clean-up
//	cancel f   the context of f is cancelled
//
// No step relies on timing: the driver blocks on the event a parked goroutine sends.  The exchange is in-process
// (c10Hub); its publication rule is boxo's (bitswap/client: receiveBlocksFrom / NotifyNewBlocks publish to the sessions
// that want the CID at publication time; a session receives a CID once).
//
// L2: the executed schedule and what was observed after every step (which Blocks are populated, accept/reject) and at the
//     end (nil / error per Fetch) vs CN.Shwap.Bitswap (conc_mismatches).
// L3: a Fetch that returned nil holds the data committed by ITS OWN roots; no panic; the registry is empty at the end.

import (
	"context"
	"fmt"
	"strings"
	"sync"
	"sync/atomic"
	"time"

	"github.com/ipfs/boxo/exchange"
	blocks "github.com/ipfs/go-block-format"
	"github.com/ipfs/go-cid"

	"github.com/celestiaorg/celestia-node/share"
	zv "github.com/celestiaorg/celestia-node/zzverif"
)

const c10ConcHeader = `From Coq Require Import List ZArith NArith BinNat.
From CN Require Import Base.Bytes Shwap.Ids Shwap.Cid Shwap.Bitswap.
Import ListNotations.
Open Scope Z_scope.
Definition q := mkccase.
Definition T := true.
Definition F := false.
`

type c10Step struct {
	Op string `json:"op"`
	F  int    `json:"f,omitempty"`
	B  string `json:"b,omitempty"` // honest | other | garbage
	I  int    `json:"i,omitempty"`
}

func (s c10Step) String() string {
	switch s.Op {
	case "check", "deliver":
		return s.Op + " " + s.B
	case "publish":
		return fmt.Sprintf("publish %d", s.I)
	}
	return fmt.Sprintf("%s %d", s.Op, s.F)
}

type c10Sched struct {
	Name  string    `json:"name"`
	Sq    int       `json:"sq"`
	ID    c10ID     `json:"id"`
	Roots []int     `json:"roots"` // per fetch: 0 = the roots of the square, 1 = the roots of the other square of that height
	Steps []c10Step `json:"steps"`
}

var c10BodyKinds = []string{"honest", "other", "garbage"}

// ---------------------------------------------------------------------------------------------- the in-process exchange

type c10Hub struct {
	mu   sync.Mutex
	sess []*c10CSess
}

type c10CSess struct {
	f      *c10CF
	want   map[string]bool
	out    chan blocks.Block
	closed bool
}

// publish: every open session that wants the CID gets the block, once
func (h *c10Hub) publish(blks ...blocks.Block) {
	h.mu.Lock()
	defer h.mu.Unlock()
	for _, blk := range blks {
		k := blk.Cid().KeyString()
		for _, s := range h.sess {
			if s.closed || !s.want[k] {
				continue
			}
			delete(s.want, k)
			s.out <- blk
			s.f.inbox = true
			if len(s.want) == 0 {
				s.closed = true
				close(s.out)
			}
		}
	}
}

// c10CF: one Fetch under the driver's control
type c10CF struct {
	i        int
	inner    Block
	roots    *share.AxisRoots
	sq       *c10Square
	ctx      context.Context
	cancel   context.CancelFunc
	ev       chan string
	gate     chan struct{}
	ufnCalls int32
	pastReg  bool // touched by the goroutine of the Fetch only: GetBlocks has been called
	hub      *c10Hub
	// driver side
	at       string // where the goroutine is parked
	pc       string // init entered reg sub got ret
	inbox    bool   // a block was put into the session channel and the driver has not yet executed recv
	err      error
	panicked string
}

func (f *c10CF) park(at string) {
	f.ev <- at
	<-f.gate
}

// c10CBlock parks the first Block.UnmarshalFn(root) call of its Fetch: in fetch() that call sits immediately before the
// registration of the CID
type c10CBlock struct {
	Block
	f *c10CF
}

func (b *c10CBlock) UnmarshalFn(root *share.AxisRoots) UnmarshalFn {
	if atomic.AddInt32(&b.f.ufnCalls, 1) == 1 && !b.f.pastReg {
		b.f.park("ufn")
	}
	return b.Block.UnmarshalFn(root)
}

// c10CPort is the exchange as Fetch f sees it
type c10CPort struct{ f *c10CF }

func (p *c10CPort) GetBlock(context.Context, cid.Cid) (blocks.Block, error) {
	return nil, fmt.Errorf("unused")
}
func (p *c10CPort) Close() error                                { return nil }
func (p *c10CPort) NewSession(context.Context) exchange.Fetcher { return p }
func (p *c10CPort) GetBlocks(ctx context.Context, cids []cid.Cid) (<-chan blocks.Block, error) {
	f := p.f
	f.pastReg = true
	f.park("getblocks")
	s := &c10CSess{f: f, want: map[string]bool{}, out: make(chan blocks.Block, len(cids)+1)}
	for _, c := range cids {
		s.want[c.KeyString()] = true
	}
	hub := f.hub
	hub.mu.Lock()
	hub.sess = append(hub.sess, s)
	hub.mu.Unlock()
	go func() {
		<-ctx.Done()
		hub.mu.Lock()
		if !s.closed {
			s.closed = true
			close(s.out)
		}
		hub.mu.Unlock()
	}()
	f.ev <- "subscribed"
	return s.out, nil
}

func (p *c10CPort) NotifyNewBlocks(_ context.Context, blks ...blocks.Block) error {
	p.f.park("notify")
	p.f.hub.publish(blks...)
	return nil
}

// ---------------------------------------------------------------------------------------------- the driver

type c10CRun struct {
	h       *c10H
	s       *c10Sched
	fs      []*c10CF
	hub     *c10Hub
	cid     cid.Cid
	bodies  map[string][]byte
	pending []blocks.Block
	// the registry entry of the CID as observed after every step: who created it (-1: none), which fetches registered
	// the CID themselves (their reg step created an entry)
	entry   *unmarshalEntry
	creator int
	selfReg map[int]bool
	okFor   map[string][2]bool // body kind -> verifies against the square's roots / the other square's roots
	// emitted
	msteps, mobs []int
	broken       string
}

const c10EvTimeout = 120 * time.Second

func (x *c10CRun) await(f *c10CF, want ...string) string {
	if x.broken != "" {
		return ""
	}
	select {
	case e := <-f.ev:
		for _, w := range want {
			if e == w {
				return e
			}
		}
		x.broken = fmt.Sprintf("fetch %d: event %q while waiting for %v", f.i, e, want)
	case <-time.After(c10EvTimeout):
		x.broken = fmt.Sprintf("fetch %d: no event while waiting for %v", f.i, want)
	}
	return ""
}

func (x *c10CRun) release(f *c10CF) {
	select {
	case f.gate <- struct{}{}:
	case <-time.After(c10EvTimeout):
		x.broken = fmt.Sprintf("fetch %d is not parked at %q", f.i, f.at)
	}
	f.at = ""
}

func (x *c10CRun) mask() int {
	m := 0
	for i, f := range x.fs {
		if c10Container(f.inner) != nil {
			m |= 1 << i
		}
	}
	return m
}

func (x *c10CRun) regEntry() *unmarshalEntry {
	v, ok := unmarshalFns.Load(x.cid)
	if !ok {
		return nil
	}
	return v.(*unmarshalEntry)
}

func (x *c10CRun) emit(code, arg, extra int) {
	x.msteps = append(x.msteps, code+16*arg)
	o := x.mask() + extra
	if x.entry != nil {
		o += 128 + 256*(x.creator+1)
	}
	x.mobs = append(x.mobs, o)
}

// observeRegistry is called after the real code has executed step st (before the step is emitted)
func (x *c10CRun) observeRegistry(st c10Step, accepted bool) {
	h, class := x.h, c10SchedClass(x.s.Name)
	before, was := x.entry, x.creator
	now := x.regEntry()
	inflight := func(i int) bool {
		return i >= 0 && (x.fs[i].pc == "reg" || x.fs[i].pc == "sub" || x.fs[i].pc == "got")
	}
	switch {
	case now == before:
	case st.Op == "reg" && now != nil:
		if before != nil && inflight(was) && was != st.F {
			h.r.Violation("registry-entry-replaced:"+class, fmt.Sprintf("fetch %d replaced the registry entry of fetch %d, which registered the CID and has not returned: the hasher can no longer find the verifier of that pending request (%s)",
				st.F, was, x.s.ID.Ty), x.replay())
		}
		x.creator = st.F
		x.selfReg[st.F] = true
	case now == nil && (st.Op == "finish" || st.Op == "cancel"):
		if was != st.F && inflight(was) {
			h.r.Violation("registry-entry-removed:"+class, fmt.Sprintf("the return of fetch %d removed the registry entry of fetch %d, which registered the CID and has not returned (%s)",
				st.F, was, x.s.ID.Ty), x.replay())
		}
		x.creator = -1
	default:
		h.r.Violation("registry-changed:"+class, fmt.Sprintf("step %q changed the registry entry of the CID (%s)", st, x.s.ID.Ty), x.replay())
		x.creator = -1
	}
	x.entry = now
	if (st.Op == "check" || st.Op == "deliver") && !accepted {
		for i, f := range x.fs {
			ro := 0
			if f.sq != h.squares[x.s.Sq] {
				ro = 1
			}
			if x.selfReg[i] && (f.pc == "reg" || f.pc == "sub") && !f.inbox && c10Container(f.inner) == nil && x.okFor[st.B][ro] {
				h.r.Violation("pending-honest-rejected:"+class, fmt.Sprintf("fetch %d registered the CID and is waiting for it, the %s body verifies against its roots, but the hasher rejected it (%s)",
					i, st.B, x.s.ID.Ty), x.replay())
			}
		}
	}
}

func (x *c10CRun) enabled(st c10Step) bool {
	switch st.Op {
	case "check", "deliver":
		return x.bodies[st.B] != nil
	case "publish":
		return st.I >= 0 && st.I < len(x.pending)
	}
	if st.F < 0 || st.F >= len(x.fs) {
		return false
	}
	f := x.fs[st.F]
	switch st.Op {
	case "enter":
		return f.pc == "init"
	case "reg":
		return f.pc == "entered"
	case "sub":
		return f.pc == "reg"
	case "cancel":
		return f.pc == "reg" || (f.pc == "sub" && !f.inbox)
	case "recv":
		return f.pc == "sub" && f.inbox
	case "finish":
		return f.pc == "got"
	}
	return false
}

func (x *c10CRun) check(kind string) (blocks.Block, bool) {
	data := x.bodies[kind]
	var c cid.Cid
	var err error
	pn := zv.Recover(func() { c, err = x.cid.Prefix().Sum(data) })
	if pn != "" {
		x.h.r.Violation("hasher-panic:fetch", pn, x.replay())
		return nil, false
	}
	x.h.r.Count("conc_check", kind+":"+c10If(err == nil, "accepted", "rejected"))
	if err != nil {
		return nil, false
	}
	blk, err := blocks.NewBlockWithCid(data, c)
	if err != nil {
		return nil, false
	}
	return blk, true
}

func (x *c10CRun) replay() map[string]any { return map[string]any{"sched": x.s} }

// exec executes one enabled step on the real code and records the model-level step(s) with the observation
func (x *c10CRun) exec(st c10Step) {
	kindIdx := func(k string) int {
		for i, n := range c10BodyKinds {
			if n == k {
				return i
			}
		}
		return 0
	}
	switch st.Op {
	case "check":
		blk, ok := x.check(st.B)
		if ok {
			x.pending = append(x.pending, blk)
		}
		x.observeRegistry(st, ok)
		x.emit(4, kindIdx(st.B), c10IfInt(ok, 64, 0))
		return
	case "deliver":
		blk, ok := x.check(st.B)
		if ok {
			x.hub.publish(blk)
		}
		x.observeRegistry(st, ok)
		x.emit(6, kindIdx(st.B), c10IfInt(ok, 64, 0))
		return
	case "publish":
		blk := x.pending[st.I]
		x.pending = append(append([]blocks.Block{}, x.pending[:st.I]...), x.pending[st.I+1:]...)
		x.hub.publish(blk)
		x.observeRegistry(st, false)
		x.emit(5, st.I, 0)
		return
	}
	f := x.fs[st.F]
	switch st.Op {
	case "enter":
		port := &c10CPort{f: f}
		go func() {
			f.panicked = zv.Recover(func() {
				f.err = Fetch(f.ctx, port, f.roots, []Block{&c10CBlock{Block: f.inner, f: f}})
			})
			f.ev <- "done"
		}()
		f.at = x.await(f, "ufn", "getblocks")
		f.pc = "entered"
		x.observeRegistry(st, false)
		x.emit(0, f.i, 0)
	case "reg":
		if f.at == "ufn" {
			x.release(f)
			f.at = x.await(f, "getblocks")
		}
		f.pc = "reg"
		x.observeRegistry(st, false)
		x.emit(1, f.i, 0)
	case "sub":
		x.release(f)
		x.await(f, "subscribed")
		f.pc = "sub"
		x.observeRegistry(st, false)
		x.emit(2, f.i, 0)
	case "cancel":
		f.cancel()
		if f.at == "getblocks" {
			x.release(f)
			x.await(f, "subscribed")
		}
		x.await(f, "done")
		f.pc = "ret"
		x.observeRegistry(st, false)
		x.emit(3, f.i, 0)
	case "recv":
		f.at = x.await(f, "notify")
		f.pc, f.inbox = "got", false
		x.observeRegistry(st, false)
		x.emit(7, f.i, 0)
	case "finish":
		x.emit(8, f.i, 0) // NotifyNewBlocks changes no Block
		x.release(f)
		x.await(f, "done")
		f.pc = "ret"
		x.observeRegistry(st, false)
		x.emit(9, f.i, 0)
	}
}

func c10IfInt(c bool, a, b int) int {
	if c {
		return a
	}
	return b
}

// runSched executes s.Steps; with gen != nil further steps are drawn (and appended to s.Steps) until every Fetch has
// returned or the budget is used up.  Whatever is still in flight at the end is wound up by explicit steps.
func (h *c10H) runSched(s *c10Sched, gen *zv.Rand, budget int) {
	sq, other := h.squares[s.Sq], h.others[s.Sq]
	x := &c10CRun{h: h, s: s, hub: &c10Hub{}, bodies: map[string][]byte{}, creator: -1, selfReg: map[int]bool{}, okFor: map[string][2]bool{}}
	ref, err := s.ID.block()
	if err != nil {
		h.t.Fatalf("sched %s: %v", s.Name, err)
	}
	x.cid = ref.CID()
	if b, err := h.honestBody(h.bs, x.cid); err == nil {
		x.bodies["honest"] = b
	} else {
		h.t.Fatalf("sched %s: %v", s.Name, err)
	}
	if b, err := h.honestBody(h.obs, x.cid); err == nil {
		x.bodies["other"] = b
	}
	x.bodies["garbage"] = c10Envelope(x.cid.Bytes(), []byte("not a container"))
	for _, kd := range c10BodyKinds {
		if data := x.bodies[kd]; data != nil {
			if _, container, err := unmarshalProto(data); err == nil {
				_, ok0, _, _ := c10Classify(s.ID, sq.roots, container)
				_, ok1, _, _ := c10Classify(s.ID, other.roots, container)
				x.okFor[kd] = [2]bool{ok0, ok1}
			}
		}
	}
	for i, ro := range s.Roots {
		blk, _ := s.ID.block()
		f := &c10CF{i: i, inner: blk, roots: sq.roots, sq: sq, ev: make(chan string, 4), gate: make(chan struct{}), hub: x.hub, pc: "init"}
		if ro == 1 {
			f.roots, f.sq = other.roots, other
		}
		f.ctx, f.cancel = context.WithCancel(context.Background())
		x.fs = append(x.fs, f)
	}
	defer func() {
		for _, f := range x.fs {
			f.cancel()
		}
	}()
	scripted := s.Steps
	s.Steps = nil
	do := func(st c10Step) {
		if x.broken != "" || !x.enabled(st) {
			return
		}
		s.Steps = append(s.Steps, st)
		x.exec(st)
		x.oracle(st)
	}
	for _, st := range scripted {
		do(st)
	}
	if gen != nil {
		for n := 0; n < budget && x.broken == ""; n++ {
			var cand []c10Step
			for i := range x.fs {
				for _, op := range []string{"enter", "reg", "sub", "recv", "finish", "finish", "cancel"} {
					st := c10Step{Op: op, F: i}
					if x.enabled(st) && (op != "cancel" || gen.Chance(15)) {
						cand = append(cand, st)
					}
				}
			}
			for i := range x.pending {
				cand = append(cand, c10Step{Op: "publish", I: i})
			}
			if gen.Chance(60) {
				b := "honest"
				if gen.Chance(30) {
					b = zv.Pick(gen, c10BodyKinds)
				}
				cand = append(cand, c10Step{Op: zv.Pick(gen, []string{"deliver", "deliver", "check"}), B: b})
			}
			if len(cand) == 0 {
				all := true
				for _, f := range x.fs {
					all = all && f.pc == "ret"
				}
				if all {
					break
				}
				continue
			}
			do(zv.Pick(gen, cand))
		}
	}
	// wind up: everything still in flight returns
	for progress := true; progress && x.broken == ""; {
		progress = false
		for i, f := range x.fs {
			var st c10Step
			switch {
			case f.pc == "entered":
				st = c10Step{Op: "reg", F: i}
			case f.pc == "got":
				st = c10Step{Op: "finish", F: i}
			case f.pc == "sub" && f.inbox:
				st = c10Step{Op: "recv", F: i}
			case f.pc == "reg" || f.pc == "sub":
				st = c10Step{Op: "cancel", F: i}
			default:
				continue
			}
			do(st)
			progress = true
		}
	}
	if x.broken != "" {
		// the harness lost control of a Fetch: that is a hang of the real code under a legal schedule, or a harness bug
		h.r.Violation("fetch-schedule-stuck:"+s.Name, x.broken, x.replay())
		return
	}
	h.r.Count("conc_schedule", fmt.Sprintf("%s:%s:n=%d", c10SchedClass(s.Name), s.ID.Ty, len(s.Roots)))
	n := 0
	unmarshalFns.Range(func(k, _ any) bool { n++; unmarshalFns.Delete(k); return true })
	if n != 0 {
		h.r.Violation("registry-leak:"+c10SchedClass(s.Name), fmt.Sprintf("%d registry entries left after all fetches returned", n), x.replay())
	}
	// ---- the Coq case
	var roots, final, bodies, steps, obs []string
	nilEmpty := false
	for _, f := range x.fs {
		roots = append(roots, c10If(f.sq == other, "T", "F"))
		switch {
		case f.pc != "ret":
			final = append(final, "0")
		case f.err == nil && f.panicked == "":
			final = append(final, "1")
			nilEmpty = nilEmpty || c10Container(f.inner) == nil
		default:
			final = append(final, "2")
		}
	}
	for _, k := range c10BodyKinds {
		var env struct{ dec, ok0, ok1 bool }
		if data := x.bodies[k]; data != nil {
			_, container, err := unmarshalProto(data)
			if err == nil {
				env.dec, env.ok0, _, _ = c10Classify(s.ID, sq.roots, container)
				_, env.ok1, _, _ = c10Classify(s.ID, other.roots, container)
			}
		}
		if env.dec {
			bodies = append(bodies, "Some ("+c10If(env.ok0, "T", "F")+","+c10If(env.ok1, "T", "F")+")")
		} else {
			bodies = append(bodies, "None")
		}
	}
	for i := range x.msteps {
		steps = append(steps, fmt.Sprint(x.msteps[i]))
		obs = append(obs, fmt.Sprint(x.mobs[i]))
	}
	key := ""
	if len(s.Roots) > 1 {
		key = "concurrent"
	}
	var names []string
	for _, st := range s.Steps {
		names = append(names, st.String())
	}
	h.gconc.Case(fmt.Sprintf("(q %s %s %s %s %s %s %s %s)", s.ID.Ty, s.ID.coq(), zv.Bytes(x.cid.Bytes()), zv.List(roots), zv.List(bodies),
		zv.List(steps), zv.List(obs), zv.List(final)),
		map[string]any{"sched": s.Name, "id": s.ID, "roots": s.Roots, "steps": strings.Join(names, "; ")}, key)
}

func c10SchedClass(name string) string {
	if i := strings.IndexByte(name, '/'); i >= 0 {
		return name[:i]
	}
	return name
}

// oracle (L3), after every step
func (x *c10CRun) oracle(st c10Step) {
	h, s := x.h, x.s
	class := c10SchedClass(s.Name)
	for _, f := range x.fs {
		if f.panicked != "" {
			h.r.Violation("fetch-panic:"+class, fmt.Sprintf("fetch %d of a CID fetched concurrently panicked: %s", f.i, f.panicked), x.replay())
			f.panicked = ""
		}
		v := c10Container(f.inner)
		if v != nil {
			if terr := c10Truth(s.ID, f.sq, v); terr != nil {
				h.r.Violation("fetch-unverified:"+class, fmt.Sprintf("after %q fetch %d holds a container that is not the data committed by ITS roots: %v", st, f.i, terr), x.replay())
			}
		}
		if f.pc == "ret" && f.err == nil && v == nil && st.F == f.i && (st.Op == "finish" || st.Op == "cancel") {
			h.r.Violation("fetch-nil-empty:"+class, fmt.Sprintf("Fetch %d returned nil but its Block is empty: the block it was handed was never verified against its roots (%d concurrent fetches of %s)",
				f.i, len(x.fs), s.ID.Ty), x.replay())
		}
	}
}

// ---------------------------------------------------------------------------------------------- schedules

func c10Steps(spec string) []c10Step {
	var out []c10Step
	for _, w := range strings.Fields(spec) {
		op, arg, _ := strings.Cut(w, ":")
		st := c10Step{Op: op}
		switch op {
		case "check", "deliver":
			st.B = arg
		case "publish":
			fmt.Sscan(arg, &st.I)
		default:
			fmt.Sscan(arg, &st.F)
		}
		out = append(out, st)
	}
	return out
}

// concurrent: the scripted windows for all four block types and random interleavings of 2 and 3 fetches
func (h *c10H) concurrent(rng *zv.Rand) {
	r := h.r
	type scripted struct {
		name  string
		roots []int
		steps string
	}
	scr := []scripted{
		// both fetches are inside the registration window before either has registered
		{"window/ab", []int{0, 0}, "enter:0 enter:1 reg:0 reg:1 sub:0 sub:1 deliver:honest recv:0 finish:0 recv:1 finish:1"},
		{"window/ba", []int{0, 0}, "enter:0 enter:1 reg:1 reg:0 sub:0 sub:1 deliver:honest recv:1 finish:1 recv:0 finish:0"},
		{"window/ab-late-sub", []int{0, 0}, "enter:0 enter:1 reg:0 sub:0 reg:1 sub:1 check:honest publish:0 recv:1 finish:1 recv:0 finish:0"},
		{"window/ba-split", []int{0, 0}, "enter:1 enter:0 reg:1 reg:0 sub:1 sub:0 check:garbage check:honest publish:0 recv:0 recv:1 finish:0 finish:1"},
		{"window/roots-ab", []int{0, 1}, "enter:0 enter:1 reg:0 reg:1 sub:0 sub:1 deliver:honest recv:0 finish:0 recv:1 finish:1"},
		{"window/roots-ba", []int{1, 0}, "enter:0 enter:1 reg:0 reg:1 sub:0 sub:1 deliver:honest deliver:other recv:0 finish:0 recv:1 finish:1"},
		{"window/three", []int{0, 0, 0}, "enter:0 enter:1 enter:2 reg:2 reg:1 reg:0 sub:0 sub:1 sub:2 deliver:honest recv:0 recv:1 recv:2 finish:2 finish:1 finish:0"},
		// one after the other, and the ordinary duplicate
		{"sequential", []int{0, 0}, "enter:0 reg:0 sub:0 deliver:honest recv:0 finish:0 enter:1 reg:1 sub:1 deliver:honest recv:1 finish:1"},
		{"duplicate", []int{0, 0}, "enter:0 reg:0 sub:0 enter:1 reg:1 sub:1 deliver:honest recv:1 finish:1 recv:0 finish:0"},
		// a second copy of the block is decoded while fetch 0 is in flight and published after fetch 1 has subscribed
		{"stale-publish", []int{0, 0}, "enter:0 reg:0 sub:0 deliver:honest check:honest recv:0 finish:0 enter:1 reg:1 sub:1 publish:0 recv:1 finish:1"},
		// the duplicate re-publishes (NotifyNewBlocks) after the original has returned and a third fetch has registered
		{"late-notify", []int{0, 0, 0}, "enter:0 reg:0 sub:0 enter:1 reg:1 sub:1 deliver:honest recv:0 finish:0 recv:1 enter:2 reg:2 sub:2 finish:1 recv:2 finish:2"},
		{"duplicate/cancelled-original", []int{0, 0}, "enter:0 reg:0 sub:0 enter:1 reg:1 sub:1 cancel:0 deliver:honest"},
	}
	for sqi := 1; sqi < len(h.squares); sqi++ {
		sq := h.squares[sqi]
		w := 2 * sq.k
		run := sq.runs[0]
		ids := []c10ID{
			{Ty: "BSample", H: sq.height, A: rng.Intn(w), B: rng.Intn(w), Size: w},
			{Ty: "BRow", H: sq.height, A: rng.Intn(w), Size: w},
			{Ty: "BRnd", H: sq.height, A: 0, Ns: run.ns.Bytes(), Size: w},
			{Ty: "BRange", H: sq.height, A: run.from, B: run.from + 1 + rng.Intn(run.to-run.from), Size: sq.k},
		}
		for _, id := range ids {
			for _, sc := range scr {
				h.runSched(&c10Sched{Name: sc.name, Sq: sqi, ID: id, Roots: sc.roots, Steps: c10Steps(sc.steps)}, nil, 0)
			}
			for i, n := 0, r.N(10, 150); i < n; i++ {
				g := rng.Fork(uint64(1000*sqi + i))
				roots := []int{0, 0}
				if g.Chance(40) {
					roots = append(roots, 0)
				}
				if g.Chance(25) {
					roots[g.Intn(len(roots))] = 1
				}
				h.runSched(&c10Sched{Name: "random", Sq: sqi, ID: id, Roots: roots}, g, 14*len(roots))
			}
		}
	}
}

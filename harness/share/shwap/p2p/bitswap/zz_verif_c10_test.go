//go:build verif

package bitswap

// C10 correspondence + oracle harness (see /verif/DESIGN.md, C10).
//
// L2: (cid)    real Block.CID(), cid.Cast + extractFromCID, EmptyBlock on honest and hostile CID byte strings
//              vs CN.Shwap.Cid (cid_mismatches);
//     (hasher) the real multihash-registered hasher fed with honest and hostile block bodies against a registry of real
//              Blocks of real squares; per body accept/reject + digest, per block the container it ends up with
//              vs CN.Shwap.Bitswap (hasher_mismatches).  The container bytes are classified independently (decode + Verify).
// L3: an accepted body carries the requested identifier and a container equal to the committed data; a rejected body
//     changes nothing; what Blockstore.Get serves for every identifier of a stored square is accepted and yields the data;
//     concurrent fetches of one CID never panic and end with verified data or an error.
//
// zz_verif_c10_conc_test.go: concurrent fetches of one CID as schedules of explicit steps forced on the real Fetch (group conc);
// zz_verif_c10_serve_test.go: the serving side over every representation a node serves from (group serve).

import (
	"bytes"
	"context"
	"crypto/sha256"
	"errors"
	"fmt"
	"sync"
	"testing"

	"github.com/ipfs/boxo/exchange"
	blocks "github.com/ipfs/go-block-format"
	"github.com/ipfs/go-cid"
	mh "github.com/multiformats/go-multihash"
	mhcore "github.com/multiformats/go-multihash/core"

	"github.com/celestiaorg/celestia-app/v9/pkg/wrapper"
	libshare "github.com/celestiaorg/go-square/v4/share"
	"github.com/celestiaorg/rsmt2d"

	"github.com/celestiaorg/celestia-node/share"
	"github.com/celestiaorg/celestia-node/share/eds"
	"github.com/celestiaorg/celestia-node/share/shwap"
	bitswappb "github.com/celestiaorg/celestia-node/share/shwap/p2p/bitswap/pb"
	shwappb "github.com/celestiaorg/celestia-node/share/shwap/pb"
	"github.com/celestiaorg/celestia-node/store"
	zv "github.com/celestiaorg/celestia-node/zzverif"
)

const c10Header = `From Coq Require Import List ZArith NArith BinNat.
From CN Require Import Base.Bytes Shwap.Ids Shwap.Cid Shwap.Bitswap.
Import ListNotations.
Open Scope Z_scope.
`

// ---------------------------------------------------------------------------------------------- squares

type c10Square struct {
	k      int
	height uint64
	q      *rsmt2d.ExtendedDataSquare
	roots  *share.AxisRoots
	acc    *eds.Rsmt2D
	ods    []libshare.Share
	runs   []c10Run
}
type c10Run struct {
	ns       libshare.Namespace
	from, to int
}

func c10V0ns(x uint64) libshare.Namespace {
	b := make([]byte, 10)
	for i := 0; i < 8; i++ {
		b[9-i] = byte(x >> (8 * i))
	}
	return libshare.MustNewV0Namespace(b)
}

// c10GenSquare builds a square with the given namespace layout (same layout + different payload => "other square").
func c10GenSquare(t testing.TB, rng *zv.Rand, k int, height uint64, lens []int, pad int, base uint64) *c10Square {
	sq := &c10Square{k: k, height: height}
	pos := 0
	for i, c := range lens {
		ns := c10V0ns(base + uint64(3*i))
		for j := 0; j < c; j++ {
			b := rng.Bytes(libshare.ShareSize)
			copy(b, ns.Bytes())
			s, err := libshare.NewShare(b)
			if err != nil {
				t.Fatal(err)
			}
			sq.ods = append(sq.ods, s)
		}
		sq.runs = append(sq.runs, c10Run{ns: ns, from: pos, to: pos + c})
		pos += c
	}
	for i := 0; i < pad; i++ {
		sq.ods = append(sq.ods, libshare.TailPaddingShare())
	}
	if len(sq.ods) != k*k {
		t.Fatalf("layout: %d shares for k=%d", len(sq.ods), k)
	}
	e, err := rsmt2d.ComputeExtendedDataSquare(libshare.ToBytes(sq.ods), share.DefaultRSMT2DCodec(), wrapper.NewConstructor(uint64(k)))
	if err != nil {
		t.Fatal(err)
	}
	sq.q = e
	sq.roots, err = share.NewAxisRoots(e)
	if err != nil {
		t.Fatal(err)
	}
	sq.acc = &eds.Rsmt2D{ExtendedDataSquare: e}
	return sq
}

func c10Layout(rng *zv.Rand, k int) (lens []int, pad int) {
	n := k * k
	left := n
	if k > 1 && rng.Chance(40) {
		pad = 1 + rng.Intn(k)
		left -= pad
	}
	for left > 0 {
		c := 1 + rng.Intn(2*k)
		if len(lens) == 0 && k > 1 {
			c = k + 1 + rng.Intn(k)
		}
		if c > left {
			c = left
		}
		lens = append(lens, c)
		left -= c
	}
	return lens, pad
}

// c10Getter serves squares by height (the AccessorGetter of the Blockstore)
type c10Getter map[uint64]*c10Square

func (g c10Getter) GetByHeight(_ context.Context, h uint64) (eds.AccessorStreamer, error) {
	sq, ok := g[h]
	if !ok {
		return nil, errC10NotFound
	}
	return sq.acc, nil
}
func (g c10Getter) HasByHeight(_ context.Context, h uint64) (bool, error) {
	_, ok := g[h]
	return ok, nil
}

var errC10NotFound = fmt.Errorf("c10: %w", store.ErrNotFound)

// ---------------------------------------------------------------------------------------------- identifiers

type c10ID struct {
	Ty   string `json:"ty"` // BRow | BSample | BRnd | BRange
	H    uint64 `json:"h"`
	A    int    `json:"a"`
	B    int    `json:"b"`
	Ns   []byte `json:"ns,omitempty"`
	Size int    `json:"size"` // EDS width (ODS width for ranges)
}

func (i c10ID) coq() string {
	return zv.App("mkid", zv.ZU(i.H), zv.Z(int64(i.A)), zv.Z(int64(i.B)), zv.Bytes(i.Ns))
}

func (i c10ID) block() (Block, error) {
	switch i.Ty {
	case "BRow":
		return NewEmptyRowBlock(i.H, i.A, i.Size)
	case "BSample":
		return NewEmptySampleBlock(i.H, shwap.SampleCoords{Row: i.A, Col: i.B}, i.Size)
	case "BRnd":
		ns, err := libshare.NewNamespaceFromBytes(i.Ns)
		if err != nil {
			return nil, err
		}
		return NewEmptyRowNamespaceDataBlock(i.H, i.A, ns, i.Size)
	case "BRange":
		return NewEmptyRangeNamespaceDataBlock(i.H, i.A, i.B, i.Size)
	}
	return nil, errors.New("ty")
}

func c10TyOfCodec(c uint64) string {
	switch c {
	case rowCodec:
		return "BRow"
	case sampleCodec:
		return "BSample"
	case rowNamespaceDataCodec:
		return "BRnd"
	case rangeNamespaceDataCodec:
		return "BRange"
	}
	return ""
}

func c10MhOf(ty string) uint64 {
	switch ty {
	case "BRow":
		return rowMultihashCode
	case "BSample":
		return sampleMultihashCode
	case "BRnd":
		return rowNamespaceDataMultihashCode
	}
	return rangeNamespaceDataMultihashCode
}

// c10IDOfBlock reads the identifier fields back from a Block
func c10IDOfBlock(b Block) c10ID {
	switch x := b.(type) {
	case *RowBlock:
		return c10ID{Ty: "BRow", H: x.ID.Height(), A: x.ID.RowIndex}
	case *SampleBlock:
		return c10ID{Ty: "BSample", H: x.ID.Height(), A: x.ID.RowIndex, B: x.ID.ShareIndex}
	case *RowNamespaceDataBlock:
		return c10ID{Ty: "BRnd", H: x.ID.Height(), A: x.ID.RowIndex, Ns: x.ID.DataNamespace.Bytes()}
	case *RangeNamespaceDataBlock:
		return c10ID{Ty: "BRange", H: x.ID.Height(), A: x.ID.From, B: x.ID.To}
	}
	panic("block type")
}

func c10Container(b Block) any {
	switch x := b.(type) {
	case *RowBlock:
		if x.Container.IsEmpty() {
			return nil
		}
		return x.Container
	case *SampleBlock:
		if x.Container.IsEmpty() {
			return nil
		}
		return x.Container
	case *RowNamespaceDataBlock:
		if x.Container.IsEmpty() {
			return nil
		}
		return x.Container
	case *RangeNamespaceDataBlock:
		if x.Container.IsEmpty() {
			return nil
		}
		return x.Container
	}
	return nil
}

func c10Hash(b []byte) string { h := sha256.Sum256(b); return fmt.Sprintf("%x", h[:12]) }

func c10Canon(v any) string {
	switch x := v.(type) {
	case shwap.Sample:
		b, _ := x.ToProto().Marshal()
		return "S" + c10Hash(b)
	case shwap.Row:
		shs, err := x.Shares()
		if err != nil {
			b, _ := x.ToProto().Marshal()
			return "Rraw" + c10Hash(b)
		}
		return "R" + c10Hash(bytes.Join(libshare.ToBytes(shs), nil))
	case shwap.RowNamespaceData:
		b, _ := x.ToProto().Marshal()
		return "D" + c10Hash(b)
	case shwap.RangeNamespaceData:
		b, _ := x.ToProto().Marshal()
		return "G" + c10Hash(b)
	}
	return ""
}

// c10Classify decodes container bytes as the container of id and verifies it against roots (independent of the hasher)
func c10Classify(id c10ID, roots *share.AxisRoots, container []byte) (decodes, ok bool, canon string, val any) {
	p := zv.Recover(func() {
		switch id.Ty {
		case "BSample":
			var pb shwappb.Sample
			if pb.Unmarshal(container) != nil {
				return
			}
			s, err := shwap.SampleFromProto(&pb)
			if err != nil {
				return
			}
			decodes, canon, val = true, c10Canon(s), s
			ok = s.Verify(roots, id.A, id.B) == nil
		case "BRow":
			var pb shwappb.Row
			if pb.Unmarshal(container) != nil {
				return
			}
			r, err := shwap.RowFromProto(&pb)
			if err != nil {
				return
			}
			raw, _ := r.ToProto().Marshal()
			decodes, canon = true, "Rraw"+c10Hash(raw)
			ok = r.Verify(roots, id.A) == nil
			if ok {
				canon = c10Canon(r)
			}
			val = r
		case "BRnd":
			var pb shwappb.RowNamespaceData
			if pb.Unmarshal(container) != nil {
				return
			}
			d, err := shwap.RowNamespaceDataFromProto(&pb)
			if err != nil {
				return
			}
			ns, _ := libshare.NewNamespaceFromBytes(id.Ns)
			decodes, canon, val = true, c10Canon(d), d
			ok = d.Verify(roots, ns, id.A) == nil
		case "BRange":
			var pb shwappb.RangeNamespaceData
			if pb.Unmarshal(container) != nil {
				return
			}
			d, err := shwap.RangeNamespaceDataFromProto(&pb)
			if err != nil {
				return
			}
			decodes, canon, val = true, c10Canon(d), d
			ods := len(roots.RowRoots) / 2
			rid, err := shwap.NewRangeNamespaceDataIDV0(mustEdsID(id.H), id.A, id.B, ods)
			if err != nil || rid.Verify(ods) != nil {
				return
			}
			from, err1 := shwap.SampleCoordsFrom1DIndex(id.A, ods)
			to, err2 := shwap.SampleCoordsFrom1DIndex(id.B-1, ods)
			if err1 != nil || err2 != nil {
				return
			}
			ok = d.VerifyInclusion(from, to, ods, roots.RowRoots[from.Row:to.Row+1]) == nil
		}
	})
	if p != "" {
		return false, false, "", nil
	}
	return
}

func mustEdsID(h uint64) shwap.EdsID {
	id, err := shwap.NewEdsID(h)
	if err != nil {
		panic(err)
	}
	return id
}

// c10Truth: the container holds exactly the committed data of the identifier
func c10Truth(id c10ID, sq *c10Square, v any) error {
	flat := func(s []libshare.Share) [][]byte { return libshare.ToBytes(s) }
	eq2 := func(a, b [][]byte) bool {
		if len(a) != len(b) {
			return false
		}
		for i := range a {
			if !bytes.Equal(a[i], b[i]) {
				return false
			}
		}
		return true
	}
	switch x := v.(type) {
	case shwap.Sample:
		if !bytes.Equal(x.ToBytes(), sq.q.GetCell(uint(id.A), uint(id.B))) {
			return errors.New("share differs from the committed share")
		}
		return x.Verify(sq.roots, id.A, id.B)
	case shwap.Row:
		shs, err := x.Shares()
		if err != nil {
			return err
		}
		if !eq2(flat(shs), sq.q.Row(uint(id.A))) {
			return errors.New("row differs from the committed row")
		}
	case shwap.RowNamespaceData:
		var want [][]byte
		for j := 0; j < sq.k && id.A < sq.k; j++ {
			if s := sq.ods[id.A*sq.k+j]; bytes.Equal(s.Namespace().Bytes(), id.Ns) {
				want = append(want, s.ToBytes())
			}
		}
		if !eq2(flat(x.Shares), want) {
			return errors.New("row namespace data differs from the committed shares")
		}
		ns, _ := libshare.NewNamespaceFromBytes(id.Ns)
		return x.Verify(sq.roots, ns, id.A)
	case shwap.RangeNamespaceData:
		if !eq2(flat(x.Flatten()), flat(sq.ods[id.A:id.B])) {
			return errors.New("range data differs from the committed shares")
		}
	default:
		return errors.New("no container")
	}
	return nil
}

// ---------------------------------------------------------------------------------------------- the real hasher

// c10Hasher feeds body to a fresh instance of the hash function registered for the multihash code (this is the first
// thing go-cid's Prefix.Sum / multihash.Sum do with an incoming block) and reads the digest back.
func c10Hasher(code uint64, body []byte) (digest []byte, err error, panicked string) {
	panicked = zv.Recover(func() {
		hh, e := mhcore.GetHasher(code)
		if e != nil {
			err = e
			return
		}
		var n int
		n, err = hh.Write(body)
		if err == nil {
			if n != len(body) {
				err = errors.New("short write")
				return
			}
			digest = hh.Sum(nil)
		}
	})
	return
}

func c10Envelope(cidBytes, container []byte) []byte {
	b, _ := (&bitswappb.Block{Cid: cidBytes, Container: container}).Marshal()
	return b
}

type c10Body struct {
	Fam  string `json:"fam"`
	Mh   uint64 `json:"mh"` // multihash code the body is hashed with (the sender's prefix)
	Data []byte `json:"data"`
}

type c10Entry struct {
	ID  c10ID `json:"id"`
	Sq  int   `json:"sq"`
	Pre bool  `json:"pre"` // populated with the honest container before the bodies arrive
}

type c10HCase struct {
	Entries []c10Entry `json:"entries"`
	Bodies  []c10Body  `json:"bodies"`
}

type c10H struct {
	t       *testing.T
	r       *zv.Run
	gc, gh  *zv.Group
	gconc   *zv.Group
	gserve  *zv.Group
	squares []*c10Square
	others  []*c10Square
	bs      *Blockstore // serves the committed squares
	obs     *Blockstore // serves the other squares under the same heights
}

func (h *c10H) honestBody(bs *Blockstore, c cid.Cid) ([]byte, error) {
	blk, err := bs.Get(context.Background(), c)
	if err != nil {
		return nil, err
	}
	return blk.RawData(), nil
}

// runHasherCase registers the entries, feeds the bodies to the real hasher, emits the Coq case and applies the oracle.
func (h *c10H) runHasherCase(hc c10HCase) {
	type ent struct {
		blk  Block
		cid  cid.Cid
		sq   *c10Square
		e    c10Entry
		pre  string
		preV any
	}
	var ents []*ent
	seen := map[string]bool{}
	for _, e := range hc.Entries {
		blk, err := e.ID.block()
		if err != nil {
			h.t.Fatalf("entry %+v: %v", e, err)
		}
		c := blk.CID()
		if seen[c.KeyString()] {
			continue
		}
		seen[c.KeyString()] = true
		en := &ent{blk: blk, cid: c, sq: h.squares[e.Sq], e: e}
		if e.Pre {
			body, err := h.honestBody(h.bs, c)
			if err != nil {
				h.t.Fatalf("pre-populate %+v: %v", e, err)
			}
			var env bitswappb.Block
			_ = env.Unmarshal(body)
			_, inner, _ := unmarshalProto(body)
			idb, _ := extractFromCID(c)
			if err := blk.UnmarshalFn(en.sq.roots)(inner, idb); err != nil {
				h.t.Fatalf("pre-populate %+v: %v", e, err)
			}
			en.preV = c10Container(blk)
			en.pre = c10Canon(en.preV)
		}
		unmarshalFns.Store(c, &unmarshalEntry{UnmarshalFn: blk.UnmarshalFn(en.sq.roots)})
		ents = append(ents, en)
	}
	defer func() {
		for _, en := range ents {
			unmarshalFns.Delete(en.cid)
		}
	}()
	pids := map[string]int{}
	pid := func(canon string) int {
		if canon == "" {
			return 0
		}
		if _, ok := pids[canon]; !ok {
			pids[canon] = len(pids) + 1
		}
		return pids[canon]
	}
	replay := map[string]any{"hasher": hc}
	var coqBodies, coqResults []string
	nontrivial := false
	for bi, b := range hc.Bodies {
		before := make([]string, len(ents))
		for i, en := range ents {
			before[i] = c10Canon(c10Container(en.blk))
		}
		digest, err, pn := c10Hasher(b.Mh, b.Data)
		if pn != "" {
			h.r.Violation("hasher-panic:"+b.Fam, "the hasher panicked on a block body: "+pn, replay)
			return
		}
		// independent classification
		var env bitswappb.Block
		coqBody := "None"
		tgt := -1
		var decodes, ok bool
		var canon string
		if env.Unmarshal(b.Data) == nil {
			for i, en := range ents {
				if bytes.Equal(en.cid.Bytes(), env.Cid) {
					tgt = i
				}
			}
			cl := "None"
			if tgt >= 0 {
				decodes, ok, canon, _ = c10Classify(ents[tgt].e.ID, ents[tgt].sq.roots, env.Container)
				if decodes {
					cl = fmt.Sprintf("(Some (%d%%N, %s))", pid(canon), zv.Bool(ok))
				}
			}
			coqBody = zv.Some(zv.Tuple(zv.Bytes(env.Cid), cl))
		}
		coqBodies = append(coqBodies, coqBody)
		if err == nil {
			coqResults = append(coqResults, zv.Some(zv.Bytes(digest)))
		} else {
			coqResults = append(coqResults, "None")
		}
		h.r.Count("hasher_body", b.Fam+":"+c10If(err == nil, "accepted", "rejected"))
		if b.Fam != "honest" {
			nontrivial = true
		}
		// ---- L3
		for i, en := range ents {
			after := c10Canon(c10Container(en.blk))
			if err != nil && after != before[i] {
				h.r.Violation("reject-changed-block:"+b.Fam, fmt.Sprintf("body %d (%s) was rejected but block %d changed", bi, b.Fam, i), replay)
			}
			if before[i] != "" && after != before[i] {
				h.r.Violation("populated-block-changed:"+b.Fam, fmt.Sprintf("body %d (%s) replaced the container of the already populated block %d", bi, b.Fam, i), replay)
			}
			if err == nil && i != tgt && after != before[i] {
				h.r.Violation("wrong-block-filled:"+b.Fam, fmt.Sprintf("body %d (%s) changed block %d which its CID does not name", bi, b.Fam, i), replay)
			}
		}
		if err == nil {
			switch {
			case tgt < 0:
				h.r.Violation("accepted-unrequested:"+b.Fam, fmt.Sprintf("body %d (%s) names no pending request but was accepted", bi, b.Fam), replay)
			case !decodes || !ok:
				h.r.Violation("accepted-unverified:"+b.Fam+c10If(before[tgt] != "", ":populated", ":pending"),
					fmt.Sprintf("body %d (%s) was accepted for %+v although its container does not verify against the requester's roots (decodes=%v)", bi, b.Fam, ents[tgt].e.ID, decodes), replay)
			default:
				idb, _ := extractFromCID(ents[tgt].cid)
				if !bytes.Equal(digest, idb) {
					h.r.Violation("digest-not-id:"+b.Fam, "the digest reported for an accepted body is not the requested identifier", replay)
				}
				if terr := c10Truth(ents[tgt].e.ID, ents[tgt].sq, c10Container(ents[tgt].blk)); terr != nil {
					h.r.Violation("accepted-not-committed:"+b.Fam, fmt.Sprintf("after accepting body %d block %+v does not hold the committed data: %v", bi, ents[tgt].e.ID, terr), replay)
				}
			}
		} else if b.Fam == "honest" && tgt >= 0 {
			h.r.Violation("honest-rejected", fmt.Sprintf("the body Blockstore.Get serves for %+v was rejected: %v", ents[tgt].e.ID, err), replay)
		}
	}
	var reg, fin []string
	for _, en := range ents {
		pre := "None"
		if en.e.Pre {
			pre = fmt.Sprintf("(Some %d%%N)", pid(en.pre))
		}
		reg = append(reg, zv.Tuple(zv.Bytes(en.cid.Bytes()), zv.Tuple(en.e.ID.Ty, en.e.ID.coq(), pre)))
		c := c10Canon(c10Container(en.blk))
		if c == "" {
			fin = append(fin, "None")
		} else {
			p, known := pids[c]
			if !known {
				p = 9999
			}
			fin = append(fin, fmt.Sprintf("(Some %d%%N)", p))
		}
	}
	key := ""
	if nontrivial {
		key = "hostile"
	}
	fams := make([]string, len(hc.Bodies))
	for i, b := range hc.Bodies {
		fams[i] = b.Fam
	}
	h.gh.Case(fmt.Sprintf("(mkhcase %s %s %s %s)", zv.List(reg), zv.List(coqBodies), zv.List(coqResults), zv.List(fin)),
		map[string]any{"entries": hc.Entries, "bodies": fams}, key)
}

func c10If(c bool, a, b string) string {
	if c {
		return a
	}
	return b
}

// hostileBodies: bodies aimed at entry `tgt` (id of square sq)
func (h *c10H) hostileBodies(rng *zv.Rand, e c10Entry, all []c10Entry, n int) []c10Body {
	blk, err := e.ID.block()
	if err != nil {
		h.t.Fatal(err)
	}
	c := blk.CID()
	code := c10MhOf(e.ID.Ty)
	honest, err := h.honestBody(h.bs, c)
	if err != nil {
		h.t.Fatalf("honest body %+v: %v", e.ID, err)
	}
	var env bitswappb.Block
	_ = env.Unmarshal(honest)
	var out []c10Body
	fams := []string{"othersquare", "cross", "foreign-id", "inner-mismatch", "type-confusion", "cid-mutated", "cid-trailing", "cid-nonminimal",
		"cut", "mutate", "mutcontainer", "garbage", "empty", "emptycontainer", "other-hasher", "honest-dup"}
	for len(out) < n {
		switch fam := zv.Pick(rng, fams); fam {
		case "othersquare":
			if b, err := h.honestBody(h.obs, c); err == nil {
				out = append(out, c10Body{fam, code, b})
			}
		case "cross": // the honest body of another registered entry
			o := zv.Pick(rng, all)
			ob, _ := o.ID.block()
			if b, err := h.honestBody(h.bs, ob.CID()); err == nil {
				out = append(out, c10Body{c10If(ob.CID().Equals(c), "honest", fam), c10MhOf(o.ID.Ty), b})
			}
		case "foreign-id":
			alt := e.ID
			alt.A = (alt.A + 1) % max(1, alt.Size)
			if alt.Ty == "BRange" {
				if alt.B-e.ID.A > 1 {
					alt.A, alt.B = e.ID.A, e.ID.B-1
				} else {
					continue
				}
			}
			ab, err := alt.block()
			if err != nil {
				continue
			}
			if b, err := h.honestBody(h.bs, ab.CID()); err == nil {
				out = append(out, c10Body{fam, code, b})
			}
		case "inner-mismatch": // the requested CID on the envelope, another identifier's container inside
			alt := e.ID
			alt.A = (alt.A + 1) % max(1, alt.Size)
			if alt.Ty == "BRange" || alt.Ty == "BRnd" {
				continue
			}
			ab, err := alt.block()
			if err != nil {
				continue
			}
			if b, err := h.honestBody(h.bs, ab.CID()); err == nil {
				var e2 bitswappb.Block
				_ = e2.Unmarshal(b)
				out = append(out, c10Body{fam, code, c10Envelope(c.Bytes(), e2.Container)})
			}
		case "type-confusion": // the same identifier bytes under another block type's codec / multihash
			idb, _ := extractFromCID(c)
			oty := zv.Pick(rng, []string{"BRow", "BSample", "BRnd", "BRange"})
			var codec uint64
			for cd := range specRegistry {
				if c10TyOfCodec(cd) == oty {
					codec = cd
				}
			}
			m, err := mh.Encode(idb, c10MhOf(zv.Pick(rng, []string{oty, e.ID.Ty})))
			if err != nil {
				continue
			}
			fake := cid.NewCidV1(zv.Pick(rng, []uint64{codec, c.Type()}), m)
			out = append(out, c10Body{c10If(fake.Equals(c), "honest", fam), zv.Pick(rng, []uint64{code, c10MhOf(oty)}), c10Envelope(fake.Bytes(), env.Container)})
		case "cid-mutated":
			cb := append([]byte{}, c.Bytes()...)
			cb[rng.Intn(len(cb))] ^= byte(1 << rng.Intn(8))
			out = append(out, c10Body{fam, code, c10Envelope(cb, env.Container)})
		case "cid-trailing":
			out = append(out, c10Body{fam, code, c10Envelope(append(append([]byte{}, c.Bytes()...), 0), env.Container)})
		case "cid-nonminimal":
			cb := c.Bytes()
			// length varint (last header byte) re-encoded on two bytes
			hdr := len(cb) - len(mustExtract(c))
			nm := append(append(append([]byte{}, cb[:hdr-1]...), cb[hdr-1]|0x80, 0), cb[hdr:]...)
			out = append(out, c10Body{fam, code, c10Envelope(nm, env.Container)})
		case "cut":
			out = append(out, c10Body{fam, code, honest[:len(honest)-1-rng.Intn(len(honest)/2)]})
		case "mutate":
			m := append([]byte{}, honest...)
			m[rng.Intn(len(m))] ^= byte(1 << rng.Intn(8))
			out = append(out, c10Body{fam, code, m})
		case "mutcontainer":
			m := append([]byte{}, env.Container...)
			if len(m) > 300 {
				m[len(m)/2+rng.Intn(100)] ^= 0x20
			} else if len(m) > 0 {
				m[rng.Intn(len(m))] ^= 0x20
			}
			out = append(out, c10Body{fam, code, c10Envelope(c.Bytes(), m)})
		case "garbage":
			out = append(out, c10Body{fam, code, rng.Bytes(1 + rng.Intn(300))})
		case "empty":
			out = append(out, c10Body{fam, code, []byte{}})
		case "emptycontainer":
			out = append(out, c10Body{fam, code, c10Envelope(c.Bytes(), nil)})
		case "other-hasher": // the honest body hashed with another block type's multihash (the sender picks the prefix)
			out = append(out, c10Body{fam, c10MhOf(zv.Pick(rng, []string{"BRow", "BSample", "BRnd", "BRange"})), honest})
		case "honest-dup":
			out = append(out, c10Body{"honest", code, honest})
		}
	}
	return out
}

func mustExtract(c cid.Cid) []byte {
	b, err := extractFromCID(c)
	if err != nil {
		panic(err)
	}
	return b
}

// ---------------------------------------------------------------------------------------------- CID cases

func (h *c10H) cidCases(rng *zv.Rand) {
	tys := []string{"BRow", "BSample", "BRnd", "BRange"}
	ns := c10V0ns(77).Bytes()
	var valid []cid.Cid
	emit := func(id c10ID) {
		blk, err := id.block()
		if err != nil {
			h.r.Count("cid_ctor", id.Ty+":refused")
			return
		}
		c := blk.CID()
		valid = append(valid, c)
		got := c10IDOfBlock(blk)
		h.gc.Case(zv.App("CEnc", id.Ty, got.coq(), zv.Bytes(c.Bytes())), map[string]any{"op": "enc", "id": id}, "enc")
		h.r.Count("cid_ctor", id.Ty+":ok")
		// L3: the CID parses back to the identifier
		idb, err := extractFromCID(c)
		want, _ := blockIDBytes(blk)
		if err != nil || !bytes.Equal(idb, want) {
			h.r.Violation("cid-roundtrip:"+id.Ty, fmt.Sprintf("the CID of %+v does not parse back to its identifier: %v", id, err), map[string]any{"id": id})
		}
		eb, err := EmptyBlock(c)
		if err != nil || !eb.CID().Equals(c) {
			h.r.Violation("cid-emptyblock:"+id.Ty, fmt.Sprintf("EmptyBlock does not rebuild the block of %+v: %v", id, err), map[string]any{"id": id})
		}
	}
	for _, ty := range tys {
		for _, sz := range []int{2, 4, 8, 64, 256, 1024} {
			pts := []int{0, 1, sz / 2, sz - 1, sz, 255, 256, 65535}
			for _, a := range pts {
				for _, b := range pts {
					id := c10ID{Ty: ty, H: zv.Pick(rng, []uint64{1, 7, 1 << 32, 1<<64 - 1}), A: a, B: b, Size: sz}
					switch ty {
					case "BRow":
						id.B = 0
					case "BRnd":
						id.B, id.Ns = 0, ns
					case "BRange":
						id.Size = sz / 2
						if sz/2 > 128 {
							id.Size = 128
						}
					}
					emit(id)
				}
			}
		}
	}
	for i := 0; i < h.r.N(200, 5000); i++ {
		ty := zv.Pick(rng, tys)
		sz := 2 << rng.Intn(9)
		id := c10ID{Ty: ty, H: 1 + rng.U64()>>uint(rng.Intn(64)), A: rng.Intn(sz), B: rng.Intn(sz), Size: sz}
		switch ty {
		case "BRow":
			id.B = 0
		case "BRnd":
			id.B, id.Ns = 0, ns
		case "BRange":
			id.Size = min(sz/2, 128)
			id.A = rng.Intn(id.Size * id.Size)
			id.B = id.A + 1 + rng.Intn(id.Size*id.Size-id.A)
		}
		emit(id)
	}
	// L3: distinct identifiers / types give distinct CIDs
	seen := map[string]string{}
	for _, c := range valid {
		eb, err := EmptyBlock(c)
		if err != nil {
			continue
		}
		idb, _ := blockIDBytes(eb)
		k := fmt.Sprintf("%s:%x", c10TyOfCodec(c.Type()), idb)
		if prev, ok := seen[c.KeyString()]; ok && prev != k {
			h.r.Violation("cid-collision", "two different identifiers share one CID: "+prev+" / "+k, nil)
		}
		seen[c.KeyString()] = k
	}
	// parser cases
	try := func(bs []byte, fam string) {
		var out, outE string
		p := zv.Recover(func() {
			c, err := cid.Cast(bs)
			out, outE = "None", "None"
			if err != nil {
				return
			}
			idb, err := extractFromCID(c)
			if err != nil {
				return
			}
			ty := c10TyOfCodec(c.Type())
			out = zv.Some(zv.Tuple(ty, zv.Bytes(idb)))
			// L3: an accepted CID is the canonical CID of its identifier bytes under its own type
			if m, err := mh.Encode(idb, c10MhOf(ty)); ty == "" || err != nil || !bytes.Equal(cid.NewCidV1(c.Type(), m).Bytes(), bs) ||
				len(idb) != specRegistry[c.Type()].idSize {
				h.r.Violation("cid-noncanonical-accepted:"+fam, fmt.Sprintf("extractFromCID accepts %x which is not the CID of the identifier it yields (type %q, %d id bytes)", bs, ty, len(idb)),
					map[string]any{"cid_hex": fmt.Sprintf("%x", bs)})
			}
			eb, err := EmptyBlock(c)
			if err != nil {
				return
			}
			outE = zv.Some(zv.Tuple(ty, c10IDOfBlock(eb).coq()))
		})
		if p != "" {
			h.r.Violation("cid-panic", "CID parsing panicked: "+p, map[string]any{"cid_hex": fmt.Sprintf("%x", bs)})
			return
		}
		key := ""
		if out != "None" {
			key = "accepted"
		} else if fam != "random" {
			key = "rejected-structured"
		}
		h.gc.Case(zv.App("CExtract", zv.Bytes(bs), out), map[string]any{"op": "extract", "fam": fam, "cid_hex": fmt.Sprintf("%x", bs)}, key)
		h.gc.Case(zv.App("CEmpty", zv.Bytes(bs), outE), map[string]any{"op": "empty", "fam": fam, "cid_hex": fmt.Sprintf("%x", bs)}, key)
		h.r.Count("cid_parse", fam+":"+c10If(out != "None", "accepted", "rejected"))
	}
	for i := 0; i < h.r.N(250, 6000); i++ {
		c := zv.Pick(rng, valid)
		cb := append([]byte{}, c.Bytes()...)
		idb := mustExtract(c)
		hdr := len(cb) - len(idb)
		switch fam := zv.Pick(rng, []string{"valid", "bitflip-header", "bitflip-id", "version", "codec-swap", "mh-swap", "len-1", "len+1", "short", "long", "trailing", "nonminimal", "cidv0", "zero-height", "random"}); fam {
		case "valid":
			try(cb, fam)
		case "bitflip-header":
			cb[rng.Intn(hdr)] ^= byte(1 << rng.Intn(8))
			try(cb, fam)
		case "bitflip-id":
			cb[hdr+rng.Intn(len(idb))] ^= byte(1 << rng.Intn(8))
			try(cb, fam)
		case "version":
			cb[0] = zv.Pick(rng, []byte{0, 2, 3, 0x81})
			try(cb, fam)
		case "codec-swap":
			o := zv.Pick(rng, valid)
			try(cid.NewCidV1(o.Type(), c.Hash()).Bytes(), fam)
		case "mh-swap":
			o := zv.Pick(rng, valid)
			m, _ := mh.Encode(idb, o.Prefix().MhType)
			try(cid.NewCidV1(c.Type(), m).Bytes(), fam)
		case "len-1":
			cb[hdr-1]--
			try(cb, fam)
			try(cb[:len(cb)-1], fam)
		case "len+1":
			cb[hdr-1]++
			try(cb, fam)
			try(append(cb, 0), fam)
		case "short":
			try(cb[:rng.Intn(len(cb))], fam)
		case "long":
			try(append(cb, rng.Bytes(1+rng.Intn(4))...), fam)
		case "trailing":
			try(append(cb, 0), fam)
		case "nonminimal":
			pos := zv.Pick(rng, []int{0, 3, 6, hdr - 1})
			nm := append(append(append([]byte{}, cb[:pos]...), cb[pos]|0x80, 0), cb[pos+1:]...)
			try(nm, fam)
		case "cidv0":
			v0 := append([]byte{0x12, 0x20}, rng.Bytes(32)...)
			try(v0, fam)
			try(v0[:33], fam)
		case "zero-height":
			for j := 0; j < 8; j++ {
				cb[hdr+j] = 0
			}
			try(cb, fam)
		case "random":
			try(rng.Bytes(rng.Intn(48)), fam)
		}
	}
}

func blockIDBytes(b Block) ([]byte, error) {
	switch x := b.(type) {
	case *RowBlock:
		return x.ID.MarshalBinary()
	case *SampleBlock:
		return x.ID.MarshalBinary()
	case *RowNamespaceDataBlock:
		return x.ID.MarshalBinary()
	case *RangeNamespaceDataBlock:
		return x.ID.MarshalBinary()
	}
	return nil, errors.New("type")
}

// ---------------------------------------------------------------------------------------------- all identifiers of a square

func (h *c10H) allIDs(sqi int) (ids []c10ID) {
	sq := h.squares[sqi]
	w := 2 * sq.k
	for r := 0; r < w; r++ {
		ids = append(ids, c10ID{Ty: "BRow", H: sq.height, A: r, Size: w})
		for c := 0; c < w; c++ {
			ids = append(ids, c10ID{Ty: "BSample", H: sq.height, A: r, B: c, Size: w})
		}
	}
	for _, run := range sq.runs {
		rows, _ := share.RowsWithNamespace(sq.roots, run.ns)
		for _, r := range rows {
			ids = append(ids, c10ID{Ty: "BRnd", H: sq.height, A: r, Ns: run.ns.Bytes(), Size: w})
		}
		for f := run.from; f < run.to; f++ {
			for t := f + 1; t <= run.to; t++ {
				ids = append(ids, c10ID{Ty: "BRange", H: sq.height, A: f, B: t, Size: sq.k})
			}
		}
	}
	// namespaces that are absent but inside a row's range
	for i := 0; i+1 < len(sq.runs); i++ {
		ab, err := sq.runs[i].ns.AddInt(1)
		if err != nil {
			continue
		}
		rows, _ := share.RowsWithNamespace(sq.roots, ab)
		for _, r := range rows {
			ids = append(ids, c10ID{Ty: "BRnd", H: sq.height, A: r, Ns: ab.Bytes(), Size: w})
		}
	}
	return ids
}

// ---------------------------------------------------------------------------------------------- concurrent fetches

// c10Exchange: an in-process exchange with explicit steps — "check" runs the hasher on a body the way the bitswap client
// does when it decodes a message, "publish" hands a checked body to every session that still wants its CID.
type c10Exchange struct {
	mu       sync.Mutex
	sessions []*c10Session
	started  chan struct{}
}
type c10Session struct {
	wanted map[cid.Cid]bool
	out    chan blocks.Block
	ctx    context.Context
	closed bool
}

func (e *c10Exchange) GetBlock(context.Context, cid.Cid) (blocks.Block, error) {
	return nil, errors.New("unused")
}
func (e *c10Exchange) NotifyNewBlocks(context.Context, ...blocks.Block) error { return nil }
func (e *c10Exchange) Close() error                                           { return nil }
func (e *c10Exchange) NewSession(context.Context) exchange.Fetcher            { return e }
func (e *c10Exchange) GetBlocks(ctx context.Context, cids []cid.Cid) (<-chan blocks.Block, error) {
	s := &c10Session{wanted: map[cid.Cid]bool{}, out: make(chan blocks.Block, len(cids)+1), ctx: ctx}
	for _, c := range cids {
		s.wanted[c] = true
	}
	e.mu.Lock()
	e.sessions = append(e.sessions, s)
	e.mu.Unlock()
	e.started <- struct{}{}
	go func() {
		<-ctx.Done()
		e.mu.Lock()
		if !s.closed {
			s.closed = true
			close(s.out)
		}
		e.mu.Unlock()
	}()
	return s.out, nil
}

// check: Prefix.Sum(data); returns the computed CID when the hasher accepts
func (e *c10Exchange) check(pref cid.Prefix, data []byte) (c cid.Cid, ok bool, panicked string) {
	panicked = zv.Recover(func() {
		var err error
		c, err = pref.Sum(data)
		ok = err == nil
	})
	return
}

// delivered: the i-th session has been handed everything it asked for (its channel is closed without cancellation)
func (e *c10Exchange) delivered(i int) bool {
	e.mu.Lock()
	defer e.mu.Unlock()
	return i < len(e.sessions) && e.sessions[i].closed && len(e.sessions[i].wanted) == 0
}

func (e *c10Exchange) publish(c cid.Cid, data []byte) {
	blk, err := blocks.NewBlockWithCid(data, c)
	if err != nil {
		return
	}
	e.mu.Lock()
	defer e.mu.Unlock()
	for _, s := range e.sessions {
		if s.closed || !s.wanted[c] {
			continue
		}
		delete(s.wanted, c)
		s.out <- blk
		if len(s.wanted) == 0 {
			s.closed = true
			close(s.out)
		}
	}
}

type c10FetchRes struct {
	err    error
	panic  string
	done   bool
	doneCh chan struct{}
}

func (h *c10H) fetchScenario(name string, sqi int, id c10ID, differentRoot bool, garbageRace bool) {
	sq := h.squares[sqi]
	other := h.others[sqi]
	ex := &c10Exchange{started: make(chan struct{}, 8)}
	mk := func() Block {
		b, err := id.block()
		if err != nil {
			h.t.Fatal(err)
		}
		return b
	}
	// a second block keeps fetch A (the one that registers the CID) in flight while the bodies arrive
	pad := c10ID{Ty: "BRow", H: sq.height, A: 2*sq.k - 1, Size: 2 * sq.k}
	if id.Ty == "BRow" && id.A == pad.A {
		pad.A = 0
	}
	padBlk, _ := pad.block()
	blkA, blkB := mk(), mk()
	ctxA, cancelA := context.WithCancel(context.Background())
	ctxB, cancelB := context.WithCancel(context.Background())
	defer cancelA()
	defer cancelB()
	run := func(ctx context.Context, roots *share.AxisRoots, blks []Block, res *c10FetchRes, wg *sync.WaitGroup) {
		defer wg.Done()
		res.panic = zv.Recover(func() { res.err = Fetch(ctx, ex, roots, blks) })
		res.done = true
		close(res.doneCh)
	}
	var wg sync.WaitGroup
	resA, resB := c10FetchRes{doneCh: make(chan struct{})}, c10FetchRes{doneCh: make(chan struct{})}
	wg.Add(1)
	go run(ctxA, sq.roots, []Block{blkA, padBlk}, &resA, &wg)
	<-ex.started // A has registered its CIDs and subscribed
	rootsB := sq.roots
	if differentRoot {
		rootsB = other.roots
	}
	wg.Add(1)
	go run(ctxB, rootsB, []Block{blkB}, &resB, &wg)
	<-ex.started // B found the CID registered: it is the duplicate

	c := blkA.CID()
	honest, err := h.honestBody(h.bs, c)
	if err != nil {
		h.t.Fatal(err)
	}
	garbage := c10Envelope(c.Bytes(), []byte("not a container"))
	replay := map[string]any{"fetch": name, "sq": sqi, "id": id, "different_root": differentRoot, "garbage_race": garbageRace}
	step := func(data []byte, pub bool) (cid.Cid, bool) {
		cc, ok, pn := ex.check(c.Prefix(), data)
		if pn != "" {
			h.r.Violation("hasher-panic:fetch", pn, replay)
			return cc, false
		}
		if ok && pub {
			ex.publish(cc, data)
		}
		return cc, ok
	}
	if garbageRace {
		// the honest body is checked (fills A), then a hostile body for the same CID is checked; the hostile one reaches
		// the sessions first (two peers' messages are processed concurrently by the bitswap client)
		_, okH := step(honest, false)
		gc, okG := step(garbage, false)
		if okG {
			ex.publish(gc, garbage)
		}
		if okH {
			ex.publish(c, honest)
		}
	} else {
		step(honest, true)
	}
	// let B finish (it has everything it asked for, or failed); then release A
	// B returns by itself exactly when the exchange has handed it the block (its channel is then closed) or its own check
	// failed; otherwise it waits for its context.  Which of the two is the case is known from the exchange, not from a clock.
	waitDone := func(res *c10FetchRes) { <-res.doneCh }
	if ex.delivered(1) {
		waitDone(&resB)
	} else {
		cancelB()
		waitDone(&resB)
		if resB.panic == "" && c10Container(blkB) == nil && !differentRoot && !garbageRace {
			h.r.Violation("dup-starved:"+name, "the duplicate fetch did not receive the block its CID's honest body was published for", replay)
		}
	}
	if !garbageRace && resA.panic == "" && c10Container(blkA) == nil {
		h.r.Violation("registered-fetch-not-filled:"+name, "the honest body was accepted and published but the block of the fetch that registered the CID is empty", replay)
	}
	cancelA()
	wg.Wait()
	h.r.Count("fetch_scenario", name+":"+id.Ty)
	for who, res := range map[string]*c10FetchRes{"A": &resA, "B": &resB} {
		if res.panic != "" {
			h.r.Violation("fetch-panic:"+name, fmt.Sprintf("concurrent fetch %s of one CID panicked: %s", who, res.panic), replay)
		}
	}
	for who, blk := range map[string]Block{"A": blkA, "B": blkB} {
		v := c10Container(blk)
		if v == nil {
			continue
		}
		tsq := sq
		if who == "B" && differentRoot {
			tsq = other
		}
		if terr := c10Truth(id, tsq, v); terr != nil {
			h.r.Violation("fetch-unverified:"+name, fmt.Sprintf("fetch %s holds a container that is not the data committed by ITS roots: %v", who, terr), replay)
		}
	}
	if !differentRoot && resB.panic == "" && resB.err == nil && c10Container(blkB) == nil {
		h.r.Violation("fetch-empty-success:"+name, "the duplicate fetch returned nil with an empty block", replay)
	}
	if !differentRoot && !garbageRace && resB.panic == "" && (resB.err != nil || c10Container(blkB) == nil) {
		h.r.Violation("dup-honest-failed:"+name, fmt.Sprintf("the duplicate fetch of an honest block failed: %v", resB.err), replay)
	}
	// registry must be clean again
	n := 0
	unmarshalFns.Range(func(k, _ any) bool { n++; unmarshalFns.Delete(k); return true })
	if n != 0 {
		h.r.Violation("registry-leak:"+name, fmt.Sprintf("%d registry entries left after all fetches returned", n), replay)
	}
}

// ---------------------------------------------------------------------------------------------- test

func TestVerifC10(t *testing.T) {
	r := zv.Start(t, "C10")
	defer r.Finish()
	rng := r.Rand()
	h := &c10H{t: t, r: r}
	h.gc = r.Group("cid", c10Header, "cop", "cid_mismatches")
	h.gh = r.Group("hasher", c10Header, "hcase", "hasher_mismatches")
	good, bad := c10Getter{}, c10Getter{}
	for i, k := range []int{1, 2, 4, 8} {
		lens, pad := c10Layout(rng.Fork(uint64(i)), k)
		base := uint64(7000 + 100*i)
		sq := c10GenSquare(t, rng.Fork(uint64(10+i)), k, uint64(20+i), lens, pad, base)
		ot := c10GenSquare(t, rng.Fork(uint64(20+i)), k, uint64(20+i), lens, pad, base)
		h.squares, h.others = append(h.squares, sq), append(h.others, ot)
		good[sq.height], bad[sq.height] = sq, ot
	}
	h.bs, h.obs = &Blockstore{Getter: good}, &Blockstore{Getter: bad}

	h.gconc = r.Group("conc", c10ConcHeader, "ccase", "conc_mismatches")
	h.gserve = r.Group("serve", c10ServeHeader, "scase", "serve_mismatches")

	var rp struct {
		Hasher *c10HCase     `json:"hasher"`
		Sched  *c10Sched     `json:"sched"`
		Serve  *c10ServeCase `json:"serve"`
	}
	if r.ReplayInput(&rp) {
		switch {
		case rp.Hasher != nil:
			h.runHasherCase(*rp.Hasher)
		case rp.Sched != nil:
			h.runSched(rp.Sched, nil, 0)
		case rp.Serve != nil:
			for _, rep := range h.buildReps() {
				if rep.name == rp.Serve.Rep {
					h.serveOne(rep, rp.Serve.Sq, rp.Serve.ID)
				}
			}
		}
		return
	}

	h.cidCases(rng.Fork(1))

	// ---- serve_accept, exhaustively for ODS widths 1, 2, 4 (sampled for 8): every identifier of the square
	for sqi, sq := range h.squares {
		ids := h.allIDs(sqi)
		served := 0
		for _, id := range ids {
			if sq.k == 8 && !rng.Chance(r.N(12, 100)) {
				continue
			}
			blk, err := id.block()
			if err != nil {
				t.Fatalf("id %+v: %v", id, err)
			}
			body, err := h.honestBody(h.bs, blk.CID())
			if err != nil {
				r.Violation("serve-refused:"+id.Ty, fmt.Sprintf("Blockstore.Get refuses a valid identifier of a stored square: %+v: %v", id, err), map[string]any{"id": id})
				continue
			}
			served++
			hc := c10HCase{Entries: []c10Entry{{ID: id, Sq: sqi}}, Bodies: []c10Body{{"honest", c10MhOf(id.Ty), body}}}
			if rng.Chance(r.N(25, 100)) {
				// hostile bodies first, then the honest one, then more hostile ones for the populated block
				e := hc.Entries[0]
				hc.Bodies = append(h.hostileBodies(rng, e, hc.Entries, 1+rng.Intn(3)), hc.Bodies...)
				hc.Bodies = append(hc.Bodies, h.hostileBodies(rng, e, hc.Entries, 1+rng.Intn(2))...)
			}
			h.runHasherCase(hc)
		}
		r.Count("served_ids", fmt.Sprintf("k=%d:%d/%d", sq.k, served, len(ids)))
	}
	r.Set("exhaustive", "every sample, row, row-namespace (present and absent-in-range) and single-namespace range identifier of the ODS width 1, 2 and 4 squares")

	// ---- registries with several blocks (also pre-populated ones) under hostile bodies
	for i, n := 0, r.N(200, 4000); i < n; i++ {
		sqi := 1 + rng.Intn(len(h.squares)-1)
		ids := h.allIDs(sqi)
		var hc c10HCase
		for j, m := 0, 1+rng.Intn(3); j < m; j++ {
			hc.Entries = append(hc.Entries, c10Entry{ID: zv.Pick(rng, ids), Sq: sqi, Pre: rng.Chance(30)})
		}
		for _, e := range hc.Entries {
			hc.Bodies = append(hc.Bodies, h.hostileBodies(rng, e, hc.Entries, rng.Intn(4))...)
		}
		// shuffle
		for j := len(hc.Bodies) - 1; j > 0; j-- {
			k := rng.Intn(j + 1)
			hc.Bodies[j], hc.Bodies[k] = hc.Bodies[k], hc.Bodies[j]
		}
		h.runHasherCase(hc)
	}

	// ---- concurrent fetches of one CID
	for sqi := 1; sqi < len(h.squares); sqi++ {
		sq := h.squares[sqi]
		w := 2 * sq.k
		run := sq.runs[0]
		ids := []c10ID{
			{Ty: "BSample", H: sq.height, A: rng.Intn(w), B: rng.Intn(w), Size: w},
			{Ty: "BRow", H: sq.height, A: rng.Intn(sq.k), Size: w},
			{Ty: "BRnd", H: sq.height, A: 0, Ns: run.ns.Bytes(), Size: w},
			{Ty: "BRange", H: sq.height, A: run.from, B: run.from + 2, Size: sq.k},
		}
		for _, id := range ids {
			h.fetchScenario("same-root", sqi, id, false, false)
			h.fetchScenario("different-root", sqi, id, true, false)
			h.fetchScenario("garbage-race", sqi, id, false, true)
		}
	}
	h.concurrent(rng.Fork(7))
	h.serving(rng.Fork(8))
}

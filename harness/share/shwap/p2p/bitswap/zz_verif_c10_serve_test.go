//go:build verif

package bitswap

// C10 — the serving side over EVERY representation a node serves from.
//
// "The block a serving node produces for an identifier from a stored square always passes this check and yields the
// requested data": Blockstore.Get -> Block.Populate(accessor) -> marshalProto on one side, a pending request (registry
// entry + the registered hash function) on the other.  The accessor is what the node really has:
//
//	mem      eds.Rsmt2D in memory
//	odsq4    a real store.Store holding ODS+Q4 files, recent cache disabled, so every Get opens the files: rows of the
//	         lower half of the EDS are handed out as PARITY halves (store/file ODSQ4.AxisHalf -> q4)
//	ods      the same with the Q4 file removed (RemoveQ4): lower rows are recomputed from the ODS
//	cached   store.CachedStore (WithCache) over ODS+Q4 files: the file accessor sits behind the cache and its proofs cache
//	recent   a store with the default recent cache: the square is served from the cache it was put into
//
// L3: the served block is rejected by the requester's hasher, is served under another CID, or is accepted but the
//     requester's Block then holds something else than the data of the square.
// L2: for row identifiers, which half the accessor hands out and which side the served container is labelled with vs
//     CN.Shwap.Bitswap (serve_mismatches: rep_parity, to_row); row bodies of the file representations also go through the
//     hasher correspondence (hasher_mismatches).

import (
	"bytes"
	"context"
	"fmt"

	"github.com/celestiaorg/rsmt2d"

	"github.com/celestiaorg/celestia-node/share"
	bitswappb "github.com/celestiaorg/celestia-node/share/shwap/p2p/bitswap/pb"
	shwappb "github.com/celestiaorg/celestia-node/share/shwap/pb"
	"github.com/celestiaorg/celestia-node/store"
	zv "github.com/celestiaorg/celestia-node/zzverif"
)

const c10ServeHeader = `From Coq Require Import List ZArith NArith BinNat.
From CN Require Import Base.Bytes Shwap.Ids Shwap.Cid Shwap.Bitswap.
Import ListNotations.
Open Scope Z_scope.
Definition q := mkscase.
Definition T := true.
Definition F := false.
`

type c10Rep struct {
	name   string
	coq    string
	getter AccessorGetter
}

type c10ServeCase struct {
	Rep string `json:"rep"`
	Sq  int    `json:"sq"`
	ID  c10ID  `json:"id"`
}

// buildReps stores the squares of the run in real stores on a temporary directory
func (h *c10H) buildReps() []*c10Rep {
	ctx := context.Background()
	mk := func(name string, cacheSize int, q4 bool) *store.Store {
		st, err := store.NewStore(&store.Parameters{RecentBlocksCacheSize: cacheSize}, h.t.TempDir())
		if err != nil {
			h.t.Fatalf("store %s: %v", name, err)
		}
		h.t.Cleanup(func() { _ = st.Stop(ctx) })
		for _, sq := range h.squares {
			if err := st.PutODSQ4(ctx, sq.roots, sq.height, sq.q); err != nil {
				h.t.Fatalf("store %s: put %d: %v", name, sq.height, err)
			}
			if !q4 {
				if err := st.RemoveQ4(ctx, sq.height, share.DataHash(sq.roots.Hash())); err != nil {
					h.t.Fatalf("store %s: remove q4 %d: %v", name, sq.height, err)
				}
			}
		}
		return st
	}
	good := c10Getter{}
	for _, sq := range h.squares {
		good[sq.height] = sq
	}
	cached, err := mk("cached", 0, true).WithCache("c10", 8)
	if err != nil {
		h.t.Fatal(err)
	}
	return []*c10Rep{
		{"mem", "RepMem", good},
		{"odsq4", "RepOdsQ4", mk("odsq4", 0, true)},
		{"ods", "RepOds", mk("ods", 0, false)},
		{"cached", "RepCachedFile", cached},
		{"recent", "RepRecent", mk("recent", store.DefaultParameters().RecentBlocksCacheSize, true)},
	}
}

// serveOne: Blockstore.Get over the representation, the served bytes into the hasher of a pending request
func (h *c10H) serveOne(rep *c10Rep, sqi int, id c10ID) (body []byte) {
	ctx := context.Background()
	sq := h.squares[sqi]
	replay := map[string]any{"serve": c10ServeCase{Rep: rep.name, Sq: sqi, ID: id}}
	half := "data"
	if id.Ty == "BRow" && id.A >= sq.k {
		half = "lower"
	}
	if id.Ty == "BSample" {
		half = fmt.Sprintf("q%d", 1+2*c10IfInt(id.A >= sq.k, 1, 0)+c10IfInt(id.B >= sq.k, 1, 0))
	}
	class := rep.name + ":" + id.Ty + ":" + half
	h.r.Count("serve", class)
	want, err := id.block()
	if err != nil {
		h.t.Fatalf("id %+v: %v", id, err)
	}
	c := want.CID()
	bs := &Blockstore{Getter: rep.getter}
	var served interface {
		RawData() []byte
	}
	pn := zv.Recover(func() {
		blk, e := bs.Get(ctx, c)
		if e != nil {
			err = e
			return
		}
		if !blk.Cid().Equals(c) {
			err = fmt.Errorf("served under CID %s", blk.Cid())
			return
		}
		served = blk
	})
	if pn != "" {
		h.r.Violation("serve-panic:"+class, fmt.Sprintf("Blockstore.Get over %s panicked for %+v: %s", rep.name, id, pn), replay)
		return nil
	}
	if err != nil {
		h.r.Violation("serve-refused:"+class, fmt.Sprintf("Blockstore.Get over %s does not serve a valid identifier of a stored square: %+v: %v", rep.name, id, err), replay)
		return nil
	}
	body = served.RawData()
	unmarshalFns.Store(c, &unmarshalEntry{UnmarshalFn: want.UnmarshalFn(sq.roots)})
	digest, herr, hpn := c10Hasher(c10MhOf(id.Ty), body)
	unmarshalFns.Delete(c)
	accepted := herr == nil && hpn == ""
	switch {
	case hpn != "":
		h.r.Violation("hasher-panic:serve:"+class, hpn, replay)
	case herr != nil:
		h.r.Violation("honest-rejected:"+class, fmt.Sprintf("the block Blockstore.Get serves over %s for %+v was rejected by the hasher of a pending request for it: %v", rep.name, id, herr), replay)
	default:
		idb, _ := extractFromCID(c)
		if !bytes.Equal(digest, idb) {
			h.r.Violation("digest-not-id:serve:"+class, "the digest reported for the served block is not the requested identifier", replay)
		}
		if terr := c10Truth(id, sq, c10Container(want)); terr != nil {
			h.r.Violation("served-wrong-data:"+class, fmt.Sprintf("the block served over %s for %+v was accepted but does not yield the data of the square: %v", rep.name, id, terr), replay)
		}
	}
	if id.Ty == "BRow" {
		// which half does the accessor hand out, which side does the served container claim
		acc, err := rep.getter.GetByHeight(ctx, sq.height)
		if err != nil {
			h.t.Fatalf("%s: %v", rep.name, err)
		}
		ah, err := acc.AxisHalf(ctx, rsmt2d.Row, id.A)
		_ = acc.Close()
		if err != nil {
			h.t.Fatalf("%s: AxisHalf(%d): %v", rep.name, id.A, err)
		}
		var env bitswappb.Block
		var row shwappb.Row
		if env.Unmarshal(body) != nil || row.Unmarshal(env.Container) != nil {
			h.t.Fatalf("%s: served row body does not parse", rep.name)
		}
		right := row.GetHalfSide() != shwappb.Row_LEFT
		h.r.Count("serve_row_half", rep.name+":"+c10If(ah.IsParity, "parity", "data")+":"+c10If(right, "RIGHT", "LEFT"))
		h.gserve.Case(fmt.Sprintf("(q %s %d %d %s %s %s)", rep.coq, sq.k, id.A, zv.Bool(ah.IsParity), c10If(right, "T", "F"), c10If(accepted, "T", "F")),
			map[string]any{"rep": rep.name, "k": sq.k, "row": id.A, "parity": ah.IsParity, "right": right, "accepted": accepted},
			c10If(ah.IsParity, "parity-half", ""))
	}
	return body
}

// serving: every identifier of every square (ODS width 8: every row, the rest sampled) over every representation
func (h *c10H) serving(rng *zv.Rand) {
	reps := h.buildReps()
	for sqi, sq := range h.squares {
		ids := h.allIDs(sqi)
		for _, rep := range reps {
			for _, id := range ids {
				if sq.k == 8 && id.Ty != "BRow" && !rng.Chance(h.r.N(10, 100)) {
					continue
				}
				if rep.name == "mem" && id.Ty != "BRow" {
					continue // every identifier over the in-memory square already goes through the hasher correspondence
				}
				body := h.serveOne(rep, sqi, id)
				if body != nil && id.Ty == "BRow" && (rep.name == "odsq4" || rep.name == "cached") {
					h.runHasherCase(c10HCase{Entries: []c10Entry{{ID: id, Sq: sqi}}, Bodies: []c10Body{{"honest", c10MhOf(id.Ty), body}}})
				}
			}
		}
	}
	h.r.Set("serve_representations", "mem, odsq4 (files, no cache), ods (Q4 removed), cached (CachedStore over files), recent (recent cache)")
}

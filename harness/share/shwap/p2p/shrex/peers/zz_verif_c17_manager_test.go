//go:build verif

package peers

// C17 correspondence + oracle harness, part 2: the peer Manager (see /verif/coq/theories/Peers/Manager.v).
//
// The REAL Manager is built the way manager_test.go builds it (mocknet host, BasicConnectionGater over a map
// datastore); headers reach it through its real subscribeHeader loop fed by a scripted subscription, disconnects
// through its real subscribeDisconnectedPeers loop fed by a scripted event subscription; every cool-down queue runs
// on one mock clock.  One GC round is the body of the GC loop (cleanUp + blacklistPeers).
//
// L2: sequences of manager events vs CN.Peers.Manager.mmismatches.
// L3: a blacklisted peer is never returned by Peer(); a peer sits in the general pool only if discovery added it
//     or a header / getter confirmed a hash it announced.

import (
	"context"
	"fmt"
	"sort"
	"testing"
	"time"

	"github.com/benbjohnson/clock"
	"github.com/ipfs/go-datastore"
	dssync "github.com/ipfs/go-datastore/sync"
	pubsub "github.com/libp2p/go-libp2p-pubsub"
	"github.com/libp2p/go-libp2p/core/event"
	"github.com/libp2p/go-libp2p/core/host"
	"github.com/libp2p/go-libp2p/core/network"
	"github.com/libp2p/go-libp2p/core/peer"
	"github.com/libp2p/go-libp2p/p2p/net/conngater"
	mocknet "github.com/libp2p/go-libp2p/p2p/net/mock"

	"github.com/celestiaorg/celestia-node/header"
	"github.com/celestiaorg/celestia-node/share"
	"github.com/celestiaorg/celestia-node/share/shwap/p2p/shrex/shrexsub"
	zv "github.com/celestiaorg/celestia-node/zzverif"
)

const c17MgrHeader = `From Coq Require Import List ZArith NArith.
From CN Require Import Peers.Pool Peers.Manager Peers.Fine.
Import ListNotations.
Open Scope N_scope.
`

type c17MOp struct {
	Op     string `json:"op"` // validate header peer done update disconnect gc age tick
	P      int    `json:"p"`
	H      int    `json:"h"`
	Height int    `json:"height"`
	Added  bool   `json:"added,omitempty"`
	Res    string `json:"res,omitempty"` // noop cooldown blacklist
	Pick   int    `json:"pick,omitempty"`
	D      int    `json:"d,omitempty"`
}

type c17MSeq struct {
	Kind   string   `json:"kind"` // "mgr-seq"
	Enable bool     `json:"enable"`
	NP     int      `json:"np"`
	NH     int      `json:"nh"`
	Ops    []c17MOp `json:"ops"`
}

type c17MCase struct {
	Seq    c17MSeq  `json:"seq"`
	Events []string `json:"events"`
	Outs   []string `json:"outs"`
	Final  string   `json:"final"`
}

// ---- scripted header subscription (libhead.Subscription)
type c17HeaderSub struct {
	ch    chan *header.ExtendedHeader
	ready chan struct{}
}

func (s *c17HeaderSub) NextHeader(ctx context.Context) (*header.ExtendedHeader, error) {
	select {
	case s.ready <- struct{}{}: // the previous header has been processed completely
	case <-ctx.Done():
		return nil, ctx.Err()
	}
	select {
	case h := <-s.ch:
		return h, nil
	case <-ctx.Done():
		return nil, ctx.Err()
	}
}

func (s *c17HeaderSub) Cancel() {}

// ---- scripted libp2p event subscription
type c17EvSub struct{ out chan interface{} }

func (s *c17EvSub) Out() <-chan interface{} { return s.out }
func (s *c17EvSub) Close() error            { return nil }
func (s *c17EvSub) Name() string            { return "verif" }

type c17Outstanding struct {
	h, p int
	src  string
	done DoneFunc
}

type c17MgrRun struct {
	r      *zv.Run
	seq    c17MSeq
	m      *Manager
	mock   *clock.Mock
	hsub   *c17HeaderSub
	esub   *c17EvSub
	cancel context.CancelFunc
	self   peer.ID
	clocks map[*pool]bool
	events []string
	outs   []string
	todo   []c17Outstanding

	// L3 ghost state (from observations of the implementation only)
	blocked    map[int]bool
	discovered map[int]bool
	announced  map[int]map[int]bool
	confirmed  map[int]bool
	unstable   bool
	aborted    bool
	executed   []c17MOp

	dead    chan string // a panic inside one of the Manager's own loops (see guard)
	deadMsg string
}

var c17Host host.Host

func (x *c17MgrRun) peerID(i int) peer.ID {
	if i == x.seq.NP {
		return x.self
	}
	return c17Peer(i)
}

func c17Hash(i int) share.DataHash {
	b := make([]byte, 32)
	for j := range b {
		b[j] = byte(i + 1)
	}
	return b
}

func c17NewMgrRun(t *testing.T, r *zv.Run, seq c17MSeq) *c17MgrRun {
	return c17NewMgrRunWith(t, r, seq, nil, nil)
}

// c17NewMgrRunWith: wrapDS / wrapHost let the lock-granularity harness (zz_verif_c17_fine_test.go) observe the gater's
// datastore write and Network().ClosePeer; nil = the plain objects.
func c17NewMgrRunWith(t *testing.T, r *zv.Run, seq c17MSeq, wrapDS func(datastore.Datastore) datastore.Datastore,
	wrapHost func(host.Host) host.Host,
) *c17MgrRun {
	if c17Host == nil {
		h, err := mocknet.New().GenPeer()
		if err != nil {
			t.Fatal(err)
		}
		c17Host = h
	}
	var ds datastore.Datastore = dssync.MutexWrap(datastore.NewMapDatastore())
	if wrapDS != nil {
		ds = wrapDS(ds)
	}
	gater, err := conngater.NewBasicConnectionGater(ds)
	if err != nil {
		t.Fatal(err)
	}
	params := *DefaultParameters()
	params.PeerCooldown = 10 * c17Unit
	params.EnableBlackListing = seq.Enable
	var mh host.Host = c17Host
	if wrapHost != nil {
		mh = wrapHost(mh)
	}
	m, err := NewManager(params, mh, gater, "verif")
	if err != nil {
		t.Fatal(err)
	}
	x := &c17MgrRun{r: r, seq: seq, m: m, mock: clock.NewMock(), self: c17Host.ID(), clocks: map[*pool]bool{},
		hsub:    &c17HeaderSub{ch: make(chan *header.ExtendedHeader), ready: make(chan struct{})},
		esub:    &c17EvSub{out: make(chan interface{})},
		blocked: map[int]bool{}, discovered: map[int]bool{}, announced: map[int]map[int]bool{}, confirmed: map[int]bool{}}
	ctx, cancel := context.WithCancel(context.Background())
	x.cancel = cancel
	x.dead = make(chan string, 2)
	go x.guard(func() { m.subscribeHeader(ctx, x.hsub) })
	go x.guard(func() { m.subscribeDisconnectedPeers(ctx, x.esub) })
	<-x.hsub.ready
	x.injectClocks()
	return x
}

// guard runs one of the Manager's own loops; a panic inside it (it would end the test binary and with it every finding of the
// run) is handed to the goroutine that is feeding the loop, which reports it like a panic of a direct call.
func (x *c17MgrRun) guard(loop func()) {
	defer func() {
		if r := recover(); r != nil {
			x.dead <- fmt.Sprint(r)
		}
	}()
	loop()
}

func (x *c17MgrRun) loopDied(msg string) {
	x.deadMsg = msg
	panic("in the Manager's subscription loop: " + msg)
}

// feedHeader hands one header to the real subscribeHeader loop and waits until the loop asks for the next one
func (x *c17MgrRun) feedHeader(h *header.ExtendedHeader) {
	if x.deadMsg != "" {
		panic("the Manager's subscription loop has ended: " + x.deadMsg)
	}
	select {
	case x.hsub.ch <- h:
	case msg := <-x.dead:
		x.loopDied(msg)
	}
	select {
	case <-x.hsub.ready:
	case msg := <-x.dead:
		x.loopDied(msg)
	}
}

// feedDisconnect hands a disconnect event to the real subscribeDisconnectedPeers loop; the second event is a barrier
func (x *c17MgrRun) feedDisconnect(id peer.ID) {
	if x.deadMsg != "" {
		panic("the Manager's subscription loop has ended: " + x.deadMsg)
	}
	for _, c := range []network.Connectedness{network.NotConnected, network.Connected} {
		select {
		case x.esub.out <- event.EvtPeerConnectednessChanged{Peer: id, Connectedness: c}:
		case msg := <-x.dead:
			x.loopDied(msg)
		}
	}
}

func (x *c17MgrRun) close() {
	x.cancel()
	<-x.m.headerSubDone
	<-x.m.disconnectedPeersDone
}

// injectClocks puts every (new) pool's cool-down queue on the mock clock; pools are created lazily, a queue reads its
// clock only when a peer is put on cool-down.
func (x *c17MgrRun) injectClocks() {
	x.m.lock.Lock()
	defer x.m.lock.Unlock()
	set := func(p *pool) {
		if !x.clocks[p] {
			p.cooldown.clock = x.mock
			x.clocks[p] = true
		}
	}
	set(x.m.nodes)
	for _, sp := range x.m.pools {
		set(sp.pool)
	}
}

func (x *c17MgrRun) quiesce() { c17Quiesce(x.r, 0, &x.unstable) }

func (x *c17MgrRun) violation(sig, desc string) {
	rep := x.seq
	rep.Ops = append([]c17MOp{}, x.executed...)
	x.r.Violation(sig, desc, rep)
	x.aborted = true
}

func (x *c17MgrRun) nodesList() []peer.ID {
	x.m.nodes.m.RLock()
	defer x.m.nodes.m.RUnlock()
	return append([]peer.ID{}, x.m.nodes.peersList...)
}

// newNodes returns the peers appended to nodes.peersList since `before`, in list order (= the order in which the
// implementation walked its map)
func (x *c17MgrRun) newNodes(before []peer.ID) []int {
	seen := map[peer.ID]bool{}
	for _, id := range before {
		seen[id] = true
	}
	var out []int
	for _, id := range x.nodesList() {
		if !seen[id] {
			out = append(out, c17PeerIdx(id))
		}
	}
	return out
}

// apply runs one manager event; a panic inside the manager is a violation and ends the sequence (false).
func (x *c17MgrRun) apply(op c17MOp) bool {
	x.executed = append(x.executed, op)
	if pn := zv.Recover(func() { x.apply1(op) }); pn != "" {
		x.violation("manager-panic:"+op.Op, fmt.Sprintf("%s panicked: %s", op.Op, pn))
		x.unstable = true
		return false
	}
	return !x.aborted
}

func (x *c17MgrRun) apply1(op c17MOp) {
	m := x.m
	x.r.Count("mgr-op", op.Op)
	ctx := context.Background()
	switch op.Op {
	case "validate":
		res := m.Validate(ctx, x.peerID(op.P), shrexsub.Notification{DataHash: c17Hash(op.H), Height: uint64(op.Height)})
		var rs string
		switch res {
		case pubsub.ValidationAccept:
			rs = "VAccept"
		case pubsub.ValidationReject:
			rs = "VReject"
		default:
			rs = "VIgnore"
		}
		x.r.Count("mgr-validate", rs)
		x.events = append(x.events, fmt.Sprintf("MValidate %s %s %s", zv.N(uint64(op.P)), zv.N(uint64(op.H)), zv.N(uint64(op.Height))))
		x.outs = append(x.outs, "OV "+rs)
		if rs == "VIgnore" && op.P != x.seq.NP {
			if x.announced[op.P] == nil {
				x.announced[op.P] = map[int]bool{}
			}
			x.announced[op.P][op.H] = true
		}
	case "header":
		before := x.nodesList()
		x.feedHeader(&header.ExtendedHeader{RawHeader: header.RawHeader{Height: int64(op.Height), DataHash: []byte(c17Hash(op.H))}})
		x.confirmed[op.H] = true
		x.events = append(x.events, fmt.Sprintf("MHeader %s %s %s", zv.N(uint64(op.H)), zv.N(uint64(op.Height)), c17IntsTerm(x.newNodes(before))))
	case "peer":
		before := x.nodesList()
		cctx, cancel := context.WithCancel(ctx)
		cancel() // nothing available => return at once instead of waiting
		id, done, err := m.Peer(cctx, c17Hash(op.H), uint64(op.Height))
		x.quiesce()
		x.confirmed[op.H] = true
		order := x.newNodes(before)
		x.events = append(x.events, fmt.Sprintf("MPeer %s %s %s", zv.N(uint64(op.H)), zv.N(uint64(op.Height)), c17IntsTerm(order)))
		if err != nil {
			x.outs = append(x.outs, "OP PWait")
			x.r.Count("mgr-peer", "wait")
			break
		}
		i := c17PeerIdx(id)
		// which pool did it come from? Peer() prefers the hash pool and falls back to the general pool only when the
		// hash pool has no active peer; a peer it returns stays active
		src := "SDiscovered"
		if sp := m.getPool(c17Hash(op.H).String()); sp != nil && sp.len() > 0 {
			src = "SShrexSub"
		}
		x.r.Count("mgr-peer", src)
		x.outs = append(x.outs, fmt.Sprintf("OP (PRes %s %s)", zv.N(uint64(i)), src))
		x.todo = append(x.todo, c17Outstanding{h: op.H, p: i, src: src, done: done})
		if len(x.todo) > 6 {
			x.todo = x.todo[1:]
		}
		if x.blocked[i] {
			x.violation("manager-blacklisted-offered", fmt.Sprintf("Peer() returned %s (from %s) although it was blacklisted earlier", string(id), src))
		}
		if src == "SDiscovered" && !x.legit(i) {
			x.violation("manager-unvalidated-promoted", fmt.Sprintf("Peer() returned %s from the general pool although discovery never added it and no hash it announced was confirmed", string(id)))
		}
	case "done":
		if len(x.todo) == 0 {
			return
		}
		o := x.todo[op.Pick%len(x.todo)]
		var res result
		var rs string
		switch op.Res {
		case "cooldown":
			res, rs = ResultCooldownPeer, "DCooldown"
		case "blacklist":
			res, rs = ResultBlacklistPeer, "DBlacklist"
		default:
			res, rs = ResultNoop, "DNoop"
		}
		o.done(res)
		x.r.Count("mgr-done", rs)
		x.events = append(x.events, fmt.Sprintf("MDone %s %s %s %s", zv.N(uint64(o.h)), zv.N(uint64(o.p)), o.src, rs))
	case "update":
		m.UpdateNodePool(x.peerID(op.P), op.Added)
		if op.Added {
			x.discovered[op.P] = true
		}
		x.events = append(x.events, fmt.Sprintf("MUpdate %s %s", zv.N(uint64(op.P)), zv.Bool(op.Added)))
	case "disconnect":
		x.feedDisconnect(x.peerID(op.P))
		x.events = append(x.events, fmt.Sprintf("MDisconnect %s", zv.N(uint64(op.P))))
	case "gc":
		bl := m.cleanUp()
		if len(bl) > 0 {
			m.blacklistPeers(reasonInvalidHash, bl...)
		}
		order := make([]int, len(bl))
		for i, id := range bl {
			order[i] = c17PeerIdx(id)
		}
		x.r.Count("mgr-gc", fmt.Sprintf("blacklist-%d", min(len(bl), 3)))
		x.events = append(x.events, "MGC "+c17IntsTerm(order))
	case "age":
		m.lock.Lock()
		if sp := m.pools[c17Hash(op.H).String()]; sp != nil {
			sp.createdAt = time.Now().Add(-time.Hour)
		}
		m.lock.Unlock()
		x.events = append(x.events, "MAge "+zv.N(uint64(op.H)))
	case "tick":
		x.mock.Add(time.Duration(op.D) * c17Unit)
		deadline := time.Now().Add(c17Watchdog)
		for !x.queuesQuiet() {
			if time.Now().After(deadline) {
				c17WatchdogHits++
				x.violation("pool-cooldown-not-released", "an expired cool-down entry of a manager pool was not released")
				break
			}
			time.Sleep(20 * time.Microsecond)
		}
		x.quiesce()
		x.events = append(x.events, "MTick "+zv.N(uint64(op.D)))
	}
	x.injectClocks()
	x.oracle()
}

func (x *c17MgrRun) queuesQuiet() bool {
	quiet := func(p *pool) bool {
		q := p.cooldown
		q.Lock()
		defer q.Unlock()
		return len(q.items) == 0 || x.mock.Since(q.items[0].createdAt) < q.ttl
	}
	x.m.lock.Lock()
	pools := []*pool{x.m.nodes}
	for _, sp := range x.m.pools {
		pools = append(pools, sp.pool)
	}
	x.m.lock.Unlock()
	for _, p := range pools {
		if !quiet(p) {
			return false
		}
	}
	return true
}

// legit: may peer i be in the general pool according to what the harness did to the manager?
func (x *c17MgrRun) legit(i int) bool {
	if x.discovered[i] {
		return true
	}
	for h := range x.announced[i] {
		if x.confirmed[h] {
			return true
		}
	}
	return false
}

func (x *c17MgrRun) oracle() {
	for i := 0; i < x.seq.NP; i++ {
		id := c17Peer(i)
		if x.m.isBlacklistedPeer(id) {
			x.blocked[i] = true
		}
		if x.m.nodes.has(id) && !x.legit(i) {
			x.violation("manager-unvalidated-promoted", fmt.Sprintf("%s is in the general pool although discovery never added it and no hash it announced was confirmed", string(id)))
		}
	}
	if msg := c17PoolInvariants(x.m.nodes); msg != "" {
		x.violation("pool-bookkeeping", "general pool: "+msg)
	}
}

func (x *c17MgrRun) obs() string {
	m := x.m
	np, nh := x.seq.NP, x.seq.NH
	pools := make([]string, nh)
	bh := make([]string, nh)
	for h := 0; h < nh; h++ {
		if sp := m.getPool(c17Hash(h).String()); sp != nil {
			pools[h] = zv.Some(zv.Tuple(zv.Bool(sp.isValidatedDataHash.Load()), c17PoolObs(sp.pool, np)))
		} else {
			pools[h] = zv.None
		}
		bh[h] = zv.Bool(m.isBlacklistedHash(c17Hash(h)))
	}
	bl := make([]string, np)
	for i := 0; i < np; i++ {
		bl[i] = zv.Bool(m.isBlacklistedPeer(c17Peer(i)))
	}
	return zv.App("mkMobs", c17PoolObs(m.nodes, np), zv.List(pools), zv.List(bl), zv.List(bh),
		zv.N(m.initialHeight.Load()), zv.N(m.storeFrom.Load()))
}

func (x *c17MgrRun) finish(gs *c17Groups, idx int, nontrivial bool) {
	if x.unstable || x.aborted {
		x.close()
		return
	}
	final := x.obs()
	x.close()
	term := zv.App("mkMcase", zv.Bool(x.seq.Enable), zv.N(uint64(x.seq.NP)), "10", zv.Nat(x.seq.NP), zv.Nat(x.seq.NH),
		zv.List(x.events), zv.List(x.outs), final)
	key := ""
	if nontrivial {
		key = "nt"
	}
	gs.get(idx).Case(term, c17MCase{Seq: x.seq, Events: x.events, Outs: x.outs, Final: final}, key)
}

func (x *c17MgrRun) genOp(rng *zv.Rand, heights []int) c17MOp {
	np, nh := x.seq.NP, x.seq.NH
	h := rng.Intn(nh)
	switch k := rng.Intn(100); {
	case k < 26:
		p := rng.Intn(np)
		if rng.Chance(3) {
			p = np // self
		}
		hh := heights[h]
		if rng.Chance(12) {
			hh = rng.Intn(45)
		}
		return c17MOp{Op: "validate", P: p, H: h, Height: hh}
	case k < 36:
		return c17MOp{Op: "header", H: h, Height: heights[h]}
	case k < 58:
		return c17MOp{Op: "peer", H: h, Height: heights[h]}
	case k < 70:
		return c17MOp{Op: "done", Pick: rng.Intn(8), Res: zv.Pick(rng, []string{"noop", "cooldown", "cooldown", "blacklist", "blacklist"})}
	case k < 80:
		return c17MOp{Op: "update", P: rng.Intn(np), Added: rng.Chance(70)}
	case k < 84:
		return c17MOp{Op: "disconnect", P: rng.Intn(np)}
	case k < 90:
		return c17MOp{Op: "gc"}
	case k < 95:
		return c17MOp{Op: "age", H: h}
	default:
		return c17MOp{Op: "tick", D: zv.Pick(rng, []int{1, 3, 5, 9, 10, 11})}
	}
}

func c17MgrNontrivial(ops []c17MOp, enable bool) bool {
	var v, hd, bl bool
	for _, o := range ops {
		switch o.Op {
		case "validate":
			v = true
		case "header", "peer":
			hd = hd || v
		case "done":
			bl = bl || o.Res == "blacklist"
		case "gc":
			bl = true
		}
	}
	return v && hd && (bl || !enable)
}

func c17MgrScripted() []c17MSeq {
	v := func(p, h, height int) c17MOp { return c17MOp{Op: "validate", P: p, H: h, Height: height} }
	hd := func(h, height int) c17MOp { return c17MOp{Op: "header", H: h, Height: height} }
	pr := func(h, height int) c17MOp { return c17MOp{Op: "peer", H: h, Height: height} }
	dn := func(pick int, res string) c17MOp { return c17MOp{Op: "done", Pick: pick, Res: res} }
	up := func(p int, added bool) c17MOp { return c17MOp{Op: "update", P: p, Added: added} }
	age := func(h int) c17MOp { return c17MOp{Op: "age", H: h} }
	gc := c17MOp{Op: "gc"}
	mk := func(enable bool, ops ...c17MOp) c17MSeq {
		return c17MSeq{Kind: "mgr-seq", Enable: enable, NP: 5, NH: 4, Ops: ops}
	}
	return []c17MSeq{
		// announce H0 (unconfirmed), get blacklisted through a stale hash H1, header confirms H0, ask for another hash
		mk(true, hd(2, 5), v(0, 0, 6), v(0, 1, 7), age(1), gc, hd(0, 6), pr(3, 8)),
		// the same through a misbehaviour report
		mk(true, up(0, true), v(0, 0, 6), pr(3, 8), dn(0, "blacklist"), hd(0, 6), pr(3, 8), pr(0, 6)),
		// unconfirmed announcers are not promoted; confirmed ones are
		mk(true, v(1, 0, 6), v(2, 0, 6), pr(1, 7), hd(0, 6), pr(1, 7), pr(1, 7), pr(1, 7), v(3, 0, 6), pr(1, 7), pr(1, 7), pr(1, 7)),
		// manager_test scenarios: validator, cleanup, store window
		mk(true, v(5, 0, 1), v(1, 0, 1), pr(0, 1), dn(0, "blacklist"), v(1, 0, 1)),
		mk(false, hd(0, 1), v(1, 1, 2), age(1), up(4, true), pr(2, 1), gc, v(2, 1, 2)),
		mk(true, hd(0, 100), v(1, 1, 99), gc), mk(true, v(1, 1, 99), hd(0, 100), age(1), gc),
		mk(true, hd(0, 20), v(1, 1, 7), v(1, 2, 10), v(1, 3, 9)),
		// cool-down through the DoneFunc, both sources
		mk(false, up(0, true), up(1, true), pr(0, 3), dn(0, "cooldown"), pr(0, 3), pr(0, 3), c17MOp{Op: "tick", D: 10}, pr(0, 3), pr(0, 3)),
		mk(false, up(0, true), v(0, 0, 3), v(1, 0, 3), pr(0, 3), dn(0, "cooldown"), pr(0, 3), pr(0, 3), c17MOp{Op: "tick", D: 10}, pr(0, 3), pr(0, 3), pr(0, 3)),
		// hash pool member that left the general pool is dropped on the way
		mk(false, hd(0, 3), v(0, 0, 3), v(1, 0, 3), c17MOp{Op: "disconnect", P: 0}, pr(0, 3), pr(0, 3), up(1, false), pr(0, 3)),
	}
}

func c17Manager(t *testing.T, r *zv.Run) {
	// every sequential case is evaluated by BOTH models: Peers.Manager (one event per call) and Peers.Fine (the same call as a
	// thread that runs alone from its first to its last critical section)
	gs := &c17Groups{r: r, name: "manager", header: c17MgrHeader, typ: "mcase", f: "mfmismatches"}
	rng := r.Rand().Fork(4)

	var replay c17MSeq
	if r.ReplayInput(&replay) && replay.Kind == "mgr-seq" {
		x := c17NewMgrRun(t, r, replay)
		for _, op := range replay.Ops {
			if !x.apply(op) {
				break
			}
		}
		x.finish(gs, 0, true)
		return
	}
	for i, seq := range c17MgrScripted() {
		x := c17NewMgrRun(t, r, seq)
		for _, op := range seq.Ops {
			if !x.apply(op) {
				break
			}
		}
		x.finish(gs, i, true)
		r.Count("mgr-seq", "scripted")
	}
	n := r.N(400, 6000)
	for i := 0; i < n && c17WatchdogHits < 3; i++ {
		cr := rng.Fork(uint64(i))
		seq := c17MSeq{Kind: "mgr-seq", Enable: cr.Chance(70), NP: 5, NH: 4}
		x := c17NewMgrRun(t, r, seq)
		heights := make([]int, seq.NH)
		for j := range heights {
			heights[j] = 1 + cr.Intn(40)
		}
		sort.Ints(heights)
		if cr.Chance(60) { // all hashes inside one store window
			for j := range heights {
				heights[j] = 20 + j
			}
		}
		ln := 6 + cr.Intn(30)
		for j := 0; j < ln; j++ {
			op := x.genOp(cr, heights)
			x.seq.Ops = append(x.seq.Ops, op)
			if !x.apply(op) {
				break
			}
		}
		x.finish(gs, i, c17MgrNontrivial(x.seq.Ops, seq.Enable))
		r.Count("mgr-seq", "random")
	}
}

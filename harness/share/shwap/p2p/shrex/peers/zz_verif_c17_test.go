//go:build verif

package peers

// C17 correspondence + oracle harness, part 1: the round-robin pool and its cool-down queue
// (see /verif/DESIGN.md, C17 and /verif/coq/theories/Peers/Pool.v).
//
// L2: random and scripted operation sequences are applied to the REAL pool (mock clock injected the way
//     timedqueue_test.go does it); every value tryGet/next returned and a projection of the final pool state are
//     written as a Coq case for CN.Peers.Pool.mismatches.
// L3: implementation-level oracles, independent of the model: an offered peer is active and has no cool-down
//     younger than ttl, activeCount equals the number of active statuses, hasPeer <-> activeCount>0, waiters are
//     woken, no call hangs (watchdog), and the deterministic two-thread schedule for the lock-order inversion.

import (
	"context"
	"fmt"
	"runtime"
	"strings"
	"sync"
	"sync/atomic"
	"testing"
	"time"
	"unsafe"

	"github.com/benbjohnson/clock"
	"github.com/libp2p/go-libp2p/core/peer"

	zv "github.com/celestiaorg/celestia-node/zzverif"
)

const c17PoolHeader = `From Coq Require Import List ZArith NArith.
From CN Require Import Peers.Pool.
Import ListNotations.
Open Scope N_scope.
`

const (
	c17Unit     = time.Second
	c17Watchdog = 20 * time.Second
)

// c17Groups spreads the cases of one model over several case groups (= Coq files evaluated in parallel); a group is
// created when its first case arrives, so an aborted run leaves no empty group behind.
type c17Groups struct {
	r                    *zv.Run
	name, header, typ, f string
	gs                   [4]*zv.Group
}

func (c *c17Groups) get(i int) *zv.Group {
	k := i % len(c.gs)
	if c.gs[k] == nil {
		c.gs[k] = c.r.Group(fmt.Sprintf("%s%d", c.name, k), c.header, c.typ, c.f)
	}
	return c.gs[k]
}

func c17Peer(i int) peer.ID { return peer.ID(fmt.Sprintf("p%d", i)) }

func c17PeerIdx(id peer.ID) int {
	var i int
	if _, err := fmt.Sscanf(string(id), "p%d", &i); err != nil {
		return -1
	}
	return i
}

// c17Op is one harness-level operation (the replayable form of a sequence).
type c17Op struct {
	Op string `json:"op"` // add remove get cooldown cleanup tick wait cancel | window (zz_verif_c17_poolfine_test.go)
	Ps []int  `json:"ps,omitempty"`
	P  int    `json:"p"`
	D  int    `json:"d,omitempty"`
	// window: the clock moves to the head item's expiry, callback number Park of that expiry is held back while Work runs
	Park int     `json:"park,omitempty"`
	Work []c17Op `json:"work,omitempty"`
}

type c17Seq struct {
	Kind   string  `json:"kind"` // "pool-seq"
	TTL    int     `json:"ttl"`
	Thr    int     `json:"thr"`
	NPeers int     `json:"npeers"`
	Ops    []c17Op `json:"ops"`
}

type c17PoolCase struct {
	Seq    c17Seq   `json:"seq"`
	Events []string `json:"events"`
	Outs   []string `json:"outs"`
	Final  string   `json:"final"`
}

// c17PoolRun drives one real pool.
type c17PoolRun struct {
	r      *zv.Run
	seq    c17Seq
	p      *pool
	mock   *clock.Mock
	t0     time.Time
	events []string
	outs   []string

	// waiter (at most one at a time)
	wid     int
	wch     <-chan peer.ID
	wcancel context.CancelFunc
	wlive   bool

	// L3 ghost state, kept by the harness from what it observed on the implementation only
	lastCooldown map[int]time.Duration // peer -> mock time of the last putOnCooldown that took effect
	removedSince map[int]bool          // peer -> removed after that cool-down
	unstable     bool
	aborted      bool
	executed     []c17Op
	windowed     bool // an expiry callback was held back in this history (zz_verif_c17_poolfine_test.go)
}

func c17NewPoolRun(r *zv.Run, seq c17Seq) *c17PoolRun {
	p := newPool(time.Duration(seq.TTL) * c17Unit)
	mock := clock.NewMock()
	p.cooldown.clock = mock
	p.cleanupThreshold = seq.Thr
	return &c17PoolRun{r: r, seq: seq, p: p, mock: mock, t0: mock.Now(),
		lastCooldown: map[int]time.Duration{}, removedSince: map[int]bool{}}
}

func (x *c17PoolRun) now() time.Duration { return x.mock.Now().Sub(x.t0) }

// c17Transient counts the goroutines that are inside a pool's next() waiter or inside a cool-down timer callback
// (found by function name in a full stack dump): the only goroutines the pool itself starts.
func c17Transient() (waiters, timers int) {
	buf := make([]byte, 1<<16)
	for {
		n := runtime.Stack(buf, true)
		if n < len(buf) {
			buf = buf[:n]
			break
		}
		buf = make([]byte, 2*len(buf))
	}
	for _, g := range strings.Split(string(buf), "\n\n") {
		if strings.Contains(g, "peers.(*pool).next.func") {
			waiters++
		}
		if strings.Contains(g, "peers.(*timedQueue).releaseExpired") {
			timers++
		}
	}
	return
}

// quiesce waits (event-based, bounded by the watchdog) until no transient goroutine of the pool is left apart from
// `extra` parked waiters.
func (x *c17PoolRun) quiesce(extra int) bool { return c17Quiesce(x.r, extra, &x.unstable) }

func c17Quiesce(r *zv.Run, extra int, unstable *bool) bool {
	deadline := time.Now().Add(c17Watchdog)
	for {
		w, t := c17Transient()
		if w <= extra && t == 0 {
			return true
		}
		if time.Now().After(deadline) {
			*unstable = true
			r.Count("harness", "quiesce-timeout")
			return false
		}
		time.Sleep(20 * time.Microsecond)
	}
}

func (x *c17PoolRun) live() int {
	if x.wlive {
		return 1
	}
	return 0
}

func c17Status(st status) string {
	switch st {
	case active:
		return "Active"
	case cooldown:
		return "Cooldown"
	case removed:
		return "Removed"
	}
	return fmt.Sprintf("Bad%d", int(st))
}

func c17PeersTerm(ids []peer.ID) string {
	xs := make([]string, len(ids))
	for i, id := range ids {
		xs[i] = zv.N(uint64(c17PeerIdx(id)))
	}
	return zv.List(xs)
}

func c17IntsTerm(ps []int) string {
	xs := make([]string, len(ps))
	for i, p := range ps {
		xs[i] = zv.N(uint64(p))
	}
	return zv.List(xs)
}

func c17IDs(ps []int) []peer.ID {
	ids := make([]peer.ID, len(ps))
	for i, p := range ps {
		ids[i] = c17Peer(p)
	}
	return ids
}

// c17PoolObs projects a real pool (quiescent) onto the model's [obs] record.
func c17PoolObs(p *pool, npeers int) string {
	p.m.Lock()
	defer p.m.Unlock()
	p.cooldown.Lock()
	defer p.cooldown.Unlock()
	st := make([]string, npeers)
	for i := 0; i < npeers; i++ {
		if s, ok := p.statuses[c17Peer(i)]; ok {
			st[i] = zv.Some(c17Status(s))
		} else {
			st[i] = zv.None
		}
	}
	q := make([]peer.ID, len(p.cooldown.items))
	for i, it := range p.cooldown.items {
		q[i] = it.ID
	}
	return zv.App("mkObs", zv.Z(int64(p.activeCount)), c17PeersTerm(p.peersList), zv.List(st), zv.Nat(p.nextIdx),
		zv.Bool(p.hasPeer), c17PeersTerm(q))
}

// c17PoolInvariants: L3 bookkeeping oracle on a quiescent real pool.
func c17PoolInvariants(p *pool) string {
	p.m.Lock()
	defer p.m.Unlock()
	n := 0
	for _, s := range p.statuses {
		if s == active {
			n++
		}
	}
	if n != p.activeCount {
		return fmt.Sprintf("activeCount=%d but %d peers have status active", p.activeCount, n)
	}
	if p.hasPeer != (p.activeCount > 0) {
		return fmt.Sprintf("hasPeer=%v with activeCount=%d", p.hasPeer, p.activeCount)
	}
	seen := map[peer.ID]bool{}
	for _, id := range p.peersList {
		if seen[id] {
			return "peersList holds " + string(id) + " twice"
		}
		seen[id] = true
		if _, ok := p.statuses[id]; !ok {
			return "peersList holds " + string(id) + " which has no status"
		}
	}
	if len(seen) != len(p.statuses) {
		return fmt.Sprintf("%d statuses for %d listed peers", len(p.statuses), len(seen))
	}
	select {
	case <-p.hasPeerCh:
		if !p.hasPeer {
			return "hasPeerCh closed while hasPeer is false"
		}
	default:
		if p.hasPeer {
			return "hasPeerCh open while hasPeer is true"
		}
	}
	return ""
}

// violation records an L3 finding with the sequence so far as its replay; the sequence ends there (what follows
// would run on a pool whose state is already wrong).
func (x *c17PoolRun) violation(sig, desc string) {
	if x.windowed && strings.HasPrefix(sig, "pool-cooldown-") && sig != "pool-cooldown-not-released" {
		// the same oracle ("offered while a cool-down younger than ttl exists"), reached through the window between an
		// item leaving the queue and its callback
		sig = "pool-cooldown-cut-short:expiry-window"
	}
	rep := x.seq
	rep.Ops = append([]c17Op{}, x.executed...)
	x.r.Violation(sig, desc, rep)
	x.aborted = true
}

// c17WatchdogHits counts expired watchdogs in this run; after a few of them the sequential part stops (each costs the
// full watchdog time and the finding is already recorded).
var c17WatchdogHits int

// offered: L3 oracle for a peer handed out by tryGet / next.
func (x *c17PoolRun) offered(id peer.ID, via string) {
	i := c17PeerIdx(id)
	x.p.m.RLock()
	st, ok := x.p.statuses[id]
	x.p.m.RUnlock()
	if !ok || st != active {
		x.violation("pool-offered-inactive", fmt.Sprintf("%s returned %s whose status is %v (present=%v)", via, string(id), c17Status(st), ok))
	}
	if at, ok := x.lastCooldown[i]; ok {
		if age := x.now() - at; age < time.Duration(x.seq.TTL)*c17Unit {
			sig, how := "pool-cooldown-early-release", "a stale cool-down entry re-activated it"
			if x.removedSince[i] {
				sig, how = "pool-cooldown-forgotten-on-readd", "remove + add made it active again"
			}
			x.violation(sig, fmt.Sprintf("%s returned %s only %v after it was put on cool-down (ttl %v): %s",
				via, string(id), age, time.Duration(x.seq.TTL)*c17Unit, how))
		}
	}
}

func c17GetRes(id peer.ID, ok bool) string {
	if !ok {
		return "GNone"
	}
	return zv.App("GSome", zv.N(uint64(c17PeerIdx(id))))
}

// collect: if a waiter is pending and a peer is available it must be delivered.
func (x *c17PoolRun) collect() {
	if !x.wlive || x.p.len() <= 0 {
		return
	}
	select {
	case id := <-x.wch:
		x.events = append(x.events, fmt.Sprintf("EWWake %d", x.wid), fmt.Sprintf("EWTry %d", x.wid))
		x.outs = append(x.outs, c17GetRes(id, true))
		x.offered(id, "next")
		x.r.Count("pool-op", "waiter-delivered")
	case <-time.After(c17Watchdog):
		c17WatchdogHits++
		x.violation("pool-waiter-not-woken", fmt.Sprintf("a caller blocked in next() was not handed a peer within %v although activeCount=%d", c17Watchdog, x.p.len()))
		x.events = append(x.events, fmt.Sprintf("EWWake %d", x.wid), fmt.Sprintf("EWTry %d", x.wid))
		x.outs = append(x.outs, "GNone")
		x.wcancel()
	}
	x.wlive = false
	x.wid++
	x.quiesce(0)
}

// apply runs one operation; a panic inside the pool is a violation and ends the sequence (false).
func (x *c17PoolRun) apply(op c17Op) bool {
	x.executed = append(x.executed, op)
	if pn := zv.Recover(func() { x.apply1(op) }); pn != "" {
		x.violation("pool-panic:"+op.Op, fmt.Sprintf("%s panicked: %s", op.Op, pn))
		x.unstable = true
		return false
	}
	return !x.aborted
}

func (x *c17PoolRun) apply1(op c17Op) {
	p := x.p
	x.r.Count("pool-op", op.Op)
	switch op.Op {
	case "add":
		p.add(c17IDs(op.Ps)...)
		x.events = append(x.events, "EAdd "+c17IntsTerm(op.Ps))
	case "remove":
		p.remove(c17IDs(op.Ps)...)
		for _, i := range op.Ps {
			x.removedSince[i] = true
		}
		x.events = append(x.events, "ERemove "+c17IntsTerm(op.Ps))
	case "get":
		var id peer.ID
		var ok bool
		if pn := zv.Recover(func() { id, ok = p.tryGet() }); pn != "" {
			x.violation("pool-tryget-panic", "tryGet panicked: "+pn)
			// the deferred unlock ran; carry on
			x.events = append(x.events, "ETryGet")
			x.outs = append(x.outs, "GPanic")
			return
		}
		x.events = append(x.events, "ETryGet")
		x.outs = append(x.outs, c17GetRes(id, ok))
		if ok {
			x.offered(id, "tryGet")
			x.r.Count("pool-get", "some")
		} else {
			x.r.Count("pool-get", "none")
			if n := p.len(); n > 0 {
				x.violation("pool-tryget-missed", fmt.Sprintf("tryGet returned nothing although activeCount=%d", n))
			}
		}
	case "cooldown":
		id := c17Peer(op.P)
		p.m.RLock()
		st, ok := p.statuses[id]
		p.m.RUnlock()
		p.putOnCooldown(id)
		if ok && st == active {
			x.lastCooldown[op.P] = x.now()
			x.removedSince[op.P] = false
			x.r.Count("pool-op", "cooldown-effective")
		}
		x.events = append(x.events, "ECooldown "+zv.N(uint64(op.P)))
	case "cleanup":
		p.m.Lock()
		p.cleanup()
		p.m.Unlock()
		x.events = append(x.events, "ECleanup")
	case "tick":
		q := p.cooldown
		if x.wlive {
			// the timer releases the expired items one by one with pool.m free in between, so a parked waiter races
			// with the second release; keep the sequential run deterministic: at most one release while a waiter is parked
			q.Lock()
			n := 0
			for _, it := range q.items {
				if x.mock.Since(it.createdAt)+time.Duration(op.D)*c17Unit >= q.ttl {
					n++
				}
			}
			q.Unlock()
			if n >= 2 {
				x.wcancel()
				x.wlive = false
				x.events = append(x.events, fmt.Sprintf("EWCancel %d", x.wid))
				x.wid++
				x.quiesce(0)
				x.r.Count("pool-op", "waiter-cancelled-before-multi-release")
			}
		}
		qlen := q.len()
		x.mock.Add(time.Duration(op.D) * c17Unit)
		// block until the timer callbacks released every expired item (bounded by the watchdog)
		deadline := time.Now().Add(c17Watchdog)
		for {
			q.Lock()
			done := len(q.items) == 0 || x.mock.Since(q.items[0].createdAt) < q.ttl
			q.Unlock()
			if done {
				break
			}
			if time.Now().After(deadline) {
				c17WatchdogHits++
				x.violation("pool-cooldown-not-released", fmt.Sprintf("an expired cool-down entry was not released within %v of the timer's deadline", c17Watchdog))
				break
			}
			time.Sleep(20 * time.Microsecond)
		}
		x.quiesce(x.live())
		x.events = append(x.events, "EAdvance "+zv.N(uint64(op.D)))
		for i := 0; i < qlen; i++ {
			x.events = append(x.events, "EExpire")
		}
		if after := q.len(); after < qlen {
			x.r.Count("pool-op", "tick-released")
		}
	case "wait":
		if x.wlive {
			return
		}
		ctx, cancel := context.WithCancel(context.Background())
		x.wch, x.wcancel, x.wlive = p.next(ctx), cancel, true
		if p.len() <= 0 {
			// the waiter's tryGet fails and it parks on hasPeerCh (if it has not got that far yet the observable
			// outcome is the same: a failing tryGet does not change the pool)
			x.events = append(x.events, fmt.Sprintf("EWTry %d", x.wid), fmt.Sprintf("EWRead %d", x.wid))
			x.outs = append(x.outs, "GNone")
			x.r.Count("pool-op", "waiter-parked")
		} else {
			select {
			case id := <-x.wch:
				x.events = append(x.events, fmt.Sprintf("EWTry %d", x.wid))
				x.outs = append(x.outs, c17GetRes(id, true))
				x.offered(id, "next")
			case <-time.After(c17Watchdog):
				c17WatchdogHits++
				x.violation("pool-next-hang", "next() did not deliver although a peer was active")
				x.events = append(x.events, fmt.Sprintf("EWTry %d", x.wid))
				x.outs = append(x.outs, "GNone")
				cancel()
			}
			x.wlive = false
			x.wid++
			x.quiesce(0)
		}
		return
	case "cancel":
		if !x.wlive {
			return
		}
		x.wcancel()
		x.wlive = false
		x.events = append(x.events, fmt.Sprintf("EWCancel %d", x.wid))
		x.wid++
		x.quiesce(0)
	}
	x.collect()
	if msg := c17PoolInvariants(p); msg != "" {
		x.violation("pool-bookkeeping", msg)
	}
}

func (x *c17PoolRun) finish(gs *c17Groups, idx int, nontrivial bool) {
	if x.wlive {
		x.wcancel()
		x.wlive = false
		x.events = append(x.events, fmt.Sprintf("EWCancel %d", x.wid))
		x.quiesce(0)
	}
	if x.unstable || x.aborted {
		return
	}
	final := c17PoolObs(x.p, x.seq.NPeers)
	term := zv.App("mkCase", zv.N(uint64(x.seq.TTL)), zv.Z(int64(x.seq.Thr)), zv.Nat(x.seq.NPeers),
		zv.List(x.events), zv.List(x.outs), final)
	key := ""
	if nontrivial {
		key = "nt"
	}
	gs.get(idx).Case(term, c17PoolCase{Seq: x.seq, Events: x.events, Outs: x.outs, Final: final}, key)
}

// c17GenOp picks the next operation from the real pool's current state (deterministic for a seed because the
// sequential behaviour of the pool is).
func (x *c17PoolRun) genOp(rng *zv.Rand) c17Op {
	n := x.seq.NPeers
	some := func(k int) []int {
		ps := make([]int, 1+rng.Intn(k))
		for i := range ps {
			ps[i] = rng.Intn(n)
		}
		return ps
	}
	// a peer that currently has the given status, or a random one
	with := func(st status) int {
		x.p.m.RLock()
		defer x.p.m.RUnlock()
		var c []int
		for i := 0; i < n; i++ {
			if s, ok := x.p.statuses[c17Peer(i)]; ok && s == st {
				c = append(c, i)
			}
		}
		if len(c) == 0 || rng.Chance(15) {
			return rng.Intn(n)
		}
		return c[rng.Intn(len(c))]
	}
	switch k := rng.Intn(100); {
	case k < 18:
		return c17Op{Op: "add", Ps: some(3)}
	case k < 32:
		if rng.Bool() {
			return c17Op{Op: "remove", Ps: []int{with(cooldown)}}
		}
		return c17Op{Op: "remove", Ps: some(2)}
	case k < 54:
		return c17Op{Op: "get"}
	case k < 72:
		return c17Op{Op: "cooldown", P: with(active)}
	case k < 88:
		return c17Op{Op: "tick", D: zv.Pick(rng, []int{0, 1, 1, 2, 3, 5, 8, 9, 10, 11, 20})}
	case k < 90:
		return c17Op{Op: "cleanup"}
	case k < 97:
		return c17Op{Op: "wait"}
	default:
		return c17Op{Op: "cancel"}
	}
}

func c17SeqNontrivial(ops []c17Op) bool {
	var cd, rm, tick bool
	for _, o := range ops {
		switch o.Op {
		case "cooldown":
			cd = true
		case "remove":
			rm = rm || cd
		case "tick":
			tick = tick || cd
		}
	}
	return cd && rm && tick
}

// scripted sequences: the unit tests' scenarios, the confirmed defect and its neighbours
func c17Scripted() []c17Seq {
	a := func(ps ...int) c17Op { return c17Op{Op: "add", Ps: ps} }
	rm := func(ps ...int) c17Op { return c17Op{Op: "remove", Ps: ps} }
	get := c17Op{Op: "get"}
	cd := func(p int) c17Op { return c17Op{Op: "cooldown", P: p} }
	tick := func(d int) c17Op { return c17Op{Op: "tick", D: d} }
	wait := c17Op{Op: "wait"}
	mk := func(thr int, ops ...c17Op) c17Seq {
		return c17Seq{Kind: "pool-seq", TTL: 10, Thr: thr, NPeers: 6, Ops: ops}
	}
	return []c17Seq{
		// cool-down, remove, re-add, cool-down again 9 s later: the stale first entry must not release the peer at 10 s
		mk(2, a(0), cd(0), rm(0), a(0), tick(9), cd(0), tick(2), get, tick(7), get, tick(1), get),
		mk(3, a(0, 1), cd(0), rm(0), a(0), tick(9), cd(0), tick(2), get, get, tick(8), get, get),
		// cool-down then remove and re-add: the peer must stay unavailable until the cool-down elapses
		mk(2, a(0), cd(0), rm(0), a(0), get, tick(5), get, tick(5), get),
		mk(2, a(0, 1), get, cd(0), get, rm(0), get, a(0), get, get, tick(10), get, get),
		// unit-test scenarios
		mk(2, a(1, 1, 2, 3), rm(1, 2), get, rm(3), rm(3), get),
		mk(2, a(1, 1, 2, 3), get, get, get, get, rm(2, 3), get),
		mk(3, a(1, 2, 3, 4, 5), get, get, get, get, rm(4, 5), rm(3), get),
		mk(2, a(1), get, cd(1), get, wait, tick(10)),
		mk(3, a(1), rm(1), c17Op{Op: "cleanup"}, cd(1), get),
		// waiters
		mk(2, wait, a(2), get), mk(2, wait, c17Op{Op: "cancel"}, a(2), get), mk(2, a(1), cd(1), wait, tick(9), tick(1), get),
		mk(2, a(0, 1, 2), cd(0), tick(3), cd(1), tick(3), cd(2), get, wait, tick(4), get, tick(3), get, tick(3), get, get, get),
	}
}

func c17Pool(t *testing.T, r *zv.Run) {
	gs := &c17Groups{r: r, name: "pool", header: c17PoolHeader, typ: "case", f: "mismatches"}
	rng := r.Rand().Fork(1)

	var replay c17Seq
	if r.ReplayInput(&replay) && replay.Kind == "pool-seq" {
		x := c17NewPoolRun(r, replay)
		for _, op := range replay.Ops {
			if !x.apply(op) {
				break
			}
		}
		x.finish(gs, 0, true)
		return
	}

	for i, seq := range c17Scripted() {
		x := c17NewPoolRun(r, seq)
		for _, op := range seq.Ops {
			if !x.apply(op) {
				break
			}
		}
		x.finish(gs, i, true)
		r.Count("pool-seq", "scripted")
	}
	n := r.N(500, 12000)
	for i := 0; i < n && c17WatchdogHits < 3; i++ {
		cr := rng.Fork(uint64(i))
		seq := c17Seq{Kind: "pool-seq", TTL: 10, Thr: zv.Pick(cr, []int{2, 2, 2, 1, 3, 0}), NPeers: 3 + cr.Intn(4)}
		x := c17NewPoolRun(r, seq)
		ln := 8 + cr.Intn(40)
		for j := 0; j < ln; j++ {
			op := x.genOp(cr)
			x.seq.Ops = append(x.seq.Ops, op)
			if !x.apply(op) {
				break
			}
		}
		x.finish(gs, i, c17SeqNontrivial(x.seq.Ops))
		r.Count("pool-seq", "random")
	}
}

// ---------------------------------------------------------------------------------------------------------------
// L3: the lock-order inversion, as a deterministic two-thread schedule against the real pool.
//
//	T1 (cool-down timer): releaseExpired holds the queue mutex and calls pool.afterCooldown (wants pool.m)
//	T2 (any caller):      putOnCooldown holds pool.m and calls queue.push (wants the queue mutex)
//
// The callback is wrapped so that T1 parks inside it (queue mutex held by the real code, not by the harness) until
// T2 owns pool.m; from then on neither can proceed.  On a tree where callbacks run without the queue mutex (or
// pool.m is released before push) both threads finish at once.
func c17Deadlock(t *testing.T, r *zv.Run) (deadlocked bool) {
	ttl := 10 * c17Unit
	p := newPool(ttl)
	mock := clock.NewMock()
	p.cooldown.clock = mock
	a, b := c17Peer(0), c17Peer(1)
	p.add(a, b)
	p.putOnCooldown(a)

	inCallback := make(chan struct{})
	proceed := make(chan struct{})
	t1Done := make(chan struct{})
	var once sync.Once
	orig := p.cooldown.onPop
	p.cooldown.onPop = func(id peer.ID) {
		first := false
		once.Do(func() { first = true })
		if first {
			close(inCallback)
			<-proceed
		}
		orig(id)
		if first {
			close(t1Done)
		}
	}
	go mock.Add(ttl) // T1: the timer fires releaseExpired
	select {
	case <-inCallback:
	case <-time.After(c17Watchdog):
		r.Violation("pool-cooldown-not-released", "the cool-down timer never ran the release callback", "deadlock-schedule")
		close(proceed)
		return false
	}
	queueHeld := !p.cooldown.TryLock()
	if !queueHeld {
		p.cooldown.Unlock()
	}
	t2Done := make(chan struct{})
	go func() { // T2
		p.putOnCooldown(b)
		close(t2Done)
	}()
	// wait until T2 owns pool.m, or queues up behind the queue mutex, or is already through (bounded: if none of
	// these is seen within a second T1 is released anyway and the schedule simply completes)
	deadline := time.Now().Add(time.Second)
wait:
	for time.Now().Before(deadline) {
		select {
		case <-t2Done:
			break wait
		default:
		}
		if c17MutexWaiters(&p.cooldown.Mutex) > 0 {
			break
		}
		if p.m.TryLock() {
			p.m.Unlock()
			time.Sleep(50 * time.Microsecond)
			continue
		}
		break
	}
	close(proceed)
	r.Set("deadlock_schedule_callback_under_queue_lock", queueHeld)
	both := func() bool {
		select {
		case <-t1Done:
		default:
			return false
		}
		select {
		case <-t2Done:
			return true
		default:
			return false
		}
	}
	deadline = time.Now().Add(3 * time.Second)
	for !both() && time.Now().Before(deadline) {
		time.Sleep(200 * time.Microsecond)
	}
	if both() {
		r.Count("deadlock-schedule", "completed")
		return false
	}
	// confirm the cycle structurally: both mutexes are held and stay held
	poolHeld, qHeld := true, true
	for i := 0; i < 50; i++ {
		if p.m.TryLock() {
			p.m.Unlock()
			poolHeld = false
		}
		if p.cooldown.TryLock() {
			p.cooldown.Unlock()
			qHeld = false
		}
		time.Sleep(2 * time.Millisecond)
	}
	r.Count("deadlock-schedule", "hung")
	r.Violation("deadlock-lock-cycle-pool.m<->timedQueue.mu",
		fmt.Sprintf("two-thread schedule hangs: the cool-down timer holds the queue mutex inside releaseExpired and waits for pool.m in afterCooldown, "+
			"putOnCooldown holds pool.m and waits for the queue mutex in push (pool.m held=%v, queue mutex held=%v after 3s); "+
			"every later call on this pool blocks forever", poolHeld, qHeld),
		map[string]any{"kind": "deadlock-schedule", "schedule": []string{
			"add(p0,p1)", "putOnCooldown(p0) at t=0", "T1: clock reaches t=ttl, timer runs releaseExpired: Lock(queue); calls afterCooldown(p0) [parked before Lock(pool.m)]",
			"T2: putOnCooldown(p1): Lock(pool.m); push -> Lock(queue) blocks", "T1 resumes: Lock(pool.m) blocks", "deadlock"}})
	return true
}

// ---------------------------------------------------------------------------------------------------------------
// L3: concurrent stress with a watchdog (hang oracle) and the bookkeeping invariants at quiescence.
func c17Stress(t *testing.T, r *zv.Run) {
	rounds := r.N(6, 120)
	rng := r.Rand().Fork(3)
	for round := 0; round < rounds; round++ {
		ttl := 4 * time.Millisecond
		p := newPool(ttl)
		mock := clock.NewMock()
		p.cooldown.clock = mock
		const npeers = 6
		workers := 4
		opsPer := r.N(300, 1500)
		var wg sync.WaitGroup
		var progress atomic.Int64
		ctx, cancel := context.WithCancel(context.Background())
		for w := 0; w < workers; w++ {
			wr := rng.Fork(uint64(round*100 + w))
			wg.Add(1)
			go func() {
				defer wg.Done()
				defer func() {
					if e := recover(); e != nil {
						r.Violation("pool-panic:stress", fmt.Sprintf("a pool method panicked under concurrent use: %v", e),
							map[string]any{"kind": "stress", "round": round})
					}
				}()
				for i := 0; i < opsPer; i++ {
					switch k := wr.Intn(100); {
					case k < 25:
						p.add(c17Peer(wr.Intn(npeers)), c17Peer(wr.Intn(npeers)))
					case k < 40:
						p.remove(c17Peer(wr.Intn(npeers)))
					case k < 60:
						if id, ok := p.tryGet(); ok && wr.Chance(70) {
							p.putOnCooldown(id)
						}
					case k < 80:
						p.putOnCooldown(c17Peer(wr.Intn(npeers)))
					case k < 88: // the read-only entry points the manager uses
						_ = p.has(c17Peer(wr.Intn(npeers)))
						_ = p.peers()
						_ = p.len()
					default:
						c, cn := context.WithCancel(ctx)
						select {
						case id := <-p.next(c):
							p.putOnCooldown(id)
						case <-time.After(200 * time.Microsecond):
						}
						cn()
					}
					progress.Add(1)
				}
			}()
		}
		stop := make(chan struct{})
		clockDone := make(chan struct{})
		go func() { // the clock: every Add fires the due cool-down timers
			defer close(clockDone)
			for {
				select {
				case <-stop:
					return
				default:
					mock.Add(time.Millisecond)
				}
			}
		}()
		workersDone := make(chan struct{})
		go func() { wg.Wait(); close(workersDone) }()
		hung := false
		last, lastChange := int64(-1), time.Now()
	watch:
		for {
			select {
			case <-workersDone:
				break watch
			case <-time.After(time.Millisecond):
			}
			if cur := progress.Load(); cur != last {
				last, lastChange = cur, time.Now()
			} else if time.Since(lastChange) > c17Watchdog/2 {
				hung = true
				break watch
			}
		}
		close(stop)
		cancel()
		if hung {
			c17PoolWedged = true
			r.Count("stress", "hung")
			r.Violation("deadlock-lock-cycle-pool.m<->timedQueue.mu",
				fmt.Sprintf("concurrent stress (4 workers + cool-down timer) made no progress for %v: calls on the pool hang", c17Watchdog/2),
				map[string]any{"kind": "stress", "round": round})
			return // the pool is wedged; its goroutines are leaked
		}
		<-clockDone
		r.Count("stress", "completed")
		// quiescence: let every pending cool-down expire, then check the books and that waiters are served
		deadline := time.Now().Add(c17Watchdog)
		for i := 0; (i < 3 || p.cooldown.len() > 0) && time.Now().Before(deadline); i++ {
			mock.Add(ttl)
		}
		time.Sleep(2 * time.Millisecond)
		rep := map[string]any{"kind": "stress", "round": round}
		if msg := c17PoolInvariants(p); msg != "" {
			r.Violation("pool-bookkeeping", "after concurrent stress: "+msg, rep)
		}
		p.m.RLock()
		for id, st := range p.statuses {
			if st == cooldown {
				r.Violation("pool-cooldown-not-released", fmt.Sprintf("after concurrent stress %s is stuck on cool-down with an empty queue", id), rep)
				break
			}
		}
		p.m.RUnlock()
		p.remove(c17IDs([]int{0, 1, 2, 3, 4, 5})...)
		wctx, wcancel := context.WithCancel(context.Background())
		chs := []<-chan peer.ID{p.next(wctx), p.next(wctx), p.next(wctx)}
		p.add(c17Peer(7))
		for _, ch := range chs {
			select {
			case id := <-ch:
				if id != c17Peer(7) {
					r.Violation("pool-offered-inactive", "waiter got "+string(id)+" from a pool whose only active peer is p7", rep)
				}
			case <-time.After(c17Watchdog):
				r.Violation("pool-waiter-not-woken", "after concurrent stress a caller blocked in next() was not woken by add", rep)
			}
		}
		wcancel()
	}
}

// c17PoolWedged: the concurrent stress found calls on the pool hanging
var c17PoolWedged bool

// c17MutexWaiters reads the waiter count out of a sync.Mutex (state >> mutexWaiterShift). Used to shorten a
// bounded wait in the deadlock schedule and to see a parked call queue up behind a mutex the scheduler holds; a wrong
// answer costs time, not correctness.
func c17MutexWaiters(m *sync.Mutex) int32 {
	return atomic.LoadInt32((*int32)(unsafe.Pointer(m))) >> 3
}

func TestVerifC17(t *testing.T) {
	r := zv.Start(t, "C17")
	defer r.Finish()
	if r.Replay != "" {
		var k struct {
			Kind string `json:"kind"`
		}
		r.ReplayInput(&k)
		switch k.Kind {
		case "pool-seq":
			c17Pool(t, r)
		case "pool-fine":
			c17PoolFine(t, r)
		case "mgr-seq":
			c17Manager(t, r)
		case "mgr-fine":
			c17Fine(t, r)
		case "stress":
			c17Stress(t, r)
		default:
			c17Deadlock(t, r)
		}
		return
	}
	c17Pool(t, r)
	c17PoolFine(t, r)
	c17Manager(t, r)
	deadlocked := false
	if pn := zv.Recover(func() { deadlocked = c17Deadlock(t, r) }); pn != "" {
		r.Violation("pool-panic:deadlock-schedule", "a pool method panicked in the two-thread schedule: "+pn, map[string]any{"kind": "deadlock-schedule"})
	}
	if deadlocked {
		r.Count("stress", "skipped-pool-deadlocks")
		return
	}
	if pn := zv.Recover(func() { c17Stress(t, r) }); pn != "" {
		r.Violation("pool-panic:stress", "a pool method panicked after concurrent use: "+pn, map[string]any{"kind": "stress"})
	}
	if c17PoolWedged {
		// the lock-granularity schedules park real calls on the pool's mutexes; on a pool that deadlocks they would hang too
		r.Count("fine-seq", "skipped-pool-deadlocks")
		return
	}
	c17Fine(t, r)
}
